(* Equality of IndexMetadata.get_canonical_pool / register_canonical_pool (index.py) and MetaVersion.is_valid
   (version.py), as GENERATED from /repo's source by harness/translate/py2coq.py (coq/Gen/Py_index.v,
   coq/Gen/Py_version.v), with Model/Index.v.  docs/py2coq.md. *)
From Coq Require Import ZArith List Bool Lia ZifyBool.
From MoPep Require Import Model.Base Model.PyRt Gen.Version Model.Index Gen.Py_index Gen.Py_version.
Import ListNotations.
Open Scope Z_scope.

Ltac pi_if :=
  match goal with
  | |- context [if ?b then _ else _] => let C := fresh "C" in destruct b eqn:C
  end.

Lemma code_get_canonical_pool_is_model_l : forall m cp,
  py_get_canonical_pool m cp = get_pool cp (m_pools m).
Proof.
  intros m cp.
  assert (L : forall l : list poolmeta,
    match py_get_canonical_pool_loop1 m cp cp l with Done r => r | Continue _ => None end = get_pool cp l).
  { induction l as [|pm t IH]; [reflexivity|].
    cbn [py_get_canonical_pool_loop1 get_pool]. cbv zeta. pi_if; [reflexivity | apply IH]. }
  unfold py_get_canonical_pool. cbv zeta. apply L.
Qed.

(* register: `max(it.index for it in pools) + 1 if pools else 1`, the file name, the appended entry *)
Lemma code_register_canonical_pool_is_model_l : forall m cp,
  py_register_canonical_pool m cp = register m cp.
Proof.
  intros m cp. unfold py_register_canonical_pool, register, next_index, py_max_map. cbv zeta.
  change (index_rule =? 1) with true. cbv iota.
  destruct (is_some (get_pool cp (m_pools m))); [reflexivity|].
  destruct (m_pools m) as [|pm t]; reflexivity.
Qed.

Lemma code_is_valid_is_model_l : forall cur rec, py_is_valid cur rec = is_valid cur rec.
Proof.
  intros cur rec. unfold py_is_valid, py_is_valid_mpg_version, is_valid. cbv zeta.
  destruct (eq_seq (v_py cur) (v_py rec)); [|reflexivity].
  destruct (eq_seq (v_bio cur) (v_bio rec)); [|reflexivity].
  destruct (get_semver (v_mpg rec)); [|reflexivity].
  destruct (get_semver minimal_version); [|reflexivity].
  destruct (lex_ge l l0); reflexivity.
Qed.
