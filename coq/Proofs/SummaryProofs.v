(* summary_matches_split: Model/Split.v summarize vs split. *)
From Coq Require Import ZArith List Bool Lia ZifyBool Permutation.
From MoPep Require Import Model.Base Gen.HeaderCfg Model.Header Model.Filter Model.Split
  Proofs.FilterProofs Proofs.SplitOrder Proofs.SplitProofs.
Import ListNotations.
Open Scope Z_scope.

(* ---- the exact precondition ---- *)
(* no key of the order holds '+' or '*' *)
Definition no_wild_keys (lv : levels) : Prop := forall kv, In kv lv -> key_has_wild (fst kv) = false.
(* different source sets have different ranks (holds for an order built by mk_order: levels are distinct) *)
Definition rank_injective (lv : levels) : Prop :=
  forall A B r, to_int lv A = Ok r -> to_int lv B = Ok r -> set_eq A B = true.

Lemma kinsert_In : forall kv l x, In x (kinsert kv l) <-> x = kv \/ In x l.
Proof.
  induction l as [|y l IH]; intros x; cbn [kinsert In].
  - split; [intros [H|[]]; auto|intros [H|[]]; auto].
  - destruct (snd kv <? snd y); cbn [In].
    + split; [intros [H|H]; auto|intros [H|H]; auto].
    + rewrite IH. split; [intros [H|[H|H]]; auto|intros [H|[H|H]]; auto].
Qed.

Lemma by_level_In : forall lv x, In x (by_level lv) <-> In x lv.
Proof.
  induction lv as [|kv lv IH]; intros x; cbn [by_level fold_right In]. tauto.
  fold (by_level lv). rewrite kinsert_In, IH. split; intros [H|H]; auto.
Qed.

Lemma wild_lookup_set_eq : forall lv all S K,
  no_wild_keys lv -> wild_lookup lv all S = Some K -> set_eq K S = true.
Proof.
  unfold wild_lookup. intros lv all S K Hn H.
  destruct (find (fun kv => key_matches all (fst kv) S) (by_level lv)) as [[k z]|] eqn:E; try discriminate.
  inversion H; subst K. apply find_some in E. destruct E as [Hin Hm]. cbn [fst] in Hm.
  apply (proj1 (by_level_In _ _)) in Hin. specialize (Hn _ Hin). cbn [fst] in Hn.
  unfold key_matches in Hm. rewrite Hn in Hm. cbn [negb] in Hm. exact Hm.
Qed.

Lemma map_wild_set_eq : forall c e e', no_wild_keys (c_levels c) ->
  map_wild c e = Ok e' -> set_eq (si_sources e') (si_sources e) = true.
Proof.
  unfold map_wild. intros c e e' Hn H.
  destruct (wild_lookup (c_levels c) (c_all c) (si_sources e)) as [K|] eqn:E.
  - unfold validate_set in H. destruct (forallb _ K); cbn [bind] in H; try discriminate.
    inversion H. cbn [si_sources]. apply (wild_lookup_set_eq _ _ _ _ Hn E).
  - inversion H. apply set_eq_refl.
Qed.

Lemma Forall2_In_l : forall {A B} (R : A -> B -> Prop) l l' x, Forall2 R l l' -> In x l -> exists y, In y l' /\ R x y.
Proof.
  induction 1; intros Hx; [destruct Hx|]. destruct Hx as [Hx|Hx].
  - subst. exists y. split; [left|]; auto.
  - destruct (IHForall2 Hx) as [y' [H1 H2]]. exists y'. split; [right|]; auto.
Qed.
Lemma Forall2_In_r : forall {A B} (R : A -> B -> Prop) l l' y, Forall2 R l l' -> In y l' -> exists x, In x l /\ R x y.
Proof.
  induction 1; intros Hy; [destruct Hy|]. destruct Hy as [Hy|Hy].
  - subst. exists x. split; [left|]; auto.
  - destruct (IHForall2 Hy) as [x' [H1 H2]]. exists x'. split; [right|]; auto.
Qed.

(* two mutually not-greater source sets are the same set *)
Lemma src_le_antisym : forall lv A B, rank_injective lv ->
  src_le lv A B -> src_le lv B A -> set_eq A B = true.
Proof.
  unfold src_le, src_gt. intros lv A B Hinj H1 H2. rewrite (set_eq_sym B A) in H2.
  destruct (set_eq A B) eqn:E; auto.
  destruct (to_int lv A) as [ra|] eqn:Ea; cbn [bind] in *; try discriminate.
  destruct (to_int lv B) as [rb|] eqn:Eb; cbn [bind] in *; try discriminate.
  injection H1 as H1. injection H2 as H2.
  assert (ra = rb) by (apply ints_antisym; auto). subst rb.
  rewrite (Hinj A B ra Ea Eb) in E. discriminate.
Qed.

Lemma set_str_cong : forall lv A B, set_eq A B = true -> set_str lv A = set_str lv B.
Proof.
  intros lv A B H. unfold set_str.
  rewrite (mem_seq_cong s_star A B H), (mem_seq_cong s_plus A B H). f_equal. f_equal.
  induction (by_level lv) as [|[[x|l] z] t IH]; cbn [flat_map fst]; auto.
  rewrite (mem_seq_cong x A B H), IH. reflexivity.
Qed.

(* one peptide: the database splitFasta writes it to is the row summarizeFasta counts it in *)
Lemma summary_matches_split_pep : forall c p k s sorted S,
  no_wild_keys (c_levels c) -> rank_injective (c_levels c) ->
  split_pep c p = Ok (k, (s, sorted)) ->
  summary_key (c_levels c) p = Ok S ->
  (forall h t, sorted = h :: t -> set_len (si_sources h) <= c_max_groups c) ->
  k = set_str (c_levels c) S.
Proof.
  intros c p k s sorted S Hnw Hinj Hsp Hsum Hmax.
  destruct (split_pep_spec _ _ _ _ _ Hsp) as [_ [_ [h [t [es' [Hsorted [Hk [Hm [Hin Hmin]]]]]]]]].
  unfold summary_key in Hsum.
  destruct (sort_infos (c_levels c) (snd p)) as [so|] eqn:Es; cbn [bind] in Hsum; try discriminate.
  destruct so as [|g tg]; try discriminate. inversion Hsum; subst S.
  destruct (sort_head_minimal _ _ _ _ Es) as [Hgin Hgmin].
  assert (HF : Forall2 (fun e e' => set_eq (si_sources e') (si_sources e) = true) (snd p) es').
  { apply mapM_ok in Hm. clear -Hm Hnw. induction Hm; constructor; auto. eapply map_wild_set_eq; eauto. }
  destruct (Forall2_In_l _ _ _ g HF Hgin) as [g' [Hg'in Hg']].
  destruct (Forall2_In_r _ _ _ h HF Hin) as [h0 [Hh0in Hh0]].
  assert (L1 : src_le (c_levels c) (si_sources h) (si_sources g)).
  { unfold src_le. rewrite <- (src_gt_cong_r _ _ _ _ Hg'). apply Hmin. exact Hg'in. }
  assert (L2 : src_le (c_levels c) (si_sources g) (si_sources h)).
  { unfold src_le. rewrite (src_gt_cong_r _ _ _ _ Hh0). apply Hgmin. exact Hh0in. }
  pose proof (src_le_antisym _ _ _ Hinj L1 L2) as Heq.
  rewrite Hk. unfold db_key. specialize (Hmax h t Hsorted).
  replace (set_len (si_sources h) <=? c_max_groups c) with true by lia.
  apply set_str_cong. exact Heq.
Qed.

(* ---- counting ---- *)
Lemma count_of_add : forall S T t,
  count_of S (count_add T t) = count_of S t + (if set_eq T S then 1 else 0).
Proof.
  induction t as [|[K n] r IH]; cbn [count_add count_of].
  - destruct (set_eq T S); lia.
  - destruct (set_eq K T) eqn:Ekt; cbn [count_of].
    + rewrite <- (set_eq_cong_l K T S Ekt). destruct (set_eq K S); lia.
    + destruct (set_eq K S) eqn:Eks; [|exact IH].
      destruct (set_eq T S) eqn:Ets; [|lia].
      rewrite set_eq_sym in Ets. rewrite (set_eq_trans K S T Eks Ets) in Ekt. discriminate.
Qed.

Lemma count_of_fold : forall S ks t,
  count_of S (fold_left (fun t T => count_add T t) ks t) =
  count_of S t + Z.of_nat (length (filter (fun T => set_eq T S) ks)).
Proof.
  induction ks as [|T ks IH]; intros t; cbn [fold_left filter length]. lia.
  rewrite IH, count_of_add. destruct (set_eq T S); cbn [length]; lia.
Qed.

Lemma Permutation_filter' : forall {A} (f : A -> bool) l l', Permutation l l' -> Permutation (filter f l) (filter f l').
Proof.
  induction 1; cbn [filter]; auto.
  - destruct (f x); auto.
  - destruct (f x), (f y); auto. apply perm_swap.
  - eapply Permutation_trans; eauto.
Qed.

(* summary_matches_split *)
Theorem summary_matches_split_l : forall c pool a t,
  no_wild_keys (c_levels c) -> rank_injective (c_levels c) ->
  split_assign c pool = Ok a ->
  summarize (c_levels c) pool = Ok t ->
  (* no peptide was sent to Remaining / an additional database: *)
  (forall kx h tl, In kx a -> snd (snd kx) = h :: tl -> set_len (si_sources h) <= c_max_groups c) ->
  exists ks,
    mapM (summary_key (c_levels c)) (dedup pool) = Ok ks /\
    (* per peptide: database key = name of the summary row it is counted in *)
    map fst a = map (set_str (c_levels c)) ks /\
    (* n_total of a source set = number of peptides whose summary key is that set *)
    (forall S, count_of S t = Z.of_nat (length (filter (fun T => set_eq T S) ks))) /\
    (* size of the database with a given key = number of peptides assigned that key *)
    (forall name, length (filter (fun kx => eq_seq (fst kx) name) (flat_dbs (group_by_key a))) =
                  length (filter (fun k => eq_seq k name) (map fst a))).
Proof.
  intros c pool a t Hnw Hinj Ha Ht Hmax.
  unfold summarize in Ht.
  destruct (mapM (summary_key (c_levels c)) (dedup pool)) as [ks|] eqn:Ek; cbn [bind] in Ht; try discriminate.
  inversion Ht; subst t. exists ks. split; [reflexivity|]. split; [|split].
  - unfold split_assign in Ha.
    destruct (negb (wild_ok (c_levels c))); try discriminate.
    destruct (mapM (validate_set (c_levels c)) (c_additional c)) as [vv|]; cbn [bind] in Ha; try discriminate.
    apply mapM_ok in Ha. apply mapM_ok in Ek.
    clear Ht. revert ks Ek Hmax. induction Ha; intros ks Ek Hmax; inversion Ek; subst; cbn [map]. reflexivity.
    f_equal.
    + destruct y as [k [s sorted]]. cbn [fst].
      eapply summary_matches_split_pep; eauto.
      intros h tl Hs. apply (Hmax (k, (s, sorted)) h tl); [left; reflexivity|exact Hs].
    + apply IHHa; auto. intros kx h tl Hin. apply Hmax. right. exact Hin.
  - intro S. rewrite count_of_fold. cbn [count_of]. lia.
  - intro name. rewrite (Permutation_length (Permutation_filter' _ _ _ (flat_group a))).
    clear. induction a as [|[k x] a IH]; cbn [filter map fst length]; auto.
    destruct (eq_seq k name); cbn [length]; rewrite IH; reflexivity.
Qed.

(* ---- rank_injective holds whenever the levels are pairwise distinct (as mk_order builds them) ---- *)
Lemma nodup_snd_inj : forall (lv : levels) k1 k2 z, NoDup (map snd lv) -> In (k1, z) lv -> In (k2, z) lv -> k1 = k2.
Proof.
  induction lv as [|[k z'] lv IH]; intros k1 k2 z Hn H1 H2; [destruct H1|].
  cbn [map snd] in Hn. inversion Hn; subst.
  destruct H1 as [H1|H1], H2 as [H2|H2].
  - congruence.
  - inversion H1; subst. exfalso. apply H3. apply (in_map snd) in H2. exact H2.
  - inversion H2; subst. exfalso. apply H3. apply (in_map snd) in H1. exact H1.
  - eapply IH; eauto.
Qed.

Lemma level_of_set_In : forall lv S z, level_of_set lv S = Some z -> exists l, In (KSet l, z) lv /\ set_eq l S = true.
Proof.
  induction lv as [|[[s|l] z'] lv IH]; intros S z H; cbn [level_of_set] in H; try discriminate.
  - destruct (IH _ _ H) as [l [H1 H2]]. exists l. split; [right|]; auto.
  - destruct (set_eq l S) eqn:E.
    + inversion H; subst. exists l. split; [left|]; auto.
    + destruct (IH _ _ H) as [l' [H1 H2]]. exists l'. split; [right|]; auto.
Qed.

Lemma level_of_str_In : forall lv s z, level_of_str lv s = Some z -> In (KStr s, z) lv.
Proof.
  induction lv as [|[[s'|l] z'] lv IH]; intros s z H; cbn [level_of_str] in H; try discriminate.
  - destruct (eq_seq s s') eqn:E.
    + apply eq_seq_true in E. inversion H; subst. left. reflexivity.
    + right. apply IH. exact H.
  - right. apply IH. exact H.
Qed.

Lemma distinct_levels_rank_injective : forall lv, NoDup (map snd lv) -> rank_injective lv.
Proof.
  intros lv Hn A B r Ha Hb. unfold to_int in Ha, Hb.
  destruct (level_of_set lv A) as [za|] eqn:Ea; destruct (level_of_set lv B) as [zb|] eqn:Eb.
  - inversion Ha; inversion Hb; subst. inversion H1; subst zb.
    destruct (level_of_set_In _ _ _ Ea) as [la [Ia Sa]]. destruct (level_of_set_In _ _ _ Eb) as [lb [Ib Sb]].
    pose proof (nodup_snd_inj _ _ _ _ Hn Ia Ib) as E. inversion E; subst lb.
    rewrite set_eq_sym in Sa. apply (set_eq_trans A la B Sa Sb).
  - inversion Ha; subst r. exfalso.
    destruct (level_of_set_In _ _ _ Ea) as [la [Ia _]].
    fold (lvl lv) in Hb. destruct (mapM_lvl lv B) as [[Hm _]|[zs [Hm [Hz _]]]]; rewrite Hm in Hb; cbn [bind] in Hb; try discriminate.
    inversion Hb. assert (Hin : In za zs) by (apply zsort_In; rewrite H0; left; reflexivity).
    apply Hz in Hin. destruct Hin as [s [_ Hs]]. apply level_of_str_In in Hs.
    pose proof (nodup_snd_inj _ _ _ _ Hn Ia Hs). discriminate.
  - inversion Hb; subst r. exfalso.
    destruct (level_of_set_In _ _ _ Eb) as [lb [Ib _]].
    fold (lvl lv) in Ha. destruct (mapM_lvl lv A) as [[Hm _]|[zs [Hm [Hz _]]]]; rewrite Hm in Ha; cbn [bind] in Ha; try discriminate.
    inversion Ha. assert (Hin : In zb zs) by (apply zsort_In; rewrite H0; left; reflexivity).
    apply Hz in Hin. destruct Hin as [s [_ Hs]]. apply level_of_str_In in Hs.
    pose proof (nodup_snd_inj _ _ _ _ Hn Ib Hs). discriminate.
  - fold (lvl lv) in Ha, Hb.
    destruct (mapM_lvl lv A) as [[Hm _]|[za [Hma [Hza _]]]]; [rewrite Hm in Ha; discriminate|].
    destruct (mapM_lvl lv B) as [[Hm _]|[zb [Hmb [Hzb _]]]]; [rewrite Hm in Hb; discriminate|].
    rewrite Hma in Ha. rewrite Hmb in Hb. cbn [bind] in Ha, Hb. inversion Ha; inversion Hb; subst r.
    assert (G : forall X Y zx zy, (forall z, In z zx <-> exists s, In s X /\ level_of_str lv s = Some z) ->
                (forall z, In z zy <-> exists s, In s Y /\ level_of_str lv s = Some z) ->
                zsort zx = zsort zy -> forall x, In x X -> level_of_str lv x <> None -> In x Y).
    { intros X Y zx zy Hx Hy Heq x Hin Hsome.
      destruct (level_of_str lv x) as [z|] eqn:El; [|congruence].
      assert (Hz : In z zx) by (apply (proj2 (Hx _)); exists x; auto).
      apply (proj2 (zsort_In _ _)) in Hz. rewrite Heq in Hz. apply (proj1 (zsort_In _ _)) in Hz.
      apply (proj1 (Hy _)) in Hz.
      destruct Hz as [y [Hy1 Hy2]]. apply level_of_str_In in El. apply level_of_str_In in Hy2.
      pose proof (nodup_snd_inj _ _ _ _ Hn El Hy2) as E. inversion E; subst. exact Hy1. }
    destruct (mapM_lvl lv A) as [[Hm _]|[za' [Hma' [_ Hoka]]]]; [rewrite Hm in Hma; discriminate|].
    destruct (mapM_lvl lv B) as [[Hm _]|[zb' [Hmb' [_ Hokb]]]]; [rewrite Hm in Hmb; discriminate|].
    apply set_eq_In. intro x. split; intro Hx.
    + apply (G A B za zb Hza Hzb (eq_sym H1) x Hx). apply Hoka. exact Hx.
    + apply (G B A zb za Hzb Hza H1 x Hx). apply Hokb. exact Hx.
Qed.
