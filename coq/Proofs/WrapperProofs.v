(* C07 -- proofs about Model/Wrapper.v against the statement in Model/WrapperSpec.v *)
From Coq Require Import ZArith List Bool Lia ZifyBool Permutation.
From MoPep Require Import Model.Base Model.Wrapper Model.WrapperSpec.
Import ListNotations.
Open Scope Z_scope.

(* ------------------------------------------------------------------ basics *)
Lemma w_eq_seq_true : forall a b, eq_seq a b = true <-> a = b.
Proof.
  induction a as [|x a IH]; destruct b as [|y b]; simpl; split; intro H; try discriminate; auto.
  - apply andb_true_iff in H. destruct H as [H1 H2]. apply Z.eqb_eq in H1. apply IH in H2. subst. reflexivity.
  - inversion H; subst. rewrite Z.eqb_refl. simpl. apply IH. reflexivity.
Qed.

Lemma w_mem_seq_In : forall x l, mem_seq x l = true <-> In x l.
Proof.
  induction l as [|y l IH]; simpl; split; intro H; try discriminate; try contradiction.
  - apply orb_true_iff in H. destruct H as [H|H]; [left; symmetry; apply w_eq_seq_true; exact H | right; apply IH; exact H].
  - apply orb_true_iff. destruct H as [H|H]; [left; apply w_eq_seq_true; auto | right; apply IH; exact H].
Qed.

Lemma w_mem_seq_false : forall x l, mem_seq x l = false <-> ~ In x l.
Proof.
  intros. rewrite <- w_mem_seq_In. destruct (mem_seq x l); split; intro H; try discriminate; auto.
  exfalso; apply H; reflexivity.
Qed.

Lemma zlen_nonneg_w : forall A (l : list A), 0 <= zlen l.
Proof. induction l; cbn [zlen]; lia. Qed.

Lemma zlen_app_w : forall A (l m : list A), zlen (l ++ m) = zlen l + zlen m.
Proof. induction l; intros; cbn [zlen app]; [lia | rewrite IHl; lia]. Qed.

(* ------------------------------------------------------------------ peptide_anno as a keyed set *)
Lemma keys_anno_add1 : forall s ls a,
  keys (anno_add1 s ls a) = if mem_seq s (keys a) then keys a else keys a ++ [s].
Proof.
  induction a as [|[s' v] a IH]; simpl; [reflexivity|].
  destruct (eq_seq s s') eqn:E; simpl; [reflexivity|].
  unfold keys in *. rewrite IH. destruct (mem_seq s (map fst a)); reflexivity.
Qed.

Lemma In_keys_anno_add1 : forall s ls a x, In x (keys (anno_add1 s ls a)) <-> x = s \/ In x (keys a).
Proof.
  intros. rewrite keys_anno_add1. destruct (mem_seq s (keys a)) eqn:E.
  - apply w_mem_seq_In in E. split; [auto | intros [->|H]; auto].
  - rewrite in_app_iff. simpl. split; [intros [H|[H|[]]]; auto | intros [->|H]; auto].
Qed.

Lemma NoDup_keys_anno_add1 : forall s ls a, NoDup (keys a) -> NoDup (keys (anno_add1 s ls a)).
Proof.
  intros. rewrite keys_anno_add1. destruct (mem_seq s (keys a)) eqn:E; [assumption|].
  apply w_mem_seq_false in E.
  assert (NoDup (s :: keys a)) by (constructor; assumption).
  apply Permutation_NoDup with (l := s :: keys a); [|assumption].
  apply Permutation_cons_append.
Qed.

Lemma In_keys_add_peptide_anno : forall x a s,
  In s (keys (add_peptide_anno x a)) <-> In s (keys x) \/ In s (keys a).
Proof.
  induction x as [|[s' ls] x IH]; simpl; intros.
  - tauto.
  - rewrite IH, In_keys_anno_add1. split; [intros [H|[H|H]] | intros [[H|H]|H]]; auto.
Qed.

Lemma NoDup_keys_add_peptide_anno : forall x a, NoDup (keys a) -> NoDup (keys (add_peptide_anno x a)).
Proof.
  induction x as [|[s' ls] x IH]; simpl; intros; [assumption|].
  apply IH. apply NoDup_keys_anno_add1. assumption.
Qed.

Lemma In_keys_table_add : forall valid a tb s,
  In s (keys (table_add valid a tb)) <-> (In s (keys a) /\ valid s = true) \/ In s (keys tb).
Proof.
  induction a as [|[s' ls] a IH]; simpl; intros.
  - tauto.
  - rewrite IH. destruct (valid s') eqn:V.
    + rewrite In_keys_anno_add1. split.
      * intros [[H1 H2]|[->|H]]; auto.
      * intros [[[->|H1] H2]|H]; auto.
    + split.
      * intros [[H1 H2]|H]; auto.
      * intros [[[<-|H1] H2]|H]; auto. congruence.
Qed.

Lemma NoDup_keys_table_add : forall valid a tb, NoDup (keys tb) -> NoDup (keys (table_add valid a tb)).
Proof.
  induction a as [|[s' ls] a IH]; simpl; intros; [assumption|].
  apply IH. destruct (valid s'); [apply NoDup_keys_anno_add1|]; assumption.
Qed.

Lemma In_keys_filter_deny : forall deny (raw : pmap) s,
  In s (keys (filter (fun p => negb (mem_seq (fst p) deny)) raw)) <-> In s (keys raw) /\ ~ In s deny.
Proof.
  intros. unfold keys. rewrite in_map_iff. split.
  - intros [p [<- H]]. apply filter_In in H. destruct H as [H1 H2].
    split; [apply in_map; exact H1|]. apply negb_true_iff in H2. apply w_mem_seq_false in H2. exact H2.
  - intros [H1 H2]. apply in_map_iff in H1. destruct H1 as [p [<- H1]]. exists p. split; [reflexivity|].
    apply filter_In. split; [exact H1|]. apply negb_true_iff. apply w_mem_seq_false. exact H2.
Qed.

Lemma filter_deny_nil : forall (raw : pmap), filter (fun p => negb (mem_seq (fst p) [])) raw = raw.
Proof. induction raw; simpl; [reflexivity | f_equal; exact IHraw]. Qed.

(* ------------------------------------------------------------------ shapes *)
Lemma eq_zlist_true : forall a b, eq_zlist a b = true -> a = b.
Proof.
  induction a as [|x a IH]; destruct b as [|y b]; simpl; intro H; try discriminate; auto.
  apply andb_true_iff in H. destruct H as [H1 H2]. apply Z.eqb_eq in H1. apply IH in H2. subst. reflexivity.
Qed.

Lemma shape_eqb_eq : forall a b, shape_eqb a b = true -> a = b.
Proof.
  intros [a1 a2 a3 a4 a5 a6 a7 a8 a9 a10 a11] [b1 b2 b3 b4 b5 b6 b7 b8 b9 b10 b11]. unfold shape_eqb. cbn.
  intro H. repeat (apply andb_true_iff in H; destruct H as [H ?]).
  repeat match goal with
  | H : (_ =? _) = true |- _ => apply Z.eqb_eq in H
  | H : Bool.eqb _ _ = true |- _ => apply Bool.eqb_prop in H
  | H : eq_zlist _ _ = true |- _ => apply eq_zlist_true in H
  end. subst. reflexivity.
Qed.

(* ------------------------------------------------------------------ the repaired wrapper, --skip-failed *)
Definition ok_contrib (us : list unit_) (s : seq) : Prop :=
  exists u, In u us /\ u_fail u = false /\ In s (keys (u_raw u)).

Definition and2 (f : flags3) (b : bool) : flags3 := match f with (a, x, c) => (a, x && b, c) end.
Definition and3 (f : flags3) (b : bool) : flags3 := match f with (a, x, c) => (a, x, c && b) end.

Lemma fusion_loop_skip : forall fs st,
  exists st', fusion_loop shape_fixed true fs st = Ok st' /\
    (forall s, In s (keys (w_anno st')) <-> In s (keys (w_anno st)) \/ ok_contrib fs s) /\
    (NoDup (keys (w_anno st)) -> NoDup (keys (w_anno st'))) /\
    w_flags st' = and2 (w_flags st) (negb (existsb u_fail fs)) /\
    w_main_peptides st' = w_main_peptides st.
Proof.
  induction fs as [|u r IH]; intros st; cbn [fusion_loop].
  - exists st. split; [reflexivity|]. split.
    + intro s. split; [auto | intros [H|[u [[] _]]]; exact H].
    + split; [auto|]. split; [|reflexivity]. destruct (w_flags st) as [[a b] c]. cbn. rewrite andb_true_r. reflexivity.
  - unfold call_unit. destruct (u_fail u) eqn:Fu.
    + cbn [sh_fusion_flag shape_fixed].
      match goal with |- context [fusion_loop _ _ r ?S] => destruct (IH S) as [st' [E [HI [HN [HF HM]]]]] end.
      exists st'. split; [exact E|]. cbn in HI, HN, HF, HM. split.
      * intro s. rewrite HI. split.
        -- intros [H|[v [Hv1 Hv2]]]; [left; exact H | right; exists v; split; [right; exact Hv1 | exact Hv2]].
        -- intros [H|[v [[<-|Hv1] [Hv2 Hv3]]]]; [left; exact H | congruence | right; exists v; auto].
      * split; [exact HN|]. split; [|exact HM].
        rewrite HF. cbn [existsb]. rewrite Fu. destruct (w_flags st) as [[a b] c]. cbn. rewrite andb_false_r. reflexivity.
    + rewrite filter_deny_nil.
      match goal with |- context [fusion_loop _ _ r ?S] => destruct (IH S) as [st' [E [HI [HN [HF HM]]]]] end.
      exists st'. split; [exact E|]. cbn in HI, HN, HF, HM. split.
      * intro s. rewrite HI, In_keys_add_peptide_anno. split.
        -- intros [[H|H]|[v [Hv1 Hv2]]].
           ++ right. exists u. split; [left; reflexivity | split; assumption].
           ++ left. exact H.
           ++ right. exists v. split; [right; exact Hv1 | exact Hv2].
        -- intros [H|[v [[<-|Hv1] [Hv2 Hv3]]]]; [left; right; exact H | left; left; exact Hv3 | right; exists v; auto].
      * split; [intro H; apply HN; apply NoDup_keys_add_peptide_anno; exact H|]. split; [|exact HM].
        rewrite HF. cbn [existsb]. rewrite Fu. reflexivity.
Qed.

Lemma circ_loop_skip : forall deny cs st,
  exists st', circ_loop shape_fixed true deny cs st = Ok st' /\
    (forall s, In s (keys (w_anno st')) <->
               In s (keys (w_anno st)) \/ (ok_contrib cs s /\ ~ In s deny)) /\
    (NoDup (keys (w_anno st)) -> NoDup (keys (w_anno st'))) /\
    w_flags st' = and3 (w_flags st) (negb (existsb u_fail cs)) /\
    (forall k g, In (k, g) (w_graphs st') -> In (k, g) (w_graphs st) \/ k = g).
Proof.
  induction cs as [|u r IH]; intros st; cbn [circ_loop].
  - exists st. split; [reflexivity|]. split.
    + intro s. split; [auto | intros [H|[[u [[] _]] _]]; exact H].
    + split; [auto|]. split; [|auto]. destruct (w_flags st) as [[a b] c]. cbn. rewrite andb_true_r. reflexivity.
  - unfold call_unit. destruct (u_fail u) eqn:Fu.
    + cbn [sh_circ_flag sh_circ_cont shape_fixed].
      match goal with |- context [circ_loop _ _ _ r ?S] => destruct (IH S) as [st' [E [HI [HN [HF HG]]]]] end.
      exists st'. split; [exact E|]. cbn in HI, HN, HF, HG. split.
      * intro s. rewrite HI. split.
        -- intros [H|[[v [Hv1 Hv2]] Hd]]; [left; exact H | right; split; [exists v; split; [right; exact Hv1 | exact Hv2] | exact Hd]].
        -- intros [H|[[v [[<-|Hv1] [Hv2 Hv3]]] Hd]]; [left; exact H | congruence | right; split; [exists v; auto | exact Hd]].
      * split; [exact HN|]. split; [|exact HG].
        rewrite HF. cbn [existsb]. rewrite Fu. destruct (w_flags st) as [[a b] c]. cbn. rewrite andb_false_r. reflexivity.
    + cbn [circ_post w_cg w_pm w_anno w_flags w_main_peptides w_graphs].
      match goal with |- context [circ_loop _ _ _ r ?S] => destruct (IH S) as [st' [E [HI [HN [HF HG]]]]] end.
      exists st'. split; [exact E|]. cbn in HI, HN, HF, HG. split.
      * intro s. rewrite HI, In_keys_add_peptide_anno, In_keys_filter_deny. split.
        -- intros [[[H1 H2]|H]|[[v [Hv1 Hv2]] Hd]].
           ++ right. split; [exists u; split; [left; reflexivity | split; assumption] | exact H2].
           ++ left. exact H.
           ++ right. split; [exists v; split; [right; exact Hv1 | exact Hv2] | exact Hd].
        -- intros [H|[[v [[<-|Hv1] [Hv2 Hv3]]] Hd]];
             [left; right; exact H | left; left; split; assumption | right; split; [exists v; auto | exact Hd]].
      * split; [intro H; apply HN; apply NoDup_keys_add_peptide_anno; exact H|]. split.
        -- rewrite HF. cbn [existsb]. rewrite Fu. reflexivity.
        -- intros k g H. apply HG in H. rewrite in_app_iff in H. destruct H as [[H|H]|H]; auto.
           destruct H as [H|[]]. inversion H. right. reflexivity.
Qed.

Lemma fusion_loop_graphs : forall sh sk fs st st',
  fusion_loop sh sk fs st = Ok st' -> w_graphs st' = w_graphs st.
Proof.
  induction fs as [|u r IH]; intros st st' H; cbn [fusion_loop] in H.
  - inversion H. reflexivity.
  - destruct (call_unit u []).
    + apply IH in H. exact H.
    + destruct sk; [apply IH in H; exact H|].
      destruct (sh_fusion_reraise sh); [discriminate | apply IH in H; exact H].
Qed.

Lemma ok_contrib_app : forall a b s, ok_contrib (a ++ b) s <-> ok_contrib a s \/ ok_contrib b s.
Proof.
  intros. unfold ok_contrib. split.
  - intros [u [H1 H2]]. apply in_app_iff in H1. destruct H1; [left | right]; exists u; auto.
  - intros [[u [H1 H2]]|[u [H1 H2]]]; exists u; split; auto; apply in_app_iff; auto.
Qed.

Lemma wrapper_tail : forall fs cs st1 m,
  (forall s, In s (keys (w_anno st1)) <-> ok_contrib (opt_list m) s) ->
  NoDup (keys (w_anno st1)) ->
  (forall s, In s (extra_deny st1) -> In s (keys (w_anno st1))) ->
  w_graphs st1 = [] ->
  exists st2 w, fusion_loop shape_fixed true fs st1 = Ok st2 /\
    circ_loop shape_fixed true (extra_deny st2) cs st2 = Ok w /\
    (forall s, In s (keys (w_anno w)) <-> ok_contrib (opt_list m ++ fs ++ cs) s) /\
    NoDup (keys (w_anno w)) /\
    w_flags w = and3 (and2 (w_flags st1) (negb (existsb u_fail fs))) (negb (existsb u_fail cs)) /\
    (forall k g, In (k, g) (w_graphs w) -> k = g).
Proof.
  intros fs cs st1 m H1 HN1 HD HG1.
  destruct (fusion_loop_skip fs st1) as [st2 [E2 [HI2 [HN2 [HF2 HM2]]]]].
  destruct (circ_loop_skip (extra_deny st2) cs st2) as [w [E3 [HI3 [HN3 [HF3 HG3]]]]].
  exists st2, w. split; [exact E2|]. split; [exact E3|].
  assert (ED : extra_deny st2 = extra_deny st1) by (unfold extra_deny; rewrite HM2; reflexivity).
  split.
  - intro s. rewrite HI3, HI2, H1, !ok_contrib_app. rewrite ED. split.
    + intros [[H|H]|[H _]]; auto.
    + intros [H|[H|H]]; auto.
      destruct (mem_seq s (extra_deny st1)) eqn:M.
      * apply w_mem_seq_In in M. apply HD in M. apply H1 in M. auto.
      * apply w_mem_seq_false in M. right. split; assumption.
  - split; [auto|]. split; [rewrite HF3, HF2; reflexivity|].
    intros k g H. apply HG3 in H. destruct H as [H|H]; [|exact H].
    rewrite (fusion_loop_graphs _ _ _ _ _ E2), HG1 in H. destruct H.
Qed.

Lemma wrapper_skip : forall t,
  exists w, wrapper shape_fixed true t = Ok w /\
    (forall s, In s (keys (w_anno w)) <-> ok_contrib (all_units t) s) /\
    NoDup (keys (w_anno w)) /\
    w_flags w = (negb (main_failed t), negb (fusion_failed t), negb (circ_failed t)) /\
    (forall k g, In (k, g) (w_graphs w) -> k = g).
Proof.
  intro t. unfold wrapper, all_units, main_failed, fusion_failed, circ_failed.
  destruct (t_main t) as [u|]; cbn [do_main].
  - unfold call_unit. destruct (u_fail u) eqn:Fu.
    + cbn [sh_main_flag shape_fixed].
      match goal with |- context [fusion_loop _ _ _ ?S] =>
        destruct (wrapper_tail (t_fusions t) (t_circs t) S (Some u)) as [st2 [w [E2 [E3 [HI [HN [HF HG]]]]]]] end.
      * intro s. cbn. split; [intros [] | intros [v [[<-|[]] [Hv _]]]; congruence].
      * cbn. constructor.
      * cbn. intros s [].
      * reflexivity.
      * rewrite E2. exists w. split; [exact E3|]. split; [exact HI|]. split; [exact HN|]. split; [|exact HG].
        rewrite HF. cbn. reflexivity.
    + rewrite filter_deny_nil.
      match goal with |- context [fusion_loop _ _ _ ?S] =>
        destruct (wrapper_tail (t_fusions t) (t_circs t) S (Some u)) as [st2 [w [E2 [E3 [HI [HN [HF HG]]]]]]] end.
      * intro s. cbn [w_anno opt_list]. rewrite In_keys_add_peptide_anno. cbn [keys map In]. split.
        -- intros [H|[]]. exists u. split; [left; reflexivity | split; assumption].
        -- intros [v [[<-|[]] [_ Hv]]]. left. exact Hv.
      * cbn [w_anno]. apply NoDup_keys_add_peptide_anno. constructor.
      * cbn [w_anno]. unfold extra_deny. cbn [w_main_peptides]. intros s H.
        apply In_keys_add_peptide_anno. left. destruct (keys (u_raw u)); [destruct H | exact H].
      * reflexivity.
      * rewrite E2. exists w. split; [exact E3|]. split; [exact HI|]. split; [exact HN|]. split; [|exact HG].
        rewrite HF. cbn. reflexivity.
  - destruct (wrapper_tail (t_fusions t) (t_circs t) w0 None) as [st2 [w [E2 [E3 [HI [HN [HF HG]]]]]]].
    + intro s. cbn. split; [intros [] | intros [v [[] _]]].
    + cbn. constructor.
    + cbn. intros s [].
    + reflexivity.
    + rewrite E2. exists w. split; [exact E3|]. split; [exact HI|]. split; [exact HN|]. split; [|exact HG].
      rewrite HF. cbn. reflexivity.
Qed.

(* ------------------------------------------------------------------ the CLI loop, --skip-failed *)
Lemma reported_cons : forall valid t r s,
  reported valid (t :: r) s <->
  (valid s = true /\ live t = true /\ ok_contrib (all_units t) s) \/ reported valid r s.
Proof.
  intros. unfold reported, ok_contrib. split.
  - intros [V [t' [u [[<-|Ht] [L [Hu [Fu Hs]]]]]]].
    + left. split; [exact V|]. split; [exact L|]. exists u. auto.
    + right. split; [exact V|]. exists t', u. auto.
  - intros [[V [L [u [Hu [Fu Hs]]]]]|[V [t' [u [Ht [L [Hu [Fu Hs]]]]]]]].
    + split; [exact V|]. exists t, u. split; [left; reflexivity | auto].
    + split; [exact V|]. exists t', u. split; [right; exact Ht | auto].
Qed.

Lemma countb_cons : forall A (f : A -> bool) t r, countb f (t :: r) = (if f t then 1 else 0) + countb f r.
Proof. intros. unfold countb. cbn [filter]. destruct (f t); cbn [zlen]; lia. Qed.

Lemma count_flags_fixed : forall a b c t,
  n_total (count_flags shape_fixed (a, b, c) t) = n_total t /\
  n_processed (count_flags shape_fixed (a, b, c) t) = n_processed t /\
  n_invalid (count_flags shape_fixed (a, b, c) t) = n_invalid t /\
  f_variant (count_flags shape_fixed (a, b, c) t) = f_variant t + (if a then 0 else 1) /\
  f_fusion (count_flags shape_fixed (a, b, c) t) = f_fusion t + (if b then 0 else 1) /\
  f_circ (count_flags shape_fixed (a, b, c) t) = f_circ t + (if c then 0 else 1) /\
  n_valid (count_flags shape_fixed (a, b, c) t) = n_valid t.
Proof. intros. destruct a, b, c; cbn; repeat split; lia. Qed.

Definition tally_delta (txs : list txin) (t0 t1 : tally) : Prop :=
  n_total t1 = n_total t0 /\
  n_processed t1 = n_processed t0 + countb live txs /\
  n_invalid t1 = n_invalid t0 + countb t_invalid txs /\
  f_variant t1 = f_variant t0 + countb (fun t => live t && main_failed t) txs /\
  f_fusion t1 = f_fusion t0 + countb (fun t => live t && fusion_failed t) txs /\
  f_circ t1 = f_circ t0 + countb (fun t => live t && circ_failed t) txs /\
  n_valid t1 = n_valid t0.

Lemma cli_loop_skip : forall valid txs st,
  exists st', cli_loop shape_fixed valid true txs st = Ok st' /\
    (forall s, In s (keys (c_table st')) <-> In s (keys (c_table st)) \/ reported valid txs s) /\
    (NoDup (keys (c_table st)) -> NoDup (keys (c_table st'))) /\
    tally_delta txs (c_tl st) (c_tl st').
Proof.
  intros valid. induction txs as [|t r IH]; intros st; cbn [cli_loop].
  - exists st. split; [reflexivity|]. split.
    + intro s. split; [auto | intros [H|[_ [t [u [[] _]]]]]; exact H].
    + split; [auto|]. unfold tally_delta, countb. cbn. repeat split; lia.
  - destruct (t_invalid t) eqn:Inv.
    + cbn [sh_invalid_guarded shape_fixed].
      match goal with |- context [cli_loop _ _ _ r ?S] => destruct (IH S) as [st' [E [HI [HN HT]]]] end.
      exists st'. split; [exact E|]. cbn [c_table c_tl] in *. split.
      * intro s. rewrite HI, reported_cons. unfold live. rewrite Inv. cbn. split; [intros [H|H]; auto | intros [H|[[_ [H _]]|H]]; auto; discriminate].
      * split; [exact HN|]. unfold tally_delta in *. rewrite !countb_cons. cbv beta. unfold live at 1 3 5 7. rewrite Inv. cbn [with_counts n_total n_processed n_invalid f_variant f_fusion f_circ n_valid n_total_pep negb andb] in *. lia.
    + destruct (t_empty t) eqn:Emp.
      * destruct (IH st) as [st' [E [HI [HN HT]]]].
        exists st'. split; [exact E|]. split.
        -- intro s. rewrite HI, reported_cons. unfold live. rewrite Inv, Emp. cbn. split; [intros [H|H]; auto | intros [H|[[_ [H _]]|H]]; auto; discriminate].
        -- split; [exact HN|]. unfold tally_delta in *. rewrite !countb_cons. cbv beta. unfold live at 1 3 5 7. rewrite Inv, Emp. cbn [with_counts n_total n_processed n_invalid f_variant f_fusion f_circ n_valid n_total_pep negb andb] in *. lia.
      * cbn [sh_acc_guarded shape_fixed andb negb]. rewrite andb_false_r.
        destruct (wrapper_skip t) as [w [EW [HW [HNW [HFW _]]]]]. rewrite EW.
        match goal with |- context [cli_loop _ _ _ r ?S] => destruct (IH S) as [st' [E [HI [HN HT]]]] end.
        exists st'. split; [exact E|]. cbn [c_table c_tl] in *. split.
        -- intro s. rewrite HI, reported_cons, In_keys_table_add, HW. unfold live. rewrite Inv, Emp. cbn. tauto.
        -- split; [intro H; apply HN; apply NoDup_keys_table_add; exact H|].
           rewrite HFW in HT. unfold tally_delta in *.
           destruct (count_flags_fixed (negb (main_failed t)) (negb (fusion_failed t)) (negb (circ_failed t))
                       (with_counts (c_tl st) 1 0 (zlen (w_anno w)))) as [C1 [C2 [C3 [C4 [C5 [C6 C7]]]]]].
           rewrite !countb_cons. cbv beta. unfold live at 1 3 5 7. rewrite Inv, Emp.
           destruct (main_failed t), (fusion_failed t), (circ_failed t); cbn [with_counts n_total n_processed n_invalid f_variant f_fusion f_circ n_valid n_total_pep negb andb] in *; lia.
Qed.

(* ------------------------------------------------------------------ skip_isolates *)
Lemma skip_isolates_l : forall sh valid txs, shape_eqb sh shape_fixed = true ->
  exists fasta tl,
    completes (run sh valid true txs) fasta tl /\
    (forall s, In s (keys fasta) <-> reported valid txs s) /\
    NoDup (keys fasta) /\
    tally_spec txs (zlen fasta) tl.
Proof.
  intros sh valid txs Hs. apply shape_eqb_eq in Hs. subst sh. unfold run.
  destruct (cli_loop_skip valid txs {| c_table := []; c_tl := tally0 (zlen txs) |}) as [st' [E [HI [HN HT]]]].
  rewrite E. exists (c_table st'), (set_valid (c_tl st') (zlen (c_table st'))).
  split; [reflexivity|]. split.
  - intro s. rewrite HI. cbn. tauto.
  - split; [apply HN; cbn; constructor|].
    unfold tally_spec, tally_delta in *. cbn [set_valid c_tl tally0 n_total n_processed n_invalid f_variant f_fusion f_circ n_valid] in *.
    repeat split; lia.
Qed.

(* ------------------------------------------------------------------ without --skip-failed *)
Lemma fusion_loop_noskip_raise : forall fs st, existsb u_fail fs = true ->
  exists e, fusion_loop shape_fixed false fs st = Raise e.
Proof.
  induction fs as [|u r IH]; intros st H; cbn [existsb] in H; [discriminate|].
  cbn [fusion_loop]. unfold call_unit. destruct (u_fail u) eqn:Fu.
  - cbn. exists EUnit. reflexivity.
  - cbn [orb] in H. apply IH. exact H.
Qed.

Lemma circ_loop_noskip_raise : forall deny cs st, existsb u_fail cs = true ->
  exists e, circ_loop shape_fixed false deny cs st = Raise e.
Proof.
  induction cs as [|u r IH]; intros st H; cbn [existsb] in H; [discriminate|].
  cbn [circ_loop]. unfold call_unit. destruct (u_fail u) eqn:Fu.
  - cbn. exists EUnit. reflexivity.
  - cbn [orb] in H. cbn [circ_post w_cg w_pm]. apply IH. exact H.
Qed.

Lemma wrapper_noskip_raise : forall t, existsb u_fail (all_units t) = true ->
  exists e, wrapper shape_fixed false t = Raise e.
Proof.
  intros t H. unfold all_units in H. rewrite !existsb_app in H. unfold wrapper.
  destruct (t_main t) as [u|]; cbn [do_main opt_list existsb] in *.
  - unfold call_unit. destruct (u_fail u) eqn:Fu.
    + cbn. exists EUnit. reflexivity.
    + cbn [orb] in H.
      match goal with |- context [fusion_loop _ _ _ ?S] => remember S as st1 end.
      destruct (existsb u_fail (t_fusions t)) eqn:Ff.
      * destruct (fusion_loop_noskip_raise (t_fusions t) st1 Ff) as [e E]. rewrite E. exists e. reflexivity.
      * cbn [orb] in H. destruct (fusion_loop shape_fixed false (t_fusions t) st1) as [st2|e]; [|exists e; reflexivity].
        apply circ_loop_noskip_raise. exact H.
  - cbn [orb] in H. destruct (existsb u_fail (t_fusions t)) eqn:Ff.
    + destruct (fusion_loop_noskip_raise (t_fusions t) w0 Ff) as [e E]. rewrite E. exists e. reflexivity.
    + cbn [orb] in H. destruct (fusion_loop shape_fixed false (t_fusions t) w0) as [st2|e]; [|exists e; reflexivity].
      apply circ_loop_noskip_raise. exact H.
Qed.

Lemma cli_loop_noskip_raise : forall valid txs st, any_failure txs = true ->
  exists e, cli_loop shape_fixed valid false txs st = Raise e.
Proof.
  intros valid. induction txs as [|t r IH]; intros st H; unfold any_failure in H; cbn [existsb] in H; [discriminate|].
  cbn [cli_loop]. destruct (t_invalid t) eqn:Inv.
  - cbn. exists EInvalid. reflexivity.
  - unfold live in H. rewrite Inv in H. cbn [orb negb andb] in H. destruct (t_empty t) eqn:Emp.
    + cbn [negb andb orb] in H. apply IH. exact H.
    + cbn [negb andb] in H. cbn [sh_acc_guarded shape_fixed andb negb]. rewrite andb_true_r.
      destruct (t_acc_invalid t) eqn:Acc; [exists EInvalid; reflexivity|]. cbn [orb] in H.
      destruct (existsb u_fail (all_units t)) eqn:Fa.
      * destruct (wrapper_noskip_raise t Fa) as [e E]. rewrite E. exists e. reflexivity.
      * cbn [orb] in H. destruct (wrapper shape_fixed false t) as [w|e]; [|exists e; reflexivity].
        apply IH. exact H.
Qed.

Lemma noskip_aborts_l : forall sh valid txs, shape_eqb sh shape_fixed = true ->
  any_failure txs = true -> aborts (run sh valid false txs).
Proof.
  intros sh valid txs Hs H. apply shape_eqb_eq in Hs. subst sh. unfold run, aborts.
  destruct (cli_loop_noskip_raise valid txs {| c_table := []; c_tl := tally0 (zlen txs) |} H) as [e E].
  rewrite E. exists e. reflexivity.
Qed.

(* nothing fails: the flag is irrelevant (any shape) *)
Lemma fusion_loop_nofail : forall sh fs st, existsb u_fail fs = false ->
  fusion_loop sh false fs st = fusion_loop sh true fs st.
Proof.
  induction fs as [|u r IH]; intros st H; [reflexivity|].
  cbn [existsb] in H. apply orb_false_iff in H. destruct H as [Fu H].
  cbn [fusion_loop]. unfold call_unit. rewrite Fu. apply IH. exact H.
Qed.

Lemma circ_loop_nofail : forall sh deny cs st, existsb u_fail cs = false ->
  circ_loop sh false deny cs st = circ_loop sh true deny cs st.
Proof.
  induction cs as [|u r IH]; intros st H; [reflexivity|].
  cbn [existsb] in H. apply orb_false_iff in H. destruct H as [Fu H].
  cbn [circ_loop]. unfold call_unit. rewrite Fu.
  match goal with |- context [circ_post u ?S] => destruct (circ_post u S) end; [apply IH; exact H | reflexivity].
Qed.

Lemma wrapper_nofail : forall sh t, existsb u_fail (all_units t) = false ->
  wrapper sh false t = wrapper sh true t.
Proof.
  intros sh t H. unfold all_units in H. rewrite !existsb_app in H.
  apply orb_false_iff in H. destruct H as [Hm H]. apply orb_false_iff in H. destruct H as [Hf Hc].
  unfold wrapper.
  assert (D : do_main sh false (t_main t) w0 = do_main sh true (t_main t) w0).
  { destruct (t_main t) as [u|]; [|reflexivity]. cbn [opt_list existsb] in Hm. rewrite orb_false_r in Hm.
    cbn [do_main]. unfold call_unit. rewrite Hm. reflexivity. }
  rewrite D. destruct (do_main sh true (t_main t) w0) as [st1|e]; [|reflexivity].
  rewrite (fusion_loop_nofail sh _ st1 Hf).
  destruct (fusion_loop sh true (t_fusions t) st1) as [st2|e]; [|reflexivity].
  apply circ_loop_nofail. exact Hc.
Qed.

Lemma cli_loop_nofail : forall sh valid txs st, any_failure txs = false ->
  cli_loop sh valid false txs st = cli_loop sh valid true txs st.
Proof.
  intros sh valid. induction txs as [|t r IH]; intros st H; [reflexivity|].
  unfold any_failure in H. cbn [existsb] in H. apply orb_false_iff in H. destruct H as [Ht H].
  apply orb_false_iff in Ht. destruct Ht as [Inv Hu].
  cbn [cli_loop]. rewrite Inv. unfold live in Hu. rewrite Inv in Hu. cbn [negb andb] in Hu.
  destruct (t_empty t) eqn:Emp; [apply IH; exact H|].
  cbn [negb andb] in Hu. apply orb_false_iff in Hu. destruct Hu as [Acc Hu]. rewrite Acc. cbn [andb].
  rewrite (wrapper_nofail sh t Hu).
  destruct (wrapper sh true t); [apply IH; exact H | reflexivity].
Qed.

Lemma noskip_clean_l : forall sh valid txs, any_failure txs = false ->
  run sh valid false txs = run sh valid true txs.
Proof. intros. unfold run. rewrite cli_loop_nofail by assumption. reflexivity. Qed.

(* ------------------------------------------------------------------ "a run from which only the failing
   units are absent" *)
Lemma existsb_filter_ok : forall l, existsb u_fail (filter u_ok l) = false.
Proof.
  induction l as [|u l IH]; [reflexivity|]. cbn [filter]. unfold u_ok at 1.
  destruct (u_fail u) eqn:Fu; cbn [negb]; [exact IH|]. cbn [existsb]. rewrite Fu, IH. reflexivity.
Qed.

Lemma units_remove_failed_nofail : forall t, existsb u_fail (all_units (remove_failed t)) = false.
Proof.
  intro t. unfold all_units, remove_failed. cbn [t_main t_fusions t_circs].
  rewrite !existsb_app, !existsb_filter_ok.
  destruct (t_main t) as [u|]; [|reflexivity]. destruct (u_fail u) eqn:Fu; [reflexivity|].
  cbn. rewrite Fu. reflexivity.
Qed.

Lemma any_failure_without : forall txs, any_failure (without_failures txs) = false.
Proof.
  induction txs as [|t r IH]; [reflexivity|]. unfold without_failures. cbn [filter].
  destruct (t_invalid t) eqn:Inv; cbn [negb]; [exact IH|].
  cbn [map]. unfold any_failure. cbn [existsb]. rewrite units_remove_failed_nofail.
  cbn [remove_failed t_invalid t_acc_invalid]. rewrite Inv. cbn [orb]. rewrite andb_false_r. cbn [orb]. exact IH.
Qed.

Lemma In_ok_units_remove : forall t u, u_fail u = false ->
  (In u (all_units (remove_failed t)) <-> In u (all_units t)).
Proof.
  intros t u Fu. unfold all_units, remove_failed. cbn [t_main t_fusions t_circs].
  rewrite !in_app_iff, !filter_In. unfold u_ok. rewrite Fu. cbn [negb].
  destruct (t_main t) as [v|]; cbn [opt_list].
  - destruct (u_fail v) eqn:Fv; cbn [opt_list In]; [|tauto].
    split; [tauto|]. intros [[<-|[]]|H]; [congruence | tauto].
  - tauto.
Qed.

Lemma reported_without : forall valid txs s, reported valid (without_failures txs) s <-> reported valid txs s.
Proof.
  intros. unfold reported, without_failures. split.
  - intros [V [t' [u [Ht [L [Hu [Fu Hs]]]]]]]. split; [exact V|].
    apply in_map_iff in Ht. destruct Ht as [t [<- Ht]]. apply filter_In in Ht. destruct Ht as [Ht Inv].
    exists t, u. split; [exact Ht|]. split; [exact L|]. split; [apply (In_ok_units_remove t u Fu); exact Hu | auto].
  - intros [V [t [u [Ht [L [Hu [Fu Hs]]]]]]]. split; [exact V|].
    exists (remove_failed t), u. split.
    + apply in_map. apply filter_In. split; [exact Ht|]. unfold live in L. apply andb_true_iff in L. tauto.
    + split; [exact L|]. split; [apply (In_ok_units_remove t u Fu); exact Hu | auto].
Qed.

Lemma skip_equals_removed_l : forall sh valid txs skip', shape_eqb sh shape_fixed = true ->
  exists f1 t1 f2 t2,
    completes (run sh valid true txs) f1 t1 /\
    completes (run sh valid skip' (without_failures txs)) f2 t2 /\
    same_set (keys f1) (keys f2).
Proof.
  intros sh valid txs skip' Hs.
  destruct (skip_isolates_l sh valid txs Hs) as [f1 [t1 [C1 [H1 _]]]].
  destruct (skip_isolates_l sh valid (without_failures txs) Hs) as [f2 [t2 [C2 [H2 _]]]].
  exists f1, t1, f2, t2. split; [exact C1|]. split.
  - destruct skip'; [exact C2|]. rewrite noskip_clean_l by apply any_failure_without. exact C2.
  - intro s. rewrite H1, H2, reported_without. tauto.
Qed.

(* ------------------------------------------------------------------ the unchanged tree (D4) *)
Definition d4_unit (id : Z) (fail : bool) : unit_ := {| u_id := id; u_fail := fail; u_raw := [([65; 75], [id])] |}.
Definition d4_tx : txin :=
  {| t_id := 0; t_invalid := false; t_empty := false; t_acc_invalid := false; t_main := Some (d4_unit 1 false);
     t_fusions := []; t_circs := [d4_unit 2 true] |}.
Definition d4_tx_stale : txin :=
  {| t_id := 0; t_invalid := false; t_empty := false; t_acc_invalid := false; t_main := None;
     t_fusions := []; t_circs := [d4_unit 1 false; d4_unit 2 true] |}.

Lemma skip_isolates_refuted_l :
  exists valid txs, run shape_orig valid true txs = {| r_exc := Some EUnbound; r_fasta := None; r_tally := None |} /\
                    forall fasta tl, ~ completes (run shape_orig valid true txs) fasta tl.
Proof.
  exists (fun _ => true), [d4_tx]. split; [vm_compute; reflexivity|].
  intros fasta tl H. unfold completes in H. vm_compute in H. discriminate H.
Qed.

Lemma graphs_refuted_l :
  exists t w, wrapper shape_orig true t = Ok w /\ In (2, 1) (w_graphs w).
Proof.
  exists d4_tx_stale. eexists. split; [vm_compute; reflexivity|]. cbn. right. left. reflexivity.
Qed.

Lemma graphs_truthful_l : forall sh t w, shape_eqb sh shape_fixed = true ->
  wrapper sh true t = Ok w -> forall k g, In (k, g) (w_graphs w) -> k = g.
Proof.
  intros sh t w Hs E. apply shape_eqb_eq in Hs. subst sh.
  destruct (wrapper_skip t) as [w' [E' [_ [_ [_ HG]]]]]. rewrite E in E'. inversion E'. subst. exact HG.
Qed.

(* the tree before C07_acc_invalid.patch: an invalid accepter series ends the run despite --skip-failed *)
Definition shape_acc_unguarded : shape :=
  {| sh_main_flag := 0; sh_fusion_flag := 1; sh_circ_flag := 2;
     sh_main_reraise := true; sh_fusion_reraise := true; sh_circ_reraise := true;
     sh_circ_cont := true; sh_tally_keys := [0; 1; 2]; sh_fasta_after_loop := true;
     sh_invalid_guarded := true; sh_acc_guarded := false |}.
Definition acc_tx : txin :=
  {| t_id := 0; t_invalid := false; t_empty := false; t_acc_invalid := true; t_main := None;
     t_fusions := [d4_unit 1 false]; t_circs := [] |}.

Lemma acc_invalid_refuted_l :
  exists valid txs, run shape_acc_unguarded valid true txs = {| r_exc := Some EInvalid; r_fasta := None; r_tally := None |} /\
                    forall fasta tl, ~ completes (run shape_acc_unguarded valid true txs) fasta tl.
Proof.
  exists (fun _ => true), [acc_tx]. split; [vm_compute; reflexivity|].
  intros fasta tl H. unfold completes in H. vm_compute in H. discriminate H.
Qed.
