(* C15 (parser half) proofs. *)
From Coq Require Import ZArith List Bool Lia ZifyBool.
From MoPep Require Import Model.Base Model.Rmats Model.Fusion Proofs.RmatsProofs.
Import ListNotations.
Open Scope Z_scope.

Lemma fbind_ok : forall A B (r : fres A) (f : A -> fres B) b, fbind r f = FOk b -> exists a, r = FOk a /\ f a = FOk b.
Proof. intros. destruct r; cbn in H; [eauto|discriminate]. Qed.

(* ------------------------------------------------------------------ skips are counted *)
Definition balanced (t : tally) : Prop := t_succeed t + t_skipped t = t_total t.

Lemma bump_total : forall t w, t_total (bump t w) = t_total t + 1.
Proof. reflexivity. Qed.
Lemma bump_balanced : forall t w, 0 <= w <= 4 -> balanced t -> balanced (bump t w).
Proof.
  unfold balanced, t_skipped, bump. intros. cbn [t_succeed t_insufficient t_invalid_gene t_invalid_pos t_antisense t_total].
  assert (w = 0 \/ w = 1 \/ w = 2 \/ w = 3 \/ w = 4) as [->|[->|[->|[->| ->]]]] by lia; cbn; lia.
Qed.

Definition from_row (t : tool) genes chroms o (y : row * frec) : Prop :=
  prefilter t genes o (fst y) = Go /\
  exists out, convert t genes chroms (r_dg (fst y)) (r_ag (fst y)) (r_L (fst y)) (r_R (fst y)) = FOk out /\ In (snd y) out.

Lemma cli_loop_inv : forall t genes chroms o rows acc tl recs tl',
  cli_loop t genes chroms o rows acc tl = FOk (recs, tl') ->
  t_total tl' = t_total tl + zlength rows /\
  (balanced tl -> balanced tl') /\
  (forall y, In y recs -> In y acc \/ (In (fst y) rows /\ from_row t genes chroms o y)).
Proof.
  induction rows as [|r rest IH]; intros acc tl recs tl' H; cbn [cli_loop] in H.
  - inversion H; subst. rewrite zlength_nil. repeat split; try lia; auto.
  - rewrite zlength_cons.
    assert (K : forall w acc2, 0 <= w <= 4 ->
              cli_loop t genes chroms o rest acc2 (bump tl w) = FOk (recs, tl') ->
              (forall y, In y acc2 -> In y acc \/ (In (fst y) (r :: rest) /\ from_row t genes chroms o y)) ->
              t_total tl' = t_total tl + (zlength rest + 1) /\ (balanced tl -> balanced tl') /\
              (forall y, In y recs -> In y acc \/ (In (fst y) (r :: rest) /\ from_row t genes chroms o y))).
    { intros w acc2 Hw H2 Hacc. destruct (IH _ _ _ _ H2) as (A & B & C).
      split; [rewrite A, bump_total; lia|]. split; [intro; apply B, bump_balanced; assumption|].
      intros y Hy. destruct (C y Hy) as [Hy'|(Hy1 & Hy2)]; [auto|]. right. split; [right; assumption|assumption]. }
    destruct (prefilter t genes o r) eqn:P.
    + apply (K 1 acc); [lia|assumption|auto].
    + apply (K 2 acc); [lia|assumption|auto].
    + apply (K 4 acc); [lia|assumption|auto].
    + destruct (convert t genes chroms (r_dg r) (r_ag r) (r_L r) (r_R r)) as [out|e] eqn:C.
      * apply (K 0 (acc ++ map (fun x => (r, x)) out)); [lia|assumption|].
        intros y Hy. apply in_app_or in Hy. destruct Hy as [Hy|Hy]; [auto|].
        apply in_map_iff in Hy. destruct Hy as (x & <- & Hx). right. cbn [fst snd].
        split; [left; reflexivity|]. split; [assumption|]. exists out. auto.
      * destruct e.
        -- apply (K 2 acc); [lia|assumption|auto].
        -- destruct (o_skip_failed o); [|discriminate]. apply (K 3 acc); [lia|assumption|auto].
        -- destruct (o_skip_failed o); [|discriminate]. apply (K 3 acc); [lia|assumption|auto].
Qed.

Lemma convert_known : forall t genes chroms dg ag L R out,
  convert t genes chroms dg ag L R = FOk out -> known genes dg = true /\ known genes ag = true.
Proof.
  intros. unfold known.
  destruct t; cbn [convert] in H;
    repeat (apply fbind_ok in H; let x := fresh "x" in let E := fresh "E" in destruct H as (x & E & H));
    repeat match goal with E : lookup_gene _ _ = FOk _ |- _ => rewrite E; clear E end; auto.
Qed.

Lemma fusion_skips_counted_lemma : forall t genes chroms o rows recs tl,
  cli t genes chroms o rows = FOk (recs, tl) ->
  t_total tl = zlength rows /\ t_succeed tl + t_skipped tl = t_total tl /\
  forall y, In y recs ->
    In (fst y) rows /\ prefilter t genes o (fst y) = Go /\
    known genes (r_dg (fst y)) = true /\ known genes (r_ag (fst y)) = true /\
    exists out, convert t genes chroms (r_dg (fst y)) (r_ag (fst y)) (r_L (fst y)) (r_R (fst y)) = FOk out /\ In (snd y) out.
Proof.
  unfold cli. intros. destruct (cli_loop_inv _ _ _ _ _ _ _ _ _ H) as (A & B & C).
  split; [rewrite A; reflexivity|]. split; [apply B; reflexivity|].
  intros y Hy. destruct (C y Hy) as [[]|(R1 & P & out & Cv & I)].
  destruct (convert_known _ _ _ _ _ _ _ _ Cv). repeat split; auto. exists out. auto.
Qed.

(* evidence filters: a row below the thresholds never yields a record *)
Lemma prefilter_go : forall t genes o r, prefilter t genes o r = Go ->
  match t with
  | Star => r_e1 r >= o_1 o
  | FC => r_e1 r <= o_1 o /\ r_e2 r >= o_2 o
  | Arriba => r_e1 r >= o_1 o /\ r_e2 r >= o_2 o /\ r_e3 r >= o_3 o /\
              known genes (r_dg r) = true /\ known genes (r_ag r) = true /\
              r_s1 r = strand_of genes (r_dg r) /\ r_s2 r = strand_of genes (r_ag r)
  end.
Proof.
  intros t genes o r H. destruct t; cbn [prefilter] in H.
  - destruct (r_e1 r <? o_1 o) eqn:E; [discriminate|lia].
  - destruct ((r_e1 r >? o_1 o) || (r_e2 r <? o_2 o)) eqn:E; [discriminate|lia].
  - destruct (negb (known genes (r_dg r)) || negb (known genes (r_ag r))) eqn:E1; [discriminate|].
    destruct (negb ((r_e1 r >=? o_1 o) && (r_e2 r >=? o_2 o) && (r_e3 r >=? o_3 o))) eqn:E2; [discriminate|].
    destruct (negb (r_s1 r =? strand_of genes (r_dg r)) || negb (r_s2 r =? strand_of genes (r_ag r))) eqn:E3; [discriminate|].
    destruct (known genes (r_dg r)), (known genes (r_ag r)); cbn in E1; try discriminate.
    repeat split; try lia; reflexivity.
Qed.

(* ------------------------------------------------------------------ what convert emits *)
Lemma lift_ok : forall A (r : res A) v, lift r = FOk v -> r = Ok v.
Proof. intros. destruct r as [a|e]; cbn in H; [inversion H; reflexivity|destruct e; discriminate]. Qed.

Lemma pairs_back : forall pos apos c (l : list (Z * Z)),
  map (fun x => (f_dtx x, f_atx x)) (map (fun p => mkF (fst p) (snd p) pos apos c) l) = l.
Proof. induction l as [|[a b] l IH]; cbn; [reflexivity|]. f_equal. exact IH. Qed.

Lemma build_spec : forall pairs pos apos ref out, build pairs pos apos ref = FOk out ->
  map (fun x => (f_dtx x, f_atx x)) out = pairs /\ forall x, In x out -> f_pos x = pos /\ f_apos x = apos.
Proof.
  intros. unfold build in H. destruct pairs as [|p0 ps].
  - inversion H. split; [reflexivity|contradiction].
  - destruct ref; [|discriminate]. inversion H; subst out. split.
    + exact (pairs_back pos apos z (p0 :: ps)).
    + intros x Hx. change (In x (map (fun p => mkF (fst p) (snd p) pos apos z) (p0 :: ps))) in Hx.
      apply in_map_iff in Hx. destruct Hx as (p & <- & _). split; reflexivity.
Qed.

Lemma convert_spec : forall t genes chroms dg ag L R out,
  convert t genes chroms dg ag L R = FOk out ->
  exists d a dp ap,
    lookup_gene genes dg = FOk d /\ lookup_gene genes ag = FOk a /\
    g2gene (w_gene d) (L - 1) = Ok dp /\ g2gene (w_gene a) (R - 1) = Ok ap /\
    map (fun x => (f_dtx x, f_atx x)) out =
      product (txs_with_position (g_txs (w_gene d)) (L - 1) 0) (txs_with_position (g_txs (w_gene a)) (R - 1) 0) /\
    forall x, In x out -> f_pos x = dp + 1 /\ f_apos x = ap.
Proof.
  intros. destruct t; cbn [convert] in H;
    repeat (apply fbind_ok in H; let x := fresh "x" in let E := fresh "E" in destruct H as (x & E & H));
    repeat match goal with E : lift _ = FOk _ |- _ => apply lift_ok in E end;
    destruct (build_spec _ _ _ _ _ H) as (P & Q);
    do 4 eexists; repeat split; eauto; apply Q; assumption.
Qed.

Lemma txs_with_position_spec : forall l pos i k, In k (txs_with_position l pos i) ->
  exists t, nth_error l (Z.to_nat (k - i)) = Some t /\ i <= k /\ t_exons t <> [] /\ t_start t <= pos /\ pos < t_end t.
Proof.
  induction l as [|t rest IH]; intros pos i k H; cbn [txs_with_position] in H; [contradiction|].
  apply in_app_or in H. destruct H as [H|H].
  - destruct (nonempty (t_exons t) && (t_start t <=? pos) && (pos <? t_end t)) eqn:E; [|contradiction].
    destruct H as [<-|[]]. exists t. rewrite Z.sub_diag. cbn. repeat split; try lia.
    destruct (t_exons t); [discriminate|congruence].
  - destruct (IH _ _ _ H) as (t' & N & A & B).
    exists t'. replace (Z.to_nat (k - i)) with (S (Z.to_nat (k - (i + 1)))) by lia. cbn. repeat split; try tauto; lia.
Qed.

(* ------------------------------------------------------------------ clipping an exon list at an exonic position *)
Lemma clip_upto_mid : forall (pre : list exon) M post lo hi p,
  chain lo (pre ++ M :: post) hi -> fst M <= p -> p < snd M ->
  clip_upto (pre ++ M :: post) p = pre ++ [(fst M, p + 1)].
Proof.
  induction pre as [|x pre IH]; intros M post lo hi p C A B.
  - cbn [app clip_upto]. assert (p <? fst M = false) as -> by lia.
    destruct post as [|y post']; [reflexivity|].
    cbn [app chain] in C. assert (p <? fst y = true) as -> by lia. reflexivity.
  - cbn [app] in *. cbn [chain] in C. destruct C as (C1 & C2 & C3 & C4).
    pose proof (chain_pre _ _ _ _ _ C4) as (Hpre & M1 & _).
    cbn [clip_upto]. assert (p <? fst x = false) as -> by lia.
    destruct pre as [|y pre'].
    + cbn [app] in *. assert (p <? fst M = false) as -> by lia. f_equal. apply (IH M post _ hi p C4 A B).
    + cbn [app] in *. pose proof (Hpre y (or_introl eq_refl)).
      assert (p <? fst y = false) as -> by lia. f_equal. apply (IH M post _ hi p C4 A B).
Qed.

Lemma clip_from_mid : forall (pre : list exon) M post lo hi p,
  chain lo (pre ++ M :: post) hi -> fst M <= p -> p < snd M ->
  clip_from (pre ++ M :: post) p = (p, snd M) :: post.
Proof.
  induction pre as [|x pre IH]; intros M post lo hi p C A B.
  - cbn [app clip_from]. assert (p <? snd M = true) as -> by lia. reflexivity.
  - cbn [app] in *. cbn [chain] in C. destruct C as (C1 & C2 & C3 & C4).
    pose proof (chain_pre _ _ _ _ _ C4) as (_ & M1 & _).
    cbn [clip_from]. assert (p <? snd x = false) as -> by lia. apply (IH M post _ hi p C4 A B).
Qed.

Lemma is_exonic_mid : forall (pre : list exon) M post p, fst M <= p -> p < snd M -> is_exonic (pre ++ M :: post) p = true.
Proof.
  intros. unfold is_exonic. apply existsb_exists. exists M. split; [apply in_or_app; right; left; reflexivity|].
  unfold inside. lia.
Qed.

Lemma take_two : forall (a b c : list Z) n, n = zlength a + zlength b -> take (a ++ b ++ c) n = a ++ b.
Proof. intros. subst. rewrite app_assoc, <- zlength_app. apply take_app_exact. Qed.
Lemma drop_one : forall (a b : list Z) n, n = zlength a -> drop (a ++ b) n = b.
Proof. intros. subst. apply drop_app_exact. Qed.

(* ------------------------------------------------------------------ exonic breakpoints: the record denotes fused_seq *)
Section Exonic.
Variables (g : gene) (chrom : list Z).
Let strand := g_strand g.
Let gs := g_start g.
Let ge := g_end g.
Hypothesis Hstrand : strand = 1 \/ strand = -1.
Hypothesis Hgs : 0 <= gs.
Hypothesis Hge : ge <= zlength chrom.

Lemma g2g_inv : forall p, gene2genomic g (gcoord strand gs ge p) = p.
Proof. intros. unfold gene2genomic, gcoord. fold strand gs ge. destruct (strand =? 1); lia. Qed.

Lemma slice_nil : forall (s : list Z), slice s 0 0 = [].
Proof. intros. unfold slice. reflexivity. Qed.

Lemma donor_exonic : forall (pre : list exon) M post p,
  chain gs (pre ++ M :: post) ge -> fst M <= p -> p < snd M ->
  exists cut, donor_side g (pre ++ M :: post) (gcoord strand gs ge p + 1) = Some (cut, (0, 0)) /\
              take (tx_seq strand chrom (pre ++ M :: post)) cut = donor_part strand chrom (pre ++ M :: post) p.
Proof.
  intros pre M post p C A B.
  pose proof (chain_wchain _ _ _ C) as W.
  destruct (chain_pre _ _ _ _ _ C) as (Hpre & M1 & M2 & M3 & Cpost).
  pose proof (wchain_app _ _ _ _ W) as (Wpre & lo' & L1 & Wm & L2). cbn [wchain] in Wm. destruct Wm as (W1 & W2 & W3 & Wpost).
  unfold donor_side. fold strand gs ge.
  replace (gcoord strand gs ge p + 1 - 1) with (gcoord strand gs ge p) by lia.
  rewrite g2g_inv. rewrite is_exonic_mid by assumption.
  rewrite (conv_mid strand gs ge chrom) by assumption.
  eexists. split; [reflexivity|].
  rewrite tx_seq_mid. unfold donor_part, side1, side2, gslice.
  assert (Lpre : zlength (exons_seq chrom pre) = exons_len pre)
    by (eapply exons_seq_length; [exact Hgs|exact Hge|exact Wpre]).
  assert (Lpost : zlength (exons_seq chrom post) = exons_len post)
    by (eapply (exons_seq_length chrom post (snd M)); [lia|exact Hge|exact Wpost]).
  destruct Hstrand as [S|S]; rewrite S; cbn [Z.eqb Pos.eqb].
  - rewrite (clip_upto_mid _ _ _ _ _ _ C A B). rewrite exons_seq_app.
    change (exons_seq chrom [(fst M, p + 1)]) with (slice chrom (fst M) (p + 1) ++ []). rewrite app_nil_r.
    rewrite <- (slice_app chrom (fst M) (p + 1) (snd M)) by lia.
    rewrite <- app_assoc. apply take_two. rewrite slice_length by lia. lia.
  - rewrite (clip_from_mid _ _ _ _ _ _ C A B).
    change (exons_seq chrom ((p, snd M) :: post)) with (slice chrom p (snd M) ++ exons_seq chrom post).
    rewrite <- (slice_app chrom (fst M) p (snd M)) by lia.
    rewrite !revcomp_app. rewrite <- app_assoc. apply take_two.
    rewrite !revcomp_length. rewrite slice_length by lia. lia.
Qed.

Lemma accepter_exonic : forall (pre : list exon) M post q,
  chain gs (pre ++ M :: post) ge -> fst M <= q -> q < snd M ->
  exists from, accepter_side g (pre ++ M :: post) (gcoord strand gs ge q) = Some ((0, 0), from) /\
               drop (tx_seq strand chrom (pre ++ M :: post)) from = accepter_part strand chrom (pre ++ M :: post) q.
Proof.
  intros pre M post q C A B.
  pose proof (chain_wchain _ _ _ C) as W.
  pose proof (wchain_app _ _ _ _ W) as (Wpre & lo' & L1 & Wm & L2). cbn [wchain] in Wm. destruct Wm as (W1 & W2 & W3 & Wpost).
  unfold accepter_side. fold strand gs ge.
  rewrite g2g_inv. rewrite is_exonic_mid by assumption.
  rewrite (conv_mid strand gs ge chrom) by assumption.
  eexists. split; [reflexivity|].
  rewrite tx_seq_mid. unfold accepter_part, side1, side2, gslice.
  assert (Lpre : zlength (exons_seq chrom pre) = exons_len pre)
    by (eapply exons_seq_length; [exact Hgs|exact Hge|exact Wpre]).
  assert (Lpost : zlength (exons_seq chrom post) = exons_len post)
    by (eapply (exons_seq_length chrom post (snd M)); [lia|exact Hge|exact Wpost]).
  destruct Hstrand as [S|S]; rewrite S; cbn [Z.eqb Pos.eqb].
  - rewrite (clip_from_mid _ _ _ _ _ _ C A B).
    change (exons_seq chrom ((q, snd M) :: post)) with (slice chrom q (snd M) ++ exons_seq chrom post).
    rewrite <- (slice_app chrom (fst M) q (snd M)) by lia.
    rewrite <- app_assoc. rewrite app_assoc. apply drop_one.
    rewrite zlength_app, slice_length by lia. lia.
  - rewrite (clip_upto_mid _ _ _ _ _ _ C A B). rewrite exons_seq_app.
    change (exons_seq chrom [(fst M, q + 1)]) with (slice chrom (fst M) (q + 1) ++ []). rewrite app_nil_r.
    rewrite <- (slice_app chrom (fst M) (q + 1) (snd M)) by lia.
    rewrite !revcomp_app. rewrite <- app_assoc. rewrite app_assoc. apply drop_one.
    rewrite zlength_app, !revcomp_length. rewrite slice_length by lia. lia.
Qed.
End Exonic.

Lemma g2gene_inv : forall g idx v, g2gene g idx = Ok v ->
  g_start g <= idx /\ idx < g_end g /\ v = gcoord (g_strand g) (g_start g) (g_end g) idx.
Proof.
  unfold g2gene, gcoord. intros. destruct ((g_start g <=? idx) && (idx <? g_end g)) eqn:E; [|discriminate].
  inversion H. repeat split; lia.
Qed.

Definition exonic_in (ex : list exon) (p : Z) : Prop :=
  exists (pre : list exon) M post, ex = pre ++ M :: post /\ fst M <= p /\ p < snd M.

(* records of one row: positions, eligible pairs, and (exonic breakpoints) the denoted fusion transcript *)
Lemma fusion_denotes_exonic : forall t genes chroms dg ag L R out,
  convert t genes chroms dg ag L R = FOk out ->
  exists d a,
    lookup_gene genes dg = FOk d /\ lookup_gene genes ag = FOk a /\
    (* exactly the pairs of transcripts whose span contains the breakpoints *)
    map (fun x => (f_dtx x, f_atx x)) out =
      product (txs_with_position (g_txs (w_gene d)) (L - 1) 0) (txs_with_position (g_txs (w_gene a)) (R - 1) 0) /\
    forall x, In x out ->
      (* POS is the gene coordinate just after the last donor base, ACCEPTER_POSITION that of the first accepter base *)
      gene2genomic (w_gene d) (f_pos x - 1) = L - 1 /\ gene2genomic (w_gene a) (f_apos x) = R - 1 /\
      forall td ta,
        nth_error (g_txs (w_gene d)) (Z.to_nat (f_dtx x)) = Some td ->
        nth_error (g_txs (w_gene a)) (Z.to_nat (f_atx x)) = Some ta ->
        wf_gene (w_gene d) (chrom_of chroms (w_chrom d)) -> wf_gene (w_gene a) (chrom_of chroms (w_chrom a)) ->
        exonic_in (t_exons td) (L - 1) -> exonic_in (t_exons ta) (R - 1) ->
        fusion_apply (w_gene d) (chrom_of chroms (w_chrom d)) (t_exons td)
                     (w_gene a) (chrom_of chroms (w_chrom a)) (t_exons ta) x
        = Some (fused_seq (g_strand (w_gene d)) (chrom_of chroms (w_chrom d)) (t_exons td) (L - 1)
                          (g_strand (w_gene a)) (chrom_of chroms (w_chrom a)) (t_exons ta) (R - 1)).
Proof.
  intros t genes chroms dg ag L R out H.
  destruct (convert_spec _ _ _ _ _ _ _ _ H) as (d & a & dp & ap & Ld & La & Gd & Ga & Pairs & Pos).
  exists d, a. split; [assumption|]. split; [assumption|]. split; [assumption|].
  intros x Hx. destruct (Pos x Hx) as (P1 & P2).
  destruct (g2gene_inv _ _ _ Gd) as (D1 & D2 & D3). destruct (g2gene_inv _ _ _ Ga) as (A1 & A2 & A3).
  split; [rewrite P1, D3; replace (gcoord _ _ _ (L - 1) + 1 - 1) with (gcoord (g_strand (w_gene d)) (g_start (w_gene d)) (g_end (w_gene d)) (L - 1)) by lia; apply g2g_inv|].
  split; [rewrite P2, A3; apply g2g_inv|].
  intros td ta Ntd Nta (Sd & Gsd & Ged & Chd) (Sa & Gsa & Gea & Cha)
         (pre & M & post & Ed & M1 & M2) (pre' & M' & post' & Ea & M1' & M2').
  pose proof (Chd td (nth_error_In _ _ Ntd)) as Cd. rewrite Ed in Cd.
  pose proof (Cha ta (nth_error_In _ _ Nta)) as Ca. rewrite Ea in Ca.
  destruct (donor_exonic (w_gene d) (chrom_of chroms (w_chrom d)) Sd Gsd Ged pre M post (L - 1) Cd M1 M2) as (cut & DS & DT).
  destruct (accepter_exonic (w_gene a) (chrom_of chroms (w_chrom a)) Sa Gsa Gea pre' M' post' (R - 1) Ca M1' M2') as (from & AS & AD).
  unfold fusion_apply, fused_seq. rewrite Ed, Ea, P1, P2, D3, A3, DS, AS.
  rewrite !slice_nil. cbn [app]. rewrite DT, AD. reflexivity.
Qed.

(* ================================================================== intronic breakpoints *)
Definition intronic_in (ex : list exon) (p : Z) : Prop :=
  exists (pre : list exon) (A B : exon) (post : list exon), ex = pre ++ A :: B :: post /\ snd A <= p /\ p < fst B.

Lemma clip_upto_gap : forall (pre : list exon) (A B : exon) post lo hi p,
  chain lo (pre ++ A :: B :: post) hi -> snd A <= p -> p < fst B ->
  clip_upto (pre ++ A :: B :: post) p = pre ++ [(fst A, p + 1)].
Proof.
  induction pre as [|x pre IH]; intros A B post lo hi p C H1 H2.
  - cbn [app chain] in C. cbn [app clip_upto]. assert (p <? fst A = false) as -> by lia.
    assert (p <? fst B = true) as -> by lia. reflexivity.
  - cbn [app] in *. cbn [chain] in C. destruct C as (C1 & C2 & C3 & C4).
    pose proof (chain_pre _ _ _ _ _ C4) as (Hpre & M1 & M2 & _).
    cbn [clip_upto]. assert (p <? fst x = false) as -> by lia.
    destruct pre as [|y pre'].
    + cbn [app] in *. assert (p <? fst A = false) as -> by lia. f_equal. apply (IH A B post _ hi p C4 H1 H2).
    + cbn [app] in *. pose proof (Hpre y (or_introl eq_refl)).
      assert (p <? fst y = false) as -> by lia. f_equal. apply (IH A B post _ hi p C4 H1 H2).
Qed.

Lemma clip_from_gap : forall (pre : list exon) (A B : exon) post lo hi p,
  chain lo (pre ++ A :: B :: post) hi -> snd A <= p -> p < fst B ->
  clip_from (pre ++ A :: B :: post) p = (p, snd B) :: post.
Proof.
  induction pre as [|x pre IH]; intros A B post lo hi p C H1 H2.
  - cbn [app chain] in C. cbn [app clip_from]. assert (p <? snd A = false) as -> by lia.
    assert (p <? snd B = true) as -> by lia. reflexivity.
  - cbn [app] in *. cbn [chain] in C. destruct C as (C1 & C2 & C3 & C4).
    pose proof (chain_pre _ _ _ _ _ C4) as (_ & M1 & M2 & _).
    cbn [clip_from]. assert (p <? snd x = false) as -> by lia. apply (IH A B post _ hi p C4 H1 H2).
Qed.

Lemma is_exonic_gap : forall (pre : list exon) (A B : exon) post lo hi p,
  chain lo (pre ++ A :: B :: post) hi -> snd A <= p -> p < fst B -> is_exonic (pre ++ A :: B :: post) p = false.
Proof.
  intros. unfold is_exonic. apply not_true_is_false. intro E. apply existsb_exists in E. destruct E as (x & Hx & Ix).
  destruct (chain_pre _ _ _ _ _ H) as (Hpre & A1 & A2 & A3 & C2). cbn [chain] in C2. destruct C2 as (B1 & B2 & B3 & C3).
  unfold inside in Ix. apply in_app_or in Hx. destruct Hx as [Hx|[<-|[<-|Hx]]].
  - specialize (Hpre x Hx). lia.
  - lia.
  - lia.
  - pose proof (chain_post _ _ _ C3 x Hx). lia.
Qed.

Lemma upstream_end_plus_gap : forall (pre : list exon) (A B : exon) post lo hi p ind,
  chain lo (pre ++ A :: B :: post) hi -> snd A <= p -> p < fst B ->
  upstream_end_plus (pre ++ A :: B :: post) p ind = Some (snd A - 1).
Proof.
  induction pre as [|x pre IH]; intros A B post lo hi p ind C H1 H2.
  - cbn [app chain] in C. cbn [app upstream_end_plus].
    assert (snd A >? p = false) as -> by lia. assert (snd B >? p = true) as -> by lia. reflexivity.
  - cbn [app] in *. cbn [chain] in C. destruct C as (C1 & C2 & C3 & C4).
    pose proof (chain_pre _ _ _ _ _ C4) as (_ & M1 & M2 & _).
    cbn [upstream_end_plus]. assert (snd x >? p = false) as -> by lia. apply (IH A B post _ hi p _ C4 H1 H2).
Qed.

Lemma downstream_start_plus_gap : forall (pre : list exon) (A B : exon) post lo hi p,
  chain lo (pre ++ A :: B :: post) hi -> snd A <= p -> p < fst B ->
  downstream_start_plus (pre ++ A :: B :: post) p = Some (fst B).
Proof.
  induction pre as [|x pre IH]; intros A B post lo hi p C H1 H2.
  - cbn [app chain] in C. cbn [app downstream_start_plus].
    assert (fst A >=? p = false) as -> by lia. assert (fst B >=? p = true) as -> by lia. reflexivity.
  - cbn [app] in *. cbn [chain] in C. destruct C as (C1 & C2 & C3 & C4).
    pose proof (chain_pre _ _ _ _ _ C4) as (_ & M1 & M2 & _).
    cbn [downstream_start_plus]. assert (fst x >=? p = false) as -> by lia. apply (IH A B post _ hi p C4 H1 H2).
Qed.

(* the reversed scans: rev (pre ++ A :: B :: post) = rev post ++ B :: A :: rev pre *)
Lemma upstream_end_minus_skip : forall (l rest : list exon) p ind,
  (forall x, In x l -> p <= fst x) -> l <> [] ->
  exists i, upstream_end_minus (l ++ rest) p ind = upstream_end_minus rest p (Some i).
Proof.
  induction l as [|x l IH]; intros rest p ind H N; [congruence|].
  cbn [app upstream_end_minus]. assert (fst x <? p = false) as -> by (specialize (H x (or_introl eq_refl)); lia).
  destruct l as [|y l'].
  - cbn [app]. eauto.
  - apply IH; [intros; apply H; right; assumption|discriminate].
Qed.

Lemma upstream_end_minus_gap : forall (pre : list exon) (A B : exon) post lo hi p,
  chain lo (pre ++ A :: B :: post) hi -> snd A <= p -> p < fst B ->
  upstream_end_minus (rev (pre ++ A :: B :: post)) p None = Some (fst B).
Proof.
  intros pre A B post lo hi p C H1 H2.
  destruct (chain_pre _ _ _ _ _ C) as (Hpre & A1 & A2 & A3 & C2). cbn [chain] in C2. destruct C2 as (B1 & B2 & B3 & C3).
  rewrite rev_app_distr. cbn [rev]. rewrite <- !app_assoc. cbn [app].
  assert (T : forall ind, upstream_end_minus (B :: A :: rev pre) p ind = Some (fst B)).
  { intros. cbn [upstream_end_minus]. assert (fst B <? p = false) as -> by lia. assert (fst A <? p = true) as -> by lia. reflexivity. }
  destruct (rev post) as [|z zs] eqn:R.
  - cbn [app]. apply T.
  - destruct (upstream_end_minus_skip (z :: zs) (B :: A :: rev pre) p None) as (i & E).
    + intros x Hx. rewrite <- R in Hx. apply in_rev in Hx. pose proof (chain_post _ _ _ C3 x Hx). lia.
    + discriminate.
    + rewrite E. apply T.
Qed.

Lemma downstream_start_minus_skip : forall (l rest : list exon) p,
  (forall x, In x l -> p < snd x - 1) ->
  downstream_start_minus (l ++ rest) p = downstream_start_minus rest p.
Proof.
  induction l as [|x l IH]; intros rest p H; [reflexivity|].
  cbn [app downstream_start_minus]. assert (snd x - 1 <=? p = false) as -> by (specialize (H x (or_introl eq_refl)); lia).
  apply IH. intros; apply H; right; assumption.
Qed.

Lemma downstream_start_minus_gap : forall (pre : list exon) (A B : exon) post lo hi p,
  chain lo (pre ++ A :: B :: post) hi -> snd A <= p -> p < fst B ->
  downstream_start_minus (rev (pre ++ A :: B :: post)) p = Some (snd A - 1).
Proof.
  intros pre A B post lo hi p C H1 H2.
  destruct (chain_pre _ _ _ _ _ C) as (Hpre & A1 & A2 & A3 & C2). cbn [chain] in C2. destruct C2 as (B1 & B2 & B3 & C3).
  rewrite rev_app_distr. cbn [rev]. rewrite <- !app_assoc. cbn [app].
  rewrite downstream_start_minus_skip.
  - cbn [downstream_start_minus]. assert (snd B - 1 <=? p = false) as -> by lia.
    assert (snd A - 1 <=? p = true) as -> by lia. reflexivity.
  - intros x Hx. apply in_rev in Hx. pose proof (chain_post _ _ _ C3 x Hx). lia.
Qed.

Section Gap.
Variables (g : gene) (chrom : list Z).
Let strand := g_strand g.
Let gs := g_start g.
Let ge := g_end g.
Hypothesis Hstrand : strand = 1 \/ strand = -1.
Hypothesis Hgs : 0 <= gs.
Hypothesis Hge : ge <= zlength chrom.

Lemma genomic2gene_gcoord : forall x, genomic2gene g x = gcoord strand gs ge x.
Proof. reflexivity. Qed.

Lemma donor_gap : forall (pre : list exon) (A B : exon) post p,
  chain gs (pre ++ A :: B :: post) ge -> snd A <= p -> p < fst B ->
  exists cut lis lie, donor_side g (pre ++ A :: B :: post) (gcoord strand gs ge p + 1) = Some (cut, (lis, lie)) /\
    take (tx_seq strand chrom (pre ++ A :: B :: post)) cut ++ slice (gene_seq strand chrom gs ge) lis lie
    = donor_part strand chrom (pre ++ A :: B :: post) p.
Proof.
  intros pre A B post p C H1 H2.
  pose proof (chain_wchain _ _ _ C) as W.
  destruct (chain_pre _ _ _ _ _ C) as (Hpre & A1 & A2 & A3 & C2). cbn [chain] in C2. destruct C2 as (B1 & B2 & B3 & C3).
  pose proof (wchain_app _ _ _ _ W) as (Wpre & lo' & L1 & Wm & L2). cbn [wchain] in Wm.
  destruct Wm as (W1 & W2 & W3 & W4 & W5 & W6 & Wpost).
  assert (Lpre : zlength (exons_seq chrom pre) = exons_len pre)
    by (eapply exons_seq_length; [exact Hgs|exact Hge|exact Wpre]).
  assert (Lpost : zlength (exons_seq chrom post) = exons_len post)
    by (eapply (exons_seq_length chrom post (snd B)); [lia|exact Hge|exact Wpost]).
  unfold donor_side. fold strand gs ge.
  replace (gcoord strand gs ge p + 1 - 1) with (gcoord strand gs ge p) by lia.
  rewrite (g2g_inv g). rewrite (is_exonic_gap _ _ _ _ _ _ _ C H1 H2).
  unfold upstream_exon_end. unfold donor_part.
  destruct Hstrand as [S|S]; rewrite S; cbn [Z.eqb Pos.eqb].
  - rewrite (upstream_end_plus_gap _ _ _ _ _ _ _ _ C H1 H2).
    rewrite genomic2gene_gcoord. fold strand. rewrite S.
    replace (gcoord 1 gs ge (snd A - 1) + 1 - 1) with (gcoord 1 gs ge (snd A - 1)) by lia.
    rewrite (conv_mid 1 gs ge chrom) by (assumption || lia). cbn [Z.eqb Pos.eqb].
    do 3 eexists. split; [reflexivity|].
    rewrite (tx_seq_mid 1 chrom pre A (B :: post)). unfold side1, side2, gslice. cbn [Z.eqb Pos.eqb].
    rewrite (take_two _ _ _ _) by (rewrite slice_length by lia; lia).
    assert (G := gene_seq_slice 1 gs ge chrom Hgs Hge (snd A) (p + 1)). cbn [Z.eqb Pos.eqb] in G.
    unfold gcoord. cbn [Z.eqb Pos.eqb].
    replace (snd A - 1 - gs + 1) with (snd A - gs) by lia. replace (p - gs + 1) with (p + 1 - gs) by lia.
    rewrite G by lia. unfold gslice. cbn [Z.eqb Pos.eqb].
    rewrite (clip_upto_gap _ _ _ _ _ _ _ C H1 H2). rewrite exons_seq_app.
    change (exons_seq chrom [(fst A, p + 1)]) with (slice chrom (fst A) (p + 1) ++ []). rewrite app_nil_r.
    rewrite <- app_assoc. f_equal. apply slice_app; lia.
  - rewrite (upstream_end_minus_gap _ _ _ _ _ _ _ C H1 H2).
    rewrite genomic2gene_gcoord. fold strand. rewrite S.
    replace (gcoord (-1) gs ge (fst B) + 1 - 1) with (gcoord (-1) gs ge (fst B)) by lia.
    rewrite (reassoc1 pre A (B :: post)).
    rewrite (conv_mid (-1) gs ge chrom) by (try rewrite <- reassoc1; assumption || lia).
    cbn [Z.eqb].
    do 3 eexists. split; [reflexivity|].
    rewrite (tx_seq_mid (-1) chrom (pre ++ [A]) B post). unfold side1, side2, gslice. cbn [Z.eqb].
    rewrite (take_two _ _ _ _) by (rewrite !revcomp_length; rewrite slice_length by lia; lia).
    assert (G := gene_seq_slice (-1) gs ge chrom Hgs Hge p (fst B)). cbn [Z.eqb] in G.
    unfold gcoord. cbn [Z.eqb].
    replace (ge - 1 - fst B + 1) with (ge - fst B) by lia. replace (ge - 1 - p + 1) with (ge - p) by lia.
    rewrite G by lia. unfold gslice. cbn [Z.eqb].
    rewrite <- (reassoc1 pre A (B :: post)).
    rewrite (clip_from_gap _ _ _ _ _ _ _ C H1 H2).
    change (exons_seq chrom ((p, snd B) :: post)) with (slice chrom p (snd B) ++ exons_seq chrom post).
    rewrite <- (slice_app chrom p (fst B) (snd B)) by lia.
    rewrite !revcomp_app. rewrite <- !app_assoc. reflexivity.
Qed.

Lemma accepter_gap : forall (pre : list exon) (A B : exon) post q,
  chain gs (pre ++ A :: B :: post) ge -> snd A <= q -> q < fst B ->
  exists ris rie from, accepter_side g (pre ++ A :: B :: post) (gcoord strand gs ge q) = Some ((ris, rie), from) /\
    slice (gene_seq strand chrom gs ge) ris rie ++ drop (tx_seq strand chrom (pre ++ A :: B :: post)) from
    = accepter_part strand chrom (pre ++ A :: B :: post) q.
Proof.
  intros pre A B post q C H1 H2.
  pose proof (chain_wchain _ _ _ C) as W.
  destruct (chain_pre _ _ _ _ _ C) as (Hpre & A1 & A2 & A3 & C2). cbn [chain] in C2. destruct C2 as (B1 & B2 & B3 & C3).
  pose proof (wchain_app _ _ _ _ W) as (Wpre & lo' & L1 & Wm & L2). cbn [wchain] in Wm.
  destruct Wm as (W1 & W2 & W3 & W4 & W5 & W6 & Wpost).
  assert (Lpre : zlength (exons_seq chrom pre) = exons_len pre)
    by (eapply exons_seq_length; [exact Hgs|exact Hge|exact Wpre]).
  assert (Lpost : zlength (exons_seq chrom post) = exons_len post)
    by (eapply (exons_seq_length chrom post (snd B)); [lia|exact Hge|exact Wpost]).
  unfold accepter_side. fold strand gs ge.
  rewrite (g2g_inv g). rewrite (is_exonic_gap _ _ _ _ _ _ _ C H1 H2).
  unfold downstream_exon_start. unfold accepter_part.
  destruct Hstrand as [S|S]; rewrite S; cbn [Z.eqb Pos.eqb].
  - rewrite (downstream_start_plus_gap _ _ _ _ _ _ _ C H1 H2).
    rewrite genomic2gene_gcoord. fold strand. rewrite S.
    rewrite (reassoc1 pre A (B :: post)).
    rewrite (conv_mid 1 gs ge chrom) by (try rewrite <- reassoc1; assumption || lia). cbn [Z.eqb Pos.eqb].
    do 3 eexists. split; [reflexivity|].
    rewrite (tx_seq_mid 1 chrom (pre ++ [A]) B post). unfold side1, side2, gslice. cbn [Z.eqb Pos.eqb].
    rewrite (drop_one _ _ _) by lia.
    assert (G := gene_seq_slice 1 gs ge chrom Hgs Hge q (fst B)). cbn [Z.eqb Pos.eqb] in G.
    unfold gcoord. cbn [Z.eqb Pos.eqb]. rewrite G by lia. unfold gslice. cbn [Z.eqb Pos.eqb].
    rewrite <- (reassoc1 pre A (B :: post)).
    rewrite (clip_from_gap _ _ _ _ _ _ _ C H1 H2).
    change (exons_seq chrom ((q, snd B) :: post)) with (slice chrom q (snd B) ++ exons_seq chrom post).
    rewrite <- (slice_app chrom q (fst B) (snd B)) by lia. rewrite <- app_assoc. reflexivity.
  - rewrite (downstream_start_minus_gap _ _ _ _ _ _ _ C H1 H2).
    rewrite genomic2gene_gcoord. fold strand. rewrite S.
    rewrite (conv_mid (-1) gs ge chrom) by (assumption || lia). cbn [Z.eqb].
    do 3 eexists. split; [reflexivity|].
    rewrite (tx_seq_mid (-1) chrom pre A (B :: post)). unfold side1, side2, gslice. cbn [Z.eqb].
    rewrite (drop_one _ _ _) by lia.
    assert (G := gene_seq_slice (-1) gs ge chrom Hgs Hge (snd A) (q + 1)). cbn [Z.eqb] in G.
    unfold gcoord. cbn [Z.eqb].
    replace (ge - 1 - q) with (ge - (q + 1)) by lia. replace (ge - 1 - (snd A - 1)) with (ge - snd A) by lia.
    rewrite G by lia. unfold gslice. cbn [Z.eqb].
    rewrite (clip_upto_gap _ _ _ _ _ _ _ C H1 H2). rewrite exons_seq_app.
    change (exons_seq chrom [(fst A, q + 1)]) with (slice chrom (fst A) (q + 1) ++ []). rewrite app_nil_r.
    rewrite <- (slice_app chrom (fst A) (snd A) (q + 1)) by lia.
    rewrite !revcomp_app. rewrite <- !app_assoc. reflexivity.
Qed.
End Gap.

(* ================================================================== the full statement *)
Definition located (ex : list exon) (p : Z) : Prop := exonic_in ex p \/ intronic_in ex p.

Lemma span_located : forall (ex : list exon) lo hi p,
  chain lo ex hi -> ex <> [] -> fst (hd (0, 0) ex) <= p -> p < snd (last ex (0, 0)) -> located ex p.
Proof.
  induction ex as [|x t IH]; intros lo hi p C N H1 H2; [congruence|].
  cbn [hd] in H1.
  destruct (Z_lt_ge_dec p (snd x)) as [Hp|Hp].
  - left. exists [], x, t. cbn. repeat split; lia.
  - destruct t as [|y t'].
    + cbn in H2. lia.
    + cbn [chain] in C. destruct C as (C1 & C2 & C3 & C4).
      destruct (Z_lt_ge_dec p (fst y)) as [Hq|Hq].
      * right. exists [], x, y, t'. cbn. repeat split; lia.
      * assert (L : located (y :: t') p).
        { apply (IH _ hi p C4); [discriminate|cbn; lia|]. exact H2. }
        destruct L as [(pre & M & post & E & A & B)|(pre & A & B & post & E & HA & HB)].
        -- left. exists (x :: pre), M, post. rewrite E. repeat split; assumption.
        -- right. exists (x :: pre), A, B, post. rewrite E. repeat split; assumption.
Qed.

Section Sides.
Variables (g : gene) (chrom : list Z).
Hypothesis Hstrand : g_strand g = 1 \/ g_strand g = -1.
Hypothesis Hgs : 0 <= g_start g.
Hypothesis Hge : g_end g <= zlength chrom.

Lemma donor_located : forall ex p, chain (g_start g) ex (g_end g) -> located ex p ->
  exists cut lis lie, donor_side g ex (gcoord (g_strand g) (g_start g) (g_end g) p + 1) = Some (cut, (lis, lie)) /\
    take (tx_seq (g_strand g) chrom ex) cut ++ slice (gene_seq (g_strand g) chrom (g_start g) (g_end g)) lis lie
    = donor_part (g_strand g) chrom ex p.
Proof.
  intros ex p C [(pre & M & post & -> & A & B)|(pre & A & B & post & -> & HA & HB)].
  - destruct (donor_exonic g chrom Hstrand Hgs Hge pre M post p C A B) as (cut & DS & DT).
    exists cut, 0, 0. split; [assumption|]. rewrite slice_nil, app_nil_r. assumption.
  - apply (donor_gap g chrom Hstrand Hgs Hge); assumption.
Qed.

Lemma accepter_located : forall ex q, chain (g_start g) ex (g_end g) -> located ex q ->
  exists ris rie from, accepter_side g ex (gcoord (g_strand g) (g_start g) (g_end g) q) = Some ((ris, rie), from) /\
    slice (gene_seq (g_strand g) chrom (g_start g) (g_end g)) ris rie ++ drop (tx_seq (g_strand g) chrom ex) from
    = accepter_part (g_strand g) chrom ex q.
Proof.
  intros ex q C [(pre & M & post & -> & A & B)|(pre & A & B & post & -> & HA & HB)].
  - destruct (accepter_exonic g chrom Hstrand Hgs Hge pre M post q C A B) as (from & AS & AD).
    exists 0, 0, from. split; [assumption|]. rewrite slice_nil. cbn [app]. assumption.
  - apply (accepter_gap g chrom Hstrand Hgs Hge); assumption.
Qed.
End Sides.

Lemma in_product : forall a b x y, In (x, y) (product a b) -> In x a /\ In y b.
Proof.
  induction a as [|h t IH]; intros b x y H; cbn [product] in H; [contradiction|].
  apply in_app_or in H. destruct H as [H|H].
  - apply in_map_iff in H. destruct H as (z & E & Hz). inversion E; subst. split; [left; reflexivity|assumption].
  - destruct (IH _ _ _ H). split; [right; assumption|assumption].
Qed.

(* the transcript line spans its exons (GENCODE: transcript start = first exon start, end = last exon end) *)
Definition span_ok (t : tx) : Prop :=
  t_start t = fst (hd (0, 0) (t_exons t)) /\ t_end t = snd (last (t_exons t) (0, 0)).

Lemma fusion_denotes_full : forall t genes chroms dg ag L R out,
  convert t genes chroms dg ag L R = FOk out ->
  exists d a,
    lookup_gene genes dg = FOk d /\ lookup_gene genes ag = FOk a /\
    map (fun x => (f_dtx x, f_atx x)) out =
      product (txs_with_position (g_txs (w_gene d)) (L - 1) 0) (txs_with_position (g_txs (w_gene a)) (R - 1) 0) /\
    forall x, In x out ->
      gene2genomic (w_gene d) (f_pos x - 1) = L - 1 /\ gene2genomic (w_gene a) (f_apos x) = R - 1 /\
      forall td ta,
        0 <= f_dtx x -> 0 <= f_atx x ->
        nth_error (g_txs (w_gene d)) (Z.to_nat (f_dtx x)) = Some td ->
        nth_error (g_txs (w_gene a)) (Z.to_nat (f_atx x)) = Some ta ->
        wf_gene (w_gene d) (chrom_of chroms (w_chrom d)) -> wf_gene (w_gene a) (chrom_of chroms (w_chrom a)) ->
        span_ok td -> span_ok ta ->
        fusion_apply (w_gene d) (chrom_of chroms (w_chrom d)) (t_exons td)
                     (w_gene a) (chrom_of chroms (w_chrom a)) (t_exons ta) x
        = Some (fused_seq (g_strand (w_gene d)) (chrom_of chroms (w_chrom d)) (t_exons td) (L - 1)
                          (g_strand (w_gene a)) (chrom_of chroms (w_chrom a)) (t_exons ta) (R - 1)).
Proof.
  intros t genes chroms dg ag L R out H.
  destruct (convert_spec _ _ _ _ _ _ _ _ H) as (d & a & dp & ap & Ld & La & Gd & Ga & Pairs & Pos).
  exists d, a. split; [assumption|]. split; [assumption|]. split; [assumption|].
  intros x Hx. destruct (Pos x Hx) as (P1 & P2).
  destruct (g2gene_inv _ _ _ Gd) as (D1 & D2 & D3). destruct (g2gene_inv _ _ _ Ga) as (A1 & A2 & A3).
  split; [rewrite P1, D3; replace (gcoord _ _ _ (L - 1) + 1 - 1) with (gcoord (g_strand (w_gene d)) (g_start (w_gene d)) (g_end (w_gene d)) (L - 1)) by lia; apply g2g_inv|].
  split; [rewrite P2, A3; apply g2g_inv|].
  intros td ta Nd0 Na0 Ntd Nta (Sd & Gsd & Ged & Chd) (Sa & Gsa & Gea & Cha) (Sp1 & Sp2) (Sq1 & Sq2).
  assert (Hpair : In (f_dtx x, f_atx x) (product (txs_with_position (g_txs (w_gene d)) (L - 1) 0) (txs_with_position (g_txs (w_gene a)) (R - 1) 0))).
  { rewrite <- Pairs. apply (in_map (fun x => (f_dtx x, f_atx x))). assumption. }
  destruct (in_product _ _ _ _ Hpair) as (Id & Ia).
  destruct (txs_with_position_spec _ _ _ _ Id) as (td' & Nd' & _ & Ed & Td1 & Td2).
  destruct (txs_with_position_spec _ _ _ _ Ia) as (ta' & Na' & _ & Ea & Ta1 & Ta2).
  rewrite Z.sub_0_r in Nd', Na'. rewrite Ntd in Nd'. rewrite Nta in Na'. inversion Nd'; subst td'. inversion Na'; subst ta'.
  pose proof (Chd td (nth_error_In _ _ Ntd)) as Cd. pose proof (Cha ta (nth_error_In _ _ Nta)) as Ca.
  assert (Locd : located (t_exons td) (L - 1)) by (eapply span_located; [exact Cd|assumption|lia|lia]).
  assert (Loca : located (t_exons ta) (R - 1)) by (eapply span_located; [exact Ca|assumption|lia|lia]).
  destruct (donor_located (w_gene d) (chrom_of chroms (w_chrom d)) Sd Gsd Ged _ _ Cd Locd) as (cut & lis & lie & DS & DT).
  destruct (accepter_located (w_gene a) (chrom_of chroms (w_chrom a)) Sa Gsa Gea _ _ Ca Loca) as (ris & rie & from & AS & AD).
  unfold fusion_apply, fused_seq. rewrite P1, P2, D3, A3, DS, AS.
  f_equal. rewrite <- DT, <- AD. rewrite <- !app_assoc. reflexivity.
Qed.
