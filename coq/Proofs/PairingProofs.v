(* Pairing of cleavage sites with range-pattern matches (iter_enzymatic_cleave_sites_with_range):
   for a rule whose alternatives satisfy the decidable check [pair_ok], for EVERY string the list of
   overlapped range matches has the same length as the list of sites (no "Inconsistent cleavage
   sites" ValueError) and the i-th range is the span of an alternative producing the i-th site. *)
From Coq Require Import ZArith List Bool Lia ZifyBool Arith.
From MoPep Require Import Model.Base Model.Rule Model.Digest Proofs.DigestProofs Proofs.ExpasyProofs.
Import ListNotations.
Open Scope nat_scope.

(* ---------- matching a class list at an absolute start position ---------- *)
Definition match_at (cs : list cls) (s : seq) (p : nat) : bool := match_prefix cs (skipn p s).

Lemma match_prefix_nth cs : forall s j c, match_prefix cs s = true -> nth_error cs j = Some c ->
  exists x, nth_error s j = Some x /\ cls_match c x = true.
Proof.
  induction cs as [|c0 cs IH]; intros s j c Hm Hn; [destruct j; discriminate|].
  destruct s as [|x s]; [discriminate|]. cbn in Hm. apply andb_true_iff in Hm as [H0 Hm].
  destruct j as [|j]; cbn in Hn.
  - injection Hn as <-. exists x. auto.
  - cbn. eapply IH; eauto.
Qed.

Lemma match_at_nth cs s p j c : match_at cs s p = true -> nth_error cs j = Some c ->
  exists x, nth_error s (p + j) = Some x /\ cls_match c x = true.
Proof.
  unfold match_at. intros Hm Hn. destruct (match_prefix_nth _ _ _ _ Hm Hn) as (x & Hx & Hc).
  exists x. split; auto. rewrite <- Hx. clear. revert s. induction p as [|p IH]; intros s; [reflexivity|].
  destruct s; cbn; [destruct j; reflexivity | apply IH].
Qed.

Lemma match_prefix_app a b : forall s, match_prefix (a ++ b) s =
  match_prefix a s && match_prefix b (skipn (length a) s).
Proof.
  induction a as [|c a IH]; intros s; [reflexivity|].
  destruct s as [|x s]; cbn [app match_prefix length skipn].
  - destruct a, b; reflexivity.
  - rewrite IH, andb_assoc. reflexivity.
Qed.

Lemma match_prefix_exact cs : forall m r, length m = length cs ->
  match_prefix cs (m ++ r) = match_prefix cs m.
Proof.
  induction cs as [|c cs IH]; intros m r H; [reflexivity|].
  destruct m as [|x m]; [discriminate|]. cbn in H |- *. rewrite IH by lia. reflexivity.
Qed.

Lemma skipn_exact {A} (m r : list A) n : length m = n -> skipn n (m ++ r) = r.
Proof. intros <-. rewrite skipn_app, skipn_all, Nat.sub_diag. reflexivity. Qed.

Lemma skipn_app_le {A} (l r : list A) n : n <= length l -> skipn n (l ++ r) = skipn n l ++ r.
Proof. intros H. rewrite skipn_app. replace (n - length l) with 0 by lia. reflexivity. Qed.

(* match of a reversed class list against a reversed left context *)
Lemma match_prefix_rev cs : forall l, length cs <= length l ->
  match_prefix (rev cs) (rev l) = match_prefix cs (skipn (length l - length cs) l).
Proof.
  induction cs as [|c cs IH] using rev_ind; intros l Hl.
  - reflexivity.
  - rewrite app_length in Hl. cbn in Hl. rewrite rev_app_distr. cbn [rev app].
    destruct l as [|y l] using rev_ind; [cbn in Hl; lia|]. clear IHl.
    rewrite !app_length in *. cbn [length] in *.
    rewrite rev_app_distr. cbn [rev app match_prefix].
    rewrite IH by lia.
    replace (length l + 1 - (length cs + 1)) with (length l - length cs) by lia.
    rewrite skipn_app_le by lia.
    assert (length (skipn (length l - length cs) l) = length cs) as Hlen by (rewrite skipn_length; lia).
    rewrite match_prefix_app, match_prefix_exact by exact Hlen.
    rewrite skipn_exact by exact Hlen. cbn. rewrite andb_true_r. apply andb_comm.
Qed.

Lemma match_prefix_short cs s : length s < length cs -> match_prefix cs s = false.
Proof.
  revert s. induction cs as [|c cs IH]; intros s H; [cbn in H; lia|].
  destruct s as [|x s]; [reflexivity|]. cbn in H |- *. rewrite IH by lia. apply andb_false_r.
Qed.

(* alt_match in scanning form = the flattened alternative matches at start |l| - |before| *)
Lemma alt_match_flat a l x t :
  alt_match a (rev l) x t =
  (length (before a) <=? length l) &&
  match_at (flatten_alt a) (l ++ x :: t) (length l - length (before a)).
Proof.
  unfold alt_match, match_at, flatten_alt.
  destruct (length (before a) <=? length l) eqn:E.
  - apply Nat.leb_le in E. rewrite match_prefix_rev by lia.
    rewrite skipn_app_le by lia.
    assert (length (skipn (length l - length (before a)) l) = length (before a)) as Hlen
      by (rewrite skipn_length; lia).
    rewrite match_prefix_app, match_prefix_exact by exact Hlen.
    rewrite skipn_exact by exact Hlen. cbn [app match_prefix andb].
    rewrite andb_assoc. reflexivity.
  - apply Nat.leb_gt in E. rewrite match_prefix_short; [reflexivity|].
    rewrite !rev_length. exact E.
Qed.

(* ---------- hits: at every start position, the first alternative whose flattening matches ---------- *)
Fixpoint first_alt_flat (r : rule) (u : seq) : option alt :=
  match r with
  | [] => None
  | a :: r' => if match_prefix (flatten_alt a) u then Some a else first_alt_flat r' u
  end.

Fixpoint raw_hits (r : rule) (s : seq) (p : nat) : list (nat * alt) :=
  match s with
  | [] => []
  | _ :: s' =>
      match first_alt_flat r s with
      | Some a => (p, a) :: raw_hits r s' (S p)
      | None => raw_hits r s' (S p)
      end
  end.

Lemma first_match2_flat r u :
  first_match2 (flatten_rule r) u = option_map (fun a => length (flatten_alt a)) (first_alt_flat r u).
Proof.
  induction r as [|a r IH]; [reflexivity|]. cbn.
  destruct (match_prefix (flatten_alt a) u); [reflexivity | exact IH].
Qed.

Lemma raw_ranges_hits r : forall s p,
  raw_ranges (flatten_rule r) s p =
  map (fun pa => (fst pa, fst pa + length (flatten_alt (snd pa)))) (raw_hits r s p).
Proof.
  induction s as [|x s IH]; intros p; [reflexivity|].
  cbn [raw_ranges raw_hits]. rewrite first_match2_flat.
  destruct (first_alt_flat r (x :: s)) as [a|]; cbn [option_map map fst snd]; rewrite IH; reflexivity.
Qed.

Lemma first_alt_flat_some r u a : first_alt_flat r u = Some a ->
  In a r /\ match_prefix (flatten_alt a) u = true.
Proof.
  induction r as [|b r IH]; [discriminate|]. cbn.
  destruct (match_prefix (flatten_alt b) u) eqn:E.
  - intros [= <-]. auto.
  - intros H. destruct (IH H). auto.
Qed.

Lemma first_alt_flat_none r u : first_alt_flat r u = None ->
  forall a, In a r -> match_prefix (flatten_alt a) u = false.
Proof.
  induction r as [|b r IH]; [intros _ a []|]. cbn.
  destruct (match_prefix (flatten_alt b) u) eqn:E; [discriminate|].
  intros H a [<-|Ha]; auto.
Qed.

Lemma skipn_S_cons {A} (s : list A) d x u : skipn d s = x :: u -> skipn (S d) s = u.
Proof.
  revert s. induction d as [|d IH]; intros s H.
  - cbn in H. subst. reflexivity.
  - destruct s as [|y s]; [discriminate|]. cbn in H |- *. apply IH. exact H.
Qed.

(* hits, in terms of absolute positions of a fixed string s0 *)
Lemma raw_hits_spec r s0 : forall d,
  forall p a, In (p, a) (raw_hits r (skipn d s0) d) <->
  (d <= p /\ p < length s0 /\ first_alt_flat r (skipn p s0) = Some a).
Proof.
  intros d. remember (length s0 - d) as n eqn:Hn. revert d Hn.
  induction n as [|n IH]; intros d Hn p a.
  - assert (skipn d s0 = []) as -> by (apply skipn_all2; lia). cbn. split; [intros []|]. lia.
  - destruct (skipn d s0) as [|x u] eqn:E.
    + assert (length (skipn d s0) = 0) as Hl by (rewrite E; reflexivity). rewrite skipn_length in Hl. lia.
    + cbn [raw_hits]. pose proof (skipn_S_cons _ _ _ _ E) as E'.
      specialize (IH (S d) ltac:(lia) p a). rewrite E' in IH.
      assert (Hd : d < length s0).
      { assert (length (skipn d s0) = S (length u)) as Hl by (rewrite E; reflexivity).
        rewrite skipn_length in Hl. lia. }
      destruct (first_alt_flat r (x :: u)) as [a0|] eqn:F.
      * cbn [In]. rewrite IH. split.
        -- intros [[= <- <-] | (H1 & H2 & H3)]; [|repeat split; auto; lia].
           repeat split; auto. rewrite E. exact F.
        -- intros (H1 & H2 & H3). destruct (Nat.eq_dec p d) as [->|Hne].
           ++ left. rewrite E in H3. congruence.
           ++ right. repeat split; auto. lia.
      * rewrite IH. split.
        -- intros (H1 & H2 & H3). repeat split; auto. lia.
        -- intros (H1 & H2 & H3). destruct (Nat.eq_dec p d) as [->|Hne].
           ++ rewrite E in H3. congruence.
           ++ repeat split; auto. lia.
Qed.

Lemma raw_hits_incr r : forall s p, incr_from p (map (fun pa => S (fst pa)) (raw_hits r s p)).
Proof.
  induction s as [|x s IH]; intros p; cbn [raw_hits]; [constructor|].
  destruct (first_alt_flat r (x :: s)); cbn [map fst].
  - constructor; [lia | apply IH].
  - apply incr_from_weaken with (S p); [lia | apply IH].
Qed.

(* ---------- the decidable pairing check ---------- *)
Definition cls_disjoint (c c' : cls) : bool :=
  match c, c' with
  | CBad, _ | _, CBad => true
  | CIn l, CIn l' => forallb (fun x => negb (memZ x l')) l
  | CIn l, CNotIn l' | CNotIn l', CIn l => forallb (fun x => memZ x l') l
  | CIn l, CWord | CWord, CIn l => forallb (fun x => negb (is_word x)) l
  | _, _ => false
  end.

Lemma memZ_In x l : memZ x l = true <-> In x l.
Proof.
  induction l as [|y l IH]; cbn; [split; [discriminate | intros []]|].
  rewrite orb_true_iff, IH, Z.eqb_eq. split; intros [H|H]; auto.
Qed.

Lemma cls_disjoint_sound c c' x :
  cls_disjoint c c' = true -> cls_match c x = true -> cls_match c' x = true -> False.
Proof.
  destruct c as [l| l | |], c' as [l'|l'| |]; cbn; intros Hd H1 H2; try discriminate.
  - apply memZ_In in H1. rewrite forallb_forall in Hd. specialize (Hd x H1).
    rewrite H2 in Hd. discriminate.
  - apply memZ_In in H1. rewrite forallb_forall in Hd. specialize (Hd x H1).
    rewrite Hd in H2. discriminate.
  - apply memZ_In in H1. rewrite forallb_forall in Hd. specialize (Hd x H1).
    rewrite H2 in Hd. discriminate.
  - apply memZ_In in H2. rewrite forallb_forall in Hd. specialize (Hd x H2).
    rewrite Hd in H1. discriminate.
  - apply memZ_In in H2. rewrite forallb_forall in Hd. specialize (Hd x H2).
    rewrite H1 in Hd. discriminate.
Qed.

(* some aligned position carries disjoint classes: flat' placed d letters after the start of flat *)
Definition disjoint_at (f f' : list cls) (d : nat) : bool :=
  existsb (fun j => match nth_error f (d + j), nth_error f' j with
                    | Some c, Some c' => cls_disjoint c c'
                    | _, _ => false
                    end) (List.seq 0 (length f')).

Lemma disjoint_at_sound f f' d s p :
  disjoint_at f f' d = true -> match_at f s p = true -> match_at f' s (p + d) = true -> False.
Proof.
  unfold disjoint_at. rewrite existsb_exists. intros (j & _ & Hj) H1 H2.
  destruct (nth_error f (d + j)) as [c|] eqn:E1; [|discriminate].
  destruct (nth_error f' j) as [c'|] eqn:E2; [|discriminate].
  destruct (match_at_nth _ _ _ _ _ H1 E1) as (x & Hx & Hc).
  destruct (match_at_nth _ _ _ _ _ H2 E2) as (x' & Hx' & Hc').
  replace (p + d + j) with (p + (d + j)) in Hx' by lia. rewrite Hx in Hx'. injection Hx' as <-.
  eapply cls_disjoint_sound; eauto.
Qed.

Definition lbn (a : alt) : nat := length (before a).

Definition pair_ok (r : rule) : bool :=
  forallb (fun a => forallb (fun a' =>
    if lbn a' <? lbn a
    then forallb (fun d => disjoint_at (flatten_alt a) (flatten_alt a') d) (List.seq 0 (lbn a - lbn a' + 1))
    else true) r) r.

(* the semantic pairing condition, for every string *)
Lemma pair_ok_sound r : pair_ok r = true ->
  forall s a a' p p', In a r -> In a' r ->
  match_at (flatten_alt a) s p = true -> match_at (flatten_alt a') s p' = true -> p <= p' ->
  (p = p' -> lbn a = lbn a') /\ (p < p' -> p + lbn a < p' + lbn a').
Proof.
  unfold pair_ok. intros Hok s a a' p p' Ha Ha' Hm Hm' Hle.
  rewrite forallb_forall in Hok.
  assert (Hchk : forall b b' d, In b r -> In b' r -> lbn b' < lbn b -> d <= lbn b - lbn b' ->
            disjoint_at (flatten_alt b) (flatten_alt b') d = true).
  { intros b b' d Hb Hb' Hlt Hd. specialize (Hok b Hb). rewrite forallb_forall in Hok.
    specialize (Hok b' Hb'). apply Nat.ltb_lt in Hlt. rewrite Hlt in Hok.
    rewrite forallb_forall in Hok. apply Hok. apply in_seq. lia. }
  split.
  - intros <-. destruct (Nat.lt_trichotomy (lbn a) (lbn a')) as [H|[H|H]]; auto; exfalso.
    + eapply (disjoint_at_sound _ _ 0 s p (Hchk a' a 0 Ha' Ha H ltac:(lia))); rewrite ?Nat.add_0_r; eauto.
    + eapply (disjoint_at_sound _ _ 0 s p (Hchk a a' 0 Ha Ha' H ltac:(lia))); rewrite ?Nat.add_0_r; eauto.
  - intros Hlt. destruct (Nat.lt_ge_cases (p + lbn a) (p' + lbn a')) as [H|H]; auto. exfalso.
    eapply (disjoint_at_sound _ _ (p' - p) s p (Hchk a a' (p' - p) Ha Ha' ltac:(lia) ltac:(lia))); eauto.
    replace (p + (p' - p)) with p' by lia. exact Hm'.
Qed.

(* ---------- sites in terms of flattened matches ---------- *)
Lemma existsb_alt r l x t :
  rule_match r (rev l) x t = true <->
  exists a, In a r /\ lbn a <= length l /\
            match_at (flatten_alt a) (l ++ x :: t) (length l - lbn a) = true.
Proof.
  unfold rule_match. rewrite existsb_exists. split; intros (a & Ha & H); exists a; split; auto.
  - rewrite alt_match_flat in H. apply andb_true_iff in H as [H1 H2]. apply Nat.leb_le in H1. auto.
  - rewrite alt_match_flat. destruct H as [H1 H2]. apply andb_true_iff. split; auto. now apply Nat.leb_le.
Qed.

Lemma flatten_len a : length (flatten_alt a) = lbn a + 1 + length (after a).
Proof. unfold flatten_alt, lbn. rewrite !app_length. cbn. lia. Qed.

Lemma match_at_bound cs s p : 0 < length cs -> match_at cs s p = true -> p + length cs <= length s.
Proof.
  unfold match_at. intros Hpos H. destruct (Nat.le_gt_cases (p + length cs) (length s)); auto.
  rewrite match_prefix_short in H; [discriminate|]. rewrite skipn_length. lia.
Qed.

Lemma is_site_flat r s j :
  is_site r s j <->
  exists a p, In a r /\ match_at (flatten_alt a) s p = true /\ j = p + lbn a + 1.
Proof.
  unfold is_site. split.
  - intros (l & x & t & -> & -> & H). apply existsb_alt in H as (a & Ha & Hl & Hm).
    exists a, (length l - lbn a). repeat split; auto. lia.
  - intros (a & p & Ha & Hm & ->).
    pose proof (match_at_bound _ _ _ ltac:(rewrite flatten_len; lia) Hm) as Hb. rewrite flatten_len in Hb.
    set (i := p + lbn a).
    assert (Hi : i < length s) by (unfold i; lia).
    destruct (nth_error s i) as [x|] eqn:E; [|apply nth_error_None in E; lia].
    apply nth_error_split in E as (l & t & -> & Hl).
    exists l, x, t. repeat split; [lia|].
    apply existsb_alt. exists a. repeat split; auto; [lia|].
    replace (length l - lbn a) with p by lia. exact Hm.
Qed.

Lemma incr_from_ext : forall l1 l2 i j, incr_from i l1 -> incr_from j l2 ->
  (forall x, In x l1 <-> In x l2) -> l1 = l2.
Proof.
  induction l1 as [|a l1 IH]; intros l2 i j H1 H2 Hext.
  - destruct l2 as [|b l2]; [reflexivity|]. exfalso. apply (proj2 (Hext b)). left; reflexivity.
  - destruct l2 as [|b l2]; [exfalso; apply (proj1 (Hext a)); left; reflexivity|].
    inversion H1 as [|? ? ? Hia H1']; subst. inversion H2 as [|? ? ? Hjb H2']; subst.
    assert (Hlow1 : forall x, In x l1 -> a < x).
    { clear -H1'. revert a H1'. induction l1 as [|c l1 IHl]; intros a H x Hx; [destruct Hx|].
      inversion H as [|? ? ? Hac Hrest]; subst. destruct Hx as [<-|Hx]; auto.
      specialize (IHl _ Hrest x Hx). lia. }
    assert (Hlow2 : forall x, In x l2 -> b < x).
    { clear -H2'. revert b H2'. induction l2 as [|c l2 IHl]; intros b H x Hx; [destruct Hx|].
      inversion H as [|? ? ? Hbc Hrest]; subst. destruct Hx as [<-|Hx]; auto.
      specialize (IHl _ Hrest x Hx). lia. }
    assert (a = b).
    { destruct (proj1 (Hext a) (or_introl eq_refl)) as [->|Ha]; auto.
      destruct (proj2 (Hext b) (or_introl eq_refl)) as [->|Hb]; auto.
      specialize (Hlow2 _ Ha). specialize (Hlow1 _ Hb). lia. }
    subst b. f_equal. eapply IH; eauto. intros x. split; intros Hx.
    + destruct (proj1 (Hext x) (or_intror Hx)) as [<-|]; auto. specialize (Hlow1 _ Hx). lia.
    + destruct (proj2 (Hext x) (or_intror Hx)) as [<-|]; auto. specialize (Hlow2 _ Hx). lia.
Qed.

(* ---------- main theorem ---------- *)
Definition site_of_hit (pa : nat * alt) : nat := fst pa + lbn (snd pa) + 1.

Lemma hits_sites_incr r s : pair_ok r = true ->
  forall d, incr_from d (map site_of_hit (raw_hits r (skipn d s) d)).
Proof.
  intros Hok d. remember (length s - d) as n eqn:Hn. revert d Hn.
  induction n as [|n IH]; intros d Hn.
  - assert (skipn d s = []) as -> by (apply skipn_all2; lia). constructor.
  - destruct (skipn d s) as [|x u] eqn:E.
    + constructor.
    + cbn [raw_hits]. pose proof (skipn_S_cons _ _ _ _ E) as E'.
      specialize (IH (S d) ltac:(lia)). rewrite E' in IH.
      destruct (first_alt_flat r (x :: u)) as [a0|] eqn:F.
      * cbn [map]. constructor; [unfold site_of_hit; cbn; lia|].
        (* every later hit has a larger site, by the pairing condition *)
        apply first_alt_flat_some in F as [Ha0 Hm0]. rewrite <- E in Hm0.
        assert (Hall : forall pa, In pa (raw_hits r u (S d)) -> site_of_hit (d, a0) < site_of_hit pa).
        { intros [p a] Hin. rewrite <- E' in Hin. apply raw_hits_spec in Hin as (H1 & H2 & H3).
          apply first_alt_flat_some in H3 as [Ha Hm].
          destruct (pair_ok_sound r Hok s a0 a d p Ha0 Ha Hm0 Hm ltac:(lia)) as [_ Hlt].
          unfold site_of_hit. cbn. specialize (Hlt ltac:(lia)). lia. }
        clear -IH Hall. revert IH Hall. generalize (raw_hits r u (S d)) as hs. generalize (S d) as i.
        intros i hs. revert i. induction hs as [|h hs IHh]; intros i Hinc Hall; cbn [map]; [constructor|].
        inversion Hinc as [|? ? ? Hih Hrest]; subst. constructor; [apply Hall; left; reflexivity | exact Hrest].
      * apply incr_from_weaken with (S d); [lia | exact IH].
Qed.

Theorem hits_are_sites r s : pair_ok r = true ->
  map site_of_hit (raw_hits r s 0) = raw_sites r s.
Proof.
  intros Hok.
  apply incr_from_ext with (i := 0) (j := 0).
  - apply (hits_sites_incr r s Hok 0).
  - apply raw_sites_ctx_incr.
  - intros j. rewrite raw_sites_spec, is_site_flat, in_map_iff. split.
    + intros ([p a] & <- & Hin). apply (raw_hits_spec r s 0) in Hin as (_ & _ & H3).
      apply first_alt_flat_some in H3 as [Ha Hm]. exists a, p. repeat split; auto.
    + intros (a & p & Ha & Hm & ->).
      pose proof (match_at_bound _ _ _ ltac:(rewrite flatten_len; lia) Hm) as Hb. rewrite flatten_len in Hb.
      destruct (first_alt_flat r (skipn p s)) as [a0|] eqn:F.
      * exists (p, a0). split.
        -- apply first_alt_flat_some in F as [Ha0 Hm0].
           destruct (pair_ok_sound r Hok s a0 a p p Ha0 Ha Hm0 Hm ltac:(lia)) as [Heq _].
           unfold site_of_hit. cbn. rewrite (Heq eq_refl). reflexivity.
        -- apply (raw_hits_spec r s 0). repeat split; auto; lia.
      * pose proof (first_alt_flat_none _ _ F a Ha) as Hf. unfold match_at in Hm. congruence.
Qed.

(* iter_enzymatic_cleave_sites_with_range never raises "Inconsistent cleavage sites" and pairs every
   site with the span of an alternative of the rule that produces exactly this site *)
Theorem sites_with_range_paired r exc s : pair_ok r = true ->
  exists l, sites_with_range r (flatten_rule r) exc s = Some l /\
    map fst l = sites r exc s /\
    forall j p q, In (j, (p, q)) l ->
      exists a, In a r /\ match_at (flatten_alt a) s p = true /\
                j = p + lbn a + 1 /\ q = p + length (flatten_alt a).
Proof.
  intros Hok. unfold sites_with_range.
  rewrite raw_ranges_hits. rewrite <- (hits_are_sites r s Hok). rewrite !map_length, Nat.eqb_refl.
  eexists. split; [reflexivity|]. split.
  - (* first components *)
    unfold sites. rewrite <- (hits_are_sites r s Hok).
    generalize (raw_hits r s 0) as hs. intros hs.
    assert (Hgen : forall ex, map fst (filter (fun sr : nat * (nat * nat) => negb (mem_nat (fst sr) ex))
              (combine (map site_of_hit hs)
                 (map (fun pa => (fst pa, fst pa + length (flatten_alt (snd pa)))) hs))) =
            filter (fun i => negb (mem_nat i ex)) (map site_of_hit hs)).
    { intros ex. induction hs as [|h hs IH]; [reflexivity|]. cbn [map combine filter fst].
      destruct (negb (mem_nat (site_of_hit h) ex)); cbn [map fst]; rewrite IH; reflexivity. }
    destruct exc as [e|].
    + apply Hgen.
    + rewrite Hgen. cbn. clear. induction (map site_of_hit hs) as [|x l IH]; [reflexivity|]. cbn. now rewrite IH.
  - intros j p q Hin. apply filter_In in Hin as [Hin _].
    assert (Hc : exists a, In (p, a) (raw_hits r s 0) /\ j = site_of_hit (p, a) /\ q = p + length (flatten_alt a)).
    { revert Hin. generalize (raw_hits r s 0) as hs. induction hs as [|[p0 a0] hs IH]; [intros []|].
      cbn [map combine In fst snd]. intros [[= <- <- <-]|Hin].
      - exists a0. auto.
      - destruct (IH Hin) as (a & H1 & H2 & H3). exists a. auto. }
    destruct Hc as (a & Hh & -> & ->). apply (raw_hits_spec r s 0) in Hh as (_ & _ & H3).
    apply first_alt_flat_some in H3 as [Ha Hm]. exists a. repeat split; auto.
Qed.

(* obligation over the regenerated table *)
Lemma all_pairs_ok_proof : forallb (fun nr => pair_ok (snd nr)) Gen.Expasy.site_rules = true.
Proof. vm_compute. reflexivity. Qed.
