(* Lemmas and proofs for C14 (model: Model/Vep.v). *)
From Coq Require Import ZArith List Bool Lia ZifyBool.
From MoPep Require Import Model.Base Model.Vep.
Import ListNotations.
Open Scope Z_scope.

(* ------------------------------------------------------------------ *)
(* slices                                                               *)
Section Slices.
Context {A : Type}.
Implicit Types l : list A.

Lemma zlen_len l : zlen l = Z.of_nat (length l).
Proof. induction l; cbn [zlen length]; lia. Qed.

Lemma zlen_nonneg l : 0 <= zlen l.
Proof. rewrite zlen_len; lia. Qed.

Lemma zlen_app l1 l2 : zlen (l1 ++ l2) = zlen l1 + zlen l2.
Proof. rewrite !zlen_len, app_length; lia. Qed.

Lemma skipn_skipn (a b : nat) l : skipn a (skipn b l) = skipn (b + a) l.
Proof.
  revert l; induction b; intros l; cbn [skipn Nat.add]; auto.
  destruct l; [now rewrite skipn_nil | apply IHb].
Qed.

Lemma slice_split l a b c : 0 <= a <= b -> b <= c ->
  slice l a c = slice l a b ++ slice l b c.
Proof.
  intros H1 H2. unfold slice.
  replace (Z.to_nat (c - a)) with (Z.to_nat (b - a) + Z.to_nat (c - b))%nat by lia.
  rewrite <- (firstn_skipn (Z.to_nat (b - a)) (firstn _ (skipn (Z.to_nat a) l))) at 1.
  rewrite firstn_firstn, skipn_firstn_comm, skipn_skipn.
  f_equal; [f_equal; lia|]. f_equal; [lia | f_equal; lia].
Qed.

Lemma slice_full l : slice l 0 (zlen l) = l.
Proof. unfold slice. cbn [Z.to_nat skipn]. rewrite zlen_len, Z.sub_0_r, Nat2Z.id. apply firstn_all. Qed.

Lemma slice_empty l a b : b <= a -> slice l a b = [].
Proof. intros; unfold slice. replace (Z.to_nat (b - a)) with 0%nat by lia. reflexivity. Qed.

Lemma zlen_slice l a b : 0 <= a <= b -> b <= zlen l -> zlen (slice l a b) = b - a.
Proof.
  intros. unfold slice. rewrite zlen_len in *. rewrite firstn_length, skipn_length. lia.
Qed.

Lemma zlen_slice_clamp l a b : 0 <= a <= b -> a <= zlen l -> zlen (slice l a b) = Z.min b (zlen l) - a.
Proof.
  intros. unfold slice. rewrite !zlen_len in *. rewrite firstn_length, skipn_length. lia.
Qed.

Lemma slice_clamp l a b : 0 <= a -> slice l a (Z.min b (zlen l)) = slice l a b.
Proof.
  intros. unfold slice. destruct (Z.le_ge_cases b (zlen l)) as [Hb|Hb].
  - rewrite Z.min_l by lia; reflexivity.
  - rewrite Z.min_r by lia. rewrite zlen_len in *.
    destruct (Z.le_ge_cases (Z.of_nat (length l)) a).
    + rewrite skipn_all2 by lia. now rewrite !firstn_nil.
    + rewrite !firstn_all2; auto; rewrite skipn_length; lia.
Qed.

Lemma slice_app_l l1 l2 a b : 0 <= a -> b <= zlen l1 -> slice (l1 ++ l2) a b = slice l1 a b.
Proof.
  intros. destruct (Z.le_ge_cases b a) as [Hba|Hba]; [now rewrite !slice_empty|].
  unfold slice. rewrite zlen_len in *. rewrite skipn_app, firstn_app, skipn_length.
  replace (Z.to_nat (b - a) - (length l1 - Z.to_nat a))%nat with 0%nat by lia.
  cbn [firstn]. now rewrite app_nil_r.
Qed.

Lemma slice_app_r l1 l2 a b : zlen l1 <= a ->
  slice (l1 ++ l2) a b = slice l2 (a - zlen l1) (b - zlen l1).
Proof.
  intros. unfold slice. pose proof (zlen_nonneg l1). rewrite zlen_len in *. rewrite skipn_app.
  rewrite skipn_all2 by lia. cbn [app].
  f_equal; [lia|]. f_equal; lia.
Qed.

Lemma slice_app_mid l1 l2 a b : 0 <= a <= zlen l1 -> zlen l1 <= b ->
  slice (l1 ++ l2) a b = slice l1 a (zlen l1) ++ slice l2 0 (b - zlen l1).
Proof.
  intros. rewrite (slice_split _ a (zlen l1) b) by lia.
  rewrite slice_app_l by lia. rewrite slice_app_r by lia. now rewrite Z.sub_diag.
Qed.

Lemma slice_slice l c d a b : 0 <= c -> 0 <= a <= b -> c + b <= d ->
  slice (slice l c d) a b = slice l (c + a) (c + b).
Proof.
  intros. unfold slice. rewrite skipn_firstn_comm, firstn_firstn, skipn_skipn.
  f_equal; [lia|]. f_equal; lia.
Qed.

Lemma slice_rev l a b : 0 <= a <= b -> b <= zlen l ->
  slice (rev l) a b = rev (slice l (zlen l - b) (zlen l - a)).
Proof.
  intros. unfold slice. rewrite zlen_len in *.
  rewrite skipn_rev, firstn_rev, firstn_length. f_equal.
  rewrite skipn_firstn_comm. f_equal; [lia|]. f_equal; lia.
Qed.

Lemma slice_map {B} (f : A -> B) l a b : slice (map f l) a b = map f (slice l a b).
Proof. unfold slice. now rewrite skipn_map, firstn_map. Qed.

Lemma nthZ_bound l i x : nthZ l i = Some x -> 0 <= i < zlen l.
Proof.
  unfold nthZ. destruct (i <? 0) eqn:E; [discriminate|]. intros H.
  assert (Z.to_nat i < length l)%nat by (apply nth_error_Some; congruence).
  rewrite zlen_len; lia.
Qed.

Lemma slice_one l i x : nthZ l i = Some x -> slice l i (i + 1) = [x].
Proof.
  intros H. pose proof (nthZ_bound _ _ _ H) as Hb. unfold nthZ in H.
  destruct (i <? 0) eqn:E; [discriminate|].
  destruct (nth_error_split _ _ H) as (l1 & l2 & -> & Hl).
  unfold slice. replace (Z.to_nat (i + 1 - i)) with 1%nat by lia.
  rewrite skipn_app. rewrite (skipn_all2 l1) by lia. rewrite Hl, Nat.sub_diag. reflexivity.
Qed.

Lemma nthZ_some l i : 0 <= i < zlen l -> exists x, nthZ l i = Some x.
Proof.
  intros. unfold nthZ. destruct (i <? 0) eqn:E; [lia|].
  destruct (nth_error l (Z.to_nat i)) eqn:N; [eauto|].
  apply nth_error_None in N. rewrite zlen_len in *; lia.
Qed.
End Slices.

(* ------------------------------------------------------------------ *)
(* python slicing on non-negative arguments, complement                 *)

Lemma pyslice_slice (s : seq) a b : 0 <= a -> 0 <= b -> pyslice s a b = slice s a b.
Proof.
  intros. unfold pyslice, norm_idx.
  destruct (a <? 0) eqn:Ea; [lia|]. destruct (b <? 0) eqn:Eb; [lia|].
  pose proof (zlen_nonneg s).
  rewrite slice_clamp by lia.
  destruct (Z.le_ge_cases a (zlen s)).
  - now rewrite Z.min_l by lia.
  - rewrite Z.min_r by lia. unfold slice. rewrite zlen_len in *.
    rewrite !skipn_all2 by lia. now rewrite !firstn_nil.
Qed.

Lemma pyindex_nth (s : seq) i : 0 <= i -> pyindex s i = nthZ s i.
Proof. intros. unfold pyindex. destruct (i <? 0) eqn:E; [lia|reflexivity]. Qed.

Lemma comp_invol c : comp (comp c) = c.
Proof.
  unfold comp.
  destruct (c =? 65) eqn:E1; [apply Z.eqb_eq in E1; subst; reflexivity|].
  destruct (c =? 84) eqn:E2; [apply Z.eqb_eq in E2; subst; reflexivity|].
  destruct (c =? 67) eqn:E3; [apply Z.eqb_eq in E3; subst; reflexivity|].
  destruct (c =? 71) eqn:E4; [apply Z.eqb_eq in E4; subst; reflexivity|].
  now rewrite E1, E2, E3, E4.
Qed.

Lemma revcomp_app a b : revcomp (a ++ b) = revcomp b ++ revcomp a.
Proof. unfold revcomp. now rewrite map_app, rev_app_distr. Qed.

Lemma revcomp_invol a : revcomp (revcomp a) = a.
Proof.
  unfold revcomp. rewrite map_rev, rev_involutive, map_map.
  rewrite <- (map_id a) at 2. apply map_ext. apply comp_invol.
Qed.

Lemma zlen_revcomp a : zlen (revcomp a) = zlen a.
Proof. unfold revcomp. now rewrite !zlen_len, rev_length, map_length. Qed.

Lemma slice_revcomp (l : seq) a b : 0 <= a <= b -> b <= zlen l ->
  slice (revcomp l) a b = revcomp (slice l (zlen l - b) (zlen l - a)).
Proof.
  intros. unfold revcomp. rewrite slice_rev.
  - rewrite slice_map. f_equal. f_equal. rewrite !zlen_len, map_length. reflexivity.
  - lia.
  - rewrite !zlen_len, map_length in *. lia.
Qed.

Lemma last_opt_split (al : seq) x : last_opt al = Some x -> al = removelast al ++ [x].
Proof.
  induction al as [|y t IH]; [discriminate|].
  destruct t as [|z t']; cbn [last_opt removelast].
  - intros [= ->]. reflexivity.
  - intros H. cbn [app]. f_equal. apply IH. exact H.
Qed.

Lemma last_opt_some (al : seq) : al <> [] -> exists x, last_opt al = Some x.
Proof.
  induction al as [|y t IH]; [congruence|]. intros _.
  destruct t as [|z t']; [eexists; reflexivity|].
  destruct IH as [x Hx]; [congruence|]. exists x. exact Hx.
Qed.

(* ------------------------------------------------------------------ *)
(* VEP: the arms after the boundary checks                              *)

Lemma finish_ok st en ref alt r : finish st en ref alt = Ok r ->
  vr_start r = st /\ vr_end r = en /\ vr_ref r = ref /\ vr_alt r = alt /\ en - st = zlen ref.
Proof.
  unfold finish. destruct (en <? st) eqn:E1; [discriminate|].
  destruct (negb (en - st =? zlen ref)) eqn:E2; [discriminate|].
  intros [= <-]. cbn. repeat split; lia.
Qed.

Ltac unbind H :=
  match type of H with
  | bind (of_idx ?o) _ = Ok _ => let x := fresh "x" in let E := fresh "Ex" in
      destruct o as [x|] eqn:E; cbn [bind of_idx] in H; [|discriminate H]
  end.

(* what the record denotes on the gene sequence, arm by arm *)
Definition core_target (G : seq) (as1 ae2 : Z) (allele : option seq) : seq :=
  match allele with
  | None => slice G 0 as1 ++ slice G ae2 (zlen G)
  | Some al => if ae2 - as1 =? 2 then slice G 0 (as1 + 1) ++ al ++ slice G (as1 + 1) (zlen G)
               else slice G 0 as1 ++ al ++ slice G ae2 (zlen G)
  end.

Lemma core_spec fx G as1 ae2 ts allele r :
  0 <= ts <= as1 -> as1 < ae2 -> ae2 <= zlen G ->
  convert_core fx G as1 ae2 ts allele = Ok r ->
  fx = true \/ 0 <= vr_start r ->
  0 <= vr_start r /\ vr_end r <= zlen G /\
  vr_end r = vr_start r + zlen (vr_ref r) /\
  vr_ref r = slice G (vr_start r) (vr_end r) /\
  apply_gene G r = core_target G as1 ae2 allele.
Proof.
  intros Hts Hlt Hn H Hfx. unfold convert_core in H. unfold apply_gene, core_target.
  destruct allele as [al|].
  - destruct (ae2 - as1 =? 1) eqn:D1.
    + assert (ae2 = as1 + 1) by lia. subst ae2.
      replace (as1 + 1 - as1 =? 2) with false by lia.
      destruct (zlen al >? 1) eqn:Lal.
      * unbind H. rewrite pyindex_nth in Ex by lia. pose proof (slice_one _ _ _ Ex) as S1.
        destruct ((x =? match last_opt al with Some x0 => x0 | None => 0 end) && (negb fx || (as1 >? 0))) eqn:C1.
        -- (* end-inclusive form: anchor on the previous base *)
           unbind H. apply finish_ok in H. destruct H as (E1 & E2 & E3 & E4 & E5).
           assert (Hpos : 0 < as1).
           { destruct Hfx as [->|Hs]; [cbn in C1; lia|]. rewrite E1 in Hs.
             destruct (Z.eq_dec as1 0); [lia|lia]. }
           rewrite pyindex_nth in Ex0 by lia. pose proof (slice_one _ _ _ Ex0) as S0.
           replace (as1 - 1 + 1) with as1 in * by lia.
           rewrite E1, E2, E3, E4.
           assert (Hne : al <> []) by (intros ->; cbn in Lal; lia).
           destruct (last_opt_some al Hne) as [y Hy]. rewrite Hy in C1.
           assert (y = x) by lia. subst y.
           repeat split; try lia; try (cbn [zlen]; lia); try (now rewrite S0).
           rewrite (last_opt_split al x Hy) at 2.
           rewrite (slice_split G 0 (as1 - 1) as1) by lia. rewrite S0.
           rewrite (slice_split G as1 (as1 + 1) (zlen G)) by lia. rewrite S1.
           rewrite <- !app_assoc. reflexivity.
        -- destruct ((x =? match al with x0 :: _ => x0 | [] => 0 end) || (fx && (x =? match last_opt al with Some x0 => x0 | None => 0 end))) eqn:C2; [|discriminate].
           apply finish_ok in H. destruct H as (E1 & E2 & E3 & E4 & E5).
           rewrite E1, E2, E3, E4.
           repeat split; try lia; try (cbn [zlen]; lia); try (now rewrite S1).
      * unbind H. rewrite pyindex_nth in Ex by lia. pose proof (slice_one _ _ _ Ex) as S1.
        apply finish_ok in H. destruct H as (E1 & E2 & E3 & E4 & E5).
        rewrite E1, E2, E3, E4.
        repeat split; try lia; try (cbn [zlen]; lia); try (now rewrite S1).
    + destruct (ae2 - as1 =? 2) eqn:D2.
      * assert (ae2 = as1 + 2) by lia. subst ae2.
        unbind H. rewrite pyindex_nth in Ex by lia. pose proof (slice_one _ _ _ Ex) as S1.
        apply finish_ok in H. destruct H as (E1 & E2 & E3 & E4 & E5).
        rewrite E1, E2, E3, E4. replace (as1 + 2 - 1) with (as1 + 1) in * by lia.
        repeat split; try lia; try (cbn [zlen]; lia); try (now rewrite S1).
        rewrite (slice_split G 0 as1 (as1 + 1)) by lia. rewrite S1.
        rewrite <- !app_assoc. reflexivity.
      * apply finish_ok in H. destruct H as (E1 & E2 & E3 & E4 & E5).
        rewrite pyslice_slice in * by lia.
        rewrite E1, E2, E3, E4. rewrite zlen_slice by lia. repeat split; try lia; try reflexivity.
  - destruct (as1 =? ts) eqn:D.
    + apply finish_ok in H. destruct H as (E1 & E2 & E3 & E4 & E5).
      rewrite !pyslice_slice in * by lia.
      rewrite zlen_slice_clamp in E5 by lia.
      assert (ae2 + 1 <= zlen G) by lia.
      rewrite E1, E2, E3, E4. rewrite zlen_slice by lia.
      replace (ae2 + 1 - 1) with ae2 by lia.
      repeat split; try lia; try reflexivity.
      rewrite (slice_split G ae2 (ae2 + 1) (zlen G)) by lia. reflexivity.
    + unbind H. rewrite pyindex_nth in Ex by lia. pose proof (slice_one _ _ _ Ex) as S1.
      apply finish_ok in H. destruct H as (E1 & E2 & E3 & E4 & E5).
      rewrite !pyslice_slice in * by lia.
      replace (as1 - 1 + 1) with as1 in * by lia.
      rewrite E1, E2, E3, E4. rewrite zlen_slice by lia.
      repeat split; try lia; try reflexivity.
      rewrite (slice_split G 0 (as1 - 1) as1) by lia. rewrite S1.
      rewrite <- !app_assoc. reflexivity.
Qed.

(* ------------------------------------------------------------------ *)
(* VEP: prelude, gene-level event, assembly *)

(* the event and the transcript in gene coordinates *)
Definition strand_al (g : gene) (s : seq) := if g_strand g =? -1 then revcomp s else s.
Definition gc_lo g ev := if g_strand g =? 1 then foot_lo ev - g_start g else g_end g - foot_hi ev.
Definition gc_hi g ev := if g_strand g =? 1 then foot_hi ev - g_start g else g_end g - foot_lo ev.
Definition gc_ts g t := if g_strand g =? 1 then t_start t - g_start g else g_end g - t_end t.
Definition gc_te g t := if g_strand g =? 1 then t_end t - g_start g else g_end g - t_start t.

Lemma prelude fx g t chrom ev r :
  wf_gene g chrom -> ev_ok ev ->
  convert fx g t chrom (vep_of ev) = Ok r ->
    convert_core fx (gene_of g chrom) (gc_lo g ev) (gc_hi g ev) (gc_ts g t)
       (match e_s ev with [] => None | _ => Some (strand_al g (e_s ev)) end) = Ok r /\
    gene_seq g chrom = Ok (gene_of g chrom) /\
    0 <= gc_ts g t <= gc_lo g ev /\ (gc_lo g ev = gc_ts g t -> t_nf t = true) /\
    gc_lo g ev < gc_hi g ev /\ gc_hi g ev <= gc_te g t /\ gc_te g t <= g_end g - g_start g /\
    g_start g <= foot_lo ev /\ foot_hi ev <= g_end g.
Proof.
  intros (Hs & Hg0 & Hg1 & Hg2) (Hpq & Hdel & Hsub2) H.
  unfold convert, bind, gene_seq, g2gene, gene_of, gc_lo, gc_hi, gc_ts, gc_te, strand_al, foot_lo, foot_hi in *.
  rewrite pyslice_slice in H by lia. rewrite pyslice_slice by lia.
  unfold vep_of in H.
  destruct (e_q ev =? e_p ev) eqn:Eq.
  all: destruct Hs as [S|S]; rewrite S in *; cbn [Z.eqb Pos.eqb] in *.
  all: destruct (e_s ev) as [|c s'] eqn:Es; cbn [v_a v_b v_allele] in H.
  all: try (specialize (Hdel eq_refl)).
  all: try (assert (e_q ev <> e_p ev + 2) by (apply Hsub2; discriminate)).
  all: try lia.
  all: repeat match type of H with
       | context [if ?b then _ else _] => destruct b eqn:?; cbn beta iota in H; try discriminate H
       end.
  all: split; [rewrite <- H; f_equal; lia|]; split; [reflexivity|]; lia.
Qed.

Lemma extract_after (C : seq) gs ge p q (s : seq) :
  0 <= gs <= p -> p <= q -> q <= ge -> ge <= zlen C ->
  slice (slice C 0 p ++ s ++ slice C q (zlen C)) gs (ge + zlen s - (q - p))
  = slice C gs p ++ s ++ slice C q ge.
Proof.
  intros. pose proof (zlen_nonneg s).
  assert (LA : zlen (slice C 0 p) = p) by (rewrite zlen_slice; lia).
  rewrite slice_app_mid by lia. rewrite LA.
  rewrite slice_slice by lia. cbn [Z.add].
  rewrite slice_app_mid by lia.
  rewrite slice_full.
  rewrite slice_slice by lia.
  repeat (f_equal; try lia).
Qed.

Definition gene_target (g : gene) (chrom : seq) (ev : gev) : seq :=
  let G := gene_of g chrom in
  if g_strand g =? 1
  then slice G 0 (e_p ev - g_start g) ++ e_s ev ++ slice G (e_q ev - g_start g) (zlen G)
  else slice G 0 (g_end g - e_q ev) ++ revcomp (e_s ev) ++ slice G (g_end g - e_p ev) (zlen G).

Lemma gene_event g chrom ev :
  wf_gene g chrom -> e_p ev <= e_q ev -> g_start g <= e_p ev -> e_q ev <= g_end g ->
  gene_of (gene_after g ev) (apply_genomic chrom ev) = gene_target g chrom ev.
Proof.
  intros (Hs & Hg0 & Hg1 & Hg2) Hpq Hp Hq.
  unfold gene_target, gene_of, gene_after, apply_genomic. cbn [g_strand g_start g_end].
  rewrite extract_after by lia.
  assert (Ln : zlen (slice chrom (g_start g) (g_end g)) = g_end g - g_start g) by (rewrite zlen_slice; lia).
  destruct Hs as [S|S]; rewrite S; cbn [Z.eqb Pos.eqb].
  - rewrite Ln. rewrite !slice_slice by lia.
    repeat (f_equal; try lia).
  - rewrite zlen_revcomp, Ln. rewrite !revcomp_app, <- app_assoc.
    rewrite !slice_revcomp by lia. rewrite Ln. rewrite !slice_slice by lia.
    repeat (f_equal; try lia).
Qed.

Lemma zlen_gene_of g chrom : wf_gene g chrom -> zlen (gene_of g chrom) = g_end g - g_start g.
Proof.
  intros (Hs & Hg0 & Hg1 & Hg2). unfold gene_of.
  destruct (g_strand g =? 1); [|rewrite zlen_revcomp]; rewrite zlen_slice; lia.
Qed.

Lemma target_eq g chrom ev :
  wf_gene g chrom -> ev_ok ev ->
  core_target (gene_of g chrom) (gc_lo g ev) (gc_hi g ev)
     (match e_s ev with [] => None | _ => Some (strand_al g (e_s ev)) end)
  = gene_target g chrom ev.
Proof.
  intros W (Hpq & Hdel & Hsub2). pose proof W as (Hs & _).
  unfold core_target, gene_target, gc_lo, gc_hi, strand_al, foot_lo, foot_hi.
  destruct (e_q ev =? e_p ev) eqn:Eq.
  all: destruct Hs as [S|S]; rewrite S; cbn [Z.eqb Pos.eqb].
  all: destruct (e_s ev) as [|c s'] eqn:Es.
  all: try (specialize (Hdel eq_refl)).
  all: try (assert (e_q ev <> e_p ev + 2) by (apply Hsub2; discriminate)).
  all: try lia.
  all: cbn [revcomp map rev app].
  all: match goal with
       | |- context [if ?b then _ else _] => destruct b eqn:?; try lia
       | _ => idtac
       end.
  all: repeat (f_equal; try lia).
Qed.

Lemma vep_main fx g t chrom ev r :
  wf_gene g chrom -> ev_ok ev ->
  convert fx g t chrom (vep_of ev) = Ok r ->
  fx = true \/ 0 <= vr_start r ->
  gene_seq g chrom = Ok (gene_of g chrom) /\
  0 <= vr_start r /\ vr_end r <= zlen (gene_of g chrom) /\
  vr_end r = vr_start r + zlen (vr_ref r) /\
  vr_ref r = slice (gene_of g chrom) (vr_start r) (vr_end r) /\
  apply_gene (gene_of g chrom) r = gene_of (gene_after g ev) (apply_genomic chrom ev).
Proof.
  intros W E H Hfx.
  destruct (prelude _ _ _ _ _ _ W E H) as (Hc & Hg & B1 & B2 & B3 & B4 & B5 & B6 & B7).
  pose proof (zlen_gene_of _ _ W) as Ln.
  assert (Hn : gc_hi g ev <= zlen (gene_of g chrom)) by lia.
  destruct (core_spec _ _ _ _ _ _ _ B1 B3 Hn Hc Hfx) as (R1 & R2 & R3 & R4 & R5).
  repeat split; auto.
  rewrite R5, target_eq by assumption.
  symmetry. apply gene_event; auto.
  - destruct E; lia.
  - revert B6. unfold foot_lo. destruct (e_q ev =? e_p ev) eqn:Q; lia.
  - revert B7. unfold foot_hi. destruct (e_q ev =? e_p ev) eqn:Q; lia.
Qed.

Lemma vep_boundary fx g t chrom ev r :
  wf_gene g chrom -> ev_ok ev ->
  convert fx g t chrom (vep_of ev) = Ok r ->
  t_start t <= foot_lo ev /\ foot_hi ev <= t_end t /\
  (t_nf t = false ->
     (g_strand g = 1 -> t_start t < foot_lo ev) /\ (g_strand g = -1 -> foot_hi ev < t_end t)).
Proof.
  intros W E H. pose proof W as (Hs & _).
  destruct (prelude _ _ _ _ _ _ W E H) as (_ & _ & B1 & B2 & B3 & B4 & B5 & B6 & B7).
  unfold gc_lo, gc_hi, gc_ts, gc_te in *.
  destruct Hs as [S|S]; rewrite S in *; cbn [Z.eqb Pos.eqb] in *.
  - split; [lia|]. split; [lia|]. intros Hnf. split; [|lia]. intros _.
    destruct (Z.eq_dec (foot_lo ev - g_start g) (t_start t - g_start g)) as [Q|Q]; [|lia].
    specialize (B2 Q). congruence.
  - split; [lia|]. split; [lia|]. intros Hnf. split; [lia|]. intros _.
    destruct (Z.eq_dec (g_end g - foot_hi ev) (g_end g - t_end t)) as [Q|Q]; [|lia].
    specialize (B2 Q). congruence.
Qed.

(* ---- acceptance of interior events ---- *)

Lemma finish_total st en ref alt : st <= en -> en - st = zlen ref -> exists r, finish st en ref alt = Ok r.
Proof.
  intros. unfold finish.
  replace (en <? st) with false by lia. replace (negb (en - st =? zlen ref)) with false by lia.
  eexists; reflexivity.
Qed.

Lemma core_total fx G as1 ae2 ts allele :
  0 <= ts < as1 -> as1 < ae2 -> ae2 <= zlen G ->
  match allele with
  | None => True
  | Some al => (ae2 - as1 = 1 -> zlen al = 1)
  end ->
  exists r, convert_core fx G as1 ae2 ts allele = Ok r.
Proof.
  intros Hts Hlt Hn Hal. unfold convert_core.
  destruct allele as [al|].
  - destruct (ae2 - as1 =? 1) eqn:D1.
    + rewrite Hal by lia. cbn [Z.gtb Z.compare Pos.compare Pos.compare_cont].
      destruct (nthZ_some G as1) as [x Hx]; [lia|]. rewrite pyindex_nth by lia. rewrite Hx. cbn [bind of_idx].
      apply finish_total; [lia|cbn [zlen]; lia].
    + destruct (ae2 - as1 =? 2) eqn:D2.
      * destruct (nthZ_some G as1) as [x Hx]; [lia|]. rewrite pyindex_nth by lia. rewrite Hx. cbn [bind of_idx].
        apply finish_total; [lia|cbn [zlen]; lia].
      * apply finish_total; [lia|]. rewrite pyslice_slice by lia. rewrite zlen_slice; lia.
  - replace (as1 =? ts) with false by lia.
    destruct (nthZ_some G (as1 - 1)) as [x Hx]; [lia|]. rewrite pyindex_nth by lia. rewrite Hx. cbn [bind of_idx].
    apply finish_total; [lia|]. rewrite pyslice_slice by lia. rewrite zlen_slice; lia.
Qed.


Lemma prelude_fwd fx g t chrom ev :
  wf_gene g chrom -> wf_tx g t -> ev_ok ev -> 0 <= e_p ev ->
  (g_strand g = 1 /\ t_start t < foot_lo ev /\ foot_hi ev <= t_end t) \/
  (g_strand g = -1 /\ t_start t <= foot_lo ev /\ foot_hi ev < t_end t) ->
  convert fx g t chrom (vep_of ev) =
  convert_core fx (gene_of g chrom) (gc_lo g ev) (gc_hi g ev) (gc_ts g t)
       (match e_s ev with [] => None | _ => Some (strand_al g (e_s ev)) end).
Proof.
  intros (Hs & Hg0 & Hg1 & Hg2) (Ht0 & Ht1 & Ht2) (Hpq & Hdel & Hsub2) Hp0 Hin.
  unfold convert, bind, gene_seq, g2gene, gene_of, gc_lo, gc_hi, gc_ts, gc_te, strand_al, foot_lo, foot_hi in *.
  rewrite pyslice_slice by lia.
  unfold vep_of.
  destruct (e_q ev =? e_p ev) eqn:Eq.
  all: destruct Hin as [(S & I1 & I2)|(S & I1 & I2)]; rewrite S in *; cbn [Z.eqb Pos.eqb] in *.
  all: destruct (e_s ev) as [|c s'] eqn:Es; cbn [v_a v_b v_allele].
  all: try (specialize (Hdel eq_refl)).
  all: try lia.
  all: repeat match goal with
       | |- context [if ?b then _ else _] =>
           first [ replace b with false by lia | replace b with true by lia ]; cbn beta iota
       end.
  all: f_equal; lia.
Qed.

Lemma kinds_ev_ok ev : 0 <= e_p ev -> is_snv ev \/ is_del ev \/ is_ins ev \/ is_sub ev \/ is_ins1 ev -> ev_ok ev.
Proof.
  unfold is_snv, is_del, is_ins, is_sub, is_ins1, ev_ok. intros Hp H.
  destruct H as [(A & B)|[(A & B)|[(A & B)|[(A & B)|(A & B)]]]].
  all: repeat split; try lia.
  all: try (intros Hs; rewrite Hs in *; cbn [zlen] in *; try lia; congruence).
  all: intros Hs; congruence.
Qed.

Lemma vep_accepts fx g t chrom ev :
  wf_gene g chrom -> wf_tx g t -> 0 <= e_p ev ->
  is_snv ev \/ is_del ev \/ is_ins ev \/ is_sub ev ->
  (g_strand g = 1 /\ t_start t < foot_lo ev /\ foot_hi ev <= t_end t) \/
  (g_strand g = -1 /\ t_start t <= foot_lo ev /\ foot_hi ev < t_end t) ->
  exists r, convert fx g t chrom (vep_of ev) = Ok r.
Proof.
  intros W T Hp K Hin.
  assert (E : ev_ok ev) by (apply kinds_ev_ok; tauto).
  rewrite (prelude_fwd fx g t chrom ev W T E Hp Hin).
  pose proof (zlen_gene_of _ _ W) as Ln.
  destruct W as (Hs & Hg0 & Hg1 & Hg2). destruct T as (Ht0 & Ht1 & Ht2).
  destruct E as (Hpq & _).
  unfold is_snv, is_del, is_ins, is_sub in K.
  apply core_total.
  - unfold gc_ts, gc_lo. destruct Hin as [(S & I1 & I2)|(S & I1 & I2)]; rewrite S; cbn [Z.eqb Pos.eqb]; lia.
  - unfold gc_lo, gc_hi, foot_lo, foot_hi. destruct (e_q ev =? e_p ev) eqn:Q;
      destruct Hin as [(S & I1 & I2)|(S & I1 & I2)]; rewrite S; cbn [Z.eqb Pos.eqb]; try lia.
    all: destruct K as [(A & B)|[(A & B)|[(A & B)|(A & B)]]]; lia.
  - rewrite Ln. unfold gc_hi. destruct Hin as [(S & I1 & I2)|(S & I1 & I2)]; rewrite S; cbn [Z.eqb Pos.eqb]; lia.
  - destruct (e_s ev) as [|c s'] eqn:Es; [exact I|].
    unfold gc_lo, gc_hi, foot_lo, foot_hi, strand_al. intros D.
    assert (Z1 : zlen (c :: s') = 1).
    { destruct (e_q ev =? e_p ev) eqn:Q;
        destruct Hin as [(S & I1 & I2)|(S & I1 & I2)]; rewrite S in D; cbn [Z.eqb Pos.eqb] in D;
        destruct K as [(A & B)|[(A & B)|[(A & B)|(A & B)]]]; try lia; try congruence. }
    destruct (g_strand g =? -1); [rewrite zlen_revcomp|]; exact Z1.
Qed.

(* ------------------------------------------------------------------ *)
(* REDItools *)


Lemma valid_subs_loop_spec th counts total subs vs :
  valid_subs_loop th counts total subs = Some vs ->
  forall rf al, In (rf, al) vs <->
    In (rf, al) subs /\ exists k rc, base_order al = Some k /\ nth_error counts k = Some rc /\
                                  th_alt th <= rc /\ th_fnum th * total <= rc * th_fden th.
Proof.
  revert vs. induction subs as [|[rf0 al0] rest IH]; intros vs H rf al.
  - cbn in H. injection H as <-. cbn. split; [tauto|]. intros [[] _].
  - cbn [valid_subs_loop] in H.
    destruct (base_order al0) as [k|] eqn:Bo; [|discriminate].
    destruct (nth_error counts k) as [rc|] eqn:Nk; [|discriminate].
    destruct (valid_subs_loop th counts total rest) as [vs'|] eqn:Rest; [|discriminate].
    specialize (IH vs' eq_refl rf al).
    destruct (rc <? th_alt th) eqn:C1.
    { injection H as <-. rewrite IH. cbn [In]. split.
      - intros [Hin Hex]. split; [right; exact Hin|exact Hex].
      - intros [[Heq|Hin] Hex]; [|split; assumption].
        injection Heq as <- <-. destruct Hex as (k' & rc' & B' & N' & A' & F').
        rewrite Bo in B'. injection B' as <-. rewrite Nk in N'. injection N' as <-. lia. }
    destruct (total =? 0) eqn:C0; [discriminate|].
    destruct (rc * th_fden th <? th_fnum th * total) eqn:C2.
    { injection H as <-. rewrite IH. cbn [In]. split.
      - intros [Hin Hex]. split; [right; exact Hin|exact Hex].
      - intros [[Heq|Hin] Hex]; [|split; assumption].
        injection Heq as <- <-. destruct Hex as (k' & rc' & B' & N' & A' & F').
        rewrite Bo in B'. injection B' as <-. rewrite Nk in N'. injection N' as <-. lia. }
    injection H as <-. cbn [In]. rewrite IH. split.
    + intros [Heq|[Hin Hex]].
      * injection Heq as <- <-. split; [left; reflexivity|]. exists k, rc. repeat split; auto; lia.
      * split; [right; exact Hin|exact Hex].
    + intros [[Heq|Hin] Hex]; [left; exact Heq|right; split; assumption].
Qed.

Lemma redi_threshold_exact_l th r vs :
  get_valid_subs th r = Some vs ->
  forall rf al, In (rf, al) vs <-> In (rf, al) (r_subs r) /\ site_ok th r /\ alt_ok th r al.
Proof.
  unfold get_valid_subs, site_ok, alt_ok. intros H rf al.
  destruct (sumZ (r_counts r) <? th_rna th) eqn:C1.
  { injection H as <-. cbn. split; [tauto|]. intros (_ & (Hr & _) & _). lia. }
  destruct (r_gcov r) as [c|] eqn:Gc.
  - destruct (c =? -1) eqn:Cm; [|destruct (c <? th_dna th) eqn:C2].
    + rewrite (valid_subs_loop_spec _ _ _ _ _ H rf al). split.
      * intros [Hin Hex]. repeat split; auto; lia.
      * intros (Hin & _ & Hex). split; assumption.
    + injection H as <-. cbn. split; [tauto|]. intros (_ & (_ & [Hd|Hd]) & _); lia.
    + rewrite (valid_subs_loop_spec _ _ _ _ _ H rf al). split.
      * intros [Hin Hex]. repeat split; auto; lia.
      * intros (Hin & _ & Hex). split; assumption.
  - injection H as <-. cbn. split; [tauto|]. intros (_ & (_ & []) & _).
Qed.

(* ---- placement ---- *)


Lemma gti_plus_ok exs g idx i :
  gti_plus exs g idx = TOk i -> exonic exs g \/ (forall s e, In (s, e) exs -> e < g).
Proof.
  revert idx. induction exs as [|[s e] rest IH]; intros idx H.
  - right. intros s e [].
  - cbn [gti_plus] in H. destruct (e <? g) eqn:C1.
    + destruct (IH _ H) as [(s' & e' & Hin & Hb)|Hall].
      * left. exists s', e'. split; [right; exact Hin|exact Hb].
      * right. intros s' e' [Heq|Hin]; [injection Heq as <- <-; lia|eauto].
    + destruct (e =? g) eqn:C2; [discriminate|].
      destruct (s <=? g) eqn:C3; [|discriminate].
      left. exists s, e. split; [left; reflexivity|lia].
Qed.

Lemma gti_minus_ok rexs g idx i :
  wf_exons rexs ->
  gti_minus rexs g idx = TOk i -> exonic rexs g \/ (forall s e, In (s, e) rexs -> g < s).
Proof.
  revert idx. induction rexs as [|[s e] rest IH]; intros idx W H.
  - right. intros s e [].
  - cbn [gti_minus] in H.
    assert (Wr : wf_exons rest) by (intros s' e' Hin; apply W; right; exact Hin).
    assert (Wse : s < e) by (apply W; left; reflexivity).
    destruct (s >=? g) eqn:C1.
    + destruct (s =? g) eqn:C2.
      * left. exists s, e. split; [left; reflexivity|lia].
      * destruct (IH _ Wr H) as [(s' & e' & Hin & Hb)|Hall].
        -- left. exists s', e'. split; [right; exact Hin|exact Hb].
        -- right. intros s' e' [Heq|Hin]; [injection Heq as <- <-; lia|eauto].
    + destruct (e >? g) eqn:C3; [|discriminate].
      left. exists s, e. split; [left; reflexivity|lia].
Qed.

Lemma last_end_in exs : exs <> [] -> exists s, In (s, last_end exs) exs.
Proof.
  intros Hne. unfold last_end. destruct (rev exs) as [|[s e] r] eqn:R.
  - apply (f_equal (@rev _)) in R. rewrite rev_involutive in R. cbn in R. congruence.
  - exists s. apply in_rev. rewrite R. left. reflexivity.
Qed.

Lemma gti_exonic strand exs g i :
  wf_exons exs -> get_transcript_index strand exs g = TOk i -> exonic exs g.
Proof.
  intros W H. unfold get_transcript_index in H.
  destruct ((g <? first_start exs) || (g >=? last_end exs)) eqn:C; [discriminate|].
  destruct exs as [|[s0 e0] rest] eqn:Eexs.
  { cbn in C. lia. }
  rewrite <- Eexs in *.
  destruct (strand =? 1).
  - destruct (gti_plus_ok _ _ _ _ H) as [Hex|Hall]; [exact Hex|].
    destruct (last_end_in exs) as [s Hin]; [rewrite Eexs; discriminate|].
    specialize (Hall _ _ Hin). lia.
  - destruct (gti_minus_ok (rev exs) g (-1) i) as [(s & e & Hin & Hb)|Hall].
    + intros s e Hin. apply W. apply in_rev. exact Hin.
    + exact H.
    + exists s, e. split; [apply in_rev; exact Hin|exact Hb].
    + assert (Hin : In (s0, e0) (rev exs)) by (apply in_rev; rewrite rev_involutive, Eexs; left; reflexivity).
      specialize (Hall _ _ Hin). subst exs. cbn [first_start] in C. lia.
Qed.

Lemma g2gene_ok g i p : g2gene g i = Ok p ->
  g_start g <= i < g_end g /\
  ((g_strand g = 1 /\ p = i - g_start g) \/ (g_strand g = -1 /\ p = g_end g - 1 - i)).
Proof.
  unfold g2gene.
  destruct (negb ((g_start g <=? i) && (i <? g_end g))) eqn:C; [discriminate|].
  destruct (g_strand g =? 1) eqn:S1; [intros [= <-]; lia|].
  destruct (g_strand g =? -1) eqn:S2; [intros [= <-]; lia|discriminate].
Qed.

(* the gene coordinate returned by coordinate_genomic_to_gene addresses the same base in the gene sequence *)
Lemma g2gene_base g chrom i p :
  wf_gene g chrom -> g2gene g i = Ok p ->
  slice (gene_of g chrom) p (p + 1) =
  (if g_strand g =? 1 then slice chrom i (i + 1) else revcomp (slice chrom i (i + 1))).
Proof.
  intros (Hs & Hg0 & Hg1 & Hg2) H. apply g2gene_ok in H. destruct H as (Hb & Hp).
  unfold gene_of.
  assert (Ln : zlen (slice chrom (g_start g) (g_end g)) = g_end g - g_start g) by (rewrite zlen_slice; lia).
  destruct Hp as [(S & ->)|(S & ->)]; rewrite S; cbn [Z.eqb Pos.eqb].
  - rewrite slice_slice by lia. f_equal; lia.
  - rewrite slice_revcomp by lia. rewrite Ln. rewrite slice_slice by lia. f_equal. f_equal; lia.
Qed.

Lemma redi_sound mode th r txs recs :
  redi_loop mode th r txs = Ok recs ->
  forall id pos rf al, In (id, pos, rf, al) recs ->
  exists x vs, In x txs /\ x_id x = id /\
    g2gene (x_gene x) (r_pos r - 1) = Ok pos /\
    get_valid_subs th r = Some vs /\ In (rf, al) vs /\
    (mode <> 0 -> wf_exons (x_exons x) -> exonic (x_exons x) (r_pos r - 1)).
Proof.
  revert recs. induction txs as [|x rest IH]; intros recs H id pos rf al Hin.
  - cbn in H. injection H as <-. destruct Hin.
  - cbn [redi_loop] in H.
    assert (Hrest : forall recs', redi_loop mode th r rest = Ok recs' -> In (id, pos, rf, al) recs' ->
       exists x0 vs, In x0 (x :: rest) /\ x_id x0 = id /\ g2gene (x_gene x0) (r_pos r - 1) = Ok pos /\
         get_valid_subs th r = Some vs /\ In (rf, al) vs /\
         (mode <> 0 -> wf_exons (x_exons x0) -> exonic (x_exons x0) (r_pos r - 1))).
    { intros recs' H' Hin'. destruct (IH _ H' _ _ _ _ Hin') as (x0 & vs & A & B).
      exists x0, vs. split; [right; exact A|exact B]. }
    assert (Hemit : forall (Hex : mode <> 0 -> wf_exons (x_exons x) -> exonic (x_exons x) (r_pos r - 1)),
      bind (g2gene (x_gene x) (r_pos r - 1)) (fun position =>
        match get_valid_subs th r with
        | None => ErrIndex
        | Some vs => bind (redi_loop mode th r rest) (fun more =>
             Ok (map (fun s => (x_id x, position, fst s, snd s)) vs ++ more))
        end) = Ok recs ->
      exists x0 vs, In x0 (x :: rest) /\ x_id x0 = id /\ g2gene (x_gene x0) (r_pos r - 1) = Ok pos /\
         get_valid_subs th r = Some vs /\ In (rf, al) vs /\
         (mode <> 0 -> wf_exons (x_exons x0) -> exonic (x_exons x0) (r_pos r - 1))).
    { intros Hex He. unfold bind in He.
      destruct (g2gene (x_gene x) (r_pos r - 1)) as [position| | | |] eqn:G; try discriminate.
      destruct (get_valid_subs th r) as [vs|] eqn:V; [|discriminate].
      destruct (redi_loop mode th r rest) as [more| | | |] eqn:R; try discriminate.
      injection He as <-. apply in_app_or in Hin. destruct Hin as [Hin|Hin].
      - apply in_map_iff in Hin. destruct Hin as ([rf' al'] & Heq & Hin). cbn [fst snd] in Heq.
        injection Heq as <- <- <- <-.
        exists x, vs. repeat split; auto. left; reflexivity.
      - apply (Hrest more eq_refl Hin). }
    destruct (get_transcript_index (g_strand (x_gene x)) (x_exons x) (r_pos r - 1)) as [i| |] eqn:T.
    + apply Hemit; [|exact H]. intros _ W. eapply gti_exonic; eauto.
    + destruct (mode =? 0) eqn:M0.
      * apply Hemit; [|exact H]. intros Hm. lia.
      * destruct (mode =? 1); [discriminate|]. apply (Hrest _ H Hin).
    + apply (Hrest _ H Hin).
Qed.

Lemma redi_position_l :
  forall mode th r txs recs,
    redi_loop mode th r txs = Ok recs ->
    forall id pos rf al, In (id, pos, rf, al) recs ->
    exists x, In x txs /\ x_id x = id /\
      g_start (x_gene x) <= r_pos r - 1 < g_end (x_gene x) /\
      ((g_strand (x_gene x) = 1 /\ pos = (r_pos r - 1) - g_start (x_gene x)) \/
       (g_strand (x_gene x) = -1 /\ pos = g_end (x_gene x) - 1 - (r_pos r - 1))) /\
      (forall chrom, wf_gene (x_gene x) chrom ->
         slice (gene_of (x_gene x) chrom) pos (pos + 1) =
         (if g_strand (x_gene x) =? 1 then slice chrom (r_pos r - 1) (r_pos r)
          else revcomp (slice chrom (r_pos r - 1) (r_pos r)))) /\
      In (rf, al) (r_subs r) /\ site_ok th r /\ alt_ok th r al /\
      (mode <> 0 -> wf_exons (x_exons x) -> exonic (x_exons x) (r_pos r - 1)).
Proof.
  intros mode th r txs recs H id pos rf al Hin.
  destruct (redi_sound mode th r txs recs H id pos rf al Hin) as (x & vs & A & B & C & D & E & F).
  exists x. split; [exact A|]. split; [exact B|].
  destruct (g2gene_ok _ _ _ C) as (G1 & G2).
  split; [exact G1|]. split; [exact G2|].
  split.
  { intros chrom W. rewrite (g2gene_base _ chrom _ _ W C). replace (r_pos r - 1 + 1) with (r_pos r) by lia. reflexivity. }
  apply (redi_threshold_exact_l th r vs D) in E. destruct E as (E1 & E2 & E3).
  split; [exact E1|]. split; [exact E2|]. split; [exact E3|exact F].
Qed.
