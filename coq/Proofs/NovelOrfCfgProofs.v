(* C08 obligations that depend on the regenerated constants (Gen/NovelOrfCfg.v, Gen/Expasy.v, Gen/Bio.v):
   re-checked against the current source on every run. *)
From Coq Require Import ZArith List Bool Lia.
From MoPep Require Import Model.Base Model.Rule Model.Digest Model.W2F Model.NovelOrf
                          Gen.NovelOrfCfg Gen.Expasy Gen.Bio
                          Proofs.W2FProofs Proofs.CleaveSpec Proofs.NovelOrfProofs.
Import ListNotations.
Open Scope Z_scope.

(* the translator understood the source: defaults readable, the coding branch is `pass` or `continue` *)
Lemma cfg_wellformed_l : cfg_ok = true /\ coding_branch_known = true /\ 0 <= default_min_tx_length.
Proof. repeat split; vm_compute; congruence. Qed.

(* the selection loop AS THE SOURCE READS NOW selects by the property's rule.
   `coding_branch_skips` is regenerated from call_novel_orf.py; while the statement under
   `if not args.coding_novel_orf:` is `pass` (defect D5) this lemma does not check. *)
Lemma code_selects_by_rule_l o t :
  select_tx_gen coding_branch_skips o t = true <-> SelectRule o t.
Proof. change coding_branch_skips with true. apply select_iff. Qed.

(* ---- non-vacuity: the hypotheses of the theorems are satisfiable by non-trivial states ---- *)
Definition ex_trypsin : rule :=
  match lookup [116; 114; 121; 112; 115; 105; 110] site_rules with Some r => r | None => [] end.
Definition ex_lim : limits := mkLimits 1 0 5 25.
(* a 30-nt lncRNA:  CC ATG GCT TGG GCT GCT GCT AAA GCT TAA C  ->  ORF MAWAAAKA *)
Definition ex_dna : seq :=
  [67;67; 65;84;71; 71;67;84; 84;71;71; 71;67;84; 71;67;84; 71;67;84; 65;65;65; 71;67;84; 84;65;65; 67].
Definition ex_tx : txrec := mkTx (mkTxSel false [108;110;99;82;78;65] false 30) ex_dna.
Definition ex_opt : selopt := mkSelOpt false [] default_exclusion default_min_tx_length.

Example select_rule_sat : SelectRule ex_opt (tr_sel ex_tx) /\ ~ SelectRule ex_opt (mkTxSel true [] true 30).
Proof.
  split.
  - apply select_iff. vm_compute. reflexivity.
  - intro H. apply select_iff in H. vm_compute in H. discriminate.
Qed.

(* MAWAAAK is obliged; with --w2f-reassignment so is its image MAFAAAK *)
Example must_report_sat :
  MustReport protein_weights4 water4 ex_lim ex_trypsin None codon_table ex_opt true [] [ex_tx]
             [77; 65; 70; 65; 65; 65; 75]
  /\ atg_positions ex_dna = [2%nat]
  /\ map oe_seq (orf_listing codon_table ex_dna) = [[77; 65; 87; 65; 65; 65; 75; 65]].
Proof.
  split; [| split; vm_compute; reflexivity].
  apply novel_spec_iff. vm_compute. auto 10.
Qed.
