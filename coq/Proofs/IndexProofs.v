(* C12 -- proofs about the index-directory state machine (Model/Index.v). *)
From Coq Require Import ZArith List Bool Lia ZifyBool.
From MoPep Require Import Model.Base Model.Index Gen.Version.
Import ListNotations.
Open Scope Z_scope.

(* ------------------------------------------------------------------ strings, options, constants *)
Lemma eq_seq_iff : forall a b, eq_seq a b = true <-> a = b.
Proof.
  induction a as [|x a IH]; destruct b as [|y b]; cbn [eq_seq]; try (split; [discriminate|discriminate]).
  - split; reflexivity.
  - rewrite andb_true_iff, IH, Z.eqb_eq. split; [intros [-> ->]; reflexivity | intros H; inversion H; auto].
Qed.

Lemma eq_seq_refl : forall a, eq_seq a a = true.
Proof. intros; apply eq_seq_iff; reflexivity. Qed.

Lemma eq_seq_false : forall a b, eq_seq a b = false <-> a <> b.
Proof.
  intros a b. split.
  - intros H E. apply eq_seq_iff in E. congruence.
  - intros H. destruct (eq_seq a b) eqn:E; auto. apply eq_seq_iff in E. contradiction.
Qed.

Lemma opt_eqb_iff : forall a b, opt_eqb a b = true <-> a = b.
Proof.
  intros [x|] [y|]; cbn [opt_eqb]; try (split; [discriminate|discriminate]).
  - rewrite eq_seq_iff. split; [intros ->; reflexivity | intros H; inversion H; auto].
  - split; reflexivity.
Qed.

Lemma constants_ok : index_constants_ok = true.
Proof. vm_compute. reflexivity. Qed.

Lemma index_rule_1 : (index_rule =? 1) = true.
Proof.
  pose proof constants_ok as H. unfold index_constants_ok in H.
  repeat (apply andb_true_iff in H; destruct H as [H ?]). assumption.
Qed.

Lemma fields_complete : forallb (fun f => memZ f eq_fields) [0; 1; 2; 3; 4; 5] = true.
Proof.
  pose proof constants_ok as H. unfold index_constants_ok in H.
  repeat (apply andb_true_iff in H; destruct H as [H ?]). assumption.
Qed.

Lemma fields_known : forallb (fun f => memZ f [0; 1; 2; 3; 4; 5]) eq_fields = true.
Proof.
  pose proof constants_ok as H. unfold index_constants_ok in H.
  repeat (apply andb_true_iff in H; destruct H as [H ?]). assumption.
Qed.

Lemma auto_not_exception : eq_seq lit_auto lit_trypsin_exception = false.
Proof.
  pose proof constants_ok as H. unfold index_constants_ok in H.
  repeat (apply andb_true_iff in H; destruct H as [H ?]).
  destruct (eq_seq lit_auto lit_trypsin_exception); [discriminate | reflexivity].
Qed.

Lemma minimal_parses : exists m, get_semver minimal_version = Some m.
Proof.
  pose proof constants_ok as H. unfold index_constants_ok in H.
  repeat (apply andb_true_iff in H; destruct H as [H ?]).
  destruct (get_semver minimal_version) as [m|]; [eauto | discriminate].
Qed.

Lemma memZ_In : forall x l, memZ x l = true <-> In x l.
Proof.
  induction l as [|y l IH]; cbn [memZ In]; [split; [discriminate | tauto]|].
  rewrite orb_true_iff, IH, Z.eqb_eq. split; intros [H|H]; auto.
Qed.

(* ------------------------------------------------------------------ parameter equality *)
Lemma field_eqb_refl : forall f a, In f [0; 1; 2; 3; 4; 5] -> field_eqb f a a = true.
Proof.
  intros f a H. unfold field_eqb. cbn [In] in H.
  destruct H as [<-|[<-|[<-|[<-|[<-|[<-|[]]]]]]]; cbn;
    rewrite ?eq_seq_refl, ?Z.eqb_refl; auto; try (apply opt_eqb_iff; reflexivity).
Qed.

Lemma params_eqb_iff : forall a b, params_eqb a b = true <-> a = b.
Proof.
  intros a b. unfold params_eqb. split.
  - intros H. rewrite forallb_forall in H.
    pose proof fields_complete as C. rewrite forallb_forall in C.
    assert (F : forall f, In f [0; 1; 2; 3; 4; 5] -> field_eqb f a b = true).
    { intros f Hf. apply H. apply memZ_In. apply C. exact Hf. }
    pose proof (F 0 ltac:(cbn; auto)) as F0. pose proof (F 1 ltac:(cbn; auto)) as F1.
    pose proof (F 2 ltac:(cbn; auto)) as F2. pose proof (F 3 ltac:(cbn; auto 6)) as F3.
    pose proof (F 4 ltac:(cbn; auto 7)) as F4. pose proof (F 5 ltac:(cbn; auto 8)) as F5.
    unfold field_eqb in *. cbn in F0, F1, F2, F3, F4, F5.
    apply eq_seq_iff in F0. apply opt_eqb_iff in F1.
    apply Z.eqb_eq in F2, F3, F4, F5.
    destruct a, b; cbn in *; subst; reflexivity.
  - intros <-. apply forallb_forall. intros f Hf.
    apply field_eqb_refl. pose proof fields_known as K. rewrite forallb_forall in K.
    apply memZ_In. apply K. exact Hf.
Qed.

Lemma params_eqb_refl : forall a, params_eqb a a = true.
Proof. intros; apply params_eqb_iff; reflexivity. Qed.

Lemma params_eqb_false : forall a b, params_eqb a b = false <-> a <> b.
Proof.
  intros a b. split.
  - intros H E. apply params_eqb_iff in E. congruence.
  - intros H. destruct (params_eqb a b) eqn:E; auto. apply params_eqb_iff in E. contradiction.
Qed.

Lemma params_eqb_sym : forall a b, params_eqb a b = params_eqb b a.
Proof.
  intros a b. destruct (params_eqb a b) eqn:E.
  - apply params_eqb_iff in E. subst. symmetry. apply params_eqb_refl.
  - apply params_eqb_false in E. symmetry. apply params_eqb_false. auto.
Qed.

Lemma resolve_exc_idem : forall e x, resolve_exc e (resolve_exc e x) = resolve_exc e x.
Proof.
  intros e [s|]; cbn [resolve_exc]; auto.
  destruct (eq_seq s lit_auto) eqn:A.
  - assert (X : eq_seq lit_trypsin_exception lit_auto = false).
    { apply eq_seq_false. intros E. pose proof auto_not_exception as N.
      apply eq_seq_false in N. congruence. }
    destruct (eq_seq e lit_trypsin) eqn:T; cbn [resolve_exc]; rewrite ?X; reflexivity.
  - cbn [resolve_exc]. rewrite A. reflexivity.
Qed.

Lemma resolve_idem : forall p, resolve (resolve p) = resolve p.
Proof. intros p. unfold resolve. cbn. rewrite resolve_exc_idem. reflexivity. Qed.

(* the resolved exception is never the literal 'auto' *)
Lemma resolve_never_auto : forall p, p_exc (resolve p) <> Some lit_auto.
Proof.
  intros p. unfold resolve. cbn [p_exc]. destruct (p_exc p) as [s|]; cbn [resolve_exc]; [|discriminate].
  destruct (eq_seq s lit_auto) eqn:A.
  - destruct (eq_seq (p_enzyme p) lit_trypsin); [|discriminate].
    intros E. pose proof auto_not_exception as N. apply eq_seq_false in N. apply N. congruence.
  - apply eq_seq_false in A. intros E. apply A. congruence.
Qed.

(* ------------------------------------------------------------------ versions *)
Lemma or_default_idem : forall s d, or_default (or_default s d) d = or_default s d.
Proof. intros [|x s] d; cbn; auto. destruct d; auto. Qed.

Lemma load_version_idem : forall cur v, load_version cur (load_version cur v) = load_version cur v.
Proof. intros cur v. unfold load_version. cbn. rewrite !or_default_idem. reflexivity. Qed.

Lemma lex_ge_refl : forall a, lex_ge a a = true.
Proof.
  induction a as [|x a IH]; cbn [lex_ge]; auto.
  replace (x >? x) with false by lia. replace (x <? x) with false by lia. exact IH.
Qed.

(* Python's tuple order: a >= b iff b is a prefix of a, or at the first difference a is larger *)
Lemma lex_ge_spec : forall a b, lex_ge a b = true <->
  (exists s, a = b ++ s) \/
  (exists p x y a' b', a = p ++ x :: a' /\ b = p ++ y :: b' /\ x > y).
Proof.
  induction a as [|x a IH]; intros b.
  - destruct b as [|y b]; cbn [lex_ge].
    + split; auto. intros _. left. exists []. reflexivity.
    + split; [discriminate|]. intros [[s H]|[p [x [y' [a' [b' [H _]]]]]]].
      * discriminate.
      * destruct p; discriminate.
  - destruct b as [|y b]; cbn [lex_ge].
    + split; auto. intros _. left. exists (x :: a). reflexivity.
    + destruct (x >? y) eqn:G.
      * split; auto. intros _. right. exists [], x, y, a, b. repeat split; auto. lia.
      * destruct (x <? y) eqn:L.
        -- split; [discriminate|]. intros [[s H]|[p [x' [y' [a' [b' [H1 [H2 H3]]]]]]]].
           ++ cbn in H. inversion H. lia.
           ++ destruct p as [|z p]; cbn in H1, H2; inversion H1; inversion H2; subst; lia.
        -- assert (x = y) by lia. subst y. rewrite IH. split.
           ++ intros [[s H]|[p [x' [y' [a' [b' [H1 [H2 H3]]]]]]]].
              ** left. exists s. cbn. rewrite H. reflexivity.
              ** right. exists (x :: p), x', y', a', b'. cbn. rewrite H1, H2. auto.
           ++ intros [[s H]|[p [x' [y' [a' [b' [H1 [H2 H3]]]]]]]].
              ** left. exists s. cbn in H. inversion H. reflexivity.
              ** destruct p as [|z p]; cbn in H1, H2; inversion H1; inversion H2; subst.
                 --- lia.
                 --- right. exists p, x', y', a', b'. auto.
Qed.

Lemma is_valid_true_iff : forall cur rec, is_valid cur rec = VTrue <->
  v_py cur = v_py rec /\ v_bio cur = v_bio rec /\
  exists that minimal, get_semver (v_mpg rec) = Some that /\ get_semver minimal_version = Some minimal /\
                       lex_ge that minimal = true.
Proof.
  intros cur rec. unfold is_valid.
  destruct (eq_seq (v_py cur) (v_py rec)) eqn:P.
  2:{ apply eq_seq_false in P. split; [discriminate | intros [H _]; contradiction]. }
  destruct (eq_seq (v_bio cur) (v_bio rec)) eqn:B.
  2:{ apply eq_seq_false in B. split; [discriminate | intros [_ [H _]]; contradiction]. }
  apply eq_seq_iff in P. apply eq_seq_iff in B.
  destruct (get_semver (v_mpg rec)) as [that|].
  2:{ split; [discriminate | intros [_ [_ [t [m [H _]]]]]; discriminate]. }
  destruct (get_semver minimal_version) as [minimal|].
  2:{ split; [discriminate | intros [_ [_ [t [m [_ [H _]]]]]]; discriminate]. }
  destruct (lex_ge that minimal) eqn:L.
  - split; auto. intros _. repeat split; auto. exists that, minimal. auto.
  - split; [discriminate|]. intros [_ [_ [t [m [H1 [H2 H3]]]]]]. inversion H1; inversion H2; subst. congruence.
Qed.

(* ------------------------------------------------------------------ file names are injective *)
Definition dstep (a c : Z) : Z := 10 * a + (c - 48).
Definition value (l : list Z) : Z := fold_left dstep l 0.

Lemma value_app : forall l1 l2, value (l1 ++ l2) = fold_left dstep l2 (value l1).
Proof. intros. unfold value. apply fold_left_app. Qed.

Lemma digits_fuel_value : forall fuel n, 0 <= n < Z.of_nat fuel -> value (digits_fuel fuel n) = n.
Proof.
  induction fuel as [|f IH]; intros n H; [lia|].
  cbn [digits_fuel]. destruct (n <? 10) eqn:L.
  - unfold value. cbn [fold_left]. unfold dstep. lia.
  - rewrite value_app. rewrite IH.
    + cbn [fold_left]. unfold dstep. pose proof (Z.div_mod n 10 ltac:(lia)). lia.
    + assert (n / 10 < n) by (apply Z.div_lt; lia).
      assert (0 <= n / 10) by (apply Z.div_pos; lia). lia.
Qed.

Lemma digits_value : forall n, 0 <= n -> value (digits n) = n.
Proof. intros n H. unfold digits. apply digits_fuel_value. lia. Qed.

Lemma zeros_value : forall k acc, acc = 0 -> fold_left dstep (repeat 48 k) acc = 0.
Proof. induction k as [|k IH]; intros acc ->; cbn; auto. Qed.

Lemma pad_value : forall w s, value (pad w s) = value s.
Proof.
  intros w s. unfold pad. rewrite value_app.
  replace (value (repeat 48 (Z.to_nat (w - zlen s)))) with 0; [reflexivity|].
  unfold value. symmetry. apply zeros_value. reflexivity.
Qed.

Lemma filename_inj : forall i j, 0 <= i -> 0 <= j -> filename_of i = filename_of j -> i = j.
Proof.
  intros i j Hi Hj H. unfold filename_of in H.
  apply app_inv_head in H. apply app_inv_tail in H.
  apply (f_equal value) in H. rewrite !pad_value, !digits_value in H; auto.
Qed.

(* ------------------------------------------------------------------ pools and files *)
Lemma get_pool_some : forall q l pm, get_pool q l = Some pm -> In pm l /\ q = pm_params pm.
Proof.
  induction l as [|x l IH]; cbn [get_pool]; intros pm H; [discriminate|].
  destruct (params_eqb q (pm_params x)) eqn:E.
  - inversion H; subst. apply params_eqb_iff in E. split; [left; reflexivity | exact E].
  - destruct (IH pm H) as [H1 H2]. split; [right; exact H1 | exact H2].
Qed.

Lemma get_pool_none : forall q l, get_pool q l = None <-> forall pm, In pm l -> pm_params pm <> q.
Proof.
  induction l as [|x l IH]; cbn [get_pool].
  - split; [intros _ pm [] | reflexivity].
  - destruct (params_eqb q (pm_params x)) eqn:E.
    + apply params_eqb_iff in E. split; [discriminate|]. intros H. exfalso. apply (H x); [left; reflexivity | auto].
    + apply params_eqb_false in E. rewrite IH. split.
      * intros H pm [<-|Hin]; [auto | apply H; exact Hin].
      * intros H pm Hin. apply H. right. exact Hin.
Qed.

Lemma get_pool_app : forall q l pm,
  get_pool q (l ++ [pm]) = match get_pool q l with
                           | Some x => Some x
                           | None => if params_eqb q (pm_params pm) then Some pm else None
                           end.
Proof.
  induction l as [|x l IH]; intros pm; cbn [get_pool app]; [reflexivity|].
  destruct (params_eqb q (pm_params x)); [reflexivity | apply IH].
Qed.

Lemma map_load_pool_id : forall l, Forall pool_ok l -> map load_pool l = l.
Proof.
  induction 1 as [|pm l [_ [_ R]] _ IH]; cbn [map]; [reflexivity|].
  rewrite IH. f_equal. unfold load_pool. rewrite R. destruct pm; reflexivity.
Qed.

Lemma fold_max_ge : forall l a, a <= fold_left Z.max l a /\ forall x, In x l -> x <= fold_left Z.max l a.
Proof.
  induction l as [|y l IH]; intros a; cbn [fold_left].
  - split; [lia | intros x []].
  - destruct (IH (Z.max a y)) as [H1 H2]. split; [lia|].
    intros x [<-|Hin]; [lia | apply H2; exact Hin].
Qed.

Lemma next_index_nil : next_index [] = 1.
Proof. unfold next_index. rewrite index_rule_1. reflexivity. Qed.

Lemma next_index_gt : forall l pm, In pm l -> pm_index pm < next_index l.
Proof.
  intros l pm H. unfold next_index. rewrite index_rule_1.
  destruct l as [|x l]; [destruct H|].
  destruct (fold_max_ge (map pm_index l) (pm_index x)) as [H1 H2].
  destruct H as [<-|Hin]; [lia|].
  assert (pm_index pm <= fold_left Z.max (map pm_index l) (pm_index x)) by (apply H2; apply in_map; exact Hin).
  lia.
Qed.

Lemma next_index_pos : forall l, Forall pool_ok l -> 1 <= next_index l.
Proof.
  intros l H. destruct l as [|x l]; [rewrite next_index_nil; lia|].
  pose proof (next_index_gt (x :: l) x (or_introl eq_refl)).
  inversion H as [|? ? [_ [P _]] _]; subst. lia.
Qed.

(* pools listed in a well-formed metadata have pairwise different file names *)
Lemma files_nodup : forall l, Forall pool_ok l -> NoDup (map pm_index l) -> NoDup (map pm_file l).
Proof.
  induction l as [|x l IH]; cbn [map]; intros F N; [constructor|].
  inversion F as [|? ? [Fx [Px _]] Fl]; subst. inversion N as [|? ? Nx Nl]; subst.
  constructor; [|apply IH; assumption].
  intros Hin. apply in_map_iff in Hin. destruct Hin as [y [Hy Hyl]].
  rewrite Forall_forall in Fl. destruct (Fl y Hyl) as [Fy [Py _]].
  rewrite Fx, Fy in Hy. apply filename_inj in Hy; try lia.
  apply Nx. rewrite <- Hy. apply in_map. exact Hyl.
Qed.

Lemma lookup_file_pools : forall r l pm, NoDup (map pm_file l) -> In pm l ->
  lookup_file (pm_file pm) (map (pool_file r) l) = Some (r, pm_params pm).
Proof.
  induction l as [|x l IH]; intros pm N Hin; [destruct Hin|].
  cbn [map lookup_file pool_file]. inversion N as [|? ? Nx Nl]; subst.
  destruct Hin as [<-|Hin].
  - rewrite eq_seq_refl. reflexivity.
  - destruct (eq_seq (pm_file x) (pm_file pm)) eqn:E.
    + apply eq_seq_iff in E. exfalso. apply Nx. rewrite E. apply in_map. exact Hin.
    + apply IH; assumption.
Qed.

Lemma write_file_same : forall r l pm, NoDup (map pm_file l) -> In pm l ->
  write_file (pm_file pm) (r, pm_params pm) (map (pool_file r) l) = map (pool_file r) l.
Proof.
  induction l as [|x l IH]; intros pm N Hin; [destruct Hin|].
  cbn [map write_file pool_file]. inversion N as [|? ? Nx Nl]; subst.
  destruct Hin as [<-|Hin].
  - rewrite eq_seq_refl. reflexivity.
  - destruct (eq_seq (pm_file x) (pm_file pm)) eqn:E.
    + apply eq_seq_iff in E. exfalso. apply Nx. rewrite E. apply in_map. exact Hin.
    + f_equal. apply IH; assumption.
Qed.

Lemma write_file_fresh : forall f c fs, ~ In f (map fst fs) -> write_file f c fs = fs ++ [(f, c)].
Proof.
  induction fs as [|[k v] fs IH]; cbn [map fst write_file app In]; intros H; [reflexivity|].
  destruct (eq_seq k f) eqn:E.
  - apply eq_seq_iff in E. exfalso. apply H. left. exact E.
  - f_equal. apply IH. intros Hin. apply H. right. exact Hin.
Qed.

Lemma map_fst_pool_file : forall r l, map fst (map (pool_file r) l) = map pm_file l.
Proof. intros. rewrite map_map. reflexivity. Qed.

Lemma wipe_all : forall r l, wipe l (map (pool_file r) l) = ([], true).
Proof.
  induction l as [|x l IH]; cbn [map wipe]; [reflexivity|].
  cbn [remove_file pool_file]. rewrite eq_seq_refl. exact IH.
Qed.

Lemma nodup_params_app : forall l pm, nodup_params l = true -> get_pool (pm_params pm) l = None ->
  nodup_params (l ++ [pm]) = true.
Proof.
  induction l as [|x l IH]; intros pm N G; cbn [app nodup_params get_pool]; [reflexivity|].
  cbn [nodup_params] in N. apply andb_true_iff in N. destruct N as [N1 N2].
  cbn [get_pool] in G. destruct (params_eqb (pm_params pm) (pm_params x)) eqn:E; [discriminate|].
  rewrite get_pool_app. destruct (get_pool (pm_params x) l); [discriminate|].
  rewrite params_eqb_sym, E. cbn. apply IH; assumption.
Qed.

Lemma nodup_params_NoDup : forall l, nodup_params l = true -> NoDup (map pm_params l).
Proof.
  induction l as [|x l IH]; cbn [nodup_params map]; intros H; [constructor|].
  apply andb_true_iff in H. destruct H as [H1 H2]. constructor; [|apply IH; exact H2].
  destruct (get_pool (pm_params x) l) eqn:G; [discriminate|].
  intros Hin. apply in_map_iff in Hin. destruct Hin as [y [Hy Hyl]].
  rewrite get_pool_none in G. apply (G y Hyl). exact Hy.
Qed.

Lemma NoDup_app_single : forall {A} (l : list A) x, NoDup l -> ~ In x l -> NoDup (l ++ [x]).
Proof.
  induction l as [|y l IH]; intros x N H; cbn [app].
  - constructor; [intros [] | constructor].
  - inversion N as [|? ? Ny Nl]; subst. constructor.
    + intros Hin. apply in_app_or in Hin. destruct Hin as [Hin|[<-|[]]]; [contradiction|].
      apply H. left. reflexivity.
    + apply IH; auto. intros Hin. apply H. right. exact Hin.
Qed.

(* ------------------------------------------------------------------ the dictionary view *)
Definition hpool (r : Z) (pm : poolmeta) : params * content := (pm_params pm, (r, pm_params pm)).

Lemma combine_pools : forall r l, combine (map pm_params l) (map snd (map (pool_file r) l)) = map (hpool r) l.
Proof. induction l as [|x l IH]; cbn; [reflexivity | rewrite IH; reflexivity]. Qed.

Lemma m_get_pools : forall r q l, m_get q (map (hpool r) l) = option_map (fun pm => (r, pm_params pm)) (get_pool q l).
Proof.
  induction l as [|x l IH]; cbn [map m_get get_pool hpool option_map]; [reflexivity|].
  destruct (params_eqb q (pm_params x)); [reflexivity | exact IH].
Qed.

Lemma m_set_same : forall r q l pm, get_pool q l = Some pm -> m_set q (r, q) (map (hpool r) l) = map (hpool r) l.
Proof.
  induction l as [|x l IH]; intros pm G; cbn [get_pool] in G; [discriminate|].
  cbn [map m_set hpool]. destruct (params_eqb q (pm_params x)) eqn:E.
  - apply params_eqb_iff in E. subst q. reflexivity.
  - f_equal. apply (IH pm). exact G.
Qed.

Lemma m_set_fresh : forall r q c l, get_pool q l = None -> m_set q c (map (hpool r) l) = map (hpool r) l ++ [(q, c)].
Proof.
  induction l as [|x l IH]; intros G; cbn [get_pool] in G; cbn [map m_set hpool app]; [reflexivity|].
  destruct (params_eqb q (pm_params x)); [discriminate|]. f_equal. apply IH. exact G.
Qed.

(* ------------------------------------------------------------------ one step: invariant + refinement *)
Lemma wf_some : forall m rf fs o, wf (mkD (Some m) rf fs o) ->
  exists r, rf = Some r /\ m_src m = Some r /\ fs = map (pool_file r) (m_pools m) /\
            Forall pool_ok (m_pools m) /\ NoDup (map pm_index (m_pools m)) /\ nodup_params (m_pools m) = true.
Proof. intros m rf fs o H. exact H. Qed.

Lemma wf_none : forall rf fs o, wf (mkD None rf fs o) -> rf = None /\ fs = [].
Proof. intros rf fs o H. exact H. Qed.

Lemma abs_some : forall v l s r o,
  abs (mkD (Some (mkM v l s)) (Some r) (map (pool_file r) l) o) = mkA (Some (mkAI r v (map (hpool r) l))) o.
Proof. intros. unfold abs. cbn. rewrite combine_pools. reflexivity. Qed.

Lemma open_index_some : forall cur v l s rf fs o, Forall pool_ok l ->
  open_index cur (mkD (Some (mkM v l s)) rf fs o) = mkM (load_version cur v) l s.
Proof. intros. unfold open_index, load_meta. cbn [d_meta m_ver m_pools m_src]. rewrite map_load_pool_id; auto. Qed.

Lemma open_index_none : forall cur rf fs o, open_index cur (mkD None rf fs o) = init_meta cur.
Proof. reflexivity. Qed.

(* generateIndex on a fresh pool list *)
Lemma generate_go : forall cur ref p,
  save_pool (init_meta cur) [] (ref, resolve p) (resolve p) false =
  Some (mkM cur [mkPM (filename_of 1) 1 (resolve p)] None, [(filename_of 1, (ref, resolve p))]).
Proof.
  intros. unfold save_pool, init_meta. cbn [m_pools get_pool]. unfold register. cbn [m_pools get_pool is_some m_ver m_src app].
  rewrite next_index_nil. reflexivity.
Qed.

Lemma wf_fresh : forall cur ref cp o, resolve cp = cp ->
  wf (mkD (Some (mkM cur [mkPM (filename_of 1) 1 cp] (Some ref))) (Some ref) [(filename_of 1, (ref, cp))] o).
Proof.
  intros cur ref cp o R. unfold wf. cbn. exists ref. repeat split; auto.
  - constructor; [|constructor]. unfold pool_ok. cbn. repeat split; auto. lia.
  - constructor; [intros [] | constructor].
Qed.

Lemma generate_sim : forall cur ref p force d, wf d ->
  wf (fst (generate cur ref p force d)) /\
  astep (abs d) (cur, OpGenerate ref p force) = (abs (fst (generate cur ref p force d)), snd (generate cur ref p force d)).
Proof.
  intros cur ref p force [[m|] rf fs o] W.
  - (* an index exists *)
    apply wf_some in W. destruct W as [r [-> [S [-> [F [N P]]]]]].
    destruct m as [v l s]. cbn [m_pools m_src] in *. subst s.
    unfold generate. cbn [nonempty d_meta is_some orb].
    destruct force.
    + rewrite (open_index_some cur v l (Some r) _ _ _ F). cbv zeta. cbn [m_pools d_files].
      rewrite wipe_all. cbn iota beta.
      rewrite generate_go. cbn [fst snd m_ver m_pools d_other d_meta].
      split; [apply wf_fresh; apply resolve_idem|].
      rewrite abs_some. cbn [astep fst snd a_ix a_other is_some orb negb andb].
      unfold abs. cbn. reflexivity.
    + cbn [fst snd]. split; [exists r; repeat split; auto|].
      rewrite abs_some. cbn [astep fst snd a_ix a_other is_some orb negb andb]. reflexivity.
  - (* no metadata *)
    apply wf_none in W. destruct W as [-> ->].
    unfold generate. cbn [nonempty d_meta d_ref d_files is_some is_nil orb negb open_index].
    destruct o.
    + destruct force.
      * cbn [init_meta m_pools wipe]. rewrite generate_go. cbn [fst snd m_ver m_pools d_other d_meta].
        split; [apply wf_fresh; apply resolve_idem|]. unfold abs. cbn. reflexivity.
      * cbn [fst snd]. split; [split; reflexivity|]. unfold abs. cbn. reflexivity.
    + rewrite generate_go. cbn [fst snd m_ver m_pools d_other d_meta].
      split; [apply wf_fresh; apply resolve_idem|]. unfold abs. cbn. destruct force; reflexivity.
Qed.

Lemma update_sim : forall cur p force d, wf d ->
  wf (fst (update cur p force d)) /\
  astep (abs d) (cur, OpUpdate p force) = (abs (fst (update cur p force d)), snd (update cur p force d)).
Proof.
  intros cur p force [[m|] rf fs o] W.
  - pose proof W as W0.
    apply wf_some in W. destruct W as [r [-> [S [-> [F [N P]]]]]].
    destruct m as [v l s]. cbn [m_pools m_src] in *. subst s.
    rewrite abs_some.
    unfold update. rewrite (open_index_some cur v l (Some r) _ _ _ F). cbv zeta.
    cbn [d_meta m_pools m_ver m_src d_files d_ref d_other].
    cbn [astep fst snd gate a_ix a_ver a_map a_ref a_other].
    destruct (is_valid cur (load_version cur v)) eqn:V.
    2,3: cbn [fst snd]; split; [exact W0 | rewrite abs_some; reflexivity].
    rewrite m_get_pools.
    destruct (get_pool (resolve p) l) as [pm|] eqn:G; cbn [option_map is_some andb].
    + destruct force; cbn [negb andb].
      * (* overwrite the existing pool: the file is rewritten with the same content, metadata untouched *)
        destruct (get_pool_some _ _ _ G) as [Hin Hq].
        unfold save_pool. cbn [m_pools]. rewrite G.
        revert G Hq. generalize (resolve p) as q. intros q G Hq. subst q.
        rewrite write_file_same; auto using files_nodup.
        cbn [fst snd]. split; [exact W0|].
        rewrite abs_some. rewrite (m_set_same r (pm_params pm) l pm G). reflexivity.
      * cbn [fst snd]. split; [exact W0 | rewrite abs_some; reflexivity].
    + (* a new pool *)
      cbn [negb andb]. unfold save_pool. cbn [m_pools]. rewrite G. unfold register. cbn [m_pools m_ver m_src]. rewrite G.
      cbn [is_some pm_file].
      set (i := next_index l). set (pm := mkPM (filename_of i) i (resolve p)).
      assert (Hfresh : ~ In (filename_of i) (map fst (map (pool_file r) l))).
      { rewrite map_fst_pool_file. intros Hin. apply in_map_iff in Hin. destruct Hin as [y [Hy Hyl]].
        rewrite Forall_forall in F. destruct (F y Hyl) as [Fy [Py _]].
        pose proof (next_index_gt l y Hyl). fold i in H.
        rewrite Fy in Hy. apply filename_inj in Hy; lia. }
      rewrite write_file_fresh; auto.
      cbn [fst snd].
      change [(filename_of i, (r, resolve p))] with (map (pool_file r) [pm]).
      rewrite <- map_app.
      split.
      * exists r. cbn [d_meta d_ref d_files m_pools m_src].
        split; [reflexivity|]. split; [reflexivity|]. split; [reflexivity|]. split; [|split].
        -- apply Forall_app. split; auto. constructor; [|constructor].
           unfold pool_ok, pm. cbn. repeat split; auto using resolve_idem.
           apply next_index_pos. exact F.
        -- rewrite map_app. cbn [map pm_index pm].
           apply NoDup_app_single.
           ++ exact N.
           ++ intros Hin. apply in_map_iff in Hin. destruct Hin as [y [Hy Hyl]].
              pose proof (next_index_gt l y Hyl). unfold pm, i in *. cbn [pm_index] in Hy. lia.
        -- apply nodup_params_app; auto.
      * rewrite abs_some. rewrite m_set_fresh; auto.
        rewrite map_app. reflexivity.
  - apply wf_none in W. destruct W as [-> ->].
    unfold update. cbn [open_index d_meta init_meta m_ver m_pools get_pool is_some andb d_ref].
    unfold abs. cbn [d_meta d_ref d_other astep fst snd gate a_ix].
    destruct (is_valid cur cur); cbn [fst snd]; split; try reflexivity; split; reflexivity.
Qed.

Lemma load_sim : forall cur p d, wf d -> astep (abs d) (cur, OpLoad p) = (abs d, load cur p d).
Proof.
  intros cur p [[m|] rf fs o] W.
  - apply wf_some in W. destruct W as [r [-> [S [-> [F [N P]]]]]].
    destruct m as [v l s]. cbn [m_pools m_src] in *. subst s.
    rewrite abs_some.
    unfold load. rewrite (open_index_some cur v l (Some r) _ _ _ F). cbv zeta.
    cbn [d_meta m_pools m_ver m_src d_files d_ref].
    cbn [astep fst snd gate a_ix a_ver a_map a_ref].
    destruct (is_valid cur (load_version cur v)); try reflexivity.
    rewrite m_get_pools.
    destruct (get_pool (resolve p) l) as [pm|] eqn:G; cbn [option_map]; [|reflexivity].
    destruct (get_pool_some _ _ _ G) as [Hin Hq].
    rewrite lookup_file_pools; auto using files_nodup.
  - apply wf_none in W. destruct W as [-> ->].
    unfold load. cbn [open_index d_meta init_meta m_ver m_pools get_pool].
    unfold abs. cbn [d_meta d_ref d_other astep fst snd gate a_ix].
    destruct (is_valid cur cur); reflexivity.
Qed.

Lemma step_sim : forall d eo, wf d ->
  wf (fst (step d eo)) /\ astep (abs d) eo = (abs (fst (step d eo)), snd (step d eo)).
Proof.
  intros d [cur [ref p force|p force|p]] W; unfold step; cbn [fst snd].
  - apply generate_sim; exact W.
  - apply update_sim; exact W.
  - split; [exact W | apply load_sim; exact W].
Qed.

Lemma run_sim_gen : forall ops d outs, wf d ->
  let dr := fold_left (fun acc eo => let '(d', o) := step (fst acc) eo in (d', snd acc ++ [o])) ops (d, outs) in
  let ar := fold_left (fun acc eo => let '(a', o) := astep (fst acc) eo in (a', snd acc ++ [o])) ops (abs d, outs) in
  wf (fst dr) /\ abs (fst dr) = fst ar /\ snd dr = snd ar.
Proof.
  induction ops as [|eo ops IH]; intros d outs W; cbn [fold_left].
  - cbn. auto.
  - cbn [fst snd]. destruct (step_sim d eo W) as [W' A]. rewrite A.
    destruct (step d eo) as [d' o] eqn:E. cbn [fst snd] in *.
    apply IH. exact W'.
Qed.

Lemma wf_init : forall other, wf (init_disk other).
Proof. intros. split; reflexivity. Qed.

Lemma index_refines_map_l : forall other ops,
  wf (fst (run (init_disk other) ops)) /\
  abs (fst (run (init_disk other) ops)) = fst (arun (init_a other) ops) /\
  snd (run (init_disk other) ops) = snd (arun (init_a other) ops).
Proof.
  intros other ops. unfold run, arun.
  pose proof (run_sim_gen ops (init_disk other) [] (wf_init other)) as H. cbn zeta in H.
  replace (abs (init_disk other)) with (init_a other) in H by reflexivity. exact H.
Qed.

Lemma reachable_wf : forall d, reachable d -> wf d.
Proof. intros d [other [ops ->]]. apply index_refines_map_l. Qed.

(* ------------------------------------------------------------------ consequences for reachable directories *)
Lemma wf_load_own : forall d cur p c r, wf d -> load cur p d = OLoaded c r ->
  c = (r, resolve p) /\ d_ref d = Some r /\
  exists m pm, d_meta d = Some m /\ In pm (m_pools m) /\ pm_params pm = resolve p /\
               lookup_file (pm_file pm) (d_files d) = Some c.
Proof.
  intros [[m|] rf fs o] cur p c r W H.
  - apply wf_some in W. destruct W as [r0 [-> [S [-> [F [N P]]]]]].
    destruct m as [v l s]. cbn [m_pools m_src] in *. subst s.
    unfold load in H. rewrite (open_index_some cur v l (Some r0) _ _ _ F) in H. cbv zeta in H.
    cbn [d_meta m_pools m_ver m_src d_files d_ref] in H.
    destruct (is_valid cur (load_version cur v)); try discriminate.
    destruct (get_pool (resolve p) l) as [pm|] eqn:G; [|discriminate].
    destruct (get_pool_some _ _ _ G) as [Hin Hq].
    rewrite lookup_file_pools in H; auto using files_nodup.
    inversion H; subst. rewrite <- Hq. repeat split; auto.
    exists (mkM v l (Some r)), pm. cbn [d_meta m_pools d_files]. repeat split; auto.
    rewrite Hq. apply lookup_file_pools; auto using files_nodup.
  - apply wf_none in W. destruct W as [-> ->].
    unfold load in H. cbn [open_index d_meta init_meta m_ver m_pools get_pool] in H.
    destruct (is_valid cur cur); discriminate.
Qed.

Lemma wf_load_unknown : forall d cur p m, wf d -> d_meta d = Some m ->
  (forall pm, In pm (m_pools m) -> pm_params pm <> resolve p) ->
  load cur p d = OErrNoPool \/ load cur p d = OErrVersion \/ load cur p d = OErrSemver.
Proof.
  intros [[m0|] rf fs o] cur p m W E H; cbn [d_meta] in E; [|discriminate].
  inversion E; subst m0.
  apply wf_some in W. destruct W as [r0 [-> [S [-> [F [N P]]]]]].
  destruct m as [v l s]. cbn [m_pools m_src m_ver] in *.
  unfold load. rewrite (open_index_some cur v l s _ _ _ F). cbv zeta. cbn [m_pools m_ver].
  destruct (is_valid cur (load_version cur v)); auto.
  apply get_pool_none in H. rewrite H. auto.
Qed.

Lemma wf_no_dup : forall d m, wf d -> d_meta d = Some m ->
  NoDup (map pm_params (m_pools m)) /\ NoDup (map pm_file (m_pools m)) /\ NoDup (map pm_index (m_pools m)) /\
  (forall pm, In pm (m_pools m) -> pm_params pm = resolve (pm_params pm) /\ pm_file pm = filename_of (pm_index pm) /\ 1 <= pm_index pm) /\
  map fst (d_files d) = map pm_file (m_pools m).
Proof.
  intros [[m0|] rf fs o] m W E; cbn [d_meta] in E; [|discriminate].
  inversion E; subst m0.
  apply wf_some in W. destruct W as [r0 [-> [S [-> [F [N P]]]]]].
  repeat split; auto using nodup_params_NoDup, files_nodup.
  - rewrite Forall_forall in F. destruct (F pm H) as [_ [_ R]]. auto.
  - rewrite Forall_forall in F. destruct (F pm H) as [R _]. auto.
  - rewrite Forall_forall in F. destruct (F pm H) as [_ [R _]]. auto.
  - cbn [d_files]. apply map_fst_pool_file.
Qed.

(* adding a pool: numbering, fresh file name, every existing file byte-identical *)
Lemma wf_update_fresh : forall d m cur p force d', wf d -> d_meta d = Some m ->
  get_pool (resolve p) (m_pools m) = None ->
  update cur p force d = (d', OOk) ->
  let i := next_index (m_pools m) in
  (forall pm, In pm (m_pools m) -> pm_index pm < i) /\
  ~ In (filename_of i) (map fst (d_files d)) /\
  d_files d' = d_files d ++ [(filename_of i, (match d_ref d with Some r => r | None => 0 end, resolve p))] /\
  exists m', d_meta d' = Some m' /\ m_pools m' = m_pools m ++ [mkPM (filename_of i) i (resolve p)].
Proof.
  intros [[m0|] rf fs o] m cur p force d' W E G U; cbn [d_meta] in E; [|discriminate].
  inversion E; subst m0.
  apply wf_some in W. destruct W as [r [-> [S [-> [F [N P]]]]]].
  cbn zeta. split; [intros pm Hin; apply next_index_gt; exact Hin|].
  assert (Hfresh : ~ In (filename_of (next_index (m_pools m))) (map fst (map (pool_file r) (m_pools m)))).
  { rewrite map_fst_pool_file. intros Hin. apply in_map_iff in Hin. destruct Hin as [y [Hy Hyl]].
    rewrite Forall_forall in F. destruct (F y Hyl) as [Fy [Py _]].
    pose proof (next_index_gt (m_pools m) y Hyl).
    rewrite Fy in Hy. apply filename_inj in Hy; lia. }
  split; [exact Hfresh|].
  destruct m as [v l s]. cbn [m_pools m_src m_ver] in *.
  unfold update in U. rewrite (open_index_some cur v l s _ _ _ F) in U. cbv zeta in U.
  cbn [d_meta m_pools m_ver m_src d_files d_ref d_other] in U.
  destruct (is_valid cur (load_version cur v)); try (inversion U; fail).
  rewrite G in U. cbn [is_some andb] in U.
  unfold save_pool in U. cbn [m_pools] in U. rewrite G in U. unfold register in U. cbn [m_pools m_ver m_src] in U.
  rewrite G in U. cbn [is_some pm_file] in U.
  rewrite write_file_fresh in U; auto.
  inversion U; subst d'. cbn [d_files d_meta d_ref]. split; [reflexivity|].
  eexists. split; reflexivity.
Qed.

(* what load finds for q, ignoring the version gate *)
Definition pool_of (d : disk) (q : params) : option content :=
  match d_meta d with
  | None => None
  | Some m => match get_pool (resolve q) (map load_pool (m_pools m)) with
              | None => None
              | Some pm => lookup_file (pm_file pm) (d_files d)
              end
  end.

Lemma get_pool_app_other : forall q l pm, pm_params pm <> q -> get_pool q (l ++ [pm]) = get_pool q l.
Proof.
  intros q l pm H. rewrite get_pool_app. destruct (get_pool q l); auto.
  destruct (params_eqb q (pm_params pm)) eqn:E; auto. apply params_eqb_iff in E. congruence.
Qed.

Lemma lookup_file_app : forall f fs g c, lookup_file f fs <> None -> lookup_file f (fs ++ [(g, c)]) = lookup_file f fs.
Proof.
  induction fs as [|[k v] fs IH]; intros g c H; cbn [lookup_file app] in *; [congruence|].
  destruct (eq_seq k f); auto.
Qed.

Lemma wf_update_others : forall d cur p force q, wf d -> resolve q <> resolve p ->
  pool_of (fst (update cur p force d)) q = pool_of d q /\
  load cur q (fst (update cur p force d)) = load cur q d /\
  d_ref (fst (update cur p force d)) = d_ref d.
Proof.
  intros [[m|] rf fs o] cur p force q W D.
  - pose proof W as W0.
    apply wf_some in W. destruct W as [r [-> [S [-> [F [N P]]]]]].
    destruct m as [v l s]. cbn [m_pools m_src] in *. subst s.
    unfold update. rewrite (open_index_some cur v l (Some r) _ _ _ F). cbv zeta.
    cbn [d_meta m_pools m_ver m_src d_files d_ref d_other].
    destruct (is_valid cur (load_version cur v)) eqn:V; try (cbn [fst]; auto).
    destruct (get_pool (resolve p) l) as [pm|] eqn:G; cbn [is_some andb].
    + destruct force; cbn [negb andb]; [|cbn [fst]; auto].
      destruct (get_pool_some _ _ _ G) as [Hin Hq].
      unfold save_pool. cbn [m_pools]. rewrite G.
      revert G Hq D. generalize (resolve p) as q'. intros q' G Hq D. subst q'.
      rewrite write_file_same; auto using files_nodup.
    + cbn [negb andb]. unfold save_pool. cbn [m_pools]. rewrite G. unfold register. cbn [m_pools m_ver m_src]. rewrite G.
      cbn [is_some pm_file].
      assert (Hfresh : ~ In (filename_of (next_index l)) (map fst (map (pool_file r) l))).
      { rewrite map_fst_pool_file. intros Hin. apply in_map_iff in Hin. destruct Hin as [y [Hy Hyl]].
        rewrite Forall_forall in F. destruct (F y Hyl) as [Fy [Py _]].
        pose proof (next_index_gt l y Hyl).
        rewrite Fy in Hy. apply filename_inj in Hy; lia. }
      rewrite write_file_fresh; auto. cbn [fst].
      set (pm := mkPM (filename_of (next_index l)) (next_index l) (resolve p)).
      assert (Fl : Forall pool_ok (l ++ [pm])).
      { apply Forall_app. split; auto. constructor; [|constructor]. unfold pool_ok, pm. cbn.
        repeat split; auto using resolve_idem. apply next_index_pos. exact F. }
      assert (Gq : get_pool (resolve q) (l ++ [pm]) = get_pool (resolve q) l).
      { apply get_pool_app_other. unfold pm. cbn. congruence. }
      split; [|split; [|reflexivity]].
      * unfold pool_of. cbn [d_meta m_pools d_files].
        rewrite (map_load_pool_id _ Fl), (map_load_pool_id _ F), Gq.
        destruct (get_pool (resolve q) l) as [pq|] eqn:Q; auto.
        destruct (get_pool_some _ _ _ Q) as [Hin _].
        apply lookup_file_app. rewrite lookup_file_pools; auto using files_nodup. discriminate.
      * unfold load. cbn [open_index d_meta load_meta m_pools m_ver d_files d_ref].
        rewrite load_version_idem, V.
        rewrite (map_load_pool_id _ Fl), (map_load_pool_id _ F), Gq.
        destruct (get_pool (resolve q) l) as [pq|] eqn:Q; auto.
        destruct (get_pool_some _ _ _ Q) as [Hin _].
        rewrite lookup_file_app; [reflexivity|]. rewrite lookup_file_pools; auto using files_nodup. discriminate.
  - apply wf_none in W. destruct W as [-> ->].
    unfold update. cbn [open_index d_meta init_meta m_ver m_pools get_pool is_some andb d_ref].
    destruct (is_valid cur cur); cbn [fst]; auto.
Qed.

(* ------------------------------------------------------------------ the version gate, for ANY directory *)
Lemma version_gate_l : forall cur d m, d_meta d = Some m ->
  is_valid cur (load_version cur (m_ver m)) <> VTrue ->
  (forall p force, exists o, update cur p force d = (d, o) /\ (o = OErrVersion \/ o = OErrSemver)) /\
  (forall p, load cur p d = OErrVersion \/ load cur p d = OErrSemver).
Proof.
  intros cur d m E H. split.
  - intros p force. unfold update, open_index. rewrite E. cbn [load_meta m_ver].
    destruct (is_valid cur (load_version cur (m_ver m))); [contradiction | eauto | eauto].
  - intros p. unfold load, open_index. rewrite E. cbn [load_meta m_ver].
    destruct (is_valid cur (load_version cur (m_ver m))); [contradiction | auto | auto].
Qed.

(* and conversely nothing is loaded from, or added to, a directory unless the gate passed *)
Lemma gate_needed_l : forall cur d m p, d_meta d = Some m ->
  (forall c r, load cur p d = OLoaded c r -> is_valid cur (load_version cur (m_ver m)) = VTrue) /\
  (forall force d', update cur p force d = (d', OOk) -> is_valid cur (load_version cur (m_ver m)) = VTrue).
Proof.
  intros cur d m p E. split.
  - intros c r. unfold load, open_index. rewrite E. cbn [load_meta m_ver].
    destruct (is_valid cur (load_version cur (m_ver m))); auto; discriminate.
  - intros force d'. unfold update, open_index. rewrite E. cbn [load_meta m_ver].
    destruct (is_valid cur (load_version cur (m_ver m))); auto; intros H; inversion H.
Qed.

(* a rejected or refused updateIndex leaves the directory as it was *)
Lemma update_not_ok_unchanged : forall cur p force d d' o, update cur p force d = (d', o) -> o <> OOk -> d' = d.
Proof.
  intros cur p force d d' o. unfold update.
  destruct (is_valid cur (m_ver (open_index cur d))); try (intros H; inversion H; auto; fail).
  destruct (is_some (get_pool (resolve p) (m_pools (open_index cur d))) && negb force); [intros H; inversion H; auto|].
  destruct (d_ref d); [|intros H; inversion H; auto].
  destruct (save_pool _ _ _ _ _) as [[m' fs']|]; intros H; inversion H; subst; auto. congruence.
Qed.

(* generateIndex without --force never touches a non-empty directory *)
Lemma generate_noforce_l : forall cur ref p d, nonempty d = true -> generate cur ref p false d = (d, OExit1).
Proof. intros. unfold generate. rewrite H. reflexivity. Qed.
