(* C20: a decoy is isobaric with its target - same length, same residue counts, same mass (x 10^4,
   the exact mass function of Model.Digest) - corollaries of decoy_perm_l.  No axioms. *)
From Coq Require Import ZArith List Bool Lia Permutation.
From MoPep Require Import Model.Base Model.Rule Model.Digest Model.Decoy Proofs.DecoyProofs.
Import ListNotations.

Lemma sum_weights_perm wt (a b : seq) : Permutation a b -> sum_weights wt a = sum_weights wt b.
Proof.
  intros H. induction H as [|x a b _ IH|x y a|a b c _ IH1 _ IH2]; cbn [sum_weights].
  - reflexivity.
  - rewrite IH. reflexivity.
  - lia.
  - rewrite IH1. exact IH2.
Qed.

Lemma mass4_perm wt water (a b : seq) : Permutation a b -> mass4 wt water a = mass4 wt water b.
Proof.
  intros H. unfold mass4. rewrite (sum_weights_perm wt a b H), (Permutation_length H). reflexivity.
Qed.

Lemma count_occ_perm (a b : seq) c : Permutation a b -> count_occ Z.eq_dec a c = count_occ Z.eq_dec b c.
Proof. intros H. revert c. apply Permutation_count_occ. exact H. Qed.

Theorem decoy_isobaric_l :
  forall sample, (forall k l, Permutation (sample k l) l) ->
  forall cfg targets o, run sample cfg targets = Ok o ->
  Forall2 (fun t d => length (r_seq d) = length (r_seq t) /\
                      (forall c, count_occ Z.eq_dec (r_seq d) c = count_occ Z.eq_dec (r_seq t) c) /\
                      (forall wt water, mass4 wt water (r_seq d) = mass4 wt water (r_seq t)))
          (o_targets o) (o_decoys o).
Proof.
  intros sample Hs cfg targets o Hrun.
  pose proof (decoy_perm_l sample Hs cfg targets o Hrun) as H.
  induction H as [|t d ts ds Hp _ IH]; constructor; [|exact IH].
  split; [exact (Permutation_length Hp)|]. split.
  - intros c. apply count_occ_perm. exact Hp.
  - intros wt water. apply mass4_perm. exact Hp.
Qed.
