(* Proofs about Model/Filter.v (C19). *)
From Coq Require Import ZArith List Bool Lia ZifyBool.
From MoPep Require Import Model.Base Model.Rule Model.Digest Model.Header Model.Filter.
Import ListNotations.
Open Scope Z_scope.

(* ---- eq_seq ---- *)
Lemma eq_seq_true : forall a b, eq_seq a b = true <-> a = b.
Proof.
  induction a as [|x a IH]; destruct b as [|y b]; cbn [eq_seq]; split; intro H; try discriminate; try reflexivity.
  - apply andb_true_iff in H. destruct H as [H1 H2]. apply Z.eqb_eq in H1. apply IH in H2. subst. reflexivity.
  - inversion H; subst. apply andb_true_iff. split. apply Z.eqb_refl. apply IH. reflexivity.
Qed.

Lemma eq_seq_refl : forall a, eq_seq a a = true.
Proof. intro a. apply eq_seq_true. reflexivity. Qed.

(* ---- mapM / bind ---- *)
Lemma mapM_ok : forall {A B} (f : A -> res B) l rs,
  mapM f l = Ok rs -> Forall2 (fun x r => f x = Ok r) l rs.
Proof.
  induction l as [|x l IH]; cbn [mapM]; intros rs H.
  - inversion H. constructor.
  - destruct (f x) eqn:Ef; cbn [bind] in H; try discriminate.
    destruct (mapM f l) eqn:Em; cbn [bind] in H; try discriminate.
    inversion H; subst. constructor; auto.
Qed.

Lemma mapM_build : forall {A B} (f : A -> res B) l rs,
  Forall2 (fun x r => f x = Ok r) l rs -> mapM f l = Ok rs.
Proof.
  induction 1; cbn [mapM]. reflexivity. rewrite H, IHForall2. reflexivity.
Qed.

(* ---- sublist ---- *)
Lemma sublist_refl : forall {A} (l : list A), sublist l l.
Proof. induction l; constructor; auto. Qed.

Lemma sublist_filter : forall {A} (f : A -> bool) l, sublist (filter f l) l.
Proof. induction l; cbn [filter]. constructor. destruct (f a); constructor; auto. Qed.

Lemma sublist_filter2 : forall {A} (f g : A -> bool) l,
  (forall x, In x l -> f x = true -> g x = true) -> sublist (filter f l) (filter g l).
Proof.
  induction l as [|a l IH]; intros H; cbn [filter]. constructor.
  assert (IH' : sublist (filter f l) (filter g l)) by (apply IH; intros; apply H; auto; right; auto).
  destruct (f a) eqn:Ef.
  - rewrite (H a (or_introl eq_refl) Ef). constructor. exact IH'.
  - destruct (g a); [constructor|]; exact IH'.
Qed.

Lemma filter_nonempty_mono : forall {A} (f g : A -> bool) l,
  (forall x, In x l -> f x = true -> g x = true) -> filter f l <> [] -> filter g l <> [].
Proof.
  intros A f g l H Hn Hg. apply Hn.
  destruct (filter f l) as [|x r] eqn:E; [reflexivity|].
  assert (Hx : In x (filter f l)) by (rewrite E; left; reflexivity).
  apply filter_In in Hx. destruct Hx as [Hin Hf].
  assert (In x (filter g l)) by (apply filter_In; split; auto).
  rewrite Hg in H0. destruct H0.
Qed.

(* ---- the per-entry decision ---- *)
Lemma all_expr_true : forall rows cutoff txs,
  all_expr rows cutoff txs = Ok true <->
  (forall tx, In tx txs -> exists v c, expr_lookup rows tx = Some v /\ cutoff = Some c /\ c <= v).
Proof.
  induction txs as [|t txs IH]; cbn [all_expr].
  - split; intros; [contradiction|reflexivity].
  - split.
    + intros H tx [Htx|Htx].
      * subst. destruct (expr_lookup rows tx); try discriminate. destruct cutoff; try discriminate.
        destruct (z0 <=? z) eqn:E; try discriminate. exists z, z0. split; [reflexivity|split; [reflexivity|lia]].
      * destruct (expr_lookup rows t); try discriminate. destruct cutoff; try discriminate.
        destruct (z0 <=? z) eqn:E; try discriminate. apply IH; auto.
    + intros H. destruct (H t (or_introl eq_refl)) as [v [c [H1 [H2 H3]]]].
      rewrite H1, H2. replace (c <=? v) with true by lia. rewrite <- H2. apply IH. intros; apply H; right; auto.
Qed.

Lemma keep_b_ok : forall o d e, keep_b o d e = true -> keep_entry o d e = Ok true.
Proof. unfold keep_b. intros o d e H. destruct (keep_entry o d e); subst; try discriminate; reflexivity. Qed.

Lemma keep_entry_rule : forall o d e b,
  keep_entry o d e = Ok b -> (b = true <-> keep_rule o d e).
Proof.
  unfold keep_entry, keep_rule. intros o d e b H.
  destruct (is_canonical o e) as [canon|] eqn:Ec; cbn [bind] in H; try discriminate.
  destruct (d && negb (o_keep_canon o && canon)) eqn:E1.
  { inversion H; subst. split; [discriminate|]. intros [Hd _].
    apply andb_true_iff in E1. destruct E1 as [Hd1 Hk]. destruct (Hd Hd1) as [Hkc Hcan].
    inversion Hcan; subst. rewrite Hkc in Hk. discriminate. }
  assert (Hdeny : d = true -> o_keep_canon o = true /\ Ok canon = Ok true (A:=bool)).
  { intro Hd. subst d. cbn in E1. apply negb_false_iff in E1. apply andb_true_iff in E1. destruct E1; subst. auto. }
  destruct (o_kan o && all_noncoding o e) eqn:E2.
  { inversion H; subst. split; [intros _|reflexivity]. split; [exact Hdeny|]. left. apply andb_true_iff in E2. exact E2. }
  destruct (o_kac o && all_coding o e) eqn:E3.
  { inversion H; subst. split; [intros _|reflexivity]. split; [exact Hdeny|]. right; left. apply andb_true_iff in E3. exact E3. }
  destruct (o_exprs o) as [rows|] eqn:Ee.
  2:{ inversion H; subst. split; [intros _|reflexivity]. split; [exact Hdeny|]. right; right; left. reflexivity. }
  destruct (e_fusion e || e_circ e || e_splice e) eqn:E4.
  { inversion H; subst. split; [intros _|reflexivity]. split; [exact Hdeny|].
    apply orb_true_iff in E4. destruct E4 as [E4|E4]; [apply orb_true_iff in E4; destruct E4|]; auto 10. }
  apply orb_false_iff in E4. destruct E4 as [E4 E6]. apply orb_false_iff in E4. destruct E4 as [E4 E5].
  split.
  - intro Hb. subst b. split; [exact Hdeny|]. do 6 right. exists rows. split; auto.
    apply all_expr_true. exact H.
  - intros [_ [[Ha Hb]|[[Ha Hb]|[Ha|[Ha|[Ha|[Ha|Ha]]]]]]]; try congruence.
    + rewrite Ha, Hb in E2. discriminate.
    + rewrite Ha, Hb in E3. discriminate.
    + destruct Ha as [rows' [Hr Hall]]. rewrite Ee in Hr. inversion Hr; subst rows'.
      apply all_expr_true in Hall. rewrite Hall in H. inversion H. reflexivity.
Qed.

(* ---- keep_list / filter_pep ---- *)
Lemma keep_list_ok : forall o d es k,
  keep_list o d es = Ok k ->
  k = filter (keep_b o d) es /\ (forall e, In e es -> exists b, keep_entry o d e = Ok b).
Proof.
  induction es as [|e es IH]; cbn [keep_list]; intros k H.
  - inversion H. split; [reflexivity|intros ? []].
  - destruct (keep_entry o d e) as [b|] eqn:Ek; cbn [bind] in H; try discriminate.
    destruct (keep_list o d es) as [r|] eqn:Er; cbn [bind] in H; try discriminate.
    inversion H; subst k. destruct (IH r eq_refl) as [Hr Hall]. split.
    + cbn [filter]. unfold keep_b at 1. rewrite Ek. rewrite <- Hr. reflexivity.
    + intros e' [He|He]; [subst; eauto|auto].
Qed.

Lemma keep_list_kept : forall o d k,
  (forall e, In e k -> keep_b o d e = true) -> keep_list o d k = Ok k.
Proof.
  induction k as [|e k IH]; intros H; cbn [keep_list]. reflexivity.
  rewrite (keep_b_ok o d e (H e (or_introl eq_refl))). cbn [bind].
  rewrite IH by (intros; apply H; right; auto). reflexivity.
Qed.

Lemma is_empty_nil : forall {A} (l : list A), is_empty l = true <-> l = [].
Proof. destruct l; cbn; split; intro; try discriminate; reflexivity. Qed.

Lemma filter_pep_pure : forall o p r,
  filter_pep o p = Ok r -> opt_list r = pure_pep o p.
Proof.
  unfold filter_pep, pure_pep. intros o p r H.
  destruct (misc_ok o (fst p)); cbn [negb] in H.
  - destruct (keep_list o (in_denylist o (fst p)) (snd p)) as [k|] eqn:Ek; cbn [bind] in H; try discriminate.
    apply keep_list_ok in Ek. destruct Ek as [Hk _]. subst k. inversion H; subst.
    destruct (is_empty _); reflexivity.
  - inversion H. reflexivity.
Qed.

Lemma filter_pool_char : forall o pool out,
  filter_pool o pool = Ok out -> out = pure_filter o pool.
Proof.
  unfold filter_pool, pure_filter. intros o pool out H.
  destruct (mapM (filter_pep o) (dedup pool)) as [rs|] eqn:Em; cbn [bind] in H; try discriminate.
  inversion H; subst out. apply mapM_ok in Em. clear H.
  induction Em; cbn [flat_map]. reflexivity.
  rewrite IHEm. f_equal. apply filter_pep_pure. assumption.
Qed.

Lemma filter_pool_entries_ok : forall o pool out,
  filter_pool o pool = Ok out ->
  forall s es e, In (s, es) (dedup pool) -> misc_ok o s = true -> In e es ->
  exists b, keep_entry o (in_denylist o s) e = Ok b.
Proof.
  unfold filter_pool. intros o pool out H s es e Hin Hm He.
  destruct (mapM (filter_pep o) (dedup pool)) as [rs|] eqn:Em; cbn [bind] in H; try discriminate.
  apply mapM_ok in Em. clear H.
  induction Em; [destruct Hin|].
  destruct Hin as [Hin|Hin]; [|auto]. subst x.
  unfold filter_pep in H. cbn [fst snd] in H. rewrite Hm in H. cbn [negb] in H.
  destruct (keep_list o (in_denylist o s) es) as [k|] eqn:Ek; cbn [bind] in H; try discriminate.
  apply keep_list_ok in Ek. destruct Ek as [_ Hall]. auto.
Qed.

(* ---- dedup ---- *)
Lemma nodup_seq_filter : forall {A} (f : seq * A -> bool) l, nodup_seq l -> nodup_seq (filter f l).
Proof.
  induction l as [|p l IH]; cbn [filter nodup_seq]; intros H; auto.
  destruct H as [H1 H2]. destruct (f p); cbn [nodup_seq]; auto.
  split; auto. intros q Hq. apply filter_In in Hq. apply H1. tauto.
Qed.

Lemma dedup_nodup : forall {A} (l : list (seq * A)), nodup_seq (dedup l).
Proof.
  induction l as [|p l IH]; cbn [dedup nodup_seq]; auto. split.
  - intros q Hq. apply filter_In in Hq. destruct Hq as [_ Hq]. apply negb_true_iff in Hq. exact Hq.
  - apply nodup_seq_filter. exact IH.
Qed.

Lemma filter_all : forall {A} (f : A -> bool) l, (forall x, In x l -> f x = true) -> filter f l = l.
Proof.
  induction l as [|a l IH]; intros H; cbn [filter]. reflexivity.
  rewrite (H a (or_introl eq_refl)). f_equal. apply IH. intros; apply H; right; auto.
Qed.

Lemma dedup_id : forall {A} (l : list (seq * A)), nodup_seq l -> dedup l = l.
Proof.
  induction l as [|p l IH]; cbn [dedup nodup_seq]; intros H. reflexivity.
  destruct H as [H1 H2]. rewrite IH by exact H2. f_equal.
  apply filter_all. intros q Hq. cbv beta. apply negb_true_iff. apply H1. exact Hq.
Qed.

Lemma dedup_sub : forall {A} (l : list (seq * A)) p, In p (dedup l) -> In p l.
Proof.
  induction l as [|a l IH]; cbn [dedup]; intros p H. exact H.
  destruct H as [H|H]; [left; exact H|]. apply filter_In in H. right. apply IH. tauto.
Qed.

(* first occurrence wins: an element of the input survives iff no earlier element has its sequence *)
Lemma dedup_first : forall {A} (l : list (seq * A)) p,
  In p (dedup l) <->
  exists l1 l2, l = l1 ++ p :: l2 /\ forall q, In q l1 -> eq_seq (fst q) (fst p) = false.
Proof.
  induction l as [|a l IH]; intros p; cbn [dedup].
  - split; [intros []|]. intros [l1 [l2 [H _]]]. destruct l1; discriminate.
  - split.
    + intros [H|H].
      * subst. exists [], l. split; [reflexivity|intros ? []].
      * apply filter_In in H. destruct H as [H Hne]. apply negb_true_iff in Hne.
        apply IH in H. destruct H as [l1 [l2 [Hl Hq]]]. exists (a :: l1), l2. split.
        -- rewrite Hl. reflexivity.
        -- intros q [Hq'|Hq']; [subst q|auto].
           destruct (eq_seq (fst a) (fst p)) eqn:E; auto.
           apply eq_seq_true in E. rewrite E, eq_seq_refl in Hne. discriminate.
    + intros [l1 [l2 [Hl Hq]]]. destruct l1 as [|b l1]; cbn [app] in Hl.
      * inversion Hl. left. reflexivity.
      * inversion Hl; subst b l. right. apply filter_In. split.
        -- apply IH. exists l1, l2. split; auto. intros; apply Hq; right; auto.
        -- apply negb_true_iff. destruct (eq_seq (fst p) (fst a)) eqn:E; auto.
           apply eq_seq_true in E. specialize (Hq a (or_introl eq_refl)). rewrite E, eq_seq_refl in Hq. discriminate.
Qed.

(* ---- pure_filter structure ---- *)
Lemma pure_pep_cases : forall o p,
  pure_pep o p = [] \/
  (misc_ok o (fst p) = true /\ filter (keep_b o (in_denylist o (fst p))) (snd p) <> [] /\
   pure_pep o p = [(fst p, filter (keep_b o (in_denylist o (fst p))) (snd p))]).
Proof.
  intros o p. unfold pure_pep. destruct (misc_ok o (fst p)); auto.
  destruct (filter _ (snd p)) eqn:E; cbn [is_empty]; auto.
  right. repeat split; auto. discriminate.
Qed.

Lemma in_pure_filter : forall o pool s es',
  In (s, es') (pure_filter o pool) <->
  exists es, In (s, es) (dedup pool) /\ misc_ok o s = true /\
             es' = filter (keep_b o (in_denylist o s)) es /\ es' <> [].
Proof.
  intros o pool s es'. unfold pure_filter. rewrite in_flat_map. split.
  - intros [[s0 es] [Hin Hp]]. destruct (pure_pep_cases o (s0, es)) as [H|[Hm [Hn H]]]; rewrite H in Hp.
    + destruct Hp.
    + cbn [fst snd] in *. destruct Hp as [Hp|[]]. inversion Hp; subst. exists es. auto.
  - intros [es [Hin [Hm [He Hn]]]]. exists (s, es). split; auto.
    unfold pure_pep. cbn [fst snd]. rewrite Hm. rewrite <- He.
    destruct es'; [congruence|]. cbn [is_empty]. left. reflexivity.
Qed.

Lemma nodup_seq_flat_map : forall {A B} (g : seq * A -> list (seq * B)) l,
  (forall p q, In q (g p) -> fst q = fst p) ->
  (forall p, g p = [] \/ exists q, g p = [q]) ->
  nodup_seq l -> nodup_seq (flat_map g l).
Proof.
  induction l as [|p l IH]; intros Hf H1 Hn; cbn [flat_map]. exact I.
  destruct Hn as [Hn1 Hn2]. specialize (IH Hf H1 Hn2).
  destruct (H1 p) as [E|[q E]]; rewrite E; cbn [app]; auto.
  cbn [nodup_seq]. split; auto.
  intros q' Hq'. apply in_flat_map in Hq'. destruct Hq' as [p' [Hp' Hq']].
  rewrite (Hf p' q' Hq'). rewrite (Hf p q) by (rewrite E; left; reflexivity). apply Hn1. exact Hp'.
Qed.

Lemma pure_filter_nodup : forall o pool, nodup_seq (pure_filter o pool).
Proof.
  intros. unfold pure_filter. apply nodup_seq_flat_map.
  - intros p q Hq. destruct (pure_pep_cases o p) as [H|[_ [_ H]]]; rewrite H in Hq; [destruct Hq|].
    destruct Hq as [Hq|[]]. subst q. reflexivity.
  - intros p. destruct (pure_pep_cases o p) as [H|[_ [_ H]]]; rewrite H; eauto.
  - apply dedup_nodup.
Qed.

(* ---- theorems ---- *)
Theorem filter_iff_l : forall o pool out,
  filter_pool o pool = Ok out ->
  (forall s es', In (s, es') out <->
     exists es, In (s, es) (dedup pool) /\ misc_ok o s = true /\
                es' = filter (keep_b o (in_denylist o s)) es /\ es' <> []) /\
  (forall s es e, In (s, es) (dedup pool) -> misc_ok o s = true -> In e es ->
     (keep_b o (in_denylist o s) e = true <-> keep_rule o (in_denylist o s) e)).
Proof.
  intros o pool out H. split.
  - intros s es'. rewrite (filter_pool_char _ _ _ H). apply in_pure_filter.
  - intros s es e Hin Hm He.
    destruct (filter_pool_entries_ok _ _ _ H s es e Hin Hm He) as [b Hb].
    unfold keep_b. rewrite Hb. apply keep_entry_rule. exact Hb.
Qed.

Theorem filter_sub_l : forall o pool out,
  filter_pool o pool = Ok out ->
  (forall s es', In (s, es') out -> exists es, In (s, es) pool /\ sublist es' es) /\ nodup_seq out.
Proof.
  intros o pool out H. rewrite (filter_pool_char _ _ _ H). split.
  - intros s es' Hin. apply in_pure_filter in Hin. destruct Hin as [es [Hin [_ [He _]]]].
    exists es. split. apply dedup_sub. exact Hin. subst es'. apply sublist_filter.
  - apply pure_filter_nodup.
Qed.

Theorem filter_idem_l : forall o pool out,
  filter_pool o pool = Ok out -> filter_pool o out = Ok out.
Proof.
  intros o pool out H. pose proof (filter_pool_char _ _ _ H) as Hc.
  assert (Hn : nodup_seq out) by (rewrite Hc; apply pure_filter_nodup).
  unfold filter_pool. rewrite (dedup_id out Hn).
  assert (Hall : forall p, In p out -> filter_pep o p = Ok (Some p)).
  { intros [s k] Hp. rewrite Hc in Hp. apply in_pure_filter in Hp.
    destruct Hp as [es [_ [Hm [Hk Hne]]]].
    unfold filter_pep. cbn [fst snd]. rewrite Hm. cbn [negb].
    rewrite keep_list_kept.
    - cbn [bind]. destruct k; [congruence|reflexivity].
    - intros e He. rewrite Hk in He. apply filter_In in He. tauto. }
  assert (Hm : mapM (filter_pep o) out = Ok (map Some out)).
  { apply mapM_build. clear -Hall. induction out; cbn [map]; constructor.
    apply Hall. left; reflexivity. apply IHout. intros; apply Hall; right; auto. }
  rewrite Hm. cbn [bind]. f_equal. clear. induction out; cbn; congruence.
Qed.

Lemma pure_mono : forall o1 o2 pool,
  (forall s, misc_ok o2 s = true -> misc_ok o1 s = true) ->
  (forall s e, keep_b o2 (in_denylist o2 s) e = true -> keep_b o1 (in_denylist o1 s) e = true) ->
  sub_pool (pure_filter o2 pool) (pure_filter o1 pool).
Proof.
  intros o1 o2 pool Hm Hk s es2 Hin. apply in_pure_filter in Hin.
  destruct Hin as [es [Hin [Hm2 [He Hne]]]].
  exists (filter (keep_b o1 (in_denylist o1 s)) es). split.
  - apply in_pure_filter. exists es. repeat split; auto.
    apply (filter_nonempty_mono (keep_b o2 (in_denylist o2 s))); [intros; apply Hk; auto|congruence].
  - subst es2. apply sublist_filter2. intros; apply Hk; auto.
Qed.

Lemma all_expr_mono : forall rows c1 c2 txs, c1 <= c2 ->
  all_expr rows (Some c2) txs = Ok true -> all_expr rows (Some c1) txs = Ok true.
Proof.
  intros rows c1 c2 txs Hc H. apply all_expr_true. intros tx Htx.
  destruct (proj1 (all_expr_true _ _ _) H tx Htx) as [v [c [H1 [H2 H3]]]].
  inversion H2; subst c. exists v, c1. split; [exact H1|split; [reflexivity|lia]].
Qed.

Lemma keep_b_mono_cutoff : forall o c1 c2 d e, c1 <= c2 ->
  keep_b (with_cutoff o (Some c2)) d e = true -> keep_b (with_cutoff o (Some c1)) d e = true.
Proof.
  intros o c1 c2 d e Hc H. apply keep_b_ok in H. unfold keep_b.
  unfold keep_entry in *. unfold is_canonical, all_noncoding, all_coding, with_cutoff in *. cbn [o_coding o_keep_canon o_kan o_kac o_exprs o_cutoff] in *.
  destruct (if e_circ e then Ok false else match e_txs e with [] => Err EIndex | t0 :: _ => Ok (mem_seq t0 (o_coding o)) end) as [canon|];
    cbn [bind] in *; try discriminate.
  destruct (d && negb (o_keep_canon o && canon)); try discriminate.
  destruct (o_kan o && _); auto.
  destruct (o_kac o && _); auto.
  destruct (o_exprs o); auto.
  destruct (e_fusion e || e_circ e || e_splice e); auto.
  rewrite (all_expr_mono _ c1 c2 _ Hc H). reflexivity.
Qed.

Theorem filter_mono_cutoff_l : forall o c1 c2 pool out1 out2, c1 <= c2 ->
  filter_pool (with_cutoff o (Some c1)) pool = Ok out1 ->
  filter_pool (with_cutoff o (Some c2)) pool = Ok out2 ->
  sub_pool out2 out1.
Proof.
  intros o c1 c2 pool out1 out2 Hc H1 H2.
  rewrite (filter_pool_char _ _ _ H1), (filter_pool_char _ _ _ H2).
  apply pure_mono.
  - intros s H. exact H.
  - intros s e H. apply (keep_b_mono_cutoff o c1 c2); auto.
Qed.

Lemma misc_ok_narrow : forall o lo1 hi1 lo2 hi2 s, narrower lo1 hi1 lo2 hi2 ->
  misc_ok (with_misc o lo2 hi2) s = true -> misc_ok (with_misc o lo1 hi1) s = true.
Proof.
  unfold narrower, misc_ok, misc_count, with_misc. cbn [o_lo o_hi o_rule o_exc].
  intros o lo1 hi1 lo2 hi2 s [Hl Hh] H.
  set (n := Z.of_nat (length (sites (o_rule o) (o_exc o) s))) in *.
  destruct lo1 as [a1|], hi1 as [b1|], lo2 as [a2|], hi2 as [b2|]; try contradiction; try reflexivity; try lia.
Qed.

Theorem filter_mono_misc_l : forall o lo1 hi1 lo2 hi2 pool out1 out2, narrower lo1 hi1 lo2 hi2 ->
  filter_pool (with_misc o lo1 hi1) pool = Ok out1 ->
  filter_pool (with_misc o lo2 hi2) pool = Ok out2 ->
  sub_pool out2 out1.
Proof.
  intros o lo1 hi1 lo2 hi2 pool out1 out2 Hn H1 H2.
  rewrite (filter_pool_char _ _ _ H1), (filter_pool_char _ _ _ H2).
  apply pure_mono.
  - intros s H. eapply misc_ok_narrow; eauto.
  - intros s e H. exact H.
Qed.

(* ---- concrete layer refines the abstract one when every header parses ---- *)
Lemma keep_list_c_refines : forall o d ids es,
  mapM entry_facts ids = Ok es ->
  keep_list_c o d ids = match keep_list o d es with Ok k => Ok (map e_label k) | Err e => Err e end.
Proof.
  induction ids as [|i ids IH]; cbn [mapM keep_list_c]; intros es H.
  - inversion H. reflexivity.
  - destruct (entry_facts i) as [e|] eqn:Ef; cbn [bind] in *; try discriminate.
    destruct (mapM entry_facts ids) as [es'|] eqn:Em; cbn [bind] in H; try discriminate.
    inversion H; subst es. cbn [keep_list].
    destruct (keep_entry o d e) as [b|]; cbn [bind]; auto.
    rewrite (IH es' eq_refl). destruct (keep_list o d es') as [k|]; cbn [bind]; auto.
    destruct b; reflexivity.
Qed.

Theorem filter_pep_c_refines : forall o s hdr ids es,
  parse_label hdr = Ok ids -> mapM entry_facts ids = Ok es ->
  filter_pep_c o (s, hdr) =
  match filter_pep o (s, es) with
  | Ok r => Ok (option_map (fun p => (fst p, map e_label (snd p))) r)
  | Err e => Err e
  end.
Proof.
  intros o s hdr ids es Hp Hf. unfold filter_pep_c, filter_pep. cbn [fst snd].
  destruct (misc_ok o s); cbn [negb]; [|reflexivity].
  rewrite Hp. cbn [bind]. rewrite (keep_list_c_refines o _ ids es Hf).
  destruct (keep_list o (in_denylist o s) es) as [k|]; cbn [bind]; auto.
  destruct k; reflexivity.
Qed.
