(* Proofs about the record order / identity model (Model/VarRecord.v).  Stated in Props/C06.v. *)
From Coq Require Import ZArith List Bool Lia ZifyBool Permutation.
From MoPep Require Import Model.Base Model.VarRecord.
Import ListNotations.
Open Scope Z_scope.

(* ------------------------------------------------------------------ strings *)
Lemma vr_eq_seq_iff : forall a b, eq_seq a b = true <-> a = b.
Proof.
  induction a as [|x a IH]; destruct b as [|y b]; cbn [eq_seq]; split; intro H;
    try reflexivity; try discriminate.
  - apply andb_true_iff in H. destruct H as [H1 H2]. apply Z.eqb_eq in H1. apply IH in H2.
    subst. reflexivity.
  - inversion H; subst. rewrite Z.eqb_refl. cbn [andb]. apply IH. reflexivity.
Qed.

Lemma vr_eq_seq_refl : forall a, eq_seq a a = true.
Proof. intro a. apply vr_eq_seq_iff. reflexivity. Qed.

Lemma vr_eq_seq_sym : forall a b, eq_seq a b = eq_seq b a.
Proof.
  intros a b. destruct (eq_seq a b) eqn:E.
  - apply vr_eq_seq_iff in E. subst. symmetry. apply vr_eq_seq_refl.
  - destruct (eq_seq b a) eqn:F; [|reflexivity]. apply vr_eq_seq_iff in F. subst.
    rewrite vr_eq_seq_refl in E. discriminate.
Qed.

Lemma str_ltb_irrefl : forall a, str_ltb a a = false.
Proof.
  induction a as [|x a IH]; cbn [str_ltb]; [reflexivity|]. rewrite Z.ltb_irrefl. exact IH.
Qed.

Lemma str_ltb_total : forall a b, str_ltb a b = false -> str_ltb b a = false -> a = b.
Proof.
  induction a as [|x a IH]; destruct b as [|y b]; cbn [str_ltb]; try reflexivity; try discriminate.
  destruct (x <? y) eqn:E1; destruct (y <? x) eqn:E2; intros H1 H2; try discriminate.
  assert (Hxy : x = y) by lia. subst y. f_equal. apply IH; assumption.
Qed.

Lemma str_ltb_trans : forall a b c, str_ltb a b = true -> str_ltb b c = true -> str_ltb a c = true.
Proof.
  induction a as [|x a IH]; destruct b as [|y b]; destruct c as [|z c]; cbn [str_ltb];
    try discriminate; try (intros; reflexivity).
  destruct (x <? y) eqn:E1; destruct (y <? x) eqn:E2; destruct (y <? z) eqn:E3; destruct (z <? y) eqn:E4;
    destruct (x <? z) eqn:E5; destruct (z <? x) eqn:E6; intros H1 H2;
    try discriminate; try reflexivity; try (exfalso; lia).
  eapply IH; eassumption.
Qed.

(* ------------------------------------------------------------------ strict total orders, generically *)
Section StrictTotal.
  Variable T : Type.
  Variable ltb : T -> T -> bool.
  Hypothesis irrefl : forall a, ltb a a = false.
  Hypothesis trans : forall a b c, ltb a b = true -> ltb b c = true -> ltb a c = true.
  Hypothesis total : forall a b, ltb a b = false -> ltb b a = false -> a = b.

  Lemma sto_asym : forall a b, ltb a b = true -> ltb b a = false.
  Proof.
    intros a b H. destruct (ltb b a) eqn:E; [|reflexivity].
    pose proof (trans a b a H E) as K. rewrite irrefl in K. discriminate.
  Qed.

  (* a <= b <= c <= a  ->  all equal *)
  Lemma sto_le_cycle3 : forall a b c,
    ltb b a = false -> ltb c b = false -> ltb a c = false -> a = b /\ b = c.
  Proof.
    intros a b c H1 H2 H3. destruct (ltb a b) eqn:E.
    - destruct (ltb b c) eqn:F.
      + pose proof (trans a b c E F) as K. rewrite K in H3. discriminate.
      + pose proof (total b c F H2) as K. subst c. rewrite E in H3. discriminate.
    - pose proof (total a b E H1) as K. subst b. split; [reflexivity|].
      apply total; assumption.
  Qed.

  Lemma sto_lt_cycle3 : forall a b c, ltb a b = true -> ltb b c = true -> ltb c a = true -> False.
  Proof.
    intros a b c H1 H2 H3. pose proof (trans a b c H1 H2) as K. pose proof (trans a c a K H3) as K2.
    rewrite irrefl in K2. discriminate.
  Qed.
End StrictTotal.

(* ------------------------------------------------------------------ locations *)
Lemma strand_eqb_iff : forall a b, strand_eqb a b = true <-> a = b.
Proof. intros a b; destruct a; destruct b; cbn; split; intro H; try reflexivity; discriminate. Qed.

Lemma loc_eqb_iff : forall a b, loc_eqb a b = true <-> a = b.
Proof.
  intros [s1 e1 t1] [s2 e2 t2]. unfold loc_eqb. cbn [l_start l_end l_strand]. split; intro H.
  - apply andb_true_iff in H. destruct H as [H H3]. apply andb_true_iff in H. destruct H as [H1 H2].
    apply Z.eqb_eq in H1. apply Z.eqb_eq in H2. apply strand_eqb_iff in H3. subst. reflexivity.
  - inversion H; subst. rewrite !Z.eqb_refl. cbn [andb]. apply strand_eqb_iff. reflexivity.
Qed.

Lemma loc_eqb_refl : forall a, loc_eqb a a = true.
Proof. intro a. apply loc_eqb_iff. reflexivity. Qed.

Definition loc_ltb (a b : loc) : bool := loc_gtb b a.

Lemma loc_ltb_irrefl : forall a, loc_ltb a a = false.
Proof.
  intros [s e t]. unfold loc_ltb, loc_gtb. cbn [l_start l_end l_strand].
  destruct (s >? s) eqn:E1; [exfalso; lia|]. rewrite Z.eqb_refl.
  destruct (strand_level t >? strand_level t) eqn:E2; [exfalso; lia|].
  destruct (e >? e) eqn:E3; [exfalso; lia|]. rewrite andb_false_r. reflexivity.
Qed.

Lemma loc_gtb_irrefl : forall a, loc_gtb a a = false.
Proof. exact loc_ltb_irrefl. Qed.

Lemma loc_gtb_spec : forall a b, loc_gtb a b = true <->
  (l_start a > l_start b \/
   (l_start a = l_start b /\ (strand_level (l_strand a) > strand_level (l_strand b) \/
      (strand_level (l_strand a) = strand_level (l_strand b) /\ l_end a > l_end b)))).
Proof.
  intros a b. unfold loc_gtb.
  destruct (l_start a >? l_start b) eqn:E1.
  { split; intro; [left; lia | reflexivity]. }
  destruct (l_start a =? l_start b) eqn:E2.
  2:{ split; intro H; [discriminate | exfalso; lia]. }
  destruct (strand_level (l_strand a) >? strand_level (l_strand b)) eqn:E3.
  { split; intro; [right; split; [lia | left; lia] | reflexivity]. }
  destruct ((strand_level (l_strand a) =? strand_level (l_strand b)) && (l_end a >? l_end b)) eqn:E4.
  { split; intro; [right; split; [lia | right; lia] | reflexivity]. }
  split; intro H; [discriminate | exfalso; lia].
Qed.

Lemma strand_level_inj : forall s t, strand_level s = strand_level t -> s = t.
Proof. intros s t; destruct s; destruct t; cbn; intro H; try reflexivity; discriminate. Qed.

Lemma loc_ltb_trans : forall a b c, loc_ltb a b = true -> loc_ltb b c = true -> loc_ltb a c = true.
Proof.
  unfold loc_ltb. intros a b c H1 H2. apply loc_gtb_spec in H1. apply loc_gtb_spec in H2.
  apply loc_gtb_spec. lia.
Qed.

Lemma loc_ltb_total : forall a b, loc_ltb a b = false -> loc_ltb b a = false -> a = b.
Proof.
  unfold loc_ltb. intros a b H1 H2.
  assert (N1 : ~ (l_start b > l_start a \/
   (l_start b = l_start a /\ (strand_level (l_strand b) > strand_level (l_strand a) \/
      (strand_level (l_strand b) = strand_level (l_strand a) /\ l_end b > l_end a))))).
  { intro K. apply loc_gtb_spec in K. rewrite K in H1. discriminate. }
  assert (N2 : ~ (l_start a > l_start b \/
   (l_start a = l_start b /\ (strand_level (l_strand a) > strand_level (l_strand b) \/
      (strand_level (l_strand a) = strand_level (l_strand b) /\ l_end a > l_end b))))).
  { intro K. apply loc_gtb_spec in K. rewrite K in H2. discriminate. }
  assert (Hs : l_start a = l_start b) by lia.
  assert (Hl : strand_level (l_strand a) = strand_level (l_strand b)) by lia.
  assert (He : l_end a = l_end b) by lia.
  apply strand_level_inj in Hl. destruct a as [s1 e1 t1]; destruct b as [s2 e2 t2].
  cbn [l_start l_end l_strand] in *. subst. reflexivity.
Qed.

(* ------------------------------------------------------------------ VariantRecord.__eq__ *)
Lemma vr_eq_spec : forall a b, vr_eq a b = true <->
  (v_loc a = v_loc b /\ v_ref a = v_ref b /\ v_alt a = v_alt b /\ v_type a = v_type b).
Proof.
  intros a b. unfold vr_eq. rewrite !andb_true_iff, loc_eqb_iff, !vr_eq_seq_iff. tauto.
Qed.

Lemma vr_eq_refl_l : forall a, vr_eq a a = true.
Proof. intro a. apply vr_eq_spec. repeat split. Qed.

Lemma vr_eq_sym_l : forall a b, vr_eq a b = true -> vr_eq b a = true.
Proof.
  intros a b H. apply vr_eq_spec in H. apply vr_eq_spec.
  destruct H as [H1 [H2 [H3 H4]]]. repeat split; symmetry; assumption.
Qed.

Lemma vr_eq_trans_l : forall a b c, vr_eq a b = true -> vr_eq b c = true -> vr_eq a c = true.
Proof.
  intros a b c H K. apply vr_eq_spec in H. apply vr_eq_spec in K. apply vr_eq_spec.
  destruct H as [H1 [H2 [H3 H4]]]. destruct K as [K1 [K2 [K3 K4]]].
  repeat split; etransitivity; eassumption.
Qed.

Lemma vr_eq_equivalence_l :
  (forall a, vr_eq a a = true) /\ (forall a b, vr_eq a b = true -> vr_eq b a = true) /\
  (forall a b c, vr_eq a b = true -> vr_eq b c = true -> vr_eq a c = true).
Proof. split; [exact vr_eq_refl_l | split; [exact vr_eq_sym_l | exact vr_eq_trans_l]]. Qed.

Lemma vr_eq_symb : forall a b, vr_eq a b = vr_eq b a.
Proof.
  intros a b. destruct (vr_eq a b) eqn:E.
  - symmetry. apply vr_eq_sym_l. exact E.
  - destruct (vr_eq b a) eqn:F; [|reflexivity]. apply vr_eq_sym_l in F. rewrite F in E. discriminate.
Qed.

(* ------------------------------------------------------------------ __hash__ vs __eq__ *)
(* equal hashed tuples -> `==`, PROVIDED the strand agrees: __eq__ compares location.strand, __hash__ does not *)
Lemma hash_key_eq_l : forall a b, hash_key a = hash_key b -> l_strand (v_loc a) = l_strand (v_loc b) ->
  vr_eq a b = true.
Proof.
  intros a b H Hs. unfold hash_key in H. inversion H as [[H1 H2 H3 H4 H5]].
  apply vr_eq_spec. repeat split; try assumption.
  destruct (v_loc a) as [s1 e1 t1]; destruct (v_loc b) as [s2 e2 t2]. cbn [l_start l_end l_strand] in *.
  subst. reflexivity.
Qed.

Definition w_loc := mkLoc 10 11 SNone.
Definition chr (c : Z) : seq := [c].
(* 'C' = 67, 'A' = 65, 'G' = 71; "SNV" = 83 78 86; "INDEL" = 73 78 68 69 76; "RNAEditingSite" starts with 82 *)
Definition w_snv : vrec := mkV w_loc [67] [65] [83; 78; 86] [] [1].                      (* SNV    C>A  *)
Definition w_ins : vrec := mkV w_loc [67] [67; 71] [73; 78; 68; 69; 76] [] [2].           (* INDEL  C>CG *)
Definition w_ins2 : vrec := mkV w_loc [67] [67; 65] [73; 78; 68; 69; 76] [] [3].          (* INDEL  C>CA *)

(* without the guard: same hashed tuple, strands differ, not `==` (Python's contract is the other
   direction; this one only says that the set may hold both) *)
Lemma hash_key_eq_unguarded_refuted_l : exists a b, hash_key a = hash_key b /\ vr_eq a b = false.
Proof.
  exists w_snv, (mkV (mkLoc 10 11 SPlus) [67] [65] [83; 78; 86] [] [1]). vm_compute. split; reflexivity.
Qed.

(* the direction Python's data model REQUIRES (a == b -> hash(a) == hash(b)) fails: the hash reads 11 attributes
   that __eq__ ignores *)
Lemma eq_hash_consistent_refuted_l : exists a b, vr_eq a b = true /\ hash_key a <> hash_key b.
Proof.
  exists w_snv, (mkV w_loc [67] [65] [83; 78; 86] [Some [49]] [1]). split; [vm_compute; reflexivity|].
  vm_compute. intro H. discriminate.
Qed.

(* ... and holds exactly when the 11 hashed attribute values agree *)
Lemma eq_hash_consistent_guarded_l : forall a b, vr_eq a b = true ->
  (forall k, (k < 11)%nat -> attr a k = attr b k) -> hash_key a = hash_key b.
Proof.
  intros a b H G. apply vr_eq_spec in H. destruct H as [H1 [H2 [H3 H4]]]. unfold hash_key.
  rewrite H1, H2, H3, H4.
  rewrite (G 0%nat), (G 1%nat), (G 2%nat), (G 3%nat), (G 4%nat), (G 5%nat), (G 6%nat), (G 7%nat),
          (G 8%nat), (G 9%nat), (G 10%nat) by lia.
  reflexivity.
Qed.

(* ------------------------------------------------------------------ __gt__ *)
Lemma gt_not_antisymmetric_refuted_l : exists a b, vr_gt a b = true /\ vr_gt b a = true /\ vr_eq a b = false.
Proof. exists w_snv, w_ins. vm_compute. repeat split. Qed.

Lemma vr_gt_same_loc : forall x y, v_loc x = v_loc y ->
  vr_gt x y = (str_gtb (v_alt x) (v_alt y) || (eq_seq (v_ref x) (v_ref y) && str_gtb (v_type x) (v_type y))).
Proof.
  intros x y H. unfold vr_gt. rewrite H, loc_gtb_irrefl, loc_eqb_refl.
  destruct (str_gtb (v_alt x) (v_alt y)); cbn [orb]; [reflexivity|].
  destruct (eq_seq (v_ref x) (v_ref y)); reflexivity.
Qed.

Lemma vr_gt_loc_false : forall x y, vr_gt x y = false -> loc_gtb (v_loc x) (v_loc y) = false.
Proof.
  intros x y. unfold vr_gt. destruct (loc_gtb (v_loc x) (v_loc y)); [discriminate | reflexivity].
Qed.

Lemma vr_gt_loc_ge : forall x y, vr_gt x y = true -> loc_gtb (v_loc y) (v_loc x) = false.
Proof.
  intros x y. unfold vr_gt. destruct (loc_gtb (v_loc x) (v_loc y)) eqn:E.
  - intros _. exact (sto_asym loc loc_ltb loc_ltb_irrefl loc_ltb_trans (v_loc y) (v_loc x) E).
  - destruct (loc_eqb (v_loc x) (v_loc y)) eqn:F; [|discriminate].
    apply loc_eqb_iff in F. rewrite F. intros _. apply loc_gtb_irrefl.
Qed.

(* no 3-cycle of one-directional `>` *)
Lemma vr_gt_cycle : forall a b c,
  vr_gt b a = true -> vr_gt c b = true -> vr_gt a c = true ->
  vr_gt a b = false -> vr_gt b c = false -> vr_gt c a = false -> False.
Proof.
  intros a b c H1 H2 H3 N1 N2 N3.
  assert (Hl : v_loc a = v_loc b /\ v_loc b = v_loc c).
  { apply (sto_le_cycle3 loc loc_ltb loc_ltb_trans loc_ltb_total); unfold loc_ltb.
    - apply vr_gt_loc_false. exact N1.
    - apply vr_gt_loc_false. exact N2.
    - apply vr_gt_loc_false. exact N3. }
  destruct Hl as [Lab Lbc].
  assert (Lba : v_loc b = v_loc a) by (symmetry; exact Lab).
  assert (Lcb : v_loc c = v_loc b) by (symmetry; exact Lbc).
  assert (Lac : v_loc a = v_loc c) by (etransitivity; eassumption).
  assert (Lca : v_loc c = v_loc a) by (symmetry; exact Lac).
  rewrite (vr_gt_same_loc b a Lba) in H1. rewrite (vr_gt_same_loc c b Lcb) in H2.
  rewrite (vr_gt_same_loc a c Lac) in H3. rewrite (vr_gt_same_loc a b Lab) in N1.
  rewrite (vr_gt_same_loc b c Lbc) in N2. rewrite (vr_gt_same_loc c a Lca) in N3.
  apply orb_false_iff in N1. destruct N1 as [A1 B1].
  apply orb_false_iff in N2. destruct N2 as [A2 B2].
  apply orb_false_iff in N3. destruct N3 as [A3 B3].
  unfold str_gtb in *.
  assert (Ha : v_alt a = v_alt b /\ v_alt b = v_alt c).
  { apply (sto_le_cycle3 seq str_ltb str_ltb_trans str_ltb_total); assumption. }
  destruct Ha as [Aab Abc].
  rewrite Aab, Abc in H1. rewrite Abc in H2. rewrite Aab, Abc in H3.
  rewrite str_ltb_irrefl in H1, H2, H3. cbn [orb] in H1, H2, H3.
  apply andb_true_iff in H1. destruct H1 as [_ T1].
  apply andb_true_iff in H2. destruct H2 as [_ T2].
  apply andb_true_iff in H3. destruct H3 as [_ T3].
  exact (sto_lt_cycle3 seq str_ltb str_ltb_irrefl str_ltb_trans _ _ _ T1 T2 T3).
Qed.

(* exactly which pairs are `>` in both directions *)
Lemma gt_conflict_iff_l : forall a b, gt_conflict a b = true <->
  (v_loc a = v_loc b /\ v_ref a = v_ref b /\
   ((str_gtb (v_alt a) (v_alt b) = true /\ str_gtb (v_type b) (v_type a) = true) \/
    (str_gtb (v_alt b) (v_alt a) = true /\ str_gtb (v_type a) (v_type b) = true))).
Proof.
  intros a b. unfold gt_conflict. rewrite andb_true_iff. split.
  - intros [H1 H2].
    assert (L : v_loc a = v_loc b).
    { apply loc_ltb_total; unfold loc_ltb.
      - apply vr_gt_loc_ge. exact H1.
      - apply vr_gt_loc_ge. exact H2. }
    assert (L' : v_loc b = v_loc a) by (symmetry; exact L).
    rewrite (vr_gt_same_loc a b L) in H1. rewrite (vr_gt_same_loc b a L') in H2.
    split; [exact L|]. unfold str_gtb in *.
    destruct (str_ltb (v_alt b) (v_alt a)) eqn:A1; destruct (str_ltb (v_alt a) (v_alt b)) eqn:A2;
      cbn [orb] in H1, H2.
    + exfalso. rewrite (sto_asym seq str_ltb str_ltb_irrefl str_ltb_trans _ _ A1) in A2. discriminate.
    + apply andb_true_iff in H2. destruct H2 as [R T]. apply vr_eq_seq_iff in R.
      split; [symmetry; exact R|]. left. split; [reflexivity | exact T].
    + apply andb_true_iff in H1. destruct H1 as [R T]. apply vr_eq_seq_iff in R.
      split; [exact R|]. right. split; [reflexivity | exact T].
    + exfalso. apply andb_true_iff in H1. destruct H1 as [_ T1].
      apply andb_true_iff in H2. destruct H2 as [_ T2].
      rewrite (sto_asym seq str_ltb str_ltb_irrefl str_ltb_trans _ _ T1) in T2. discriminate.
  - intros [L [R [[A T] | [A T]]]].
    + assert (L' : v_loc b = v_loc a) by (symmetry; exact L).
      rewrite (vr_gt_same_loc a b L), (vr_gt_same_loc b a L'), A, T, R, vr_eq_seq_refl.
      cbn [orb andb]. rewrite orb_true_r. split; reflexivity.
    + assert (L' : v_loc b = v_loc a) by (symmetry; exact L).
      rewrite (vr_gt_same_loc a b L), (vr_gt_same_loc b a L'), A, T, R, vr_eq_seq_refl.
      cbn [orb andb]. rewrite orb_true_r. split; reflexivity.
Qed.

(* ------------------------------------------------------------------ identical records *)
Lemma opt_seq_eqb_iff : forall a b, opt_seq_eqb a b = true <-> a = b.
Proof.
  intros [x|] [y|]; cbn [opt_seq_eqb]; split; intro H; try reflexivity; try discriminate.
  - apply vr_eq_seq_iff in H. subst. reflexivity.
  - inversion H; subst. apply vr_eq_seq_refl.
Qed.

Lemma attrs_eqb_iff : forall a b, attrs_eqb a b = true <-> a = b.
Proof.
  induction a as [|x a IH]; destruct b as [|y b]; cbn [attrs_eqb]; split; intro H;
    try reflexivity; try discriminate.
  - apply andb_true_iff in H. destruct H as [H1 H2]. apply opt_seq_eqb_iff in H1. apply IH in H2.
    subst. reflexivity.
  - inversion H; subst. apply andb_true_iff. split; [apply opt_seq_eqb_iff | apply IH]; reflexivity.
Qed.

Lemma rec_eqb_iff : forall a b, rec_eqb a b = true <-> a = b.
Proof.
  intros [l1 r1 a1 t1 at1 i1] [l2 r2 a2 t2 at2 i2]. unfold rec_eqb.
  cbn [v_loc v_ref v_alt v_type v_attrs v_id].
  rewrite !andb_true_iff, loc_eqb_iff, !vr_eq_seq_iff, attrs_eqb_iff. split.
  - intros [[[[[H1 H2] H3] H4] H5] H6]. subst. reflexivity.
  - intro H. inversion H; subst. repeat split.
Qed.

Lemma rec_eqb_refl : forall a, rec_eqb a a = true.
Proof. intro a. apply rec_eqb_iff. reflexivity. Qed.

(* ------------------------------------------------------------------ `<` *)
Lemma vr_gt_irrefl : forall a, vr_gt a a = false.
Proof.
  intro a. rewrite (vr_gt_same_loc a a eq_refl). unfold str_gtb. rewrite !str_ltb_irrefl.
  rewrite andb_false_r. reflexivity.
Qed.

Lemma vr_lt_irrefl : forall a, vr_lt a a = false.
Proof. intro a. unfold vr_lt, vr_ge. rewrite vr_eq_refl_l. reflexivity. Qed.

Lemma lt_one_way : forall a b, vr_lt a b = true -> vr_lt b a = false ->
  vr_gt b a = true /\ vr_gt a b = false.
Proof.
  unfold vr_lt, vr_ge. intros a b H1 H2.
  apply negb_true_iff in H1. apply orb_false_iff in H1. destruct H1 as [E G].
  apply negb_false_iff in H2. rewrite vr_eq_symb, E in H2. cbn [orb] in H2. split; assumption.
Qed.

(* the semantic form of conflict_free *)
Definition CF (l : list vrec) : Prop :=
  forall a b, In a l -> In b l -> a <> b -> xorb (vr_lt a b) (vr_lt b a) = true.

Lemma pair_ok_sym : forall a b, pair_ok a b = pair_ok b a.
Proof.
  intros a b. unfold pair_ok. rewrite (xorb_comm (vr_lt a b)). f_equal.
  destruct (rec_eqb a b) eqn:E.
  - apply rec_eqb_iff in E. subst. symmetry. apply rec_eqb_refl.
  - destruct (rec_eqb b a) eqn:F; [|reflexivity]. apply rec_eqb_iff in F. subst.
    rewrite rec_eqb_refl in E. discriminate.
Qed.

Lemma pair_ok_xor : forall a b, pair_ok a b = true -> a <> b -> xorb (vr_lt a b) (vr_lt b a) = true.
Proof.
  unfold pair_ok. intros a b H N. apply orb_true_iff in H. destruct H as [H|H]; [|exact H].
  apply rec_eqb_iff in H. contradiction.
Qed.

Lemma conflict_free_CF : forall l, conflict_free l = true -> CF l.
Proof.
  induction l as [|x t IH]; intros H a b Ia Ib N; [contradiction|].
  cbn [conflict_free] in H. apply andb_true_iff in H. destruct H as [H1 H2].
  rewrite forallb_forall in H1. destruct Ia as [Ia|Ia]; destruct Ib as [Ib|Ib].
  - subst. contradiction.
  - subst a. apply pair_ok_xor; [apply H1; exact Ib | exact N].
  - subst b. apply pair_ok_xor; [rewrite pair_ok_sym; apply H1; exact Ia | exact N].
  - apply (IH H2); assumption.
Qed.

Lemma CF_conflict_free : forall l, CF l -> conflict_free l = true.
Proof.
  induction l as [|x t IH]; intro H; [reflexivity|]. cbn [conflict_free]. apply andb_true_iff. split.
  - apply forallb_forall. intros y Iy. unfold pair_ok. destruct (rec_eqb x y) eqn:E; [reflexivity|].
    cbn [orb]. apply H; [left; reflexivity | right; exact Iy|].
    intro K. subst. rewrite rec_eqb_refl in E. discriminate.
  - apply IH. intros a b Ia Ib N. apply H; [right; exact Ia | right; exact Ib | exact N].
Qed.

Lemma CF_incl : forall l l', CF l -> incl l' l -> CF l'.
Proof. intros l l' H I a b Ia Ib N. apply H; [apply I; exact Ia | apply I; exact Ib | exact N]. Qed.

Lemma CF_perm : forall l l', Permutation l l' -> CF l -> CF l'.
Proof.
  intros l l' P H. apply (CF_incl l); [exact H|]. intros x Ix.
  apply (Permutation_in x (Permutation_sym P)). exact Ix.
Qed.

Lemma vr_eq_dec : forall a b : vrec, {a = b} + {a <> b}.
Proof.
  intros a b. destruct (rec_eqb a b) eqn:E.
  - left. apply rec_eqb_iff. exact E.
  - right. intro K. subst. rewrite rec_eqb_refl in E. discriminate.
Qed.

(* `<` is transitive on records that are pairwise conflict free *)
Lemma vr_lt_trans_cf : forall a b c,
  (a <> b -> xorb (vr_lt a b) (vr_lt b a) = true) ->
  (b <> c -> xorb (vr_lt b c) (vr_lt c b) = true) ->
  (a <> c -> xorb (vr_lt a c) (vr_lt c a) = true) ->
  vr_lt a b = true -> vr_lt b c = true -> vr_lt a c = true.
Proof.
  intros a b c X1 X2 X3 H1 H2.
  destruct (vr_eq_dec a b) as [Eab|Nab]; [subst; exact H2|].
  destruct (vr_eq_dec b c) as [Ebc|Nbc]; [subst; exact H1|].
  destruct (vr_eq_dec a c) as [Eac|Nac].
  { subst c. specialize (X1 Nab). rewrite H1, H2 in X1. discriminate. }
  specialize (X1 Nab). specialize (X2 Nbc). specialize (X3 Nac).
  rewrite H1 in X1. rewrite H2 in X2. cbn [xorb] in X1, X2.
  apply negb_true_iff in X1. apply negb_true_iff in X2.
  destruct (vr_lt a c) eqn:E; [reflexivity|]. rewrite xorb_false_l in X3.
  exfalso.
  destruct (lt_one_way a b H1 X1) as [G1 K1].
  destruct (lt_one_way b c H2 X2) as [G2 K2].
  destruct (lt_one_way c a X3 E) as [G3 K3].
  exact (vr_gt_cycle a b c G1 G2 G3 K1 K2 K3).
Qed.

(* ------------------------------------------------------------------ insertion sort *)
Lemma insert_perm : forall x l, Permutation (x :: l) (insert x l).
Proof.
  intros x l. induction l as [|y t IH]; cbn [insert]; [apply Permutation_refl|].
  destruct (vr_lt x y); [apply Permutation_refl|].
  eapply Permutation_trans; [apply perm_swap|]. apply perm_skip. exact IH.
Qed.

Lemma fold_insert_perm : forall l acc, Permutation (l ++ acc) (fold_left (fun a x => insert x a) l acc).
Proof.
  induction l as [|x t IH]; intro acc; cbn [fold_left app]; [apply Permutation_refl|].
  eapply Permutation_trans; [|apply IH].
  eapply Permutation_trans; [apply Permutation_middle|].
  apply Permutation_app_head. apply insert_perm.
Qed.

Lemma sorted_perm_l : forall l, Permutation l (sorted l).
Proof.
  intro l. unfold sorted. pose proof (fold_insert_perm l []) as H. rewrite app_nil_r in H. exact H.
Qed.

Lemma lt_sorted_cons : forall a t, lt_sorted (a :: t) = true <->
  ((forall b, In b t -> vr_lt b a = false) /\ lt_sorted t = true).
Proof.
  intros a t. cbn [lt_sorted]. rewrite andb_true_iff, forallb_forall. split.
  - intros [H1 H2]. split; [|exact H2]. intros b Ib. apply negb_true_iff. apply H1. exact Ib.
  - intros [H1 H2]. split; [|exact H2]. intros b Ib. apply negb_true_iff. apply H1. exact Ib.
Qed.

Lemma insert_sorted : forall x l, CF (x :: l) -> lt_sorted l = true -> lt_sorted (insert x l) = true.
Proof.
  intros x l. induction l as [|y t IH]; intros C S.
  - reflexivity.
  - cbn [insert]. apply lt_sorted_cons in S. destruct S as [S1 S2].
    destruct (vr_lt x y) eqn:E.
    + apply lt_sorted_cons. split; [|apply lt_sorted_cons; split; assumption].
      intros z [Iz|Iz].
      * subst z. destruct (vr_eq_dec x y) as [K|K]; [subst; apply vr_lt_irrefl|].
        assert (X : xorb (vr_lt x y) (vr_lt y x) = true).
        { apply C; [left; reflexivity | right; left; reflexivity | exact K]. }
        rewrite E in X. cbn [xorb] in X. apply negb_true_iff in X. exact X.
      * destruct (vr_lt z x) eqn:F; [|reflexivity]. exfalso.
        assert (T : vr_lt z y = true).
        { apply (vr_lt_trans_cf z x y); try assumption; intro N; apply C; try exact N.
          - right; right; exact Iz.
          - left; reflexivity.
          - left; reflexivity.
          - right; left; reflexivity.
          - right; right; exact Iz.
          - right; left; reflexivity. }
        rewrite (S1 z Iz) in T. discriminate.
    + apply lt_sorted_cons. split.
      * intros z Iz. apply (Permutation_in z (Permutation_sym (insert_perm x t))) in Iz.
        destruct Iz as [Iz|Iz]; [subst; exact E | apply S1; exact Iz].
      * apply IH; [|exact S2]. apply (CF_incl (x :: y :: t)); [exact C|].
        intros z [Iz|Iz]; [left; exact Iz | right; right; exact Iz].
Qed.

Lemma fold_insert_sorted : forall l acc, CF (l ++ acc) -> lt_sorted acc = true ->
  lt_sorted (fold_left (fun a x => insert x a) l acc) = true.
Proof.
  induction l as [|x t IH]; intros acc C S; cbn [fold_left]; [exact S|].
  apply IH.
  - apply (CF_perm ((x :: t) ++ acc)); [|exact C]. cbn [app].
    eapply Permutation_trans; [apply Permutation_middle|].
    apply Permutation_app_head. apply insert_perm.
  - apply insert_sorted; [|exact S]. apply (CF_incl ((x :: t) ++ acc)); [exact C|].
    intros z [Iz|Iz]; [left; exact Iz | right; apply in_or_app; right; exact Iz].
Qed.

Lemma sorted_is_sorted_l : forall l, conflict_free l = true -> lt_sorted (sorted l) = true.
Proof.
  intros l H. unfold sorted. apply fold_insert_sorted; [|reflexivity].
  rewrite app_nil_r. apply conflict_free_CF. exact H.
Qed.

(* two `<`-sorted arrangements of the same conflict-free records are the same list *)
Lemma lt_sorted_unique : forall l1 l2, Permutation l1 l2 -> CF l1 ->
  lt_sorted l1 = true -> lt_sorted l2 = true -> l1 = l2.
Proof.
  induction l1 as [|a t1 IH]; intros l2 P C S1 S2.
  - apply Permutation_nil in P. subst. reflexivity.
  - destruct l2 as [|b t2]; [apply Permutation_sym, Permutation_nil in P; discriminate|].
    apply lt_sorted_cons in S1. destruct S1 as [A1 A2].
    apply lt_sorted_cons in S2. destruct S2 as [B1 B2].
    assert (Eab : a = b).
    { destruct (vr_eq_dec a b) as [K|K]; [exact K|]. exfalso.
      assert (Ia : In a t2).
      { assert (I : In a (b :: t2)) by (apply (Permutation_in a P); left; reflexivity).
        destruct I as [I|I]; [subst; contradiction | exact I]. }
      assert (Ib : In b t1).
      { assert (I : In b (a :: t1)) by (apply (Permutation_in b (Permutation_sym P)); left; reflexivity).
        destruct I as [I|I]; [subst; contradiction | exact I]. }
      assert (X : xorb (vr_lt a b) (vr_lt b a) = true).
      { apply C; [left; reflexivity | right; exact Ib | exact K]. }
      rewrite (A1 b Ib), (B1 a Ia) in X. discriminate. }
    subst b. f_equal. apply IH.
    + apply (Permutation_cons_inv P).
    + apply (CF_incl (a :: t1)); [exact C|]. intros z Iz. right. exact Iz.
    + exact A2.
    + exact B2.
Qed.

Lemma sorted_unique_l : forall l out, conflict_free l = true -> Permutation l out ->
  lt_sorted out = true -> out = sorted l.
Proof.
  intros l out H P S. apply lt_sorted_unique.
  - eapply Permutation_trans; [apply Permutation_sym; exact P | apply sorted_perm_l].
  - apply (CF_perm l); [exact P | apply conflict_free_CF; exact H].
  - exact S.
  - apply sorted_is_sorted_l. exact H.
Qed.

Lemma conflict_free_perm : forall l l', Permutation l l' -> conflict_free l = true -> conflict_free l' = true.
Proof.
  intros l l' P H. apply CF_conflict_free. apply (CF_perm l); [exact P|]. apply conflict_free_CF. exact H.
Qed.

(* THE positive statement: on conflict-free records the sorted series is a function of the multiset *)
Lemma sorted_layout_free_l : forall l l', Permutation l l' -> conflict_free l = true -> sorted l = sorted l'.
Proof.
  intros l l' P H. symmetry. apply sorted_unique_l.
  - exact H.
  - eapply Permutation_trans; [exact P | apply sorted_perm_l].
  - apply sorted_is_sorted_l. apply (conflict_free_perm l); assumption.
Qed.

(* ... and it is NOT on the witness pair SNV C>A / INDEL C>CG at one position *)
Lemma sorted_layout_dependent_refuted_l :
  exists l l', Permutation l l' /\ sorted l <> sorted l' /\ conflict_free l = false.
Proof.
  exists [w_snv; w_ins], [w_ins; w_snv]. split; [apply perm_swap|]. split.
  - vm_compute. intro H. discriminate.
  - vm_compute. reflexivity.
Qed.

(* three records: SNV C>A is `<`-unrelated to both insertions, which are ordered; the result depends on
   where the SNV stands in the input *)
Lemma sorted_triple_refuted_l :
  exists a b c, vr_lt c b = true /\ vr_lt a b = false /\ vr_lt b a = false /\ vr_lt a c = false /\ vr_lt c a = false /\
    sorted [b; a; c] <> sorted [a; b; c] /\ sorted [b; c; a] <> sorted [a; b; c].
Proof.
  exists w_snv, w_ins, w_ins2. vm_compute. repeat split; intro H; discriminate.
Qed.

(* which pairs fail pair_ok *)
Lemma pair_not_ok_cases_l : forall a b, pair_ok a b = false ->
  (vr_eq a b = true /\ a <> b) \/ gt_conflict a b = true \/ incomparable a b = true.
Proof.
  unfold pair_ok, gt_conflict, incomparable. intros a b H. apply orb_false_iff in H. destruct H as [R X].
  assert (N : a <> b) by (intro K; subst; rewrite rec_eqb_refl in R; discriminate).
  destruct (vr_lt a b) eqn:L1; destruct (vr_lt b a) eqn:L2; cbn [xorb negb] in X; try discriminate.
  - right. right. reflexivity.
  - unfold vr_lt, vr_ge in L1, L2. apply negb_false_iff in L1. apply negb_false_iff in L2.
    destruct (vr_eq a b) eqn:E.
    + left. split; [reflexivity | exact N].
    + right. left. rewrite vr_eq_symb, E in L2. cbn [orb] in L1, L2. rewrite L1, L2. reflexivity.
Qed.

(* satisfiability of the hypotheses *)
Definition w_far : vrec := mkV (mkLoc 20 23 SNone) [67; 65; 84] [67] [73; 78; 68; 69; 76] [] [4].
Definition w_snv_t : vrec := mkV w_loc [67] [84] [83; 78; 86] [] [5].      (* SNV C>T: `>` the insertion both by alt and by type *)
Lemma conflict_free_example_l :
  conflict_free [w_far; w_ins; w_snv_t; w_ins; w_ins2] = true /\
  sorted [w_far; w_ins; w_snv_t; w_ins; w_ins2] = [w_ins2; w_ins; w_ins; w_snv_t; w_far] /\
  sorted [w_ins; w_ins2; w_far; w_ins; w_snv_t] = [w_ins2; w_ins; w_ins; w_snv_t; w_far].
Proof. vm_compute. repeat split. Qed.

(* ------------------------------------------------------------------ set(records) *)
Lemma hkey_eqb_iff : forall a b, hkey_eqb a b = true <-> a = b.
Proof.
  induction a as [|x a IH]; destruct b as [|y b]; cbn [hkey_eqb]; split; intro H;
    try reflexivity; try discriminate.
  - apply andb_true_iff in H. destruct H as [H1 H2]. apply IH in H2. subst. f_equal.
    destruct x as [x|x|x]; destruct y as [y|y|y]; cbn [hval_eqb] in H1; try discriminate.
    + apply Z.eqb_eq in H1. subst. reflexivity.
    + apply vr_eq_seq_iff in H1. subst. reflexivity.
    + apply opt_seq_eqb_iff in H1. subst. reflexivity.
  - inversion H; subst. apply andb_true_iff. split; [|apply IH; reflexivity].
    destruct y as [y|y|y]; cbn [hval_eqb].
    + apply Z.eqb_refl.
    + apply vr_eq_seq_refl.
    + apply opt_seq_eqb_iff. reflexivity.
Qed.

Lemma dedup_acc_in : forall l seen x,
  (forall a b, In a (seen ++ l) -> In b (seen ++ l) -> same_member a b = true -> a = b) ->
  (In x (dedup_acc seen l) <-> (In x l /\ ~ In x seen)).
Proof.
  induction l as [|y t IH]; intros seen x U; cbn [dedup_acc].
  - split; [intros [] | intros [[] _]].
  - destruct (existsb (same_member y) seen) eqn:E.
    + apply existsb_exists in E. destruct E as [z [Iz M]].
      assert (Eyz : y = z).
      { apply U; [apply in_or_app; right; left; reflexivity | apply in_or_app; left; exact Iz | exact M]. }
      subst z. rewrite IH.
      * split; [intros [I N]; split; [right; exact I | exact N]|].
        intros [[I|I] N]; [subst; contradiction | split; assumption].
      * intros a b Ia Ib. apply U; apply in_app_or in Ia; apply in_app_or in Ib; apply in_or_app.
        -- destruct Ia as [Ia|Ia]; [left; exact Ia | right; right; exact Ia].
        -- destruct Ib as [Ib|Ib]; [left; exact Ib | right; right; exact Ib].
    + cbn [In]. rewrite IH.
      * split.
        -- intros [K|[I N]].
           ++ subst. split; [left; reflexivity|]. intro I.
              assert (F : existsb (same_member x) seen = true).
              { apply existsb_exists. exists x. split; [exact I|]. unfold same_member.
                rewrite vr_eq_refl_l, andb_true_r. apply hkey_eqb_iff. reflexivity. }
              rewrite F in E. discriminate.
           ++ split; [right; exact I|]. intro K. apply N. right. exact K.
        -- intros [[K|I] N].
           ++ left. exact K.
           ++ destruct (vr_eq_dec y x) as [K|K]; [left; exact K|]. right. split; [exact I|].
              intros [J|J]; [contradiction | apply N; exact J].
      * intros a b Ia Ib. apply U.
        -- apply in_app_or in Ia. apply in_or_app. cbn [In] in Ia.
           destruct Ia as [[Ia|Ia]|Ia]; [right; left; exact Ia | left; exact Ia | right; right; exact Ia].
        -- apply in_app_or in Ib. apply in_or_app. cbn [In] in Ib.
           destruct Ib as [[Ib|Ib]|Ib]; [right; left; exact Ib | left; exact Ib | right; right; exact Ib].
Qed.

(* if records that the set identifies (equal hashed tuple and `==`) are identical, the set holds the same
   records whatever the order in which the files delivered them *)
Lemma dedup_layout_free_l : forall l l', Permutation l l' ->
  (forall a b, In a l -> In b l -> same_member a b = true -> a = b) ->
  forall x, In x (dedup l) <-> In x (dedup l').
Proof.
  intros l l' P U x. unfold dedup. rewrite (dedup_acc_in l [] x), (dedup_acc_in l' [] x).
  - split; intros [I N]; split; try exact N.
    + apply (Permutation_in x P). exact I.
    + apply (Permutation_in x (Permutation_sym P)). exact I.
  - cbn [app]. intros a b Ia Ib. apply U; apply (Permutation_in _ (Permutation_sym P)); assumption.
  - cbn [app]. exact U.
Qed.

(* ... and otherwise the FIRST one delivered stays: the same variant under two ids (two callers) *)
Lemma dedup_layout_dependent_refuted_l :
  exists a b, same_member a b = true /\ a <> b /\ dedup [a; b] = [a] /\ dedup [b; a] = [b].
Proof.
  exists w_snv, (mkV w_loc [67] [65] [83; 78; 86] [] [9]). vm_compute.
  repeat split. intro H. discriminate.
Qed.
