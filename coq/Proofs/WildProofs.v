(* the wildcard-map entry test of the code coincides with the documented meaning (spec_key_matches) *)
From Coq Require Import ZArith List Bool Lia ZifyBool.
From MoPep Require Import Model.Base Gen.HeaderCfg Model.Header Model.Filter Model.Split
  Proofs.FilterProofs Proofs.SplitOrder.
Import ListNotations.
Open Scope Z_scope.

Lemma set_of_In : forall l x, In x (set_of l) <-> In x l.
Proof.
  induction l as [|y l IH]; intros x; cbn [set_of In]. tauto.
  destruct (mem_seq y (set_of l)) eqn:E; cbn [In]; rewrite IH.
  - split; [auto|]. intros [H|H]; auto. subst. apply IH. apply mem_seq_In. exact E.
  - tauto.
Qed.

Lemma set_of_NoDup : forall l, NoDup (set_of l).
Proof.
  induction l as [|y l IH]; cbn [set_of]. constructor.
  destruct (mem_seq y (set_of l)) eqn:E; auto. constructor; auto.
  intro H. apply mem_seq_In in H. congruence.
Qed.

Lemma NoDup_filter' : forall {A} (f : A -> bool) l, NoDup l -> NoDup (filter f l).
Proof.
  induction 1; cbn [filter]. constructor. destruct (f x); auto. constructor; auto.
  intro Hx. apply filter_In in Hx. tauto.
Qed.

Theorem wild_matches_spec_l : cfg_wild_upper_exclusive = false ->
  forall all k S,
    subset S all = true -> (forall x, In x S -> is_wild x = false) ->
    key_matches all k S = spec_key_matches k S.
Proof.
  intros Hcfg all k S Hsub Hnw. unfold key_matches, spec_key_matches. rewrite Hcfg.
  destruct (negb (key_has_wild k)); auto.
  set (ks := key_set k). set (base := filter (fun x => negb (is_wild x)) ks).
  set (indiv := filter (fun x => negb (mem_seq x ks)) (set_of all)).
  set (extra := filter (fun x => negb (mem_seq x base)) (set_of S)).
  assert (Hincl : forall x, In x extra -> In x indiv).
  { intros x Hx. apply filter_In in Hx. destruct Hx as [Hx1 Hx2]. apply (proj1 (set_of_In _ _)) in Hx1.
    apply filter_In. split.
    - apply (proj2 (set_of_In _ _)). apply (proj1 (subset_In S all) Hsub). exact Hx1.
    - apply negb_true_iff. destruct (mem_seq x ks) eqn:E; auto.
      apply mem_seq_In in E. apply negb_true_iff in Hx2.
      assert (Hb : In x base) by (apply filter_In; split; auto; rewrite (Hnw x Hx1); reflexivity).
      apply mem_seq_In in Hb. congruence. }
  assert (H1 : subset extra indiv = true) by (apply subset_In; exact Hincl).
  assert (H2 : (zlen extra <=? zlen indiv) = true).
  { rewrite !zlen_length. apply Z.leb_le. apply Nat2Z.inj_le.
    apply NoDup_incl_length; [|exact Hincl]. apply NoDup_filter'. apply set_of_NoDup. }
  rewrite H1, H2. rewrite !andb_true_r.
  destruct (subset base S); cbn [andb]; auto.
Qed.
