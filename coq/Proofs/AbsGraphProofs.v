(* Proofs about the abstract algorithm model Model/AbsGraph.v (DESIGN.md Appendix B, docs/absgraph.md). *)
From Coq Require Import ZArith List Bool Lia Arith.
From MoPep Require Import Model.Base Model.Rule Model.Digest Model.Spec Model.AbsGraph Gen.Bio
                          Proofs.DigestProofs Proofs.SpecProofs.
Import ListNotations.
Open Scope Z_scope.

(* ------------------------------------------------------------------ small list facts *)
Lemma flat_map_ext_in {A B} (f g : A -> list B) l :
  (forall a, In a l -> f a = g a) -> flat_map f l = flat_map g l.
Proof.
  induction l as [|x l IH]; intros H; [reflexivity|]. cbn [flat_map].
  rewrite (H x (or_introl eq_refl)), IH; [reflexivity|]. intros a Ha. apply H. now right.
Qed.

Lemma flat_map_map {A B C} (f : B -> list C) (g : A -> B) l :
  flat_map f (map g l) = flat_map (fun a => f (g a)) l.
Proof. induction l as [|x l IH]; [reflexivity|]. cbn [map flat_map]. now rewrite IH. Qed.

Lemma find_In g : forall n nd, find g n = Some nd -> In (n, nd) g.
Proof.
  induction g as [|[m x] g IH]; intros n nd H; [discriminate|]. cbn [find] in H.
  destruct (Nat.eqb m n) eqn:E.
  - apply Nat.eqb_eq in E. subst. injection H as ->. now left.
  - right. now apply IH.
Qed.

(* ------------------------------------------------------------------ fuel independence *)
Lemma topo_sound g : topo g = true -> forall n m, In m (succs g n) -> (n < m < length g)%nat.
Proof.
  intros T n m Hm. unfold succs in Hm. destruct (find g n) as [nd|] eqn:F; [|destruct Hm].
  apply find_In in F. unfold topo in T. rewrite forallb_forall in T. specialize (T _ F).
  unfold topo_node in T. cbn [fst snd] in T. apply andb_true_iff in T as [_ T].
  rewrite forallb_forall in T. specialize (T _ Hm). apply andb_true_iff in T as [T1 T2].
  apply Nat.ltb_lt in T1, T2. lia.
Qed.

Lemma paths_fuel_indep_lemma g fin : topo g = true ->
  forall f f' n, (length g - n <= f)%nat -> (length g - n <= f')%nat -> (1 <= f)%nat -> (1 <= f')%nat ->
  paths_fin g fin f n = paths_fin g fin f' n.
Proof.
  intros T. pose proof (topo_sound g T) as TS.
  induction f as [|k IH]; intros f' n H1 H2 H3 H4; [lia|].
  destruct f' as [|k']; [lia|]. cbn [paths_fin]. f_equal. f_equal.
  apply flat_map_ext_in. intros m Hm. specialize (TS _ _ Hm). apply IH; lia.
Qed.

(* with fuel = number of nodes the enumeration is complete: any larger fuel gives the same paths *)
Lemma paths_enough_lemma g : topo g = true -> forall n f, (length g <= f)%nat -> (1 <= length g)%nat ->
  paths_fin g (sink g) f n = paths g n.
Proof. intros T n f H1 H2. unfold paths. apply paths_fuel_indep_lemma; auto; lia. Qed.

(* ------------------------------------------------------------------ drop *)
Lemma find_drop g alive : forall n,
  find (drop g alive) n =
  match find g n with
  | Some nd => Some (mkNode (n_lab nd) (n_vids nd) (filter alive (n_succ nd)))
  | None => None
  end.
Proof.
  induction g as [|[m x] g IH]; intros n; [reflexivity|]. cbn [drop map find fst snd].
  destruct (Nat.eqb m n); [reflexivity|]. apply IH.
Qed.

Lemma succs_drop g alive n : succs (drop g alive) n = filter alive (succs g n).
Proof. unfold succs. rewrite find_drop. now destruct (find g n). Qed.
Lemma lab_drop g alive n : lab (drop g alive) n = lab g n.
Proof. unfold lab. rewrite find_drop. now destruct (find g n). Qed.
Lemma vids_drop g alive n : vids (drop g alive) n = vids g n.
Proof. unfold vids. rewrite find_drop. now destruct (find g n). Qed.

Lemma word_drop g alive p : word (drop g alive) p = word g p.
Proof.
  unfold word. f_equal; apply flat_map_ext; intros n; [apply (lab_drop g alive n) | apply (vids_drop g alive n)].
Qed.

Lemma drop_paths_subset g alive fin : forall fuel n p,
  In p (paths_fin (drop g alive) fin fuel n) -> In p (paths_fin g fin fuel n).
Proof.
  induction fuel as [|f IH]; intros n p H; [destruct H|]. cbn [paths_fin] in *.
  apply in_app_or in H as [H|H]; apply in_or_app; [now left|right].
  apply in_map_iff in H as (q & <- & Hq). apply in_map. apply in_flat_map in Hq as (m & Hm & Hq).
  apply in_flat_map. exists m. split; [|now apply IH].
  rewrite succs_drop in Hm. now apply filter_In in Hm.
Qed.

(* limits skip, they never invent: the language of the graph with edges removed (judged with the SAME
   accepting nodes) is part of the language of the full graph.  Any fuel, any graph, any start. *)
Lemma drop_lang_subset_lemma g alive fin fuel n w :
  In w (lang_fin (drop g alive) fin fuel n) -> In w (lang_fin g fin fuel n).
Proof.
  unfold lang_fin. intros H. apply in_map_iff in H as (p & <- & Hp). rewrite word_drop.
  apply in_map. exact (drop_paths_subset g alive fin fuel n p Hp).
Qed.

(* ------------------------------------------------------------------ merging two nodes (node collapsing) *)
Lemma eq_nats_true a : forall b, eq_nats a b = true -> a = b.
Proof.
  induction a as [|x a IH]; intros [|y b] H; try discriminate; [reflexivity|]. cbn in H.
  apply andb_true_iff in H as [H1 H2]. apply Nat.eqb_eq in H1. subst. f_equal. now apply IH.
Qed.

Lemma find_merge_gen g a b : forall n, n <> b ->
  find (merge_nodes g a b) n =
  match find g n with
  | Some nd => Some (mkNode (n_lab nd) (n_vids nd) (map (redirect a b) (n_succ nd)))
  | None => None
  end.
Proof.
  unfold merge_nodes. induction g as [|[m x] g0 IH]; intros n Hn; [reflexivity|].
  cbn [filter fst]. destruct (Nat.eqb m b) eqn:E; cbn [negb].
  - apply Nat.eqb_eq in E. subst m. cbn [find]. destruct (Nat.eqb b n) eqn:E2.
    + apply Nat.eqb_eq in E2. congruence.
    + now apply IH.
  - cbn [map find fst snd]. destruct (Nat.eqb m n); [reflexivity|]. now apply IH.
Qed.

Section Merge.
  Variables (g : graph) (a b : nat) (wv : bool).
  Hypothesis TW : twins wv g a b = true.
  Let g' := merge_nodes g a b.
  Let rho := redirect a b.

  Lemma tw_ne : a <> b.
  Proof. unfold twins in TW. apply andb_true_iff in TW as [H _]. apply negb_true_iff in H. now apply Nat.eqb_neq in H. Qed.

  Lemma tw_lab : lab g a = lab g b.
  Proof.
    unfold twins in TW. apply andb_true_iff in TW as [_ H]. unfold lab.
    destruct (find g a), (find g b); try discriminate.
    apply andb_true_iff in H as [H _]. apply andb_true_iff in H as [H _]. now apply sp_eq_seq_true in H.
  Qed.
  Lemma tw_succs : succs g a = succs g b.
  Proof.
    unfold twins in TW. apply andb_true_iff in TW as [_ H]. unfold succs.
    destruct (find g a), (find g b); try discriminate.
    apply andb_true_iff in H as [H _]. apply andb_true_iff in H as [_ H]. now apply eq_nats_true in H.
  Qed.
  Lemma tw_vids : wv = true -> vids g a = vids g b.
  Proof.
    intros ->. unfold twins in TW. apply andb_true_iff in TW as [_ H]. unfold vids.
    destruct (find g a), (find g b); try discriminate.
    apply andb_true_iff in H as [_ H]. cbn in H. now apply sp_eq_seq_true in H.
  Qed.

  Lemma find_merge : forall n, n <> b ->
    find g' n = match find g n with
                | Some nd => Some (mkNode (n_lab nd) (n_vids nd) (map rho (n_succ nd)))
                | None => None
                end.
  Proof. intros n Hn. apply find_merge_gen. exact Hn. Qed.

  Lemma rho_ne n : rho n <> b.
  Proof. unfold rho, redirect. pose proof tw_ne. destruct (Nat.eqb n b) eqn:E; [congruence|]. now apply Nat.eqb_neq in E. Qed.
  Lemma rho_id n : n <> b -> rho n = n.
  Proof. intros H. unfold rho, redirect. apply Nat.eqb_neq in H. now rewrite H. Qed.
  Lemma rho_b : rho b = a.
  Proof. unfold rho, redirect. now rewrite Nat.eqb_refl. Qed.

  Lemma succs_merge n : succs g' (rho n) = map rho (succs g n).
  Proof.
    unfold succs at 1. rewrite find_merge by apply rho_ne.
    destruct (Nat.eq_dec n b) as [->|Hn].
    - rewrite rho_b, <- tw_succs. unfold succs. now destruct (find g a).
    - rewrite rho_id by exact Hn. unfold succs. now destruct (find g n).
  Qed.
  Lemma lab_merge n : lab g' (rho n) = lab g n.
  Proof.
    unfold lab at 1. rewrite find_merge by apply rho_ne.
    destruct (Nat.eq_dec n b) as [->|Hn].
    - rewrite rho_b, <- tw_lab. unfold lab. now destruct (find g a).
    - rewrite rho_id by exact Hn. unfold lab. now destruct (find g n).
  Qed.
  Lemma vids_merge n : wv = true -> vids g' (rho n) = vids g n.
  Proof.
    intros W. unfold vids at 1. rewrite find_merge by apply rho_ne.
    destruct (Nat.eq_dec n b) as [->|Hn].
    - rewrite rho_b, <- (tw_vids W). unfold vids. now destruct (find g a).
    - rewrite rho_id by exact Hn. unfold vids. now destruct (find g n).
  Qed.
  Lemma sink_merge n : sink g' (rho n) = sink g n.
  Proof. unfold sink. rewrite succs_merge. now destruct (succs g n). Qed.

  Lemma string_merge p : fst (word g' (map rho p)) = fst (word g p).
  Proof.
    unfold word. cbn [fst]. rewrite flat_map_map. apply flat_map_ext. intros n. apply lab_merge.
  Qed.
  Lemma word_merge p : wv = true -> word g' (map rho p) = word g p.
  Proof.
    intros W. unfold word. f_equal; rewrite flat_map_map; apply flat_map_ext; intros n;
      [apply lab_merge | now apply vids_merge].
  Qed.

  (* every path of g is, after redirection, a path of the merged graph *)
  Lemma merge_paths_fwd : forall f n p,
    In p (paths_fin g (sink g) f n) -> In (map rho p) (paths_fin g' (sink g') f (rho n)).
  Proof.
    induction f as [|f IH]; intros n p H; [destruct H|]. cbn [paths_fin] in *.
    apply in_app_or in H as [H|H]; apply in_or_app.
    - left. rewrite sink_merge. destruct (sink g n); [|destruct H]. destruct H as [<-|[]]. now left.
    - right. apply in_map_iff in H as (q & <- & Hq). cbn [map]. apply in_map.
      apply in_flat_map in Hq as (m & Hm & Hq). apply in_flat_map. exists (rho m). split.
      + rewrite succs_merge. now apply in_map.
      + now apply IH.
  Qed.

  (* paths from a and from b differ only in their first node *)
  Lemma paths_twin : forall f q, In (a :: q) (paths_fin g (sink g) f a) -> In (b :: q) (paths_fin g (sink g) f b).
  Proof.
    intros [|f] q H; [destruct H|]. cbn [paths_fin] in *.
    assert (S : sink g a = sink g b) by (unfold sink; now rewrite tw_succs).
    apply in_app_or in H as [H|H]; apply in_or_app.
    - left. rewrite <- S. destruct (sink g a); [|destruct H]. destruct H as [H|[]]. injection H as <-. now left.
    - right. apply in_map_iff in H as (q' & E & Hq). injection E as ->. apply in_map. now rewrite <- tw_succs.
  Qed.

  Lemma paths_head : forall f n p, In p (paths_fin g (sink g) f n) -> exists q, p = n :: q.
  Proof.
    intros [|f] n p H; [destruct H|]. cbn [paths_fin] in H. apply in_app_or in H as [H|H].
    - destruct (sink g n); [|destruct H]. destruct H as [<-|[]]. now exists [].
    - apply in_map_iff in H as (q & <- & _). now exists q.
  Qed.

  (* every path of the merged graph is the redirection of a path of g *)
  Lemma merge_paths_bwd : forall f n p', n <> b ->
    In p' (paths_fin g' (sink g') f n) -> exists p, In p (paths_fin g (sink g) f n) /\ map rho p = p'.
  Proof.
    induction f as [|f IH]; intros n p' Hn H; [destruct H|]. cbn [paths_fin] in H.
    assert (S1 : sink g' n = sink g n) by (rewrite <- (rho_id n Hn) at 1; apply sink_merge).
    assert (S2 : succs g' n = map rho (succs g n)) by (rewrite <- (rho_id n Hn) at 1; apply succs_merge).
    rewrite S1, S2 in H.
    apply in_app_or in H as [H|H].
    - destruct (sink g n) eqn:S; [|destruct H]. destruct H as [<-|[]]. exists [n]. split.
      + cbn [paths_fin]. rewrite S. now left.
      + cbn [map]. now rewrite rho_id.
    - apply in_map_iff in H as (q' & <- & Hq). apply in_flat_map in Hq as (m' & Hm & Hq).
      apply in_map_iff in Hm as (m & <- & Hm).
      destruct (IH (rho m) q' (rho_ne m) Hq) as (q & Hq1 & Hq2).
      destruct (Nat.eq_dec m b) as [->|Hmb].
      + rewrite rho_b in Hq1. destruct (paths_head _ _ _ Hq1) as (q0 & ->).
        apply paths_twin in Hq1. exists (n :: b :: q0). split.
        * cbn [paths_fin]. apply in_or_app. right. apply in_map. apply in_flat_map. exists b. now split.
        * cbn [map] in *. rewrite rho_id by exact Hn. f_equal. rewrite <- Hq2, rho_b. f_equal.
          now rewrite (rho_id a tw_ne).
      + rewrite (rho_id m Hmb) in Hq1. exists (n :: q). split.
        * cbn [paths_fin]. apply in_or_app. right. apply in_map. apply in_flat_map. exists m. now split.
        * cbn [map]. rewrite rho_id by exact Hn. now rewrite Hq2.
  Qed.

  (* merging two nodes with the same label and the same successors keeps the STRING language (as a set) *)
  Lemma merge_strings_lemma f n s : n <> b ->
    In s (strings (lang_fin g' (sink g') f n)) <-> In s (strings (lang_fin g (sink g) f n)).
  Proof.
    intros Hn. unfold strings, lang_fin. rewrite !map_map. split; intros H.
    - apply in_map_iff in H as (p' & <- & Hp). destruct (merge_paths_bwd _ _ _ Hn Hp) as (p & Hp1 & <-).
      rewrite string_merge. now apply (in_map (fun x => fst (word g x))).
    - apply in_map_iff in H as (p & <- & Hp). rewrite <- string_merge.
      apply (in_map (fun x => fst (word g' x))). rewrite <- (rho_id n Hn). now apply merge_paths_fwd.
  Qed.

  (* ... and, when the variant ids agree as well, the whole language *)
  Lemma merge_lang_lemma f n w : wv = true -> n <> b ->
    In w (lang_fin g' (sink g') f n) <-> In w (lang_fin g (sink g) f n).
  Proof.
    intros W Hn. unfold lang_fin. split; intros H.
    - apply in_map_iff in H as (p' & <- & Hp). destruct (merge_paths_bwd _ _ _ Hn Hp) as (p & Hp1 & <-).
      rewrite word_merge by exact W. now apply in_map.
    - apply in_map_iff in H as (p & <- & Hp). rewrite <- word_merge by exact W.
      apply in_map. rewrite <- (rho_id n Hn). now apply merge_paths_fwd.
  Qed.
End Merge.

(* ------------------------------------------------------------------ joining consecutive nodes = digestion *)
Section JoinsProofs.
  Variable wt : weight_table.
  Variable water : Z.
  Variable lim : limits.

  Lemma piece_app (P acc l R : seq) :
    piece (P ++ (acc ++ l) ++ R) (length P) (length P + length acc + length l) = acc ++ l.
  Proof.
    unfold piece. rewrite skipn_app, skipn_all, Nat.sub_diag. cbn [skipn app].
    replace (length P + length acc + length l - length P)%nat with (length (acc ++ l) + 0)%nat
      by (rewrite app_length; lia).
    rewrite firstn_app_2. cbn [firstn]. now rewrite app_nil_r.
  Qed.

  Lemma prefixes_piece : forall n ls P acc Q,
    map (piece (P ++ acc ++ concat ls ++ Q) (length P)) (firstn n (bounds_from (length P + length acc) ls))
    = prefixes_cat acc n ls.
  Proof.
    induction n as [|n IH]; intros ls P acc Q; [reflexivity|].
    destruct ls as [|l ls]; [reflexivity|]. cbn [bounds_from firstn map prefixes_cat concat]. f_equal.
    - replace (P ++ acc ++ (l ++ concat ls) ++ Q) with (P ++ (acc ++ l) ++ (concat ls ++ Q))
        by (now rewrite <- !app_assoc). apply piece_app.
    - specialize (IH ls P (acc ++ l) Q). rewrite app_length, Nat.add_assoc in IH. rewrite <- IH.
      now rewrite <- !app_assoc.
  Qed.

  Lemma emit_emit_join s first nf a bs :
    flat_map (emit wt water lim s first nf a) bs = flat_map (emit_join wt water lim first nf) (map (piece s a) bs).
  Proof. rewrite flat_map_map. reflexivity. Qed.

  Lemma joins_cleave_loop_gen nf : forall ls P Q first,
    cleave_loop wt water lim (P ++ concat ls ++ Q) nf first (length P :: bounds_from (length P) ls)
    = joins wt water lim nf first ls.
  Proof.
    induction ls as [|l ls IH]; intros P Q first.
    - cbn [bounds_from cleave_loop joins]. now rewrite firstn_nil.
    - cbn [joins cleave_loop]. f_equal.
      + rewrite emit_emit_join. f_equal.
        pose proof (prefixes_piece (Z.to_nat (lim_k lim + 1)) (l :: ls) P [] Q) as H.
        cbn [app length] in H. rewrite Nat.add_0_r in H. exact H.
      + cbn [bounds_from concat]. specialize (IH (P ++ l) Q false).
        rewrite app_length in IH. rewrite <- IH. now rewrite <- !app_assoc.
  Qed.

  (* joining 1..k+1 consecutive labels from every start = the digestion loop over the node boundaries *)
  Lemma joins_eq_cleave_loop_lemma nf ls :
    joins wt water lim nf true ls = cleave_loop wt water lim (concat ls) nf true (all_bounds ls).
  Proof.
    pose proof (joins_cleave_loop_gen nf ls [] [] true) as H. cbn [app length] in H.
    rewrite app_nil_r in H. symmetry. exact H.
  Qed.

  Lemma last_bounds_from : forall ls i d, ls <> [] -> last (bounds_from i ls) d = (i + length (concat ls))%nat.
  Proof.
    induction ls as [|l ls IH]; intros i d H; [congruence|]. cbn [bounds_from concat].
    destruct ls as [|l' ls].
    - cbn. rewrite app_nil_r. reflexivity.
    - change (last ((i + length l)%nat :: bounds_from (i + length l) (l' :: ls)) d)
        with (last (bounds_from (i + length l) (l' :: ls)) d).
      rewrite IH by discriminate. rewrite app_length. lia.
  Qed.

  Lemma bounds_from_nonnil ls i : ls <> [] -> bounds_from i ls <> [].
  Proof. destruct ls; [congruence|]. discriminate. Qed.

  (* when the inner node boundaries of a path are exactly the cleavage sites of its string, joining
     consecutive nodes yields exactly the digestion products of the string *)
  Lemma join_k_lemma r exc nf ls : ls <> [] ->
    inner_bounds ls = sites r exc (concat ls) ->
    joins wt water lim nf true ls = cleave wt water lim r exc nf (concat ls).
  Proof.
    intros Hne Hs. rewrite joins_eq_cleave_loop_lemma. unfold cleave, bounds_of, all_bounds. f_equal. f_equal.
    rewrite <- Hs. unfold inner_bounds.
    rewrite (app_removelast_last 0%nat (bounds_from_nonnil ls 0 Hne)) at 1.
    now rewrite last_bounds_from.
  Qed.

  Lemma join_k_spec_lemma r exc nf ls p : ls <> [] ->
    inner_bounds ls = sites r exc (concat ls) ->
    (In p (joins wt water lim nf true ls) <-> Digest_product wt water lim r exc nf (concat ls) p).
  Proof. intros H1 H2. rewrite (join_k_lemma r exc nf ls H1 H2). apply cleave_spec. Qed.
End JoinsProofs.

(* ------------------------------------------------------------------ the stage checks mean what they say *)
Lemma tvg_sound_lemma tx vs off ws :
  tvg_unsound tx vs off ws = [] ->
  forall w, In w ws ->
    let h := hap_of_ids vs (snd w) in
    pairwise false h = true /\ fst w = skipn off (apply_hap tx h) /\
    (exists m, length m = length vs /\ h = select m vs).
Proof.
  intros H w Hw. unfold tvg_unsound in H.
  assert (K : tvg_word_ok tx vs off w = true).
  { destruct (tvg_word_ok tx vs off w) eqn:E; [reflexivity|].
    assert (In w (filter (fun w => negb (tvg_word_ok tx vs off w)) ws)) by (apply filter_In; now rewrite E).
    rewrite H in H0. destruct H0. }
  unfold tvg_word_ok in K. apply andb_true_iff in K as [K K3]. apply andb_true_iff in K as [_ K2].
  cbn zeta. repeat split; auto.
  - now apply sp_eq_seq_true.
  - exists (mask_of_ids (length vs) (snd w)). split; [|reflexivity].
    unfold mask_of_ids. now rewrite map_length, seq_length.
Qed.

Lemma must_masks_spec x h :
  In h (must_haps x) <-> exists m, In m (must_masks x) /\ h = select m (in_vars x).
Proof.
  unfold must_haps, must_masks, haplotypes. rewrite filter_In, in_map_iff. split.
  - intros ((m & <- & Hm) & Hh). exists m. split; [|reflexivity]. apply filter_In. now split.
  - intros (m & Hm & ->). apply filter_In in Hm as [Hm1 Hm2]. split; [|exact Hm2]. now exists m.
Qed.

Lemma tvg_complete_lemma x off ws :
  tvg_missing x off ws = [] ->
  forall h, In h (must_haps x) -> In (skipn off (apply_hap (in_tx x) h)) (strings ws).
Proof.
  intros H h Hh. apply must_masks_spec in Hh as (m & Hm & ->). unfold tvg_missing in H.
  destruct (mem_seq (skipn off (apply_hap (in_tx x) (select m (in_vars x)))) (strings ws)) eqn:E.
  - now apply sp_mem_seq_In.
  - assert (In m (filter (fun m => negb (mem_seq (skipn off (apply_hap (in_tx x) (select m (in_vars x)))) (strings ws)))
                         (must_masks x))) by (apply filter_In; now rewrite E).
    rewrite H in H0. destruct H0.
Qed.

(* the codon-wise translation of the whole string, cut at the first stop, is the translation of the
   reference semantics (Spec.translate) *)
Lemma tga_is_stop : codon_aa [T_nt; G_nt; A_nt] = STOP.
Proof. vm_compute. reflexivity. Qed.

Lemma translate_all_cut_lemma : forall s i secs,
  fst (translate s i secs) = cut_at_stop (translate_all_sec s i secs).
Proof.
  intros s. remember (length s) as n eqn:Hn. revert s Hn.
  induction n as [n IH] using lt_wf_ind. intros s Hn i secs.
  destruct s as [|a [|b [|c s']]]; try reflexivity.
  cbn [translate translate_all_sec].
  assert (L : (length s' < n)%nat) by (subst n; cbn [length]; lia).
  specialize (IH _ L s' eq_refl (i + 3) secs).
  destruct (memZ i secs && eq_seq [a; b; c] [T_nt; G_nt; A_nt]) eqn:E.
  - apply andb_true_iff in E as [_ E]. apply sp_eq_seq_true in E. rewrite E, tga_is_stop.
    rewrite Z.eqb_refl. cbn [fst cut_at_stop]. unfold U_code, STAR_code. cbn [Z.eqb Pos.eqb]. now rewrite IH.
  - destruct (codon_aa [a; b; c] =? STOP) eqn:S.
    + cbn [fst cut_at_stop]. apply Z.eqb_eq in S. rewrite S. unfold STOP, STAR_code. now cbn.
    + cbn [fst cut_at_stop]. unfold STOP in S. unfold STAR_code. rewrite S. now rewrite IH.
Qed.

(* ------------------------------------------------------------------ the collapsing pass *)
Lemma find_twin_spec wv g : forall cs b a,
  find_twin wv g cs b = Some a -> (a < b)%nat /\ twins wv g a b = true.
Proof.
  induction cs as [|c cs IH]; intros b a H; [discriminate|]. cbn [find_twin] in H.
  destruct (Nat.ltb c b && twins wv g c b) eqn:E.
  - injection H as <-. apply andb_true_iff in E as [E1 E2]. apply Nat.ltb_lt in E1. now split.
  - now apply IH.
Qed.

Lemma collapse_step_strings wv g b f s :
  In s (strings (lang_fin (collapse_step wv g b) (sink (collapse_step wv g b)) f 0)) <->
  In s (strings (lang_fin g (sink g) f 0)).
Proof.
  unfold collapse_step. destruct (find_twin wv g (map fst g) b) as [a|] eqn:E; [|reflexivity].
  apply find_twin_spec in E as [L T]. apply (merge_strings_lemma g a b wv T). lia.
Qed.

Lemma collapse_step_lang g b f w :
  In w (lang_fin (collapse_step true g b) (sink (collapse_step true g b)) f 0) <->
  In w (lang_fin g (sink g) f 0).
Proof.
  unfold collapse_step. destruct (find_twin true g (map fst g) b) as [a|] eqn:E; [|reflexivity].
  apply find_twin_spec in E as [L T]. apply (merge_lang_lemma g a b true T); [reflexivity | lia].
Qed.

(* node collapsing (any number of merges of nodes with equal label and equal successors) never changes
   the set of strings spelled from the root *)
Lemma collapse_strings_lemma wv : forall bs g f s,
  In s (strings (lang_fin (fold_left (collapse_step wv) bs g) (sink (fold_left (collapse_step wv) bs g)) f 0)) <->
  In s (strings (lang_fin g (sink g) f 0)).
Proof.
  induction bs as [|b bs IH]; intros g f s; [reflexivity|]. cbn [fold_left].
  rewrite IH. apply collapse_step_strings.
Qed.

(* ... and with equal variant ids demanded, the labelled language *)
Lemma collapse_lang_lemma : forall bs g f w,
  In w (lang_fin (fold_left (collapse_step true) bs g) (sink (fold_left (collapse_step true) bs g)) f 0) <->
  In w (lang_fin g (sink g) f 0).
Proof.
  induction bs as [|b bs IH]; intros g f w; [reflexivity|]. cbn [fold_left].
  rewrite IH. apply collapse_step_lang.
Qed.

(* ------------------------------------------------------------------ the fuel-free language *)
Lemma paths_fin_Path g fin : forall f n p,
  In p (paths_fin g fin f n) <-> Path g fin n p /\ (length p <= f)%nat.
Proof.
  induction f as [|f IH]; intros n p.
  - cbn [paths_fin]. split; [intros []|]. intros [H L]. destruct H; cbn [length] in L; lia.
  - cbn [paths_fin]. rewrite in_app_iff. split.
    + intros [H|H].
      * destruct (fin n) eqn:F; [|destruct H]. destruct H as [<-|[]]. split; [now constructor | cbn; lia].
      * apply in_map_iff in H as (q & <- & Hq). apply in_flat_map in Hq as (m & Hm & Hq).
        apply IH in Hq as [Hq L]. split; [now apply Path_step with m | cbn [length]; lia].
    + intros [H L]. destruct H as [n F | n m q Hm Hq].
      * left. rewrite F. now left.
      * right. apply in_map. apply in_flat_map. exists m. split; [exact Hm|]. apply IH. split; [exact Hq|].
        cbn [length] in L. lia.
Qed.

Lemma Path_topo_length g fin : topo g = true -> forall n p, Path g fin n p -> (n < length g)%nat ->
  (length p <= length g - n)%nat.
Proof.
  intros T n p H. induction H as [n F | n m q Hm Hq IH]; intros L; cbn [length]; [lia|].
  pose proof (topo_sound g T _ _ Hm). specialize (IH ltac:(lia)). lia.
Qed.

(* for a topologically numbered graph the enumerated language is the fuel-free one *)
Lemma lang_Lang_lemma g n w : topo g = true -> (n < length g)%nat -> (In w (lang g n) <-> Lang g n w).
Proof.
  intros T L. unfold lang, paths, Lang. rewrite in_map_iff. split.
  - intros (p & <- & Hp). apply paths_fin_Path in Hp as [Hp _]. now exists p.
  - intros (p & Hp & <-). exists p. split; [reflexivity|]. apply paths_fin_Path. split; [exact Hp|].
    pose proof (Path_topo_length g (sink g) T n p Hp L). lia.
Qed.

(* ------------------------------------------------------------------ splitting a node *)
Lemma find_app (g1 g2 : graph) n :
  find (g1 ++ g2) n = match find g1 n with Some x => Some x | None => find g2 n end.
Proof.
  induction g1 as [|[m x] g1 IH]; [reflexivity|]. cbn [app find]. destruct (Nat.eqb m n); [reflexivity | exact IH].
Qed.

Lemma find_replace (g : graph) n (nd' : node) : forall m,
  find (map (fun e => if Nat.eqb (fst e) n then (n, nd') else e) g) m =
  match find g m with
  | Some x => if Nat.eqb m n then Some nd' else Some x
  | None => None
  end.
Proof.
  induction g as [|[j x] g IH]; intros m; [reflexivity|]. cbn [map find fst].
  destruct (Nat.eqb j n) eqn:E1.
  - apply Nat.eqb_eq in E1. subst j. cbn [find]. destruct (Nat.eqb n m) eqn:E2.
    + apply Nat.eqb_eq in E2. subst m. now rewrite Nat.eqb_refl.
    + apply IH.
  - cbn [find]. destruct (Nat.eqb j m) eqn:E2.
    + apply Nat.eqb_eq in E2. subst m. now rewrite E1.
    + apply IH.
Qed.

Section Split.
  Variables (g : graph) (n k fresh : nat) (nd : node).
  Hypothesis Fn : find g n = Some nd.
  Hypothesis Ffresh : find g fresh = None.
  Hypothesis Nofresh : forall m, ~ In fresh (succs g m).
  Let g' := split_node g n k fresh.

  Lemma split_ne : n <> fresh.
  Proof. intros ->. congruence. Qed.

  Lemma find_split m :
    find g' m = if Nat.eqb m n then Some (mkNode (firstn k (n_lab nd)) (n_vids nd) [fresh])
                else if Nat.eqb m fresh then Some (mkNode (skipn k (n_lab nd)) [] (n_succ nd))
                else find g m.
  Proof.
    subst g'. unfold split_node. rewrite Fn, find_app, find_replace.
    destruct (Nat.eqb m n) eqn:E1.
    - apply Nat.eqb_eq in E1. subst m. now rewrite Fn.
    - destruct (Nat.eqb m fresh) eqn:E2.
      + apply Nat.eqb_eq in E2. subst m. rewrite Ffresh. cbn [find]. now rewrite Nat.eqb_refl.
      + destruct (find g m); [reflexivity|]. cbn [find]. rewrite Nat.eqb_sym in E2. now rewrite E2.
  Qed.

  Lemma succs_split_n : succs g' n = [fresh].
  Proof. unfold succs. rewrite find_split, Nat.eqb_refl. reflexivity. Qed.
  Lemma succs_split_fresh : succs g' fresh = succs g n.
  Proof.
    unfold succs. rewrite find_split, Fn. pose proof split_ne as H. apply Nat.eqb_neq in H.
    rewrite Nat.eqb_sym in H. now rewrite H, Nat.eqb_refl.
  Qed.
  Lemma succs_split_other m : m <> n -> m <> fresh -> succs g' m = succs g m.
  Proof. intros H1 H2. unfold succs. rewrite find_split. apply Nat.eqb_neq in H1, H2. now rewrite H1, H2. Qed.
  Lemma lab_split_other m : m <> n -> m <> fresh -> lab g' m = lab g m /\ vids g' m = vids g m.
  Proof. intros H1 H2. unfold lab, vids. rewrite find_split. apply Nat.eqb_neq in H1, H2. now rewrite H1, H2. Qed.
  Lemma word_split_n : lab g' n ++ lab g' fresh = lab g n /\ vids g' n ++ vids g' fresh = vids g n.
  Proof.
    unfold lab, vids. rewrite !find_split, Fn, Nat.eqb_refl. pose proof split_ne as H. apply Nat.eqb_neq in H.
    rewrite Nat.eqb_sym in H. rewrite H, Nat.eqb_refl. cbn [n_lab n_vids]. split; [apply firstn_skipn | apply app_nil_r].
  Qed.

  Lemma sink_split_other m : m <> n -> m <> fresh -> sink g' m = sink g m.
  Proof. intros H1 H2. unfold sink. now rewrite succs_split_other. Qed.
  Lemma sink_split_fresh : sink g' fresh = sink g n.
  Proof. unfold sink. now rewrite succs_split_fresh. Qed.
  Lemma sink_split_n : sink g' n = false.
  Proof. unfold sink. now rewrite succs_split_n. Qed.

  Definition ins (m : nat) : list nat := if Nat.eqb m n then [n; fresh] else [m].

  Lemma word_ins m : m <> fresh ->
    flat_map (lab g') (ins m) = lab g m /\ flat_map (vids g') (ins m) = vids g m.
  Proof.
    intros H. unfold ins. destruct (Nat.eqb m n) eqn:E.
    - apply Nat.eqb_eq in E. subst m. cbn [flat_map]. rewrite !app_nil_r. apply word_split_n.
    - apply Nat.eqb_neq in E. cbn [flat_map]. rewrite !app_nil_r. now apply lab_split_other.
  Qed.

  (* g -> g' : insert the fresh node behind every occurrence of n *)
  Lemma split_fwd m p : Path g (sink g) m p -> m <> fresh ->
    Path g' (sink g') m (flat_map ins p) /\ word g' (flat_map ins p) = word g p.
  Proof.
    intros H. induction H as [m F | m m2 q Hm Hq IH]; intros Hf.
    - cbn [flat_map]. rewrite app_nil_r. split.
      + unfold ins. destruct (Nat.eqb m n) eqn:E.
        * apply Nat.eqb_eq in E. subst m. apply Path_step with fresh; [rewrite succs_split_n; now left|].
          constructor. now rewrite sink_split_fresh.
        * apply Nat.eqb_neq in E. constructor. now rewrite sink_split_other.
      + unfold word. cbn [flat_map]. rewrite !app_nil_r. destruct (word_ins m Hf) as [-> ->]. reflexivity.
    - assert (H2 : m2 <> fresh) by (intros ->; exact (Nofresh m Hm)).
      destruct (IH H2) as [IH1 IH2]. cbn [flat_map]. split.
      + unfold ins at 1. destruct (Nat.eqb m n) eqn:E.
        * apply Nat.eqb_eq in E. subst m. cbn [app]. apply Path_step with fresh; [rewrite succs_split_n; now left|].
          apply Path_step with m2; [now rewrite succs_split_fresh | exact IH1].
        * apply Nat.eqb_neq in E. cbn [app]. apply Path_step with m2; [now rewrite succs_split_other | exact IH1].
      + unfold word in *. rewrite !flat_map_app. destruct (word_ins m Hf) as [-> ->].
        injection IH2 as -> ->. reflexivity.
  Qed.

  (* g' -> g *)
  Lemma split_bwd m p' : Path g' (sink g') m p' ->
    (m <> fresh -> exists p, Path g (sink g) m p /\ word g p = word g' p') /\
    (m = fresh -> exists p, Path g (sink g) n p /\ word g p = word g' (n :: p')).
  Proof.
    intros H. induction H as [m F | m m2 q Hm Hq IH].
    - split.
      + intros Hf. assert (Hn : m <> n) by (intros ->; rewrite sink_split_n in F; discriminate).
        exists [m]. split; [constructor; now rewrite <- sink_split_other|].
        unfold word. cbn [flat_map]. rewrite !app_nil_r. destruct (lab_split_other m Hn Hf) as [-> ->]. reflexivity.
      + intros ->. exists [n]. rewrite sink_split_fresh in F. split; [now constructor|].
        unfold word. cbn [flat_map]. rewrite !app_nil_r. destruct word_split_n as [-> ->]. reflexivity.
    - destruct IH as [IHa IHb]. split.
      + intros Hf. destruct (Nat.eq_dec m n) as [->|Hn].
        * rewrite succs_split_n in Hm. destruct Hm as [<-|[]]. exact (IHb eq_refl).
        * rewrite succs_split_other in Hm by assumption.
          assert (H2 : m2 <> fresh) by (intros ->; exact (Nofresh m Hm)).
          destruct (IHa H2) as (p & Hp & Hw). exists (m :: p). split; [now apply Path_step with m2|].
          unfold word in *. cbn [flat_map]. destruct (lab_split_other m Hn Hf) as [-> ->].
          injection Hw as -> ->. reflexivity.
      + intros ->. rewrite succs_split_fresh in Hm.
        assert (H2 : m2 <> fresh) by (intros ->; exact (Nofresh n Hm)).
        destruct (IHa H2) as (p & Hp & Hw). exists (n :: p). split; [now apply Path_step with m2|].
        unfold word in *. cbn [flat_map]. destruct word_split_n as [<- <-]. rewrite <- !app_assoc.
        injection Hw as -> ->. reflexivity.
  Qed.

  (* cutting the label of a node at any offset (cleavage re-partitioning) keeps the labelled language *)
  Lemma split_lang_lemma m w : m <> fresh -> (Lang g' m w <-> Lang g m w).
  Proof.
    intros Hf. unfold Lang. split.
    - intros (p' & Hp & <-). destruct (split_bwd m p' Hp) as [Ha _]. destruct (Ha Hf) as (p & Hp1 & Hp2). now exists p.
    - intros (p & Hp & <-). destruct (split_fwd m p Hp Hf) as [H1 H2]. now exists (flat_map ins p).
  Qed.
End Split.

(* ------------------------------------------------------------------ moving letters across an edge *)
Lemma find_map_keys (F : nat -> node -> node) (g : graph) : forall m,
  find (map (fun e => (fst e, F (fst e) (snd e))) g) m =
  match find g m with Some x => Some (F m x) | None => None end.
Proof.
  induction g as [|[j x] g IH]; intros m; [reflexivity|]. cbn [map find fst snd].
  destruct (Nat.eqb j m) eqn:E; [apply Nat.eqb_eq in E; now subst | apply IH].
Qed.

Lemma In_preds g j m : In m (succs g j) -> In j (preds g m).
Proof.
  unfold succs. destruct (find g j) as [nd|] eqn:F; [|intros []]. intros H. apply find_In in F.
  unfold preds. apply in_map_iff. exists (j, nd). split; [reflexivity|]. apply filter_In. split; [exact F|].
  cbn [snd]. apply existsb_exists. exists m. split; [exact H | apply Nat.eqb_refl].
Qed.

Lemma Path_ext_fin g (fin1 fin2 : nat -> bool) : (forall j, fin1 j = fin2 j) ->
  forall m p, Path g fin1 m p -> Path g fin2 m p.
Proof.
  intros E m p H. induction H as [m F | m m2 q Hm Hq IH]; [constructor; now rewrite <- E | now apply Path_step with m2].
Qed.

Section Push.
  Variables (g : graph) (n k : nat) (nd : node).
  Hypothesis Fn : find g n = Some nd.
  Hypothesis Noloop : ~ In n (n_succ nd).
  Hypothesis Nosink : n_succ nd <> [].
  Hypothesis Only : forall m, In m (n_succ nd) -> only_pred g n m = true.
  Let g' := push_right g n k.
  Let tail := skipn k (n_lab nd).

  Definition pushF (j : nat) (x : node) : node :=
    if Nat.eqb j n then mkNode (firstn k (n_lab nd)) (n_vids nd) (n_succ nd)
    else if existsb (Nat.eqb j) (n_succ nd) then mkNode (tail ++ n_lab x) (n_vids x) (n_succ x)
    else x.

  Lemma push_as_map : g' = map (fun e => (fst e, pushF (fst e) (snd e))) g.
  Proof.
    subst g'. unfold push_right. rewrite Fn. apply map_ext. intros [j x]. cbn [fst snd]. unfold pushF.
    destruct (Nat.eqb j n) eqn:E; [apply Nat.eqb_eq in E; now subst|].
    destruct (existsb (Nat.eqb j) (n_succ nd)); reflexivity.
  Qed.

  Lemma find_push m : find g' m = match find g m with Some x => Some (pushF m x) | None => None end.
  Proof. rewrite push_as_map. apply find_map_keys. Qed.

  Lemma succs_push m : succs g' m = succs g m.
  Proof.
    unfold succs. rewrite find_push. destruct (find g m) as [x|] eqn:F; [|reflexivity]. unfold pushF.
    destruct (Nat.eqb m n) eqn:E.
    - apply Nat.eqb_eq in E. subst m. rewrite Fn in F. now injection F as ->.
    - now destruct (existsb (Nat.eqb m) (n_succ nd)).
  Qed.
  Lemma vids_push m : vids g' m = vids g m.
  Proof.
    unfold vids. rewrite find_push. destruct (find g m) as [x|] eqn:F; [|reflexivity]. unfold pushF.
    destruct (Nat.eqb m n) eqn:E.
    - apply Nat.eqb_eq in E. subst m. rewrite Fn in F. now injection F as ->.
    - now destruct (existsb (Nat.eqb m) (n_succ nd)).
  Qed.
  Lemma sink_push m : sink g' m = sink g m.
  Proof. unfold sink. now rewrite succs_push. Qed.

  Lemma is_succ_iff m : existsb (Nat.eqb m) (n_succ nd) = true <-> In m (n_succ nd).
  Proof.
    rewrite existsb_exists. split.
    - intros (y & Hy & E). apply Nat.eqb_eq in E. now subst.
    - intros H. exists m. split; [exact H | apply Nat.eqb_refl].
  Qed.

  Lemma lab_push_n : lab g' n = firstn k (n_lab nd).
  Proof. unfold lab. rewrite find_push, Fn. unfold pushF. now rewrite Nat.eqb_refl. Qed.
  Lemma lab_push_succ m : In m (n_succ nd) -> lab g' m = tail ++ lab g m \/ find g m = None.
  Proof.
    intros H. unfold lab. rewrite find_push. destruct (find g m) as [x|]; [left | now right]. unfold pushF.
    assert (m <> n) by (intros ->; contradiction). apply Nat.eqb_neq in H0. rewrite H0.
    apply is_succ_iff in H. now rewrite H.
  Qed.
  Lemma lab_push_other m : m <> n -> ~ In m (n_succ nd) -> lab g' m = lab g m.
  Proof.
    intros H1 H2. unfold lab. rewrite find_push. destruct (find g m) as [x|]; [|reflexivity]. unfold pushF.
    apply Nat.eqb_neq in H1. rewrite H1. destruct (existsb (Nat.eqb m) (n_succ nd)) eqn:E; [|reflexivity].
    apply is_succ_iff in E. contradiction.
  Qed.

  Lemma Path_push fin m p : Path g' fin m p <-> Path g fin m p.
  Proof.
    split; intros H; induction H as [m F | m m2 q Hm Hq IH]; try (now constructor).
    - apply Path_step with m2; [now rewrite <- succs_push | exact IH].
    - apply Path_step with m2; [now rewrite succs_push | exact IH].
  Qed.

  (* every node of g is listed (no dangling successor of n): needed so that the moved letters arrive *)
  Hypothesis Succ_found : forall m, In m (n_succ nd) -> find g m <> None.

  Lemma push_labels m p : Path g (sink g) m p ->
    flat_map (lab g') p = (if existsb (Nat.eqb m) (n_succ nd) then tail else []) ++ flat_map (lab g) p.
  Proof.
    intros H. induction H as [m F | m m2 q Hm Hq IH].
    - (* a single node *)
      cbn [flat_map]. rewrite !app_nil_r. destruct (existsb (Nat.eqb m) (n_succ nd)) eqn:E.
      + apply is_succ_iff in E. destruct (lab_push_succ m E) as [->|H0]; [reflexivity|]. now apply Succ_found in E.
      + cbn [app]. destruct (Nat.eq_dec m n) as [->|Hn].
        * (* n as the LAST node of a path: impossible, n is not a sink *)
          exfalso. unfold sink, succs in F. rewrite Fn in F. destruct (n_succ nd); [now apply Nosink | discriminate].
        * apply lab_push_other; [exact Hn|]. intros H. apply is_succ_iff in H. congruence.
    - cbn [flat_map]. rewrite IH. destruct (Nat.eq_dec m n) as [->|Hn].
      + (* m = n: its successor receives the tail *)
        assert (Hs : In m2 (n_succ nd)) by (unfold succs in Hm; now rewrite Fn in Hm).
        assert (E : existsb (Nat.eqb m2) (n_succ nd) = true) by now apply is_succ_iff.
        rewrite E. assert (E2 : existsb (Nat.eqb n) (n_succ nd) = false).
        { destruct (existsb (Nat.eqb n) (n_succ nd)) eqn:E3; [|reflexivity]. apply is_succ_iff in E3. contradiction. }
        rewrite E2, lab_push_n. cbn [app]. unfold lab at 2. rewrite Fn. rewrite app_assoc.
        unfold tail. now rewrite firstn_skipn.
      + (* m <> n: its successor is not a successor of n (n is the only predecessor of those) *)
        assert (E : existsb (Nat.eqb m2) (n_succ nd) = false).
        { destruct (existsb (Nat.eqb m2) (n_succ nd)) eqn:E3; [|reflexivity]. apply is_succ_iff in E3.
          specialize (Only m2 E3). unfold only_pred in Only. rewrite forallb_forall in Only.
          specialize (Only m (In_preds g m m2 Hm)). apply Nat.eqb_eq in Only. congruence. }
        rewrite E. cbn [app]. destruct (existsb (Nat.eqb m) (n_succ nd)) eqn:E4.
        * apply is_succ_iff in E4. destruct (lab_push_succ m E4) as [->|H0]; [now rewrite app_assoc|].
          now apply Succ_found in E4.
        * cbn [app]. f_equal. apply lab_push_other; [exact Hn|]. intros H. apply is_succ_iff in H. congruence.
  Qed.

  (* moving the letters of n behind offset k into all its successors (codon alignment of a bubble) keeps the
     labelled language of every start node that is not itself a successor of n *)
  Lemma push_lang_lemma m w : ~ In m (n_succ nd) -> (Lang g' m w <-> Lang g m w).
  Proof.
    intros Hm. assert (E : existsb (Nat.eqb m) (n_succ nd) = false).
    { destruct (existsb (Nat.eqb m) (n_succ nd)) eqn:E3; [|reflexivity]. apply is_succ_iff in E3. contradiction. }
    unfold Lang. split.
    - intros (p & Hp & <-). exists p. assert (Hp' : Path g (sink g) m p).
      { apply Path_push. eapply Path_ext_fin; [|exact Hp]. intros j. apply sink_push. }
      split; [exact Hp'|]. unfold word. f_equal.
      + rewrite (push_labels m p Hp'), E. reflexivity.
      + apply flat_map_ext. intros j. symmetry. apply vids_push.
    - intros (p & Hp & <-). exists p. split.
      + apply Path_push in Hp. eapply Path_ext_fin; [|exact Hp]. intros j. symmetry. apply sink_push.
      + unfold word. f_equal.
        * rewrite (push_labels m p Hp), E. reflexivity.
        * apply flat_map_ext. intros j. apply vids_push.
  Qed.
End Push.
