(* Proofs about alternative-splicing backbones (Model/SpecAS.v). *)
From Coq Require Import ZArith List Bool Lia ZifyBool.
From MoPep Require Import Model.Base Model.Rule Model.Digest Model.Spec Model.SpecStmt Model.SpecFusion Model.SpecAS
                          Gen.Bio Proofs.SpecProofs Proofs.SpecFusionProofs Model.SpecCirc Proofs.SpecCircProofs.
Import ListNotations.
Open Scope Z_scope.

(* the backbone of the derived linear input: transcript[:a_s] ++ donor ++ transcript[a_e:] *)
Lemma as_backbone_lemma : forall x r,
  in_tx (as_apply x r) =
  firstn (Z.to_nat (a_s r)) (in_tx x) ++ a_donor r ++ skipn (Z.to_nat (a_e r)) (in_tx x).
Proof. reflexivity. Qed.

(* its records: the records of the transcript that end at or before the event (unchanged), the records of
   the donor segment (moved to where the segment starts), the records that start at or behind the event
   (moved by the length change) *)
Lemma as_records_lemma : forall x r v,
  In v (in_vars (as_apply x r)) <->
  (In v (in_vars x) /\ v_e v <= a_s r) \/
  (exists w, In w (a_dvars r) /\ 0 <= v_s w /\ v_e w <= zlen (a_donor r) /\ v = move (a_s r) w) \/
  (exists w, In w (in_vars x) /\ a_e r <= v_s w /\ v = move (as_delta r) w).
Proof.
  intros x r v. unfold as_apply, as_apply_gen, as_vars. cbn [in_vars].
  rewrite !in_app_iff, filter_In, !in_map_iff. unfold left_ok, right_ok, donor_ok. split.
  - intros [[H1 H2]|[(w & <- & Hw)|(w & <- & Hw)]].
    + left. split; auto. lia.
    + right. left. apply filter_In in Hw as [Hw Hs]. exists w. repeat split; auto; lia.
    + right. right. apply filter_In in Hw as [Hw Hs]. exists w. repeat split; auto. lia.
  - intros [[H1 H2]|[(w & Hw & H0 & H1 & ->)|(w & Hw & Hs & ->)]].
    + left. split; auto. lia.
    + right. left. exists w. split; auto. apply filter_In. split; auto. lia.
    + right. right. exists w. split; auto. apply filter_In. split; auto. lia.
Qed.

(* enumeration of the admissible combinations of AS records *)
Lemma as_combos_spec : forall x rs s,
  In s (as_combos x rs) <->
  exists m, length m = length rs /\ s = select m rs /\
            nonempty s = true /\ as_pairwise s = true /\ forallb (as_ok x) s = true.
Proof.
  intros x rs s. unfold as_combos, as_masks. rewrite in_map_iff. split.
  - intros (m & <- & Hm). apply filter_In in Hm as [Hm Hf]. apply masks_spec in Hm.
    cbn zeta in Hf. rewrite !andb_true_iff in Hf. destruct Hf as [[H1 H2] H3]. exists m. auto.
  - intros (m & Hl & -> & H1 & H2 & H3). exists m. split; auto. apply filter_In. split.
    + apply masks_spec; auto.
    + cbn zeta. rewrite H1, H2, H3. reflexivity.
Qed.

(* C02 for alternative splicing: p is realizable  <->  for some non-empty, pairwise compatible, applicable
   combination s of the supplied AS records, p is a digestion product of the transcript carrying s (the
   derived linear input as_apply_all x s) and a compatible -- possibly empty -- set of the small records
   that remain applicable *)
Lemma realizable_as_iff_lemma : forall x rs p,
  realizable_as x rs p = true <->
  exists m, length m = length rs /\
    let s := select m rs in
    nonempty s = true /\ as_pairwise s = true /\ forallb (as_ok x) s = true /\
    (MayProduct (as_apply_all x s) [] p \/ Realizable (as_apply_all x s) p).
Proof.
  intros x rs p. unfold realizable_as, as_set. rewrite sp_mem_seq_In, in_flat_map. split.
  - intros (s & Hs & Hp). apply as_combos_spec in Hs as (m & Hl & -> & H1 & H2 & H3).
    exists m. cbn zeta. repeat split; auto.
    unfold fusion_set in Hp. rewrite in_app_iff, may_products_spec in Hp.
    destruct Hp as [Hp|Hp]; [left; auto|right].
    apply realizable_iff_lemma. unfold realizable. apply sp_mem_seq_In; auto.
  - intros (m & Hl & H1 & H2 & H3 & Hp). exists (select m rs). split.
    + apply as_combos_spec. exists m. auto.
    + unfold fusion_set. rewrite in_app_iff, may_products_spec.
      destruct Hp as [Hp|Hp]; [left; auto|right].
      apply realizable_iff_lemma in Hp. unfold realizable in Hp. apply sp_mem_seq_In in Hp; auto.
Qed.

(* one record: the combination is the record itself *)
Lemma as_apply_all_one : forall x r, as_apply_all x [r] = as_apply x r.
Proof. reflexivity. Qed.

(* tie to the proved GVF semantics of Model/Rmats.v (apply_record): the backbone of the record read from
   gene coordinates is take/drop of the transcript around the converted interval with the gene slice
   [DONOR_START, DONOR_END) in between *)
Lemma as_of_gvf_backbone : forall conv gseq dv g r t,
  as_of_gvf conv gseq dv g = Some r ->
  (g_kind g = 1 -> exists p, conv (g_pos g) = Some p /\
     as_backbone t r = firstn (Z.to_nat (p + 1)) t ++ slice gseq (g_DS g) (g_DE g) ++ skipn (Z.to_nat (p + 1)) t) /\
  (g_kind g = 0 -> exists a b, conv (g_S g) = Some a /\ conv (g_E g - 1) = Some b /\ a <= b /\
     as_backbone t r = firstn (Z.to_nat a) t ++ skipn (Z.to_nat (b + 1)) t) /\
  (g_kind g <> 0 -> g_kind g <> 1 -> exists a b, conv (g_S g) = Some a /\ conv (g_E g - 1) = Some b /\ a <= b /\
     as_backbone t r = firstn (Z.to_nat a) t ++ slice gseq (g_DS g) (g_DE g) ++ skipn (Z.to_nat (b + 1)) t).
Proof.
  intros conv gseq dv g r t H. unfold as_of_gvf in H.
  destruct (g_kind g =? 1) eqn:K1.
  - destruct (conv (g_pos g)) as [p|] eqn:Hp; [|discriminate]. injection H as <-.
    repeat split; try (intros; lia). intros _. exists p. split; auto.
  - destruct (conv (g_S g)) as [a|] eqn:Ha; [|discriminate].
    destruct (conv (g_E g - 1)) as [b|] eqn:Hb; [|discriminate].
    destruct (a <=? b) eqn:Hab; [|discriminate]. injection H as <-.
    split; [intros; lia|]. split.
    + intros K0. exists a, b. repeat split; auto; try lia.
      unfold as_backbone. cbn [a_s a_e a_donor]. rewrite K0. reflexivity.
    + intros K0 _. exists a, b. repeat split; auto; try lia.
      unfold as_backbone. cbn [a_s a_e a_donor]. destruct (g_kind g =? 0) eqn:K; [lia|]. reflexivity.
Qed.

(* the same, stated against Model/Rmats.v: for a record emitted by the parseRMATS model, the backbone of the
   AS record read from its GVF attributes IS the sequence that Rmats.apply_record (the semantics C16 proves
   the parser's records denote) assigns to it *)
Require MoPep.Model.Rmats.
Definition gvf_of_rmats (r : Rmats.rec) : gvfas :=
  mkGvfAS (match Rmats.r_kind r with Rmats.KDel => 0 | Rmats.KIns => 1 | Rmats.KSub => 2 end)
          (Rmats.r_start r) (Rmats.r_S r) (Rmats.r_E r) (Rmats.r_DS r) (Rmats.r_DE r).

Lemma as_matches_rmats_lemma : forall conv t gseq dv r a,
  as_of_gvf conv gseq dv (gvf_of_rmats r) = Some a ->
  Rmats.apply_record conv t gseq r = Some (as_backbone t a).
Proof.
  intros conv t gseq dv r a H. unfold as_of_gvf, gvf_of_rmats in H. unfold Rmats.apply_record.
  cbn [g_kind g_pos g_S g_E g_DS g_DE] in H.
  destruct (Rmats.r_kind r); cbn in H.
  - destruct (conv (Rmats.r_S r)) as [p|]; [|discriminate].
    destruct (conv (Rmats.r_E r - 1)) as [q|]; [|discriminate].
    destruct (p <=? q); [|discriminate]. injection H as <-. reflexivity.
  - destruct (conv (Rmats.r_start r)) as [p|]; [|discriminate]. injection H as <-. reflexivity.
  - destruct (conv (Rmats.r_S r)) as [p|]; [|discriminate].
    destruct (conv (Rmats.r_E r - 1)) as [q|]; [|discriminate].
    destruct (p <=? q); [|discriminate]. injection H as <-. reflexivity.
Qed.


(* ------------------------------------------------------------------ the reduction lemma *)
(* Write the transcript as A ++ Mid ++ B (Mid = the interval the AS record replaces), D = the donor segment.
   h1 = small records inside A, hd = records inside the donor (donor coordinates), hB = records inside B
   (B coordinates).  The haplotype sequence of the DERIVED linear input (backbone A ++ D ++ B, donor records
   moved by |A|, right-hand records moved by |A| + |D|) is the haplotype sequence of the ORIGINAL transcript
   carrying h1, the AS record as ONE substitution  [|A|, |A|+|Mid|) := (D carrying hd), and the right-hand
   records at their original positions: the AS backbone with shifted records is a linear input. *)
Lemma as_reduction_lemma : forall (A Mid B D : seq) h1 hd hB M,
  chain 0 h1 (zlen A) -> chain 0 hd (zlen D) -> chain 0 hB M ->
  apply_hap (A ++ D ++ B) (h1 ++ map (move (zlen A)) (hd ++ map (move (zlen D)) hB)) =
  apply_hap (A ++ Mid ++ B)
            (h1 ++ map (move (zlen A)) (mkVar 0 (zlen Mid) (apply_hap D hd) true :: map (move (zlen Mid)) hB)).
Proof.
  intros A Mid B D h1 hd hB M H1 Hd HB.
  assert (CD : chain 0 (hd ++ map (move (zlen D)) hB) (M + zlen D)).
  { eapply chain_app; [exact Hd|]. exact (chain_move hB 0 M (zlen D) HB). }
  rewrite (apply_hap_app h1 _ A (D ++ B) _ H1 CD).
  rewrite (apply_hap_app hd hB D B _ Hd HB).
  pose proof (zlen_len Mid) as HM.
  assert (CM : chain 0 (mkVar 0 (zlen Mid) (apply_hap D hd) true :: map (move (zlen Mid)) hB) (M + zlen Mid)).
  { cbn [chain v_s v_e]. repeat split; try lia. exact (chain_move hB 0 M (zlen Mid) HB). }
  rewrite (apply_hap_app h1 _ A (Mid ++ B) _ H1 CM).
  f_equal. unfold apply_hap at 3. cbn [build v_s v_e v_alt].
  replace (zlen Mid) with (zlen Mid + 0) at 1 by lia.
  rewrite (build_right hB Mid B 0 M) by (auto; lia).
  unfold slice. cbn. reflexivity.
Qed.

Lemma skipn_skipn_add : forall {A} (l : list A) n m, skipn n (skipn m l) = skipn (m + n) l.
Proof.
  intros A l n m. revert l. induction m as [|m IH]; intros l; cbn [skipn Nat.add]; [reflexivity|].
  destruct l as [|a l]; [destruct n; reflexivity|]. apply IH.
Qed.

(* the decomposition used above exists for every applicable record: transcript = A ++ Mid ++ B with |A| = a_s,
   |A| + |Mid| = a_e, and the backbone of as_apply is A ++ donor ++ B *)
Lemma as_decompose_lemma : forall x r, as_ok x r = true ->
  let A := firstn (Z.to_nat (a_s r)) (in_tx x) in
  let Mid := slice (in_tx x) (a_s r) (a_e r) in
  let B := skipn (Z.to_nat (a_e r)) (in_tx x) in
  in_tx x = A ++ Mid ++ B /\ zlen A = a_s r /\ zlen A + zlen Mid = a_e r /\
  in_tx (as_apply x r) = A ++ a_donor r ++ B.
Proof.
  intros x r H A Mid B. unfold as_ok in H. rewrite !andb_true_iff in H.
  destruct H as [[[H0 H1] H2] _]. pose proof (zlen_len (in_tx x)) as HL.
  assert (EA : zlen A = a_s r).
  { unfold A. rewrite zlen_len, firstn_length. lia. }
  assert (EM : zlen Mid = a_e r - a_s r).
  { unfold Mid, slice. rewrite zlen_len, firstn_length, skipn_length. lia. }
  repeat split; auto; try lia.
  unfold A, Mid, B, slice.
  rewrite <- (firstn_skipn (Z.to_nat (a_s r)) (in_tx x)) at 1. f_equal.
  rewrite <- (firstn_skipn (Z.to_nat (a_e r - a_s r)) (skipn (Z.to_nat (a_s r)) (in_tx x))) at 1. f_equal.
  rewrite skipn_skipn_add. f_equal. lia.
Qed.


(* ------------------------------------------------------------------ obliged side: the set is its statement *)
Lemma must_as_set_iff_lemma : forall x rs p,
  In p (must_as_set x rs) <->
  (exists r, In r rs /\ as_must_ok x r = true /\
     let y := as_apply_gen false x r in
     (In p (must_products y []) \/ exists h, In h (must_haps y) /\ In p (must_products y h))) /\
  ~ RefProduct x p /\ ~ In p (in_pool x).
Proof.
  intros x rs p. unfold must_as_set. rewrite filter_In, novel_spec, in_flat_map. split.
  - intros [(r & Hr & H) Hn]. split; auto. exists r. split; auto.
    destruct (as_must_ok x r) eqn:E; [|destruct H]. split; auto. cbn zeta.
    unfold must_products_as in H. rewrite in_app_iff, in_flat_map in H. exact H.
  - intros [(r & Hr & E & H) Hn]. split; auto. exists r. split; auto. rewrite E.
    unfold must_products_as. rewrite in_app_iff, in_flat_map. exact H.
Qed.
