(* Proofs about the position-exact reading of generated SECT / W2F identifiers (Model/SpecAltPos.v). *)
From Coq Require Import ZArith List Bool Lia ZifyBool.
From MoPep Require Import Model.Base Model.Rule Model.Digest Model.Spec Model.SpecStmt Model.W2F
                          Model.SpecAlt Model.SpecAltStmt Model.SpecAltPos Gen.Bio
                          Proofs.DigestProofs Proofs.SpecProofs Proofs.W2FProofs Proofs.SpecAltProofs.
Import ListNotations.
Open Scope Z_scope.

(* ------------------------------------------------------------------ products with their place *)
Section CleavePosFacts.
  Variable wt : weight_table.
  Variable water : Z.
  Variable lim : limits.

  Lemma emit_pos_fst s first nf a b :
    map fst (emit_pos wt water lim s first nf a b) = emit wt water lim s first nf a b.
  Proof.
    unfold emit_pos, emit. cbn zeta. rewrite map_app.
    f_equal.
    - destruct (first && negb nf && starts_with_M (piece s a b)); [|reflexivity].
      rewrite map_map. cbn [fst]. apply map_id.
    - rewrite map_map. cbn [fst]. apply map_id.
  Qed.

  Lemma flat_map_map_fst {A} (f : A -> list (seq * nat)) (g : A -> list seq) l :
    (forall a, map fst (f a) = g a) -> map fst (flat_map f l) = flat_map g l.
  Proof.
    intros H. induction l as [|a l IH]; cbn [flat_map]; [reflexivity|].
    rewrite map_app, H, IH. reflexivity.
  Qed.

  Lemma cleave_loop_pos_fst s nf : forall bounds first,
    map fst (cleave_loop_pos wt water lim s nf first bounds) = cleave_loop wt water lim s nf first bounds.
  Proof.
    induction bounds as [|a rest IH]; intros first; cbn [cleave_loop_pos cleave_loop]; [reflexivity|].
    rewrite map_app, IH. f_equal. apply flat_map_map_fst. intros b. apply emit_pos_fst.
  Qed.

  Lemma emit_pos_spec s first nf a b p off :
    In (p, off) (emit_pos wt water lim s first nf a b) <->
    keep wt water lim p = true /\
    ((p = piece s a b /\ off = a) \/
     (first = true /\ nf = false /\ starts_with_M (piece s a b) = true /\ p = tl (piece s a b) /\ off = S a)).
  Proof.
    unfold emit_pos, update. cbn zeta. rewrite in_app_iff, in_map_iff.
    assert (HU: forall (q : seq) (o : nat),
              In (p, off) (map (fun r => (r, o)) (if keep wt water lim q then [q] else [])) <->
              keep wt water lim p = true /\ p = q /\ off = o).
    { intros q o. destruct (keep wt water lim q) eqn:E; cbn [map In].
      - split.
        + intros [H|[]]. injection H as <- <-. auto.
        + intros (_ & -> & ->). left. reflexivity.
      - split; [intros []|]. intros (Hk & -> & _). congruence. }
    destruct (first && negb nf && starts_with_M (piece s a b)) eqn:E.
    - apply andb_true_iff in E as [E E3]. apply andb_true_iff in E as [E1 E2].
      apply negb_true_iff in E2. subst first nf.
      rewrite <- in_map_iff. rewrite !HU. split.
      + intros [(Hk & -> & ->)|(Hk & -> & ->)]; split; auto.
        right. repeat split; auto.
      + intros [Hk [(-> & ->)|(_ & _ & _ & -> & ->)]]; auto.
    - rewrite <- in_map_iff. rewrite HU. cbn [In]. split.
      + intros [[]|(Hk & -> & ->)]. auto.
      + intros [Hk [(-> & ->)|(-> & -> & HM & _)]]; auto.
        cbn in E. rewrite HM in E. discriminate.
  Qed.

  Lemma cleave_loop_pos_spec s nf : forall bounds first p off,
    In (p, off) (cleave_loop_pos wt water lim s nf first bounds) <->
    exists pre a rest b,
      bounds = pre ++ a :: rest /\
      In b (firstn (Z.to_nat (lim_k lim + 1)) rest) /\
      In (p, off) (emit_pos wt water lim s (first && is_nil pre) nf a b).
  Proof.
    induction bounds as [|a0 rest0 IH]; intros first p off; cbn [cleave_loop_pos].
    - split; [intros []|]. intros (pre & a & rest & b & H & _). destruct pre; discriminate.
    - rewrite in_app_iff, in_flat_map, IH. split.
      + intros [(b & Hb & Hp) | (pre & a & rest & b & -> & Hb & Hp)].
        * exists [], a0, rest0, b. cbn. rewrite andb_true_r. auto.
        * exists (a0 :: pre), a, rest, b. cbn. rewrite andb_false_r. cbn in Hp. auto.
      + intros (pre & a & rest & b & He & Hb & Hp). destruct pre as [|a1 pre].
        * cbn in He. injection He as <- <-. left. exists b. cbn in Hp. rewrite andb_true_r in Hp. auto.
        * cbn in He. injection He as <- ->. right. exists pre, a, rest, b.
          cbn in Hp. rewrite andb_false_r in Hp. cbn. auto.
  Qed.
End CleavePosFacts.

Lemma products_pos_fst : forall x nf tail tr, map fst (products_pos x nf tail tr) = products x nf tail tr.
Proof. intros. unfold products_pos, products. apply cleave_loop_pos_fst. Qed.

Lemma products_pos_spec : forall x nf tail tr p off,
  In (p, off) (products_pos x nf tail tr) <-> PosProduct x nf tail tr p off.
Proof.
  intros x nf tail tr p off. unfold products_pos, PosProduct. rewrite cleave_loop_pos_spec. split.
  - intros (pre & a & rest & b & HB & Hb & Hp). exists pre, a, rest, b.
    apply emit_pos_spec in Hp as [Hk Hp]. repeat split; auto.
    destruct Hp as [(-> & ->)|(Hf & -> & HM & -> & ->)]; auto. right. repeat split; auto.
    destruct pre; [reflexivity | discriminate].
  - intros (pre & a & rest & b & HB & Hb & Hk & Hp). exists pre, a, rest, b.
    repeat split; auto. apply emit_pos_spec. split; auto.
    destruct Hp as [(-> & ->)|(-> & -> & HM & -> & ->)]; auto.
    right. repeat split; auto.
Qed.

(* forgetting the place gives exactly the products of Model/Spec.v *)
Lemma PosProduct_Product : forall x nf tail tr p, (exists off, PosProduct x nf tail tr p off) <-> Product x nf tail tr p.
Proof.
  intros x nf tail tr p. rewrite <- products_spec, <- products_pos_fst, in_map_iff. split.
  - intros (off & H). apply products_pos_spec in H. exists (p, off). auto.
  - intros ([q off] & <- & H). exists off. apply products_pos_spec. exact H.
Qed.

(* the product literally occupies the residues off .. off + |p| of the translation *)
Lemma firstn_self_length {A} (n : nat) (l : list A) : firstn (length (firstn n l)) l = firstn n l.
Proof.
  revert l. induction n as [|n IH]; intros [|a l]; cbn; auto. f_equal. apply IH.
Qed.

Lemma skipn_S_tl {A} (a : nat) (s : list A) : skipn (S a) s = tl (skipn a s).
Proof.
  revert s. induction a as [|a IH]; intros s.
  - destruct s as [|c [|d s]]; reflexivity.
  - destruct s as [|c s]; [reflexivity|].
    change (skipn (S (S a)) (c :: s)) with (skipn (S a) s).
    change (skipn (S a) (c :: s)) with (skipn a s). apply IH.
Qed.

Lemma pos_product_occurs_lemma : forall x nf tail tr p off,
  PosProduct x nf tail tr p off -> p = piece (fst tr) off (off + length p).
Proof.
  intros x nf tail tr p off (pre & a & rest & b & _ & _ & _ & H). unfold piece in *.
  replace (off + length p - off)%nat with (length p) by lia.
  destruct H as [(-> & ->)|(_ & _ & HM & -> & ->)].
  - symmetry. apply firstn_self_length.
  - rewrite skipn_S_tl. destruct (skipn a (fst tr)) as [|m r] eqn:E.
    + rewrite firstn_nil in HM. discriminate.
    + destruct (b - a)%nat as [|n]; [discriminate|]. cbn [firstn tl]. symmetry. apply firstn_self_length.
Qed.

Lemma may_products_pos_fst : forall x h q,
  In q (may_products x h) <-> exists c, In (q, c) (may_products_pos x h).
Proof.
  intros x h q. unfold may_products, may_products_pos. cbn zeta. rewrite in_flat_map. split.
  - intros (st & Hst & H). apply in_flat_map in H as (secs & Hs & H).
    rewrite <- products_pos_fst in H. apply in_map_iff in H as ([q' off] & <- & H).
    exists (st + 3 * Z.of_nat off). apply in_flat_map. exists st. split; auto.
    apply in_flat_map. exists secs. split; auto. apply in_map_iff. exists (q', off). auto.
  - intros (c & H). apply in_flat_map in H as (st & Hst & H). apply in_flat_map in H as (secs & Hs & H).
    apply in_map_iff in H as ([q' off] & He & H). cbn [fst snd] in He. injection He as -> _.
    exists st. split; auto. apply in_flat_map. exists secs. split; auto.
    rewrite <- products_pos_fst. apply in_map_iff. exists (q, off). auto.
Qed.

Lemma may_products_pos_spec : forall x h q c,
  In (q, c) (may_products_pos x h) <->
  exists st secs off,
    In st (may_starts x h (apply_hap (in_tx x) h)) /\ In secs (may_secs x h) /\
    PosProduct x false true (translate_from (apply_hap (in_tx x) h) st secs) q off /\
    c = st + 3 * Z.of_nat off.
Proof.
  intros x h q c. unfold may_products_pos. cbn zeta. rewrite in_flat_map. split.
  - intros (st & Hst & H). apply in_flat_map in H as (secs & Hs & H).
    apply in_map_iff in H as ([q' off] & He & H). cbn [fst snd] in He. injection He as -> <-.
    exists st, secs, off. repeat split; auto. apply products_pos_spec. exact H.
  - intros (st & secs & off & Hst & Hs & H & ->). exists st. split; auto.
    apply in_flat_map. exists secs. split; auto. apply in_map_iff. exists (q, off). split; auto.
    apply products_pos_spec. exact H.
Qed.

(* ------------------------------------------------------------------ SECT-n *)
Lemma may_starts_unlimited : forall x h hs, may_starts (unlimited x) h hs = may_starts x h hs.
Proof. reflexivity. Qed.
Lemma may_secs_unlimited : forall x h, may_secs (unlimited x) h = may_secs x h.
Proof. reflexivity. Qed.

Lemma sect_forms_at_spec : forall x h s q c b,
  In b (sect_forms_at x h s (q, c)) <->
  exists k, nth_error q k = Some Spec.U_code /\ c + 3 * Z.of_nat k = shift h s /\ b = firstn k q /\ keepx x b = true.
Proof.
  intros x h s q c b. unfold sect_forms_at. cbn [fst snd]. rewrite filter_In, in_map_iff. split.
  - intros [(k & <- & Hk) Hkeep]. apply filter_In in Hk as [Hk He]. exists k.
    apply u_pos_spec in Hk. repeat split; auto. lia.
  - intros (k & Hk & He & -> & Hkeep). split; auto. exists k. split; auto.
    apply filter_In. split; [apply u_pos_spec; auto | lia].
Qed.

(* the exact form is one of the forms of Model/SpecAlt.v *)
Lemma sect_forms_at_sub : forall x h s q c b, In b (sect_forms_at x h s (q, c)) -> In b (sect_forms x q).
Proof.
  intros x h s q c b H. apply sect_forms_at_spec in H as (k & Hk & _ & -> & Hkeep).
  apply sect_forms_spec. exists k. auto.
Qed.

Lemma memZ_In : forall a l, memZ a l = true <-> In a l.
Proof.
  intros a l. induction l as [|b l IH]; cbn [memZ In]; [split; [discriminate|tauto]|].
  rewrite orb_true_iff, IH, Z.eqb_eq. split; intros [H|H]; auto.
Qed.

Lemma pos_bases_one_spec : forall x h s b,
  In b (pos_bases x h [s]) <-> SectAt x h s b.
Proof.
  intros x h s b. unfold pos_bases, SectAt. cbn zeta.
  destruct (memZ s (in_sec x)) eqn:Em.
  - apply memZ_In in Em. rewrite in_flat_map. split.
    + intros ([q c] & Hq & Hb). split; auto.
      apply may_products_pos_spec in Hq as (st & secs & off & Hst & Hs & Hp & ->).
      apply sect_forms_at_spec in Hb as (k & Hk & He & -> & Hkeep).
      exists st, secs, q, off, k. repeat split; auto. lia.
    + intros (_ & st & secs & q & off & k & Hst & Hs & Hp & Hk & He & -> & Hkeep).
      exists (q, st + 3 * Z.of_nat off). split.
      * apply may_products_pos_spec. exists st, secs, off. auto.
      * apply sect_forms_at_spec. exists k. repeat split; auto. lia.
  - split; [intros []|]. intros (Hin & _). apply memZ_In in Hin. congruence.
Qed.

(* ------------------------------------------------------------------ W2F-i *)
Lemma sublist_cons_l {A} (a : A) s l : sublist (a :: s) l -> sublist s l.
Proof.
  induction l as [|b l IH]; intros H; inversion H; subst.
  - apply sub_skip. apply IH. assumption.
  - apply sub_skip. assumption.
Qed.

Lemma sublistb_spec : forall s l, sublistb s l = true <-> sublist s l.
Proof.
  intros s l. revert s. induction l as [|b l IH]; intros s.
  - destruct s as [|a s]; cbn [sublistb].
    + split; auto. intros _. constructor.
    + split; [discriminate|]. intros H. inversion H.
  - destruct s as [|a s]; cbn [sublistb].
    + split; auto. intros _. apply sublist_nil_l.
    + destruct (Nat.eqb a b) eqn:E.
      * apply Nat.eqb_eq in E. subst b. rewrite IH. split.
        -- intros H. apply sub_take. exact H.
        -- intros H. inversion H; subst; auto. eapply sublist_cons_l; eauto.
      * apply Nat.eqb_neq in E. rewrite IH. split.
        -- intros H. apply sub_skip. exact H.
        -- intros H. inversion H; subst; auto. congruence.
Qed.

Lemma w2f_exact_spec : forall x S b p,
  w2f_exact x S b p = true <->
  S <> [] /\ sublist S (w_positions b) /\ p = apply_w2f S b /\ keepx x p = true.
Proof.
  intros x S b p. unfold w2f_exact. rewrite !andb_true_iff, sublistb_spec, sp_eq_seq_true.
  assert (HN: nonempty S = true <-> S <> []) by (destruct S; cbn; split; congruence).
  rewrite HN. tauto.
Qed.

Lemma w2f_exact_form : forall x S b p, w2f_exact x S b p = true -> In p (w2f_forms x b).
Proof.
  intros x S b p H. apply w2f_exact_spec in H as (H1 & H2 & H3 & H4).
  apply w2f_forms_spec. exists S. auto.
Qed.

(* "exactly the named W and no other": the image differs from the base exactly at the named positions, which
   all carry W in the base and F in the image *)
Lemma w2f_pos_exact_lemma : forall S b p, sublist S (w_positions b) -> p = apply_w2f S b ->
  length p = length b /\
  forall j, (j < length b)%nat ->
    (In j S -> nth j b 0 = W_code /\ nth j p 0 = F_code) /\
    (~ In j S -> nth j p 0 = nth j b 0).
Proof.
  intros S b p Hs ->. split; [apply apply_w2f_length|]. intros j Hj.
  rewrite apply_w2f_nth.
  assert (HM: forall l, W2FProofs.mem_nat j l = true <-> In j l).
  { induction l as [|y l IH]; cbn [W2FProofs.mem_nat In]; [split; [discriminate|tauto]|].
    rewrite orb_true_iff, IH, Nat.eqb_eq. split; intros [H|H]; auto. }
  split.
  - intros Hin. split.
    + pose proof (sublist_In _ _ _ Hs Hin) as Hw. apply w_positions_spec in Hw.
      apply nth_error_nth with (d := 0) in Hw. exact Hw.
    + apply HM in Hin. rewrite Hin. replace (j <? length b)%nat with true by (symmetry; apply Nat.ltb_lt; lia).
      reflexivity.
  - intros Hn. destruct (W2FProofs.mem_nat j S) eqn:E; [|reflexivity]. apply HM in E. contradiction.
Qed.

(* ------------------------------------------------------------------ decider <-> statement *)
Lemma pos_bases_spec : forall x h sect_ids b,
  In b (pos_bases x h sect_ids) <->
  match sect_ids with [] => MayProduct x h b | [s] => SectAt x h s b | _ => False end.
Proof.
  intros x h sect_ids b. destruct sect_ids as [|s [|s' r]].
  - cbn [pos_bases]. apply may_products_spec.
  - apply pos_bases_one_spec.
  - cbn [pos_bases In]. tauto.
Qed.

Lemma witness_ok_pos_iff_lemma : forall x p ids sect_ids w2f_ids,
  witness_ok_pos x p ids sect_ids w2f_ids = true <-> WitnessPos x p ids sect_ids w2f_ids.
Proof.
  intros x p ids sect_ids w2f_ids. unfold witness_ok_pos, WitnessPos, ids_ok. cbn zeta.
  rewrite !andb_true_iff, forallb_forall.
  set (h := named x ids).
  assert (HP: match w2f_ids with
              | [] => mem_seq p (pos_bases x h sect_ids)
              | _ => existsb (fun b => w2f_exact x w2f_ids b p) (pos_bases x h sect_ids)
              end = true <->
              exists b, match sect_ids with [] => MayProduct x h b | [s] => SectAt x h s b | _ => False end /\
                match w2f_ids with
                | [] => p = b
                | _ => sublist w2f_ids (w_positions b) /\ p = apply_w2f w2f_ids b /\ keepx x p = true
                end).
  { destruct w2f_ids as [|w ws].
    - rewrite sp_mem_seq_In. split.
      + intros H. exists p. split; auto. apply pos_bases_spec. exact H.
      + intros (b & Hb & ->). apply pos_bases_spec. exact Hb.
    - rewrite existsb_exists. split.
      + intros (b & Hb & H). apply w2f_exact_spec in H as (_ & H). exists b. split; auto.
        apply pos_bases_spec. exact Hb.
      + intros (b & Hb & H). exists b. split; [apply pos_bases_spec; exact Hb|].
        apply w2f_exact_spec. split; [discriminate|exact H]. }
  rewrite HP. split.
  - intros [Hi [[Hn Hc] Hp]]. repeat split; auto. intros i Hin. apply Nat.ltb_lt. auto.
  - intros [Hi [Hn [Hc Hp]]]. repeat split; auto. intros i Hin. apply Nat.ltb_lt. auto.
Qed.

(* ------------------------------------------------------------------ refinement of witness_ok_fl *)
Lemma pos_bases_sub : forall x h sect_ids b, In b (pos_bases x h sect_ids) ->
  In b (if nonempty sect_ids then flat_map (sect_forms x) (may_products (unlimited x) h) else may_products x h).
Proof.
  intros x h sect_ids b H. destruct sect_ids as [|s [|s' r]]; cbn [nonempty pos_bases] in *; auto.
  - destruct (memZ s (in_sec x)); [|destruct H].
    apply in_flat_map in H as ([q c] & Hq & Hb). apply in_flat_map. exists q. split.
    + apply may_products_pos_fst. exists c. exact Hq.
    + eapply sect_forms_at_sub; eauto.
  - destruct H.
Qed.

Lemma witness_ok_pos_implies_fl_lemma : forall x p ids sect_ids w2f_ids,
  witness_ok_pos x p ids sect_ids w2f_ids = true ->
  witness_ok_fl x p ids (nonempty sect_ids) (nonempty w2f_ids) = true.
Proof.
  intros x p ids sect_ids w2f_ids. unfold witness_ok_pos, witness_ok_fl. cbn zeta.
  rewrite !andb_true_iff. intros [Hi [[Hn Hc] Hp]]. repeat split; auto.
  apply sp_mem_seq_In. destruct w2f_ids as [|w ws]; cbn [nonempty].
  - apply sp_mem_seq_In in Hp. apply pos_bases_sub. exact Hp.
  - apply existsb_exists in Hp as (b & Hb & H). apply in_flat_map. exists b. split.
    + apply pos_bases_sub. exact Hb.
    + eapply w2f_exact_form; eauto.
Qed.

(* no generated identifier: the plain decider of Model/Spec.v *)
Lemma witness_ok_pos_plain_lemma : forall x p ids, witness_ok_pos x p ids [] [] = witness_ok x p ids.
Proof. reflexivity. Qed.

(* ------------------------------------------------------------------ "terminating translation at the named Sec codon" *)
(* a U of a translation is read from an ACTIVE Sec position, and with that position removed from the active
   set (every other Sec still read as U) translation terminates exactly there *)
Definition codon_no_U : Prop := forall c, codon_aa c <> Spec.U_code.

Lemma memZ_removeZ_same a l : memZ a (removeZ a l) = false.
Proof.
  induction l as [|b l IH]; cbn [removeZ memZ]; auto.
  destruct (a =? b) eqn:E; auto. cbn [memZ]. rewrite E, IH. reflexivity.
Qed.

Lemma memZ_removeZ_other a b l : a <> b -> memZ b (removeZ a l) = memZ b l.
Proof.
  intros Hne. induction l as [|c l IH]; cbn [removeZ memZ]; auto.
  destruct (a =? c) eqn:E.
  - apply Z.eqb_eq in E. subst c. rewrite IH. replace (b =? a) with false by lia. reflexivity.
  - cbn [memZ]. rewrite IH. reflexivity.
Qed.

Lemma translate_sect_lemma (HU : codon_no_U) : forall k s i secs,
  nth_error (fst (translate s i secs)) k = Some Spec.U_code ->
  memZ (i + 3 * Z.of_nat k) secs = true /\
  translate s i (removeZ (i + 3 * Z.of_nat k) secs) = (firstn k (fst (translate s i secs)), true).
Proof.
  induction k as [|k IH]; intros s i secs H.
  - destruct s as [|a [|b [|c s']]]; cbn [translate fst nth_error] in H; try discriminate.
    replace (i + 3 * Z.of_nat 0) with i by lia.
    cbn [translate]. destruct (codon_aa [a; b; c] =? STOP) eqn:Es.
    + destruct (memZ i secs && eq_seq [a; b; c] [T_nt; G_nt; A_nt]) eqn:Em.
      * apply andb_true_iff in Em as [Em _]. split; auto.
        rewrite memZ_removeZ_same. cbn [andb firstn]. reflexivity.
      * cbn [fst nth_error] in H. discriminate.
    + cbn [fst nth_error] in H. injection H as H. exfalso. exact (HU _ H).
  - destruct s as [|a [|b [|c s']]]; cbn [translate fst nth_error] in H; try discriminate.
    replace (i + 3 * Z.of_nat (S k)) with ((i + 3) + 3 * Z.of_nat k) by lia.
    cbn [translate] in *. destruct (codon_aa [a; b; c] =? STOP) eqn:Es.
    + destruct (memZ i secs && eq_seq [a; b; c] [T_nt; G_nt; A_nt]) eqn:Em.
      * cbn [fst nth_error] in H. apply IH in H as [H1 H2]. split; auto.
        rewrite memZ_removeZ_other by lia. rewrite Em, H2. cbn [fst snd firstn]. reflexivity.
      * cbn [fst nth_error] in H. discriminate.
    + cbn [fst nth_error] in H. apply IH in H as [H1 H2]. split; auto.
      rewrite H2. cbn [fst snd firstn]. reflexivity.
Qed.

Lemma lookup_In_snd {A} (name : list Z) (t : list (list Z * A)) a : lookup name t = Some a -> In a (map snd t).
Proof.
  induction t as [|[n v] t IH]; cbn [lookup map snd In]; [discriminate|].
  destruct (eq_seq name n); [intros H; injection H as ->; auto | auto].
Qed.

(* (translator) the premise holds for the codon table regenerated from the installed Biopython *)
Lemma bio_codon_no_U_lemma : codon_no_U.
Proof.
  intros c. unfold codon_aa. destruct (lookup c codon_table) as [a|] eqn:E.
  - apply lookup_In_snd in E.
    assert (HC: forallb (fun z => negb (z =? Spec.U_code)) (map snd codon_table) = true) by (vm_compute; reflexivity).
    rewrite forallb_forall in HC. apply HC in E. unfold Spec.U_code in *. lia.
  - unfold X_code, Spec.U_code. lia.
Qed.
