(* Proofs about the digestion model (C10). *)
From Coq Require Import ZArith List Bool Lia ZifyBool Arith.
From MoPep Require Import Model.Base Model.Rule Model.Digest.
Import ListNotations.
Open Scope Z_scope.

(* ------------------------------------------------------------------ *)
(* 1. sites: the scanning loop = the declarative "every position matched by some alternative" *)

Lemma raw_sites_ctx_spec r : forall s rl rt i j,
  In j (raw_sites_ctx r rl s rt i) <->
  exists l x t, s = l ++ x :: t /\ j = (i + length l + 1)%nat /\
                rule_match r (rev l ++ rl) x (t ++ rt) = true.
Proof.
  induction s as [|x s IH]; intros rl rt i j; cbn [raw_sites_ctx].
  - split; [intros []|]. intros (l & y & t & H & _). destruct l; discriminate.
  - destruct (rule_match r rl x (s ++ rt)) eqn:Hm.
    + cbn [In]. rewrite IH. split.
      * intros [<- | (l & y & t & -> & -> & Hy)].
        -- exists [], x, s. cbn. repeat split; [lia | exact Hm].
        -- exists (x :: l), y, t. cbn [app length rev]. rewrite <- app_assoc. cbn.
           repeat split; [lia | exact Hy].
      * intros (l & y & t & Hs & -> & Hy). destruct l as [|z l].
        -- left. cbn. lia.
        -- right. cbn in Hs. injection Hs as <- ->. exists l, y, t.
           cbn [rev length] in *. rewrite <- app_assoc in Hy. cbn in Hy.
           repeat split; [lia | exact Hy].
    + rewrite IH. split.
      * intros (l & y & t & -> & -> & Hy). exists (x :: l), y, t.
        cbn [app length rev]. rewrite <- app_assoc. cbn. repeat split; [lia | exact Hy].
      * intros (l & y & t & Hs & -> & Hy). destruct l as [|z l].
        -- cbn in Hs. injection Hs as <- <-. cbn in Hy. congruence.
        -- cbn in Hs. injection Hs as <- ->. exists l, y, t.
           cbn [rev length] in *. rewrite <- app_assoc in Hy. cbn in Hy.
           repeat split; [lia | exact Hy].
Qed.

(* declarative site predicate: position j (1-based end of the matched residue) is a rule site of s *)
Definition is_site (r : rule) (s : seq) (j : nat) : Prop :=
  exists l x t, s = l ++ x :: t /\ j = S (length l) /\ rule_match r (rev l) x t = true.

Lemma raw_sites_spec r s j : In j (raw_sites r s) <-> is_site r s j.
Proof.
  unfold raw_sites, is_site. rewrite raw_sites_ctx_spec. split.
  - intros (l & x & t & -> & -> & H). exists l, x, t. rewrite !app_nil_r in H.
    repeat split; [lia | exact H].
  - intros (l & x & t & -> & -> & H). exists l, x, t. rewrite !app_nil_r.
    repeat split; [lia | exact H].
Qed.

Lemma mem_nat_In x l : mem_nat x l = true <-> In x l.
Proof.
  induction l as [|y l IH]; cbn; [split; [discriminate | intros []]|].
  rewrite orb_true_iff, IH, Nat.eqb_eq. split; intros [H|H]; auto.
Qed.

(* iter_enzymatic_cleave_sites: sites are the rule's sites that are not exception sites *)
Theorem sites_spec r exc s j :
  In j (sites r exc s) <->
  is_site r s j /\ match exc with None => True | Some e => ~ is_site e s j end.
Proof.
  unfold sites. destruct exc as [e|].
  - rewrite filter_In, raw_sites_spec, negb_true_iff.
    split; intros [H1 H2]; split; auto.
    + rewrite <- raw_sites_spec, <- mem_nat_In. congruence.
    + destruct (mem_nat j (raw_sites e s)) eqn:E; auto.
      exfalso. apply H2. rewrite <- raw_sites_spec, <- mem_nat_In. exact E.
  - rewrite raw_sites_spec. tauto.
Qed.

(* sites are reported in strictly increasing order, each in 1..|s| *)
Lemma raw_sites_ctx_range r : forall s rl rt i j,
  In j (raw_sites_ctx r rl s rt i) -> (i < j <= i + length s)%nat.
Proof.
  intros s rl rt i j H. apply raw_sites_ctx_spec in H.
  destruct H as (l & x & t & -> & -> & _). rewrite app_length. cbn. lia.
Qed.

Inductive incr_from : nat -> list nat -> Prop :=
| incr_nil i : incr_from i []
| incr_cons i j l : (i < j)%nat -> incr_from j l -> incr_from i (j :: l).

Lemma incr_from_weaken i i' l : (i' <= i)%nat -> incr_from i l -> incr_from i' l.
Proof. intros Hle H. destruct H; constructor; [lia | assumption]. Qed.

Lemma raw_sites_ctx_incr r : forall s rl rt i, incr_from i (raw_sites_ctx r rl s rt i).
Proof.
  induction s as [|x s IH]; intros rl rt i; cbn [raw_sites_ctx]; [constructor|].
  destruct (rule_match r rl x (s ++ rt)).
  - constructor; [lia | apply IH].
  - apply incr_from_weaken with (S i); [lia | apply IH].
Qed.

Lemma incr_from_filter f : forall l i, incr_from i l -> incr_from i (filter f l).
Proof.
  induction l as [|j l IH]; intros i H; cbn; [constructor|].
  inversion H; subst. destruct (f j).
  - constructor; auto.
  - apply incr_from_weaken with j; [lia | auto].
Qed.

Theorem sites_increasing r exc s : incr_from 0 (sites r exc s).
Proof.
  unfold sites. destruct exc; [apply incr_from_filter|]; apply raw_sites_ctx_incr.
Qed.

(* ------------------------------------------------------------------ *)
(* 2. locality: a site depends only on a window of the rule's reach; partition independence *)

Lemma match_prefix_firstn cs : forall s n, (length cs <= n)%nat ->
  match_prefix cs (firstn n s) = match_prefix cs s.
Proof.
  induction cs as [|c cs IH]; intros s n Hn; [reflexivity|].
  cbn [length] in Hn. destruct n as [|n]; [lia|].
  destruct s as [|x s]; cbn; [reflexivity|]. rewrite IH by lia. reflexivity.
Qed.

Lemma match_prefix_agree cs s1 s2 n : (length cs <= n)%nat ->
  firstn n s1 = firstn n s2 -> match_prefix cs s1 = match_prefix cs s2.
Proof.
  intros Hn H. rewrite <- (match_prefix_firstn cs s1 n Hn), <- (match_prefix_firstn cs s2 n Hn).
  now rewrite H.
Qed.

Lemma maxlen_ge {A} (f : alt -> list A) r a : In a r -> (length (f a) <= maxlen f r)%nat.
Proof.
  induction r as [|b r IH]; intros H; [destruct H|]. cbn [maxlen].
  destruct H as [-> | H]; [lia | specialize (IH H); lia].
Qed.

Lemma rule_match_agree r rl1 rl2 x rt1 rt2 nb na :
  (reach_before r <= nb)%nat -> (reach_after r <= na)%nat ->
  firstn nb rl1 = firstn nb rl2 -> firstn na rt1 = firstn na rt2 ->
  rule_match r rl1 x rt1 = rule_match r rl2 x rt2.
Proof.
  intros Hb Ha H1 H2. unfold rule_match.
  assert (forall a, In a r -> alt_match a rl1 x rt1 = alt_match a rl2 x rt2) as Hall.
  { intros a Hin. unfold alt_match.
    rewrite (match_prefix_agree (rev (before a)) rl1 rl2 nb), (match_prefix_agree (after a) rt1 rt2 na); auto.
    - pose proof (maxlen_ge after r a Hin). unfold reach_after in Ha. lia.
    - rewrite rev_length. pose proof (maxlen_ge before r a Hin). unfold reach_before in Hb. lia. }
  clear Hb Ha. induction r as [|a r IH]; [reflexivity|]. cbn [existsb].
  rewrite Hall by (left; reflexivity). rewrite IH; [reflexivity|].
  intros b Hb. apply Hall. right; exact Hb.
Qed.

Lemma firstn_S_agree {A} n (a b : list A) :
  firstn (S n) a = firstn (S n) b -> firstn n a = firstn n b.
Proof.
  intros H.
  replace (firstn n a) with (firstn n (firstn (S n) a)) by (rewrite firstn_firstn; f_equal; lia).
  replace (firstn n b) with (firstn n (firstn (S n) b)) by (rewrite firstn_firstn; f_equal; lia).
  now rewrite H.
Qed.

Lemma firstn_app_agree {A} n (a b1 b2 : list A) :
  firstn n b1 = firstn n b2 -> firstn n (a ++ b1) = firstn n (a ++ b2).
Proof.
  revert n. induction a as [|x a IH]; intros n H; [exact H|].
  destruct n as [|n]; [reflexivity|]. cbn. f_equal. apply IH.
  now apply firstn_S_agree.
Qed.

Lemma firstn_cons_agree {A} n (x : A) l1 l2 :
  firstn n l1 = firstn n l2 -> firstn n (x :: l1) = firstn n (x :: l2).
Proof. intros H. apply (firstn_app_agree n [x] l1 l2 H). Qed.

(* the sites found inside s depend only on [nb] residues of left context and [na] of right context *)
Lemma raw_sites_ctx_agree r nb na : (reach_before r <= nb)%nat -> (reach_after r <= na)%nat ->
  forall s rl1 rl2 rt1 rt2 i,
  firstn nb rl1 = firstn nb rl2 -> firstn na rt1 = firstn na rt2 ->
  raw_sites_ctx r rl1 s rt1 i = raw_sites_ctx r rl2 s rt2 i.
Proof.
  intros Hb Ha. induction s as [|x s IH]; intros rl1 rl2 rt1 rt2 i H1 H2; [reflexivity|].
  cbn [raw_sites_ctx].
  rewrite (rule_match_agree r rl1 rl2 x (s ++ rt1) (s ++ rt2) nb na Hb Ha H1 (firstn_app_agree na s rt1 rt2 H2)).
  rewrite (IH (x :: rl1) (x :: rl2) rt1 rt2 (S i) (firstn_cons_agree nb x rl1 rl2 H1) H2).
  reflexivity.
Qed.

Lemma firstn_firstn_same {A} n (l : list A) : firstn n (firstn n l) = firstn n l.
Proof. rewrite firstn_firstn. now rewrite Nat.min_id. Qed.

Lemma raw_sites_ctx_window r s rl rt i :
  raw_sites_ctx r rl s rt i =
  raw_sites_ctx r (firstn (reach_before r) rl) s (firstn (reach_after r) rt) i.
Proof.
  apply (raw_sites_ctx_agree r (reach_before r) (reach_after r)); auto;
  now rewrite firstn_firstn_same.
Qed.

(* cutting s = a ++ b anywhere: the sites of the whole are the sites of the parts seen in context *)
Lemma raw_sites_ctx_app r : forall a b rl rt i,
  raw_sites_ctx r rl (a ++ b) rt i =
  raw_sites_ctx r rl a (b ++ rt) i ++ raw_sites_ctx r (rev a ++ rl) b rt (i + length a).
Proof.
  induction a as [|x a IH]; intros b rl rt i.
  - cbn. now rewrite Nat.add_0_r.
  - cbn [app raw_sites_ctx length rev]. rewrite <- !app_assoc. cbn [app].
    rewrite IH. replace (S i + length a)%nat with (i + S (length a))%nat by lia.
    destruct (rule_match r rl x (a ++ b ++ rt)); reflexivity.
Qed.

Lemma filter_app_disjoint (A1 A2 E1 E2 : list nat) m :
  (forall j, In j A1 -> (j <= m)%nat) -> (forall j, In j E1 -> (j <= m)%nat) ->
  (forall j, In j A2 -> (m < j)%nat) -> (forall j, In j E2 -> (m < j)%nat) ->
  filter (fun j => negb (mem_nat j (E1 ++ E2))) (A1 ++ A2) =
  filter (fun j => negb (mem_nat j E1)) A1 ++ filter (fun j => negb (mem_nat j E2)) A2.
Proof.
  intros HA1 HE1 HA2 HE2. rewrite filter_app. f_equal; apply filter_ext_in; intros j Hj; f_equal.
  - destruct (mem_nat j (E1 ++ E2)) eqn:E.
    + apply mem_nat_In, in_app_or in E. destruct E as [E|E].
      * symmetry. now apply mem_nat_In.
      * specialize (HA1 j Hj). specialize (HE2 j E). lia.
    + destruct (mem_nat j E1) eqn:E'; auto.
      apply mem_nat_In in E'. assert (In j (E1 ++ E2)) as Hin by (apply in_or_app; auto).
      apply mem_nat_In in Hin. congruence.
  - destruct (mem_nat j (E1 ++ E2)) eqn:E.
    + apply mem_nat_In, in_app_or in E. destruct E as [E|E].
      * specialize (HA2 j Hj). specialize (HE1 j E). lia.
      * symmetry. now apply mem_nat_In.
    + destruct (mem_nat j E2) eqn:E'; auto.
      apply mem_nat_In in E'. assert (In j (E1 ++ E2)) as Hin by (apply in_or_app; auto).
      apply mem_nat_In in Hin. congruence.
Qed.

Theorem sites_ctx_app r exc a b rl rt i :
  sites_ctx r exc rl (a ++ b) rt i =
  sites_ctx r exc rl a (b ++ rt) i ++ sites_ctx r exc (rev a ++ rl) b rt (i + length a).
Proof.
  unfold sites_ctx. destruct exc as [e|]; [|apply raw_sites_ctx_app].
  rewrite !raw_sites_ctx_app.
  apply filter_app_disjoint with (m := (i + length a)%nat); intros j Hj;
    apply raw_sites_ctx_range in Hj; lia.
Qed.

Definition reach_b (r : rule) (exc : option rule) : nat :=
  Nat.max (reach_before r) (match exc with Some e => reach_before e | None => 0 end).
Definition reach_a (r : rule) (exc : option rule) : nat :=
  Nat.max (reach_after r) (match exc with Some e => reach_after e | None => 0 end).

Theorem sites_ctx_window r exc s rl rt i :
  sites_ctx r exc rl s rt i =
  sites_ctx r exc (firstn (reach_b r exc) rl) s (firstn (reach_a r exc) rt) i.
Proof.
  unfold sites_ctx, reach_b, reach_a. destruct exc as [e|].
  - rewrite (raw_sites_ctx_agree r (Nat.max (reach_before r) (reach_before e)) (Nat.max (reach_after r) (reach_after e))
               ltac:(lia) ltac:(lia) s rl (firstn (Nat.max (reach_before r) (reach_before e)) rl)
               rt (firstn (Nat.max (reach_after r) (reach_after e)) rt) i)
      by now rewrite firstn_firstn_same.
    rewrite (raw_sites_ctx_agree e (Nat.max (reach_before r) (reach_before e)) (Nat.max (reach_after r) (reach_after e))
               ltac:(lia) ltac:(lia) s rl (firstn (Nat.max (reach_before r) (reach_before e)) rl)
               rt (firstn (Nat.max (reach_after r) (reach_after e)) rt) i)
      by now rewrite firstn_firstn_same.
    reflexivity.
  - rewrite !Nat.max_0_r. apply raw_sites_ctx_window.
Qed.

Lemma sites_as_ctx r exc s : sites r exc s = sites_ctx r exc [] s [] 0.
Proof. unfold sites, sites_ctx, raw_sites. reflexivity. Qed.

(* Partition independence: however s is cut into a ++ b, examining each part with
   [reach_b] residues of left context and [reach_a] residues of right context gives
   exactly the sites of the whole sequence. *)
Theorem sites_partition r exc a b :
  sites r exc (a ++ b) =
  sites_ctx r exc [] a (firstn (reach_a r exc) b) 0 ++
  sites_ctx r exc (firstn (reach_b r exc) (rev a)) b [] (length a).
Proof.
  rewrite sites_as_ctx, sites_ctx_app. rewrite !app_nil_r. cbn [Nat.add].
  rewrite (sites_ctx_window r exc a [] b 0), (sites_ctx_window r exc b (rev a) [] (length a)).
  cbn [firstn]. destruct (reach_b r exc), (reach_a r exc); reflexivity.
Qed.

(* ------------------------------------------------------------------ *)
(* 3. enzymatic_cleave = the declarative digest *)

Section CleaveProofs.
  Variable wt : weight_table.
  Variable water : Z.
  Variable lim : limits.

  Notation keep := (keep wt water lim).
  Notation emit := (emit wt water lim).
  Notation cleave_loop := (cleave_loop wt water lim).
  Notation cleave := (cleave wt water lim).
  Notation pool := (pool wt water lim).

  Definition is_nil {A} (l : list A) : bool := match l with [] => true | _ => false end.

  (* what one (start,end) pair contributes *)
  Lemma emit_spec s first nf a b p :
    In p (emit s first nf a b) <->
    keep p = true /\
    (p = piece s a b \/
     (first = true /\ nf = false /\ starts_with_M (piece s a b) = true /\ p = tl (piece s a b))).
  Proof.
    unfold Digest.emit, update. rewrite in_app_iff.
    destruct (first && negb nf && starts_with_M (piece s a b)) eqn:E.
    - apply andb_true_iff in E as [E E3]. apply andb_true_iff in E as [E1 E2].
      apply negb_true_iff in E2. subst.
      destruct (Digest.keep wt water lim (tl (piece s a b))) eqn:K1;
      destruct (Digest.keep wt water lim (piece s a b)) eqn:K2; cbn; split.
      all: try (intros [[<-|[]]|[<-|[]]]; split; auto; right; auto).
      all: try (intros [[]|[<-|[]]]; split; auto).
      all: try (intros [[<-|[]]|[]]; split; auto; right; auto).
      all: try (intros [[]|[]]).
      all: intros [Hk [->|(_ & _ & _ & ->)]]; auto; try congruence.
    - destruct (Digest.keep wt water lim (piece s a b)) eqn:K2; cbn; split.
      + intros [[]|[<-|[]]]; auto.
      + intros [Hk [->|(-> & -> & HM & ->)]]; auto. cbn in E. congruence.
      + intros [[]|[]].
      + intros [Hk [->|(-> & -> & HM & ->)]]; [congruence|]. cbn in E. congruence.
  Qed.

  Lemma cleave_loop_spec s nf : forall bounds first p,
    In p (cleave_loop s nf first bounds) <->
    exists pre a rest b,
      bounds = pre ++ a :: rest /\
      In b (firstn (Z.to_nat (lim_k lim + 1)) rest) /\
      In p (emit s (first && is_nil pre) nf a b).
  Proof.
    induction bounds as [|a0 rest0 IH]; intros first p; cbn [Digest.cleave_loop].
    - split; [intros []|]. intros (pre & a & rest & b & H & _). destruct pre; discriminate.
    - rewrite in_app_iff, in_flat_map, IH. split.
      + intros [(b & Hb & Hp) | (pre & a & rest & b & -> & Hb & Hp)].
        * exists [], a0, rest0, b. cbn. rewrite andb_true_r. auto.
        * exists (a0 :: pre), a, rest, b. cbn. rewrite andb_false_r. cbn in Hp. auto.
      + intros (pre & a & rest & b & H & Hb & Hp). destruct pre as [|z pre].
        * cbn in H. injection H as <- <-. left. exists b. cbn in Hp. rewrite andb_true_r in Hp. auto.
        * cbn in H. injection H as <- ->. right. exists pre, a, rest, b.
          cbn in Hp. rewrite andb_false_r in Hp. cbn. auto.
  Qed.

  (* Declarative digest.  B = 0 :: sites ++ [|s|] is the boundary list; a product is the piece between
     the i-th boundary and one of the next (k+1) boundaries (at most k missed cleavages), and, for the
     very first boundary of a protein whose start is known, additionally the same piece without its
     leading methionine; each subject to the limits (no X, mass strictly above min_mw, length range). *)
  Definition Digest_product (r : rule) (exc : option rule) (nf : bool) (s p : seq) : Prop :=
    exists pre a rest b,
      bounds_of r exc s = pre ++ a :: rest /\
      In b (firstn (Z.to_nat (lim_k lim + 1)) rest) /\
      keep p = true /\
      (p = piece s a b \/
       (pre = [] /\ nf = false /\ starts_with_M (piece s a b) = true /\ p = tl (piece s a b))).

  Theorem cleave_spec r exc nf s p :
    In p (cleave r exc nf s) <-> Digest_product r exc nf s p.
  Proof.
    unfold Digest.cleave, Digest_product. rewrite cleave_loop_spec. split.
    - intros (pre & a & rest & b & HB & Hb & Hp). exists pre, a, rest, b.
      apply emit_spec in Hp as [Hk Hp]. repeat split; auto.
      destruct Hp as [->|(Hf & -> & HM & ->)]; auto. right. repeat split; auto.
      destruct pre; [reflexivity | discriminate].
    - intros (pre & a & rest & b & HB & Hb & Hk & Hp). exists pre, a, rest, b.
      repeat split; auto. apply emit_spec. split; auto.
      destruct Hp as [->|(-> & -> & HM & ->)]; auto.
  Qed.

  (* every product is a contiguous piece of s (possibly minus a leading M), so nothing is invented *)
  Corollary cleave_sub r exc nf s p :
    In p (cleave r exc nf s) -> exists a b, p = piece s a b \/ p = tl (piece s a b).
  Proof.
    rewrite cleave_spec. intros (pre & a & rest & b & _ & _ & _ & [->|(_ & _ & _ & ->)]); eauto.
  Qed.

  Corollary cleave_within_limits r exc nf s p :
    In p (cleave r exc nf s) ->
    memZ X_code p = false /\ lim_min_mw4 lim < mass4 wt water p /\
    lim_min_len lim <= Z.of_nat (length p) <= lim_max_len lim.
  Proof.
    rewrite cleave_spec. intros (_ & _ & _ & _ & _ & _ & Hk & _).
    unfold Digest.keep in Hk. repeat (apply andb_true_iff in Hk as [Hk ?]).
    apply negb_true_iff in Hk. lia.
  Qed.

  (* miscleavage monotone: allowing more missed cleavages only adds products *)

  (* ---- the pool ---- *)
  Lemma i2l_idem p : i2l (i2l p) = i2l p.
  Proof.
    unfold i2l. rewrite map_map. apply map_ext. intros c.
    destruct (c =? I_code) eqn:E; [reflexivity|]. now rewrite E.
  Qed.

  Theorem pool_spec r exc prots q :
    In q (pool r exc prots) <->
    exists pr p, In pr prots /\ In p (cleave r exc (snd pr) (prep (fst pr))) /\ (q = p \/ q = i2l p).
  Proof.
    unfold Digest.pool, protein_peptides. rewrite in_flat_map. split.
    - intros (pr & Hpr & Hq). apply in_flat_map in Hq as (p & Hp & Hq).
      exists pr, p. cbn in Hq. intuition.
    - intros (pr & p & Hpr & Hp & Hq). exists pr. split; auto.
      apply in_flat_map. exists p. split; auto. cbn. intuition.
  Qed.

  Theorem pool_closed_I2L r exc prots q :
    In q (pool r exc prots) -> In (i2l q) (pool r exc prots).
  Proof.
    rewrite !pool_spec. intros (pr & p & Hpr & Hp & [->| ->]); exists pr, p; repeat split; auto.
    right. apply i2l_idem.
  Qed.

  (* prep: leading X removed, cut at the first stop *)
  Lemma cut_at_stop_spec s : exists t, (s = cut_at_stop s ++ t) /\ memZ STAR_code (cut_at_stop s) = false /\
    (t = [] \/ exists t', t = STAR_code :: t').
  Proof.
    induction s as [|c s (t & H1 & H2 & H3)]; cbn.
    - exists []. auto.
    - destruct (c =? STAR_code) eqn:E.
      + exists (c :: s). cbn. repeat split; auto. right. exists s. f_equal. lia.
      + exists t. cbn [app memZ]. rewrite <- H1. repeat split; auto.
        assert ((STAR_code =? c) = false) as -> by lia. exact H2.
  Qed.

  Lemma lstrip_X_spec s : exists n, s = repeat X_code n ++ lstrip_X s /\
    match lstrip_X s with c :: _ => c <> X_code | [] => True end.
  Proof.
    induction s as [|c s (n & H1 & H2)]; cbn.
    - exists O. auto.
    - destruct (c =? X_code) eqn:E.
      + exists (S n). cbn. split; [|exact H2]. f_equal; [lia | exact H1].
      + exists O. cbn. split; auto. lia.
  Qed.
End CleaveProofs.

(* miscleavage monotonicity needs two different limit records *)
Lemma firstn_incl {A} (l : list A) n m x : (n <= m)%nat -> In x (firstn n l) -> In x (firstn m l).
Proof.
  revert n m. induction l as [|y l IH]; intros n m Hnm H; destruct n, m; cbn in *; try lia; auto.
  destruct H as [->|H]; auto. right. apply IH with n; [lia | exact H].
Qed.

Theorem cleave_mono_k wt water lim1 lim2 r exc nf s p :
  lim_k lim1 <= lim_k lim2 ->
  lim_min_mw4 lim1 = lim_min_mw4 lim2 -> lim_min_len lim1 = lim_min_len lim2 ->
  lim_max_len lim1 = lim_max_len lim2 ->
  In p (cleave wt water lim1 r exc nf s) -> In p (cleave wt water lim2 r exc nf s).
Proof.
  intros Hk H1 H2 H3. rewrite !cleave_spec.
  intros (pre & a & rest & b & HB & Hb & Hkeep & Hp). exists pre, a, rest, b.
  repeat split; auto.
  - apply firstn_incl with (n := Z.to_nat (lim_k lim1 + 1)); [lia | exact Hb].
  - unfold keep in *. rewrite <- H1, <- H2, <- H3. exact Hkeep.
Qed.
