(* C04 - proofs about Model/PepTable.v *)
From Coq Require Import ZArith List Bool Lia ZifyBool Permutation.
From MoPep Require Import Model.Base Model.Digest Model.PepTable Model.PepFilterLang.
Import ListNotations.
Open Scope Z_scope.

(* ------------------------------------------------------------------ basics *)
Lemma eq_seq_iff : forall a b, eq_seq a b = true <-> a = b.
Proof.
  induction a as [|x a IH]; destruct b as [|y b]; cbn [eq_seq]; split; intro H; try congruence; try discriminate.
  - apply andb_true_iff in H. destruct H as [H1 H2]. apply Z.eqb_eq in H1. apply IH in H2. congruence.
  - inversion H; subst. apply andb_true_iff. split. apply Z.eqb_refl. apply IH. reflexivity.
Qed.

Lemma eq_seq_refl a : eq_seq a a = true.
Proof. apply eq_seq_iff. reflexivity. Qed.

Lemma eq_seq_false_iff a b : eq_seq a b = false <-> a <> b.
Proof.
  split; intro H.
  - intro E. apply eq_seq_iff in E. congruence.
  - destruct (eq_seq a b) eqn:E; [apply eq_seq_iff in E; contradiction | reflexivity].
Qed.

Lemma eq_seq_sym a b : eq_seq a b = eq_seq b a.
Proof.
  destruct (eq_seq a b) eqn:E1, (eq_seq b a) eqn:E2; try reflexivity.
  - apply eq_seq_iff in E1. subst. rewrite eq_seq_refl in E2. discriminate.
  - apply eq_seq_iff in E2. subst. rewrite eq_seq_refl in E1. discriminate.
Qed.

Lemma mem_seq_iff x l : mem_seq x l = true <-> In x l.
Proof.
  induction l as [|y l IH]; cbn [mem_seq In]; [split; [discriminate | tauto]|].
  rewrite orb_true_iff, eq_seq_iff, IH. split; intros [H|H]; auto.
Qed.

Lemma mem_seq_false_iff x l : mem_seq x l = false <-> ~ In x l.
Proof.
  rewrite <- mem_seq_iff. destruct (mem_seq x l); split; intro H; try congruence; try reflexivity.
Qed.

Lemma memZ_iff x l : memZ x l = true <-> In x l.
Proof.
  induction l as [|y l IH]; cbn [memZ In]; [split; [discriminate | tauto]|].
  rewrite orb_true_iff, Z.eqb_eq, IH. split; intros [H|H]; auto.
Qed.

(* ------------------------------------------------------------------ text: split, rstrip, dec *)
Lemma split_no_sep sep : forall a, ~ In sep a -> split sep a = [a].
Proof.
  induction a as [|c a IH]; intro H; cbn [split]; [reflexivity|].
  destruct (c =? sep) eqn:E.
  - apply Z.eqb_eq in E. subst. exfalso. apply H. left. reflexivity.
  - rewrite IH. reflexivity. intro K. apply H. right. exact K.
Qed.

Lemma split_app_sep sep : forall a b, ~ In sep a -> split sep (a ++ sep :: b) = a :: split sep b.
Proof.
  induction a as [|c a IH]; intros b H.
  - cbn [app split]. rewrite Z.eqb_refl. reflexivity.
  - cbn [app split]. destruct (c =? sep) eqn:E.
    + apply Z.eqb_eq in E. subst. exfalso. apply H. left. reflexivity.
    + rewrite IH. reflexivity. intro K. apply H. right. exact K.
Qed.

Lemma rstrip_ws_end w : is_ws w = true -> forall t, rstrip (t ++ [w]) = rstrip t.
Proof.
  intros Hw. induction t as [|c t IH].
  - cbn [app rstrip]. rewrite Hw. reflexivity.
  - cbn [app rstrip]. rewrite IH. reflexivity.
Qed.

Lemma rstrip_nonws_cons d b : is_ws d = false -> rstrip (d :: b) = d :: rstrip b.
Proof. intro H. cbn [rstrip]. destruct (rstrip b); [rewrite H|]; reflexivity. Qed.

Lemma rstrip_app_keep : forall a b, rstrip b <> [] -> rstrip (a ++ b) = a ++ rstrip b.
Proof.
  induction a as [|c a IH]; intros b H; [reflexivity|].
  cbn [app rstrip]. rewrite (IH b H).
  destruct (a ++ rstrip b) eqn:E; [|reflexivity].
  apply app_eq_nil in E. destruct E as [_ E]. contradiction.
Qed.

Lemma rstrip_app_nonws a d b : is_ws d = false -> rstrip (a ++ d :: b) = a ++ d :: rstrip b.
Proof.
  intro H. rewrite rstrip_app_keep; rewrite (rstrip_nonws_cons d b H); [reflexivity | discriminate].
Qed.

Lemma rstrip_incl : forall s c, In c (rstrip s) -> In c s.
Proof.
  induction s as [|x s IH]; intros c H; [exact H|].
  cbn [rstrip] in H. destruct (rstrip s) eqn:E.
  - destruct (is_ws x); [contradiction|]. destruct H as [H|[]]. left. exact H.
  - destruct H as [H|H]; [left; exact H | right; apply IH; exact H].
Qed.

Definition digitish (c : Z) : Prop := 45 <= c <= 57.

Lemma digitish_not_ws c : digitish c -> is_ws c = false.
Proof. unfold digitish, is_ws. intro H. lia. Qed.

Lemma dec_pos_chars : forall fuel n acc, 0 <= n ->
  (forall c, In c acc -> digitish c) -> forall c, In c (dec_pos fuel n acc) -> digitish c.
Proof.
  induction fuel as [|f IH]; intros n acc Hn Hacc c Hc; cbn [dec_pos] in Hc; [auto|].
  assert (Hd : forall c, In c ((48 + n mod 10) :: acc) -> digitish c).
  { intros c' [E|E]; [|auto]. subst. unfold digitish. pose proof (Z.mod_pos_bound n 10). lia. }
  destruct (n <? 10); [auto|].
  eapply IH; [| exact Hd | exact Hc]. apply Z.div_pos; lia.
Qed.

Lemma dec_pos_nonempty : forall fuel n acc, dec_pos (S fuel) n acc <> [].
Proof.
  induction fuel as [|f IH]; intros n acc; cbn [dec_pos].
  - destruct (n <? 10); discriminate.
  - destruct (n <? 10); [discriminate|]. apply IH.
Qed.

Lemma dec_chars z c : In c (dec z) -> digitish c.
Proof.
  unfold dec. destruct (z <? 0) eqn:E.
  - intros [H|H]; [subst; unfold digitish; lia|].
    eapply dec_pos_chars; [| | exact H]; [lia | intros ? []].
  - intro H. eapply dec_pos_chars; [| | exact H]; [lia | intros ? []].
Qed.

Lemma dec_nonempty z : dec z <> [].
Proof. unfold dec. destruct (z <? 0); [discriminate | apply dec_pos_nonempty]. Qed.

Lemma dec_head z : exists d ds, dec z = d :: ds /\ is_ws d = false /\ d <> NL /\ d <> TAB.
Proof.
  destruct (dec z) as [|d ds] eqn:E; [exfalso; eapply dec_nonempty; exact E|].
  exists d, ds. assert (H : digitish d) by (apply (dec_chars z); rewrite E; left; reflexivity).
  split; [reflexivity|]. split; [apply digitish_not_ws; exact H|]. unfold digitish, NL, TAB in *. lia.
Qed.

(* ------------------------------------------------------------------ slices *)
Lemma In_firstn {A} (x : A) : forall n l, In x (firstn n l) -> In x l.
Proof.
  induction n as [|n IH]; intros [|y l] H; cbn in H; try contradiction.
  destruct H as [H|H]; [left; exact H | right; apply IH; exact H].
Qed.

Lemma In_skipn {A} (x : A) : forall n l, In x (skipn n l) -> In x l.
Proof.
  induction n as [|n IH]; intros [|y l] H; cbn in H; try contradiction; try exact H.
  right. apply IH. exact H.
Qed.

Lemma py_slice_incl {A} (s : list A) a b x : In x (py_slice s a b) -> In x s.
Proof.
  unfold py_slice. intro H. apply In_firstn in H. eapply In_skipn. exact H.
Qed.

(* ------------------------------------------------------------------ shape of a row *)
Definition nochar (c : Z) (s : seq) : Prop := ~ In c s.

Definition clean_opt (o : option seq) : Prop := match o with Some s => nochar NL s | None => True end.
Definition clean_seg (g : segment) : Prop := clean_opt (sg_ftype g) /\ clean_opt (sg_fid g) /\ clean_opt (sg_var g).
Definition clean_op (op : seq * anno) : Prop :=
  nochar TAB (fst op) /\ nochar NL (fst op) /\
  nochar TAB (an_label (snd op)) /\ nochar NL (an_label (snd op)) /\
  Forall clean_seg (an_segs (snd op)).

Lemma or_dot_clean o : clean_opt o -> nochar NL (or_dot o).
Proof.
  destruct o as [[|c s]|]; cbn [or_dot clean_opt]; intro H; try exact H;
    intros [E|[]]; unfold DOT, NL in E; discriminate.
Qed.

Lemma dec_clean z : nochar NL (dec z).
Proof. intro H. apply dec_chars in H. unfold digitish, NL in H. lia. Qed.

Lemma join_nochar c sep : c <> sep -> forall fs, Forall (nochar c) fs -> nochar c (join sep fs).
Proof.
  intros Hc. induction fs as [|f r IH]; intro H; [intros []|].
  inversion H as [|? ? Hf Hr]; subst. cbn [join]. destruct r as [|f' r']; [exact Hf|].
  intro K. apply in_app_or in K. destruct K as [K|[K|K]]; [exact (Hf K) | congruence | exact (IH Hr K)].
Qed.

Lemma seg_fields_clean g : clean_seg g -> Forall (nochar NL) (seg_fields g).
Proof.
  intros (H1 & H2 & H3). unfold seg_fields.
  repeat (apply Forall_app; split).
  - repeat constructor; auto using dec_clean, or_dot_clean.
  - destruct (sg_ref g) as [r|].
    + destruct (l_end r - l_start r =? 0); repeat constructor; auto using dec_clean;
        intros [E|[]]; unfold DOT, NL in E; discriminate.
    + repeat constructor; intros [E|[]]; unfold DOT, NL in E; discriminate.
  - repeat constructor; auto using dec_clean, or_dot_clean.
Qed.

Definition line_tail (r : row) : seq := join TAB (seg_fields (r_seg r)).
Definition row_line (r : row) : seq :=
  r_seq r ++ TAB :: r_label r ++ TAB :: r_sub r ++ TAB :: line_tail r.

Lemma seg_fields_shape g : exists more, seg_fields g = dec (l_start (sg_query g)) :: dec (l_end (sg_query g)) :: more.
Proof. unfold seg_fields. cbn [app]. eexists. reflexivity. Qed.

Lemma render_row_line r : render_row r = row_line r ++ [NL].
Proof.
  unfold render_row, row_line, line_tail. destruct (seg_fields_shape (r_seg r)) as [more E]. rewrite E.
  cbn [app join]. rewrite <- !app_assoc. cbn [app]. rewrite <- !app_assoc. cbn [app].
  rewrite <- !app_assoc. cbn [app]. reflexivity.
Qed.

Lemma line_tail_head r : exists d rest, line_tail r = d :: rest /\ is_ws d = false.
Proof.
  unfold line_tail. destruct (seg_fields_shape (r_seg r)) as [more E]. rewrite E.
  destruct (dec_head (l_start (sg_query (r_seg r)))) as (d & ds & Ed & Hws & _ & _).
  cbn [join]. rewrite Ed. cbn [app]. eexists. eexists. split; [reflexivity | exact Hws].
Qed.

Lemma row_line_clean p a g : clean_op (p, a) -> clean_seg g -> nochar NL (row_line (row_of p a g)).
Proof.
  intros (Hp1 & Hp2 & Hl1 & Hl2 & _) Hg. cbn [fst snd] in *.
  unfold row_line, row_of, line_tail; cbn [r_seq r_label r_sub r_seg].
  assert (Hsub : nochar NL (py_slice p (l_start (sg_query g)) (l_end (sg_query g)))).
  { intro K. apply py_slice_incl in K. exact (Hp2 K). }
  assert (Ht : nochar NL (join TAB (seg_fields g))).
  { apply join_nochar; [unfold NL, TAB; discriminate | apply seg_fields_clean; exact Hg]. }
  intro K.
  repeat (apply in_app_or in K; destruct K as [K|K]; [solve [auto] | destruct K as [K|K]; [unfold TAB, NL in K; discriminate|]]).
  exact (Ht K).
Qed.

(* a line `p \t label \t more` *)
Definition line_of (p l : seq) (ln : seq) : Prop := exists more, ln = p ++ TAB :: l ++ TAB :: more.

Lemma load_lines_ok p l : nochar TAB p -> nochar TAB l ->
  forall lines acc, Forall (line_of p l) lines ->
  load_lines p lines acc = LoadOk (acc ++ repeat l (length lines)).
Proof.
  intros Hp Hl. induction lines as [|ln lines IH]; intros acc H.
  - cbn. rewrite app_nil_r. reflexivity.
  - inversion H as [|? ? [more E] Hr]; subst. cbn [load_lines].
    rewrite split_app_sep by exact Hp. rewrite split_app_sep by exact Hl.
    rewrite eq_seq_refl. rewrite IH by exact Hr. cbn [length repeat].
    rewrite <- app_assoc. reflexivity.
Qed.

(* parsing back one block: the text of one add_peptide call with at least one segment *)
Lemma block_parse p a : clean_op (p, a) ->
  forall segs, segs <> [] -> Forall clean_seg segs ->
  exists lines, split NL (rstrip (flat_map render_row (map (row_of p a) segs))) = lines /\
                length lines = length segs /\ Forall (line_of p (an_label a)) lines.
Proof.
  intros Hop. induction segs as [|g segs IH]; intros Hne Hcl; [congruence|].
  inversion Hcl as [|? ? Hg Hrest]; subst.
  pose proof (row_line_clean p a g Hop Hg) as Hnl.
  assert (Hshape : line_of p (an_label a) (row_line (row_of p a g))).
  { unfold line_of, row_line, row_of; cbn [r_seq r_label r_sub r_seg]. eexists. reflexivity. }
  destruct segs as [|g' segs'].
  - (* last row of the block *)
    cbn [map flat_map]. rewrite app_nil_r, render_row_line.
    rewrite rstrip_ws_end by reflexivity.
    destruct (line_tail_head (row_of p a g)) as (d & rest & Et & Hws).
    unfold row_line in *. rewrite Et in *.
    set (pre := r_seq (row_of p a g) ++ TAB :: r_label (row_of p a g) ++ TAB :: r_sub (row_of p a g) ++ [TAB]).
    assert (Epre : r_seq (row_of p a g) ++ TAB :: r_label (row_of p a g) ++ TAB :: r_sub (row_of p a g) ++ TAB :: d :: rest
                   = pre ++ d :: rest).
    { unfold pre. rewrite <- !app_assoc. cbn [app]. rewrite <- !app_assoc. cbn [app]. rewrite <- !app_assoc. reflexivity. }
    rewrite Epre in *. rewrite rstrip_app_nonws by exact Hws.
    eexists. split; [apply split_no_sep|split; [reflexivity|]].
    + intro K. apply Hnl. apply in_app_or in K. apply in_or_app. destruct K as [K|K]; [left; exact K|right].
      destruct K as [K|K]; [left; exact K | right; apply rstrip_incl; exact K].
    + constructor; [|constructor]. unfold line_of, pre, row_of; cbn [r_seq r_label r_sub r_seg].
      eexists. rewrite <- !app_assoc. cbn [app]. rewrite <- !app_assoc. cbn [app]. rewrite <- !app_assoc. cbn [app]. reflexivity.
  - destruct (IH ltac:(discriminate) Hrest) as (lines & Esplit & Hlen & Hall).
    assert (Hne' : rstrip (flat_map render_row (map (row_of p a) (g' :: segs'))) <> []).
    { intro K. rewrite K in Esplit. cbn [split] in Esplit. subst lines.
      inversion Hall as [|? ? [more E] _]. destruct p; discriminate. }
    change (flat_map render_row (map (row_of p a) (g :: g' :: segs')))
      with (render_row (row_of p a g) ++ flat_map render_row (map (row_of p a) (g' :: segs'))).
    rewrite render_row_line, <- app_assoc. cbn [app].
    rewrite rstrip_app_keep.
    2:{ cbn [rstrip]. destruct (rstrip (flat_map render_row (map (row_of p a) (g' :: segs')))); [contradiction | discriminate]. }
    assert (Er : rstrip (NL :: flat_map render_row (map (row_of p a) (g' :: segs')))
                 = NL :: rstrip (flat_map render_row (map (row_of p a) (g' :: segs')))).
    { cbn [rstrip]. destruct (rstrip (flat_map render_row (map (row_of p a) (g' :: segs')))); [contradiction | reflexivity]. }
    rewrite Er, split_app_sep by exact Hnl. rewrite Esplit.
    eexists. split; [reflexivity|]. split; [cbn [length]; rewrite Hlen; reflexivity|].
    constructor; assumption.
Qed.

(* ------------------------------------------------------------------ blocks inside the file *)
Lemma read_block (pre block post : seq) :
  firstn (Z.to_nat (Z.of_nat (length (pre ++ block)) - Z.of_nat (length pre)))
         (skipn (Z.to_nat (Z.of_nat (length pre))) (pre ++ block ++ post)) = block.
Proof.
  rewrite Nat2Z.id, app_length.
  replace (Z.to_nat (Z.of_nat (length pre + length block) - Z.of_nat (length pre))) with (length block) by lia.
  rewrite skipn_app, skipn_all, Nat.sub_diag. cbn [app skipn].
  rewrite firstn_app, firstn_all, Nat.sub_diag. cbn [firstn]. apply app_nil_r.
Qed.

(* (s, e) are the offsets of the text of add_peptide(p, a) inside file *)
Definition blk (file p : seq) (se : Z * Z) (a : anno) : Prop :=
  exists pre post, file = pre ++ block_text p a ++ post /\
                   fst se = Z.of_nat (length pre) /\ snd se = Z.of_nat (length (pre ++ block_text p a)).

Lemma blk_app file p se a x : blk file p se a -> blk (file ++ x) p se a.
Proof.
  intros (pre & post & E & Hs & He). exists pre, (post ++ x). subst file.
  rewrite <- !app_assoc. auto.
Qed.

Definition good_anno (p : seq) (a : anno) : Prop := clean_op (p, a) /\ an_segs a <> [].

Lemma load_blocks_ok file p : forall offs annos acc,
  Forall2 (blk file p) offs annos -> Forall (good_anno p) annos ->
  load_blocks file p offs acc =
  LoadOk (acc ++ flat_map (fun a => repeat (an_label a) (length (an_segs a))) annos).
Proof.
  induction offs as [|[s e] offs IH]; intros annos acc H2 Hg; inversion H2; subst.
  - cbn. rewrite app_nil_r. reflexivity.
  - inversion Hg as [|? ? [Hc Hne] Hg']; subst.
    match goal with H : blk _ _ _ _ |- _ => destruct H as (pre & post & E & Hs & He) end.
    cbn [fst snd] in Hs, He. subst s e. cbn [load_blocks].
    rewrite E at 1. rewrite read_block.
    destruct Hc as (Hp1 & Hp2 & Hl1 & Hl2 & Hsegs). cbn [fst snd] in *.
    destruct (block_parse p y (conj Hp1 (conj Hp2 (conj Hl1 (conj Hl2 Hsegs)))) (an_segs y) Hne Hsegs)
      as (lines & Esplit & Hlen & Hall).
    unfold block_text, rows_of_add. rewrite Esplit.
    rewrite (load_lines_ok p (an_label y) Hp1 Hl1 lines acc Hall).
    rewrite IH with (annos := l') by assumption.
    cbn [flat_map]. rewrite Hlen, <- app_assoc. reflexivity.
Qed.

(* ------------------------------------------------------------------ dedup *)
Lemma filter_filter_same {A} (f : A -> bool) l : filter f (filter f l) = filter f l.
Proof.
  induction l as [|x l IH]; [reflexivity|]. cbn [filter]. destruct (f x) eqn:E; [|exact IH].
  cbn [filter]. rewrite E, IH. reflexivity.
Qed.

Lemma dedup_In x l : In x (dedup l) <-> In x l.
Proof.
  induction l as [|y l IH]; [tauto|]. cbn [dedup In]. rewrite filter_In, IH.
  split.
  - intros [H|[H _]]; auto.
  - intros [H|H]; [left; exact H|]. destruct (eq_seq y x) eqn:E.
    + left. apply eq_seq_iff. exact E.
    + right. split; [exact H | reflexivity].
Qed.

Lemma NoDup_filter {A} (f : A -> bool) l : NoDup l -> NoDup (filter f l).
Proof.
  induction 1 as [|x l Hx Hl IH]; [constructor|]. cbn [filter]. destruct (f x); [|exact IH].
  constructor; [|exact IH]. intro K. apply filter_In in K. apply Hx. apply K.
Qed.

Lemma dedup_NoDup l : NoDup (dedup l).
Proof.
  induction l as [|y l IH]; [constructor|]. cbn [dedup]. constructor.
  - intro K. apply filter_In in K. destruct K as [_ K]. rewrite eq_seq_refl in K. discriminate.
  - apply NoDup_filter. exact IH.
Qed.

Lemma dedup_repeat x : forall k r, dedup (repeat x (S k) ++ r) = dedup (x :: r).
Proof.
  induction k as [|k IH]; intro r; [reflexivity|].
  change (repeat x (S (S k)) ++ r) with (x :: (repeat x (S k) ++ r)).
  cbn [dedup]. rewrite IH. cbn [dedup filter]. rewrite eq_seq_refl. cbn [negb].
  rewrite filter_filter_same. reflexivity.
Qed.

Lemma dedup_blocks : forall annos : list anno, Forall (fun a => an_segs a <> []) annos ->
  dedup (flat_map (fun a => repeat (an_label a) (length (an_segs a))) annos) = dedup (map an_label annos).
Proof.
  induction annos as [|a annos IH]; intro H; [reflexivity|].
  inversion H as [|? ? Hne Hr]; subst. cbn [flat_map map].
  destruct (an_segs a) as [|g segs]; [congruence|]. cbn [length].
  rewrite dedup_repeat. cbn [dedup]. rewrite IH by exact Hr. reflexivity.
Qed.

(* ------------------------------------------------------------------ insertion-ordered maps *)
Lemma assoc_add_keys {V} k (v : V) : forall m,
  map fst (assoc_add k v m) = if mem_seq k (map fst m) then map fst m else map fst m ++ [k].
Proof.
  induction m as [|[k' vs] m IH]; [reflexivity|].
  cbn [assoc_add map fst mem_seq]. destruct (eq_seq k k') eqn:E; cbn [orb map fst]; [reflexivity|].
  rewrite IH. destruct (mem_seq k (map fst m)); reflexivity.
Qed.

Lemma assoc_add_NoDup {V} k (v : V) m : NoDup (map fst m) -> NoDup (map fst (assoc_add k v m)).
Proof.
  intro H. rewrite assoc_add_keys. destruct (mem_seq k (map fst m)) eqn:E; [exact H|].
  apply mem_seq_false_iff in E.
  apply Permutation_NoDup with (l := k :: map fst m).
  - apply Permutation_cons_append.
  - constructor; assumption.
Qed.

Lemma assoc_add_In {V} k (v : V) : forall m k1 (x : V),
  (exists vs, In (k1, vs) (assoc_add k v m) /\ In x vs) <->
  (exists vs, In (k1, vs) m /\ In x vs) \/ (k1 = k /\ x = v).
Proof.
  induction m as [|[k' vs'] m IH]; intros k1 x.
  - cbn [assoc_add In]. split.
    + intros (vs & [E|[]] & Hx). inversion E; subst. destruct Hx as [Hx|[]]. right. auto.
    + intros [(vs & [] & _)|[E1 E2]]. subst. exists [v]. split; left; reflexivity.
  - cbn [assoc_add]. destruct (eq_seq k k') eqn:E.
    + apply eq_seq_iff in E. subst k'. split.
      * intros (vs & [E|Hin] & Hx).
        -- inversion E; subst. apply in_app_or in Hx. destruct Hx as [Hx|[Hx|[]]].
           ++ left. exists vs'. split; [left; reflexivity | exact Hx].
           ++ right. auto.
        -- left. exists vs. split; [right; exact Hin | exact Hx].
      * intros [(vs & [E|Hin] & Hx)|[E1 E2]].
        -- inversion E; subst. exists (vs ++ [v]). split; [left; reflexivity | apply in_or_app; left; exact Hx].
        -- exists vs. split; [right; exact Hin | exact Hx].
        -- subst. exists (vs' ++ [v]). split; [left; reflexivity | apply in_or_app; right; left; reflexivity].
    + split.
      * intros (vs & [E'|Hin] & Hx).
        -- inversion E'; subst. left. exists vs. split; [left; reflexivity | exact Hx].
        -- destruct (proj1 (IH k1 x) (ex_intro _ vs (conj Hin Hx))) as [(vs2 & H1 & H2)|H].
           ++ left. exists vs2. split; [right; exact H1 | exact H2].
           ++ right. exact H.
      * intros [(vs & [E'|Hin] & Hx)|H].
        -- inversion E'; subst. exists vs. split; [left; reflexivity | exact Hx].
        -- destruct (proj2 (IH k1 x) (or_introl (ex_intro _ vs (conj Hin Hx)))) as (vs2 & H1 & H2).
           exists vs2. split; [right; exact H1 | exact H2].
        -- destruct (proj2 (IH k1 x) (or_intror H)) as (vs2 & H1 & H2).
           exists vs2. split; [right; exact H1 | exact H2].
Qed.

Lemma assoc_get_In {V} : forall (m : list (seq * V)) k v,
  NoDup (map fst m) -> In (k, v) m -> assoc_get k m = Some v.
Proof.
  induction m as [|[k' v'] m IH]; intros k v Hnd Hin; [contradiction|].
  cbn [map fst] in Hnd. inversion Hnd as [|? ? Hk Hnd']; subst.
  cbn [assoc_get]. destruct Hin as [E|Hin].
  - inversion E; subst. rewrite eq_seq_refl. reflexivity.
  - destruct (eq_seq k k') eqn:E.
    + apply eq_seq_iff in E. subst. exfalso. apply Hk. apply in_map_iff. exists (k', v). auto.
    + apply IH; assumption.
Qed.

(* the invariant tying the table to the abstract multimap *)
Definition entry_rel (file : seq) (ie : seq * list (Z * Z)) (me : seq * list anno) : Prop :=
  fst ie = fst me /\ Forall2 (blk file (fst ie)) (snd ie) (snd me).
Definition Rel (file : seq) (index : list (seq * list (Z * Z))) (m : amap) : Prop :=
  Forall2 (entry_rel file) index m.

Lemma Forall2_impl {A B} (P Q : A -> B -> Prop) : (forall a b, P a b -> Q a b) ->
  forall l l', Forall2 P l l' -> Forall2 Q l l'.
Proof. intros H l l' F. induction F; constructor; auto. Qed.

Lemma rel_app file index m x : Rel file index m -> Rel (file ++ x) index m.
Proof.
  apply Forall2_impl. intros [k offs] [k' annos] [E F]. split; [exact E|].
  eapply Forall2_impl; [|exact F]. intros. apply blk_app. assumption.
Qed.

Lemma rel_add file p off a : blk file p off a ->
  forall index m, Rel file index m -> Rel file (assoc_add p off index) (assoc_add p a m).
Proof.
  intros Hb index m F. induction F as [|[k offs] [k' annos] index m [E F1] F IH].
  - constructor; [|constructor]. split; [reflexivity|]. constructor; [exact Hb | constructor].
  - cbn [fst snd] in E. subst k'. cbn [assoc_add]. destruct (eq_seq p k) eqn:Ek.
    + constructor; [|exact F]. split; [reflexivity|]. cbn [fst snd].
      apply Forall2_app; [exact F1|]. apply eq_seq_iff in Ek. subst. constructor; [exact Hb | constructor].
    + constructor; [|exact IH]. split; [reflexivity | exact F1].
Qed.

Lemma rel_keys file index m : Rel file index m -> map fst index = map fst m.
Proof. induction 1 as [|? ? ? ? [E _] _ IH]; [reflexivity|]. cbn [map]. rewrite E, IH. reflexivity. Qed.

Definition add_op (t : table) (op : seq * anno) : table := add_peptide t (fst op) (snd op).
Definition madd (m : amap) (op : seq * anno) : amap := assoc_add (fst op) (snd op) m.

Lemma add_rel t m op : Rel (t_file t) (t_index t) m ->
  Rel (t_file (add_op t op)) (t_index (add_op t op)) (madd m op).
Proof.
  intro H. unfold add_op, add_peptide, madd. cbn [t_file t_index].
  apply rel_add; [|apply rel_app; exact H].
  exists (t_file t), []. cbn [fst snd]. rewrite app_nil_r. auto.
Qed.

Lemma run_rel : forall ops t m, Rel (t_file t) (t_index t) m ->
  Rel (t_file (fold_left add_op ops t)) (t_index (fold_left add_op ops t)) (fold_left madd ops m).
Proof.
  induction ops as [|op ops IH]; intros t m H; [exact H|]. cbn [fold_left]. apply IH. apply add_rel. exact H.
Qed.

Lemma fold_madd_NoDup : forall ops m, NoDup (map fst m) -> NoDup (map fst (fold_left madd ops m)).
Proof.
  induction ops as [|op ops IH]; intros m H; [exact H|]. cbn [fold_left]. apply IH. apply assoc_add_NoDup. exact H.
Qed.

Lemma fold_madd_In : forall ops m k a,
  (exists vs, In (k, vs) (fold_left madd ops m) /\ In a vs) <->
  (exists vs, In (k, vs) m /\ In a vs) \/ In (k, a) ops.
Proof.
  induction ops as [|[k0 a0] ops IH]; intros m k a; cbn [fold_left In]; [tauto|].
  rewrite IH. unfold madd. cbn [fst snd]. rewrite assoc_add_In.
  split; [intros [[H|[E1 E2]]|H] | intros [H|[E|H]]]; subst; auto.
  inversion E; subst. auto.
Qed.

Lemma amap_of_In ops k a : (exists vs, In (k, vs) (amap_of ops) /\ In a vs) <-> In (k, a) ops.
Proof.
  unfold amap_of. change (fun m op => assoc_add (fst op) (snd op) m) with madd.
  rewrite fold_madd_In. split; [intros [(vs & [] & _)|H]; exact H | auto].
Qed.

Lemma amap_of_NoDup ops : NoDup (map fst (amap_of ops)).
Proof. apply fold_madd_NoDup. constructor. Qed.

Lemma amap_nonempty : forall ops m, (forall k vs, In (k, vs) m -> vs <> []) ->
  forall k vs, In (k, vs) (fold_left madd ops m) -> vs <> [].
Proof.
  induction ops as [|op ops IH]; intros m H; [exact H|]. cbn [fold_left]. apply IH.
  clear IH. unfold madd. generalize (fst op) (snd op). intros k0 v0.
  induction m as [|[k' vs'] m IHm]; intros k vs Hin.
  - destruct Hin as [E|[]]. inversion E. discriminate.
  - cbn [assoc_add] in Hin. destruct (eq_seq k0 k').
    + destruct Hin as [E|Hin]; [inversion E; destruct vs'; discriminate | eapply H; right; exact Hin].
    + destruct Hin as [E|Hin]; [inversion E; subst; eapply H; left; reflexivity|].
      eapply IHm; [|exact Hin]. intros. eapply H. right. eassumption.
Qed.

(* ------------------------------------------------------------------ write_fasta over the invariant *)
Lemma write_fasta_keys_ok t : NoDup (map fst (t_index t)) ->
  forall ies mes acc, Forall2 (entry_rel (t_file t)) ies mes ->
  (forall ie, In ie ies -> In ie (t_index t)) ->
  Forall (fun me => Forall (good_anno (fst me)) (snd me)) mes ->
  write_fasta_keys t (map fst ies) acc =
  FastaOk (acc ++ map (fun me => (fst me, dedup (map an_label (snd me)))) mes).
Proof.
  intros Hnd ies mes acc F. revert acc.
  induction F as [|[k offs] [k' annos] ies mes [E F1] F IH]; intros acc Hin Hg.
  - cbn. rewrite app_nil_r. reflexivity.
  - cbn [fst snd] in *. subst k'. inversion Hg as [|? ? Hg1 Hg']; subst. cbn [fst snd] in Hg1.
    cbn [map fst write_fasta_keys]. unfold load_peptide.
    rewrite (assoc_get_In (t_index t) k offs Hnd (Hin _ (or_introl eq_refl))).
    rewrite (load_blocks_ok (t_file t) k offs annos [] F1 Hg1). cbn [app].
    rewrite dedup_blocks.
    2:{ eapply Forall_impl; [|exact Hg1]. intros a [_ H]. exact H. }
    rewrite IH; [| intros; apply Hin; right; assumption | exact Hg'].
    rewrite <- app_assoc. reflexivity.
Qed.

Lemma run_adds_fold ops : run_adds ops = fold_left add_op ops empty_table.
Proof. reflexivity. Qed.

Definition good_op (op : seq * anno) : Prop := clean_op op /\ an_segs (snd op) <> [].

Lemma write_fasta_run ops : Forall good_op ops ->
  write_fasta (run_adds ops) = FastaOk (fasta_of_amap (amap_of ops)).
Proof.
  intro Hg. rewrite run_adds_fold.
  assert (HR : Rel (t_file (fold_left add_op ops empty_table)) (t_index (fold_left add_op ops empty_table)) (amap_of ops)).
  { apply (run_rel ops empty_table []). constructor. }
  unfold write_fasta.
  assert (Hnd : NoDup (map fst (t_index (fold_left add_op ops empty_table)))).
  { rewrite (rel_keys _ _ _ HR). apply amap_of_NoDup. }
  rewrite (write_fasta_keys_ok _ Hnd _ _ [] HR); [reflexivity | auto |].
  apply Forall_forall. intros [k annos] Hin. cbn [fst snd]. apply Forall_forall. intros a Ha.
  assert (Hop : In (k, a) ops) by (apply amap_of_In; exists annos; auto).
  rewrite Forall_forall in Hg. destruct (Hg _ Hop) as [Hc Hne]. split; assumption.
Qed.

(* the abstract map, characterised *)
Lemma fasta_of_amap_spec ops :
  let recs := fasta_of_amap (amap_of ops) in
  NoDup (map fst recs) /\
  (forall p, In p (map fst recs) <-> exists a, In (p, a) ops) /\
  (forall p ls, In (p, ls) recs ->
     NoDup ls /\ forall l, In l ls <-> exists a, In (p, a) ops /\ an_label a = l).
Proof.
  cbn zeta. unfold fasta_of_amap. split; [|split].
  - rewrite map_map. cbn [fst]. apply amap_of_NoDup.
  - intro p. rewrite map_map. cbn [fst]. rewrite in_map_iff. split.
    + intros ([k vs] & E & Hin). cbn [fst] in E. subst k.
      assert (Hne : vs <> []).
      { eapply (amap_nonempty ops []); [intros ? ? [] | exact Hin]. }
      destruct vs as [|a vs]; [congruence|]. exists a. apply amap_of_In. exists (a :: vs). split; [exact Hin | left; reflexivity].
    + intros (a & Hin). apply amap_of_In in Hin. destruct Hin as (vs & Hin & _). exists (p, vs). auto.
  - intros p ls Hin. apply in_map_iff in Hin. destruct Hin as ([k vs] & E & Hin). cbn [fst snd] in E.
    inversion E; subst. split; [apply dedup_NoDup|]. intro l. rewrite dedup_In, in_map_iff. split.
    + intros (a & El & Ha). exists a. split; [|exact El]. apply amap_of_In. exists vs. auto.
    + intros (a & Hop & El). apply amap_of_In in Hop. destruct Hop as (vs' & Hin' & Ha).
      assert (vs' = vs).
      { pose proof (assoc_get_In _ _ _ (amap_of_NoDup ops) Hin) as G1.
        pose proof (assoc_get_In _ _ _ (amap_of_NoDup ops) Hin') as G2. congruence. }
      subst. exists a. auto.
Qed.

(* ------------------------------------------------------------------ the rows of the table *)
Lemma run_file : forall ops t,
  t_file (fold_left add_op ops t) = t_file t ++ flat_map render_row (rows_of_ops ops).
Proof.
  induction ops as [|op ops IH]; intro t; [cbn; rewrite app_nil_r; reflexivity|].
  cbn [fold_left]. rewrite IH. unfold add_op, add_peptide. cbn [t_file].
  unfold rows_of_ops. cbn [flat_map]. rewrite flat_map_app, <- app_assoc. reflexivity.
Qed.

Definition slice_ok (r : row) : Prop :=
  r_sub r = py_slice (r_seq r) (l_start (sg_query (r_seg r))) (l_end (sg_query (r_seg r))).

Lemma rows_of_ops_In ops r :
  In r (rows_of_ops ops) <-> exists p a g, In (p, a) ops /\ In g (an_segs a) /\ r = row_of p a g.
Proof.
  unfold rows_of_ops, rows_of_add. rewrite in_flat_map. split.
  - intros ([p a] & Hop & Hr). cbn [fst snd] in Hr. apply in_map_iff in Hr. destruct Hr as (g & E & Hg).
    exists p, a, g. auto.
  - intros (p & a & g & Hop & Hg & E). exists (p, a). split; [exact Hop|]. cbn [fst snd].
    apply in_map_iff. exists g. auto.
Qed.

Lemma rows_slices_proof ops :
  t_file (run_adds ops) = header_text ++ flat_map render_row (rows_of_ops ops) /\
  Forall slice_ok (rows_of_ops ops) /\
  (forall p l, (exists r, In r (rows_of_ops ops) /\ r_seq r = p /\ r_label r = l) <->
               (exists a, In (p, a) ops /\ an_label a = l /\ an_segs a <> [])).
Proof.
  split; [|split].
  - rewrite run_adds_fold, run_file. reflexivity.
  - apply Forall_forall. intros r Hr. apply rows_of_ops_In in Hr. destruct Hr as (p & a & g & _ & _ & E).
    subst r. reflexivity.
  - intros p l. split.
    + intros (r & Hr & E1 & E2). apply rows_of_ops_In in Hr. destruct Hr as (p' & a & g & Hop & Hg & E).
      subst r. cbn [row_of r_seq r_label] in *. subst. exists a. split; [exact Hop|]. split; [reflexivity|].
      intro K. rewrite K in Hg. exact Hg.
    + intros (a & Hop & El & Hne). destruct (an_segs a) as [|g segs] eqn:Es; [congruence|].
      exists (row_of p a g). split; [|split; [reflexivity | exact El]].
      apply rows_of_ops_In. exists p, a, g. rewrite Es. split; [exact Hop|]. split; [left; reflexivity | reflexivity].
Qed.

Lemma table_refines_map_proof ops : Forall good_op ops ->
  exists recs, write_fasta (run_adds ops) = FastaOk recs /\
    recs = fasta_of_amap (amap_of ops) /\
    NoDup (map fst recs) /\
    (forall p, In p (map fst recs) <-> exists a, In (p, a) ops) /\
    (forall p ls, In (p, ls) recs ->
       NoDup ls /\ forall l, In l ls <-> exists a, In (p, a) ops /\ an_label a = l).
Proof.
  intro Hg. exists (fasta_of_amap (amap_of ops)). split; [apply write_fasta_run; exact Hg|].
  split; [reflexivity|]. apply fasta_of_amap_spec.
Qed.

Lemma table_pairs_proof ops : Forall good_op ops ->
  exists recs, write_fasta (run_adds ops) = FastaOk recs /\
  forall p l, (exists r, In r (rows_of_ops ops) /\ r_seq r = p /\ r_label r = l) <->
              (exists ls, In (p, ls) recs /\ In l ls).
Proof.
  intro Hg. destruct (table_refines_map_proof ops Hg) as (recs & Hw & _ & Hnd & Hkeys & Hls).
  exists recs. split; [exact Hw|]. intros p l.
  rewrite (proj2 (proj2 (rows_slices_proof ops)) p l). split.
  - intros (a & Hop & El & _).
    assert (Hk : In p (map fst recs)) by (apply Hkeys; exists a; exact Hop).
    apply in_map_iff in Hk. destruct Hk as ([p' ls] & E & Hin). cbn [fst] in E. subst p'.
    exists ls. split; [exact Hin|]. apply (Hls p ls Hin). exists a. auto.
  - intros (ls & Hin & Hl). apply (Hls p ls Hin) in Hl. destruct Hl as (a & Hop & El).
    exists a. split; [exact Hop|]. split; [exact El|].
    rewrite Forall_forall in Hg. apply (Hg _ Hop).
Qed.

(* an annotation without segments leaves a record that load_peptide cannot read back *)
Lemma empty_anno_breaks_proof p l : p <> [] ->
  write_fasta (run_adds [(p, mkAnno l [])]) = FastaErr LoadValueError.
Proof.
  intro Hp. unfold run_adds, write_fasta. cbn [fold_left fst snd].
  unfold add_peptide, block_text, rows_of_add. cbn [an_segs map flat_map empty_table t_file t_index assoc_add fst].
  rewrite app_nil_r. cbn [write_fasta_keys]. unfold load_peptide. cbn [t_index assoc_get]. rewrite eq_seq_refl.
  cbn [t_file load_blocks]. rewrite Z.sub_diag. cbn [Z.to_nat firstn rstrip split load_lines].
  destruct p as [|c p]; [congruence|]. reflexivity.
Qed.

(* ------------------------------------------------------------------ filters *)
Section FilterProofs.
  Variable wt : weight_table.
  Variable water : Z.

  Definition Valid (pool : list seq) (lim : limits) (p : seq) : Prop :=
    valid_letters wt p = true /\ ~ In p pool /\
    lim_min_len lim <= Z.of_nat (length p) <= lim_max_len lim /\
    lim_min_mw4 lim <= mass4 wt water p.

  Lemma valid_iff_proof pool lim p : is_valid wt water pool lim p = Some true <-> Valid pool lim p.
  Proof.
    unfold is_valid, Valid.
    destruct (valid_letters wt p); cbn [negb]; [|split; [discriminate | intros [H _]; discriminate]].
    destruct (mass4 wt water p <? lim_min_mw4 lim) eqn:E1; [split; [discriminate | intros (_ & _ & _ & H); lia]|].
    destruct ((Z.of_nat (length p) <? lim_min_len lim) || (lim_max_len lim <? Z.of_nat (length p))) eqn:E2;
      [split; [discriminate | intros (_ & _ & H & _); lia]|].
    destruct (mem_seq p pool) eqn:E3.
    - apply mem_seq_iff in E3. split; [discriminate | intros (_ & H & _); contradiction].
    - apply mem_seq_false_iff in E3. split; [intros _ | reflexivity]. repeat split; try assumption; lia.
  Qed.

  Lemma valid_raises_proof pool lim p : is_valid wt water pool lim p = None <-> valid_letters wt p = false.
  Proof.
    unfold is_valid. destruct (valid_letters wt p); cbn [negb]; [|tauto].
    destruct (mass4 wt water p <? lim_min_mw4 lim); [split; discriminate|].
    destruct ((Z.of_nat (length p) <? lim_min_len lim) || (lim_max_len lim <? Z.of_nat (length p))); [split; discriminate|].
    destruct (mem_seq p pool); split; discriminate.
  Qed.

  Lemma pool_filter_agree_proof pool lim p : pool_check wt water pool lim p = is_valid wt water pool lim p.
  Proof. reflexivity. Qed.

  Lemma graph_filter_agree_proof accepted deny lim p :
    mem_seq p accepted = false -> memZ X_code p = false ->
    (graph_valid wt water accepted deny lim p = Some true <-> is_valid wt water deny lim p = Some true) /\
    (valid_letters wt p = true -> graph_valid wt water accepted deny lim p = is_valid wt water deny lim p).
  Proof.
    intros Ha Hx. unfold graph_valid, is_valid. rewrite Ha, Hx.
    destruct (valid_letters wt p); cbn [negb];
    destruct ((lim_min_len lim <=? Z.of_nat (length p)) && (Z.of_nat (length p) <=? lim_max_len lim)) eqn:E1;
    destruct ((Z.of_nat (length p) <? lim_min_len lim) || (lim_max_len lim <? Z.of_nat (length p))) eqn:E2;
    try lia; cbn [negb];
    destruct (mem_seq p deny); destruct (mass4 wt water p <? lim_min_mw4 lim) eqn:E3;
    destruct (lim_min_mw4 lim <=? mass4 wt water p) eqn:E4; try lia;
    (split; [split; intro; congruence | intro; congruence]).
  Qed.

  (* ---- the loop of call_variant_peptide *)
  Lemma fold_left_map {A B C} (f : A -> B -> A) (g : C -> B) : forall l a,
    fold_left f (map g l) a = fold_left (fun a c => f a (g c)) l a.
  Proof. induction l as [|x l IH]; intro a; [reflexivity|]. cbn [map fold_left]. apply IH. Qed.

  Lemma process_items_spec pool lim : forall its t t',
    process_items wt water pool lim t its = Some t' ->
    t' = fold_left add_op (accepted_ops wt water pool lim its) t.
  Proof.
    induction its as [|it its IH]; intros t t' H; cbn [process_items accepted_ops] in *.
    - inversion H. reflexivity.
    - unfold process_item in H. destruct (is_valid wt water pool lim (fst it)) as [[|]|]; [| |discriminate].
      + rewrite fold_left_app, fold_left_map. apply IH in H. exact H.
      + cbn [app]. apply IH. exact H.
  Qed.

  Lemma process_items_raises pool lim : forall its t,
    process_items wt water pool lim t its = None <-> exists it, In it its /\ valid_letters wt (fst it) = false.
  Proof.
    induction its as [|it its IH]; intro t; cbn [process_items].
    - split; [discriminate | intros (? & [] & _)].
    - unfold process_item. destruct (is_valid wt water pool lim (fst it)) as [[|]|] eqn:E.
      + rewrite IH. split; [intros (x & H1 & H2); exists x; split; [right|]; assumption|].
        intros (x & [H1|H1] & H2); [|exists x; auto]. subst. apply valid_raises_proof with (pool := pool) (lim := lim) in H2. congruence.
      + rewrite IH. split; [intros (x & H1 & H2); exists x; split; [right|]; assumption|].
        intros (x & [H1|H1] & H2); [|exists x; auto]. subst. apply valid_raises_proof with (pool := pool) (lim := lim) in H2. congruence.
      + split; [intros _ | reflexivity]. exists it. split; [left; reflexivity|]. apply valid_raises_proof in E. exact E.
  Qed.

  Lemma accepted_ops_In pool lim : forall its p a,
    In (p, a) (accepted_ops wt water pool lim its) <->
    exists annos, In (p, annos) its /\ In a annos /\ Valid pool lim p.
  Proof.
    induction its as [|[q annos] its IH]; intros p a; cbn [accepted_ops fst snd].
    - split; [intros [] | intros (? & [] & _)].
    - rewrite in_app_iff, IH. split.
      + intros [H|(an & H1 & H2 & H3)].
        * destruct (is_valid wt water pool lim q) as [[|]|] eqn:E; try contradiction.
          apply in_map_iff in H. destruct H as (a' & E' & Ha). inversion E'; subst.
          exists annos. split; [left; reflexivity|]. split; [exact Ha|]. apply valid_iff_proof. exact E.
        * exists an. split; [right; exact H1 | auto].
      + intros (an & [E|H1] & H2 & H3).
        * inversion E; subst. left. apply valid_iff_proof in H3. rewrite H3. apply in_map_iff. exists a. auto.
        * right. exists an. auto.
  Qed.

  (* the headline for the callVariant store: whatever the loop is fed, if it does not abort then the FASTA
     lists each accepted sequence once, every listed sequence passes the filter, and FASTA and table carry
     the same (sequence, header entry) pairs *)
  Lemma callvariant_store_proof pool lim its t :
    (forall p annos a, In (p, annos) its -> In a annos -> good_op (p, a)) ->
    process_items wt water pool lim empty_table its = Some t ->
    exists recs, write_fasta t = FastaOk recs /\
      NoDup (map fst recs) /\
      (forall p, In p (map fst recs) -> Valid pool lim p) /\
      (forall p, In p (map fst recs) <-> exists annos a, In (p, annos) its /\ In a annos /\ Valid pool lim p) /\
      (forall p l, (exists ls, In (p, ls) recs /\ In l ls) <->
                   (exists annos a, In (p, annos) its /\ In a annos /\ an_label a = l /\ Valid pool lim p)) /\
      t_file t = header_text ++ flat_map render_row (rows_of_ops (accepted_ops wt water pool lim its)) /\
      (forall p l, (exists r, In r (rows_of_ops (accepted_ops wt water pool lim its)) /\ r_seq r = p /\ r_label r = l) <->
                   (exists ls, In (p, ls) recs /\ In l ls)).
  Proof.
    intros Hgood Hp. apply process_items_spec in Hp. rewrite <- run_adds_fold in Hp. subst t.
    set (ops := accepted_ops wt water pool lim its).
    assert (Hg : Forall good_op ops).
    { apply Forall_forall. intros [p a] Hin. apply accepted_ops_In in Hin. destruct Hin as (annos & H1 & H2 & _).
      eapply Hgood; eassumption. }
    destruct (table_refines_map_proof ops Hg) as (recs & Hw & _ & Hnd & Hkeys & Hls).
    destruct (table_pairs_proof ops Hg) as (recs' & Hw' & Hpairs).
    rewrite Hw in Hw'. inversion Hw'; subst recs'.
    exists recs. split; [exact Hw|]. split; [exact Hnd|].
    assert (K : forall p, In p (map fst recs) <-> exists annos a, In (p, annos) its /\ In a annos /\ Valid pool lim p).
    { intro p. rewrite Hkeys. split.
      - intros (a & Hin). apply accepted_ops_In in Hin. destruct Hin as (annos & H1 & H2 & H3). exists annos, a. auto.
      - intros (annos & a & H1 & H2 & H3). exists a. apply accepted_ops_In. exists annos. auto. }
    split; [intros p Hin; apply K in Hin; destruct Hin as (? & ? & _ & _ & H); exact H|].
    split; [exact K|]. split; [|split; [apply rows_slices_proof | exact Hpairs]].
    intros p l. split.
    - intros (ls & Hin & Hl). apply (Hls p ls Hin) in Hl. destruct Hl as (a & Hop & El).
      apply accepted_ops_In in Hop. destruct Hop as (annos & H1 & H2 & H3). exists annos, a. auto.
    - intros (annos & a & H1 & H2 & El & H3).
      assert (Hop : In (p, a) ops) by (apply accepted_ops_In; exists annos; auto).
      assert (Hk : In p (map fst recs)) by (apply Hkeys; exists a; exact Hop).
      apply in_map_iff in Hk. destruct Hk as ([p' ls] & E & Hin). cbn [fst] in E. subst p'.
      exists ls. split; [exact Hin|]. apply (Hls p ls Hin). exists a. auto.
  Qed.

  (* ---- the verified decider for written FASTA files *)
  Definition Hygienic (pool : list seq) (lim : limits) (fasta : list seq) : Prop :=
    NoDup fasta /\
    forall p, In p fasta ->
      ~ In p pool /\ lim_min_len lim <= Z.of_nat (length p) <= lim_max_len lim /\
      valid_letters wt p = true /\ lim_min_mw4 lim <= mass4 wt water p /\
      ~ In X_code p /\ ~ In STAR_code p.

  Lemma nodup_seqs_iff l : nodup_seqs l = true <-> NoDup l.
  Proof.
    induction l as [|x l IH]; cbn [nodup_seqs]; [split; [constructor | reflexivity]|].
    rewrite andb_true_iff, negb_true_iff, mem_seq_false_iff, IH. split.
    - intros [H1 H2]. constructor; assumption.
    - intro H. inversion H. auto.
  Qed.

  Lemma peptide_ok_iff pool lim p : peptide_ok wt water pool lim p = true <->
    ~ In p pool /\ lim_min_len lim <= Z.of_nat (length p) <= lim_max_len lim /\
    valid_letters wt p = true /\ lim_min_mw4 lim <= mass4 wt water p /\ ~ In X_code p /\ ~ In STAR_code p.
  Proof.
    unfold peptide_ok, hygiene_flags. cbn [existsb]. rewrite negb_true_iff, !orb_false_iff.
    rewrite mem_seq_false_iff. rewrite <- (memZ_iff X_code), <- (memZ_iff STAR_code).
    destruct (valid_letters wt p); cbn [negb]; destruct (memZ X_code p); destruct (memZ STAR_code p);
      split; intros H; decompose [and] H; repeat split; try assumption; try lia; try congruence; try discriminate.
  Qed.

  Lemma hygiene_ok_iff_proof pool lim fasta : hygiene_ok wt water pool lim fasta = true <-> Hygienic pool lim fasta.
  Proof.
    unfold hygiene_ok, Hygienic. rewrite andb_true_iff, forallb_forall, nodup_seqs_iff. split.
    - intros [H1 H2]. split; [exact H2|]. intros p Hp. apply peptide_ok_iff. apply H1. exact Hp.
    - intros [H1 H2]. split; [|exact H1]. intros p Hp. apply peptide_ok_iff. apply H2. exact Hp.
  Qed.

  (* what the table's own filter guarantees is what the decider checks, provided the weight table has
     no entry for X and * (an obligation on the table regenerated from Biopython, see Props/C04.v) *)
  Lemma valid_letters_no c p : weight_of wt c = None -> valid_letters wt p = true -> ~ In c p.
  Proof.
    intros Hc Hv Hin. unfold valid_letters in Hv. rewrite forallb_forall in Hv. specialize (Hv c Hin).
    rewrite Hc in Hv. discriminate.
  Qed.

  Lemma valid_implies_hygienic pool lim p :
    weight_of wt X_code = None -> weight_of wt STAR_code = None ->
    is_valid wt water pool lim p = Some true -> peptide_ok wt water pool lim p = true.
  Proof.
    intros HX HS H. apply valid_iff_proof in H. destruct H as (Hv & Hp & Hl & Hm).
    apply peptide_ok_iff. repeat split; try assumption; try lia; eauto using valid_letters_no.
  Qed.
End FilterProofs.

(* ------------------------------------------------------------------ insertion order of the abstract map *)
Definition vals_for {V} (k : seq) (ops : list (seq * V)) : list V :=
  map snd (filter (fun o => eq_seq k (fst o)) ops).

Lemma assoc_add_get {V} k (v : V) : forall m q,
  assoc_get q (assoc_add k v m) =
  if eq_seq q k then Some (match assoc_get k m with Some vs => vs ++ [v] | None => [v] end)
  else assoc_get q m.
Proof.
  induction m as [|[k' vs] m IH]; intro q.
  - cbn [assoc_add assoc_get]. destruct (eq_seq q k); reflexivity.
  - cbn [assoc_add assoc_get]. destruct (eq_seq k k') eqn:E.
    + apply eq_seq_iff in E. subst k'. cbn [assoc_get]. destruct (eq_seq q k); reflexivity.
    + cbn [assoc_get]. rewrite IH. destruct (eq_seq q k') eqn:E2; [|reflexivity].
      apply eq_seq_iff in E2. subst q. rewrite eq_seq_sym, E. reflexivity.
Qed.

Lemma fold_madd_get : forall (ops : list (seq * anno)) m q,
  assoc_get q (fold_left madd ops m) =
  match assoc_get q m with
  | Some vs => Some (vs ++ vals_for q ops)
  | None => match vals_for q ops with [] => None | vs => Some vs end
  end.
Proof.
  induction ops as [|[k a] ops IH]; intros m q.
  - cbn [fold_left vals_for filter map]. destruct (assoc_get q m); [rewrite app_nil_r|]; reflexivity.
  - cbn [fold_left]. rewrite IH. unfold madd. cbn [fst snd]. rewrite assoc_add_get.
    unfold vals_for. cbn [filter fst]. destruct (eq_seq q k) eqn:E.
    + apply eq_seq_iff in E. subst k. cbn [map snd]. destruct (assoc_get q m).
      * rewrite <- app_assoc. reflexivity.
      * reflexivity.
    + reflexivity.
Qed.

Lemma amap_of_vals ops k vs : In (k, vs) (amap_of ops) -> vs = vals_for k ops.
Proof.
  intro Hin. pose proof (assoc_get_In _ _ _ (amap_of_NoDup ops) Hin) as G.
  unfold amap_of in G. change (fun m op => assoc_add (fst op) (snd op) m) with madd in G.
  rewrite fold_madd_get in G. cbn [assoc_get] in G. destruct (vals_for k ops); congruence.
Qed.

Lemma filter_filter {A} (f g : A -> bool) l : filter f (filter g l) = filter (fun x => g x && f x) l.
Proof.
  induction l as [|x l IH]; [reflexivity|]. cbn [filter]. destruct (g x); cbn [andb filter]; [|exact IH].
  destruct (f x); rewrite IH; reflexivity.
Qed.

Lemma mem_seq_app x l l' : mem_seq x (l ++ l') = mem_seq x l || mem_seq x l'.
Proof. induction l as [|y l IH]; [reflexivity|]. cbn [app mem_seq]. rewrite IH, orb_assoc. reflexivity. Qed.

Lemma fold_madd_keys : forall (ops : list (seq * anno)) m,
  map fst (fold_left madd ops m) =
  map fst m ++ filter (fun k => negb (mem_seq k (map fst m))) (dedup (map fst ops)).
Proof.
  induction ops as [|[k a] ops IH]; intro m.
  - cbn. rewrite app_nil_r. reflexivity.
  - cbn [fold_left]. rewrite IH. unfold madd. cbn [fst snd]. rewrite assoc_add_keys.
    cbn [map fst dedup filter]. destruct (mem_seq k (map fst m)) eqn:E; cbn [negb].
    + f_equal. rewrite filter_filter. apply filter_ext_in. intros x _.
      destruct (eq_seq k x) eqn:Ex; [|reflexivity]. apply eq_seq_iff in Ex. subst x. rewrite E. reflexivity.
    + rewrite <- app_assoc. cbn [app]. f_equal. f_equal. rewrite filter_filter. apply filter_ext.
      intro x. rewrite mem_seq_app. cbn [mem_seq]. rewrite orb_false_r, negb_orb, andb_comm.
      rewrite (eq_seq_sym x k). reflexivity.
Qed.

Lemma amap_of_keys ops : map fst (amap_of ops) = dedup (map fst ops).
Proof.
  unfold amap_of. change (fun m op => assoc_add (fst op) (snd op) m) with madd.
  rewrite fold_madd_keys. cbn [map app mem_seq negb]. induction (dedup (map fst ops)) as [|x l IH]; [reflexivity|].
  cbn [filter]. rewrite IH. reflexivity.
Qed.

(* records in first-occurrence order of their sequence; entries in first-occurrence order of the label *)
Lemma fasta_order_proof ops :
  fasta_of_amap (amap_of ops) =
  map (fun p => (p, dedup (map an_label (vals_for p ops)))) (dedup (map fst ops)).
Proof.
  rewrite <- amap_of_keys. unfold fasta_of_amap. rewrite map_map.
  apply map_ext_in. intros [k vs] Hin. cbn [fst snd]. rewrite (amap_of_vals ops k vs Hin). reflexivity.
Qed.

(* ------------------------------------------------------------------ VariantPeptidePool *)
Section VPoolProofs.
  Variable wt : weight_table.
  Variable water : Z.

  Definition mg (vp : vpool) (o : seq * seq) : vpool := vpool_merge (fst o) (snd o) vp.
  Definition vp_accept (pool : list seq) (lim : limits) (o : seq * seq) : bool :=
    match pool_check wt water pool lim (fst o) with Some true => true | _ => false end.

  Lemma vpool_adds_spec pool lim : forall ops vp vp',
    vpool_adds wt water pool lim vp ops = Some vp' ->
    vp' = fold_left mg (filter (vp_accept pool lim) ops) vp.
  Proof.
    induction ops as [|[p l] ops IH]; intros vp vp' H; cbn [vpool_adds] in H.
    - inversion H. reflexivity.
    - unfold vpool_add in H. cbn [filter]. unfold vp_accept at 1. cbn [fst].
      destruct (pool_check wt water pool lim p) as [[|]|]; [| |discriminate]; cbn [fold_left]; apply IH; exact H.
  Qed.

  Lemma vpool_adds_raises pool lim : forall ops vp,
    vpool_adds wt water pool lim vp ops = None <-> exists o, In o ops /\ valid_letters wt (fst o) = false.
  Proof.
    induction ops as [|[p l] ops IH]; intro vp; cbn [vpool_adds].
    - split; [discriminate | intros (? & [] & _)].
    - unfold vpool_add. rewrite pool_filter_agree_proof.
      destruct (is_valid wt water pool lim p) as [[|]|] eqn:E.
      + rewrite IH. split; [intros (x & H1 & H2); exists x; split; [right|]; assumption|].
        intros (x & [H1|H1] & H2); [|exists x; auto]. subst. cbn [fst] in H2.
        apply valid_raises_proof with (water := water) (pool := pool) (lim := lim) in H2. congruence.
      + rewrite IH. split; [intros (x & H1 & H2); exists x; split; [right|]; assumption|].
        intros (x & [H1|H1] & H2); [|exists x; auto]. subst. cbn [fst] in H2.
        apply valid_raises_proof with (water := water) (pool := pool) (lim := lim) in H2. congruence.
      + split; [intros _ | reflexivity]. exists (p, l). split; [left; reflexivity|]. apply valid_raises_proof in E. exact E.
  Qed.

  Lemma merge_keys p l : forall vp,
    map fst (vpool_merge p l vp) = if mem_seq p (map fst vp) then map fst vp else map fst vp ++ [p].
  Proof.
    induction vp as [|[q d] vp IH]; [reflexivity|].
    cbn [vpool_merge map fst mem_seq]. destruct (eq_seq p q) eqn:E; cbn [orb map fst]; [reflexivity|].
    rewrite IH. destruct (mem_seq p (map fst vp)); reflexivity.
  Qed.

  Lemma merge_NoDup p l vp : NoDup (map fst vp) -> NoDup (map fst (vpool_merge p l vp)).
  Proof.
    intro H. rewrite merge_keys. destruct (mem_seq p (map fst vp)) eqn:E; [exact H|].
    apply mem_seq_false_iff in E. apply Permutation_NoDup with (l := p :: map fst vp).
    - apply Permutation_cons_append.
    - constructor; assumption.
  Qed.

  Lemma merge_get p l : forall vp q,
    assoc_get q (vpool_merge p l vp) =
    if eq_seq q p then Some (match assoc_get p vp with Some d => d ++ SP :: l | None => l end)
    else assoc_get q vp.
  Proof.
    induction vp as [|[k d] vp IH]; intro q.
    - cbn [vpool_merge assoc_get]. destruct (eq_seq q p); reflexivity.
    - cbn [vpool_merge assoc_get]. destruct (eq_seq p k) eqn:E.
      + apply eq_seq_iff in E. subst k. cbn [assoc_get]. destruct (eq_seq q p); reflexivity.
      + cbn [assoc_get]. rewrite IH. destruct (eq_seq q k) eqn:E2; [|reflexivity].
        apply eq_seq_iff in E2. subst q. rewrite eq_seq_sym, E. reflexivity.
  Qed.

  Definition sufx (ls : list seq) : seq := flat_map (fun l => SP :: l) ls.

  Lemma join_cons l ls : join SP (l :: ls) = l ++ sufx ls.
  Proof.
    revert l. induction ls as [|l' ls IH]; intro l; [cbn; rewrite app_nil_r; reflexivity|].
    change (join SP (l :: l' :: ls)) with (l ++ SP :: join SP (l' :: ls)). rewrite IH. reflexivity.
  Qed.

  Lemma fold_mg_get : forall (ops : list (seq * seq)) vp q,
    assoc_get q (fold_left mg ops vp) =
    match assoc_get q vp with
    | Some d => Some (d ++ sufx (vals_for q ops))
    | None => match vals_for q ops with [] => None | l :: ls => Some (l ++ sufx ls) end
    end.
  Proof.
    induction ops as [|[p l] ops IH]; intros vp q.
    - cbn [fold_left vals_for filter map sufx flat_map]. destruct (assoc_get q vp); [rewrite app_nil_r|]; reflexivity.
    - cbn [fold_left]. rewrite IH. unfold mg. cbn [fst snd]. rewrite merge_get.
      unfold vals_for. cbn [filter fst]. destruct (eq_seq q p) eqn:E.
      + apply eq_seq_iff in E. subst p. cbn [map snd]. destruct (assoc_get q vp).
        * cbn [sufx flat_map]. rewrite <- app_assoc. reflexivity.
        * reflexivity.
      + reflexivity.
  Qed.

  Lemma fold_mg_NoDup : forall ops vp, NoDup (map fst vp) -> NoDup (map fst (fold_left mg ops vp)).
  Proof. induction ops as [|o ops IH]; intros vp H; [exact H|]. cbn [fold_left]. apply IH. apply merge_NoDup. exact H. Qed.

  Lemma fold_mg_keys : forall (ops : list (seq * seq)) vp,
    map fst (fold_left mg ops vp) =
    map fst vp ++ filter (fun k => negb (mem_seq k (map fst vp))) (dedup (map fst ops)).
  Proof.
    induction ops as [|[k a] ops IH]; intro m.
    - cbn. rewrite app_nil_r. reflexivity.
    - cbn [fold_left]. rewrite IH. unfold mg. cbn [fst snd]. rewrite merge_keys.
      cbn [map fst dedup filter]. destruct (mem_seq k (map fst m)) eqn:E; cbn [negb].
      + f_equal. rewrite filter_filter. apply filter_ext_in. intros x _.
        destruct (eq_seq k x) eqn:Ex; [|reflexivity]. apply eq_seq_iff in Ex. subst x. rewrite E. reflexivity.
      + rewrite <- app_assoc. cbn [app]. f_equal. f_equal. rewrite filter_filter. apply filter_ext.
        intro x. rewrite mem_seq_app. cbn [mem_seq]. rewrite orb_false_r, negb_orb, andb_comm.
        rewrite (eq_seq_sym x k). reflexivity.
  Qed.

  (* the pool after any add sequence: one record per accepted sequence, in first-acceptance order, whose
     description is the ' '-join of the labels it was added with, in order *)
  Lemma vpool_refines_map_proof pool lim ops vp :
    vpool_adds wt water pool lim [] ops = Some vp ->
    let acc := filter (vp_accept pool lim) ops in
    map fst vp = dedup (map fst acc) /\
    NoDup (map fst vp) /\
    (forall p, In p (map fst vp) <-> exists l, In (p, l) ops /\ Valid wt water pool lim p) /\
    (forall p d, In (p, d) vp -> d = join SP (vals_for p acc)).
  Proof.
    intro H. apply vpool_adds_spec in H. cbn zeta. set (acc := filter (vp_accept pool lim) ops) in *.
    assert (Hk : map fst vp = dedup (map fst acc)).
    { subst vp. rewrite fold_mg_keys. cbn [map app mem_seq negb].
      induction (dedup (map fst acc)) as [|x l IH]; [reflexivity|]. cbn [filter]. rewrite IH. reflexivity. }
    assert (Hnd : NoDup (map fst vp)) by (subst vp; apply fold_mg_NoDup; constructor).
    split; [exact Hk|]. split; [exact Hnd|]. split.
    - intro p. rewrite Hk, dedup_In, in_map_iff. split.
      + intros ([p' l] & E & Hin). cbn [fst] in E. subst p'. apply filter_In in Hin. destruct Hin as [Hin Ha].
        exists l. split; [exact Hin|]. unfold vp_accept in Ha. cbn [fst] in Ha. rewrite pool_filter_agree_proof in Ha.
        apply valid_iff_proof. destruct (is_valid wt water pool lim p) as [[|]|]; congruence.
      + intros (l & Hin & Hv). exists (p, l). split; [reflexivity|]. apply filter_In. split; [exact Hin|].
        unfold vp_accept. cbn [fst]. rewrite pool_filter_agree_proof. apply valid_iff_proof in Hv. rewrite Hv. reflexivity.
    - intros p d Hin. pose proof (assoc_get_In _ _ _ Hnd Hin) as G. subst vp. rewrite fold_mg_get in G.
      cbn [assoc_get] in G. destruct (vals_for p acc) as [|l ls]; [discriminate|]. rewrite join_cons. congruence.
  Qed.
End VPoolProofs.

(* ------------------------------------------------------------------ satisfiability of the hypotheses *)
Definition ex_seg1 : segment := mkSeg (mkLoc 0 3 0 0) (Some (mkLoc 10 13 1 0)) (Some [116]) (Some [84;49]) None.
Definition ex_seg2 : segment := mkSeg (mkLoc 3 5 0 2) None None None (Some [83;78;86;45;49]).
Definition ex_ops : list (seq * anno) :=
  [ ([65;67;68;69;75], mkAnno [84;49;124;83;78;86;45;49;124;49] [ex_seg1; ex_seg2]);
    ([71;72;75],       mkAnno [84;50;124;120;124;49] [ex_seg1]);
    ([65;67;68;69;75], mkAnno [84;51;124;121;124;49] [ex_seg2]);
    ([65;67;68;69;75], mkAnno [84;49;124;83;78;86;45;49;124;49] [ex_seg2]) ].

Lemma ex_ops_good : Forall good_op ex_ops.
Proof.
  assert (N : forall c (s : seq), memZ c s = false -> nochar c s).
  { intros c s H K. apply memZ_iff in K. congruence. }
  unfold ex_ops. repeat constructor; cbn [fst snd an_label an_segs]; try discriminate;
    try (apply N; vm_compute; reflexivity);
    unfold clean_opt, ex_seg1, ex_seg2; cbn [sg_ftype sg_fid sg_var]; try exact I;
    try (apply N; vm_compute; reflexivity).
Qed.

Lemma ex_ops_fasta :
  write_fasta (run_adds ex_ops) =
  FastaOk [ ([65;67;68;69;75], [[84;49;124;83;78;86;45;49;124;49]; [84;51;124;121;124;49]]);
            ([71;72;75], [[84;50;124;120;124;49]]) ].
Proof. vm_compute. reflexivity. Qed.

(* ------------------------------------------------------------------ the filter language *)
Lemma run_filter_reference wt water pool lim p :
  run_filter wt water pool lim p reference_filter = is_valid wt water pool lim p.
Proof.
  unfold reference_filter, is_valid. cbn [run_filter eval_cond eval_exp cmp_eval].
  destruct (valid_letters wt p); cbn [negb]; [|reflexivity].
  destruct (mass4 wt water p <? lim_min_mw4 lim); [reflexivity|].
  destruct (Z.of_nat (length p) <? lim_min_len lim); cbn [orb]; [reflexivity|].
  destruct (lim_max_len lim <? Z.of_nat (length p)); [reflexivity|].
  destruct (mem_seq p pool); reflexivity.
Qed.
