(* Equality of VariantPeptideTable.is_valid and VariantPeptidePool.add_peptide (filter chain + acceptance / merge
   decision), as GENERATED from /repo's source by harness/translate/py2coq.py (coq/Gen/Py_VariantPeptideTable.v,
   coq/Gen/Py_VariantPeptidePool.v), with Model/PepTable.v.  docs/py2coq.md. *)
From Coq Require Import ZArith List Bool Lia ZifyBool.
From MoPep Require Import Model.Base Model.PyRt Model.Digest Model.PepTable
                          Gen.Py_VariantPeptideTable Gen.Py_VariantPeptidePool.
Import ListNotations.
Open Scope Z_scope.

Ltac pt_if :=
  match goal with
  | |- context [if ?b then _ else _] => let C := fresh "C" in destruct b eqn:C
  end.

Lemma code_table_is_valid_is_model_l : forall wt water pool lim p,
  py_table_is_valid wt water pool lim p = is_valid wt water pool lim p.
Proof.
  intros. unfold py_table_is_valid, is_valid. cbv zeta.
  destruct (valid_letters wt p); cbn [negb]; [|reflexivity].
  repeat pt_if; try reflexivity; lia.
Qed.

Lemma code_pool_add_peptide_is_model_l : forall wt water pool lim skip vp p label,
  py_pool_add_peptide wt water pool lim skip vp p label = vpool_add wt water pool lim skip vp p label.
Proof.
  intros. unfold py_pool_add_peptide, vpool_add, pool_check. cbv zeta.
  destruct skip; [reflexivity|].
  destruct (valid_letters wt p); cbn [negb]; [|reflexivity].
  repeat pt_if; try reflexivity; lia.
Qed.
