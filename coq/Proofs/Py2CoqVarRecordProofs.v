(* Code-level tie for the record order / identity model (docs/py2coq.md, the VariantRecord targets): the BODIES of
   FeatureLocation.__eq__ / __gt__ and VariantRecord.__eq__ / __gt__ / __ge__ / __lt__ / __le__ / __hash__,
   translated from /repo's current source into Gen/Py_VariantRecord.v on every run, are extensionally equal to
   the hand-written functions of Model/VarRecord.v.  One lemma per obligation of Props/C06.v. *)
From Coq Require Import ZArith List Bool Lia ZifyBool.
From MoPep Require Import Model.Base Model.PyRt Model.VarRecord.
From MoPep Require Gen.Py_VariantRecord.
Import ListNotations.
Open Scope Z_scope.

Lemma code_featurelocation_eq_is_model_l : forall a b, Py_VariantRecord.py_loc_eq a b = loc_eqb a b.
Proof. intros a b. unfold Py_VariantRecord.py_loc_eq, loc_eqb. reflexivity. Qed.

Lemma code_featurelocation_gt_is_model_l : forall a b, Py_VariantRecord.py_loc_gt a b = loc_gtb a b.
Proof.
  intros a b. unfold Py_VariantRecord.py_loc_gt, loc_gtb.
  destruct (l_start a >? l_start b); [reflexivity|].
  destruct (l_start a =? l_start b); [|reflexivity].
  destruct (strand_level (l_strand a) >? strand_level (l_strand b)); [reflexivity|].
  destruct ((strand_level (l_strand a) =? strand_level (l_strand b)) && (l_end a >? l_end b)); reflexivity.
Qed.

Lemma code_varrecord_eq_is_model_l : forall a b, Py_VariantRecord.py_vr_eq a b = vr_eq a b.
Proof.
  intros a b. unfold Py_VariantRecord.py_vr_eq, vr_eq. rewrite code_featurelocation_eq_is_model_l. reflexivity.
Qed.

Lemma code_varrecord_gt_is_model_l : forall a b, Py_VariantRecord.py_vr_gt a b = vr_gt a b.
Proof.
  intros a b. unfold Py_VariantRecord.py_vr_gt, vr_gt.
  rewrite code_featurelocation_gt_is_model_l, code_featurelocation_eq_is_model_l.
  destruct (loc_gtb (v_loc a) (v_loc b)); [reflexivity|].
  destruct (loc_eqb (v_loc a) (v_loc b)); [|reflexivity].
  destruct (str_gtb (v_alt a) (v_alt b)); [reflexivity|].
  destruct (eq_seq (v_ref a) (v_ref b)); reflexivity.
Qed.

Lemma code_varrecord_ge_is_model_l : forall a b, Py_VariantRecord.py_vr_ge a b = vr_ge a b.
Proof.
  intros a b. unfold Py_VariantRecord.py_vr_ge, vr_ge.
  rewrite code_varrecord_eq_is_model_l, code_varrecord_gt_is_model_l. reflexivity.
Qed.

Lemma code_varrecord_lt_is_model_l : forall a b, Py_VariantRecord.py_vr_lt a b = vr_lt a b.
Proof.
  intros a b. unfold Py_VariantRecord.py_vr_lt, vr_lt. rewrite code_varrecord_ge_is_model_l. reflexivity.
Qed.

Lemma code_varrecord_le_is_model_l : forall a b, Py_VariantRecord.py_vr_le a b = vr_le a b.
Proof.
  intros a b. unfold Py_VariantRecord.py_vr_le, vr_le. rewrite code_varrecord_gt_is_model_l. reflexivity.
Qed.

Lemma code_varrecord_hash_is_model_l : forall a, Py_VariantRecord.py_vr_hash_key a = hash_key a.
Proof. intro a. unfold Py_VariantRecord.py_vr_hash_key, hash_key. reflexivity. Qed.
