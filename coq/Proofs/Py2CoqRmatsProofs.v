(* Equality of the exon scan of RIRecord.convert_to_variant_records (iterator protocol, `while exon:`), as GENERATED
   from /repo's source by harness/translate/py2coq.py (coq/Gen/Py_RIRecord.v), with Rmats.ri_scan.
   docs/py2coq.md. *)
From Coq Require Import ZArith List Bool Lia ZifyBool.
From MoPep Require Import Model.Base Model.PyRt Gen.RmatsConst Model.Rmats Gen.Py_RIRecord.
Import ListNotations.
Open Scope Z_scope.

Lemma ri_cond_code : forall (x : exon) ue ds,
  ri_cond x ue ds = if (fst x <? ue) && (ue <? ds) && (ds <? snd x) then 1 else 0.
Proof.
  intros. unfold ri_cond. change ri_end_slack with 0. replace (snd x - 0) with (snd x) by lia. reflexivity.
Qed.

Ltac ri_fin :=
  cbn [fst snd];
  match goal with |- Continue (_, _, _, ?b) = Continue (_, _, _, ?d) => replace d with b by lia; reflexivity end.

Lemma code_ri_scan_is_model_l : forall exons ue ds,
  py_ri_scan exons ue ds = POk (ri_scan exons ue ds).
Proof.
  intros exons0 ue ds.
  (* the loop from the current exon x with `it` still to come = ri_scan (x :: it); fuel: one unit per exon *)
  assert (LOOP : forall fuel (x : exon) (it : list exon) sp n, (S (length it) < fuel)%nat ->
    exists e' it',
      py_ri_scan_loop1 exons0 ue ds fuel (Some x) it sp n
      = Continue (e', it', (if fst (ri_scan (x :: it) ue ds) then true else sp), n + snd (ri_scan (x :: it) ue ds))).
  { induction fuel as [|fuel IH]; intros x it sp n F; [lia|].
    cbn [py_ri_scan_loop1 ri_scan]. cbv zeta iota. rewrite !ri_cond_code.
    destruct (snd x =? ue) eqn:E1.
    - destruct it as [|y t2]; cbn [hd_error tl]; cbv iota.
      + eexists _, _. cbn [fst snd]. rewrite Z.add_0_r. reflexivity.
      + destruct (fst y =? ds) eqn:E2.
        * eexists _, _. cbn [fst snd]. rewrite Z.add_0_r. reflexivity.
        * destruct t2 as [|z t3].
          -- cbn [hd_error tl ri_scan fst snd]. rewrite ?ri_cond_code. destruct fuel as [|fuel']; [cbn [length] in F; lia|].
             destruct ((fst y <? ue) && (ue <? ds) && (ds <? snd y)); cbn [py_ri_scan_loop1]; cbv iota;
               eexists _, _; ri_fin.
          -- cbn [hd_error tl]. rewrite ?ri_cond_code.
             destruct ((fst y <? ue) && (ue <? ds) && (ds <? snd y));
               (match goal with |- context [py_ri_scan_loop1 _ _ _ fuel (Some z) t3 ?s ?m] =>
                  destruct (IH z t3 s m) as (e' & it' & EQ); [cbn [length] in F; lia|] end;
                rewrite EQ; eexists _, _; destruct (ri_scan (z :: t3) ue ds) as [sp' n']; ri_fin).
    - destruct it as [|y t2].
      + cbn [hd_error tl ri_scan fst snd]. rewrite ?ri_cond_code. destruct fuel as [|fuel']; [cbn [length] in F; lia|].
        destruct ((fst x <? ue) && (ue <? ds) && (ds <? snd x)); cbn [py_ri_scan_loop1]; cbv iota;
          eexists _, _; ri_fin.
      + cbn [hd_error tl]. rewrite ?ri_cond_code.
        destruct ((fst x <? ue) && (ue <? ds) && (ds <? snd x));
          (match goal with |- context [py_ri_scan_loop1 _ _ _ fuel (Some y) t2 ?s ?m] =>
             destruct (IH y t2 s m) as (e' & it' & EQ); [cbn [length] in F; lia|] end;
           rewrite EQ; eexists _, _; destruct (ri_scan (y :: t2) ue ds) as [sp' n']; ri_fin). }
  unfold py_ri_scan. cbv zeta.
  destruct exons0 as [|x it]; [reflexivity|]. cbn [hd_error tl].
  destruct (LOOP (S (length (x :: it))) x it false 0) as (e' & it' & EQ); [cbn [length]; lia|].
  rewrite EQ. destruct (ri_scan (x :: it) ue ds) as [sp n]. cbn [fst snd]. destruct sp; reflexivity.
Qed.
