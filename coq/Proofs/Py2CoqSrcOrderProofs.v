(* VariantSourceSet.__gt__ / __ge__ / __lt__ / __le__ : equality of the bodies GENERATED from /repo's source by
   harness/translate/py2coq.py (coq/Gen/Py_VariantSourceSet.v) with Split.src_gt, and the order theorems about the
   comparison of sorted level lists (Split.ints_gt): a strict total order, hence sorting by it is layout-free.
   docs/py2coq.md. *)
From Coq Require Import ZArith List Bool Lia ZifyBool Permutation.
From MoPep Require Import Model.Base Model.PyRt Gen.HeaderCfg Model.Header Model.Filter Model.Split Model.SrcOrder Gen.Py_VariantSourceSet.
Import ListNotations.
Open Scope Z_scope.

Lemma zlen_length_s : forall A (l : list A), zlen l = Z.of_nat (length l).
Proof. induction l as [|x t IH]; [reflexivity|]. cbn [zlen length]. rewrite IH. lia. Qed.

(* to_int only ever fails with KeyError (a source name without a level) *)
Lemma mapM_level_err : forall lv (S : list str) e,
  mapM (fun s => match level_of_str lv s with Some z => Ok z | None => Err EKey end) S = Err e -> e = EKey.
Proof.
  intros lv. induction S as [|s t IH]; intros e H; cbn [mapM] in H; [discriminate|].
  unfold bind in H. destruct (level_of_str lv s); [|congruence].
  destruct (mapM _ t) eqn:M; [discriminate|]. inversion H; subst. apply IH. reflexivity.
Qed.
Lemma to_int_err : forall lv S e, to_int lv S = Err e -> e = EKey.
Proof.
  intros lv S e H. unfold to_int in H. destruct (level_of_set lv S); [discriminate|].
  unfold bind in H. destruct (mapM _ S) eqn:M; [discriminate|]. inversion H; subst. eapply mapM_level_err. exact M.
Qed.

(* ------------------------------------------------------------------ body ties *)
Lemma code_src_gt_is_model_l : forall lv A B, py_src_gt lv A B = src_gt lv A B.
Proof.
  intros lv A B.
  assert (L : forall a b : list Z, length a = length b ->
    match py_src_gt_loop1 lv A B (combine a b) with Done r => r | Continue _ => Ok false end = Ok (lex_gt a b)).
  { induction a as [|x a IH]; intros [|y b] E; try discriminate; [reflexivity|].
    cbn [combine py_src_gt_loop1 lex_gt fst snd]. cbv zeta.
    destruct (x >? y) eqn:C1; [replace (y <? x) with true by lia; reflexivity|].
    replace (y <? x) with false by lia. destruct (x <? y); [reflexivity|]. apply IH. cbn [length] in E. lia. }
  unfold py_src_gt, src_gt, bind, ints_gt. cbv zeta.
  destruct (set_eq A B); [reflexivity|].
  destruct (to_int lv A) as [a|e1] eqn:EA; destruct (to_int lv B) as [b|e2] eqn:EB;
    try (apply to_int_err in EA; subst); try (apply to_int_err in EB; subst); try reflexivity.
  rewrite !zlen_length_s.
  destruct (Z.of_nat (length a) >? Z.of_nat (length b)) eqn:C1;
    [replace (Z.of_nat (length b) <? Z.of_nat (length a)) with true by lia; reflexivity|].
  replace (Z.of_nat (length b) <? Z.of_nat (length a)) with false by lia.
  destruct (Z.of_nat (length a) <? Z.of_nat (length b)) eqn:C2; [reflexivity|].
  apply L. lia.
Qed.

Lemma code_src_ge_is_model_l : forall lv A B,
  py_src_ge lv A B = if set_eq A B then Ok true else src_gt lv A B.
Proof.
  intros. unfold py_src_ge. cbv zeta. destruct (set_eq A B); [reflexivity|].
  destruct (src_gt lv A B) as [[|]|e]; reflexivity.
Qed.

Lemma code_src_lt_is_model_l : forall lv A B,
  py_src_lt lv A B = if set_eq A B then Ok false else bind (src_gt lv A B) (fun g => Ok (negb g)).
Proof.
  intros. unfold py_src_lt. cbv zeta. rewrite code_src_ge_is_model_l. unfold bind.
  destruct (set_eq A B); [reflexivity|]. destruct (src_gt lv A B); reflexivity.
Qed.

Lemma code_src_le_is_model_l : forall lv A B,
  py_src_le lv A B = bind (src_gt lv A B) (fun g => Ok (negb g)).
Proof. intros. unfold py_src_le, bind. cbv zeta. destruct (src_gt lv A B); reflexivity. Qed.

(* ------------------------------------------------------------------ the order on sorted level lists *)
Lemma lex_gt_irrefl : forall a, lex_gt a a = false.
Proof. induction a as [|x a IH]; [reflexivity|]. cbn [lex_gt]. replace (x <? x) with false by lia. exact IH. Qed.

Lemma lex_gt_asym : forall a b, lex_gt a b = true -> lex_gt b a = false.
Proof.
  induction a as [|x a IH]; intros [|y b] H; cbn [lex_gt] in *; try discriminate; try reflexivity.
  destruct (y <? x) eqn:C1; [replace (x <? y) with false by lia; reflexivity|].
  destruct (x <? y) eqn:C2; [discriminate|]. apply IH. exact H.
Qed.

Lemma lex_gt_trans : forall a b c, length a = length b -> length b = length c ->
  lex_gt a b = true -> lex_gt b c = true -> lex_gt a c = true.
Proof.
  induction a as [|x a IH]; intros [|y b] [|z c] E1 E2 H1 H2; cbn [lex_gt length] in *; try discriminate.
  destruct (y <? x) eqn:C1.
  - destruct (z <? y) eqn:C2; [replace (z <? x) with true by lia; reflexivity|].
    destruct (y <? z) eqn:C3; [discriminate|]. replace (z <? x) with true by lia. reflexivity.
  - destruct (x <? y) eqn:C2; [discriminate|].
    destruct (z <? y) eqn:C3; [replace (z <? x) with true by lia; reflexivity|].
    destruct (y <? z) eqn:C4; [discriminate|].
    replace (z <? x) with false by lia. replace (x <? z) with false by lia. apply (IH b c); try lia; assumption.
Qed.

Lemma lex_gt_total : forall a b, length a = length b -> a = b \/ lex_gt a b = true \/ lex_gt b a = true.
Proof.
  induction a as [|x a IH]; intros [|y b] E; cbn [length] in E; try discriminate; [left; reflexivity|].
  cbn [lex_gt]. destruct (y <? x) eqn:C1; [right; left; reflexivity|].
  destruct (x <? y) eqn:C2; [right; right; reflexivity|].
  assert (x = y) by lia. subst. destruct (IH b ltac:(lia)) as [-> | [H | H]]; auto.
Qed.

Lemma ints_gt_irrefl : forall a, ints_gt a a = false.
Proof. intros. unfold ints_gt. replace (zlen a <? zlen a) with false by lia. apply lex_gt_irrefl. Qed.

Lemma ints_gt_asym : forall a b, ints_gt a b = true -> ints_gt b a = false.
Proof.
  intros a b H. unfold ints_gt in *.
  destruct (zlen b <? zlen a) eqn:C1; [replace (zlen a <? zlen b) with false by lia; reflexivity|].
  destruct (zlen a <? zlen b) eqn:C2; [discriminate|]. apply lex_gt_asym. exact H.
Qed.

Lemma ints_gt_trans : forall a b c, ints_gt a b = true -> ints_gt b c = true -> ints_gt a c = true.
Proof.
  intros a b c H1 H2. unfold ints_gt in *. rewrite !zlen_length_s in *.
  destruct (Z.of_nat (length b) <? Z.of_nat (length a)) eqn:C1.
  - destruct (Z.of_nat (length c) <? Z.of_nat (length b)) eqn:C2;
      [replace (Z.of_nat (length c) <? Z.of_nat (length a)) with true by lia; reflexivity|].
    destruct (Z.of_nat (length b) <? Z.of_nat (length c)) eqn:C3; [discriminate|].
    replace (Z.of_nat (length c) <? Z.of_nat (length a)) with true by lia. reflexivity.
  - destruct (Z.of_nat (length a) <? Z.of_nat (length b)) eqn:C2; [discriminate|].
    destruct (Z.of_nat (length c) <? Z.of_nat (length b)) eqn:C3;
      [replace (Z.of_nat (length c) <? Z.of_nat (length a)) with true by lia; reflexivity|].
    destruct (Z.of_nat (length b) <? Z.of_nat (length c)) eqn:C4; [discriminate|].
    replace (Z.of_nat (length c) <? Z.of_nat (length a)) with false by lia.
    replace (Z.of_nat (length a) <? Z.of_nat (length c)) with false by lia.
    apply (lex_gt_trans a b c); try lia; assumption.
Qed.

Lemma ints_gt_total : forall a b, a = b \/ ints_gt a b = true \/ ints_gt b a = true.
Proof.
  intros a b. unfold ints_gt. rewrite !zlen_length_s.
  destruct (Z.of_nat (length b) <? Z.of_nat (length a)) eqn:C1; [right; left; reflexivity|].
  destruct (Z.of_nat (length a) <? Z.of_nat (length b)) eqn:C2; [right; right; reflexivity|].
  apply lex_gt_total. lia.
Qed.

(* the variant `any(i > j for i, j in zip(this, that))` (seeded change C18-7) is NOT antisymmetric *)
Lemma any_gt_not_antisymmetric : exists a b, any_gt a b = true /\ any_gt b a = true.
Proof. exists [1; 0], [0; 1]. split; reflexivity. Qed.

(* ------------------------------------------------------------------ sorting by the order is layout-free *)
(* insertion sort, ascending; x goes before the first element that is greater *)
Lemma kinsert_perm : forall x l, Permutation (x :: l) (kinsert x l).
Proof.
  intros x. induction l as [|y t IH]; [apply Permutation_refl|]. cbn [kinsert].
  destruct (ints_gt y x); [apply Permutation_refl|].
  eapply Permutation_trans; [apply perm_swap|]. apply perm_skip. exact IH.
Qed.

Lemma ksort_perm : forall l, Permutation l (ksort l).
Proof.
  induction l as [|x t IH]; [apply Permutation_refl|]. cbn [ksort fold_right].
  eapply Permutation_trans; [apply perm_skip; exact IH | apply kinsert_perm].
Qed.

Lemma kinsert_ascending : forall x l, ascending l -> ascending (kinsert x l).
Proof.
  intros x. induction l as [|y t IH]; intro A.
  - cbn. split; [intros y []| exact I].
  - cbn [kinsert]. destruct A as [A1 A2]. destruct (ints_gt y x) eqn:C.
    + cbn [ascending]. split; [|split; assumption].
      intros z [<- | Hz]; [apply ints_gt_asym; exact C|].
      destruct (ints_gt x z) eqn:D; [|reflexivity].
      pose proof (ints_gt_trans y x z C D) as T. specialize (A1 z Hz). congruence.
    + cbn [ascending]. split; [|apply IH; exact A2].
      intros z Hz. apply (Permutation_in _ (Permutation_sym (kinsert_perm x t))) in Hz.
      destruct Hz as [<- | Hz]; [exact C | apply A1; exact Hz].
Qed.

Lemma ksort_ascending : forall l, ascending (ksort l).
Proof. induction l as [|x t IH]; [exact I|]. cbn [ksort fold_right]. apply kinsert_ascending. exact IH. Qed.

(* an ascending list is determined by its multiset: the order is total and antisymmetric *)
Lemma ascending_unique : forall l l', Permutation l l' -> ascending l -> ascending l' -> l = l'.
Proof.
  induction l as [|x t IH]; intros l' P A A'.
  - apply Permutation_nil in P. subst. reflexivity.
  - destruct l' as [|x' t']; [apply Permutation_sym, Permutation_nil in P; discriminate|].
    destruct A as [A1 A2]. destruct A' as [A1' A2'].
    assert (x = x').
    { assert (I1 : In x (x' :: t')) by (eapply Permutation_in; [exact P | left; reflexivity]).
      assert (I2 : In x' (x :: t)) by (eapply Permutation_in; [apply Permutation_sym; exact P | left; reflexivity]).
      destruct I1 as [-> | I1]; [reflexivity|]. destruct I2 as [-> | I2]; [reflexivity|].
      specialize (A1 x' I2). specialize (A1' x I1).
      destruct (ints_gt_total x x') as [E | [G | G]]; [exact E | congruence | congruence]. }
    subst x'. f_equal. apply IH; try assumption. eapply Permutation_cons_inv. exact P.
Qed.

Lemma ksort_layout_free_l : forall l l', Permutation l l' -> ksort l = ksort l'.
Proof.
  intros l l' P. apply ascending_unique; try apply ksort_ascending.
  eapply Permutation_trans; [apply Permutation_sym, ksort_perm|].
  eapply Permutation_trans; [exact P | apply ksort_perm].
Qed.
