(* C13 -- lemmas and proofs about Model/Gvf.v *)
From Coq Require Import ZArith List Bool Lia ZifyBool Decimal DecimalZ DecimalPos.
Import ListNotations.
From MoPep Require Import Model.Base Model.Gvf.
Open Scope Z_scope.

(* ================================================================== *)
(* basic                                                              *)
Lemma eq_seq_refl : forall a, eq_seq a a = true.
Proof. induction a; simpl; auto. rewrite Z.eqb_refl; auto. Qed.
Lemma eq_seq_eq : forall a b, eq_seq a b = true -> a = b.
Proof.
  induction a; destruct b; simpl; intros; try discriminate; auto.
  apply andb_true_iff in H as [H1 H2]. apply Z.eqb_eq in H1. f_equal; auto.
Qed.
Lemma eq_seq_neq : forall a b, eq_seq a b = false -> a <> b.
Proof. intros a b H E; subst. rewrite eq_seq_refl in H; discriminate. Qed.
Lemma eq_seq_sym : forall a b, eq_seq a b = eq_seq b a.
Proof.
  intros. destruct (eq_seq a b) eqn:E.
  - apply eq_seq_eq in E; subst. symmetry; apply eq_seq_refl.
  - destruct (eq_seq b a) eqn:E2; auto. apply eq_seq_eq in E2; subst. rewrite eq_seq_refl in E; discriminate.
Qed.
Lemma mem_seq_In : forall x l, mem_seq x l = true <-> In x l.
Proof.
  induction l; simpl; split; intros; try discriminate; try tauto.
  - apply orb_true_iff in H as [H|H]; [left; symmetry; apply eq_seq_eq; auto | right; apply IHl; auto].
  - apply orb_true_iff. destruct H; [left; subst; apply eq_seq_refl | right; apply IHl; auto].
Qed.
Lemma zlen_length : forall A (l : list A), zlen l = Z.of_nat (length l).
Proof. induction l; cbn [zlen length]; [reflexivity | rewrite Nat2Z.inj_succ; lia]. Qed.
Lemma zlen_app : forall A (a b : list A), zlen (a ++ b) = zlen a + zlen b.
Proof. intros. rewrite !zlen_length, app_length. lia. Qed.
Lemma zlen_nonneg : forall A (l : list A), 0 <= zlen l.
Proof. intros. rewrite zlen_length. lia. Qed.

(* ================================================================== *)
(* rstrip / lstrip                                                    *)
Lemma rstrip_by_nil_iff : forall p s, rstrip_by p s = [] <-> (forall c, In c s -> p c = true).
Proof.
  induction s.
  - simpl. split; intros; [contradiction | reflexivity].
  - simpl. split; intros.
    + destruct (rstrip_by p s) eqn:E.
      * destruct (p a) eqn:Pa; try discriminate. destruct H0; subst; auto. apply IHs; auto.
      * discriminate.
    + destruct (rstrip_by p s) as [|z0 l0] eqn:E.
      * rewrite H; auto.
      * assert (z0 :: l0 = []) by (apply IHs; intros; apply H; auto). discriminate.
Qed.
Lemma rstrip_by_cons : forall p c s, p c = false -> rstrip_by p (c :: s) = c :: rstrip_by p s.
Proof. intros. simpl. destruct (rstrip_by p s); auto. rewrite H; auto. Qed.
Lemma rstrip_by_app_r : forall p a b, rstrip_by p b <> [] -> rstrip_by p (a ++ b) = a ++ rstrip_by p b.
Proof.
  induction a; simpl; intros; auto.
  rewrite IHa; auto. destruct (a0 ++ rstrip_by p b) eqn:E; auto.
  destruct a0; simpl in E; [congruence | discriminate].
Qed.
Lemma rstrip_by_app_l : forall p a b, rstrip_by p b = [] -> rstrip_by p (a ++ b) = rstrip_by p a.
Proof.
  induction a; simpl; intros; auto.
  rewrite IHa; auto.
Qed.
Lemma rstrip_by_none : forall p s, (forall c, In c s -> p c = false) -> rstrip_by p s = s.
Proof.
  induction s; intros; auto.
  rewrite rstrip_by_cons by (apply H; left; auto). f_equal. apply IHs. intros; apply H; right; auto.
Qed.
Lemma rstrip_by_idem : forall p s, rstrip_by p (rstrip_by p s) = rstrip_by p s.
Proof.
  induction s; simpl; auto.
  destruct (rstrip_by p s) eqn:E.
  - destruct (p a) eqn:Pa; simpl; auto. rewrite Pa; auto.
  - simpl. simpl in IHs. rewrite IHs. auto.
Qed.
(* stripping what follows a fixpoint *)
Lemma rstrip_by_fix_app : forall p s t, rstrip_by p s = s -> s <> [] -> rstrip_by p t = [] ->
  rstrip_by p (s ++ t) = s.
Proof. intros. rewrite rstrip_by_app_l; auto. Qed.
Lemma lstrip_by_hd : forall p c s, p c = false -> lstrip_by p (c :: s) = c :: s.
Proof. intros. simpl. rewrite H. auto. Qed.

Lemma is_ws_NL : is_ws NL = true. Proof. reflexivity. Qed.
Lemma rstrip_NL : forall s, rstrip (s ++ [NL]) = rstrip s.
Proof. intros. apply rstrip_by_app_l. reflexivity. Qed.

(* ================================================================== *)
(* split / join                                                       *)
Lemma split_on_nonnil : forall c s, split_on c s <> [].
Proof.
  induction s; simpl; try discriminate.
  destruct (a =? c); try discriminate. destruct (split_on c s); discriminate.
Qed.
Lemma split_on_free : forall c s, ~ In c s -> split_on c s = [s].
Proof.
  induction s; simpl; intros; auto.
  destruct (a =? c) eqn:E. { apply Z.eqb_eq in E. exfalso; apply H; auto. }
  rewrite IHs; auto.
Qed.
Lemma split_on_app : forall c a b, ~ In c a ->
  split_on c (a ++ c :: b) = a :: split_on c b.
Proof.
  induction a; simpl; intros.
  - rewrite Z.eqb_refl. auto.
  - destruct (a =? c) eqn:E. { apply Z.eqb_eq in E. exfalso; apply H; auto. }
    rewrite IHa; auto.
Qed.
Lemma split_join : forall c l, l <> [] -> Forall (fun x => ~ In c x) l -> split_on c (join c l) = l.
Proof.
  induction l; intros; try congruence.
  inversion H0; subst. destruct l as [|b l'].
  - simpl. apply split_on_free; auto.
  - change (join c (a :: b :: l')) with (a ++ c :: join c (b :: l')).
    rewrite split_on_app; auto. f_equal. apply IHl; auto. discriminate.
Qed.
Lemma join_snoc : forall c l x, join c (l ++ [x]) = concat (map (fun y => y ++ [c]) l) ++ x.
Proof.
  induction l; intros; simpl; auto.
  destruct (l ++ [x]) eqn:E. { destruct l; discriminate. }
  rewrite <- E. rewrite IHl. rewrite <- !app_assoc. simpl. auto.
Qed.
Lemma concat_sep_join : forall c l, l <> [] -> concat (map (fun y => y ++ [c]) l) = join c l ++ [c].
Proof.
  induction l; intros; try congruence.
  destruct l as [|b l'].
  - simpl. rewrite app_nil_r. auto.
  - change (join c (a :: b :: l')) with (a ++ c :: join c (b :: l')).
    simpl map. simpl concat. simpl map in IHl. simpl concat in IHl. rewrite IHl by discriminate.
    rewrite <- !app_assoc. simpl. auto.
Qed.
Lemma In_join : forall c x l, In x (join c l) -> x = c \/ exists y, In y l /\ In x y.
Proof.
  induction l; simpl; intros; try contradiction.
  destruct l as [|b l'].
  - right. exists a; auto.
  - apply in_app_or in H as [H|H]. { right; exists a; auto. }
    destruct H as [H|H]; auto. destruct (IHl H) as [E|[y [Hy Hx]]]; auto. right; exists y; auto.
Qed.

Lemma rstrip_app_r : forall a b, rstrip b <> [] -> rstrip (a ++ b) = a ++ rstrip b.
Proof. intros. apply rstrip_by_app_r. auto. Qed.
Lemma In_rstrip_by : forall p x s, In x (rstrip_by p s) -> In x s.
Proof.
  induction s; simpl; intros; auto.
  destruct (rstrip_by p s) eqn:E.
  - destruct (p a); simpl in H; try contradiction. destruct H; auto.
  - destruct H; auto.
Qed.


(* ================================================================== *)
(* str(int) / int(str)                                                *)
Definition digitb (c : Z) : bool := (48 <=? c) && (c <=? 57).
Lemma uint_chars_digits : forall u c, In c (uint_chars u) -> digitb c = true.
Proof. induction u; simpl; intros; try contradiction; destruct H; subst; auto. Qed.
Lemma chars_uint_chars : forall u, chars_uint (uint_chars u) = Some u.
Proof. induction u; simpl; auto; rewrite IHu; reflexivity. Qed.
Lemma digit_not_ws : forall c, digitb c = true \/ c = 45 -> is_ws c = false.
Proof. intros c H. unfold digitb, is_ws in *. lia. Qed.
Lemma to_int_cases : forall z, exists u, u <> Nil /\ (Z.to_int z = Pos u \/ Z.to_int z = Neg u).
Proof.
  destruct z; simpl.
  - exists (D0 Nil). split; [discriminate | auto].
  - exists (Pos.to_uint p). split; [apply Unsigned.to_uint_nonnil | auto].
  - exists (Pos.to_uint p). split; [apply Unsigned.to_uint_nonnil | auto].
Qed.
Lemma print_int_chars : forall z c, In c (print_int z) -> digitb c = true \/ c = 45.
Proof.
  intros z c. unfold print_int. destruct (Z.to_int z); simpl; intros H.
  - left. eapply uint_chars_digits; eauto.
  - destruct H; auto. left. eapply uint_chars_digits; eauto.
Qed.
Lemma uint_chars_nonnil : forall u, u <> Nil -> uint_chars u <> [].
Proof. destruct u; intros; try congruence; discriminate. Qed.
Lemma print_int_nonnil : forall z, print_int z <> [].
Proof.
  intros z. unfold print_int. destruct (to_int_cases z) as [u [Hu [E|E]]]; rewrite E.
  - apply uint_chars_nonnil; auto.
  - discriminate.
Qed.
Lemma strip_ws_print : forall z, lstrip_by is_ws (rstrip_by is_ws (print_int z)) = print_int z.
Proof.
  intros z. rewrite rstrip_by_none.
  - pose proof (print_int_nonnil z). destruct (print_int z) eqn:E; try congruence.
    apply lstrip_by_hd. apply digit_not_ws. apply (print_int_chars z). rewrite E. left; auto.
  - intros c Hc. apply digit_not_ws. eapply print_int_chars; eauto.
Qed.
Lemma digits_int_chars : forall b u, u <> Nil ->
  digits_int b (uint_chars u) = Ok (Z.of_int (if b then Neg u else Pos u)).
Proof.
  intros b u Hu. unfold digits_int. pose proof (uint_chars_nonnil u Hu).
  destruct (uint_chars u) eqn:E; try congruence. rewrite <- E, chars_uint_chars. reflexivity.
Qed.
Lemma sign_match_digits : forall u, u <> Nil ->
  match uint_chars u with
  | 45 :: t => digits_int true t
  | 43 :: t => digits_int false t
  | s' => digits_int false s'
  end = digits_int false (uint_chars u).
Proof. destruct u; intros; try congruence; reflexivity. Qed.
Lemma parse_print : forall z, parse_int (print_int z) = Ok z.
Proof.
  intros z. unfold parse_int. rewrite strip_ws_print. unfold print_int.
  pose proof (DecimalZ.of_to z) as Hz.
  destruct (to_int_cases z) as [u [Hu [E|E]]]; rewrite E in *.
  - rewrite sign_match_digits by auto. rewrite digits_int_chars by auto. f_equal. exact Hz.
  - rewrite digits_int_chars by auto. f_equal. exact Hz.
Qed.
Lemma print_int_free : forall z c, digitb c = false -> c <> 45 -> ~ In c (print_int z).
Proof. intros z c H1 H2 H. apply print_int_chars in H. destruct H; congruence. Qed.

(* ================================================================== *)
(* slices                                                             *)
Lemma skipn_zlen_app : forall A (a b : list A), skipn (Z.to_nat (zlen a)) (a ++ b) = b.
Proof. intros. rewrite zlen_length, Nat2Z.id. rewrite skipn_app, skipn_all, Nat.sub_diag. auto. Qed.
Lemma firstn_zlen_app : forall A (a b : list A), firstn (Z.to_nat (zlen a)) (a ++ b) = a.
Proof. intros. rewrite zlen_length, Nat2Z.id. rewrite firstn_app, firstn_all, Nat.sub_diag. simpl. apply app_nil_r. Qed.
Lemma slice_mid : forall A (pre x post : list A),
  slice (pre ++ x ++ post) (zlen pre) (zlen pre + zlen x) = x.
Proof.
  intros. unfold slice. rewrite skipn_zlen_app.
  replace (zlen pre + zlen x - zlen pre) with (zlen x) by lia. apply firstn_zlen_app.
Qed.

(* ================================================================== *)
(* UTF-8 decoding distributes over a complete prefix                  *)
Lemma utf8_dec_app : forall a st a' b, utf8_dec st a = Ok a' ->
  utf8_dec st (a ++ b) = (b' <- utf8_dec None b ;; Ok (a' ++ b')).
Proof.
  induction a as [|x a IH]; intros st a' b H.
  - simpl in H. destruct st; [discriminate|]. inversion H; subst. simpl.
    destruct (utf8_dec None b); reflexivity.
  - cbn [app utf8_dec] in *. destruct st as [[[[n acc] lo] hi]|].
    + destruct ((lo <=? x) && (x <=? hi)); [|discriminate].
      destruct n as [|[|n']].
      * destruct (utf8_dec None a) eqn:E; cbn [bind] in H; [|discriminate]. inversion H; subst.
        rewrite (IH _ _ b E). destruct (utf8_dec None b); reflexivity.
      * destruct (utf8_dec None a) eqn:E; cbn [bind] in H; [|discriminate]. inversion H; subst.
        rewrite (IH _ _ b E). destruct (utf8_dec None b); reflexivity.
      * apply IH; exact H.
    + destruct ((0 <=? x) && (x <? 128)).
      { destruct (utf8_dec None a) eqn:E; cbn [bind] in H; [|discriminate]. inversion H; subst.
        rewrite (IH _ _ b E). destruct (utf8_dec None b); reflexivity. }
      repeat match goal with
             | H : (if ?c then _ else _) = Ok _ |- _ => destruct c; [apply IH; exact H|]
             end.
      discriminate.
Qed.
Lemma utf8_decode_app : forall a a' b, utf8_decode a = Ok a' ->
  utf8_decode (a ++ b) = (b' <- utf8_decode b ;; Ok (a' ++ b')).
Proof. intros. apply utf8_dec_app. exact H. Qed.

(* ================================================================== *)
(* text-mode line splitting on LF and CRLF lines                      *)
Definition CR := 13.
Lemma unl_plain_gen : forall c cur, ~ In NL c -> ~ In CR c ->
  unl (c ++ [NL]) cur = [List.rev cur ++ c ++ [NL]].
Proof.
  induction c as [|x c IH]; intros cur H1 H2.
  - simpl. reflexivity.
  - cbn [app unl].
    destruct (x =? 10) eqn:E1. { apply Z.eqb_eq in E1. exfalso. apply H1. left. auto. }
    destruct (x =? 13) eqn:E2. { apply Z.eqb_eq in E2. exfalso. apply H2. left. auto. }
    rewrite IH; [| intro; apply H1; right; auto | intro; apply H2; right; auto].
    simpl. rewrite <- app_assoc. reflexivity.
Qed.
Lemma unl_plain : forall c, ~ In NL c -> ~ In CR c -> unl (c ++ [NL]) [] = [c ++ [NL]].
Proof. intros. rewrite unl_plain_gen by auto. reflexivity. Qed.
Lemma unl_crlf_gen : forall d cur, ~ In NL d -> ~ In CR d ->
  unl ((d ++ [CR]) ++ [NL]) cur = [List.rev cur ++ d ++ [NL]].
Proof.
  induction d as [|x d IH]; intros cur H1 H2.
  - simpl. reflexivity.
  - cbn [app unl].
    destruct (x =? 10) eqn:E1. { apply Z.eqb_eq in E1. exfalso. apply H1. left. auto. }
    destruct (x =? 13) eqn:E2. { apply Z.eqb_eq in E2. exfalso. apply H2. left. auto. }
    rewrite IH; [| intro; apply H1; right; auto | intro; apply H2; right; auto].
    simpl. rewrite <- app_assoc. reflexivity.
Qed.
Lemma unl_crlf : forall d, ~ In NL d -> ~ In CR d -> unl ((d ++ [CR]) ++ [NL]) [] = [d ++ [NL]].
Proof. intros. rewrite unl_crlf_gen by auto. reflexivity. Qed.
Lemma rstrip_crlf : forall d, rstrip ((d ++ [CR]) ++ [NL]) = rstrip (d ++ [NL]).
Proof. intros. rewrite !rstrip_NL. unfold rstrip. apply rstrip_by_app_l. reflexivity. Qed.

(* ================================================================== *)
(* index-equivalent access                                            *)
Section IndexProofs.
  Variable R : Type.
  Variable P : bool -> seq -> res R.
  Variable key_of : R -> res seq.
  (* both parsers start with line.rstrip() *)
  Hypothesis P_rstrip : forall ic l, P ic l = P ic (rstrip l).

  (* a record line (bytes), its text without the terminator, and what it parses to *)
  Definition T := (seq * seq * R * seq)%type.
  Definition t_line (t : T) := fst (fst (fst t)).      (* the bytes of the line, terminator included *)
  Definition t_c (t : T) := snd (fst (fst t)).         (* its decoded text without the final newline *)
  Definition t_rec (t : T) := snd (fst t).
  Definition t_key (t : T) := snd t.
  Definition t_text (t : T) := t_c t ++ [NL].
  Definition lines_of (ts : list T) := map t_line ts.
  Definition texts_of (ts : list T) := map t_text ts.
  Definition good (ic : bool) (t : T) : Prop :=
    utf8_decode (t_line t) = Ok (t_text t) /\ ~ In NL (t_c t) /\ rstrip (t_c t) <> [] /\
    starts_with_chr HASH (t_text t) = false /\
    P ic (t_text t) = Ok (t_rec t) /\ key_of (t_rec t) = Ok (t_key t) /\
    (* read in text mode the line is one line, equal to the binary one up to trailing white space
       (true for LF and CRLF lines without a stray carriage return: unl_plain, unl_crlf, rstrip_crlf) *)
    (exists u, unl (t_text t) [] = [u] /\ rstrip u = rstrip (t_text t) /\ starts_with_chr HASH u = false).
  Definition sel (k : seq) (ts : list T) := filter (fun t => eq_seq (t_key t) k) ts.

  Notation iter_ptr := (iter_ptr R P key_of).
  Notation ptr_load := (ptr_load R P).
  Notation gather := (gather R P).
  Notation scan := (scan R P).
  Notation with_key := (with_key R key_of).

  Lemma decode_concat : forall ic ts, Forall (good ic) ts ->
    utf8_decode (concat (lines_of ts)) = Ok (concat (texts_of ts)).
  Proof.
    induction ts as [|t ts IH]; intros Hg; [reflexivity|].
    inversion Hg as [|? ? Ht Hg']; subst. destruct Ht as [Hd _].
    cbn [lines_of texts_of map concat]. rewrite (utf8_decode_app _ _ _ Hd).
    fold (lines_of ts). rewrite IH by auto. reflexivity.
  Qed.

  Lemma rstrip_run_nonnil : forall ic ts, ts <> [] -> Forall (good ic) ts ->
    rstrip (concat (texts_of ts)) <> [].
  Proof.
    intros ic ts Hn Hg. destruct ts as [|t ts']; try congruence.
    inversion Hg; subst. destruct H1 as [_ [Hnl [Hr _]]].
    cbn [texts_of map concat]. unfold t_text at 1. intro E. unfold rstrip in *.
    pose proof (proj1 (rstrip_by_nil_iff is_ws _) E) as E'. clear E. rename E' into E.
    apply Hr. apply rstrip_by_nil_iff. intros x Hx. apply E. apply in_or_app. left. apply in_or_app. left; auto.
  Qed.

  Lemma load_lines : forall ic ts, ts <> [] -> Forall (good ic) ts ->
    map_res (P ic) (split_on NL (rstrip (concat (texts_of ts)))) = Ok (map t_rec ts).
  Proof.
    induction ts as [|t ts' IH]; intros Hn Hg; try congruence.
    inversion Hg as [|? ? Ht Hg']; subst.
    destruct Ht as [Hd [Hnl [Hr [Hh [HP [Hk _]]]]]]. unfold t_text in HP.
    destruct ts' as [|t' ts''].
    - cbn [texts_of map concat]. rewrite app_nil_r. unfold t_text. rewrite rstrip_NL.
      rewrite split_on_free. 2:{ intro Hin. apply Hnl. eapply In_rstrip_by; eauto. }
      simpl. rewrite <- (rstrip_NL (t_c t)), <- (P_rstrip ic), HP. reflexivity.
    - assert (Hne : rstrip (concat (texts_of (t' :: ts''))) <> []) by (apply (rstrip_run_nonnil ic); auto; discriminate).
      change (concat (texts_of (t :: t' :: ts''))) with (t_text t ++ concat (texts_of (t' :: ts''))).
      rewrite rstrip_app_r by exact Hne.
      unfold t_text at 1. rewrite <- app_assoc. simpl app at 2. rewrite split_on_app by exact Hnl.
      cbn [map_res]. rewrite P_rstrip, <- (rstrip_NL (t_c t)), <- (P_rstrip ic), HP. cbn [bind].
      match goal with |- context [rstrip ?x] => change x with (concat (texts_of (t' :: ts''))) end.
      rewrite IH; auto. discriminate.
  Qed.

  Lemma load_run : forall ic ts pre post bytes k s e, ts <> [] -> Forall (good ic) ts ->
    bytes = pre ++ concat (lines_of ts) ++ post -> s = zlen pre -> e = zlen pre + zlen (concat (lines_of ts)) ->
    ptr_load ic bytes (k, (s, e)) = Ok (map t_rec ts).
  Proof.
    intros; subst. unfold Gvf.ptr_load. rewrite slice_mid. rewrite (decode_concat ic) by auto. cbn [bind].
    apply load_lines; auto.
  Qed.

  Lemma sel_app : forall k a b, sel k (a ++ b) = sel k a ++ sel k b.
  Proof. intros. apply filter_app. Qed.

  Lemma sel_same : forall k ts, Forall (fun t => t_key t = k) ts -> sel k ts = ts.
  Proof.
    induction ts; simpl; intros; auto. inversion H; subst. rewrite eq_seq_refl. f_equal; auto.
  Qed.
  Lemma sel_other : forall k ck ts, eq_seq ck k = false -> Forall (fun t => t_key t = ck) ts -> sel k ts = [].
  Proof.
    induction ts; simpl; intros; auto. inversion H0; subst. rewrite H. auto.
  Qed.

  Lemma iter_run : forall ic ts, Forall (good ic) ts ->
    forall pre run ck, run <> [] -> Forall (good ic) run -> Forall (fun t => t_key t = ck) run ->
    exists ps,
      iter_ptr ic (lines_of ts) (zlen pre + zlen (concat (lines_of run)))
               (Some (ck, (zlen pre, zlen pre + zlen (concat (lines_of run))))) = Ok ps /\
      forall k post bytes, bytes = pre ++ concat (lines_of run) ++ concat (lines_of ts) ++ post ->
        gather ic bytes k ps = Ok (map t_rec (sel k (run ++ ts))) /\
        has_key k ps = existsb (fun t => eq_seq (t_key t) k) (run ++ ts).
  Proof.
    induction ts as [|t ts' IH]; intros Hg pre run ck Hn Hrun Hck.
    - eexists. split. { reflexivity. }
      intros k post bytes Hb. rewrite app_nil_r. cbn [lines_of map concat] in Hb. cbn [app] in Hb.
      cbn [Gvf.gather Gvf.has_key existsb fst].
      destruct (eq_seq ck k) eqn:E.
      + apply eq_seq_eq in E; subst k.
        rewrite (load_run ic run pre post bytes ck _ _ Hn Hrun Hb eq_refl eq_refl).
        cbn [bind]. rewrite app_nil_r, sel_same by auto. split; auto.
        destruct run as [|r0 run']; [exfalso; apply Hn; reflexivity|]. inversion Hck; subst. simpl. rewrite eq_seq_refl. auto.
      + rewrite (sel_other k ck) by auto. split; auto.
        clear - E Hck. induction run; simpl; auto. inversion Hck; subst. rewrite E. simpl. auto.
    - inversion Hg as [|? ? Ht Hg']; subst.
      pose proof Ht as Ht0.
      destruct Ht as [Hd [Hnl [Hr [Hh [HP [Hk _]]]]]].
      cbn [lines_of map Gvf.iter_ptr]. fold (lines_of ts'). rewrite Hd. cbn [bind]. rewrite Hh. rewrite HP. cbn [bind]. rewrite Hk. cbn [bind].
      destruct (eq_seq ck (t_key t)) eqn:E.
      + apply eq_seq_eq in E.
        destruct (IH Hg' pre (run ++ [t]) ck) as [ps [Hps Hall]].
        { destruct run; discriminate. }
        { apply Forall_app; auto. }
        { apply Forall_app; split; auto. }
        assert (Hz : zlen pre + zlen (concat (lines_of (run ++ [t]))) =
                     zlen pre + zlen (concat (lines_of run)) + zlen (t_line t)).
        { unfold lines_of. rewrite map_app, concat_app, zlen_app. simpl. rewrite app_nil_r. lia. }
        rewrite Hz in Hps. exists ps. split; [exact Hps|].
        intros k post bytes Hb.
        destruct (Hall k post bytes) as [G H2].
        { subst bytes. unfold lines_of. rewrite map_app, concat_app. simpl. rewrite app_nil_r.
          rewrite <- !app_assoc. reflexivity. }
        rewrite <- app_assoc in G, H2. simpl in G, H2. split; auto.
      + destruct (IH Hg' (pre ++ concat (lines_of run)) [t] (t_key t)) as [ps [Hps Hall]].
        { discriminate. } { auto. } { auto. }
        assert (Hz1 : zlen (pre ++ concat (lines_of run)) = zlen pre + zlen (concat (lines_of run)))
          by apply zlen_app.
        assert (Hz2 : zlen (concat (lines_of [t])) = zlen (t_line t))
          by (simpl; rewrite app_nil_r; auto).
        rewrite Hz1, Hz2 in Hps. rewrite Hps. cbn [bind].
        eexists. split; [reflexivity|].
        intros k post bytes Hb.
        destruct (Hall k post bytes) as [G H2].
        { subst bytes. simpl. rewrite app_nil_r. rewrite <- !app_assoc. reflexivity. }
        cbn [Gvf.gather Gvf.has_key existsb fst].
        rewrite sel_app. rewrite existsb_app.
        destruct (eq_seq ck k) eqn:E2.
        * apply eq_seq_eq in E2; subst k.
          assert (Hb2 : bytes = pre ++ concat (lines_of run) ++ (concat (lines_of (t :: ts')) ++ post))
            by (rewrite Hb; reflexivity).
          rewrite (load_run ic run pre _ bytes ck _ _ Hn Hrun Hb2 eq_refl eq_refl).
          cbn [bind]. rewrite G. cbn [bind]. rewrite (sel_same ck run Hck). rewrite map_app. split; auto.
          unfold Gvf.has_key in H2. rewrite H2.
          destruct run as [|r0 run']; [exfalso; apply Hn; reflexivity|]. inversion Hck; subst. simpl. rewrite eq_seq_refl. auto.
        * rewrite G. rewrite (sel_other k ck run) by auto. simpl app. split; auto.
          unfold Gvf.has_key in H2. rewrite H2.
          replace (existsb (fun t0 : T => eq_seq (t_key t0) k) run) with false; auto.
          clear - E2 Hck. induction run; simpl; auto. inversion Hck; subst. rewrite E2. simpl. auto.
  Qed.

  (* ---- one file: header comments followed by record lines ---- *)
  Definition is_comment (l : seq) : Prop :=
    exists text u, utf8_decode l = Ok text /\ starts_with_chr HASH text = true /\
                   unl text [] = [u] /\ starts_with_chr HASH u = true.
  Definition file_lines (cs : list seq) (ts : list T) := cs ++ lines_of ts.

  Lemma iter_comments : forall ic cs, Forall is_comment cs -> forall ls off,
    iter_ptr ic (cs ++ ls) off None = iter_ptr ic ls (off + zlen (concat cs)) None.
  Proof.
    induction cs; intros Hc ls off; simpl.
    - f_equal. lia.
    - inversion Hc; subst. destruct H1 as [text [u [Hd [Hh _]]]]. rewrite Hd. cbn [bind]. rewrite Hh. rewrite IHcs by auto.
      f_equal. rewrite zlen_app. lia.
  Qed.

  Lemma scan_comments : forall ic cs, Forall is_comment cs -> forall ls,
    scan ic (cs ++ ls) = scan ic ls.
  Proof.
    induction cs; intros Hc ls; simpl; auto.
    inversion Hc; subst. destruct H1 as [text [u [Hd [_ [Hu Hh]]]]]. rewrite Hd. cbn [bind]. rewrite Hu.
    cbn [Gvf.scan_texts]. rewrite Hh. cbn [bind]. rewrite IHcs by auto. destruct (scan ic ls); reflexivity.
  Qed.

  Lemma scan_good : forall ic ts, Forall (good ic) ts -> scan ic (lines_of ts) = Ok (map t_rec ts).
  Proof.
    induction ts; intros Hg; simpl; auto.
    inversion Hg; subst. destruct H1 as [Hd [Hnl [Hr [Hh [HP [Hk [u [Hu [Hru Hhu]]]]]]]]].
    rewrite Hd. cbn [bind]. rewrite Hu. cbn [Gvf.scan_texts]. rewrite Hhu.
    rewrite (P_rstrip ic u), Hru, <- (P_rstrip ic), HP. cbn [bind]. rewrite IHts by auto. reflexivity.
  Qed.

  Lemma with_key_good : forall ic k ts, Forall (good ic) ts ->
    with_key k (map t_rec ts) = Ok (map t_rec (sel k ts)).
  Proof.
    induction ts; intros Hg; simpl; auto.
    inversion Hg; subst. destruct H1 as [Hd [Hnl [Hr [Hh [HP [Hk _]]]]]].
    rewrite Hk. cbn [bind]. rewrite IHts by auto. cbn [bind].
    destruct (eq_seq (t_key a) k); reflexivity.
  Qed.

  Theorem index_equiv_file : forall ic cs ts,
    Forall is_comment cs -> Forall (good ic) ts ->
    exists ps,
      Gvf.iterate_pointer R P key_of ic (file_lines cs ts) = Ok ps /\
      scan ic (file_lines cs ts) = Ok (map t_rec ts) /\
      forall k,
        with_key k (map t_rec ts) = Ok (map t_rec (sel k ts)) /\
        (forall post, gather ic (concat (file_lines cs ts) ++ post) k ps = Ok (map t_rec (sel k ts))) /\
        has_key k ps = existsb (fun t => eq_seq (t_key t) k) ts.
  Proof.
    intros ic cs ts Hc Hg. unfold Gvf.iterate_pointer, file_lines.
    rewrite iter_comments by auto. rewrite scan_comments by auto. rewrite scan_good by auto.
    destruct ts as [|t ts'].
    - exists []. split; [reflexivity|]. split; [reflexivity|]. intros k. split; [reflexivity|].
      split; [reflexivity | reflexivity].
    - inversion Hg as [|? ? Ht Hg']; subst. pose proof Ht as Ht0.
      destruct Ht as [Hd [Hnl [Hr [Hh [HP [Hk _]]]]]].
      cbn [lines_of map Gvf.iter_ptr]. fold (lines_of ts'). rewrite Hd. cbn [bind]. rewrite Hh, HP. cbn [bind]. rewrite Hk. cbn [bind].
      destruct (iter_run ic ts' Hg' (concat cs) [t] (t_key t)) as [ps [Hps Hall]].
      { discriminate. } { auto. } { auto. }
      assert (Hz : zlen (concat (lines_of [t])) = zlen (t_line t)) by (simpl; rewrite app_nil_r; auto).
      rewrite Hz in Hps. replace (0 + zlen (concat cs)) with (zlen (concat cs)) by lia.
      exists ps. split; [exact Hps|]. split; [reflexivity|].
      intros k. split. { apply (with_key_good ic k (t :: ts')); auto. }
      split.
      + intros post. destruct (Hall k post (concat (cs ++ t_line t :: lines_of ts') ++ post)) as [G _]; auto.
        rewrite concat_app. simpl. rewrite app_nil_r. rewrite <- !app_assoc. reflexivity.
      + destruct (Hall k [] _ eq_refl) as [_ H2]. exact H2.
  Qed.

  (* ---- the .idx route: pointer lines written by indexGVF read back to the same pointers ---- *)
  Definition key_clean (p : ptr) : Prop := ~ In TAB (fst p) /\ starts_with_chr HASH (fst p) = false.

  Lemma rstrip_print_tail : forall a z, rstrip (a ++ print_int z ++ [NL]) = a ++ print_int z.
  Proof.
    intros. rewrite app_assoc, rstrip_NL. rewrite rstrip_app_r.
    - f_equal. apply rstrip_by_none. intros c Hc. apply digit_not_ws. eapply print_int_chars; eauto.
    - unfold rstrip. rewrite rstrip_by_none. apply print_int_nonnil.
      intros c Hc. apply digit_not_ws. eapply print_int_chars; eauto.
  Qed.

  Lemma ptr_line_roundtrip : forall p, key_clean p ->
    line_to_ptr (ptr_to_line p ++ [NL]) = Ok p.
  Proof.
    intros [k [s e]] [Hk _]. simpl in Hk. unfold line_to_ptr, ptr_to_line.
    assert (E1 : join TAB [k; print_int s; print_int (e - s)] ++ [NL] =
                 (k ++ TAB :: print_int s ++ [TAB]) ++ print_int (e - s) ++ [NL]).
    { cbn [join]. rewrite <- !app_assoc; cbn [app]; rewrite <- ?app_assoc; cbn [app];
      rewrite <- ?app_assoc; cbn [app]. reflexivity. }
    assert (E2 : (k ++ TAB :: print_int s ++ [TAB]) ++ print_int (e - s) =
                 join TAB [k; print_int s; print_int (e - s)]).
    { cbn [join]. rewrite <- !app_assoc; cbn [app]; rewrite <- ?app_assoc; cbn [app]. reflexivity. }
    rewrite E1, rstrip_print_tail, E2.
    rewrite split_join.
    - rewrite !parse_print. cbn [bind]. repeat f_equal. lia.
    - discriminate.
    - repeat constructor; auto; apply print_int_free; reflexivity || discriminate.
  Qed.

  Lemma idx_ptrs_roundtrip : forall ps, Forall key_clean ps ->
    idx_ptrs (map (fun p => ptr_to_line p ++ [NL]) ps) = Ok ps.
  Proof.
    induction ps; intros H; simpl; auto.
    inversion H as [|? ? Ha Hps]; subst.
    assert (Hh : starts_with_chr HASH (ptr_to_line a ++ [NL]) = false).
    { destruct a as [k [s e]]. destruct Ha as [_ Hh]. simpl in Hh. unfold ptr_to_line. cbn [join].
      destruct k; simpl; auto. }
    rewrite Hh. rewrite ptr_line_roundtrip by auto. cbn [bind]. rewrite IHps by auto. reflexivity.
  Qed.

  (* ---- checksum gate ---- *)
  Section DigestProofs.
    Variable D : Type.
    Variable D_eqb : D -> D -> bool.
    Variable digest : seq -> D.
    Hypothesis D_eqb_spec : forall a b, D_eqb a b = true <-> a = b.
    (* SHA-512 is assumed collision free *)
    Hypothesis digest_inj : forall a b, digest a = digest b -> a = b.

    Notation index_gvf := (Gvf.index_gvf R P key_of D digest).
    Notation open_file := (Gvf.open_file R P key_of D D_eqb digest).

    Theorem fresh_idx_accepted : forall ic lines ix ps,
      index_gvf ic lines = Ok ix -> Gvf.iterate_pointer R P key_of ic lines = Ok ps -> Forall key_clean ps ->
      open_file ic lines (Some ix) = Ok ps.
    Proof.
      intros ic lines ix ps Hix Hps Hk. unfold Gvf.index_gvf in Hix. rewrite Hps in Hix. cbn [bind] in Hix.
      inversion Hix; subst ix. unfold Gvf.open_file, validate. cbn [fst snd].
      assert (E : D_eqb (digest (concat lines)) (digest (concat lines)) = true) by (apply D_eqb_spec; auto).
      rewrite E. cbn [bind]. apply idx_ptrs_roundtrip; auto.
    Qed.

    Theorem stale_idx_rejected : forall ic lines0 lines ix,
      index_gvf ic lines0 = Ok ix -> concat lines <> concat lines0 ->
      open_file ic lines (Some ix) = Err EValue.
    Proof.
      intros ic lines0 lines ix Hix Hne. unfold Gvf.index_gvf in Hix.
      destruct (Gvf.iterate_pointer R P key_of ic lines0); cbn [bind] in Hix; try discriminate.
      inversion Hix; subst ix. unfold Gvf.open_file, validate. cbn [fst snd].
      destruct (D_eqb (digest (concat lines)) (digest (concat lines0))) eqn:E; auto.
      apply D_eqb_spec in E. apply digest_inj in E. contradiction.
    Qed.

    Theorem idx_without_checksum_rejected : forall ic lines l,
      open_file ic lines (Some (None, l)) = Err EValue.
    Proof. reflexivity. Qed.
  End DigestProofs.

  (* ---- any number of files ---- *)
  Definition Q := (bool * list seq * list T * list ptr)%type.
  Definition q_ic (q : Q) := fst (fst (fst q)).
  Definition q_cs (q : Q) := snd (fst (fst q)).
  Definition q_ts (q : Q) := snd (fst q).
  Definition q_ps (q : Q) := snd q.
  Definition q_lines (q : Q) := file_lines (q_cs q) (q_ts q).
  Definition good_q (q : Q) : Prop :=
    Forall is_comment (q_cs q) /\ Forall (good (q_ic q)) (q_ts q) /\
    Gvf.iterate_pointer R P key_of (q_ic q) (q_lines q) = Ok (q_ps q).
  Definition pool_files (qs : list Q) := map (fun q => (q_ic q, (concat (q_lines q), q_ps q))) qs.
  (* the records a linear scan of every file finds for key k *)
  Definition linear (qs : list Q) (k : seq) : res (list (list R)) :=
    map_res (fun q => rs <- scan (q_ic q) (q_lines q) ;; with_key k rs) qs.
  Definition key_present (qs : list Q) (k : seq) : bool :=
    existsb (fun q => existsb (fun t => eq_seq (t_key t) k) (q_ts q)) qs.

  Lemma pool_gather_linear : forall qs k, Forall good_q qs ->
    exists L, linear qs k = Ok L /\ Gvf.pool_gather R P (pool_files qs) k = Ok (concat L) /\
              existsb (fun f => has_key k (snd (snd f))) (pool_files qs) = key_present qs k.
  Proof.
    induction qs as [|q qs IH]; intros k Hq.
    - exists []. repeat split; reflexivity.
    - inversion Hq as [|? ? Hq1 Hq2]; subst. destruct Hq1 as [Hc [Hg Hps]].
      destruct (index_equiv_file (q_ic q) (q_cs q) (q_ts q) Hc Hg) as [ps [Hps' [Hscan Hk]]].
      fold (q_lines q) in Hps', Hscan, Hk. rewrite Hps in Hps'. inversion Hps'; subst ps.
      destruct (Hk k) as [Hw [Hgat Hhas]].
      destruct (IH k Hq2) as [L [HL [HG HE]]].
      exists (map t_rec (sel k (q_ts q)) :: L).
      unfold linear in *. cbn [map_res]. rewrite Hscan. cbn [bind]. rewrite Hw. cbn [bind]. rewrite HL. cbn [bind].
      split; [reflexivity|].
      cbn [pool_files map Gvf.pool_gather]. fold (pool_files qs).
      specialize (Hgat []). rewrite app_nil_r in Hgat. rewrite Hgat. cbn [bind]. rewrite HG. cbn [bind].
      split; [reflexivity|].
      cbn [existsb snd key_present]. rewrite Hhas. f_equal. exact HE.
  Qed.

  Theorem index_equiv : forall qs k, Forall good_q qs ->
    exists L, linear qs k = Ok L /\
      Gvf.pool_get R P (pool_files qs) k = (if key_present qs k then Ok (concat L) else Err EKey).
  Proof.
    intros qs k Hq. destruct (pool_gather_linear qs k Hq) as [L [HL [HG HE]]].
    exists L. split; auto. unfold Gvf.pool_get.
    match goal with |- (if ?b then _ else _) = _ => replace b with (key_present qs k) by (symmetry; exact HE) end.
    destruct (key_present qs k); auto.
  Qed.
End IndexProofs.

(* ================================================================== *)
(* variant records: write -> parse -> write                           *)
Lemma memZ_In : forall x l, memZ x l = true <-> In x l.
Proof.
  induction l; simpl; split; intros; try discriminate; try tauto.
  - apply orb_true_iff in H as [H|H]; [left; symmetry; apply Z.eqb_eq; auto | right; apply IHl; auto].
  - apply orb_true_iff. destruct H; [left; subst; apply Z.eqb_refl | right; apply IHl; auto].
Qed.
Lemma no_chr_spec : forall bad s c, no_chr bad s = true -> In c bad -> ~ In c s.
Proof.
  intros bad s c H Hb Hs. unfold no_chr in H. rewrite forallb_forall in H.
  specialize (H c Hs). apply negb_true_iff in H. apply memZ_In in Hb. congruence.
Qed.
Lemma no_chr_app : forall bad a b, no_chr bad (a ++ b) = no_chr bad a && no_chr bad b.
Proof. intros. unfold no_chr. apply forallb_app. Qed.

Lemma rstrip_tail : forall p a vs c, p EQ = false -> p c = true -> rstrip_by p vs = vs ->
  rstrip_by p (a ++ EQ :: vs ++ [c]) = a ++ EQ :: vs.
Proof.
  intros p a vs c HE Hc Hvs.
  assert (H1 : rstrip_by p (EQ :: vs ++ [c]) = EQ :: vs).
  { rewrite rstrip_by_cons by auto. f_equal. rewrite rstrip_by_app_l; auto. simpl. rewrite Hc. auto. }
  rewrite rstrip_by_app_r; rewrite H1; auto. discriminate.
Qed.

Lemma dict_set_fresh : forall V (d : list (seq * V)) k v,
  (forall kv, In kv d -> eq_seq (fst kv) k = false) -> dict_set d k v = d ++ [(k, v)].
Proof.
  induction d as [|[k' v'] d IH]; intros k v H; simpl; auto.
  pose proof (H (k', v') (or_introl eq_refl)) as H0. cbn [fst] in H0. rewrite H0.
  f_equal. apply IH. intros; apply H; right; auto.
Qed.
Lemma dict_get_map : forall V W (f : seq -> V -> W) (d : list (seq * V)) k,
  dict_get (map (fun kv => (fst kv, f (fst kv) (snd kv))) d) k =
  match dict_get d k with Some v => Some (f k v) | None => None end.
Proof.
  induction d as [|[k' v'] d IH]; intros k; simpl; auto.
  destruct (eq_seq k' k) eqn:E; auto. apply eq_seq_eq in E; subst; auto.
Qed.

(* ---- the writer's and the reader's key tests agree on every key ---- *)
Lemma eval_kflat : forall p k, eval_kpred (kflat p) k = eval_kpred p k.
Proof.
  unfold eval_kpred. induction p as [|a p IH]; intros k; [reflexivity|].
  destruct a; cbn [kflat existsb]; rewrite <- ?IH; auto.
  rewrite existsb_app. f_equal. cbn [eval_katom].
  induction l; simpl; auto. rewrite IHl. rewrite (eq_seq_sym k a). reflexivity.
Qed.
Lemma katom_eqb_eval : forall a b k, katom_eqb a b = true -> eval_katom k a = eval_katom k b.
Proof.
  intros a b k H. destruct a, b; simpl in H; try discriminate; apply eq_seq_eq in H; subst; reflexivity.
Qed.
Lemma kpred_subset : forall p q k, forallb (fun a => kmem a q) p = true ->
  eval_kpred p k = true -> eval_kpred q k = true.
Proof.
  unfold eval_kpred. intros p q k H E. apply existsb_exists in E as [a [Ha Ea]].
  rewrite forallb_forall in H. specialize (H a Ha). unfold kmem in H.
  apply existsb_exists in H as [b [Hb Eb]]. apply existsb_exists. exists b. split; auto.
  rewrite <- (katom_eqb_eval a b k Eb). exact Ea.
Qed.
Lemma kpred_equiv_sound : forall w r, kpred_equiv w r = true -> forall k, eval_kpred w k = eval_kpred r k.
Proof.
  intros w r H k. unfold kpred_equiv in H.
  apply andb_true_iff in H as [H H2]. apply andb_true_iff in H as [_ H1].
  rewrite <- (eval_kflat w), <- (eval_kflat r).
  destruct (eval_kpred (kflat w) k) eqn:E1.
  - symmetry. eapply kpred_subset; eauto.
  - destruct (eval_kpred (kflat r) k) eqn:E2; auto.
    rewrite (kpred_subset _ _ k H2 E2) in E1. discriminate.
Qed.

Section VarProofs.
  Variable C : cfg.
  Hypothesis Hpred : forall k, eval_kpred (w_shift C) k = eval_kpred (r_shift C) k.

  Definition norm_val (k : seq) (v : aval) : aval :=
    if eval_kpred (w_shift C) k
    then match aval_int v with Ok z => AStr (print_int z) | Err _ => v end
    else AStr (aval_str v).
  Definition norm_attr (kv : seq * aval) : seq * aval := (fst kv, norm_val (fst kv) (snd kv)).

  Definition kv_text (kv : seq * aval) : res seq :=
    vs <- render_val C (fst kv) (snd kv) ;; Ok (upper (fst kv) ++ EQ :: vs).
  Definition kv_texts (attrs : list (seq * aval)) : res (list seq) := map_res kv_text attrs.

  (* shape of one "KEY=value" text *)
  Definition kv_shape (x : seq) : Prop :=
    exists k vs, x = k ++ EQ :: vs /\ tok_ok k = true /\ tok_ok vs = true /\ rstrip vs = vs.

  Lemma info_body_texts : forall attrs,
    info_body C attrs = l <- kv_texts attrs ;; Ok (concat (map (fun x => x ++ [SEMI]) l)).
  Proof.
    induction attrs as [|[k v] attrs IH]; [reflexivity|].
    cbn [info_body kv_texts map_res]. unfold kv_text at 1. cbn [fst snd]. unfold render_val.
    destruct (if eval_kpred (w_shift C) k then z <- aval_int v;; Ok (print_int (z + 1)) else Ok (aval_str v)) as [vs|e];
      cbn [bind]; auto.
    rewrite IH. unfold kv_texts. destruct (map_res kv_text attrs); cbn [bind]; auto.
    cbn [map concat]. rewrite <- !app_assoc. cbn [app]. rewrite <- ?app_assoc. reflexivity.
  Qed.

  Lemma attr_ok_text : forall k v, attr_ok C (k, v) = true ->
    exists vs, render_val C k v = Ok vs /\ upper k = k /\ tok_ok k = true /\ tok_ok vs = true /\
               strip_chr QUOTE vs = vs /\ rstrip vs = vs.
  Proof.
    intros k v H. unfold attr_ok in H. destruct (render_val C k v) as [vs|e] eqn:E.
    - apply andb_true_iff in H as [H Hc]. apply andb_true_iff in H as [Ha Hb].
      apply andb_true_iff in Hc as [Hc He]. apply andb_true_iff in Hc as [Hc Hd].
      exists vs. split; auto. split. { apply eq_seq_eq; auto. }
      split; auto. split; auto. split; apply eq_seq_eq; auto.
    - apply andb_true_iff in H as [_ H]. discriminate.
  Qed.

  Lemma render_norm : forall k v, attr_ok C (k, v) = true ->
    render_val C k (norm_val k v) = render_val C k v.
  Proof.
    intros k v H. destruct (attr_ok_text k v H) as [vs [E _]].
    unfold render_val, norm_val in *. destruct (eval_kpred (w_shift C) k).
    - destruct (aval_int v) as [z|e] eqn:Ez; cbn [bind] in *; try discriminate.
      cbn [aval_int]. rewrite parse_print. reflexivity.
    - reflexivity.
  Qed.

  Lemma kv_text_norm : forall kv, attr_ok C kv = true -> kv_text (norm_attr kv) = kv_text kv.
  Proof.
    intros [k v] H. unfold kv_text, norm_attr. cbn [fst snd]. rewrite render_norm by auto. reflexivity.
  Qed.
  Lemma kv_texts_norm : forall attrs, forallb (attr_ok C) attrs = true ->
    kv_texts (map norm_attr attrs) = kv_texts attrs.
  Proof.
    unfold kv_texts. induction attrs as [|kv attrs IH]; intros H; [reflexivity|].
    cbn [forallb] in H. apply andb_true_iff in H as [H1 H2].
    cbn [map map_res]. rewrite kv_text_norm by auto. rewrite IH by auto. reflexivity.
  Qed.

  Lemma parse_field : forall acc k v vs, attr_ok C (k, v) = true -> render_val C k v = Ok vs ->
    parse_attr_field C acc (k ++ EQ :: vs) = Ok (dict_set acc k (norm_val k v)).
  Proof.
    intros acc k v vs H E. destruct (attr_ok_text k v H) as [vs' [E' [Hu [Hk [Hv [Hq Hr]]]]]].
    rewrite E in E'. inversion E'; subst vs'. clear E'.
    unfold parse_attr_field.
    rewrite split_on_app by (eapply no_chr_spec; eauto; simpl; auto 10).
    rewrite split_on_free by (eapply no_chr_spec; eauto; simpl; auto 10).
    rewrite Hq. unfold render_val, norm_val in *. rewrite <- Hpred.
    destruct (eval_kpred (w_shift C) k).
    - destruct (aval_int v) as [z|e]; cbn [bind] in E; try discriminate. inversion E; subst vs.
      rewrite parse_print. cbn [bind]. replace (z + 1 - 1) with z by lia. reflexivity.
    - inversion E; subst. reflexivity.
  Qed.

  Lemma parse_from : forall attrs acc,
    forallb (attr_ok C) attrs = true -> nodup_seq (map fst attrs) = true ->
    (forall kv a, In kv attrs -> In a acc -> eq_seq (fst a) (fst kv) = false) ->
    exists l, kv_texts attrs = Ok l /\ Forall kv_shape l /\ length l = length attrs /\
              parse_attrs_from C acc l = Ok (acc ++ map norm_attr attrs).
  Proof.
    induction attrs as [|[k v] attrs IH]; intros acc Hok Hnd Hfresh.
    - exists []. simpl. rewrite app_nil_r. auto.
    - simpl in Hok. apply andb_true_iff in Hok as [H1 H2].
      simpl in Hnd. apply andb_true_iff in Hnd as [Hn1 Hn2]. apply negb_true_iff in Hn1.
      destruct (attr_ok_text k v H1) as [vs [E [Hu [Hk [Hv [Hq Hr]]]]]].
      destruct (IH (dict_set acc k (norm_val k v)) H2 Hn2) as [l [Hl [Hsh [Hlen Hp]]]].
      { intros kv a Hkv Ha.
        rewrite dict_set_fresh in Ha by (intros a' Ha'; apply (Hfresh (k, v) a'); [left; auto | auto]).
        apply in_app_or in Ha as [Ha|Ha].
        - apply Hfresh; [right; auto | auto].
        - destruct Ha as [Ha|[]]. subst a. cbn [fst].
          destruct (eq_seq k (fst kv)) eqn:Ek; auto. apply eq_seq_eq in Ek.
          assert (mem_seq k (map fst attrs) = true) by (apply mem_seq_In; rewrite Ek; apply in_map; auto).
          congruence. }
      exists ((k ++ EQ :: vs) :: l). cbn [kv_texts map_res]. unfold kv_text at 1. cbn [fst snd].
      rewrite E. cbn [bind]. rewrite Hu. fold (kv_texts attrs). rewrite Hl. cbn [bind].
      split; [reflexivity|]. split. { constructor; auto. exists k, vs. auto. }
      split. { simpl. auto. }
      cbn [parse_attrs_from]. rewrite (parse_field acc k v vs H1 E). cbn [bind]. rewrite Hp.
      rewrite dict_set_fresh by (intros a' Ha'; apply (Hfresh (k, v) a'); [left; auto | auto]).
      rewrite <- app_assoc. reflexivity.
  Qed.

  Lemma kv_shape_free : forall x c, kv_shape x -> In c [TAB; NL; SEMI] -> ~ In c x.
  Proof.
    intros x c [k [vs [E [Hk [Hv _]]]]] Hc Hin. subst x.
    apply in_app_or in Hin as [Hin|[Hin|Hin]].
    - revert Hin. eapply no_chr_spec; eauto. simpl in *. intuition.
    - subst c. simpl in Hc. unfold TAB, NL, SEMI, EQ in Hc. intuition discriminate.
    - revert Hin. eapply no_chr_spec; eauto. simpl in *. intuition.
  Qed.

  (* the INFO column ends in "=value" with a clean value *)
  Definition good_tail (i : seq) : Prop :=
    exists a vs, i = a ++ EQ :: vs /\ rstrip vs = vs /\ ~ In SEMI vs.
  Lemma join_good_tail : forall l, l <> [] -> Forall kv_shape l -> good_tail (join SEMI l).
  Proof.
    induction l as [|x l IH]; intros Hn Hs; try congruence.
    inversion Hs as [|? ? Hx Hl]; subst. destruct l as [|y l'].
    - destruct Hx as [k [vs [E [Hk [Hv Hr]]]]]. exists k, vs. simpl. repeat split; auto.
      eapply no_chr_spec; eauto. simpl; auto.
    - destruct (IH ltac:(discriminate) Hl) as [a [vs [E [Hr Hsm]]]].
      exists (x ++ SEMI :: a), vs. split; auto.
      change (join SEMI (x :: y :: l')) with (x ++ SEMI :: join SEMI (y :: l')). rewrite E.
      rewrite <- app_assoc. reflexivity.
  Qed.

  Lemma info_spec : forall attrs l, attrs <> [] -> kv_texts attrs = Ok l -> Forall kv_shape l ->
    length l = length attrs -> info C attrs = Ok (join SEMI l).
  Proof.
    intros attrs l Hn Hl Hs Hlen. unfold info. rewrite info_body_texts, Hl. cbn [bind].
    assert (Hln : l <> []) by (destruct l; destruct attrs; simpl in *; congruence).
    rewrite concat_sep_join by auto.
    destruct (join_good_tail l Hln Hs) as [a [vs [E [Hr Hsm]]]]. rewrite E.
    rewrite <- app_assoc. cbn [app]. rewrite rstrip_tail; auto.
    apply rstrip_by_none. intros c Hc. destruct (SEMI =? c) eqn:Ec; auto.
    apply Z.eqb_eq in Ec. subst c. contradiction.
  Qed.
End VarProofs.

Lemma line_fields : forall F i, Forall (fun x => ~ In TAB x) F -> ~ In TAB i ->
  (exists a vs, i = a ++ EQ :: vs /\ rstrip vs = vs) ->
  split_on TAB (rstrip (join TAB (F ++ [i]) ++ [NL])) = F ++ [i].
Proof.
  intros F i HF Hi [a [vs [E Hr]]].
  assert (Hs : rstrip (join TAB (F ++ [i]) ++ [NL]) = join TAB (F ++ [i])).
  { rewrite join_snoc. rewrite E. 
    replace ((concat (map (fun y => y ++ [TAB]) F) ++ a ++ EQ :: vs) ++ [NL])
      with ((concat (map (fun y => y ++ [TAB]) F) ++ a) ++ EQ :: vs ++ [NL])
      by (rewrite <- !app_assoc; cbn [app]; reflexivity).
    unfold rstrip. rewrite rstrip_tail; auto. rewrite <- app_assoc. reflexivity. }
  rewrite Hs. apply split_join.
  - destruct F; discriminate.
  - apply Forall_app; split; auto.
Qed.

Lemma assoc_row : forall (f : seq * (seq * bool) -> bool) a tab row,
  assoc_seq a tab = Some row -> forallb f tab = true -> f (a, row) = true.
Proof.
  induction tab as [|[k v] tab IH]; simpl; intros row H Hf; try discriminate.
  apply andb_true_iff in Hf as [H1 H2].
  destruct (eq_seq a k) eqn:E.
  - apply eq_seq_eq in E. inversion H; subst. auto.
  - apply IH; auto.
Qed.

Lemma ltb_add_nonneg : forall s n, 0 <= n -> (s + n <? s) = false.
Proof. intros. lia. Qed.
Lemma ltb_of_leb : forall s e, (s <=? e) = true -> (e <? s) = false.
Proof. intros. lia. Qed.

Section VarRoundTrip.
  Variable C : cfg.
  Hypothesis HC : cfg_ok C = true.

  Lemma to_string_nonsns : forall r c rest,
    mem_seq (v_type r) (sns_types C) = false -> v_ref r = c :: rest ->
    to_string C r = i <- info C (v_attrs r) ;;
                    Ok (join TAB ([v_seqname r; print_int (v_start r + 1); v_id r; [c];
                                   write_alt C (v_type r); s_dot; s_dot] ++ [i])).
  Proof.
    intros r c rest H H0. unfold to_string, write_alt. rewrite H, H0.
    destruct (eq_seq (v_type r) s_Fusion); [|destruct (mem_seq (v_type r) (up3_types C))];
      cbn [first_chr bind fst snd]; reflexivity.
  Qed.
  Lemma to_string_sns : forall r,
    mem_seq (v_type r) (sns_types C) = true ->
    to_string C r = i <- info C (v_attrs r) ;;
                    Ok (join TAB ([v_seqname r; print_int (v_start r + 1); v_id r; v_ref r;
                                   v_alt r; s_dot; s_dot] ++ [i])).
  Proof. intros r H. unfold to_string. rewrite H. cbn [bind fst snd]. reflexivity. Qed.

  Lemma field_ok_tab : forall s, field_ok s = true -> ~ In TAB s.
  Proof. intros. eapply no_chr_spec; eauto. simpl; auto. Qed.
  Lemma print_no_tab : forall z, ~ In TAB (print_int z).
  Proof. intros. apply print_int_free; [reflexivity | discriminate]. Qed.
  Lemma dot_no_tab : ~ In TAB s_dot.
  Proof. simpl. unfold TAB. intros [H|[]]; discriminate. Qed.

  Theorem var_roundtrip : forall r, wf_rec C r = true ->
    exists s r', to_string C r = Ok s /\ line_to_variant_record C (s ++ [NL]) = Ok r' /\
                 to_string C r' = Ok s.
  Proof.
    intros r W. unfold wf_rec in W.
    apply andb_true_iff in W as [W Wtyp]. apply andb_true_iff in W as [W Wnd].
    apply andb_true_iff in W as [W Wattrs]. apply andb_true_iff in W as [W Wne].
    apply andb_true_iff in W as [Wseq Wid].
    assert (Hne : v_attrs r <> []) by (destruct (v_attrs r); [discriminate | discriminate]).
    assert (Hpred : forall k, eval_kpred (w_shift C) k = eval_kpred (r_shift C) k).
    { apply kpred_equiv_sound. unfold cfg_ok in HC. rewrite !andb_true_iff in HC. tauto. }
    destruct (parse_from C Hpred (v_attrs r) [] Wattrs Wnd ltac:(intros ? ? ? []))
      as [l [Hl [Hsh [Hlen Hp]]]]. cbn [app] in Hp.
    pose proof (info_spec C (v_attrs r) l Hne Hl Hsh Hlen) as Hinfo.
    assert (Hln : l <> []) by (destruct l; destruct (v_attrs r); simpl in *; congruence).
    set (i := join SEMI l) in *.
    assert (Hitab : ~ In TAB i).
    { intro Hin. apply In_join in Hin as [Hin|[y [Hy Hin]]]; [discriminate|].
      rewrite Forall_forall in Hsh. eapply (kv_shape_free y TAB); eauto. simpl; auto. }
    assert (Htail : exists a vs, i = a ++ EQ :: vs /\ rstrip vs = vs).
    { destruct (join_good_tail l Hln Hsh) as [a [vs [E [Hr _]]]]. exists a, vs. auto. }
    assert (Hsplit : split_on SEMI i = l).
    { apply split_join; auto. rewrite Forall_forall in *. intros y Hy. eapply kv_shape_free; eauto. simpl; auto. }
    assert (Hparse : parse_attrs C i = Ok (map (norm_attr C) (v_attrs r))).
    { unfold parse_attrs. rewrite Hsplit. exact Hp. }
    assert (Hinfo' : info C (map (norm_attr C) (v_attrs r)) = Ok i).
    { apply info_spec; auto.
      - destruct (v_attrs r); [congruence | discriminate].
      - rewrite kv_texts_norm; auto.
      - rewrite map_length; auto. }
    unfold cfg_ok in HC.
    apply andb_true_iff in HC as [HC' Hrows]. apply andb_true_iff in HC' as [HC' Hend].
    apply andb_true_iff in HC' as [HC' Hequiv].
    apply andb_true_iff in HC' as [HC' Ha3]. apply andb_true_iff in HC' as [HC' Ha2].
    apply andb_true_iff in HC' as [HC' Ha1]. apply andb_true_iff in HC' as [HC' Hs3].
    apply andb_true_iff in HC' as [Hs1 Hs2]. apply negb_true_iff in Hend.
    destruct (mem_seq (v_type r) (sns_types C)) eqn:Esns.
    - (* plain substitution: SNV / INDEL / MNV / RNAEditingSite *)
      apply andb_true_iff in Wtyp as [Wtyp Walt]. apply andb_true_iff in Wtyp as [Wref Walt0].
      apply negb_true_iff in Walt.
      set (F := [v_seqname r; print_int (v_start r + 1); v_id r; v_ref r; v_alt r; s_dot; s_dot]).
      assert (HF : Forall (fun x => ~ In TAB x) F).
      { unfold F. repeat constructor; auto using field_ok_tab, print_no_tab, dot_no_tab. }
      set (typ' := if (zlen (v_ref r) =? 1) && (zlen (v_alt r) =? 1) then s_SNV
                   else if (zlen (v_ref r) =? 1) || (zlen (v_alt r) =? 1) then s_INDEL else s_MNV).
      assert (Ht : mem_seq typ' (sns_types C) = true /\ mem_seq typ' (all_types C) = true).
      { unfold typ'. destruct ((zlen (v_ref r) =? 1) && (zlen (v_alt r) =? 1)); auto.
        destruct ((zlen (v_ref r) =? 1) || (zlen (v_alt r) =? 1)); auto. }
      destruct Ht as [Ht1 Ht2].
      exists (join TAB (F ++ [i])).
      exists (mkVar (v_seqname r) (v_start r) (v_start r + zlen (v_ref r)) (v_ref r) (v_alt r) typ' (v_id r)
                    (map (norm_attr C) (v_attrs r))).
      split. { rewrite to_string_sns by auto. rewrite Hinfo. reflexivity. }
      split.
      + unfold line_to_variant_record. rewrite line_fields by auto.
        unfold F, fields_to_record. cbn [app nth_field nth_error bind].
        rewrite parse_print. cbn [bind]. rewrite Hparse. cbn [bind]. rewrite Walt. cbn [negb bind fst snd].
        fold typ'. rewrite Z.add_simpl_r.
        unfold mk_record.
        rewrite (ltb_add_nonneg _ _ (zlen_nonneg _ (v_ref r))).
        rewrite Z.add_simpl_l.
        rewrite Z.eqb_refl. cbn [negb]. rewrite andb_false_r. rewrite Ht2. cbn [negb]. reflexivity.
      + rewrite to_string_sns by (cbn [v_type]; auto). cbn [v_attrs v_seqname v_start v_id v_ref v_alt].
        rewrite Hinfo'. reflexivity.
    - (* symbolic ALT: Fusion / Insertion / Deletion / Substitution *)
      destruct (v_ref r) as [|c rest] eqn:Eref; [discriminate|].
      apply andb_true_iff in Wtyp as [Wc Wrow].
      destruct (assoc_seq (write_alt C (v_type r)) (alt_tab C)) as [[T' fe]|] eqn:Eassoc; [|destruct (v_type r); discriminate].
      pose proof (assoc_row (row_ok C) _ _ _ Eassoc Hrows) as Hrow. unfold row_ok in Hrow.
      apply andb_true_iff in Hrow as [Hrow Hnolen]. apply andb_true_iff in Hrow as [Hrow Hwa].
      apply andb_true_iff in Hrow as [Hrow HTall]. apply andb_true_iff in Hrow as [Hrow HTsns].
      apply andb_true_iff in Hrow as [Hlt Hfo]. apply negb_true_iff in HTsns. apply eq_seq_eq in Hwa.
      set (al := write_alt C (v_type r)) in *.
      set (F := [v_seqname r; print_int (v_start r + 1); v_id r; [c]; al; s_dot; s_dot]).
      assert (HF : Forall (fun x => ~ In TAB x) F).
      { unfold F. repeat constructor; auto using field_ok_tab, print_no_tab, dot_no_tab. }
      exists (join TAB (F ++ [i])).
      assert (Hfirst : to_string C r = Ok (join TAB (F ++ [i]))).
      { rewrite (to_string_nonsns r c rest) by auto. rewrite Hinfo. reflexivity. }
      assert (Hcommon : forall en,
        to_string C (mkVar (v_seqname r) (v_start r) en [c] al T' (v_id r) (map (norm_attr C) (v_attrs r)))
        = Ok (join TAB (F ++ [i]))).
      { intros en. rewrite (to_string_nonsns _ c []) by (cbn [v_type v_ref]; auto).
        cbn [v_attrs v_seqname v_start v_id v_type]. rewrite Hinfo'. cbn [bind]. rewrite Hwa. reflexivity. }
      destruct fe.
      + (* end taken from attrs['END'] *)
        unfold end_ok in Wrow.
        destruct (dict_get (v_attrs r) s_END) as [v|] eqn:Eget; [|discriminate].
        destruct (aval_int v) as [e|] eqn:Ev; [|discriminate].
        exists (mkVar (v_seqname r) (v_start r) e [c] al T' (v_id r) (map (norm_attr C) (v_attrs r))).
        split; [exact Hfirst|]. split; [|apply Hcommon].
        unfold line_to_variant_record. rewrite line_fields by auto.
        unfold F, fields_to_record. cbn [app nth_field nth_error bind].
        rewrite parse_print. cbn [bind]. rewrite Hparse. cbn [bind]. rewrite Hlt. cbn [negb].
        rewrite Eassoc.
        unfold norm_attr. rewrite (dict_get_map _ _ (norm_val C)). rewrite Eget.
        assert (Hev : aval_int (norm_val C s_END v) = Ok e).
        { unfold norm_val. rewrite Hpred, Hend. destruct v; cbn [aval_str aval_int] in *; auto.
          - injection Ev as Ez. rewrite <- Ez. apply parse_print.
          - discriminate. }
        rewrite Hev. cbn [bind fst snd]. rewrite Z.add_simpl_r.
        unfold mk_record. rewrite (ltb_of_leb _ _ Wrow).
        rewrite Hnolen. cbn [negb andb]. rewrite HTall. cbn [negb]. reflexivity.
      + exists (mkVar (v_seqname r) (v_start r) (v_start r + 1) [c] al T' (v_id r) (map (norm_attr C) (v_attrs r))).
        split; [exact Hfirst|]. split; [|apply Hcommon].
        unfold line_to_variant_record. rewrite line_fields by auto.
        unfold F, fields_to_record. cbn [app nth_field nth_error bind].
        rewrite parse_print. cbn [bind]. rewrite Hparse. cbn [bind]. rewrite Hlt. cbn [negb].
        rewrite Eassoc. cbn [bind fst snd]. rewrite Z.add_simpl_r.
        unfold mk_record. rewrite (ltb_add_nonneg _ 1 ltac:(discriminate)).
        rewrite Z.add_simpl_l. cbn [zlen].
        replace (1 =? 1 + 0) with true by reflexivity. cbn [negb]. rewrite andb_false_r.
        rewrite HTall. cbn [negb]. reflexivity.
  Qed.
End VarRoundTrip.

(* ================================================================== *)
(* circRNA records                                                    *)
Lemma ints_roundtrip : forall l, l <> [] ->
  map_res parse_int (split_on COMMA (join COMMA (map print_int l))) = Ok l.
Proof.
  intros l Hn. rewrite split_join.
  - clear Hn. induction l; simpl; auto. rewrite parse_print. cbn [bind].
    change (map_res parse_int (map print_int l)) with (map_res parse_int (map print_int l)).
    rewrite IHl. reflexivity.
  - destruct l; [congruence | discriminate].
  - apply Forall_forall. intros x Hx. apply in_map_iff in Hx as [z [<- _]].
    apply print_int_free; [reflexivity | discriminate].
Qed.
Lemma join_ints_chars : forall l c, In c (join COMMA (map print_int l)) -> c = COMMA \/ digitb c = true \/ c = 45.
Proof.
  intros l c H. apply In_join in H as [H|[y [Hy Hc]]]; auto.
  apply in_map_iff in Hy as [z [<- _]]. right. eapply print_int_chars; eauto.
Qed.
Lemma join_ints_tok : forall l, tok_ok (join COMMA (map print_int l)) = true.
Proof.
  intros l. unfold tok_ok, no_chr. apply forallb_forall. intros c Hc.
  apply join_ints_chars in Hc. unfold COMMA, digitb in Hc. apply negb_true_iff.
  destruct (memZ c [TAB; NL; SEMI; EQ]) eqn:E; auto. apply memZ_In in E. simpl in E.
  unfold TAB, NL, SEMI, EQ in E. lia.
Qed.
Lemma join_nonnil : forall c l, l <> [] -> (forall x, In x l -> x <> []) -> join c l <> [].
Proof.
  intros c l Hn Hx. destruct l as [|x l]; [congruence|]. destruct l.
  - simpl. apply Hx. left; auto.
  - change (join c (x :: l :: l0)) with (x ++ c :: join c (l :: l0)). destruct x; discriminate.
Qed.
Lemma mk_frags_roundtrip : forall s0 fr, forallb (fun f => fst f <=? snd f) fr = true ->
  mk_frags s0 (map (fun f => fst f - s0) fr) (map (fun f => snd f - fst f) fr) = Ok fr.
Proof.
  induction fr as [|[a b] fr IH]; intros H; simpl; auto.
  simpl in H. apply andb_true_iff in H as [H1 H2].
  destruct (b - a <? 0) eqn:E; [lia|]. rewrite IH by auto. cbn [bind].
  repeat f_equal; lia.
Qed.
Lemma tok_ok_free : forall s c, tok_ok s = true -> In c [TAB; NL; SEMI; EQ] -> ~ In c s.
Proof. intros. eapply no_chr_spec; eauto. Qed.

Lemma kvtext_free : forall k v ch, tok_ok k = true -> tok_ok v = true -> In ch [TAB; NL; SEMI] ->
  ~ In ch (k ++ EQ :: v).
Proof.
  intros k v ch Hk Hv Hch Hin.
  assert (Hch' : In ch [TAB; NL; SEMI; EQ]) by (simpl in *; tauto).
  apply in_app_or in Hin as [Hin|[Hin|Hin]].
  - revert Hin. apply tok_ok_free; auto.
  - subst ch. simpl in Hch. unfold TAB, NL, SEMI, EQ in Hch. destruct Hch as [H|[H|[H|[]]]]; discriminate.
  - revert Hin. apply tok_ok_free; auto.
Qed.

Ltac sym_facts :=
  repeat match goal with
  | H : eq_seq ?a ?b = false |- _ =>
    lazymatch goal with
    | _ : eq_seq b a = false |- _ => fail
    | _ => pose proof (eq_trans (eq_seq_sym b a) H)
    end
  end.
Ltac use_facts :=
  repeat match goal with
  | H : eq_seq ?a ?b = false |- context [eq_seq ?a ?b] => rewrite H
  end.

Section CircProofs.
  Variable wk : list seq.
  Hypothesis Hwk : keys_ok wk = true.

  Theorem circ_parse_write : forall c, wf_circ c = true ->
    exists s, circ_to_string wk c = Ok s /\ line_to_circ wk (s ++ [NL]) = Ok c.
  Proof.
    intros c W. unfold keys_ok in Hwk.
    apply andb_true_iff in Hwk as [Hk Hnd]. apply andb_true_iff in Hk as [Hlen Htok].
    apply Nat.eqb_eq in Hlen.
    destruct wk as [|k0 [|k1 [|k2 [|k3 [|k4 [|k5 [|k6 wk']]]]]]]; try discriminate. clear Hlen.
    cbn [forallb] in Htok. rewrite !andb_true_iff in Htok. destruct Htok as [T0 [T1 [T2 [T3 [T4 [T5 _]]]]]].
    cbn [nodup_seq mem_seq] in Hnd. rewrite ?orb_false_r in Hnd.
    rewrite ?negb_orb, ?andb_true_iff, ?negb_true_iff in Hnd.
    destruct Hnd as [[N01 [N02 [N03 [N04 N05]]]] [[N12 [N13 [N14 N15]]] [[N23 [N24 N25]] [[N34 N35] [N45 _]]]]].
    sym_facts.
    unfold wf_circ in W. rewrite !andb_true_iff in W.
    destruct W as [[[[[[[Wne Wle] Wg] Wid] Wtx] Wgn] Wgen] Wws]. apply eq_seq_eq in Wws.
    destruct c as [tx fr intr id gid gname genomic]. cbn [c_frags c_gene_id c_id c_tx c_gene_name c_genomic c_intron] in *.
    destruct fr as [|[s0 e0] fr'] eqn:Efr; [discriminate|]. rewrite <- Efr in *.
    set (offset := join COMMA (map (fun f => print_int (fst f - s0)) fr)).
    set (length := join COMMA (map (fun f => print_int (snd f - fst f)) fr)).
    set (intron := join COMMA (map print_int intr)).
    set (L := [k0 ++ EQ :: offset; k1 ++ EQ :: length; k2 ++ EQ :: intron; k3 ++ EQ :: tx;
               k4 ++ EQ :: gname; k5 ++ EQ :: genomic]).
    set (F := [gid; print_int s0; id; s_dot; s_dot; s_dot; s_dot]).
    assert (Hoff : tok_ok offset = true).
    { unfold offset. rewrite <- (map_map (fun f => fst f - s0) print_int). apply join_ints_tok. }
    assert (Hlen : tok_ok length = true).
    { unfold length. rewrite <- (map_map (fun f => snd f - fst f) print_int). apply join_ints_tok. }
    assert (Hint : tok_ok intron = true) by apply join_ints_tok.
    assert (Hs : circ_to_string (k0 :: k1 :: k2 :: k3 :: k4 :: [k5]) (mkCirc tx fr intr id gid gname genomic)
                 = Ok (join TAB (F ++ [join SEMI L]))).
    { unfold circ_to_string. cbn [c_frags c_gene_id c_id c_tx c_gene_name c_genomic c_intron]. rewrite Efr at 1.
      fold offset length intron. unfold key6. cbn [nth]. unfold F, L. cbn [app join].
      repeat (rewrite <- app_assoc || rewrite <- app_comm_cons). reflexivity. }
    exists (join TAB (F ++ [join SEMI L])). split; [exact Hs|].
    assert (HL : Forall (fun x => forall ch, In ch [TAB; NL; SEMI] -> ~ In ch x) L).
    { unfold L. repeat (constructor; [intros ch Hch; apply kvtext_free; auto|]). constructor. }
    assert (Hitab : ~ In TAB (join SEMI L)).
    { intro Hin. apply In_join in Hin as [Hin|[y [Hy Hin]]]; [discriminate|].
      rewrite Forall_forall in HL. eapply (HL y Hy TAB); eauto. simpl; auto. }
    assert (Htail : exists a vs, join SEMI L = a ++ EQ :: vs /\ rstrip vs = vs).
    { exists (k0 ++ EQ :: offset ++ SEMI :: k1 ++ EQ :: length ++ SEMI :: k2 ++ EQ :: intron ++ SEMI ::
              k3 ++ EQ :: tx ++ SEMI :: k4 ++ EQ :: gname ++ SEMI :: k5), genomic.
      split; auto. unfold L. cbn [join].
      repeat (rewrite <- app_assoc || rewrite <- app_comm_cons). reflexivity. }
    assert (HF : Forall (fun x => ~ In TAB x) F).
    { unfold F. repeat constructor; auto using field_ok_tab, print_no_tab, dot_no_tab. }
    unfold line_to_circ. rewrite line_fields by auto.
    unfold F, fields_to_circ. cbn [app nth_field nth_error bind]. rewrite parse_print. cbn [bind].
    rewrite split_join; [| discriminate | rewrite Forall_forall in *; intros y Hy; apply (HL y Hy); simpl; auto].
    assert (Hoffs : map_res parse_int (split_on COMMA offset) = Ok (map (fun f => fst f - s0) fr)).
    { unfold offset. rewrite <- (map_map (fun f => fst f - s0) print_int). apply ints_roundtrip.
      rewrite Efr. discriminate. }
    assert (Hlens : map_res parse_int (split_on COMMA length) = Ok (map (fun f => snd f - fst f) fr)).
    { unfold length. rewrite <- (map_map (fun f => snd f - fst f) print_int). apply ints_roundtrip.
      rewrite Efr. discriminate. }
    assert (Hintr : match intron with
                    | [] => Ok (CInts [])
                    | _ => l <- map_res parse_int (split_on COMMA intron) ;; Ok (CInts l)
                    end = Ok (CInts intr)).
    { destruct intr as [|z intr'] eqn:Ei.
      - reflexivity.
      - assert (intron <> []).
        { unfold intron. apply join_nonnil; [discriminate|]. intros x Hx. apply in_map_iff in Hx as [z' [<- _]].
          apply print_int_nonnil. }
        destruct intron eqn:Eq; [congruence|]. rewrite <- Eq. unfold intron. rewrite ints_roundtrip by discriminate.
        reflexivity. }
    unfold L. cbn [circ_attrs_from]. unfold circ_attr_field, key6. cbn [nth].
    rewrite !split_on_app by (apply tok_ok_free; auto; simpl; auto 10).
    rewrite (split_on_free EQ offset), (split_on_free EQ length), (split_on_free EQ intron),
            (split_on_free EQ tx), (split_on_free EQ gname), (split_on_free EQ genomic)
      by (apply tok_ok_free; auto; simpl; auto 10).
    rewrite !eq_seq_refl. use_facts. cbn [orb].
    rewrite Hoffs, Hlens, Hintr. cbn [bind dict_set].
    repeat (progress (use_facts; cbn [bind dict_set])).
    unfold get_ints, get_str. cbn [dict_get]. rewrite ?eq_seq_refl.
    repeat (progress (use_facts; rewrite ?eq_seq_refl; cbn [bind dict_get])).
    rewrite mk_frags_roundtrip by auto. cbn [bind]. reflexivity.
  Qed.
End CircProofs.
