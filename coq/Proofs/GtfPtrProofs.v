(* C11 -- proofs about Model/GtfPtr.v: byte offsets of the pointers and what loading a range returns *)
From Coq Require Import ZArith List Bool Lia ZifyBool.
From MoPep Require Import Model.Base Model.GtfPtr Proofs.AnnoProofs Proofs.PtrCacheProofs.
Import ListNotations.
Open Scope Z_scope.

(* ------------------------------------------------------------------ lists of bytes *)
Lemma bytes_of_app : forall a b, bytes_of (a ++ b) = bytes_of a ++ bytes_of b.
Proof. intros. unfold bytes_of. apply flat_map_app. Qed.

Lemma bytes_of_block : forall t l, bytes_of (map (fun b => (b, LRec t)) l) = concat l.
Proof. induction l as [|x l IH]; [reflexivity|]. cbn [map bytes_of flat_map fst concat] in *. unfold bytes_of in IH. rewrite IH. reflexivity. Qed.

Lemma skipn_app_exact : forall A (a r : list A), skipn (length a) (a ++ r) = r.
Proof. induction a; intros; [reflexivity | apply IHa]. Qed.

Lemma firstn_app_exact : forall A (b c : list A), firstn (length b) (b ++ c) = b.
Proof. induction b; intros; [reflexivity | cbn; f_equal; apply IHb]. Qed.

Lemma slice_middle : forall A (a b c : list A), slice (a ++ b ++ c) (zlen a) (zlen a + zlen b) = b.
Proof.
  intros. unfold slice. rewrite !zlen_length.
  replace (Z.to_nat (Z.of_nat (length a) + Z.of_nat (length b) - Z.of_nat (length a))) with (length b) by lia.
  rewrite Nat2Z.id, skipn_app_exact, firstn_app_exact. reflexivity.
Qed.

(* ------------------------------------------------------------------ the running offset *)
Lemma fold_end : forall ls st, i_end (fold_left istep ls st) = i_end st + zlen (bytes_of ls).
Proof.
  induction ls as [|[b k] ls IH]; intros st; [cbn; lia|].
  cbn [fold_left]. rewrite IH. unfold bytes_of; cbn [flat_map fst]. rewrite zlen_app.
  assert (E : i_end (istep st (b, k)) = i_end st + zlen b).
  { unfold istep; cbn [fst snd]. destruct k; [reflexivity | reflexivity|].
    destruct (match i_txid st with Some t' => t' =? t | None => false end); reflexivity. }
  rewrite E. fold (bytes_of ls). lia.
Qed.

(* the current transcript id is one seen so far *)
Lemma line_tid : forall items t, In t (tids items) <-> exists b, In (b, LRec t) (flat items).
Proof.
  induction items as [|it items IH]; intros t; [split; [intros [] | intros [b []]]|].
  unfold tids, flat in *. cbn [flat_map]. rewrite in_app_iff, IH. split.
  - intros [H|[b H]].
    + destruct it as [c|g c|t' b0 bs]; cbn [item_tid] in H; try contradiction.
      destruct H as [<-|[]]. exists b0. apply in_or_app; left. cbn. left; reflexivity.
    + exists b. apply in_or_app; right; exact H.
  - intros [b H]. apply in_app_or in H as [H|H]; [left | right; eauto].
    destruct it as [c|g c|t' b0 bs]; cbn [item_lines] in H.
    + destruct H as [H|[]]; inversion H.
    + destruct H as [H|[]]; inversion H.
    + apply in_map_iff in H as (x & E & _). inversion E; subst. left; reflexivity.
Qed.

Lemma fold_txid : forall ls st t, i_txid (fold_left istep ls st) = Some t ->
  i_txid st = Some t \/ exists b, In (b, LRec t) ls.
Proof.
  induction ls as [|[b k] ls IH]; intros st t H; [left; exact H|].
  cbn [fold_left] in H. apply IH in H as [H|[b' H]]; [|right; exists b'; right; exact H].
  unfold istep in H; cbn [fst snd] in H. destruct k as [| g | t'].
  - left; exact H.
  - discriminate.
  - destruct (match i_txid st with Some t'0 => t'0 =? t' | None => false end); cbn [i_txid] in H;
      inversion H; subst; right; exists b; left; reflexivity.
Qed.

(* ------------------------------------------------------------------ one block of records *)
Lemma block_tail : forall t bs st s e,
  i_tx st = Some (mkPtr false t s e []) -> i_txid st = Some t -> i_end st = e ->
  let st' := fold_left istep (map (fun b => (b, LRec t)) bs) st in
  i_tx st' = Some (mkPtr false t s (e + zlen (concat bs)) []) /\ i_txid st' = Some t.
Proof.
  intros t. induction bs as [|b bs IH]; intros st s e H1 H2 H3; cbn [map fold_left concat].
  - cbn [zlen]. rewrite Z.add_0_r. auto.
  - rewrite zlen_app.
    assert (S1 : i_tx (istep st (b, LRec t)) = Some (mkPtr false t s (e + zlen b) []) /\
                 i_txid (istep st (b, LRec t)) = Some t /\ i_end (istep st (b, LRec t)) = e + zlen b).
    { unfold istep; cbn [fst snd]. rewrite H2, Z.eqb_refl. cbn [i_tx i_txid i_end]. rewrite H1, H3.
      cbn [option_map set_end p_isgene p_key p_start p_txs]. auto. }
    destruct S1 as (A & B & C).
    destruct (IH _ _ _ A B C) as (D & E). cbn zeta in D, E. rewrite D, E. split; [f_equal; f_equal; lia | reflexivity].
Qed.

Lemma block_whole : forall t b0 bs st, i_txid st <> Some t ->
  let st' := fold_left istep (item_lines (IBlock t b0 bs)) st in
  i_tx st' = Some (mkPtr false t (i_end st) (i_end st + zlen (concat (b0 :: bs))) []) /\ i_txid st' = Some t.
Proof.
  intros t b0 bs st N. cbn [item_lines map fold_left concat]. rewrite zlen_app.
  assert (S1 : i_tx (istep st (b0, LRec t)) = Some (mkPtr false t (i_end st) (i_end st + zlen b0) []) /\
               i_txid (istep st (b0, LRec t)) = Some t /\ i_end (istep st (b0, LRec t)) = i_end st + zlen b0).
  { unfold istep; cbn [fst snd].
    destruct (match i_txid st with Some t' => t' =? t | None => false end) eqn:E.
    - destruct (i_txid st) as [t'|]; [|discriminate]. apply Z.eqb_eq in E. subst. congruence.
    - cbn [i_tx i_txid i_end]. auto. }
  destruct S1 as (A & B & C).
  destruct (block_tail t bs _ _ _ A B C) as (D & E). cbn zeta in D, E. rewrite D, E.
  split; [f_equal; f_equal; lia | reflexivity].
Qed.

(* ------------------------------------------------------------------ a finished pointer is never touched again *)
Definition settled (p : ptr) (st : ist) : Prop :=
  In p (i_out st) \/ (i_tx st = Some p /\ i_txid st = Some (p_key p)).

Lemma settled_step : forall p st b k, k <> LRec (p_key p) -> settled p st -> settled p (istep st (b, k)).
Proof.
  intros p st b k N [H|[H1 H2]]; unfold settled, istep; cbn [fst snd].
  - left. destruct k as [|g|t]; cbn [i_out]; [exact H | apply in_or_app; left; exact H|].
    destruct (match i_txid st with Some t' => t' =? t | None => false end); cbn [i_out]; [exact H | apply in_or_app; left; exact H].
  - destruct k as [|g|t].
    + right. cbn [i_tx i_txid]. auto.
    + left. cbn [i_out]. rewrite H1. apply in_or_app; right. apply in_or_app; right. left; reflexivity.
    + rewrite H2. destruct (p_key p =? t) eqn:E; [apply Z.eqb_eq in E; subst; congruence|].
      left. cbn [i_out]. rewrite H1. apply in_or_app; right. left; reflexivity.
Qed.

Lemma settled_fold : forall p ls st, (forall b, ~ In (b, LRec (p_key p)) ls) -> settled p st ->
  settled p (fold_left istep ls st).
Proof.
  intros p. induction ls as [|[b k] ls IH]; intros st N H; [exact H|].
  cbn [fold_left]. apply IH; [intros b' I; apply (N b'); right; exact I|].
  apply settled_step; [|exact H]. intro E; subst. apply (N b). left; reflexivity.
Qed.

Lemma settled_finish : forall p st, settled p st -> In p (finish st).
Proof.
  intros p st [H|[H _]]; unfold finish; [apply in_or_app; left; exact H|].
  apply in_or_app; right. apply in_or_app; right. rewrite H. left; reflexivity.
Qed.

(* gene pointers: key / start / end are final as soon as the pointer exists (only the transcript set grows) *)
Definition settledG (g s e : Z) (st : ist) : Prop :=
  exists txs, In (mkPtr true g s e txs) (i_out st) \/ i_gene st = Some (mkPtr true g s e txs).

Lemma settledG_step : forall g s e st l, settledG g s e st -> settledG g s e (istep st l).
Proof.
  intros g s e st [b k] [txs [H|H]]; unfold settledG, istep; cbn [fst snd].
  - exists txs. left. destruct k as [|g'|t]; cbn [i_out]; [exact H | apply in_or_app; left; exact H|].
    destruct (match i_txid st with Some t' => t' =? t | None => false end); cbn [i_out]; [exact H | apply in_or_app; left; exact H].
  - destruct k as [|g'|t].
    + exists txs. right. exact H.
    + exists txs. left. cbn [i_out]. rewrite H. apply in_or_app; right. apply in_or_app; left. left; reflexivity.
    + exists (p_txs (add_tx t (mkPtr true g s e txs))). right.
      destruct (match i_txid st with Some t' => t' =? t | None => false end); cbn [i_gene]; rewrite H; cbn [option_map];
        f_equal; unfold add_tx; cbn [p_txs p_isgene p_key p_start p_end]; destruct (memZ t txs); reflexivity.
Qed.

Lemma settledG_fold : forall g s e ls st, settledG g s e st -> settledG g s e (fold_left istep ls st).
Proof. intros g s e. induction ls as [|l ls IH]; intros st H; [exact H|]. cbn [fold_left]. apply IH, settledG_step, H. Qed.

Lemma settledG_finish : forall g s e st, settledG g s e st -> exists txs, In (mkPtr true g s e txs) (finish st).
Proof.
  intros g s e st [txs [H|H]]; exists txs; unfold finish; [apply in_or_app; left; exact H|].
  apply in_or_app; right. apply in_or_app; left. rewrite H. left; reflexivity.
Qed.

(* ------------------------------------------------------------------ main statements *)
Lemma flat_app : forall a b, flat (a ++ b) = flat a ++ flat b.
Proof. intros. unfold flat. apply flat_map_app. Qed.

Lemma flat_single : forall it, flat [it] = item_lines it.
Proof. intros. unfold flat. cbn [flat_map]. apply app_nil_r. Qed.

Lemma tids_app : forall a b, tids (a ++ b) = tids a ++ tids b.
Proof. intros. unfold tids. apply flat_map_app. Qed.

Lemma pointer_block_l : forall pre t b0 bs post,
  NoDup (tids (pre ++ IBlock t b0 bs :: post)) ->
  let file := flat (pre ++ IBlock t b0 bs :: post) in
  let off := zlen (bytes_of (flat pre)) in
  let p := mkPtr false t off (off + zlen (concat (b0 :: bs))) [] in
  In p (iterate file) /\ load_range file p = concat (b0 :: bs).
Proof.
  intros pre t b0 bs post ND. cbn zeta.
  rewrite tids_app in ND. cbn [tids flat_map item_tid app] in ND. fold (tids post) in ND.
  assert (NPre : ~ In t (tids pre)).
  { intro I. apply NoDup_remove_2 in ND. apply ND. apply in_or_app; left; exact I. }
  assert (NPost : ~ In t (tids post)).
  { intro I. apply NoDup_remove_2 in ND. apply ND. apply in_or_app; right; exact I. }
  split.
  - unfold iterate. change (pre ++ IBlock t b0 bs :: post) with (pre ++ [IBlock t b0 bs] ++ post).
    rewrite !flat_app, !fold_left_app.
    set (st0 := fold_left istep (flat pre) init_ist).
    assert (E0 : i_end st0 = zlen (bytes_of (flat pre))) by (unfold st0; rewrite fold_end; cbn; lia).
    assert (N0 : i_txid st0 <> Some t).
    { intro H. unfold st0 in H. apply fold_txid in H as [H|[b H]]; [discriminate|].
      apply NPre. apply line_tid. eauto. }
    rewrite flat_single.
    destruct (block_whole t b0 bs st0 N0) as (A & B). cbn zeta in A, B. rewrite E0 in A.
    apply settled_finish. apply settled_fold.
    + cbn [p_key]. intros b I. apply NPost. apply line_tid. eauto.
    + right. cbn [p_key]. auto.
  - unfold load_range; cbn [p_start p_end].
    change (pre ++ IBlock t b0 bs :: post) with (pre ++ [IBlock t b0 bs] ++ post).
    rewrite !flat_app, !bytes_of_app, flat_single.
    cbn [item_lines]. rewrite bytes_of_block. apply slice_middle.
Qed.

Lemma pointer_gene_l : forall pre g b post,
  let file := flat (pre ++ IGene g b :: post) in
  let off := zlen (bytes_of (flat pre)) in
  exists txs, In (mkPtr true g off (off + zlen b) txs) (iterate file) /\
              load_range file (mkPtr true g off (off + zlen b) txs) = b.
Proof.
  intros pre g b post. cbn zeta.
  assert (S : exists txs, In (mkPtr true g (zlen (bytes_of (flat pre))) (zlen (bytes_of (flat pre)) + zlen b) txs)
                             (iterate (flat (pre ++ IGene g b :: post)))).
  { unfold iterate. change (pre ++ IGene g b :: post) with (pre ++ [IGene g b] ++ post).
    rewrite !flat_app, !fold_left_app.
    set (st0 := fold_left istep (flat pre) init_ist).
    assert (E0 : i_end st0 = zlen (bytes_of (flat pre))) by (unfold st0; rewrite fold_end; cbn; lia).
    apply settledG_finish, settledG_fold.
    rewrite flat_single. cbn [item_lines fold_left]. exists []. right.
    unfold istep; cbn [fst snd i_gene]. rewrite E0. reflexivity. }
  destruct S as [txs I]. exists txs. split; [exact I|].
  unfold load_range; cbn [p_start p_end].
  change (pre ++ IGene g b :: post) with (pre ++ [IGene g b] ++ post).
  rewrite !flat_app, !bytes_of_app, flat_single. cbn [item_lines].
  replace (bytes_of [(b, LGene g)]) with b by (unfold bytes_of; cbn [flat_map fst]; rewrite app_nil_r; reflexivity).
  apply slice_middle.
Qed.

