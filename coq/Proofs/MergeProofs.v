(* merge_union: Model/Split.v pool_add / merge_files (mergeFasta, load_database). *)
From Coq Require Import ZArith List Bool Lia.
From MoPep Require Import Model.Base Model.Header Model.Filter Model.Split Proofs.FilterProofs.
Import ListNotations.
Open Scope Z_scope.

Section Merge.
  Context {A : Type}.
  Notation pool := (list (seq * list A)).

  (* sequence s occurs in the pool / entry e is listed under sequence s *)
  Definition has_seq (s : seq) (p : pool) : Prop := exists es, In (s, es) p.
  Definition has_entry (s : seq) (e : A) (p : pool) : Prop := exists es, In (s, es) p /\ In e es.

  Lemma pool_add_entry : forall (q : seq * list A) (p : pool) s e,
    has_entry s e (pool_add q p) <-> has_entry s e p \/ (s = fst q /\ In e (snd q)).
  Proof.
    intros q p s e. induction p as [|a p IH]; cbn [pool_add].
    - split.
      + intros [es [[H|[]] He]]. subst q. right. auto.
      + intros [[es [[] _]]|[Hs He]]. exists (snd q). split; auto. left. subst s. destruct q; reflexivity.
    - destruct (eq_seq (fst a) (fst q)) eqn:E.
      + apply eq_seq_true in E. split.
        * intros [es [[H|H] He]].
          -- inversion H; subst s es. apply in_app_or in He. destruct He as [He|He].
             ++ left. exists (snd a). split; auto. left. destruct a; reflexivity.
             ++ right. auto.
          -- left. exists es. split; auto. right. exact H.
        * intros [[es [[H|H] He]]|[Hs He]].
          -- subst a. exists (es ++ snd q). split; [left; reflexivity|apply in_or_app; auto].
          -- exists es. split; auto. right. exact H.
          -- exists (snd a ++ snd q). split; [left; subst s; rewrite E; reflexivity|apply in_or_app; auto].
      + split.
        * intros [es [[H|H] He]].
          -- left. exists es. split; auto. left. exact H.
          -- assert (Hx : has_entry s e (pool_add q p)) by (exists es; auto).
             apply IH in Hx. destruct Hx as [[es' [H1 H2]]|Hx]; [left; exists es'; split; auto; right; exact H1|right; exact Hx].
        * intros [[es [[H|H] He]]|Hx].
          -- exists es. split; auto. left. exact H.
          -- assert (Hx : has_entry s e (pool_add q p)) by (apply IH; left; exists es; auto).
             destruct Hx as [es' [H1 H2]]. exists es'. split; auto. right. exact H1.
          -- assert (Hy : has_entry s e (pool_add q p)) by (apply IH; right; exact Hx).
             destruct Hy as [es' [H1 H2]]. exists es'. split; auto. right. exact H1.
  Qed.

  Lemma pool_add_seq : forall (q : seq * list A) (p : pool) s,
    has_seq s (pool_add q p) <-> has_seq s p \/ s = fst q.
  Proof.
    intros q p s. induction p as [|a p IH]; cbn [pool_add].
    - split.
      + intros [es [H|[]]]. subst q. right. reflexivity.
      + intros [[es []]|Hs]. exists (snd q). left. subst s. destruct q; reflexivity.
    - destruct (eq_seq (fst a) (fst q)) eqn:E.
      + apply eq_seq_true in E. split.
        * intros [es [H|H]]; [inversion H; subst; right; auto|left; exists es; right; exact H].
        * intros [[es [H|H]]|Hs].
          -- subst a. exists (es ++ snd q). left. reflexivity.
          -- exists es. right. exact H.
          -- exists (snd a ++ snd q). left. subst s. rewrite E. reflexivity.
      + split.
        * intros [es [H|H]]; [left; exists es; left; exact H|].
          assert (Hx : has_seq s (pool_add q p)) by (exists es; exact H).
          apply IH in Hx. destruct Hx as [[es' H1]|Hx]; [left; exists es'; right; exact H1|right; exact Hx].
        * intros [[es [H|H]]|Hx].
          -- exists es. left. exact H.
          -- assert (Hx : has_seq s (pool_add q p)) by (apply IH; left; exists es; exact H).
             destruct Hx as [es' H1]. exists es'. right. exact H1.
          -- assert (Hy : has_seq s (pool_add q p)) by (apply IH; right; exact Hx).
             destruct Hy as [es' H1]. exists es'. right. exact H1.
  Qed.

  Lemma eq_seq_sym : forall a b, eq_seq a b = eq_seq b a.
  Proof.
    intros a b. destruct (eq_seq a b) eqn:E1, (eq_seq b a) eqn:E2; auto.
    - apply eq_seq_true in E1. subst. rewrite eq_seq_refl in E2. discriminate.
    - apply eq_seq_true in E2. subst. rewrite eq_seq_refl in E1. discriminate.
  Qed.

  Lemma pool_add_nodup : forall (q : seq * list A) (p : pool), nodup_seq p -> nodup_seq (pool_add q p).
  Proof.
    intros q p. induction p as [|a p IH]; cbn [pool_add nodup_seq]; intros H.
    - split; [intros ? []|exact I].
    - destruct H as [H1 H2]. destruct (eq_seq (fst a) (fst q)) eqn:E; cbn [nodup_seq fst].
      + split; auto.
      + split; [|apply IH; exact H2].
        intros r Hr. destruct r as [s es].
        assert (Hs : has_seq s (pool_add q p)) by (exists es; exact Hr).
        apply pool_add_seq in Hs. destruct Hs as [[es' Hs]|Hs]; cbn [fst].
        * apply (H1 (s, es') Hs).
        * subst s. rewrite eq_seq_sym. exact E.
  Qed.

  (* adding all peptides of one (de-duplicated) file *)
  Lemma add_file_spec : forall (g p : pool),
    let r := fold_left (fun pl q => pool_add q pl) g p in
    (nodup_seq p -> nodup_seq r) /\
    (forall s, has_seq s r <-> has_seq s p \/ has_seq s g) /\
    (forall s e, has_entry s e r <-> has_entry s e p \/ has_entry s e g).
  Proof.
    induction g as [|q g IH]; intros p; cbn [fold_left].
    - split; [auto|]. split.
      + intros s. split; [auto|intros [H|[es []]]; exact H].
      + intros s e. split; [auto|intros [H|[es [[] _]]]; exact H].
    - destruct (IH (pool_add q p)) as [I1 [I2 I3]]. split; [|split].
      + intros Hn. apply I1. apply pool_add_nodup. exact Hn.
      + intros s. rewrite I2, pool_add_seq. split.
        * intros [[H|H]|[es H]]; auto.
          -- right. exists (snd q). left. subst s. destruct q; reflexivity.
          -- right. exists es. right. exact H.
        * intros [H|[es [H|H]]]; auto.
          -- left. right. subst q. reflexivity.
          -- right. exists es. exact H.
      + intros s e. rewrite I3, pool_add_entry. split.
        * intros [[H|[H1 H2]]|[es [H1 H2]]]; auto.
          -- right. exists (snd q). split; auto. left. subst s. destruct q; reflexivity.
          -- right. exists es. split; auto. right. exact H1.
        * intros [H|[es [[H|H] He]]]; auto.
          -- left. right. subst q. auto.
          -- right. exists es. auto.
  Qed.

  Lemma dedup_has_seq : forall (l : pool) s, has_seq s (dedup l) <-> has_seq s l.
  Proof.
    intros l s. split.
    - intros [es H]. exists es. apply dedup_sub. exact H.
    - induction l as [|a l IH]; intros [es H]; [destruct H|]. cbn [dedup].
      destruct H as [H|H].
      + subst a. exists es. left. reflexivity.
      + destruct (IH (ex_intro _ es H)) as [es' H'].
        destruct (eq_seq s (fst a)) eqn:E.
        * apply eq_seq_true in E. subst s. exists (snd a). left. destruct a; reflexivity.
        * exists es'. right. apply filter_In. split; auto. cbn [fst]. rewrite E. reflexivity.
  Qed.

  (* merge_union *)
  Theorem merge_union_l : forall (files : list pool),
    let out := merge_files files in
    nodup_seq out /\
    (forall s, has_seq s out <-> exists g, In g files /\ has_seq s g) /\
    (forall s e, has_entry s e out <-> exists g, In g files /\ has_entry s e (dedup g)).
  Proof.
    intros files. destruct files as [|f rest]; cbn [merge_files].
    - split; [exact I|]. split.
      + intros s. split; [intros [es []]|intros [g [[] _]]].
      + intros s e. split; [intros [es [[] _]]|intros [g [[] _]]].
    - assert (G : forall (rest : list pool) (p : pool),
                let r := fold_left (fun pl g => fold_left (fun pl' q => pool_add q pl') (dedup g) pl) rest p in
                (nodup_seq p -> nodup_seq r) /\
                (forall s, has_seq s r <-> has_seq s p \/ exists g, In g rest /\ has_seq s g) /\
                (forall s e, has_entry s e r <-> has_entry s e p \/ exists g, In g rest /\ has_entry s e (dedup g))).
      { clear. induction rest as [|g rest IH]; intros p; cbn [fold_left].
        - split; [auto|]. split.
          + intros s. split; [auto|intros [H|[g [[] _]]]; exact H].
          + intros s e. split; [auto|intros [H|[g [[] _]]]; exact H].
        - destruct (add_file_spec (dedup g) p) as [A1 [A2 A3]].
          destruct (IH (fold_left (fun pl' q => pool_add q pl') (dedup g) p)) as [I1 [I2 I3]].
          split; [|split].
          + intros Hn. apply I1. apply A1. exact Hn.
          + intros s. rewrite I2, A2, dedup_has_seq. split.
            * intros [[H|H]|[g' [H1 H2]]]; auto.
              -- right. exists g. split; auto. left. reflexivity.
              -- right. exists g'. split; auto. right. exact H1.
            * intros [H|[g' [[H1|H1] H2]]]; auto.
              -- subst g'. left. right. exact H2.
              -- right. exists g'. auto.
          + intros s e. rewrite I3, A3. split.
            * intros [[H|H]|[g' [H1 H2]]]; auto.
              -- right. exists g. split; auto. left. reflexivity.
              -- right. exists g'. split; auto. right. exact H1.
            * intros [H|[g' [[H1|H1] H2]]]; auto.
              -- subst g'. left. right. exact H2.
              -- right. exists g'. auto. }
      destruct (G rest (dedup f)) as [G1 [G2 G3]]. split; [|split].
      + apply G1. apply dedup_nodup.
      + intros s. rewrite G2, dedup_has_seq. split.
        * intros [H|[g [H1 H2]]]; [exists f; split; auto; left; reflexivity|exists g; split; auto; right; exact H1].
        * intros [g [[H1|H1] H2]]; [subst g; left; exact H2|right; exists g; auto].
      + intros s e. rewrite G3. split.
        * intros [H|[g [H1 H2]]]; [exists f; split; auto; left; reflexivity|exists g; split; auto; right; exact H1].
        * intros [g [[H1|H1] H2]]; [subst g; left; exact H2|right; exists g; auto].
  Qed.
End Merge.
