(* C11 -- the BODY of TranscriptAnnotationModel.get_cdna_sequence (translated on every run into
   Gen/Py_TAM_cdna.v) equals the hand model Anno.cdna_sequence, for all arguments *)
From Coq Require Import ZArith List Bool Lia ZifyBool.
From MoPep Require Import Model.Base Model.PyRt Model.Anno Gen.Py_TAM_cdna.
Import ListNotations.
Open Scope Z_scope.

Lemma cdna_loop_some : forall tbl st ex cs chrom l acc,
  py_cdna_sequence_loop1 tbl st ex cs chrom l (Some acc) = Continue (Some (acc ++ concat_exons chrom l)).
Proof.
  intros tbl st ex cs chrom. induction l as [|x l IH]; intros acc; cbn [py_cdna_sequence_loop1].
  - unfold concat_exons; cbn [flat_map]. rewrite app_nil_r. reflexivity.
  - rewrite IH. unfold concat_exons; cbn [flat_map]. rewrite app_assoc. reflexivity.
Qed.

Lemma code_cdna_sequence_is_model_l : forall tbl st ex cs chrom,
  py_cdna_sequence tbl st ex cs chrom = cdna_sequence tbl st ex cs chrom.
Proof.
  intros tbl st ex cs chrom. unfold py_cdna_sequence, cdna_sequence.
  destruct cs as [|c cs']; [reflexivity|].
  destruct (Z.of_nat (length (c :: cs')) =? 0) eqn:E; [cbn [length] in E; lia|].
  cbn [cds_segments map py_cdna_sequence_loop1]. rewrite cdna_loop_some.
  unfold concat_exons; cbn [flat_map].
  destruct (cds_start_index st ex (c :: cs')) as [r|e]; [|reflexivity].
  destruct (st =? -1); reflexivity.
Qed.
