(* C09: facts about the regenerated tables (Gen/Bio.v, Gen/Expasy.v) and non-vacuity examples. *)
From Coq Require Import ZArith List Bool Lia.
From MoPep Require Import Model.Base Model.Rule Model.Digest Model.W2F Model.NovelOrf Model.Anno Model.AltTrans
                          Gen.Expasy Gen.Bio
                          Proofs.W2FProofs Proofs.CleaveSpec Proofs.NovelOrfProofs Proofs.AltTransProofs.
Import ListNotations.
Open Scope Z_scope.

(* Biopython's standard table (regenerated on every run) has no codon for U: U only arises from an annotated Sec *)
Lemma bio_table_no_U : no_U codon_table.
Proof. apply no_U_of_check. vm_compute. reflexivity. Qed.

Definition ex9_trypsin : rule :=
  match lookup [116; 114; 121; 112; 115; 105; 110] site_rules with Some r => r | None => [] end.
Definition ex9_lim : limits := mkLimits 0 0 2 25.
(* transcript  C ATG GCT TGG TGA GCT AAA GCT TGG TAA  with the first TGA (position 10) annotated as Sec:
   protein M A W U A K A W *)
Definition ex9_dna : seq :=
  [67; 65;84;71; 71;67;84; 84;71;71; 84;71;65; 71;67;84; 65;65;65; 71;67;84; 84;71;71; 84;65;65].
Definition ex9_prot : seq := translate_cds codon_table [10] 1 (skipn 1 ex9_dna).
Definition ex9_cds : cdsrec := mkCdsRec ex9_prot false false [] [STAR_code].

Example ex9_translation : ex9_prot = [77; 65; 87; 85; 65; 75; 65; 87] /\ u_positions ex9_prot = [3%nat].
Proof. split; vm_compute; reflexivity. Qed.

(* the Sec truncation MAW, its Met-removed form AW, and the W>F image MAF of the truncation are obliged;
   the header  SECT|W2F-3  is accepted for MAF, the header naming only W2F-3 is not *)
Example alt_must_sat :
  AltMust protein_weights4 water4 ex9_lim ex9_trypsin None true true [] [ex9_cds] [77; 65; 70] /\
  In [77; 65; 87] (alt_must protein_weights4 water4 ex9_lim ex9_trypsin None true true [] [ex9_cds]) /\
  In [65; 87] (alt_must protein_weights4 water4 ex9_lim ex9_trypsin None true true [] [ex9_cds]) /\
  header_ok protein_weights4 water4 ex9_lim ex9_trypsin None ex9_cds (Some 3%nat) [3%nat] [77; 65; 70] = true /\
  header_ok protein_weights4 water4 ex9_lim ex9_trypsin None ex9_cds None [3%nat] [77; 65; 70] = false.
Proof.
  split; [apply alt_spec_iff; vm_compute; auto 10|].
  split; [vm_compute; auto 10|]. split; [vm_compute; auto 10|]. split; vm_compute; reflexivity.
Qed.

(* position arithmetic: one exon [100,400) on the minus strand, gene [50,450): the Sec codon at transcript
   position 10 gets the id SECT-61 *)
Example sect_id_sat : sect_id (-1) [(100, 400)] (-1) 50 450 10 = Ok 61.
Proof. vm_compute. reflexivity. Qed.
