(* encode_roundtrip: Model/Split.v encode / decode (encodeFasta and its .dict file). *)
From Coq Require Import ZArith List Bool Lia.
From MoPep Require Import Model.Base Model.Header Model.Filter Model.Split Proofs.FilterProofs.
Import ListNotations.
Open Scope Z_scope.

Lemma sw_app : forall p r, starts_with p (p ++ r) = true.
Proof. induction p as [|a p IH]; intros r; cbn [starts_with app]. reflexivity. rewrite Z.eqb_refl, IH. reflexivity. Qed.

Lemma sw_split : forall p s, starts_with p s = true -> s = p ++ skipn (length p) s.
Proof.
  induction p as [|a p IH]; intros s H; cbn [length skipn app]. reflexivity.
  destruct s as [|b s]; cbn [starts_with] in H; try discriminate.
  apply andb_true_iff in H. destruct H as [H1 H2]. apply Z.eqb_eq in H1. subst b.
  cbn [skipn]. f_equal. apply IH. exact H2.
Qed.

Lemma skipn_app_exact : forall {A} (p x : list A), skipn (length p) (p ++ x) = x.
Proof. induction p; intros x; cbn [length skipn app]; auto. Qed.

Lemma firstn_app_exact : forall {A} (x d : list A), firstn (length x) (x ++ d) = x.
Proof. induction x; intros d; cbn [length firstn app]; [reflexivity|f_equal; auto]. Qed.

Lemma NoDup_app_one : forall {A} (l : list A) x, NoDup l -> ~ In x l -> NoDup (l ++ [x]).
Proof.
  induction l as [|a l IH]; intros x Hn Hx; cbn [app]. constructor; [intros []|constructor].
  inversion Hn; subst. constructor.
  - intro H. apply in_app_or in H. destruct H as [H|[H|[]]]; [auto|subst; apply Hx; left; reflexivity].
  - apply IH; auto. intro H. apply Hx. right. exact H.
Qed.

Section EncodeProofs.
  Variable fresh : nat -> str.
  Variable decoy : str.
  Variable suffix : bool.
  (* the assumptions on the external behaviour *)
  Hypothesis fresh_inj : forall i j, fresh i = fresh j -> i = j.          (* uuid4 values pairwise distinct *)
  Hypothesis fresh_not_decoy : forall n, is_decoy decoy suffix (fresh n) = false.
  Hypothesis decoy_nonempty : decoy <> [].

  Lemma decoy_rt1 : forall x,
    is_decoy decoy suffix (decoy_header decoy suffix x) = true /\
    real_header decoy suffix (decoy_header decoy suffix x) = x.
  Proof.
    intros x. unfold is_decoy, real_header, decoy_header. destruct suffix.
    - split.
      + rewrite rev_app_distr. apply sw_app.
      + destruct decoy as [|c dd] eqn:E; [congruence|]. cbn [is_empty]. rewrite <- E.
        rewrite app_length. replace (length x + length decoy - length decoy)%nat with (length x) by lia.
        apply firstn_app_exact.
    - split. apply sw_app. apply skipn_app_exact.
  Qed.

  Lemma decoy_rt2 : forall h, is_decoy decoy suffix h = true ->
    decoy_header decoy suffix (real_header decoy suffix h) = h.
  Proof.
    intros h. unfold is_decoy, real_header, decoy_header. destruct suffix; intro H.
    - destruct decoy as [|c dd] eqn:E; [congruence|]. cbn [is_empty]. rewrite <- E in *.
      apply sw_split in H. set (r := skipn (length (rev decoy)) (rev h)) in H.
      assert (Hh : h = rev r ++ decoy).
      { rewrite <- (rev_involutive h), H, rev_app_distr, rev_involutive. reflexivity. }
      rewrite Hh at 1 2. rewrite app_length.
      replace (length (rev r) + length decoy - length decoy)%nat with (length (rev r)) by lia.
      rewrite firstn_app_exact. symmetry. exact Hh.
    - symmetry. apply sw_split. exact H.
  Qed.

  (* ---- the dictionary ---- *)
  Lemma dict_get_app : forall i d m h, dict_get i d = Some h -> dict_get i (d ++ m) = Some h.
  Proof.
    induction d as [|[i' h'] d IH]; intros m h H; cbn [dict_get app] in *; try discriminate.
    destruct (eq_seq i i'); auto.
  Qed.

  Lemma dict_get_in : forall d i h, NoDup (map fst d) -> In (i, h) d -> dict_get i d = Some h.
  Proof.
    induction d as [|[i' h'] d IH]; intros i h Hn Hin; [destruct Hin|]. cbn [dict_get].
    cbn [map fst] in Hn. inversion Hn; subst. destruct Hin as [Hin|Hin].
    - inversion Hin; subst. rewrite eq_seq_refl. reflexivity.
    - destruct (eq_seq i i') eqn:E.
      + apply eq_seq_true in E. subst i'. exfalso. apply H1. apply (in_map fst) in Hin. exact Hin.
      + apply IH; auto.
  Qed.

  Lemma dict_find_in : forall h d i, dict_find h d = Some i -> In (i, h) d.
  Proof.
    induction d as [|[i' h'] d IH]; intros i H; cbn [dict_find] in H; try discriminate.
    destruct (eq_seq h h') eqn:E.
    - apply eq_seq_true in E. inversion H; subst. left. reflexivity.
    - right. apply IH. exact H.
  Qed.

  Definition inv (st : list (str * str) * nat) : Prop :=
    NoDup (map fst (fst st)) /\ forall x, In x (fst st) -> exists k, (k < snd st)%nat /\ fst x = fresh k.

  Definition real_of (h : str) : str := if is_decoy decoy suffix h then real_header decoy suffix h else h.

  Lemma encode_one_spec : forall st h h' st',
    encode_one fresh decoy suffix st h = (h', st') -> inv st ->
    inv st' /\ (exists m, fst st' = fst st ++ m) /\
    exists idx k, idx = fresh k /\ dict_get idx (fst st') = Some (real_of h) /\
                  h' = (if is_decoy decoy suffix h then decoy_header decoy suffix idx else idx).
  Proof.
    intros [d n] h h' st' H [Hn Hk]. unfold encode_one in H. unfold inv. cbn [fst snd] in *.
    fold (real_of h) in H.
    destruct (dict_find (real_of h) d) as [i|] eqn:Ef.
    - inversion H; subst h' st'. cbn [fst snd]. split; [split; auto|]. split; [exists []; rewrite app_nil_r; reflexivity|].
      pose proof (dict_find_in _ _ _ Ef) as Hin. destruct (Hk _ Hin) as [k [_ Hi]]. cbn [fst] in Hi.
      exists i, k. split; auto. split; auto. apply dict_get_in; auto.
    - inversion H; subst h' st'. cbn [fst snd]. split; [|split].
      + split.
        * rewrite map_app. cbn [map fst]. apply NoDup_app_one; auto.
          intro Hin. apply in_map_iff in Hin. destruct Hin as [x [Hx1 Hx2]].
          destruct (Hk x Hx2) as [k [Hlt Hf]]. rewrite Hf in Hx1. apply fresh_inj in Hx1. lia.
        * intros x Hx. apply in_app_or in Hx. destruct Hx as [Hx|[Hx|[]]].
          -- destruct (Hk x Hx) as [k [Hlt Hf]]. exists k. split; auto.
          -- subst x. exists n. split; auto.
      + exists [(fresh n, real_of h)]. reflexivity.
      + exists (fresh n), n. split; auto. split; auto.
        apply dict_get_in.
        * rewrite map_app. cbn [map fst]. apply NoDup_app_one; auto.
          intro Hin. apply in_map_iff in Hin. destruct Hin as [x [Hx1 Hx2]].
          destruct (Hk x Hx2) as [k [Hlt Hf]]. rewrite Hf in Hx1. apply fresh_inj in Hx1. lia.
        * apply in_or_app. right. left. reflexivity.
  Qed.

  Lemma decode_emitted : forall dfin h idx k,
    idx = fresh k -> dict_get idx dfin = Some (real_of h) ->
    let h' := if is_decoy decoy suffix h then decoy_header decoy suffix idx else idx in
    decode decoy suffix dfin h' = Some h /\ is_decoy decoy suffix h' = is_decoy decoy suffix h.
  Proof.
    intros dfin h idx k Hi Hg. unfold decode, real_of in *.
    destruct (is_decoy decoy suffix h) eqn:Ed; cbv zeta.
    - destruct (decoy_rt1 idx) as [R1 R2]. rewrite R1, R2, Hg. cbn [option_map]. split; auto.
      f_equal. apply decoy_rt2. exact Ed.
    - subst idx. rewrite fresh_not_decoy. auto.
  Qed.

  Lemma encode_loop_spec : forall hs st hs' dfin,
    encode_loop fresh decoy suffix st hs = (hs', dfin) -> inv st ->
    (exists m, dfin = fst st ++ m) /\
    Forall2 (fun h h' => decode decoy suffix dfin h' = Some h /\
                         is_decoy decoy suffix h' = is_decoy decoy suffix h) hs hs'.
  Proof.
    induction hs as [|h hs IH]; intros st hs' dfin H Hinv; cbn [encode_loop] in H.
    - inversion H; subst. split; [exists []; rewrite app_nil_r; reflexivity|constructor].
    - destruct (encode_one fresh decoy suffix st h) as [h1 st1] eqn:E1.
      destruct (encode_loop fresh decoy suffix st1 hs) as [r d] eqn:E2.
      inversion H; subst hs' dfin.
      destruct (encode_one_spec _ _ _ _ E1 Hinv) as [Hinv1 [[m Hm] [idx [k [Hi [Hg Hh]]]]]].
      destruct (IH _ _ _ E2 Hinv1) as [[m' Hm'] HF]. split.
      + exists (m ++ m'). rewrite Hm', Hm, app_assoc. reflexivity.
      + constructor; auto. subst h1. apply (decode_emitted d h idx k Hi).
        rewrite Hm'. apply dict_get_app. exact Hg.
  Qed.

  (* encode_roundtrip: every header is restored exactly from the dictionary, and an encoded header carries
     the decoy string iff the original did *)
  Theorem encode_roundtrip_l : forall hs hs' d,
    encode fresh decoy suffix hs = (hs', d) ->
    Forall2 (fun h h' => decode decoy suffix d h' = Some h /\
                         is_decoy decoy suffix h' = is_decoy decoy suffix h) hs hs'.
  Proof.
    intros hs hs' d H. unfold encode in H.
    assert (Hinv : inv ([], O)) by (split; [constructor|intros x []]).
    destruct (encode_loop_spec _ _ _ _ H Hinv) as [_ HF]. exact HF.
  Qed.
End EncodeProofs.
