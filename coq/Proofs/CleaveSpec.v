(* The double loop of enzymatic_cleave (Digest.cleave_loop) = the declarative digest:
   a product spans from the i-th to the j-th boundary with at most k boundaries in between,
   plus the N-terminal-Met-removed form of products starting at the first boundary.
   Used by C08 / C09 / C04 (the C10 file states the same fact for the pool). *)
From Coq Require Import ZArith List Bool Lia Arith.
From MoPep Require Import Model.Base Model.Rule Model.Digest.
Import ListNotations.
Open Scope Z_scope.

Lemma in_firstn_iff {A} (n : nat) (l : list A) x :
  In x (firstn n l) <-> exists j, (j < n)%nat /\ nth_error l j = Some x.
Proof.
  revert l. induction n as [|n IH]; intro l; simpl.
  - split; [intros [] | intros [j [H _]]; lia].
  - destruct l as [|y t]; simpl.
    + split; [intros [] | intros [j [_ H]]]. destruct j; discriminate.
    + rewrite IH. split.
      * intros [<- | [j [Hj Hn]]]; [exists O | exists (S j)]; simpl; split; auto; lia.
      * intros [[|j] [Hj Hn]]; simpl in Hn.
        -- left. congruence.
        -- right. exists j. split; auto; lia.
Qed.

Section Spec.
  Variable wt : weight_table.
  Variable water : Z.
  Variable lim : limits.

  Definition K : nat := Z.to_nat (lim_k lim + 1).

  (* the forms one (start, end) pair contributes *)
  Definition Form (s : seq) (first nf : bool) (a b : nat) (q : seq) : Prop :=
    (q = piece s a b \/
     (first = true /\ nf = false /\ starts_with_M (piece s a b) = true /\ q = tl (piece s a b)))
    /\ keep wt water lim q = true.

  Lemma in_update p q : In q (update wt water lim p) <-> q = p /\ keep wt water lim q = true.
  Proof.
    unfold update. destruct (keep wt water lim p) eqn:E; simpl.
    - split; [intros [<-|[]]; auto | intros [-> _]; auto].
    - split; [intros [] | intros [-> H]; congruence].
  Qed.

  Lemma in_emit s first nf a b q :
    In q (emit wt water lim s first nf a b) <-> Form s first nf a b q.
  Proof.
    unfold emit, Form. rewrite in_app_iff, in_update.
    destruct first, nf, (starts_with_M (piece s a b)); simpl;
      try rewrite in_update; intuition congruence.
  Qed.

  (* declarative digest over an arbitrary list of boundaries *)
  Definition ProductOn (bs : list nat) (s : seq) (first nf : bool) (q : seq) : Prop :=
    exists i j a b,
      nth_error bs i = Some a /\ nth_error bs j = Some b /\
      (i < j <= i + K)%nat /\
      Form s (first && Nat.eqb i 0) nf a b q.

  Lemma cleave_loop_spec s nf bs : forall first q,
    In q (cleave_loop wt water lim s nf first bs) <-> ProductOn bs s first nf q.
  Proof.
    induction bs as [|a rest IH]; intros first q; simpl.
    - split; [intros [] |]. intros (i & j & a & b & Hi & _). destruct i; discriminate.
    - rewrite in_app_iff, in_flat_map, IH. fold K. split.
      + intros [[b [Hb Hq]] | (i & j & a' & b & Hi & Hj & Hij & Hf)].
        * apply in_firstn_iff in Hb. destruct Hb as [j [Hj Hn]]. apply in_emit in Hq.
          exists O, (S j), a, b. simpl. repeat split; auto; try lia.
          -- rewrite andb_true_r. apply Hq.
          -- apply Hq.
        * exists (S i), (S j), a', b. simpl. repeat split; auto; try lia.
          -- rewrite andb_false_r. simpl in Hf. apply Hf.
          -- apply Hf.
      + intros (i & j & a' & b & Hi & Hj & Hij & Hf).
        destruct i as [|i].
        * simpl in Hi. injection Hi as <-. destruct j as [|j]; [lia|]. simpl in Hj.
          left. exists b. split.
          -- apply in_firstn_iff. exists j. split; auto; lia.
          -- apply in_emit. simpl in Hf. rewrite andb_true_r in Hf. exact Hf.
        * right. destruct j as [|j]; [lia|]. simpl in Hi, Hj.
          exists i, j, a', b. repeat split; auto; try lia.
          -- simpl. simpl in Hf. rewrite andb_false_r in Hf. apply Hf.
          -- apply Hf.
  Qed.

  Definition Product (r : rule) (exc : option rule) (nf : bool) (s q : seq) : Prop :=
    ProductOn (bounds_of r exc s) s true nf q.

  (* enzymatic_cleave = declarative digest, all strings, all k *)
  Theorem cleave_spec r exc nf s q :
    In q (cleave wt water lim r exc nf s) <-> Product r exc nf s q.
  Proof. unfold cleave, Product. apply cleave_loop_spec. Qed.

  (* forbidding Met removal only removes forms *)
  Lemma ProductOn_nf_mono bs s first q :
    ProductOn bs s first true q -> ProductOn bs s first false q.
  Proof.
    intros (i & j & a & b & Hi & Hj & Hij & [[H | (_ & Hnf & _)] Hk]); [| discriminate].
    exists i, j, a, b. split; [exact Hi|]. split; [exact Hj|]. split; [exact Hij|].
    split; [left; exact H | exact Hk].
  Qed.

  Lemma ProductOn_keep bs s first nf q : ProductOn bs s first nf q -> keep wt water lim q = true.
  Proof. intros (i & j & a & b & _ & _ & _ & [_ Hk]). exact Hk. Qed.
End Spec.
