(* Equality of the dispatch (batching) loop of cli/call_variant_peptide.py:call_variant_peptide, as GENERATED
   from /repo's source by harness/translate/py2coq.py (coq/Gen/Py_call_variant_peptide.v), with the
   repaired-loop model Batch.batches_fix.  docs/py2coq.md. *)
From Coq Require Import ZArith List Bool Lia ZifyBool.
From MoPep Require Import Model.Base Model.PyRt Model.Batch Gen.Py_call_variant_peptide.
Import ListNotations.
Open Scope Z_scope.

Lemma zlen_length : forall A (l : list A), zlen l = Z.of_nat (length l).
Proof. induction l as [|x t IH]; [reflexivity|]. cbn [zlen length]. rewrite IH. lia. Qed.

Ltac pb_if :=
  match goal with
  | |- context [if ?b then _ else _] => let C := fresh "C" in destruct b eqn:C
  end.

(* equality of two loop states up to integer arithmetic (so that `i += 1`, `i = i + 1`, `i = 1 + i` all work) *)
Ltac st_eq :=
  lazymatch goal with
  | |- Continue _ = Continue _ => f_equal; st_eq
  | |- (_, _) = (_, _) => f_equal; st_eq
  | |- b_pending _ = b_pending _ => f_equal; st_eq
  | |- b_out _ = b_out _ => f_equal; st_eq
  | |- b_i _ = b_i _ => f_equal; st_eq
  | |- fold_left _ _ _ = fold_left _ _ _ => f_equal; st_eq
  | |- mkB _ _ _ = mkB _ _ _ => f_equal; st_eq
  | |- _ => try reflexivity; try lia
  end.

Lemma code_call_variant_peptide_batches_is_model_l : forall threads l,
  call_variant_peptide_batches threads l = batches_fix threads l.
Proof.
  intros threads l.
  (* the loop never exits early; its state after a suffix xs is the model's fold over xs *)
  assert (L : forall (xs : list (Z * bool)) d b i,
    call_variant_peptide_batches_loop1 threads l xs d b i =
    Continue (b_pending (fold_left (step_fix threads (zlen l)) xs (mkB i d b)),
              b_out (fold_left (step_fix threads (zlen l)) xs (mkB i d b)),
              b_i (fold_left (step_fix threads (zlen l)) xs (mkB i d b)))).
  { induction xs as [|[t sk] xs IH]; intros d b i; [reflexivity|].
    cbn [call_variant_peptide_batches_loop1 fold_left]. cbv zeta.
    unfold step_fix at 2 4 6. cbn [b_i b_pending b_out fst snd]. rewrite !zlen_length.
    destruct sk; cbn [negb]; repeat pb_if; try lia; rewrite IH, ?zlen_length; st_eq. }
  unfold call_variant_peptide_batches, batches_fix, run_loop, init_b. cbv zeta.
  rewrite L. reflexivity.
Qed.
