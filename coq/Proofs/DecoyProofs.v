(* Proofs about Model/Decoy.v (property C20). *)
From Coq Require Import ZArith List Bool Lia ZifyBool Permutation Arith.
From MoPep Require Import Model.Base Model.Rule Model.Digest Model.Decoy.
Import ListNotations.
Open Scope nat_scope.

(* ------------------------------------------------------------------ small facts *)
Lemma mem_nat_In : forall x l, mem_nat x l = true <-> In x l.
Proof.
  induction l as [|y l IH]; cbn [mem_nat In]; [split; [discriminate|tauto]|].
  rewrite orb_true_iff, IH, Nat.eqb_eq. split; intros [H|H]; auto.
Qed.

Lemma eq_seq_true : forall a b, eq_seq a b = true <-> a = b.
Proof.
  induction a as [|x a IH]; destruct b as [|y b]; cbn [eq_seq].
  - split; auto.
  - split; discriminate.
  - split; discriminate.
  - rewrite andb_true_iff, IH, Z.eqb_eq. split; [intros [-> ->]; reflexivity | intros H; inversion H; auto].
Qed.

Lemma mem_seq_In : forall x l, mem_seq x l = true <-> In x l.
Proof.
  induction l as [|y l IH]; cbn [mem_seq In]; [split; [discriminate|tauto]|].
  rewrite orb_true_iff, IH, eq_seq_true. split; intros [H|H]; auto.
Qed.

(* ------------------------------------------------------------------ the walk *)
Section Walk.
  Variable fixed : list nat.
  Variable src : seq.

  (* residues of rest (= target[p:]) standing at fixed / free positions *)
  Fixpoint keepf (p : nat) (rest : seq) : seq :=
    match rest with
    | [] => []
    | c :: r => if mem_nat p fixed then c :: keepf (S p) r else keepf (S p) r
    end.
  Fixpoint freec (p : nat) (rest : seq) : seq :=
    match rest with
    | [] => []
    | c :: r => if mem_nat p fixed then freec (S p) r else c :: freec (S p) r
    end.

  Lemma keepf_all : forall rest p, length (freec p rest) = 0 -> keepf p rest = rest.
  Proof.
    induction rest as [|c r IH]; intros p H; cbn [keepf freec] in *; [reflexivity|].
    destruct (mem_nat p fixed); [f_equal; auto | discriminate].
  Qed.

  Lemma keepf_freec_perm : forall rest p, Permutation (keepf p rest ++ freec p rest) rest.
  Proof.
    induction rest as [|c r IH]; intros p; cbn [keepf freec]; [constructor|].
    destruct (mem_nat p fixed); cbn [app].
    - constructor; apply IH.
    - apply Permutation_sym, Permutation_cons_app, Permutation_sym, IH.
  Qed.

  Lemma walk_perm : forall rest p idx,
      length idx = length (freec p rest) ->
      Permutation (walk fixed src p rest idx) (keepf p rest ++ map (get src) idx).
  Proof.
    induction rest as [|c r IH]; intros p idx H; cbn [walk keepf freec] in *.
    - apply Permutation_refl.
    - destruct idx as [|j idx'].
      + cbn [map]. rewrite app_nil_r.
        revert H. destruct (mem_nat p fixed) eqn:E; intros H.
        * rewrite (keepf_all r (S p)); [apply Permutation_refl | symmetry; exact H].
        * cbn in H; discriminate.
      + revert H. destruct (mem_nat p fixed) eqn:E; intros H.
        * cbn [app]. constructor. apply IH. exact H.
        * cbn [map]. apply Permutation_cons_app. apply IH. cbn [length] in H. lia.
  Qed.

  Lemma walk_length : forall rest p idx,
      length idx = length (freec p rest) -> length (walk fixed src p rest idx) = length rest.
  Proof.
    induction rest as [|c r IH]; intros p idx H; cbn [walk freec] in *.
    - destruct idx; [reflexivity | discriminate].
    - destruct idx as [|j idx']; [reflexivity|].
      revert H. destruct (mem_nat p fixed); intros H; cbn [length]; f_equal; apply IH; cbn [length] in *; lia.
  Qed.

  (* a fixed position keeps its residue *)
  Lemma walk_fixed : forall rest p idx q,
      length idx = length (freec p rest) ->
      mem_nat (p + q) fixed = true ->
      nth_error (walk fixed src p rest idx) q = nth_error rest q.
  Proof.
    induction rest as [|c r IH]; intros p idx q H Hq; cbn [walk freec] in *.
    - destruct idx; [reflexivity | discriminate].
    - destruct idx as [|j idx']; [reflexivity|].
      destruct q as [|q'].
      + rewrite Nat.add_0_r in Hq. rewrite Hq. reflexivity.
      + rewrite Nat.add_succ_r in Hq.
        revert H. destruct (mem_nat p fixed); intros H; cbn [nth_error]; apply IH; auto; cbn [length] in *; lia.
  Qed.
End Walk.

(* the free residues, listed through the index list *)
Lemma map_get_free : forall fixed rest pre,
    map (get (pre ++ rest)) (filter (fun i => negb (mem_nat i fixed)) (List.seq (length pre) (length rest)))
    = freec fixed (length pre) rest.
Proof.
  induction rest as [|c r IH]; intros pre; cbn [length List.seq filter freec]; [reflexivity|].
  assert (E : pre ++ c :: r = (pre ++ [c]) ++ r) by (rewrite <- app_assoc; reflexivity).
  assert (L : S (length pre) = length (pre ++ [c])) by (rewrite app_length; cbn; lia).
  destruct (mem_nat (length pre) fixed); cbn [negb map].
  - rewrite E, L. apply IH.
  - f_equal.
    + unfold get. rewrite app_nth2 by lia. rewrite Nat.sub_diag. reflexivity.
    + rewrite E, L. apply IH.
Qed.

Lemma free_indices_freec : forall fixed s,
    map (get s) (free_indices fixed (length s)) = freec fixed 0 s.
Proof. intros. unfold free_indices. exact (map_get_free fixed s []). Qed.

Lemma free_length : forall fixed s, length (free_indices fixed (length s)) = length (freec fixed 0 s).
Proof. intros. rewrite <- free_indices_freec, map_length. reflexivity. Qed.

(* what one decoy is: the walk over some rearrangement of the free indices *)
Definition rearranged (fixed : list nat) (s d : seq) : Prop :=
  exists idx, Permutation idx (free_indices fixed (length s)) /\ d = walk fixed s 0 s idx.

Lemma rearranged_perm : forall fixed s d, rearranged fixed s d -> Permutation d s.
Proof.
  intros fixed s d (idx & Hp & ->).
  eapply Permutation_trans.
  - apply walk_perm. rewrite (Permutation_length Hp). apply free_length.
  - eapply Permutation_trans; [| apply (keepf_freec_perm fixed s 0)].
    apply Permutation_app_head. rewrite <- free_indices_freec. apply Permutation_map. exact Hp.
Qed.

Lemma rearranged_length : forall fixed s d, rearranged fixed s d -> length d = length s.
Proof. intros. apply Permutation_length, (rearranged_perm fixed); assumption. Qed.

Lemma rearranged_fixed : forall fixed s d q,
    rearranged fixed s d -> In q fixed -> nth_error d q = nth_error s q.
Proof.
  intros fixed s d q (idx & Hp & ->) Hq.
  apply walk_fixed.
  - rewrite (Permutation_length Hp). apply free_length.
  - cbn. apply mem_nat_In. exact Hq.
Qed.

Lemma reverse_rearranged : forall fixed s, rearranged fixed s (reverse_sequence s fixed).
Proof.
  intros. exists (rev (free_indices fixed (length s))). split; [|reflexivity].
  apply Permutation_sym, Permutation_rev.
Qed.

(* ------------------------------------------------------------------ find_fixed_indices *)
Lemma scan_fixed_in : forall cfg n s i q c,
    nth_error s q = Some c ->
    ((Nat.eqb (i + q) 0 && c_nterm cfg) || (Nat.eqb (i + q) (n - 1) && c_cterm cfg)
     || mem_seq [c] (c_pattern cfg)) = true ->
    In (i + q) (scan_fixed cfg n i s).
Proof.
  induction s as [|x s IH]; intros i q c Hn Hc; [destruct q; discriminate|].
  cbn [scan_fixed]. apply in_or_app.
  destruct q as [|q'].
  - left. cbn in Hn. inversion Hn; subst x. rewrite Nat.add_0_r in *.
    destruct (Nat.eqb i 0 && c_nterm cfg); [left; reflexivity|].
    destruct (Nat.eqb i (n - 1) && c_cterm cfg); [left; reflexivity|].
    cbn [orb] in Hc. rewrite Hc. left; reflexivity.
  - right. rewrite Nat.add_succ_r in *. apply (IH (S i) q' c); assumption.
Qed.

(* the positions the statement requires to stay in place *)
Definition must_keep (cfg : config) (s : seq) (q : nat) : Prop :=
  q < length s /\
  ((q = 0 /\ c_nterm cfg = true) \/
   (q = length s - 1 /\ c_cterm cfg = true) \/
   (exists c, nth_error s q = Some c /\ In [c] (c_pattern cfg)) \/
   (exists r site, c_enzyme cfg = Some r /\ In site (sites r (c_exc cfg) s) /\ q = site - 1)).

Lemma must_keep_fixed : forall cfg s q,
    c_shift cfg = 1 -> must_keep cfg s q -> In q (find_fixed_indices cfg s).
Proof.
  intros cfg s q Hsh [Hlt H]. unfold find_fixed_indices. apply in_or_app.
  destruct (nth_error s q) as [c|] eqn:En; [|apply nth_error_None in En; lia].
  destruct H as [[-> Hn] | [[-> Hc] | [(c' & Hc' & Hin) | (r & site & He & Hs & ->)]]].
  - right. apply (scan_fixed_in cfg (length s) s 0 0 c En). rewrite Hn. reflexivity.
  - right. apply (scan_fixed_in cfg (length s) s 0 (length s - 1) c En).
    cbn [Nat.add]. rewrite Hc, Nat.eqb_refl. cbn. rewrite orb_true_r. reflexivity.
  - right. apply (scan_fixed_in cfg (length s) s 0 q c En).
    assert (c' = c) by congruence; subst c'. apply mem_seq_In in Hin. rewrite Hin. apply orb_true_r.
  - left. unfold enzyme_fixed. rewrite He, Hsh. apply in_map_iff. exists site. split; [reflexivity | exact Hs].
Qed.

(* ------------------------------------------------------------------ generation *)
Definition decoy_ok (cfg : config) (t d : rec) : Prop :=
  r_hdr d = decoy_header cfg (r_hdr t) /\
  rearranged (find_fixed_indices cfg (r_seq t)) (r_seq t) (r_seq d).

Section GenProofs.
  Variable sample : nat -> list nat -> list nat.
  Hypothesis sample_perm : forall k l, Permutation (sample k l) l.
  Variable cfg : config.
  Variable pool : list seq.

  Lemma retry_some : forall fuel s fixed dp attempts k d k' ov,
      retry sample cfg pool fuel s fixed dp attempts k = Some (d, k', ov) ->
      rearranged fixed s d /\ k < k'.
  Proof.
    induction fuel as [|f IH]; intros s fixed dp attempts k d k' ov H; cbn [retry] in H; [discriminate|].
    destruct (negb (collides pool dp _)) eqn:E1.
    - inversion H; subst. split; [|lia]. eexists; split; [apply sample_perm | reflexivity].
    - destruct (Z.geb _ _) eqn:E2.
      + inversion H; subst. split; [|lia]. eexists; split; [apply sample_perm | reflexivity].
      + apply IH in H. destruct H; split; [assumption | lia].
  Qed.

  Lemma retry_enough : forall fuel s fixed dp attempts k,
      fuel > 0 -> (Z.of_nat fuel >= c_max_attempts cfg - attempts)%Z ->
      retry sample cfg pool fuel s fixed dp attempts k <> None.
  Proof.
    induction fuel as [|f IH]; intros s fixed dp attempts k Hp Hf; [lia|].
    cbn [retry].
    destruct (negb (collides pool dp _)); [discriminate|].
    destruct (Z.geb _ _) eqn:E2; [discriminate|].
    apply IH; lia.
  Qed.

  Lemma gen_one : forall g t g',
      generate_decoy_sequence sample cfg pool g t = Ok g' ->
      exists d, g_decoy_db g' = g_decoy_db g ++ [d] /\ decoy_ok cfg t d /\ g_calls g <= g_calls g'.
  Proof.
    intros g t g' H. unfold generate_decoy_sequence in H.
    destruct (Z.eqb (c_method cfg) 0).
    - inversion H; subst; cbn. eexists; split; [reflexivity|]. split; [|lia].
      split; [reflexivity | apply reverse_rearranged].
    - destruct (Z.eqb (c_method cfg) 1); [|discriminate].
      destruct (retry _ _ _ _ _ _ _ _ _) as [[[d k] ov]|] eqn:E; [|discriminate].
      apply retry_some in E. destruct E as [E Hk].
      inversion H; subst; cbn. eexists; split; [reflexivity|]. split; [|lia].
      split; [reflexivity | exact E].
  Qed.

  Lemma gen_one_total : forall g t,
      (c_method cfg = 0 \/ c_method cfg = 1)%Z ->
      exists g', generate_decoy_sequence sample cfg pool g t = Ok g'.
  Proof.
    intros g t Hm. unfold generate_decoy_sequence.
    destruct Hm as [-> | ->]; cbn [Z.eqb Pos.eqb]; [eexists; reflexivity|].
    destruct (retry _ _ _ _ _ _ _ _ _) as [[[d k] ov]|] eqn:E; [eexists; reflexivity|].
    exfalso. revert E. apply retry_enough; unfold retry_fuel; lia.
  Qed.

  Lemma gen_all : forall ts g g',
      generate_all sample cfg pool g ts = Ok g' ->
      exists ds, g_decoy_db g' = g_decoy_db g ++ ds /\ Forall2 (decoy_ok cfg) ts ds.
  Proof.
    induction ts as [|t ts IH]; intros g g' H; cbn [generate_all] in H.
    - inversion H; subst. exists []. rewrite app_nil_r. split; [reflexivity | constructor].
    - destruct (generate_decoy_sequence _ _ _ g t) as [g1| |] eqn:E; try discriminate.
      apply gen_one in E. destruct E as (d & Hd & Hok & _).
      apply IH in H. destruct H as (ds & Hds & Hall).
      exists (d :: ds). split; [|constructor; assumption].
      rewrite Hds, Hd, <- app_assoc. reflexivity.
  Qed.

  Lemma gen_all_total : forall ts g,
      (c_method cfg = 0 \/ c_method cfg = 1)%Z ->
      exists g', generate_all sample cfg pool g ts = Ok g'.
  Proof.
    induction ts as [|t ts IH]; intros g Hm; cbn [generate_all]; [eexists; reflexivity|].
    destruct (gen_one_total g t Hm) as [g1 ->]. apply IH; assumption.
  Qed.
End GenProofs.

(* ------------------------------------------------------------------ the sort *)
Open Scope Z_scope.
Lemma seq_ltb_irrefl : forall a, seq_ltb a a = false.
Proof.
  induction a as [|x a IH]; cbn [seq_ltb]; [reflexivity|].
  rewrite Z.ltb_irrefl, Z.eqb_refl, IH. reflexivity.
Qed.

Lemma seq_ltb_trans : forall a b c, seq_ltb a b = true -> seq_ltb b c = true -> seq_ltb a c = true.
Proof.
  induction a as [|x a IH]; intros [|y b] [|z c] H1 H2; cbn [seq_ltb] in *; try discriminate; try reflexivity.
  apply orb_true_iff in H1, H2. apply orb_true_iff.
  rewrite andb_true_iff, Z.ltb_lt, Z.eqb_eq in *.
  destruct H1 as [H1|[H1 H1']], H2 as [H2|[H2 H2']]; try (left; lia).
  right; split; [lia | eapply IH; eauto].
Qed.

Lemma seq_ltb_tri : forall a b, a = b \/ seq_ltb a b = true \/ seq_ltb b a = true.
Proof.
  induction a as [|x a IH]; intros [|y b]; cbn [seq_ltb]; auto.
  destruct (Z.lt_trichotomy x y) as [H|[H|H]].
  - right; left. apply Z.ltb_lt in H. rewrite H. reflexivity.
  - subst y. rewrite Z.ltb_irrefl, Z.eqb_refl. cbn [orb andb].
    destruct (IH b) as [->|[H|H]]; auto.
  - right; right. apply Z.ltb_lt in H. rewrite H. reflexivity.
Qed.

Lemma eq_seq_refl : forall a, eq_seq a a = true.
Proof. intros; apply eq_seq_true; reflexivity. Qed.

Lemma key_ltb_irrefl : forall k a, key_ltb k a a = false.
Proof.
  intros [|] a; unfold key_ltb; rewrite ?seq_ltb_irrefl, ?eq_seq_refl; reflexivity.
Qed.

Lemma key_ltb_trans : forall k a b c, key_ltb k a b = true -> key_ltb k b c = true -> key_ltb k a c = true.
Proof.
  intros [|] a b c; unfold key_ltb; [|apply seq_ltb_trans].
  rewrite !orb_true_iff, !andb_true_iff, !eq_seq_true.
  intros [H1|[E1 H1]] [H2|[E2 H2]].
  - left; eapply seq_ltb_trans; eauto.
  - left; rewrite <- E2; assumption.
  - left; rewrite E1; assumption.
  - right; split; [congruence | eapply seq_ltb_trans; eauto].
Qed.

Lemma key_ltb_asym : forall k a b, key_ltb k a b = true -> key_ltb k b a = false.
Proof.
  intros k a b H. destruct (key_ltb k b a) eqn:E; [|reflexivity].
  pose proof (key_ltb_trans k a b a H E) as T. rewrite key_ltb_irrefl in T. discriminate.
Qed.

Definition comparable (k : bool) (a b : rec) : Prop :=
  a = b \/ key_ltb k a b = true \/ key_ltb k b a = true.

Lemma key_tri_full : forall a b, comparable true a b.
Proof.
  intros [h1 s1] [h2 s2]. unfold comparable, key_ltb, r_seq, r_hdr; cbn [fst snd].
  destruct (seq_ltb_tri s1 s2) as [->|[H|H]].
  - rewrite seq_ltb_irrefl, eq_seq_refl. cbn [orb andb].
    destruct (seq_ltb_tri h1 h2) as [->|[H|H]]; auto.
  - right; left. rewrite H. reflexivity.
  - right; right. rewrite H. reflexivity.
Qed.

Lemma key_tri_seq : forall a b, a = b \/ r_seq a <> r_seq b -> comparable false a b.
Proof.
  intros a b [->|H]; [left; reflexivity|]. unfold comparable, key_ltb.
  destruct (seq_ltb_tri (r_seq a) (r_seq b)) as [E|[E|E]]; [contradiction | auto | auto].
Qed.

Lemma insert_perm : forall k x l, Permutation (insert_rec k x l) (x :: l).
Proof.
  induction l as [|y l IH]; cbn [insert_rec]; [apply Permutation_refl|].
  destruct (key_ltb k y x); [|apply Permutation_refl].
  eapply Permutation_trans; [apply perm_skip, IH | apply perm_swap].
Qed.

Lemma sort_perm : forall k l, Permutation (sort_targets k l) l.
Proof.
  induction l as [|x l IH]; cbn [sort_targets]; [constructor|].
  eapply Permutation_trans; [apply insert_perm | apply perm_skip, IH].
Qed.

Lemma insert_comm : forall k x y s,
    key_ltb k x y = true ->
    insert_rec k x (insert_rec k y s) = insert_rec k y (insert_rec k x s).
Proof.
  intros k x y s Hxy. pose proof (key_ltb_asym k x y Hxy) as Hyx.
  induction s as [|z s IH]; cbn [insert_rec].
  - rewrite Hyx, Hxy. reflexivity.
  - destruct (key_ltb k z x) eqn:Ezx.
    + rewrite (key_ltb_trans k z x y Ezx Hxy). cbn [insert_rec]. rewrite Ezx.
      rewrite (key_ltb_trans k z x y Ezx Hxy). rewrite IH. reflexivity.
    + cbn [insert_rec]. rewrite Hxy. cbn [insert_rec].
      destruct (key_ltb k z y) eqn:Ezy; cbn [insert_rec].
      * rewrite Ezx. reflexivity.
      * rewrite Hyx. reflexivity.
Qed.

Lemma sort_perm_eq : forall k l l',
    Permutation l l' ->
    (forall x y, In x l -> In y l -> comparable k x y) ->
    sort_targets k l = sort_targets k l'.
Proof.
  intros k l l' HP. induction HP as [|x l l' HP IH|x y l|l l' l'' HP1 IH1 HP2 IH2]; intros P.
  - reflexivity.
  - cbn [sort_targets]. rewrite IH; [reflexivity|]. intros; apply P; right; assumption.
  - cbn [sort_targets].
    destruct (P x y) as [->|[H|H]]; [right; left; reflexivity | left; reflexivity | reflexivity | |].
    + symmetry. apply insert_comm. exact H.
    + apply insert_comm. exact H.
  - rewrite IH1 by exact P. apply IH2.
    intros a b Ha Hb. apply P; eapply Permutation_in; try eassumption; apply Permutation_sym; assumption.
Qed.

(* ------------------------------------------------------------------ output order *)
Open Scope nat_scope.
Lemma juxtapose_length : forall ts ds, length ts = length ds -> length (juxtapose ts ds) = 2 * length ts.
Proof.
  induction ts as [|t ts IH]; intros [|d ds] H; cbn [juxtapose length] in *; try discriminate; [reflexivity|].
  rewrite IH by lia. lia.
Qed.

Lemma juxtapose_perm : forall ts ds, length ts = length ds -> Permutation (juxtapose ts ds) (ts ++ ds).
Proof.
  induction ts as [|t ts IH]; intros [|d ds] H; cbn [juxtapose length app] in *; try discriminate; [constructor|].
  constructor. apply Permutation_cons_app. apply IH. lia.
Qed.

Lemma juxtapose_nth : forall ts ds i,
    length ts = length ds -> i < length ts ->
    nth_error (juxtapose ts ds) (2 * i) = nth_error ts i /\
    nth_error (juxtapose ts ds) (2 * i + 1) = nth_error ds i.
Proof.
  induction ts as [|t ts IH]; intros [|d ds] i H Hi; cbn [length] in *; try lia.
  destruct i as [|i]; cbn [juxtapose]; [split; reflexivity|].
  replace (2 * S i) with (S (S (2 * i))) by lia. cbn [nth_error Nat.add].
  apply IH; lia.
Qed.

Lemma arrange_perm : forall order ts ds recs,
    arrange order ts ds = Ok recs -> length ts = length ds ->
    Permutation recs (ts ++ ds) /\ length recs = 2 * length ts.
Proof.
  intros order ts ds recs H L. unfold arrange in H.
  destruct (Z.eqb order 0); [inversion H; subst; split; [apply juxtapose_perm | apply juxtapose_length]; assumption|].
  destruct (Z.eqb order 1); [inversion H; subst; split; [apply Permutation_refl | rewrite app_length; lia]|].
  destruct (Z.eqb order 2); [inversion H; subst; split; [apply Permutation_app_comm | rewrite app_length; lia]|].
  discriminate.
Qed.

(* ------------------------------------------------------------------ run *)
Lemma run_inv : forall sample cfg targets o,
    (forall k l, Permutation (sample k l) l) ->
    run sample cfg targets = Ok o ->
    o_targets o = sort_targets (c_keyhdr cfg) targets /\
    Forall2 (decoy_ok cfg) (o_targets o) (o_decoys o) /\
    arrange (c_order cfg) (o_targets o) (o_decoys o) = Ok (o_records o).
Proof.
  intros sample cfg targets o Hs H. unfold run in H.
  destruct (generate_all _ _ _ _ _) as [g| |] eqn:E; try discriminate.
  destruct (arrange _ _ _) as [recs| |] eqn:A; try discriminate.
  inversion H; subst; cbn.
  apply (gen_all sample Hs) in E. destruct E as (ds & Hds & Hall). cbn in Hds. subst ds.
  auto.
Qed.

Lemma Forall2_length' : forall A B (R : A -> B -> Prop) l l', Forall2 R l l' -> length l = length l'.
Proof. induction 1; cbn; auto. Qed.

Lemma Forall2_impl' : forall A B (R R' : A -> B -> Prop) l l',
    (forall a b, R a b -> R' a b) -> Forall2 R l l' -> Forall2 R' l l'.
Proof. induction 2; constructor; auto. Qed.

Section RunTheorems.
  Variable sample : nat -> list nat -> list nat.
  Hypothesis sample_perm : forall k l, Permutation (sample k l) l.
  Variable cfg : config.
  Variable targets : list rec.
  Variable o : output.
  Hypothesis Hrun : run sample cfg targets = Ok o.

  Lemma decoy_perm_l :
    Forall2 (fun t d => Permutation (r_seq d) (r_seq t)) (o_targets o) (o_decoys o).
  Proof.
    destruct (run_inv _ _ _ _ sample_perm Hrun) as (_ & H & _).
    eapply Forall2_impl'; [|exact H]. intros t d [_ Hr]. eapply rearranged_perm; eassumption.
  Qed.

  Lemma decoy_fixed_kept_l :
    c_shift cfg = 1 ->
    Forall2 (fun t d => length (r_seq d) = length (r_seq t) /\
                        forall q, must_keep cfg (r_seq t) q -> nth_error (r_seq d) q = nth_error (r_seq t) q)
            (o_targets o) (o_decoys o).
  Proof.
    intros Hsh. destruct (run_inv _ _ _ _ sample_perm Hrun) as (_ & H & _).
    eapply Forall2_impl'; [|exact H]. intros t d [_ Hr]. split.
    - eapply rearranged_length; eassumption.
    - intros q Hq. eapply rearranged_fixed; [eassumption|]. apply must_keep_fixed; assumption.
  Qed.

  Lemma one_decoy_per_target_l :
    length (o_decoys o) = length targets /\
    length (o_records o) = 2 * length targets /\
    Forall2 (fun t d => r_hdr d = decoy_header cfg (r_hdr t)) (o_targets o) (o_decoys o).
  Proof.
    destruct (run_inv _ _ _ _ sample_perm Hrun) as (Ht & H & A).
    pose proof (Forall2_length' _ _ _ _ _ H) as L.
    assert (LT : length (o_targets o) = length targets)
      by (rewrite Ht; apply Permutation_length, sort_perm).
    destruct (arrange_perm _ _ _ _ A L) as [_ L2].
    split; [lia|]. split; [lia|].
    eapply Forall2_impl'; [|exact H]. intros t d [Hh _]. exact Hh.
  Qed.

  Lemma targets_unchanged_l :
    Permutation (o_targets o) targets /\ Permutation (o_records o) (targets ++ o_decoys o).
  Proof.
    destruct (run_inv _ _ _ _ sample_perm Hrun) as (Ht & H & A).
    pose proof (Forall2_length' _ _ _ _ _ H) as L.
    destruct (arrange_perm _ _ _ _ A L) as [P _].
    assert (PT : Permutation (o_targets o) targets) by (rewrite Ht; apply sort_perm).
    split; [exact PT|]. eapply Permutation_trans; [exact P|]. apply Permutation_app_tail. exact PT.
  Qed.

  Lemma order_respected_l :
    ((c_order cfg = 0)%Z ->
       forall i, i < length targets ->
         nth_error (o_records o) (2 * i) = nth_error (o_targets o) i /\
         nth_error (o_records o) (2 * i + 1) = nth_error (o_decoys o) i) /\
    ((c_order cfg = 1)%Z -> o_records o = o_targets o ++ o_decoys o) /\
    ((c_order cfg = 2)%Z -> o_records o = o_decoys o ++ o_targets o).
  Proof.
    destruct (run_inv _ _ _ _ sample_perm Hrun) as (Ht & H & A).
    pose proof (Forall2_length' _ _ _ _ _ H) as L.
    assert (LT : length (o_targets o) = length targets)
      by (rewrite Ht; apply Permutation_length, sort_perm).
    unfold arrange in A. split; [|split]; intros E; rewrite E in A; cbn in A; inversion A; try reflexivity.
    intros i Hi. apply juxtapose_nth; lia.
  Qed.
End RunTheorems.

Lemma run_total_l : forall sample cfg targets,
    (c_method cfg = 0 \/ c_method cfg = 1)%Z ->
    (c_order cfg = 0 \/ c_order cfg = 1 \/ c_order cfg = 2)%Z ->
    exists o, run sample cfg targets = Ok o.
Proof.
  intros sample cfg targets Hm Ho. unfold run.
  destruct (gen_all_total sample cfg (map r_seq (sort_targets (c_keyhdr cfg) targets))
                          (sort_targets (c_keyhdr cfg) targets) init_state Hm) as [g ->].
  unfold arrange. destruct Ho as [-> | [-> | ->]]; cbn; eexists; reflexivity.
Qed.

Lemma order_independent_l : forall sample cfg targets targets',
    Permutation targets targets' ->
    (c_keyhdr cfg = true \/
     forall x y, In x targets -> In y targets -> x = y \/ r_seq x <> r_seq y) ->
    run sample cfg targets = run sample cfg targets'.
Proof.
  intros sample cfg targets targets' HP Hc. unfold run.
  assert (E : sort_targets (c_keyhdr cfg) targets = sort_targets (c_keyhdr cfg) targets').
  { apply sort_perm_eq; [exact HP|]. intros x y Hx Hy.
    destruct Hc as [-> | Hc]; [apply key_tri_full|].
    destruct (c_keyhdr cfg); [apply key_tri_full | apply key_tri_seq; auto]. }
  rewrite E. reflexivity.
Qed.

(* ------------------------------------------------------------------ reproducibility *)
Section Repro.
  Variables s1 s2 : nat -> list nat -> list nat.
  Hypothesis same : forall k l, s1 k l = s2 k l.

  Lemma retry_ext : forall cfg pool fuel s fixed dp attempts k,
      retry s1 cfg pool fuel s fixed dp attempts k = retry s2 cfg pool fuel s fixed dp attempts k.
  Proof.
    induction fuel as [|f IH]; intros; cbn [retry]; [reflexivity|].
    rewrite same. destruct (negb _); [reflexivity|]. destruct (Z.geb _ _); [reflexivity|]. apply IH.
  Qed.

  Lemma gen_all_ext : forall cfg pool ts g,
      generate_all s1 cfg pool g ts = generate_all s2 cfg pool g ts.
  Proof.
    induction ts as [|t ts IH]; intros g; cbn [generate_all]; [reflexivity|].
    unfold generate_decoy_sequence. rewrite retry_ext.
    destruct (Z.eqb (c_method cfg) 0); [apply IH|].
    destruct (Z.eqb (c_method cfg) 1); [|reflexivity].
    destruct (retry _ _ _ _ _ _ _ _ _) as [[[d k] ov]|]; [apply IH | reflexivity].
  Qed.

  Lemma reproducible_l : forall cfg targets, run s1 cfg targets = run s2 cfg targets.
  Proof. intros. unfold run. rewrite gen_all_ext. reflexivity. Qed.
End Repro.

(* stronger form: only the answers to the calls actually made matter *)
Section ReproPrefix.
  Variables s1 s2 : nat -> list nat -> list nat.
  Variable cfg : config.
  Variable pool : list seq.

  Lemma retry_mono : forall fuel s fixed dp attempts k d k' ov,
      retry s1 cfg pool fuel s fixed dp attempts k = Some (d, k', ov) -> k < k'.
  Proof.
    induction fuel as [|f IH]; intros s fixed dp attempts k d k' ov H; cbn [retry] in H; [discriminate|].
    destruct (negb _); [inversion H; lia|]. destruct (Z.geb _ _); [inversion H; lia|].
    apply IH in H. lia.
  Qed.

  Lemma retry_agree : forall fuel s fixed dp attempts k d k' ov,
      retry s1 cfg pool fuel s fixed dp attempts k = Some (d, k', ov) ->
      (forall j l, k <= j < k' -> s1 j l = s2 j l) ->
      retry s2 cfg pool fuel s fixed dp attempts k = Some (d, k', ov).
  Proof.
    induction fuel as [|f IH]; intros s fixed dp attempts k d k' ov H A; [discriminate|].
    pose proof (retry_mono _ _ _ _ _ _ _ _ _ H) as M.
    cbn [retry] in *. rewrite <- (A k) by lia.
    destruct (negb _); [exact H|]. destruct (Z.geb _ _); [exact H|].
    apply IH; [exact H|]. intros; apply A; lia.
  Qed.

  Lemma gen_one_agree : forall g t g',
      generate_decoy_sequence s1 cfg pool g t = Ok g' ->
      g_calls g <= g_calls g' /\
      ((forall j l, g_calls g <= j < g_calls g' -> s1 j l = s2 j l) ->
       generate_decoy_sequence s2 cfg pool g t = Ok g').
  Proof.
    intros g t g' H. unfold generate_decoy_sequence in *.
    destruct (Z.eqb (c_method cfg) 0); [inversion H; cbn; split; [lia | reflexivity]|].
    destruct (Z.eqb (c_method cfg) 1); [|discriminate].
    destruct (retry s1 _ _ _ _ _ _ _ _) as [[[d k] ov]|] eqn:E; [|discriminate].
    pose proof (retry_mono _ _ _ _ _ _ _ _ _ E) as M.
    assert (K : g_calls g' = k) by (inversion H; reflexivity).
    split; [lia|]. intros A. rewrite K in A.
    rewrite (retry_agree _ _ _ _ _ _ _ _ _ E A). exact H.
  Qed.

  Lemma gen_all_agree : forall ts g g',
      generate_all s1 cfg pool g ts = Ok g' ->
      g_calls g <= g_calls g' /\
      ((forall j l, g_calls g <= j < g_calls g' -> s1 j l = s2 j l) ->
       generate_all s2 cfg pool g ts = Ok g').
  Proof.
    induction ts as [|t ts IH]; intros g g' H; cbn [generate_all] in *.
    - inversion H; subst. split; [lia | reflexivity].
    - destruct (generate_decoy_sequence s1 _ _ g t) as [g1| |] eqn:E; try discriminate.
      destruct (gen_one_agree _ _ _ E) as [M1 A1].
      destruct (IH _ _ H) as [M2 A2].
      split; [lia|]. intros A.
      rewrite A1 by (intros; apply A; lia). apply A2. intros; apply A; lia.
  Qed.
End ReproPrefix.

Lemma reproducible_prefix_l : forall s1 s2 cfg targets o,
    run s1 cfg targets = Ok o ->
    (forall k l, k < o_calls o -> s1 k l = s2 k l) ->
    run s2 cfg targets = Ok o.
Proof.
  intros s1 s2 cfg targets o H A. unfold run in *.
  destruct (generate_all s1 _ _ _ _) as [g| |] eqn:E; try discriminate.
  destruct (gen_all_agree s1 s2 _ _ _ _ _ E) as [_ A2].
  destruct (arrange _ _ _) as [recs| |] eqn:Ar; try discriminate.
  inversion H; subst; cbn in A.
  rewrite A2 by (intros; apply A; cbn in *; lia). rewrite Ar. reflexivity.
Qed.
