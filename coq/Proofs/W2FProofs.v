(* Proofs about the W>F model (shared by C08 and C09). *)
From Coq Require Import ZArith List Bool Lia Arith.
From MoPep Require Import Model.Base Model.W2F.
Import ListNotations.
Open Scope Z_scope.

(* ---------------- sublist ---------------- *)
Lemma sublist_nil_l {A} (l : list A) : sublist [] l.
Proof. induction l; constructor; auto. Qed.

Lemma sublist_length {A} (s l : list A) : sublist s l -> (length s <= length l)%nat.
Proof. induction 1; simpl; lia. Qed.

Lemma sublist_In {A} (s l : list A) x : sublist s l -> In x s -> In x l.
Proof. induction 1; simpl; intros; auto. destruct H0; auto. Qed.

Lemma sublist_nil_inv {A} (s : list A) : sublist s [] -> s = [].
Proof. inversion 1; auto. Qed.

(* ---------------- combinations ---------------- *)
Lemma combs_spec {A} (k : nat) (l c : list A) :
  In c (combs k l) <-> sublist c l /\ length c = k.
Proof.
  revert k c. induction l as [|x t IH]; intros k c.
  - destruct k; simpl.
    + split.
      * intros [<-|[]]. split; [constructor | reflexivity].
      * intros [H Hl]. apply sublist_nil_inv in H. subst. auto.
    + split; [intros [] |].
      intros [H Hl]. apply sublist_nil_inv in H. subst. discriminate.
  - destruct k; simpl.
    + split.
      * intros [<-|[]]. split; [apply sublist_nil_l | reflexivity].
      * intros [H Hl]. destruct c; [auto | discriminate].
    + rewrite in_app_iff, in_map_iff. split.
      * intros [[c' [<- Hc']] | Hc].
        -- apply IH in Hc'. destruct Hc' as [Hs Hl]. split; [apply sub_take; auto | simpl; lia].
        -- apply (IH (S k)) in Hc. destruct Hc as [Hs Hl]. split; [apply sub_skip; auto | auto].
      * intros [Hs Hl]. inversion Hs; subst.
        -- right. apply (IH (S k)). auto.
        -- left. exists s. split; auto. apply IH. simpl in Hl. split; auto; lia.
Qed.

(* ---------------- the enumeration ---------------- *)
Lemma in_seq_1 (n k : nat) : In k (List.seq 1 n) <-> (1 <= k <= n)%nat.
Proof. rewrite in_seq. lia. Qed.

(* images = exactly the images under the non-empty subsets of the W positions *)
Theorem w2f_enum (p q : seq) :
  In q (w2f_images p) <->
  exists S, S <> [] /\ sublist S (w_positions p) /\ q = apply_w2f S p.
Proof.
  unfold w2f_images. rewrite in_flat_map. split.
  - intros [k [Hk Hq]]. apply in_seq_1 in Hk. apply in_map_iff in Hq.
    destruct Hq as [c [<- Hc]]. apply combs_spec in Hc. destruct Hc as [Hs Hl].
    exists c. split; [| split; auto]. intros ->. simpl in Hl. subst k. destruct Hk as [Hk _]. inversion Hk.
  - intros [S [Hne [Hs ->]]]. exists (length S). split.
    + apply in_seq_1. pose proof (sublist_length _ _ Hs). destruct S; [congruence | simpl in *; lia].
    + apply in_map_iff. exists S. split; auto. apply combs_spec. auto.
Qed.

(* ---------------- what an image looks like ---------------- *)
Lemma subst_at_length i x p : length (subst_at i x p) = length p.
Proof. revert i. induction p; intros [|i]; simpl; auto. Qed.

Lemma subst_at_nth i x p j d :
  nth j (subst_at i x p) d = if (Nat.eqb j i && Nat.ltb i (length p))%bool then x else nth j p d.
Proof.
  revert i j. induction p as [|c r IH]; intros i j.
  - destruct i; simpl; rewrite andb_false_r; reflexivity.
  - destruct i, j; simpl; auto.
    + rewrite IH. change (S i <? S (length r))%nat with (i <? length r)%nat. reflexivity.
Qed.

Lemma apply_w2f_length S p : length (apply_w2f S p) = length p.
Proof.
  unfold apply_w2f. revert p. induction S as [|i S IH]; intro p; simpl; auto.
  rewrite IH. apply subst_at_length.
Qed.

Fixpoint mem_nat (x : nat) (l : list nat) : bool :=
  match l with [] => false | y :: t => Nat.eqb x y || mem_nat x t end.

(* position j of the image is F when j is one of the chosen (in-range) positions, unchanged otherwise *)
Lemma apply_w2f_nth S p j d :
  nth j (apply_w2f S p) d =
  if (mem_nat j S && Nat.ltb j (length p))%bool then F_code else nth j p d.
Proof.
  unfold apply_w2f. revert p. induction S as [|i S IH]; intro p; simpl.
  - reflexivity.
  - rewrite IH. rewrite subst_at_length, subst_at_nth.
    destruct (Nat.eqb j i) eqn:E.
    + apply Nat.eqb_eq in E. subst i. simpl.
      destruct (mem_nat j S); simpl; destruct (j <? length p)%nat; reflexivity.
    + simpl. reflexivity.
Qed.

(* the chosen positions carry a W in the original peptide *)
Lemma w_positions_from_spec i p j :
  In j (w_positions_from i p) <-> (i <= j)%nat /\ nth_error p (j - i) = Some W_code.
Proof.
  revert i. induction p as [|c r IH]; intro i; simpl.
  - split; [intros [] | intros [_ H]]. destruct (j - i)%nat; discriminate.
  - rewrite in_app_iff, IH. split.
    + intros [H | [H1 H2]].
      * destruct (c =? W_code) eqn:E; [| destruct H]. destruct H as [<- | []].
        rewrite Nat.sub_diag. simpl. apply Z.eqb_eq in E. subst. split; auto.
      * split; [lia|]. replace (j - i)%nat with (S (j - S i)) by lia. simpl. auto.
    + intros [H1 H2]. destruct (Nat.eq_dec i j) as [->|Hne].
      * left. rewrite Nat.sub_diag in H2. simpl in H2. injection H2 as ->.
        rewrite Z.eqb_refl. simpl. auto.
      * right. split; [lia|]. replace (j - i)%nat with (S (j - S i)) in H2 by lia. simpl in H2. auto.
Qed.

Lemma w_positions_spec p j : In j (w_positions p) <-> nth_error p j = Some W_code.
Proof.
  unfold w_positions. rewrite w_positions_from_spec. rewrite Nat.sub_0_r. split; [tauto | split; [lia | auto]].
Qed.
