(* Equality of the arms of VEPRecord.convert_to_variant_record after the boundary checks, as GENERATED from /repo's
   source by harness/translate/py2coq.py (coq/Gen/Py_VEPParser.v), with Vep.convert_core true.  docs/py2coq.md. *)
From Coq Require Import ZArith List Bool Lia ZifyBool.
From MoPep Require Import Model.Base Model.PyRt Model.Vep Gen.Py_VEPParser.
Import ListNotations.
Open Scope Z_scope.

Lemma zlen_length_v : forall A (l : list A), zlen l = Z.of_nat (length l).
Proof. induction l as [|x t IH]; [reflexivity|]. cbn [zlen length]. rewrite IH. lia. Qed.

Lemma last_opt_nth : forall al : seq, last_opt al = nth_error al (length al - 1)%nat.
Proof.
  induction al as [|x t IH]; [reflexivity|].
  destruct t as [|y t']; [reflexivity|].
  cbn [last_opt] in *. rewrite IH. cbn [length]. replace (S (S (length t')) - 1)%nat with (S (length t')) by lia.
  replace (S (length t') - 1)%nat with (length t') by lia. reflexivity.
Qed.

Lemma head_nth : forall al : seq, nth_error al 0 = match al with x :: _ => Some x | [] => None end.
Proof. destruct al; reflexivity. Qed.

Ltac vp_head t := lazymatch t with ?f _ => vp_head f | _ => t end.
Ltac vp_prim x := let h := vp_head x in first [is_const h | is_var h].
Ltac vp_atom b :=
  lazymatch b with
  | ?x && _ => vp_atom x
  | ?x || _ => vp_atom x
  | negb ?x => vp_atom x
  | _ => vp_prim b; destruct b eqn:?
  end.
Ltac vp_step :=
  first
  [ progress (cbn [negb andb orb option_map]; cbv iota)
  | match goal with
    | |- context [match ?x with Some _ => _ | None => _ end] => vp_prim x; destruct x eqn:?
    | |- context [if ?b then _ else _] => vp_atom b
    end ].

(* the SNV / INDEL / MNV decision followed by the location checks, as the generated code spells it on every path *)
Lemma tail_eq : forall st en (ref alt : seq),
  (if (Z.of_nat (length ref) =? Z.of_nat (length alt)) && (Z.of_nat (length alt) =? 1)
   then (if en <? st then ErrValue else if negb (en - st =? zlen ref) then ErrValue else Ok (mkVrec st en ref alt 0))
   else if (Z.of_nat (length ref) =? 1) || (Z.of_nat (length ref) =? 1)
        then (if en <? st then ErrValue else if negb (en - st =? zlen ref) then ErrValue else Ok (mkVrec st en ref alt 1))
        else (if en <? st then ErrValue else if negb (en - st =? zlen ref) then ErrValue else Ok (mkVrec st en ref alt 2)))
  = finish st en ref alt.
Proof.
  intros. unfold finish. cbv zeta. rewrite !zlen_length_v.
  destruct (en <? st); [repeat vp_step; reflexivity|].
  destruct (negb (en - st =? Z.of_nat (length ref))); [repeat vp_step; reflexivity|].
  repeat vp_step; try reflexivity; lia.
Qed.

Lemma code_vep_convert_core_is_model_l : forall strand sq as1 ae2 ts allele0,
  py_vep_convert_core strand sq as1 ae2 ts allele0
  = convert_core true sq as1 ae2 ts
      (match allele0 with None => None | Some al0 => Some (if strand =? -1 then revcomp al0 else al0) end).
Proof.
  intros strand sq as1 ae2 ts allele0.
  unfold py_vep_convert_core. cbv zeta. unfold option_map. rewrite ?tail_eq.
  unfold convert_core, bind, of_idx. cbv zeta.
  destruct allele0 as [al0|]; cbv iota.
  - (* an allele: SNV / insertions / substitution, after the strand flip *)
    destruct (strand =? -1); cbv iota;
      [generalize (revcomp al0) | generalize al0]; clear al0; intro al;
      rewrite ?last_opt_nth, ?(zlen_length_v _ al); rewrite ?head_nth.
    all: destruct (ae2 - as1 =? 1); [|repeat (first [rewrite tail_eq | vp_step]); reflexivity].
    all: destruct (Z.of_nat (length al) >? 1) eqn:LEN; [|repeat (first [rewrite tail_eq | vp_step]); reflexivity].
    all: destruct al as [|a0 al']; [cbn [length] in LEN; lia|].
    all: repeat (first [rewrite tail_eq | vp_step]); try reflexivity; try lia.
    all: exfalso; match goal with H : nth_error _ _ = None |- _ => apply nth_error_None in H; cbn [length] in H; lia end.
  - (* '-' : deletion *)
    repeat (first [rewrite tail_eq | vp_step]); reflexivity.
Qed.

(* ------------------------------------------------------------------ the whole conversion after the Location parsing *)
Lemma code_vep_convert_is_model_l : forall g t chrom e,
  py_vep_convert g t chrom e = convert true g t chrom e.
Proof.
  intros g t chrom e.
  unfold py_vep_convert, convert, bind. cbv zeta.
  destruct (gene_seq g chrom) as [sq| | | |]; try reflexivity.
  destruct (g2gene g (v_a e - 1)) as [as0| | | |]; try reflexivity.
  destruct (g2gene g (v_b e - 1)) as [ae0| | | |]; try reflexivity.
  destruct (g_strand g =? 1) eqn:S1;
    match goal with |- context [g2gene g ?x] => destruct (g2gene g x) as [ts| | | |]; try reflexivity end;
    match goal with |- context [g2gene g ?x] => destruct (g2gene g x) as [te0| | | |]; try reflexivity end;
    destruct (g_strand g =? -1) eqn:S2; cbv zeta;
    match goal with |- context [convert_core true sq ?a ?b ?c _] =>
      pose proof (code_vep_convert_core_is_model_l (g_strand g) sq a b c (v_allele e)) as A end;
    unfold py_vep_convert_core in A; rewrite S2 in A;
    match goal with |- context [if ?c then ErrStart else _] => destruct c; [reflexivity|] end;
    match goal with |- context [if ?c then ErrStop else _] => destruct c; [reflexivity|] end;
    refine (eq_trans _ A); reflexivity.
Qed.
