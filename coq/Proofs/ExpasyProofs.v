(* Reflective obligations over the regenerated tables (re-checked by vm_compute on every run). *)
From Coq Require Import ZArith List Bool.
From MoPep Require Import Model.Base Model.Rule Model.Digest Model.ExpasyRef Gen.Expasy Gen.Bio.
Import ListNotations.
Open Scope Z_scope.

Definition flatten_alt (a : alt) : list cls := before a ++ [centre a] ++ after a.
Definition flatten_rule (r : rule) : rule2 := map flatten_alt r.

Lemma rules_wellformed_proof : forallb (fun nr => rule_ok (snd nr)) site_rules = true.
Proof. vm_compute. reflexivity. Qed.

Lemma rules_match_reference_proof : site_rules = reference_rules.
Proof. vm_compute. reflexivity. Qed.

Lemma range_rules_flatten_proof :
  range_rules = map (fun nr => (fst nr, flatten_rule (snd nr))) site_rules.
Proof. vm_compute. reflexivity. Qed.

Lemma weights_exact_proof : weights_exact = true.
Proof. reflexivity. Qed.

(* D14 witness: AC | KYA with trypsin + trypsin_exception: CK|Y is suppressed on the whole
   sequence, but the node-local computation cuts after K *)
Definition trypsin_rule : rule :=
  match lookup [116;114;121;112;115;105;110] reference_rules with Some r => r | None => [] end.
Definition trypsin_exc : rule :=
  match lookup [116;114;121;112;115;105;110;95;101;120;99;101;112;116;105;111;110] reference_rules
  with Some r => r | None => [] end.

Lemma nodewise_exception_refuted_proof :
  exists r e a b, sites r (Some e) (a ++ b) <>
                  sites r (Some e) a ++ map (fun j => (j + length a)%nat) (sites r (Some e) b).
Proof.
  exists trypsin_rule, trypsin_exc, [65;67], [75;89;65].
  vm_compute. discriminate.
Qed.
