(* docs/py2coq.md target 27: the bodies of create_mnv_from_adjacent / the scan loop of find_mnvs_from_adjacent_variants
   regenerated from /repo (Gen/Py_mnv.v) equal the hand model (Model/Mnv.v). *)
From Coq Require Import ZArith List Bool Lia ZifyBool.
From MoPep Require Import Model.Base Model.PyRt Model.Mnv Gen.Py_mnv.
Import ListNotations.
Open Scope Z_scope.

Lemma nth_error_last {A} (l : list A) (v : A) : nth_error (v :: l) (length l) = Some (last (v :: l) v).
Proof.
  revert v. induction l as [|b l IH]; intros v; [reflexivity|].
  cbn [length nth_error]. rewrite IH. cbn [last]. destruct l as [|x l]; [reflexivity|].
  clear. revert x. induction l as [|y l IHl]; intros x; [reflexivity|]. cbn [last] in *. apply IHl.
Qed.

Lemma py_index_last {A} (v : A) l : py_index (v :: l) (-1) = Some (last (v :: l) v).
Proof.
  unfold py_index. cbn [Z.ltb Z.compare]. cbn [length].
  destruct (Z.of_nat (S (length l)) + -1 <? 0) eqn:E; [lia|].
  replace (Z.to_nat (Z.of_nat (S (length l)) + -1)) with (length l) by lia. apply nth_error_last.
Qed.

Lemma code_create_mnv_is_model_l : forall variants, py_create_mnv variants = create_mnv variants.
Proof.
  assert (Hloop : forall vs l ids s r a, ids <> [] ->
    py_create_mnv_loop1 vs l ids (Some s) (Some r) (Some a)
    = Continue (ids ++ map m_id l, Some s, Some (r ++ flat_map m_ref l), Some (a ++ flat_map m_alt l))).
  { intros vs. induction l as [|v l IH]; intros ids s r a Hne.
    - cbn. now rewrite !app_nil_r.
    - cbn [py_create_mnv_loop1]. destruct ids as [|i0 ids]; [congruence|].
      rewrite IH by (destruct ids; discriminate). cbn [map flat_map]. now rewrite <- !app_assoc. }
  intros [|v l]; [reflexivity|].
  unfold py_create_mnv. cbn [py_create_mnv_loop1]. rewrite Hloop by discriminate.
  rewrite py_index_last. reflexivity.
Qed.

(* ------------------------------------------------------------------ the scan of one comb *)
Lemma zlen_len {A} (l : list A) : zlen l = Z.of_nat (length l).
Proof. induction l as [|x l IH]; cbn [zlen length]; [reflexivity|]. rewrite IH. lia. Qed.

Lemma skipn_nth {A} (l : list A) n v : nth_error l n = Some v -> skipn n l = v :: skipn (S n) l.
Proof.
  revert l. induction n as [|n IH]; intros [|x l] H; try discriminate.
  - cbn in H. injection H as ->. reflexivity.
  - cbn [nth_error] in H. cbn [skipn]. rewrite (IH l H). reflexivity.
Qed.

Lemma code_mnv_scan_is_model_l : forall variants type0 comb i_t v_t, nthZ variants i_t = Some v_t ->
  py_mnv_scan variants type0 comb i_t
  = Some (scan type0 (m_end v_t) comb (i_t + 1) (skipn (Z.to_nat (i_t + 1)) variants)).
Proof.
  intros vs c0 comb i_t v_t Ht.
  assert (Hloop : forall n j acc, 0 <= j -> j + Z.of_nat n = zlen vs ->
    py_mnv_scan_loop1 vs c0 comb i_t v_t (range_from j n) acc
    = Continue (acc ++ scan c0 (m_end v_t) comb j (skipn (Z.to_nat j) vs))).
  { induction n as [|n IH]; intros j acc Hj Hn.
    - rewrite zlen_len in Hn. rewrite skipn_all2 by lia. cbn. now rewrite app_nil_r.
    - cbn [range_from py_mnv_scan_loop1]. unfold py_index. destruct (j <? 0) eqn:E; [lia|].
      rewrite zlen_len in Hn.
      destruct (nth_error vs (Z.to_nat j)) as [v|] eqn:Ev.
      2:{ apply nth_error_None in Ev. lia. }
      rewrite (skipn_nth _ _ _ Ev). replace (S (Z.to_nat j)) with (Z.to_nat (j + 1)) by lia.
      cbn [scan]. assert (Hn' : j + 1 + Z.of_nat n = zlen vs) by (rewrite zlen_len; lia).
      repeat match goal with |- context [if ?b then _ else _] => let E := fresh "E" in destruct b eqn:E end;
        try lia;
        first [ apply IH; [lia | exact Hn'] | now rewrite app_nil_r
              | rewrite IH by (try lia; exact Hn'); now rewrite <- app_assoc ]. }
  unfold py_mnv_scan. unfold nthZ in Ht. destruct (i_t <? 0) eqn:E; [discriminate|].
  unfold py_index. rewrite E, Ht.
  assert (Hlt : Z.of_nat (Z.to_nat i_t) < Z.of_nat (length vs)) by (apply Nat2Z.inj_lt, nth_error_Some; congruence).
  unfold py_range. rewrite Hloop; [reflexivity | lia | rewrite zlen_len; lia].
Qed.

(* with the guard `if i_t >= len(variants) - 1: continue` of the enclosing loop: Mnv.extend *)
Lemma code_mnv_extend_is_model_l : forall variants type0 comb,
  0 <= last comb 0 < zlen variants - 1 ->
  py_mnv_scan variants type0 comb (last comb 0) = Some (extend variants type0 comb).
Proof.
  intros vs c0 comb H. unfold extend. destruct (last comb 0 >=? zlen vs - 1) eqn:E; [lia|].
  destruct (nthZ vs (last comb 0)) as [v_t|] eqn:Et; [exact (code_mnv_scan_is_model_l vs c0 comb _ v_t Et)|].
  exfalso. unfold nthZ in Et. destruct (last comb 0 <? 0) eqn:E1; [lia|]. apply nth_error_None in Et.
  rewrite zlen_len in H. lia.
Qed.
