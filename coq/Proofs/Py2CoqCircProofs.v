(* Equality of CIRCexplorer2KnownRecord.convert_to_circ_rna, as GENERATED from /repo's source by
   harness/translate/py2coq.py (coq/Gen/Py_CIRCexplorerParser.v), with Circ.convert_circ.
   Hypothesis ce_start r <= ce_end r: the code builds FeatureLocation(start_gene, end_gene) for the back-splicing
   site, which raises ValueError for end < start; the hand model has no such check (it only matters for a malformed row
   whose end lies before its start).  docs/py2coq.md. *)
From Coq Require Import ZArith List Bool Lia ZifyBool.
From MoPep Require Import Model.Base Model.PyRt Model.Vep Model.Circ Gen.Py_CIRCexplorerParser.
Import ListNotations.
Open Scope Z_scope.

Lemma py_index_nat : forall A (l : list A) i, py_index l (Z.of_nat i) = nth_error l i.
Proof. intros. unfold py_index. destruct (Z.of_nat i <? 0) eqn:C; [lia|]. rewrite Nat2Z.id. reflexivity. Qed.

(* what one run of the block loop returns, given what the model's loop returns *)
Definition loop_spec (m : cres (list (Z * Z) * list Z)) (intr : list Z) (fr : list (Z * Z))
  : lres (list Z * list (Z * Z)) (cres circ) :=
  match m with
  | COk (f, n) => Continue (intr ++ n, fr ++ f)
  | CErrValue => Done CErrValue | CErrExon => Done CErrExon | CErrIntron => Done CErrIntron | CErrIndex => Done CErrIndex
  end.

Lemma code_convert_circ_is_model_l : forall a r sr er, ce_start r <= ce_end r ->
  py_convert_circ a r sr er = convert_circ a r sr er.
Proof.
  intros a r sr er LE.
  assert (LOOP : forall ft, ft = ce_type r -> (ft = 0 \/ ft = 1) ->
    forall (sizes : list Z) (i : nat) intr fr,
    py_convert_circ_loop1 a r sr er (g_strand (ca_gene a)) ft sizes (Z.of_nat i) intr fr
    = loop_spec (blocks_loop a r sr er sizes i) intr fr).
  { intros ft FT F01. induction sizes as [|size rest IH]; intros i intr fr.
    - cbn [py_convert_circ_loop1 blocks_loop loop_spec]. rewrite !app_nil_r. reflexivity.
    - cbn [py_convert_circ_loop1 blocks_loop]. cbv zeta. rewrite py_index_nat.
      destruct (nth_error (ce_offsets r) i) as [off|]; [|reflexivity].
      unfold block_fragment, cbind at 1 2.
      destruct (of_res (g2gene (ca_gene a) (ce_start r + off))) as [s0| | | |]; try reflexivity.
      replace (ce_start r + off + size - 1) with (ce_start r + off + size - 1) by lia.
      destruct (of_res (g2gene (ca_gene a) (ce_start r + off + size - 1))) as [e0| | | |]; try reflexivity.
      assert (STEP : forall s1 e1,
        (match (if e1 <? s1 then None else Some (s1, e1)) with
         | None => Done CErrValue
         | Some fg =>
             if ft =? 0 then
               match find_exon_index a fg with
               | None => Done CErrExon
               | Some _ => py_convert_circ_loop1 a r sr er (g_strand (ca_gene a)) ft rest (Z.of_nat i + 1) intr (fr ++ [fg])
               end
             else if ft =? 1 then
               match find_intron_index a fg sr er with
               | COk _ => py_convert_circ_loop1 a r sr er (g_strand (ca_gene a)) ft rest (Z.of_nat i + 1)
                            (intr ++ [Z.of_nat i]) (fr ++ [fg])
               | CErrValue => Done CErrValue | CErrExon => Done CErrExon | CErrIntron => Done CErrIntron
               | CErrIndex => Done CErrIndex
               end
             else py_convert_circ_loop1 a r sr er (g_strand (ca_gene a)) ft rest (Z.of_nat i + 1) intr (fr ++ [fg])
         end)
        = loop_spec
            (cbind (if e1 <? s1 then CErrValue else COk (s1, e1)) (fun fg =>
             cbind (if ce_type r =? 0 then
                      match find_exon_index a fg with Some _ => COk false | None => CErrExon end
                    else cbind (find_intron_index a fg sr er) (fun _ => COk true)) (fun is_intron =>
             cbind (blocks_loop a r sr er rest (S i)) (fun more =>
             COk (fg :: fst more, if is_intron then Z.of_nat i :: snd more else snd more))))) intr fr).
      { intros s1 e1. replace (Z.of_nat i + 1) with (Z.of_nat (S i)) by lia. rewrite <- FT.
        destruct (e1 <? s1); [reflexivity|]. unfold cbind at 1.
        destruct F01 as [-> | ->]; cbn [Z.eqb Pos.eqb]; cbv iota.
        - destruct (find_exon_index a (s1, e1)); [|reflexivity]. unfold cbind at 1.
          rewrite IH. unfold cbind, loop_spec. destruct (blocks_loop a r sr er rest (S i)) as [[f n]| | | |]; try reflexivity.
          cbn [fst snd]. rewrite <- app_assoc. reflexivity.
        - unfold cbind at 1 2. destruct (find_intron_index a (s1, e1) sr er); try reflexivity.
          rewrite IH. unfold cbind, loop_spec. destruct (blocks_loop a r sr er rest (S i)) as [[f n]| | | |]; try reflexivity.
          cbn [fst snd]. rewrite <- !app_assoc. reflexivity. }
      destruct (g_strand (ca_gene a) =? -1); apply STEP. }
  unfold py_convert_circ, convert_circ. cbv zeta.
  assert (FIN : forall fr intr,
    match of_res (g2gene (ca_gene a) (ce_start r)) with
    | COk s0 =>
        match of_res (g2gene (ca_gene a) (ce_end r - 1)) with
        | COk e0 =>
            if g_strand (ca_gene a) =? -1
            then match (if s0 + 1 <? e0 then None else Some (e0, s0 + 1)) with
                 | None => CErrValue | Some b => COk (mkCirc fr intr (fst b) (snd b)) end
            else match (if e0 + 1 <? s0 then None else Some (s0, e0 + 1)) with
                 | None => CErrValue | Some b => COk (mkCirc fr intr (fst b) (snd b)) end
        | CErrValue => CErrValue | CErrExon => CErrExon | CErrIntron => CErrIntron | CErrIndex => CErrIndex
        end
    | CErrValue => CErrValue | CErrExon => CErrExon | CErrIntron => CErrIntron | CErrIndex => CErrIndex
    end
    = cbind (of_res (g2gene (ca_gene a) (ce_start r))) (fun s0 =>
      cbind (of_res (g2gene (ca_gene a) (ce_end r - 1))) (fun e0 =>
      let s1 := if g_strand (ca_gene a) =? -1 then e0 else s0 in
      let e1 := (if g_strand (ca_gene a) =? -1 then s0 else e0) + 1 in
      COk (mkCirc fr intr s1 e1)))).
  { intros fr intr. unfold cbind, of_res, g2gene. cbv zeta.
    repeat match goal with |- context [if ?c then _ else _] => destruct c eqn:? end;
      cbn [fst snd]; try reflexivity; try lia. }
  destruct (ce_type r =? 0) eqn:T0; cbn [orb negb].
  - pose proof (LOOP 0 ltac:(lia) ltac:(auto) (ce_sizes r) 0%nat [] []) as L0. cbn [Z.of_nat] in L0. rewrite L0.
    unfold cbind at 1. destruct (blocks_loop a r sr er (ce_sizes r) 0) as [[f n]| | | |]; cbn [loop_spec app fst snd]; try reflexivity.
    apply FIN.
  - destruct (ce_type r =? 1) eqn:T1; cbn [negb]; [|reflexivity].
    pose proof (LOOP 1 ltac:(lia) ltac:(auto) (ce_sizes r) 0%nat [] []) as L1. cbn [Z.of_nat] in L1. rewrite L1.
    unfold cbind at 1. destruct (blocks_loop a r sr er (ce_sizes r) 0) as [[f n]| | | |]; cbn [loop_spec app fst snd]; try reflexivity.
    apply FIN.
Qed.
