(* Concrete witnesses for C20: the two refutations on the faithful model of the unchanged
   code and satisfiability examples.  Uses the regenerated rule table (Gen/Expasy.v). *)
From Coq Require Import ZArith List Bool Lia Permutation Arith.
From MoPep Require Import Model.Base Model.Rule Model.Digest Model.Decoy Gen.Expasy Gen.DecoyCli Proofs.DecoyProofs.
Import ListNotations.
Open Scope nat_scope.

Definition out_of (r : result output) : output :=
  match r with Ok o => o | _ => mkOut [] [] [] 0 0%Z [] end.

Definition trypsin_name : list Z := [116; 114; 121; 112; 115; 105; 110]%Z.
Definition trypsin_exc_name : list Z := (trypsin_name ++ [95; 101; 120; 99; 101; 112; 116; 105; 111; 110])%Z.

(* --enzyme trypsin --method reverse, everything else default.  shift 0 / no exception = the
   unchanged code;  shift 1 / trypsin_exception = the proposed repair *)
Definition cfg_unchanged : config :=
  mkCfg 0 (lookup trypsin_name site_rules) None 0 true true [[]] 30
        [68; 69; 67; 79; 89; 95]%Z true 0 false.
Definition cfg_repaired : config :=
  mkCfg 0 (lookup trypsin_name site_rules) (lookup trypsin_exc_name site_rules) 1 true true [[]] 30
        [68; 69; 67; 79; 89; 95]%Z true 0 false.

Definition AKCDE : rec := ([84]%Z, [65; 75; 67; 68; 69]%Z).
Definition id_sample (k : nat) (l : list nat) : list nat := l.

(* D7: target AKCDE, trypsin.  The cleavage residue K (position 1) must stay, the unchanged code
   keeps position 2 instead and produces ADCKE. *)
Lemma decoy_fixed_kept_refuted_l :
  exists cfg targets o t d q,
    c_shift cfg = 0 /\ run id_sample cfg targets = Ok o /\
    o_targets o = [t] /\ o_decoys o = [d] /\
    must_keep cfg (r_seq t) q /\ nth_error (r_seq d) q <> nth_error (r_seq t) q.
Proof.
  exists cfg_unchanged, [AKCDE], (out_of (run id_sample cfg_unchanged [AKCDE])), AKCDE,
         ([68; 69; 67; 79; 89; 95; 84]%Z, [65; 68; 67; 75; 69]%Z), 1.
  split; [reflexivity|]. split; [vm_compute; reflexivity|].
  split; [vm_compute; reflexivity|]. split; [vm_compute; reflexivity|].
  split.
  - split; [cbn; lia|]. right; right; right.
    eexists; exists 2. split; [vm_compute; reflexivity|]. split; [vm_compute; left; reflexivity | reflexivity].
  - vm_compute. discriminate.
Qed.

(* the same input on the repaired model: AKDCE, K kept *)
Example repaired_example :
  run id_sample cfg_repaired [AKCDE] =
  Ok (mkOut [AKCDE; ([68; 69; 67; 79; 89; 95; 84]%Z, [65; 75; 68; 67; 69]%Z)] [AKCDE]
            [([68; 69; 67; 79; 89; 95; 84]%Z, [65; 75; 68; 67; 69]%Z)] 0 0%Z []).
Proof. vm_compute. reflexivity. Qed.

(* a sampler that is a permutation for every call: rotation by the call number *)
Definition rot_sample (k : nat) (l : list nat) : list nat :=
  skipn (k mod length l) l ++ firstn (k mod length l) l.

Lemma rot_sample_perm : forall k l, Permutation (rot_sample k l) l.
Proof.
  intros. unfold rot_sample.
  eapply Permutation_trans; [apply Permutation_app_comm|]. rewrite firstn_skipn. apply Permutation_refl.
Qed.

Definition cfg_shuffle : config :=
  mkCfg 1 None None 0 false false [[]] 30 [68]%Z true 1 false.
Definition dupA : rec := ([97]%Z, [65; 66; 67]%Z).
Definition dupB : rec := ([98]%Z, [65; 66; 67]%Z).

(* C20-dup-order: two targets with the same sequence under different headers, --method shuffle.
   The stable sort by sequence keeps the input order, so the k-th draw goes to whichever record
   comes first: record (Da, BCA) is written for input a,b but not for input b,a. *)
Lemma order_independent_refuted_l :
  exists sample cfg ts ts' o o' r,
    (forall k l, Permutation (sample k l) l) /\ c_keyhdr cfg = false /\ c_method cfg = 1%Z /\
    Permutation ts ts' /\ run sample cfg ts = Ok o /\ run sample cfg ts' = Ok o' /\
    In r (o_records o) /\ ~ In r (o_records o').
Proof.
  exists rot_sample, cfg_shuffle, [dupA; dupB], [dupB; dupA],
         (out_of (run rot_sample cfg_shuffle [dupA; dupB])),
         (out_of (run rot_sample cfg_shuffle [dupB; dupA])),
         ([68; 97]%Z, [66; 67; 65]%Z).
  split; [exact rot_sample_perm|]. split; [reflexivity|]. split; [reflexivity|].
  split; [apply perm_swap|]. split; [vm_compute; reflexivity|]. split; [vm_compute; reflexivity|].
  split.
  - vm_compute. right; right; left; reflexivity.
  - vm_compute. intros [H|[H|[H|[H|[]]]]]; discriminate H.
Qed.

(* with the repaired sort key the same two inputs give the same run *)
Example repaired_order_example :
  let cfg := mkCfg 1 None None 0 false false [[]] 30 [68]%Z true 1 true in
  run rot_sample cfg [dupA; dupB] = run rot_sample cfg [dupB; dupA] /\
  exists o, run rot_sample cfg [dupA; dupB] = Ok o /\ length (o_records o) = 4.
Proof. split; [vm_compute; reflexivity|]. eexists; split; [vm_compute; reflexivity | reflexivity]. Qed.

(* ------------------------------------------------------------------ tie to the CLI tables *)
Definition name_reverse : list Z := [114; 101; 118; 101; 114; 115; 101]%Z.
Definition name_shuffle : list Z := [115; 104; 117; 102; 102; 108; 101]%Z.
Definition name_juxtaposed : list Z := [106; 117; 120; 116; 97; 112; 111; 115; 101; 100]%Z.
Definition name_target_first : list Z := [116; 97; 114; 103; 101; 116; 95; 102; 105; 114; 115; 116]%Z.
Definition name_decoy_first : list Z := [100; 101; 99; 111; 121; 95; 102; 105; 114; 115; 116]%Z.

Lemma cli_options_modelled_l :
  handled_methods = [name_reverse; name_shuffle] /\
  handled_orders = [name_juxtaposed; name_target_first; name_decoy_first] /\
  forallb (fun m => mem_seq m handled_methods) cli_methods = true /\
  forallb (fun m => mem_seq m handled_orders) cli_orders = true /\
  (site_index_shift = 0 \/ site_index_shift = 1)%Z.
Proof.
  split; [reflexivity|]. split; [reflexivity|]. split; [vm_compute; reflexivity|].
  split; [vm_compute; reflexivity|]. first [left; reflexivity | right; reflexivity].
Qed.

(* ------------------------------------------------------------------ the code is the specified one
   The property-side specification is fixed here, not read from the code: fixed index = the
   cleavage residue (shift 1), exception = trypsin_exception, targets sorted by
   (sequence, FULL header) before seeding.  cfg_spec_ok says a model configuration has exactly
   these switches; code_matches_spec_l says the switches translated from the current source are
   these.  A code change to any of them (e.g. sorting by (seq, id)) breaks the obligation. *)
Definition spec_switches (cfg : config) : Prop := c_shift cfg = 1 /\ c_keyhdr cfg = true.

Lemma code_matches_spec_l :
  site_index_shift = 1%Z /\ trypsin_exception_literal = trypsin_exc_name /\ sort_key_variant = 1%Z.
Proof. split; [reflexivity|]. split; reflexivity. Qed.
