(* Proofs about the alt-translation flags on top of the reference semantics (Model/SpecAlt.v). *)
From Coq Require Import ZArith List Bool Lia ZifyBool.
From MoPep Require Import Model.Base Model.Rule Model.Digest Model.Spec Model.SpecStmt Model.W2F
                          Model.SpecAlt Model.SpecAltStmt Gen.Bio Proofs.DigestProofs Proofs.SpecProofs Proofs.W2FProofs.
Import ListNotations.
Open Scope Z_scope.

Lemma u_pos_from_spec : forall p i j,
  In j (u_pos_from i p) <-> (i <= j)%nat /\ nth_error p (j - i) = Some Spec.U_code.
Proof.
  induction p as [|c r IH]; intros i j; cbn [u_pos_from].
  - split; [intros []|]. intros [_ H]. destruct (j - i)%nat; discriminate.
  - rewrite in_app_iff, IH. split.
    + intros [H|[H1 H2]].
      * destruct (c =? Spec.U_code) eqn:E; [|destruct H]. destruct H as [<-|[]].
        split; [lia|]. rewrite Nat.sub_diag. cbn. f_equal. lia.
      * split; [lia|]. replace (j - i)%nat with (S (j - S i)) by lia. exact H2.
    + intros [H1 H2]. destruct (Nat.eq_dec i j) as [->|Hne].
      * left. rewrite Nat.sub_diag in H2. cbn in H2. injection H2 as ->.
        rewrite Z.eqb_refl. left. reflexivity.
      * right. split; [lia|]. replace (j - i)%nat with (S (j - S i)) in H2 by lia. exact H2.
Qed.

Lemma u_pos_spec : forall p j, In j (u_pos p) <-> nth_error p j = Some Spec.U_code.
Proof.
  intros p j. unfold u_pos. rewrite u_pos_from_spec, Nat.sub_0_r. split; [tauto|]. split; [lia|auto].
Qed.

Lemma sect_forms_spec : forall x q p, In p (sect_forms x q) <-> SectForm x q p.
Proof.
  intros x q p. unfold sect_forms, SectForm. rewrite filter_In, in_map_iff. split.
  - intros [(k & <- & Hk) Hkeep]. exists k. rewrite <- u_pos_spec. auto.
  - intros (k & Hk & -> & Hkeep). split; auto. exists k. rewrite u_pos_spec. auto.
Qed.

Lemma w2f_forms_spec : forall x q p, In p (w2f_forms x q) <-> W2FForm x q p.
Proof.
  intros x q p. unfold w2f_forms, W2FForm. rewrite filter_In, w2f_enum. split.
  - intros [(S & H1 & H2 & ->) Hk]. exists S. auto.
  - intros (S & H1 & H2 & -> & Hk). split; auto. exists S. auto.
Qed.

Lemma alt_closure_spec : forall fl x ps raw p,
  In p (alt_closure fl x ps raw) <-> AltForm fl x ps raw p.
Proof.
  intros fl x ps raw p. unfold alt_closure, AltForm. cbn zeta.
  assert (HB: forall b, In b (ps ++ (if f_sect fl then flat_map (sect_forms x) raw else [])) <->
                        (In b ps \/ (f_sect fl = true /\ exists q, In q raw /\ SectForm x q b))).
  { intros b. rewrite in_app_iff. destruct (f_sect fl).
    - rewrite in_flat_map. split.
      + intros [H|(q & Hq & H)]; auto. right. split; auto. exists q. rewrite <- sect_forms_spec. auto.
      + intros [H|(_ & q & Hq & H)]; auto. right. exists q. rewrite sect_forms_spec. auto.
    - cbn [In]. split; [intros [H|[]]; auto|]. intros [H|(H & _)]; auto. discriminate. }
  rewrite in_app_iff, HB. destruct (f_w2f fl).
  - rewrite in_flat_map. split.
    + intros [H|(b & Hb & H)]; auto. right. split; auto. exists b. rewrite <- HB, <- w2f_forms_spec. auto.
    + intros [H|(_ & b & Hb & H)]; auto. right. exists b. rewrite HB, w2f_forms_spec. auto.
  - cbn [In]. split; [intros [H|[]]; auto|]. intros [H|(H & _)]; auto. discriminate.
Qed.

Lemma hap_of_spec : forall x strict h, In h (haplotypes strict (in_vars x)) <-> hap_of x strict h.
Proof. intros. apply haplotypes_spec. Qed.

Lemma realizable_fl_iff_lemma : forall fl x p, realizable_fl fl x p = true <-> RealizableFl fl x p.
Proof.
  intros fl x p. unfold realizable_fl, RealizableFl, may_set_fl, may_products_fl.
  rewrite sp_mem_seq_In, in_flat_map. split.
  - intros (h & Hh & Hp). exists h. rewrite <- hap_of_spec, <- alt_closure_spec. auto.
  - intros (h & Hh & Hp). exists h. rewrite hap_of_spec, alt_closure_spec. auto.
Qed.

Lemma novel_fl_spec : forall fl x p,
  novel_fl fl x p = true <->
  ~ AltForm fl x (may_products x []) (may_products (unlimited x) []) p /\ ~ In p (in_pool x).
Proof.
  intros fl x p. unfold novel_fl, ref_products_fl, may_products_fl.
  rewrite andb_true_iff, !negb_true_iff, !sp_mem_seq_false, alt_closure_spec. tauto.
Qed.

Lemma must_fl_sound_complete_lemma : forall fl x p, In p (must_set_fl fl x) <-> MustReportFl fl x p.
Proof.
  intros fl x p. unfold must_set_fl, MustReportFl, must_haps, must_products_fl.
  rewrite filter_In, novel_fl_spec, in_flat_map. split.
  - intros [(h & Hh & Hp) Hn]. split; auto.
    apply filter_In in Hh as [Hh Hm]. apply must_hap_spec in Hm as [Hm Hr].
    exists h. rewrite <- hap_of_spec, <- alt_closure_spec. auto.
  - intros [(h & Hh & Hm & Hr & Hp) Hn]. split; auto.
    exists h. split.
    + apply filter_In. split; [apply hap_of_spec; auto | apply must_hap_spec; auto].
    + apply alt_closure_spec; auto.
Qed.

(* flags off: nothing changes *)
Lemma alt_closure_off : forall x ps raw p, In p (alt_closure (mkFlags false false) x ps raw) <-> In p ps.
Proof. intros. unfold alt_closure. cbn. rewrite !app_nil_r. tauto. Qed.

Lemma flags_off_must_lemma : forall x p, In p (must_set_fl (mkFlags false false) x) <-> In p (must_set x).
Proof.
  intros x p. unfold must_set_fl, must_set, must_products_fl. rewrite !filter_In, !in_flat_map.
  assert (Hn: novel_fl (mkFlags false false) x p = novel x p).
  { unfold novel_fl, novel, ref_products_fl, may_products_fl, ref_products.
    destruct (mem_seq p (alt_closure (mkFlags false false) x (may_products x []) (may_products (unlimited x) []))) eqn:E1;
    destruct (mem_seq p (may_products x [])) eqn:E2; auto.
    - apply sp_mem_seq_In, alt_closure_off, sp_mem_seq_In in E1. congruence.
    - apply sp_mem_seq_In in E2. rewrite <- (alt_closure_off x _ (may_products (unlimited x) [])) in E2.
      apply sp_mem_seq_In in E2. congruence. }
  rewrite Hn. split; intros [(h & Hh & Hp) Hv]; (split; [exists h; split; auto|auto]).
  - apply alt_closure_off in Hp. exact Hp.
  - apply alt_closure_off. exact Hp.
Qed.

Lemma flags_off_realizable_lemma : forall x p, realizable_fl (mkFlags false false) x p = realizable x p.
Proof.
  intros x p. unfold realizable_fl, realizable, may_set_fl, may_set, may_products_fl.
  destruct (mem_seq p (flat_map (may_products x) (haplotypes false (in_vars x)))) eqn:E.
  - apply sp_mem_seq_In. apply sp_mem_seq_In in E. apply in_flat_map in E as (h & Hh & Hp).
    apply in_flat_map. exists h. split; auto. apply alt_closure_off. exact Hp.
  - apply sp_mem_seq_false. apply sp_mem_seq_false in E. intros H. apply E.
    apply in_flat_map in H as (h & Hh & Hp). apply in_flat_map. exists h. split; auto.
    apply alt_closure_off in Hp. exact Hp.
Qed.

(* everything obliged under the flags is realizable under the flags *)
Lemma sublist_products : forall x h p, forallb (must_var x) h = true ->
  In p (must_products x h) -> In p (may_products x h).
Proof.
  intros x h p Hm Hp. apply must_products_spec in Hp as (st & Hst & Hp).
  apply may_products_spec. exists st, (map (shift h) (in_sec x)). repeat split.
  - unfold may_starts, must_starts in *. destruct (in_coding x) eqn:Ec; auto.
    rewrite (shift_must x _ Ec Hm). auto.
  - rewrite (may_secs_must x _ Hm). left. reflexivity.
  - eapply Product_weaken; eauto.
Qed.

Lemma must_var_unlimited : forall x v, must_var (unlimited x) v = must_var x v.
Proof. intros. reflexivity. Qed.

Lemma AltForm_mono : forall fl x ps raw ps' raw' p,
  (forall q, In q ps -> In q ps') -> (forall q, In q raw -> In q raw') ->
  AltForm fl x ps raw p -> AltForm fl x ps' raw' p.
Proof.
  intros fl x ps raw ps' raw' p H1 H2. unfold AltForm. cbn zeta.
  assert (HB: forall b, (In b ps \/ (f_sect fl = true /\ exists q, In q raw /\ SectForm x q b)) ->
                        (In b ps' \/ (f_sect fl = true /\ exists q, In q raw' /\ SectForm x q b))).
  { intros b [H|(Hs & q & Hq & H)]; auto. right. split; auto. exists q. auto. }
  intros [H|(Hw & b & Hb & H)]; auto. right. split; auto. exists b. auto.
Qed.

Lemma must_fl_sub_may_lemma : forall fl x p, In p (must_set_fl fl x) -> realizable_fl fl x p = true.
Proof.
  intros fl x p H. apply must_fl_sound_complete_lemma in H as [(h & Hh & Hm & _ & Hp) _].
  apply realizable_fl_iff_lemma. exists h. split.
  - destruct Hh as (m & Hl & -> & Hn & Hc). exists m. repeat split; auto. apply pairwise_weaken; auto.
  - eapply AltForm_mono; [| |exact Hp].
    + intros q Hq. apply sublist_products; auto.
    + intros q Hq. apply (sublist_products (unlimited x)); auto.
Qed.

Lemma witness_ok_fl_iff_lemma : forall x p ids sect w2f,
  witness_ok_fl x p ids sect w2f = true <-> WitnessFl x p ids sect w2f.
Proof.
  intros x p ids sect w2f. unfold witness_ok_fl, WitnessFl, ids_ok. cbn zeta.
  rewrite !andb_true_iff, forallb_forall, sp_mem_seq_In.
  set (h := named x ids).
  assert (HB: forall b, In b (if sect then flat_map (sect_forms x) (may_products (unlimited x) h) else may_products x h) <->
                        (if sect then exists q, In q (may_products (unlimited x) h) /\ SectForm x q b
                         else In b (may_products x h))).
  { intros b. destruct sect; [|tauto]. rewrite in_flat_map. split.
    - intros (q & Hq & H). exists q. rewrite <- sect_forms_spec. auto.
    - intros (q & Hq & H). exists q. rewrite sect_forms_spec. auto. }
  assert (HP: In p (if w2f then flat_map (w2f_forms x) (if sect then flat_map (sect_forms x) (may_products (unlimited x) h) else may_products x h)
                    else (if sect then flat_map (sect_forms x) (may_products (unlimited x) h) else may_products x h)) <->
              exists b, (if sect then exists q, In q (may_products (unlimited x) h) /\ SectForm x q b
                         else In b (may_products x h)) /\ (if w2f then W2FForm x b p else p = b)).
  { destruct w2f.
    - rewrite in_flat_map. split.
      + intros (b & Hb & H). exists b. rewrite <- HB, <- w2f_forms_spec. auto.
      + intros (b & Hb & H). exists b. rewrite HB, w2f_forms_spec. auto.
    - rewrite HB. split.
      + intros H. exists p. auto.
      + intros (b & Hb & ->). auto. }
  rewrite HP. split.
  - intros [Hi [[Hn Hc] Hp]]. repeat split; auto. intros i Hin. apply Nat.ltb_lt. auto.
  - intros [Hi [Hn [Hc Hp]]]. repeat split; auto. intros i Hin. apply Nat.ltb_lt. auto.
Qed.
