(* C16 proofs: records emitted by the parseRMATS model reproduce the alternative isoform. *)
From Coq Require Import ZArith List Bool Lia ZifyBool.
From MoPep Require Import Model.Base Model.Rmats.
Import ListNotations.
Open Scope Z_scope.

(* ------------------------------------------------------------------ well-formedness *)
(* exons are non-empty, ascending, separated by at least one intronic base, inside [lo, hi] *)
Fixpoint chain (lo : Z) (ex : list exon) (hi : Z) : Prop :=
  match ex with
  | [] => True
  | x :: t => lo <= fst x /\ fst x < snd x /\ snd x <= hi /\ chain (snd x + 1) t hi
  end.

Lemma chain_weaken : forall ex lo lo' hi, chain lo ex hi -> lo' <= lo -> chain lo' ex hi.
Proof. destruct ex; cbn; intuition lia. Qed.

Lemma chain_bounds : forall ex lo hi x, chain lo ex hi -> In x ex -> lo <= fst x /\ fst x < snd x /\ snd x <= hi.
Proof.
  induction ex; cbn; intros; [tauto|].
  destruct H as (?&?&?&?). destruct H0; [subst; lia|].
  specialize (IHex _ _ _ H3 H0). lia.
Qed.

Lemma chain_app : forall pre rest lo hi, chain lo (pre ++ rest) hi ->
  chain lo pre hi /\ (forall x y, In x pre -> In y rest -> snd x < fst y) /\
  exists lo', lo <= lo' /\ chain lo' rest hi /\ (forall x, In x pre -> snd x < lo').
Proof.
  induction pre; cbn; intros.
  - split; [tauto|]. split; [tauto|]. exists lo. split; [lia|]. split; [assumption|tauto].
  - destruct H as (?&?&?&?). destruct (IHpre _ _ _ H2) as (A & B & lo' & C & D & E).
    split; [tauto|]. split.
    + intros x y [<-|Hx] Hy.
      * pose proof (chain_bounds _ _ _ _ D Hy). lia.
      * auto.
    + exists lo'. split; [lia|]. split; [assumption|].
      intros x [<-|Hx]; [lia|auto].
Qed.

Lemma chain_tail_after : forall rest lo hi x y, chain lo (x :: rest) hi -> In y rest -> snd x < fst y.
Proof.
  intros. cbn in H. destruct H as (?&?&?&?).
  pose proof (chain_bounds _ _ _ _ H3 H0). lia.
Qed.

(* ------------------------------------------------------------------ lists / indices *)
Lemma zlength_nil : forall A, @zlength A [] = 0. Proof. reflexivity. Qed.
Lemma zlength_cons : forall A (x : A) l, zlength (x :: l) = zlength l + 1.
Proof. intros. unfold zlength. cbn [length]. lia. Qed.
Lemma zlength_app : forall A (a b : list A), zlength (a ++ b) = zlength a + zlength b.
Proof. intros. unfold zlength. rewrite app_length. lia. Qed.
Lemma zlength_nonneg : forall A (l : list A), 0 <= zlength l.
Proof. intros. unfold zlength. lia. Qed.

Lemma find_start_skip : forall (pre rest : list exon) v i, (forall x, In x pre -> fst x <> v) ->
  find_start (pre ++ rest) v i = find_start rest v (i + zlength pre).
Proof.
  induction pre; intros; cbn [app find_start].
  - rewrite zlength_nil. f_equal. lia.
  - destruct a as [a b]. pose proof (H (a, b) (or_introl eq_refl)). cbn in H0.
    destruct (a =? v) eqn:E; [lia|].
    rewrite IHpre by (intros; apply H; right; assumption).
    rewrite zlength_cons. f_equal. lia.
Qed.
Lemma find_end_skip : forall (pre rest : list exon) v i, (forall x, In x pre -> snd x <> v) ->
  find_end (pre ++ rest) v i = find_end rest v (i + zlength pre).
Proof.
  induction pre; intros; cbn [app find_end].
  - rewrite zlength_nil. f_equal. lia.
  - destruct a as [a b]. pose proof (H (a, b) (or_introl eq_refl)). cbn in H0.
    destruct (b =? v) eqn:E; [lia|].
    rewrite IHpre by (intros; apply H; right; assumption).
    rewrite zlength_cons. f_equal. lia.
Qed.
Lemma find_containing_skip : forall (pre rest : list exon) p i, (forall x, In x pre -> inside x p = false) ->
  find_containing (pre ++ rest) p i = find_containing rest p (i + zlength pre).
Proof.
  induction pre; intros; cbn [app find_containing].
  - rewrite zlength_nil. f_equal. lia.
  - rewrite (H a (or_introl eq_refl)).
    rewrite IHpre by (intros; apply H; right; assumption).
    rewrite zlength_cons. f_equal. lia.
Qed.
Lemma find_start_none : forall (l : list exon) v i, (forall x, In x l -> fst x <> v) -> find_start l v i = -1.
Proof.
  intros. rewrite <- (app_nil_r l). rewrite find_start_skip by assumption. reflexivity.
Qed.
Lemma find_end_none : forall (l : list exon) v i, (forall x, In x l -> snd x <> v) -> find_end l v i = -1.
Proof.
  intros. rewrite <- (app_nil_r l). rewrite find_end_skip by assumption. reflexivity.
Qed.
Lemma find_containing_none : forall (l : list exon) p i, (forall x, In x l -> inside x p = false) -> find_containing l p i = -1.
Proof.
  intros. rewrite <- (app_nil_r l). rewrite find_containing_skip by assumption. reflexivity.
Qed.
Lemma first_containing_bwd_none : forall (l : list exon) p i, (forall x, In x l -> inside x p = false) -> first_containing_bwd l p i = -1.
Proof.
  induction l; intros; cbn; [reflexivity|].
  rewrite (H a (or_introl eq_refl)). apply IHl. intros; apply H; right; assumption.
Qed.

Lemma suffix_app : forall (pre rest : list exon) k, 0 <= k ->
  suffix (pre ++ rest) (zlength pre + k) = suffix rest k.
Proof.
  intros. unfold suffix, zlength.
  replace (Z.to_nat (Z.of_nat (length pre) + k)) with (length pre + Z.to_nat k)%nat by lia.
  rewrite skipn_app. rewrite skipn_all2 by lia. cbn [app].
  f_equal. lia.
Qed.
Lemma prefix_app : forall (pre rest : list exon) k, 0 <= k ->
  prefix (pre ++ rest) (zlength pre + k) = pre ++ prefix rest k.
Proof.
  intros. unfold prefix, zlength.
  replace (Z.to_nat (Z.of_nat (length pre) + k)) with (length pre + Z.to_nat k)%nat by lia.
  rewrite firstn_app_2. reflexivity.
Qed.
Lemma exon_at_app : forall (pre rest : list exon) k, 0 <= k ->
  exon_at (pre ++ rest) (zlength pre + k) = exon_at rest k.
Proof.
  intros. unfold exon_at, zlength.
  destruct (Z.of_nat (length pre) + k <? 0) eqn:E; [lia|].
  destruct (k <? 0) eqn:E2; [lia|].
  replace (Z.to_nat (Z.of_nat (length pre) + k)) with (length pre + Z.to_nat k)%nat by lia.
  rewrite nth_error_app2 by lia.
  replace (length pre + Z.to_nat k - length pre)%nat with (Z.to_nat k) by lia. reflexivity.
Qed.

(* ------------------------------------------------------------------ sequences *)
Lemma slice_length : forall (s : list Z) a b, 0 <= a -> a <= b -> b <= zlength s ->
  zlength (slice s a b) = b - a.
Proof.
  intros. unfold slice, zlength in *. rewrite firstn_length, skipn_length. lia.
Qed.

Lemma firstn_plus : forall A (l : list A) n m, firstn (n + m) l = firstn n l ++ firstn m (skipn n l).
Proof.
  induction l; intros; destruct n; cbn; try reflexivity.
  - destruct m; reflexivity.
  - f_equal. apply IHl.
Qed.
Lemma skipn_plus : forall A (l : list A) n m, skipn (n + m) l = skipn m (skipn n l).
Proof.
  induction l; intros; destruct n; cbn; try reflexivity.
  - destruct m; reflexivity.
  - apply IHl.
Qed.

Lemma slice_app : forall (s : list Z) a b c, 0 <= a -> a <= b -> b <= c ->
  slice s a b ++ slice s b c = slice s a c.
Proof.
  intros. unfold slice.
  replace (Z.to_nat (c - a)) with (Z.to_nat (b - a) + Z.to_nat (c - b))%nat by lia.
  rewrite firstn_plus. f_equal. f_equal.
  replace (Z.to_nat b) with (Z.to_nat a + Z.to_nat (b - a))%nat by lia.
  rewrite skipn_plus. reflexivity.
Qed.

Lemma slice_slice : forall (s : list Z) g h a b, 0 <= g -> 0 <= a -> a <= b -> g + b <= h ->
  slice (slice s g h) a b = slice s (g + a) (g + b).
Proof.
  intros. unfold slice.
  rewrite skipn_firstn_comm. rewrite firstn_firstn.
  replace (Z.to_nat (g + a)) with (Z.to_nat g + Z.to_nat a)%nat by lia.
  rewrite skipn_plus.
  f_equal. lia.
Qed.

Lemma revcomp_app : forall a b, revcomp (a ++ b) = revcomp b ++ revcomp a.
Proof. intros. unfold revcomp. rewrite map_app, rev_app_distr. reflexivity. Qed.
Lemma revcomp_length : forall a, zlength (revcomp a) = zlength a.
Proof. intros. unfold revcomp, zlength. rewrite rev_length, map_length. reflexivity. Qed.

Lemma firstn_rev : forall A (l : list A) n, (n <= length l)%nat -> firstn n (rev l) = rev (skipn (length l - n) l).
Proof.
  intros. rewrite <- (firstn_skipn (length l - n) l) at 1.
  rewrite rev_app_distr. rewrite firstn_app.
  rewrite rev_length, skipn_length.
  replace (n - (length l - (length l - n)))%nat with 0%nat by lia.
  cbn [firstn]. rewrite app_nil_r.
  apply firstn_all2. rewrite rev_length, skipn_length. lia.
Qed.
Lemma skipn_rev : forall A (l : list A) n, (n <= length l)%nat -> skipn n (rev l) = rev (firstn (length l - n) l).
Proof.
  intros. rewrite <- (firstn_skipn (length l - n) l) at 1.
  rewrite rev_app_distr. rewrite skipn_app.
  rewrite rev_length, skipn_length.
  replace (n - (length l - (length l - n)))%nat with 0%nat by lia.
  cbn [skipn].
  rewrite skipn_all2 by (rewrite rev_length, skipn_length; lia). reflexivity.
Qed.

(* slice of the reverse complement = reverse complement of the mirrored slice *)
Lemma slice_revcomp : forall (s : list Z) a b, 0 <= a -> a <= b -> b <= zlength s ->
  slice (revcomp s) a b = revcomp (slice s (zlength s - b) (zlength s - a)).
Proof.
  intros. unfold slice, revcomp, zlength in *.
  rewrite skipn_rev by (rewrite map_length; lia).
  rewrite firstn_rev by (rewrite firstn_length, map_length; lia).
  f_equal. rewrite firstn_length, !map_length.
  rewrite skipn_firstn_comm.
  rewrite <- firstn_map, <- skipn_map. f_equal.
  - lia.
  - f_equal. lia.
Qed.

Lemma take_app_exact : forall (a b : list Z), take (a ++ b) (zlength a) = a.
Proof.
  intros. unfold take, zlength. rewrite Nat2Z.id. rewrite firstn_app, Nat.sub_diag. cbn [firstn].
  rewrite app_nil_r. apply firstn_all.
Qed.
Lemma drop_app_exact : forall (a b : list Z), drop (a ++ b) (zlength a) = b.
Proof.
  intros. unfold drop, zlength. rewrite Nat2Z.id. rewrite skipn_app, Nat.sub_diag. cbn [skipn].
  rewrite skipn_all. reflexivity.
Qed.

(* ------------------------------------------------------------------ transcripts as sequences *)
(* weak chain: pieces may be empty or abut (used for exons split at a splice site) *)
Fixpoint wchain (lo : Z) (ex : list exon) (hi : Z) : Prop :=
  match ex with
  | [] => True
  | x :: t => lo <= fst x /\ fst x <= snd x /\ snd x <= hi /\ wchain (snd x) t hi
  end.

Lemma chain_wchain : forall ex lo hi, chain lo ex hi -> wchain lo ex hi.
Proof.
  induction ex; cbn; intros; [trivial|]. destruct H as (?&?&?&?).
  repeat split; try lia. apply IHex. eapply chain_weaken; [eassumption|lia].
Qed.
Lemma wchain_weaken : forall ex lo lo' hi, wchain lo ex hi -> lo' <= lo -> wchain lo' ex hi.
Proof. destruct ex; cbn; intuition lia. Qed.
Lemma wchain_bounds : forall ex lo hi x, wchain lo ex hi -> In x ex -> lo <= fst x /\ fst x <= snd x /\ snd x <= hi.
Proof.
  induction ex; cbn; intros; [tauto|].
  destruct H as (?&?&?&?). destruct H0; [subst; lia|].
  specialize (IHex _ _ _ H3 H0). lia.
Qed.
Lemma wchain_app : forall pre rest lo hi, wchain lo (pre ++ rest) hi ->
  wchain lo pre hi /\ exists lo', lo <= lo' /\ wchain lo' rest hi /\ (forall x, In x pre -> snd x <= lo').
Proof.
  induction pre; cbn; intros.
  - split; [trivial|]. exists lo. split; [lia|]. split; [assumption|tauto].
  - destruct H as (?&?&?&?). destruct (IHpre _ _ _ H2) as (A & lo' & C & D & E).
    split; [tauto|]. exists lo'. split; [lia|]. split; [assumption|].
    intros x [<-|Hx]; [lia|auto].
Qed.
Lemma exons_seq_app : forall c a b, exons_seq c (a ++ b) = exons_seq c a ++ exons_seq c b.
Proof. intros. unfold exons_seq. apply flat_map_app. Qed.
Lemma exons_len_app : forall a b, exons_len (a ++ b) = exons_len a + exons_len b.
Proof. induction a; intros; cbn [app exons_len]; [lia|]. rewrite IHa. lia. Qed.

Lemma exons_seq_length : forall chrom ex lo hi, 0 <= lo -> hi <= zlength chrom -> wchain lo ex hi ->
  zlength (exons_seq chrom ex) = exons_len ex.
Proof.
  induction ex; intros.
  - reflexivity.
  - change (exons_seq chrom (a :: ex)) with (slice chrom (fst a) (snd a) ++ exons_seq chrom ex).
    cbn [exons_len].
    destruct H1 as (?&?&?&?). rewrite zlength_app.
    rewrite slice_length by lia.
    rewrite (IHex (snd a) hi) by (assumption || lia). lia.
Qed.

Lemma pos_skip : forall (pre rest : list exon) p acc, (forall x, In x pre -> inside x p = false) ->
  pos_in_exons (pre ++ rest) p acc = pos_in_exons rest p (acc + exons_len pre).
Proof.
  induction pre; intros; cbn [app pos_in_exons exons_len].
  - f_equal. lia.
  - rewrite (H a (or_introl eq_refl)).
    rewrite IHpre by (intros; apply H; right; assumption). f_equal. lia.
Qed.

Definition gslice (strand : Z) (chrom : list Z) (a b : Z) : list Z :=
  if strand =? 1 then slice chrom a b else revcomp (slice chrom a b).
Definition gcoord (strand gs ge p : Z) : Z := if strand =? 1 then p - gs else ge - 1 - p.
Definition side1 (strand : Z) (chrom : list Z) (pre post : list exon) : list Z :=
  if strand =? 1 then exons_seq chrom pre else revcomp (exons_seq chrom post).
Definition side2 (strand : Z) (chrom : list Z) (pre post : list exon) : list Z :=
  if strand =? 1 then exons_seq chrom post else revcomp (exons_seq chrom pre).

Lemma tx_seq_mid : forall strand chrom pre M post,
  tx_seq strand chrom (pre ++ M :: post) =
  side1 strand chrom pre post ++ gslice strand chrom (fst M) (snd M) ++ side2 strand chrom pre post.
Proof.
  intros. unfold tx_seq, side1, side2, gslice. destruct (strand =? 1).
  - rewrite exons_seq_app. cbn. reflexivity.
  - rewrite exons_seq_app. cbn. rewrite !revcomp_app. rewrite app_assoc. reflexivity.
Qed.
Lemma tx_seq_nomid : forall strand chrom pre post,
  tx_seq strand chrom (pre ++ post) = side1 strand chrom pre post ++ side2 strand chrom pre post.
Proof.
  intros. unfold tx_seq, side1, side2. destruct (strand =? 1); rewrite exons_seq_app; [reflexivity|].
  apply revcomp_app.
Qed.

Section Sem.
Variables (strand gs ge : Z) (chrom : list Z).
Hypothesis Hstrand : strand = 1 \/ strand = -1.
Hypothesis Hgs : 0 <= gs.
Hypothesis Hge : ge <= zlength chrom.

Lemma gslice_length : forall a b, gs <= a -> a <= b -> b <= ge -> zlength (gslice strand chrom a b) = b - a.
Proof.
  intros. unfold gslice. destruct (strand =? 1); [|rewrite revcomp_length]; apply slice_length; lia.
Qed.

Lemma side1_length : forall pre M post, wchain gs (pre ++ M :: post) ge ->
  zlength (side1 strand chrom pre post) = if strand =? 1 then exons_len pre else exons_len post.
Proof.
  intros. apply wchain_app in H. destruct H as (A & lo' & B & C & D).
  unfold side1. destruct (strand =? 1).
  - eapply exons_seq_length; eassumption.
  - rewrite revcomp_length. cbn in C. destruct C as (?&?&?&?).
    eapply (exons_seq_length chrom post (snd M)); try eassumption. lia.
Qed.

Lemma conv_mid : forall pre M post p, wchain gs (pre ++ M :: post) ge -> fst M <= p -> p < snd M ->
  gene2tx strand gs ge (pre ++ M :: post) (gcoord strand gs ge p) =
  Some (zlength (side1 strand chrom pre post) + (if strand =? 1 then p - fst M else snd M - 1 - p)).
Proof.
  intros. rewrite (side1_length _ _ _ H).
  pose proof (wchain_app _ _ _ _ H) as (A & lo' & B & C & D).
  unfold gene2tx, gcoord.
  assert (Hp : (if strand =? 1 then gs + (if strand =? 1 then p - gs else ge - 1 - p)
                else ge - 1 - (if strand =? 1 then p - gs else ge - 1 - p)) = p)
    by (destruct (strand =? 1); lia).
  rewrite Hp. clear Hp.
  rewrite pos_skip.
  2:{ intros x Hx. specialize (D x Hx). cbn in C. unfold inside. lia. }
  cbn [pos_in_exons]. unfold inside at 1.
  assert ((fst M <=? p) && (p <? snd M) = true) as -> by lia.
  rewrite exons_len_app. cbn [exons_len].
  destruct (strand =? 1); f_equal; lia.
Qed.

Lemma gene_seq_slice : forall c d, gs <= c -> c <= d -> d <= ge ->
  slice (gene_seq strand chrom gs ge)
        (if strand =? 1 then c - gs else ge - d) (if strand =? 1 then d - gs else ge - c)
  = gslice strand chrom c d.
Proof.
  intros. unfold gene_seq, gslice. destruct (strand =? 1).
  - rewrite slice_slice by lia. f_equal; lia.
  - rewrite slice_revcomp.
    + rewrite slice_length by lia. rewrite slice_slice by lia. f_equal. f_equal; lia.
    + lia.
    + lia.
    + rewrite slice_length by lia. lia.
Qed.

Lemma take_side : forall a b c : list Z, take (a ++ b ++ c) (zlength a) = a.
Proof. intros. apply take_app_exact. Qed.
Lemma drop_side : forall (a b c : list Z) n, n = zlength a + zlength b -> drop (a ++ b ++ c) n = c.
Proof.
  intros. subst. rewrite app_assoc. rewrite <- zlength_app. apply drop_app_exact.
Qed.

(* Deletion of one piece M of the transcript *)
Lemma sem_del : forall pre M post r gseq,
  wchain gs (pre ++ M :: post) ge -> fst M < snd M ->
  r_kind r = KDel ->
  r_S r = (if strand =? 1 then fst M - gs else ge - snd M) ->
  r_E r = (if strand =? 1 then snd M - gs else ge - fst M) ->
  apply_record (gene2tx strand gs ge (pre ++ M :: post)) (tx_seq strand chrom (pre ++ M :: post)) gseq r
  = Some (tx_seq strand chrom (pre ++ post)).
Proof.
  intros. unfold apply_record. rewrite H1.
  replace (r_S r) with (gcoord strand gs ge (if strand =? 1 then fst M else snd M - 1))
    by (rewrite H2; unfold gcoord; destruct (strand =? 1); lia).
  replace (r_E r - 1) with (gcoord strand gs ge (if strand =? 1 then snd M - 1 else fst M))
    by (rewrite H3; unfold gcoord; destruct (strand =? 1); lia).
  rewrite !conv_mid by (try assumption; destruct (strand =? 1); lia).
  set (n := zlength (side1 strand chrom pre post)).
  assert (E1 : n + (if strand =? 1 then (if strand =? 1 then fst M else snd M - 1) - fst M
                    else snd M - 1 - (if strand =? 1 then fst M else snd M - 1)) = n)
    by (destruct (strand =? 1); lia).
  assert (E2 : n + (if strand =? 1 then (if strand =? 1 then snd M - 1 else fst M) - fst M
                    else snd M - 1 - (if strand =? 1 then snd M - 1 else fst M)) = n + (snd M - fst M) - 1)
    by (destruct (strand =? 1); lia).
  rewrite E1, E2.
  assert ((n <=? n + (snd M - fst M) - 1) = true) as -> by lia.
  rewrite tx_seq_mid, tx_seq_nomid. f_equal. f_equal.
  - apply take_side.
  - apply drop_side. fold n.
    pose proof (wchain_app _ _ _ _ H) as (A & lo' & B & C & D). cbn in C.
    rewrite gslice_length by lia. lia.
Qed.

(* Substitution of one piece M by gene[c,d) *)
Lemma sem_sub : forall pre M post r c d,
  wchain gs (pre ++ M :: post) ge -> fst M < snd M -> gs <= c -> c <= d -> d <= ge ->
  r_kind r = KSub ->
  r_S r = (if strand =? 1 then fst M - gs else ge - snd M) ->
  r_E r = (if strand =? 1 then snd M - gs else ge - fst M) ->
  r_DS r = (if strand =? 1 then c - gs else ge - d) ->
  r_DE r = (if strand =? 1 then d - gs else ge - c) ->
  apply_record (gene2tx strand gs ge (pre ++ M :: post)) (tx_seq strand chrom (pre ++ M :: post))
               (gene_seq strand chrom gs ge) r
  = Some (tx_seq strand chrom (pre ++ (c, d) :: post)).
Proof.
  intros. unfold apply_record. rewrite H4.
  replace (r_S r) with (gcoord strand gs ge (if strand =? 1 then fst M else snd M - 1))
    by (rewrite H5; unfold gcoord; destruct (strand =? 1); lia).
  replace (r_E r - 1) with (gcoord strand gs ge (if strand =? 1 then snd M - 1 else fst M))
    by (rewrite H6; unfold gcoord; destruct (strand =? 1); lia).
  rewrite !conv_mid by (try assumption; destruct (strand =? 1); lia).
  set (n := zlength (side1 strand chrom pre post)).
  assert (E1 : n + (if strand =? 1 then (if strand =? 1 then fst M else snd M - 1) - fst M
                    else snd M - 1 - (if strand =? 1 then fst M else snd M - 1)) = n)
    by (destruct (strand =? 1); lia).
  assert (E2 : n + (if strand =? 1 then (if strand =? 1 then snd M - 1 else fst M) - fst M
                    else snd M - 1 - (if strand =? 1 then snd M - 1 else fst M)) = n + (snd M - fst M) - 1)
    by (destruct (strand =? 1); lia).
  rewrite E1, E2.
  assert ((n <=? n + (snd M - fst M) - 1) = true) as -> by lia.
  rewrite H7, H8, gene_seq_slice by lia.
  rewrite (tx_seq_mid _ _ pre (c, d) post), (tx_seq_mid _ _ pre M post). cbn [fst snd]. f_equal. f_equal.
  - apply take_side.
  - f_equal. apply drop_side. fold n.
    pose proof (wchain_app _ _ _ _ H) as (A & lo' & B & C & D). cbn in C.
    rewrite gslice_length by lia. lia.
Qed.
End Sem.

Lemma sem_ins_plus : forall gs ge chrom pre' P post r c d,
  0 <= gs -> ge <= zlength chrom ->
  wchain gs (pre' ++ P :: post) ge -> fst P < snd P -> gs <= c -> c <= d -> d <= ge ->
  r_kind r = KIns -> r_start r = snd P - 1 - gs -> r_DS r = c - gs -> r_DE r = d - gs ->
  apply_record (gene2tx 1 gs ge (pre' ++ P :: post)) (tx_seq 1 chrom (pre' ++ P :: post)) (gene_seq 1 chrom gs ge) r
  = Some (tx_seq 1 chrom ((pre' ++ [P]) ++ (c, d) :: post)).
Proof.
  intros. unfold apply_record. rewrite H6.
  replace (r_start r) with (gcoord 1 gs ge (snd P - 1)) by (rewrite H7; reflexivity).
  rewrite (conv_mid 1 gs ge chrom) by (assumption || lia).
  cbn [Z.eqb Pos.eqb].
  assert (G := gene_seq_slice 1 gs ge chrom). specialize (G H H0 c d H3 H4 H5). cbn [Z.eqb Pos.eqb] in G.
  rewrite H8, H9, G.
  f_equal. symmetry. etransitivity; [apply (tx_seq_mid 1 chrom (pre' ++ [P]) (c, d) post)|]. symmetry.
  replace (pre' ++ P :: post) with ((pre' ++ [P]) ++ post) by (rewrite <- app_assoc; reflexivity).
  rewrite (tx_seq_nomid 1 chrom (pre' ++ [P]) post).
  assert (L : zlength (side1 1 chrom pre' post) + (snd P - 1 - fst P) + 1 = zlength (side1 1 chrom (pre' ++ [P]) post)).
  { unfold side1. cbn [Z.eqb Pos.eqb]. rewrite exons_seq_app, zlength_app.
    pose proof (wchain_app _ _ _ _ H1) as (A & lo' & B & C & D). cbn in C.
    change (exons_seq chrom [P]) with (slice chrom (fst P) (snd P) ++ []). rewrite app_nil_r.
    rewrite slice_length by lia. lia. }
  rewrite L. cbn [fst snd]. f_equal.
  - apply take_app_exact.
  - f_equal. apply drop_app_exact.
Qed.

Lemma sem_ins_minus : forall gs ge chrom pre Q post' r c d,
  0 <= gs -> ge <= zlength chrom ->
  wchain gs (pre ++ Q :: post') ge -> fst Q < snd Q -> gs <= c -> c <= d -> d <= ge ->
  r_kind r = KIns -> r_start r = ge - 1 - fst Q -> r_DS r = ge - d -> r_DE r = ge - c ->
  apply_record (gene2tx (-1) gs ge (pre ++ Q :: post')) (tx_seq (-1) chrom (pre ++ Q :: post')) (gene_seq (-1) chrom gs ge) r
  = Some (tx_seq (-1) chrom (pre ++ (c, d) :: Q :: post')).
Proof.
  intros. unfold apply_record. rewrite H6.
  replace (r_start r) with (gcoord (-1) gs ge (fst Q)) by (rewrite H7; reflexivity).
  rewrite (conv_mid (-1) gs ge chrom) by (assumption || lia).
  cbn [Z.eqb].
  assert (G := gene_seq_slice (-1) gs ge chrom). specialize (G H H0 c d H3 H4 H5). cbn [Z.eqb] in G.
  rewrite H8, H9, G.
  f_equal. symmetry. etransitivity; [apply (tx_seq_mid (-1) chrom pre (c, d) (Q :: post'))|]. symmetry.
  rewrite (tx_seq_nomid (-1) chrom pre (Q :: post')).
  assert (L : zlength (side1 (-1) chrom pre post') + (snd Q - 1 - fst Q) + 1 = zlength (side1 (-1) chrom pre (Q :: post'))).
  { unfold side1. cbn [Z.eqb].
    change (exons_seq chrom (Q :: post')) with (slice chrom (fst Q) (snd Q) ++ exons_seq chrom post').
    rewrite revcomp_app, zlength_app, !revcomp_length.
    pose proof (wchain_app _ _ _ _ H1) as (A & lo' & B & C & D). cbn in C.
    rewrite slice_length by lia. lia. }
  rewrite L. cbn [fst snd]. f_equal.
  - apply take_app_exact.
  - f_equal. apply drop_app_exact.
Qed.

(* ------------------------------------------------------------------ monad inversion *)
Lemma bind_ok : forall A B (r : res A) (f : A -> res B) b, bind r f = Ok b -> exists a, r = Ok a /\ f a = Ok b.
Proof. intros. destruct r; cbn in H; [eauto|discriminate]. Qed.

Ltac zb :=
  repeat match goal with
  | |- context [?a =? ?b] => first [replace (a =? b) with true by lia | replace (a =? b) with false by lia]
  | |- context [?a <? ?b] => first [replace (a <? b) with true by lia | replace (a <? b) with false by lia]
  | |- context [?a <=? ?b] => first [replace (a <=? b) with true by lia | replace (a <=? b) with false by lia]
  | |- context [?a >? ?b] => first [replace (a >? b) with true by lia | replace (a >? b) with false by lia]
  | |- context [?a >=? ?b] => first [replace (a >=? b) with true by lia | replace (a >=? b) with false by lia]
  end.

(* ------------------------------------------------------------------ the gene context *)
Section Gene.
Variables (g : gene) (chrom : list Z).
Let strand := g_strand g.
Let gs := g_start g.
Let ge := g_end g.
Let gseq := gene_seq strand chrom gs ge.
Hypothesis Hstrand : strand = 1 \/ strand = -1.
Hypothesis Hgs : 0 <= gs.
Hypothesis Hge : ge <= zlength chrom.

Lemma g2gene_ok : forall idx, gs <= idx -> idx < ge -> g2gene g idx = Ok (gcoord strand gs ge idx).
Proof.
  intros. unfold g2gene. fold gs ge strand.
  assert ((gs <=? idx) && (idx <? ge) = true) as -> by lia. reflexivity.
Qed.

Lemma gseq_length : gs <= ge -> zlength gseq = ge - gs.
Proof.
  intros. unfold gseq, gene_seq. destruct (strand =? 1); [|rewrite revcomp_length]; apply slice_length; lia.
Qed.

Lemma seq_at_ok : forall i, 0 <= i -> i < ge - gs -> exists c, seq_at gseq i = Ok c.
Proof.
  intros. unfold seq_at. assert (i <? 0 = false) as -> by lia.
  destruct (nth_error gseq (Z.to_nat i)) eqn:E; [eauto|].
  apply nth_error_None in E. pose proof (gseq_length ltac:(lia)). unfold zlength in H1. lia.
Qed.

Lemma gcoord_range : forall p, gs <= p -> p < ge -> 0 <= gcoord strand gs ge p < ge - gs.
Proof. intros. unfold gcoord. destruct (strand =? 1); lia. Qed.
End Gene.

(* ------------------------------------------------------------------ every record carries its transcript index *)
Ltac inv_res :=
  repeat match goal with
  | H : bind _ _ = Ok _ |- _ => apply bind_ok in H; let x := fresh "x" in let E := fresh "E" in destruct H as (x & E & H)
  | H : one _ = Ok _ |- _ => unfold one in H
  | H : Ok _ = Ok _ |- _ => inversion H; clear H; subst
  | H : Err _ = Ok _ |- _ => discriminate H
  | H : (if ?c then _ else _) = Ok _ |- _ => destruct c
  | H : (let '(_, _) := ?p in _) = Ok _ |- _ => destruct p
  end.

Section Tx.
Variables (g : gene) (gseq : list Z) (txi : Z).
Lemma finish_del_tx : forall a b c d r, finish_del g gseq txi a b c d = Ok r -> r_tx r = txi.
Proof. unfold finish_del; intros. inv_res; reflexivity. Qed.
Lemma finish_sub_tx : forall a b c d e f r, finish_sub g gseq txi a b c d e f = Ok r -> r_tx r = txi.
Proof. unfold finish_sub; intros. inv_res; reflexivity. Qed.
Lemma finish_ins_tx : forall a b c r, finish_ins g gseq txi a b c = Ok r -> r_tx r = txi.
Proof. unfold finish_ins; intros. inv_res; reflexivity. Qed.
Lemma cud_tx : forall a sp i r, create_upstream_deletion g gseq txi a sp i = Ok r -> r_tx r = txi.
Proof. unfold create_upstream_deletion; intros. inv_res; eapply finish_del_tx; eassumption. Qed.
Lemma cdd_tx : forall a sp i r, create_downstream_deletion g gseq txi a sp i = Ok r -> r_tx r = txi.
Proof. unfold create_downstream_deletion; intros. inv_res; eapply finish_del_tx; eassumption. Qed.
Lemma cus_tx : forall a i r, create_upstream_substitution g gseq txi a i = Ok r -> r_tx r = txi.
Proof. unfold create_upstream_substitution; intros. inv_res; eapply finish_sub_tx; eassumption. Qed.
Lemma cds_tx : forall a i r, create_downstream_substitution g gseq txi a i = Ok r -> r_tx r = txi.
Proof. unfold create_downstream_substitution; intros. inv_res; eapply finish_sub_tx; eassumption. Qed.
Lemma cui_tx : forall a r, create_upstream_insertion g gseq txi a = Ok r -> r_tx r = txi.
Proof. unfold create_upstream_insertion; intros. inv_res; eapply finish_ins_tx; eassumption. Qed.
Lemma cdi_tx : forall a r, create_downstream_insertion g gseq txi a = Ok r -> r_tx r = txi.
Proof. unfold create_downstream_insertion; intros. inv_res; eapply finish_ins_tx; eassumption. Qed.

Lemma up_arm_tx : forall a i w rs, up_arm g gseq txi a i w = Ok rs -> forall r, In r rs -> r_tx r = txi.
Proof.
  unfold up_arm; intros. inv_res; try contradiction;
    (destruct H0 as [<-|[]]; eauto using cud_tx, cus_tx, cui_tx).
Qed.
Lemma down_arm_tx : forall a i w rs, down_arm g gseq txi a i w = Ok rs -> forall r, In r rs -> r_tx r = txi.
Proof.
  unfold down_arm; intros. inv_res; try contradiction;
    (destruct H0 as [<-|[]]; eauto using cdd_tx, cds_tx, cdi_tx).
Qed.
Lemma junction_records_tx : forall t j un dn rs, junction_records g gseq txi t j un dn = Ok rs ->
  forall r, In r rs -> r_tx r = txi.
Proof.
  unfold junction_records; intros. destruct (align j (t_exons t) un dn); [|inv_res; contradiction].
  unfold aln_convert in H. inv_res;
    repeat (apply in_app_or in H0; destruct H0 as [H0|H0]); try contradiction;
    eauto using up_arm_tx, down_arm_tx.
Qed.
End Tx.

Lemma chain_pre : forall pre A rest lo hi, chain lo (pre ++ A :: rest) hi ->
  (forall x, In x pre -> lo <= fst x /\ fst x < snd x /\ snd x < fst A) /\
  lo <= fst A /\ fst A < snd A /\ snd A <= hi /\ chain (snd A + 1) rest hi.
Proof.
  intros. pose proof (chain_app _ _ _ _ H) as (P & Q & lo' & L & C & D).
  split.
  - intros x Hx. pose proof (chain_bounds _ _ _ _ P Hx). specialize (Q x A Hx (or_introl eq_refl)). lia.
  - cbn in C. destruct C as (?&?&?&?). repeat split; try lia. assumption.
Qed.
Lemma chain_post : forall rest lo hi, chain lo rest hi ->
  forall y, In y rest -> lo <= fst y /\ fst y < snd y /\ snd y <= hi.
Proof. intros. eapply chain_bounds; eassumption. Qed.

Lemma suffix_exact : forall (pre : list exon) X rest, suffix (pre ++ X :: rest) (zlength pre + 1) = rest.
Proof.
  intros. rewrite suffix_app by lia. reflexivity.
Qed.
Lemma prefix_exact : forall (pre rest : list exon), prefix (pre ++ rest) (zlength pre) = pre.
Proof.
  intros. replace (zlength pre) with (zlength pre + 0) by lia. rewrite prefix_app by lia.
  unfold prefix. cbn. apply app_nil_r.
Qed.

Lemma interjacent_fwd : forall a pre X rest,
  a_ex a = pre ++ X :: rest -> a_uei a = zlength pre -> rest <> [] -> a_dsi a <> 0 ->
  interjacent a = Ok (scan_fwd rest (j_ue (a_j a)) (j_ds (a_j a)) (zlength pre + 1)).
Proof.
  intros. unfold interjacent. rewrite H, H0.
  pose proof (zlength_nonneg _ pre).
  assert ((zlength pre =? 0) && (a_dsi a =? 0) = false) as -> by lia.
  assert (zlength pre >? -1 = true) as -> by lia.
  rewrite zlength_app, zlength_cons.
  destruct rest as [|y rest']; [congruence|].
  rewrite zlength_cons. pose proof (zlength_nonneg _ rest').
  assert (zlength pre + 1 =? zlength pre + (zlength rest' + 1 + 1) = false) as -> by lia.
  rewrite suffix_exact. reflexivity.
Qed.

Lemma interjacent_bwd : forall a pre rest,
  a_ex a = pre ++ rest -> a_uei a = -1 -> a_dsi a = zlength pre -> pre <> [] ->
  interjacent a = Ok (rev (scan_bwd (rev pre) (j_ue (a_j a)) (j_ds (a_j a)) (zlength pre - 1))).
Proof.
  intros. unfold interjacent. rewrite H, H0, H1.
  destruct pre as [|p0 pre']; [congruence|].
  rewrite zlength_cons. pose proof (zlength_nonneg _ pre').
  assert ((-1 =? 0) && (zlength pre' + 1 =? 0) = false) as -> by lia.
  assert (-1 >? -1 = false) as -> by lia.
  assert (zlength pre' + 1 =? 0 = false) as -> by lia.
  assert (zlength pre' + 1 <? 0 = false) as -> by lia.
  rewrite <- (zlength_cons _ p0). rewrite prefix_exact. reflexivity.
Qed.

Lemma down_spanning_fwd : forall a pre X rest,
  a_ex a = pre ++ X :: rest -> a_uei a = zlength pre ->
  downstream_start_spanning a = find_containing rest (j_ds (a_j a)) (zlength pre + 1).
Proof.
  intros. unfold downstream_start_spanning. rewrite H, H0.
  pose proof (zlength_nonneg _ pre).
  assert (zlength pre =? -1 = false) as -> by lia.
  rewrite suffix_exact. reflexivity.
Qed.

Lemma up_spanning_bwd : forall a pre rest,
  a_ex a = pre ++ rest -> a_dsi a = zlength pre ->
  upstream_end_spanning a = first_containing_bwd (rev pre) (j_ue (a_j a) - 1) (zlength pre - 1).
Proof.
  intros. unfold upstream_end_spanning. rewrite H, H0.
  pose proof (zlength_nonneg _ pre).
  assert (zlength pre =? -1 = false) as -> by lia.
  rewrite prefix_exact. reflexivity.
Qed.

Lemma exon_at_exact : forall (pre : list exon) X rest, exon_at (pre ++ X :: rest) (zlength pre) = Ok X.
Proof.
  intros. replace (zlength pre) with (zlength pre + 0) by lia. rewrite exon_at_app by lia. reflexivity.
Qed.
Lemma exon_at_exact1 : forall (pre : list exon) X Y rest, exon_at (pre ++ X :: Y :: rest) (zlength pre + 1) = Ok Y.
Proof. intros. rewrite exon_at_app by lia. reflexivity. Qed.
Lemma exon_at_exact2 : forall (pre : list exon) X Y W rest, exon_at (pre ++ X :: Y :: W :: rest) (zlength pre + 2) = Ok W.
Proof. intros. rewrite exon_at_app by lia. reflexivity. Qed.

Lemma if_same : forall (c : bool) A (x : A), (if c then x else x) = x.
Proof. destruct c; reflexivity. Qed.

Section Cascade.
Variables (g : gene) (chrom : list Z).
Let strand := g_strand g.
Let gs := g_start g.
Let ge := g_end g.
Let gseq := gene_seq strand chrom gs ge.
Hypothesis Hstrand : strand = 1 \/ strand = -1.
Hypothesis Hgs : 0 <= gs.
Hypothesis Hge : ge <= zlength chrom.
Variables (txi : Z) (t : tx).

Lemma se_skip_form : forall (pre post : list exon) us ue es ee ds de rs,
  t_exons t = pre ++ (us, ue) :: (es, ee) :: (ds, de) :: post ->
  chain gs (t_exons t) ge ->
  junction_records g gseq txi t (mkJ us ue ds de) false false = Ok rs ->
  forall r, In r rs ->
    r_kind r = KDel /\ r_S r = (if strand =? 1 then es - gs else ge - ee) /\
    r_E r = (if strand =? 1 then ee - gs else ge - es).
Proof.
  intros pre post us ue es ee ds de rs Hex Hch Hrec r Hin.
  rewrite Hex in Hch.
  destruct (chain_pre _ _ _ _ _ Hch) as (Hpre & U1 & U2 & U3 & Hch2). cbn [fst snd] in *.
  cbn [chain fst snd] in Hch2. destruct Hch2 as (E1 & E2 & E3 & D1 & D2 & D3 & Hpost).
  pose proof (chain_post _ _ _ Hpost) as Hpost'.
  pose proof (zlength_nonneg _ pre) as Hn.
  unfold junction_records, align in Hrec. cbn [j_us j_ue j_ds j_de] in Hrec. rewrite Hex in Hrec.
  rewrite find_start_skip in Hrec by (intros x Hx; specialize (Hpre x Hx); lia).
  rewrite find_end_skip in Hrec by (intros x Hx; specialize (Hpre x Hx); lia).
  rewrite find_start_skip in Hrec by (intros x Hx; specialize (Hpre x Hx); lia).
  rewrite find_end_skip in Hrec by (intros x Hx; specialize (Hpre x Hx); lia).
  cbn [find_start find_end] in Hrec.
  revert Hrec. zb. cbn [andb]. intro Hrec.
  replace (0 + zlength pre + 1 + 1) with (zlength pre + 2) in Hrec by lia.
  replace (0 + zlength pre) with (zlength pre) in Hrec by lia.
  match type of Hrec with aln_convert _ _ _ _ ?A = _ => set (a := A) in * end.
  assert (Hint : interjacent a = Ok [zlength pre + 1]).
  { rewrite (interjacent_fwd a pre (us, ue) ((es, ee) :: (ds, de) :: post)); [|reflexivity|reflexivity|discriminate|unfold a; cbn [a_dsi]; lia].
    cbn [scan_fwd a_j a j_ue j_ds]. zb. reflexivity. }
  unfold aln_convert in Hrec. rewrite Hint in Hrec. cbn [bind a_un a_dn a negb andb app] in Hrec.
  fold strand in Hrec.
  match type of Hrec with (do v3 <- (if ?c then _ else _); _) = _ => destruct c end;
    [|cbn in Hrec; inversion Hrec; subst rs; contradiction].
  assert (Hgc : forall p, gs <= p -> p < ge -> g2gene g p = Ok (gcoord strand gs ge p))
    by (intros; apply g2gene_ok; assumption).
  assert (Hseq : forall i, 0 <= i -> i < ge - gs -> exists c, seq_at gseq i = Ok c)
    by (intros; apply (seq_at_ok g chrom Hgs Hge); assumption).
  destruct Hstrand as [S|S].
  - (* plus strand: downstream deletion *)
    assert (Sb : strand =? 1 = true) by lia. rewrite Sb in *.
    unfold down_arm in Hrec. cbn [nonempty] in Hrec. rewrite orb_true_r in Hrec.
    rewrite (down_spanning_fwd a pre (us, ue) ((es, ee) :: (ds, de) :: post)) in Hrec by reflexivity.
    cbn [find_containing a a_j j_ds] in Hrec. unfold inside in Hrec. cbn [fst snd] in Hrec.
    revert Hrec. zb. cbn [andb]. zb. intro Hrec.
    replace (zlength pre + 1 + 1) with (zlength pre + 2) in Hrec by lia.
    unfold create_downstream_deletion, one in Hrec. cbn [nonempty hdZ lastZ rev app bind a_ex a a_j j_ds] in Hrec.
    rewrite exon_at_exact1 in Hrec. cbn [bind fst snd] in Hrec.
    rewrite Hgc in Hrec by lia. cbn [bind] in Hrec.
    rewrite exon_at_exact2 in Hrec. cbn [bind fst snd] in Hrec.
    rewrite Z.eqb_refl in Hrec. cbn [bind] in Hrec.
    rewrite Hgc in Hrec by lia. cbn [bind] in Hrec.
    unfold finish_del in Hrec. fold strand in Hrec.
    assert (Sc : strand =? -1 = false) by lia. rewrite Sc in Hrec.
    unfold gcoord in Hrec. rewrite Sb in Hrec.
    destruct (Hseq (es - gs)) as [c Hc]; [lia|lia|].
    rewrite Hc in Hrec. cbn [bind] in Hrec.
    unfold mkloc in Hrec. assert (ee - 1 - gs + 1 <? es - gs = false) as E by lia. rewrite E in Hrec.
    cbn [bind] in Hrec. inversion Hrec; subst rs. destruct Hin as [<-|[]]. cbn [r_kind r_S r_E]. repeat split; lia.
  - (* minus strand: upstream deletion *)
    assert (Sb : strand =? 1 = false) by lia. assert (Sc : strand =? -1 = true) by lia. rewrite Sb in *.
    unfold up_arm in Hrec. cbn [nonempty] in Hrec. rewrite orb_true_r in Hrec.
    rewrite (up_spanning_bwd a (pre ++ [(us, ue); (es, ee)]) ((ds, de) :: post)) in Hrec
      by (unfold a; cbn [a_ex a_dsi]; rewrite <- ?app_assoc, ?zlength_app; reflexivity).
    rewrite rev_app_distr in Hrec. cbn [rev app] in Hrec.
    cbn [first_containing_bwd a a_j j_ue] in Hrec. unfold inside in Hrec. cbn [fst snd] in Hrec.
    rewrite zlength_app in Hrec. change (zlength [(us, ue); (es, ee)]) with 2 in Hrec.
    revert Hrec. zb. cbn [andb]. zb. intro Hrec.
    replace (zlength pre + 2 - 1 - 1) with (zlength pre) in Hrec by lia.
    unfold create_upstream_deletion, one in Hrec. cbn [nonempty hdZ lastZ rev app bind a_ex a a_j j_ue] in Hrec.
    rewrite exon_at_exact in Hrec. cbn [bind fst snd] in Hrec.
    rewrite Z.eqb_refl in Hrec. cbn [bind] in Hrec.
    rewrite exon_at_exact1 in Hrec. cbn [bind fst snd] in Hrec.
    rewrite !Hgc in Hrec by lia. cbn [bind] in Hrec.
    unfold finish_del in Hrec. fold strand in Hrec. rewrite Sc in Hrec.
    unfold gcoord in Hrec. rewrite Sb in Hrec.
    destruct (Hseq (ge - 1 - (ee - 1))) as [c Hc]; [lia|lia|].
    rewrite Hc in Hrec. cbn [bind] in Hrec.
    unfold mkloc in Hrec. assert (ge - 1 - es + 1 <? ge - 1 - (ee - 1) = false) as E by lia. rewrite E in Hrec.
    cbn [bind] in Hrec. inversion Hrec; subst rs. destruct Hin as [<-|[]]. cbn [r_kind r_S r_E]. repeat split; lia.
Qed.

(* the other two junctions of an SE event give nothing on a transcript that has U, E, D *)
Lemma se_skip_form_up : forall (pre post : list exon) us ue es ee ds de rs,
  t_exons t = pre ++ (us, ue) :: (es, ee) :: (ds, de) :: post ->
  chain gs (t_exons t) ge ->
  junction_records g gseq txi t (mkJ us ue es ee) false true = Ok rs -> rs = [].
Proof.
  intros pre post us ue es ee ds de rs Hex Hch Hrec.
  rewrite Hex in Hch.
  destruct (chain_pre _ _ _ _ _ Hch) as (Hpre & U1 & U2 & U3 & Hch2). cbn [fst snd] in *.
  cbn [chain fst snd] in Hch2. destruct Hch2 as (E1 & E2 & E3 & D1 & D2 & D3 & Hpost).
  pose proof (zlength_nonneg _ pre) as Hn.
  unfold junction_records, align in Hrec. cbn [j_us j_ue j_ds j_de] in Hrec. rewrite Hex in Hrec.
  rewrite !find_start_skip in Hrec by (intros x Hx; specialize (Hpre x Hx); lia).
  rewrite !find_end_skip in Hrec by (intros x Hx; specialize (Hpre x Hx); lia).
  cbn [find_start find_end] in Hrec.
  revert Hrec. zb. cbn [andb]. intro Hrec.
  replace (0 + zlength pre + 1) with (zlength pre + 1) in Hrec by lia.
  replace (0 + zlength pre) with (zlength pre) in Hrec by lia.
  match type of Hrec with aln_convert _ _ _ _ ?A = _ => set (a := A) in * end.
  assert (Hint : interjacent a = Ok []).
  { rewrite (interjacent_fwd a pre (us, ue) ((es, ee) :: (ds, de) :: post)); [|reflexivity|reflexivity|discriminate|unfold a; cbn [a_dsi]; lia].
    cbn [scan_fwd a_j a j_ue j_ds]. zb. reflexivity. }
  unfold aln_convert in Hrec. rewrite Hint in Hrec. cbn [bind a_un a_dn a negb andb app] in Hrec.
  unfold down_arm in Hrec. cbn [nonempty a_dsi a] in Hrec.
  revert Hrec. zb. cbn [orb bind app]. intro Hrec. inversion Hrec. reflexivity.
Qed.

Lemma se_skip_form_down : forall (pre post : list exon) us ue es ee ds de rs,
  t_exons t = pre ++ (us, ue) :: (es, ee) :: (ds, de) :: post ->
  chain gs (t_exons t) ge ->
  junction_records g gseq txi t (mkJ es ee ds de) true false = Ok rs -> rs = [].
Proof.
  intros pre post us ue es ee ds de rs Hex Hch Hrec.
  rewrite Hex in Hch.
  destruct (chain_pre _ _ _ _ _ Hch) as (Hpre & U1 & U2 & U3 & Hch2). cbn [fst snd] in *.
  cbn [chain fst snd] in Hch2. destruct Hch2 as (E1 & E2 & E3 & D1 & D2 & D3 & Hpost).
  pose proof (zlength_nonneg _ pre) as Hn.
  unfold junction_records, align in Hrec. cbn [j_us j_ue j_ds j_de] in Hrec. rewrite Hex in Hrec.
  rewrite !find_start_skip in Hrec by (intros x Hx; specialize (Hpre x Hx); lia).
  rewrite !find_end_skip in Hrec by (intros x Hx; specialize (Hpre x Hx); lia).
  cbn [find_start find_end] in Hrec.
  revert Hrec. zb. cbn [andb]. intro Hrec.
  replace (0 + zlength pre + 1 + 1) with (zlength pre + 2) in Hrec by lia.
  replace (0 + zlength pre + 1) with (zlength pre + 1) in Hrec by lia.
  match type of Hrec with aln_convert _ _ _ _ ?A = _ => set (a := A) in * end.
  assert (Hint : interjacent a = Ok []).
  { rewrite (interjacent_fwd a (pre ++ [(us, ue)]) (es, ee) ((ds, de) :: post));
      [|unfold a; cbn [a_ex]; rewrite <- app_assoc; reflexivity
       |unfold a; cbn [a_uei]; rewrite zlength_app; reflexivity|discriminate|unfold a; cbn [a_dsi]; lia].
    cbn [scan_fwd a_j a j_ue j_ds]. zb. reflexivity. }
  unfold aln_convert in Hrec. rewrite Hint in Hrec. cbn [bind a_un a_dn a negb andb app] in Hrec.
  unfold up_arm in Hrec. cbn [nonempty a_uei a] in Hrec.
  revert Hrec. zb. cbn [orb bind app]. intro Hrec. inversion Hrec. reflexivity.
Qed.


(* transcript with U, D adjacent (exon E of the event absent) *)
Lemma se_incl_form_skip : forall (pre post : list exon) us ue ds de rs,
  t_exons t = pre ++ (us, ue) :: (ds, de) :: post ->
  chain gs (t_exons t) ge ->
  junction_records g gseq txi t (mkJ us ue ds de) false false = Ok rs -> rs = [].
Proof.
  intros pre post us ue ds de rs Hex Hch Hrec.
  rewrite Hex in Hch.
  destruct (chain_pre _ _ _ _ _ Hch) as (Hpre & U1 & U2 & U3 & Hch2). cbn [fst snd] in *.
  cbn [chain fst snd] in Hch2. destruct Hch2 as (D1 & D2 & D3 & Hpost).
  pose proof (zlength_nonneg _ pre) as Hn.
  unfold junction_records, align in Hrec. cbn [j_us j_ue j_ds j_de] in Hrec. rewrite Hex in Hrec.
  rewrite !find_start_skip in Hrec by (intros x Hx; specialize (Hpre x Hx); lia).
  rewrite !find_end_skip in Hrec by (intros x Hx; specialize (Hpre x Hx); lia).
  cbn [find_start find_end] in Hrec.
  revert Hrec. zb. cbn [andb]. intro Hrec.
  replace (0 + zlength pre + 1) with (zlength pre + 1) in Hrec by lia.
  replace (0 + zlength pre) with (zlength pre) in Hrec by lia.
  match type of Hrec with aln_convert _ _ _ _ ?A = _ => set (a := A) in * end.
  assert (Hint : interjacent a = Ok []).
  { rewrite (interjacent_fwd a pre (us, ue) ((ds, de) :: post)); [|reflexivity|reflexivity|discriminate|unfold a; cbn [a_dsi]; lia].
    cbn [scan_fwd a_j a j_ue j_ds]. zb. reflexivity. }
  unfold aln_convert in Hrec. rewrite Hint in Hrec. cbn [bind a_un a_dn a negb andb app] in Hrec.
  unfold down_arm, up_arm in Hrec. cbn [nonempty a_dsi a_uei a] in Hrec.
  revert Hrec. zb. cbn [orb]. intro Hrec.
  destruct (_ && _) in Hrec; [destruct (g_strand g =? 1) in Hrec|]; cbn in Hrec; inversion Hrec; reflexivity.
Qed.

Lemma se_incl_form_up : forall (pre post : list exon) us ue es ee ds de rs,
  t_exons t = pre ++ (us, ue) :: (ds, de) :: post ->
  chain gs (t_exons t) ge -> ue < es -> es < ee -> ee < ds ->
  junction_records g gseq txi t (mkJ us ue es ee) false true = Ok rs -> rs = [].
Proof.
  intros pre post us ue es ee ds de rs Hex Hch O1 O2 O3 Hrec.
  rewrite Hex in Hch.
  destruct (chain_pre _ _ _ _ _ Hch) as (Hpre & U1 & U2 & U3 & Hch2). cbn [fst snd] in *.
  cbn [chain fst snd] in Hch2. destruct Hch2 as (D1 & D2 & D3 & Hpost).
  pose proof (chain_post _ _ _ Hpost) as Hpost'.
  pose proof (zlength_nonneg _ pre) as Hn.
  unfold junction_records, align in Hrec. cbn [j_us j_ue j_ds j_de] in Hrec. rewrite Hex in Hrec.
  rewrite (find_start_none _ es) in Hrec.
  2:{ intros x Hx. apply in_app_or in Hx. destruct Hx as [Hx|[<-|[<-|Hx]]]; cbn [fst];
      [specialize (Hpre x Hx)|..|specialize (Hpost' x Hx)]; lia. }
  rewrite (find_end_none _ ee) in Hrec.
  2:{ intros x Hx. apply in_app_or in Hx. destruct Hx as [Hx|[<-|[<-|Hx]]]; cbn [snd];
      [specialize (Hpre x Hx)|..|specialize (Hpost' x Hx)]; lia. }
  rewrite !find_start_skip in Hrec by (intros x Hx; specialize (Hpre x Hx); lia).
  rewrite !find_end_skip in Hrec by (intros x Hx; specialize (Hpre x Hx); lia).
  cbn [find_start find_end] in Hrec.
  revert Hrec. zb. cbn [andb]. intro Hrec.
  replace (0 + zlength pre) with (zlength pre) in Hrec by lia.
  match type of Hrec with aln_convert _ _ _ _ ?A = _ => set (a := A) in * end.
  assert (Hint : interjacent a = Ok []).
  { rewrite (interjacent_fwd a pre (us, ue) ((ds, de) :: post)); [|reflexivity|reflexivity|discriminate|unfold a; cbn [a_dsi]; lia].
    cbn [scan_fwd a_j a j_ue j_ds]. zb. reflexivity. }
  unfold aln_convert in Hrec. rewrite Hint in Hrec. cbn [bind a_un a_dn a negb andb app] in Hrec.
  unfold down_arm in Hrec. cbn [nonempty a_dsi a_dei a] in Hrec.
  rewrite (down_spanning_fwd a pre (us, ue) ((ds, de) :: post)) in Hrec by reflexivity.
  cbn [find_containing a a_j j_ds] in Hrec. unfold inside at 1 in Hrec. cbn [fst snd] in Hrec.
  rewrite find_containing_none in Hrec
    by (intros x Hx; specialize (Hpost' x Hx); unfold inside; lia).
  revert Hrec. zb. cbn [orb andb bind app]. intro Hrec. inversion Hrec. reflexivity.
Qed.

Lemma se_incl_form_down : forall (pre post : list exon) us ue es ee ds de rs,
  t_exons t = pre ++ (us, ue) :: (ds, de) :: post ->
  chain gs (t_exons t) ge -> ue < es -> es < ee -> ee < ds ->
  junction_records g gseq txi t (mkJ es ee ds de) true false = Ok rs ->
  forall r, In r rs ->
    r_kind r = KIns /\
    r_start r = (if strand =? 1 then ue - 1 - gs else ge - 1 - ds) /\
    r_DS r = (if strand =? 1 then es - gs else ge - ee) /\
    r_DE r = (if strand =? 1 then ee - gs else ge - es).
Proof.
  intros pre post us ue es ee ds de rs Hex Hch O1 O2 O3 Hrec r Hin.
  rewrite Hex in Hch.
  destruct (chain_pre _ _ _ _ _ Hch) as (Hpre & U1 & U2 & U3 & Hch2). cbn [fst snd] in *.
  cbn [chain fst snd] in Hch2. destruct Hch2 as (D1 & D2 & D3 & Hpost).
  pose proof (chain_post _ _ _ Hpost) as Hpost'.
  pose proof (zlength_nonneg _ pre) as Hn.
  unfold junction_records, align in Hrec. cbn [j_us j_ue j_ds j_de] in Hrec. rewrite Hex in Hrec.
  rewrite (find_start_none _ es) in Hrec.
  2:{ intros x Hx. apply in_app_or in Hx. destruct Hx as [Hx|[<-|[<-|Hx]]]; cbn [fst];
      [specialize (Hpre x Hx)|..|specialize (Hpost' x Hx)]; lia. }
  rewrite (find_end_none _ ee) in Hrec.
  2:{ intros x Hx. apply in_app_or in Hx. destruct Hx as [Hx|[<-|[<-|Hx]]]; cbn [snd];
      [specialize (Hpre x Hx)|..|specialize (Hpost' x Hx)]; lia. }
  rewrite !find_start_skip in Hrec by (intros x Hx; specialize (Hpre x Hx); lia).
  rewrite !find_end_skip in Hrec by (intros x Hx; specialize (Hpre x Hx); lia).
  cbn [find_start find_end] in Hrec.
  revert Hrec. zb. cbn [andb]. intro Hrec.
  replace (0 + zlength pre + 1) with (zlength pre + 1) in Hrec by lia.
  match type of Hrec with aln_convert _ _ _ _ ?A = _ => set (a := A) in * end.
  assert (Hex' : a_ex a = (pre ++ [(us, ue)]) ++ (ds, de) :: post)
    by (unfold a; cbn [a_ex]; rewrite <- app_assoc; reflexivity).
  assert (Hdsi : a_dsi a = zlength (pre ++ [(us, ue)]))
    by (unfold a; cbn [a_dsi]; rewrite zlength_app; reflexivity).
  assert (Hint : interjacent a = Ok []).
  { rewrite (interjacent_bwd a _ _ Hex' eq_refl Hdsi) by (destruct pre; discriminate).
    rewrite rev_app_distr. cbn [rev app scan_bwd a_j a j_ue j_ds]. zb. reflexivity. }
  unfold aln_convert in Hrec. rewrite Hint in Hrec. cbn [bind a_un a_dn a negb andb app] in Hrec.
  unfold up_arm in Hrec. cbn [nonempty a_uei a] in Hrec.
  rewrite (up_spanning_bwd a _ _ Hex' Hdsi) in Hrec.
  rewrite rev_app_distr in Hrec. cbn [rev app first_containing_bwd a a_j j_ue] in Hrec.
  unfold inside at 1 in Hrec. cbn [fst snd] in Hrec.
  rewrite first_containing_bwd_none in Hrec
    by (intros x Hx; apply in_rev in Hx; specialize (Hpre x Hx); unfold inside; lia).
  cbn [a_dsi] in Hrec.
  revert Hrec. zb. cbn [orb andb]. intro Hrec.
  assert (Hgc : forall p, gs <= p -> p < ge -> g2gene g p = Ok (gcoord strand gs ge p))
    by (intros; apply g2gene_ok; assumption).
  assert (Hseq : forall i, 0 <= i -> i < ge - gs -> exists c, seq_at gseq i = Ok c)
    by (intros; apply (seq_at_ok g chrom Hgs Hge); assumption).
  unfold create_upstream_insertion, one in Hrec. cbn [a_dsi a_ex a a_j j_us j_ue j_ds] in Hrec.
  revert Hrec. zb. intro Hrec.
  replace (zlength pre + 1 - 1) with (zlength pre) in Hrec by lia.
  rewrite exon_at_exact in Hrec. cbn [bind fst snd] in Hrec.
  replace (Z.max ue es) with es in Hrec by lia.
  fold strand in Hrec.
  destruct Hstrand as [S|S].
  - assert (Sb : strand =? 1 = true) by lia. rewrite Sb in *.
    unfold finish_ins in Hrec. rewrite !Hgc in Hrec by lia. cbn [bind] in Hrec.
    unfold gcoord in Hrec. rewrite Sb in Hrec.
    destruct (Hseq (ue - 1 - gs)) as [c Hc]; [lia|lia|].
    rewrite Hc in Hrec. cbn [bind] in Hrec.
    inversion Hrec; subst rs. destruct Hin as [<-|[]]. cbn [r_kind r_start r_DS r_DE]. repeat split; lia.
  - assert (Sb : strand =? 1 = false) by lia. rewrite Sb in *.
    unfold finish_ins in Hrec. rewrite !Hgc in Hrec by lia. cbn [bind] in Hrec.
    unfold gcoord in Hrec. rewrite Sb in Hrec.
    destruct (Hseq (ge - 1 - ds)) as [c Hc]; [lia|lia|].
    rewrite Hc in Hrec. cbn [bind] in Hrec.
    inversion Hrec; subst rs. destruct Hin as [<-|[]]. cbn [r_kind r_start r_DS r_DE]. repeat split; lia.
Qed.

(* ------------------------------------------------------------------ MXE: transcript carries U X D *)
(* X = first exon: the junction first->D is the transcript's own, nothing to emit *)
Lemma mxe_first_fd : forall (pre post : list exon) us ue f1s f1e ds de rs,
  t_exons t = pre ++ (us, ue) :: (f1s, f1e) :: (ds, de) :: post ->
  chain gs (t_exons t) ge ->
  junction_records g gseq txi t (mkJ f1s f1e ds de) true false = Ok rs -> rs = [].
Proof.
  intros pre post us ue f1s f1e ds de rs Hex Hch Hrec.
  eapply (se_skip_form_down pre post us ue f1s f1e ds de); eassumption.
Qed.

(* X = second exon: the junction U->second is the transcript's own, nothing to emit *)
Lemma mxe_second_su : forall (pre post : list exon) us ue f2s f2e ds de rs,
  t_exons t = pre ++ (us, ue) :: (f2s, f2e) :: (ds, de) :: post ->
  chain gs (t_exons t) ge ->
  junction_records g gseq txi t (mkJ us ue f2s f2e) false true = Ok rs -> rs = [].
Proof.
  intros pre post us ue f2s f2e ds de rs Hex Hch Hrec.
  eapply (se_skip_form_up pre post us ue f2s f2e ds de); eassumption.
Qed.

(* X = first exon, junction U->second (second lies in the intron between X and D): X is substituted by second *)
Lemma mxe_first_su : forall (pre post : list exon) us ue f1s f1e f2s f2e ds de rs,
  t_exons t = pre ++ (us, ue) :: (f1s, f1e) :: (ds, de) :: post ->
  chain gs (t_exons t) ge -> f1e < f2s -> f2s < f2e -> f2e < ds ->
  junction_records g gseq txi t (mkJ us ue f2s f2e) false true = Ok rs ->
  forall r, In r rs ->
    r_kind r = KSub /\
    r_S r = (if strand =? 1 then f1s - gs else ge - f1e) /\ r_E r = (if strand =? 1 then f1e - gs else ge - f1s) /\
    r_DS r = (if strand =? 1 then f2s - gs else ge - f2e) /\ r_DE r = (if strand =? 1 then f2e - gs else ge - f2s).
Proof.
  intros pre post us ue f1s f1e f2s f2e ds de rs Hex Hch O1 O2 O3 Hrec r Hin.
  rewrite Hex in Hch.
  destruct (chain_pre _ _ _ _ _ Hch) as (Hpre & U1 & U2 & U3 & Hch2). cbn [fst snd] in *.
  cbn [chain fst snd] in Hch2. destruct Hch2 as (E1 & E2 & E3 & D1 & D2 & D3 & Hpost).
  pose proof (chain_post _ _ _ Hpost) as Hpost'.
  pose proof (zlength_nonneg _ pre) as Hn. pose proof (zlength_nonneg _ post) as Hm.
  unfold junction_records, align in Hrec. cbn [j_us j_ue j_ds j_de] in Hrec. rewrite Hex in Hrec.
  rewrite (find_start_none _ f2s) in Hrec.
  2:{ intros x Hx. apply in_app_or in Hx. destruct Hx as [Hx|[<-|[<-|[<-|Hx]]]]; cbn [fst];
      [specialize (Hpre x Hx)|..|specialize (Hpost' x Hx)]; lia. }
  rewrite (find_end_none _ f2e) in Hrec.
  2:{ intros x Hx. apply in_app_or in Hx. destruct Hx as [Hx|[<-|[<-|[<-|Hx]]]]; cbn [snd];
      [specialize (Hpre x Hx)|..|specialize (Hpost' x Hx)]; lia. }
  rewrite !find_start_skip in Hrec by (intros x Hx; specialize (Hpre x Hx); lia).
  rewrite !find_end_skip in Hrec by (intros x Hx; specialize (Hpre x Hx); lia).
  cbn [find_start find_end] in Hrec.
  revert Hrec. zb. cbn [andb]. intro Hrec.
  replace (0 + zlength pre) with (zlength pre) in Hrec by lia.
  match type of Hrec with aln_convert _ _ _ _ ?A = _ => set (a := A) in * end.
  assert (Hint : interjacent a = Ok [zlength pre + 1]).
  { rewrite (interjacent_fwd a pre (us, ue) ((f1s, f1e) :: (ds, de) :: post)); [|reflexivity|reflexivity|discriminate|unfold a; cbn [a_dsi]; lia].
    cbn [scan_fwd a_j a j_ue j_ds]. zb. reflexivity. }
  unfold aln_convert in Hrec. rewrite Hint in Hrec. cbn [bind a_un a_dn a negb andb app] in Hrec.
  unfold down_arm in Hrec. cbn [nonempty a_dsi a] in Hrec. rewrite orb_true_r in Hrec.
  rewrite (down_spanning_fwd a pre (us, ue) ((f1s, f1e) :: (ds, de) :: post)) in Hrec by reflexivity.
  cbn [find_containing a a_j j_ds] in Hrec. unfold inside at 1 2 in Hrec. cbn [fst snd] in Hrec.
  rewrite find_containing_none in Hrec by (intros x Hx; specialize (Hpost' x Hx); unfold inside; lia).
  revert Hrec. zb. cbn [andb]. zb. intro Hrec.
  assert (Hgc : forall p, gs <= p -> p < ge -> g2gene g p = Ok (gcoord strand gs ge p))
    by (intros; apply g2gene_ok; assumption).
  assert (Hseq : forall i, 0 <= i -> i < ge - gs -> exists c, seq_at gseq i = Ok c)
    by (intros; apply (seq_at_ok g chrom Hgs Hge); assumption).
  unfold create_downstream_substitution, one in Hrec. cbn [hdZ lastZ rev app bind a_ex a a_j j_ds j_de] in Hrec.
  rewrite exon_at_exact1 in Hrec. cbn [bind fst snd] in Hrec.
  rewrite !zlength_app, !zlength_cons in Hrec.
  revert Hrec. zb. intro Hrec.
  replace (zlength pre + 1 + 1) with (zlength pre + 2) in Hrec by lia.
  rewrite exon_at_exact2 in Hrec. cbn [bind fst snd] in Hrec.
  replace (Z.min ds f2e) with f2e in Hrec by lia.
  rewrite if_same in Hrec. cbn [bind] in Hrec.
  rewrite !Hgc in Hrec by lia. cbn [bind] in Hrec.
  unfold finish_sub in Hrec. fold strand in Hrec. unfold gcoord in Hrec.
  destruct Hstrand as [S|S].
  - assert (Sb : strand =? 1 = true) by lia. assert (Sc : strand =? -1 = false) by lia. rewrite Sb, Sc in *.
    destruct (Hseq (f1s - gs)) as [c Hc]; [lia|lia|]. rewrite Hc in Hrec. cbn [bind] in Hrec.
    unfold mkloc in Hrec. assert (f1e - 1 - gs + 1 <? f1s - gs = false) as E by lia. rewrite E in Hrec.
    cbn [bind] in Hrec. inversion Hrec; subst rs. destruct Hin as [<-|[]]. cbn [r_kind r_S r_E r_DS r_DE]. repeat split; lia.
  - assert (Sb : strand =? 1 = false) by lia. assert (Sc : strand =? -1 = true) by lia. rewrite Sb, Sc in *.
    destruct (Hseq (ge - 1 - (f1e - 1))) as [c Hc]; [lia|lia|]. rewrite Hc in Hrec. cbn [bind] in Hrec.
    unfold mkloc in Hrec. assert (ge - 1 - f1s + 1 <? ge - 1 - (f1e - 1) = false) as E by lia. rewrite E in Hrec.
    cbn [bind] in Hrec. inversion Hrec; subst rs. destruct Hin as [<-|[]]. cbn [r_kind r_S r_E r_DS r_DE]. repeat split; lia.
Qed.


(* X = second exon, junction first->D (first lies in the intron between U and X): X is substituted by first *)
Lemma mxe_second_fd : forall (pre post : list exon) us ue f1s f1e f2s f2e ds de rs,
  t_exons t = pre ++ (us, ue) :: (f2s, f2e) :: (ds, de) :: post ->
  chain gs (t_exons t) ge -> ue < f1s -> f1s < f1e -> f1e < f2s ->
  junction_records g gseq txi t (mkJ f1s f1e ds de) true false = Ok rs ->
  forall r, In r rs ->
    r_kind r = KSub /\
    r_S r = (if strand =? 1 then f2s - gs else ge - f2e) /\ r_E r = (if strand =? 1 then f2e - gs else ge - f2s) /\
    r_DS r = (if strand =? 1 then f1s - gs else ge - f1e) /\ r_DE r = (if strand =? 1 then f1e - gs else ge - f1s).
Proof.
  intros pre post us ue f1s f1e f2s f2e ds de rs Hex Hch O1 O2 O3 Hrec r Hin.
  rewrite Hex in Hch.
  destruct (chain_pre _ _ _ _ _ Hch) as (Hpre & U1 & U2 & U3 & Hch2). cbn [fst snd] in *.
  cbn [chain fst snd] in Hch2. destruct Hch2 as (E1 & E2 & E3 & D1 & D2 & D3 & Hpost).
  pose proof (chain_post _ _ _ Hpost) as Hpost'.
  pose proof (zlength_nonneg _ pre) as Hn. pose proof (zlength_nonneg _ post) as Hm.
  unfold junction_records, align in Hrec. cbn [j_us j_ue j_ds j_de] in Hrec. rewrite Hex in Hrec.
  rewrite (find_start_none _ f1s) in Hrec.
  2:{ intros x Hx. apply in_app_or in Hx. destruct Hx as [Hx|[<-|[<-|[<-|Hx]]]]; cbn [fst];
      [specialize (Hpre x Hx)|..|specialize (Hpost' x Hx)]; lia. }
  rewrite (find_end_none _ f1e) in Hrec.
  2:{ intros x Hx. apply in_app_or in Hx. destruct Hx as [Hx|[<-|[<-|[<-|Hx]]]]; cbn [snd];
      [specialize (Hpre x Hx)|..|specialize (Hpost' x Hx)]; lia. }
  rewrite !find_start_skip in Hrec by (intros x Hx; specialize (Hpre x Hx); lia).
  rewrite !find_end_skip in Hrec by (intros x Hx; specialize (Hpre x Hx); lia).
  cbn [find_start find_end] in Hrec.
  revert Hrec. zb. cbn [andb]. intro Hrec.
  replace (0 + zlength pre + 1 + 1) with (zlength pre + 2) in Hrec by lia.
  match type of Hrec with aln_convert _ _ _ _ ?A = _ => set (a := A) in * end.
  assert (Hex' : a_ex a = (pre ++ [(us, ue); (f2s, f2e)]) ++ (ds, de) :: post)
    by (unfold a; cbn [a_ex]; rewrite <- app_assoc; reflexivity).
  assert (Hdsi : a_dsi a = zlength (pre ++ [(us, ue); (f2s, f2e)]))
    by (unfold a; cbn [a_dsi]; rewrite zlength_app; reflexivity).
  assert (Hint : interjacent a = Ok [zlength pre + 1]).
  { rewrite (interjacent_bwd a _ _ Hex' eq_refl Hdsi) by (destruct pre; discriminate).
    rewrite rev_app_distr. cbn [rev app scan_bwd a_j a j_ue j_ds].
    rewrite zlength_app. change (zlength [(us, ue); (f2s, f2e)]) with 2. zb. cbn [andb orb app rev].
    f_equal. f_equal. lia. }
  unfold aln_convert in Hrec. rewrite Hint in Hrec. cbn [bind a_un a_dn a negb andb app] in Hrec.
  unfold up_arm in Hrec. cbn [nonempty a_uei a] in Hrec. rewrite orb_true_r in Hrec.
  rewrite (up_spanning_bwd a _ _ Hex' Hdsi) in Hrec.
  rewrite rev_app_distr in Hrec. cbn [rev app first_containing_bwd a a_j j_ue] in Hrec.
  unfold inside at 1 2 in Hrec. cbn [fst snd] in Hrec.
  rewrite first_containing_bwd_none in Hrec
    by (intros x Hx; apply in_rev in Hx; specialize (Hpre x Hx); unfold inside; lia).
  revert Hrec. zb. cbn [andb]. zb. intro Hrec.
  assert (Hgc : forall p, gs <= p -> p < ge -> g2gene g p = Ok (gcoord strand gs ge p))
    by (intros; apply g2gene_ok; assumption).
  assert (Hseq : forall i, 0 <= i -> i < ge - gs -> exists c, seq_at gseq i = Ok c)
    by (intros; apply (seq_at_ok g chrom Hgs Hge); assumption).
  unfold create_upstream_substitution, one in Hrec. cbn [hdZ lastZ rev app bind a_ex a a_j j_us j_ue] in Hrec.
  rewrite exon_at_exact1 in Hrec. cbn [bind fst snd] in Hrec.
  revert Hrec. zb. intro Hrec.
  replace (zlength pre + 1 - 1) with (zlength pre) in Hrec by lia.
  rewrite exon_at_exact in Hrec. cbn [bind fst snd] in Hrec.
  replace (Z.max ue f1s) with f1s in Hrec by lia.
  rewrite !Hgc in Hrec by lia. cbn [bind] in Hrec.
  unfold finish_sub in Hrec. fold strand in Hrec. unfold gcoord in Hrec.
  destruct Hstrand as [S|S].
  - assert (Sb : strand =? 1 = true) by lia. assert (Sc : strand =? -1 = false) by lia. rewrite Sb, Sc in *.
    destruct (Hseq (f2s - gs)) as [c Hc]; [lia|lia|]. rewrite Hc in Hrec. cbn [bind] in Hrec.
    unfold mkloc in Hrec. assert (f2e - 1 - gs + 1 <? f2s - gs = false) as E by lia. rewrite E in Hrec.
    cbn [bind] in Hrec. inversion Hrec; subst rs. destruct Hin as [<-|[]]. cbn [r_kind r_S r_E r_DS r_DE]. repeat split; lia.
  - assert (Sb : strand =? 1 = false) by lia. assert (Sc : strand =? -1 = true) by lia. rewrite Sb, Sc in *.
    destruct (Hseq (ge - 1 - (f2e - 1))) as [c Hc]; [lia|lia|]. rewrite Hc in Hrec. cbn [bind] in Hrec.
    unfold mkloc in Hrec. assert (ge - 1 - f2s + 1 <? ge - 1 - (f2e - 1) = false) as E by lia. rewrite E in Hrec.
    cbn [bind] in Hrec. inversion Hrec; subst rs. destruct Hin as [<-|[]]. cbn [r_kind r_S r_E r_DS r_DE]. repeat split; lia.
Qed.


(* ------------------------------------------------------------------ A5SS / A3SS: transcript carries ... a b ... *)
Lemma scan_bwd_nil : forall (l : list exon) ue ds i,
  (forall x, In x l -> fst x < snd x /\ snd x <= ue) -> scan_bwd l ue ds i = [].
Proof.
  intros. destruct l as [|[s e] tl]; [reflexivity|]. cbn [scan_bwd].
  pose proof (H (s, e) (or_introl eq_refl)). cbn [fst snd] in *.
  assert ((ue <=? s) && (s <? e) && (e <=? ds) = false) as -> by lia.
  assert ((e <=? ue) || (s >=? ds) = true) as -> by lia. reflexivity.
Qed.
Lemma scan_fwd_nil : forall (l : list exon) ue ds i,
  (forall x, In x l -> fst x < snd x /\ ds <= fst x) -> scan_fwd l ue ds i = [].
Proof.
  intros. destruct l as [|[s e] tl]; [reflexivity|]. cbn [scan_fwd].
  pose proof (H (s, e) (or_introl eq_refl)). cbn [fst snd] in *.
  assert ((ue <=? s) && (s <? e) && (e <=? ds) = false) as -> by lia.
  assert ((e <=? ue) || (s >=? ds) = true) as -> by lia. reflexivity.
Qed.

(* geometry A: the alternative boundary is the END of exon a; junction (xs, xe, b1, fe), upstream_novel *)
(* A0: xe is a's own end: nothing *)
Lemma ssA_own : forall (pre post : list exon) a1 a2 b1 b2 xs fe rs,
  t_exons t = pre ++ (a1, a2) :: (b1, b2) :: post ->
  chain gs (t_exons t) ge ->
  junction_records g gseq txi t (mkJ xs a2 b1 fe) true false = Ok rs -> rs = [].
Proof.
  intros pre post a1 a2 b1 b2 xs fe rs Hex Hch Hrec.
  rewrite Hex in Hch.
  destruct (chain_pre _ _ _ _ _ Hch) as (Hpre & U1 & U2 & U3 & Hch2). cbn [fst snd] in *.
  cbn [chain fst snd] in Hch2. destruct Hch2 as (E1 & E2 & E3 & Hpost).
  pose proof (zlength_nonneg _ pre) as Hn.
  unfold junction_records, align in Hrec. cbn [j_us j_ue j_ds j_de] in Hrec. rewrite Hex in Hrec.
  rewrite (find_start_skip pre _ b1) in Hrec by (intros x Hx; specialize (Hpre x Hx); lia).
  rewrite (find_end_skip pre _ a2) in Hrec by (intros x Hx; specialize (Hpre x Hx); lia).
  cbn [find_start find_end] in Hrec.
  revert Hrec. zb. cbn [andb]. intro Hrec.
  replace (0 + zlength pre + 1) with (zlength pre + 1) in Hrec by lia.
  replace (0 + zlength pre) with (zlength pre) in Hrec by lia.
  match type of Hrec with aln_convert _ _ _ _ ?A = _ => set (a := A) in * end.
  assert (Hint : interjacent a = Ok []).
  { rewrite (interjacent_fwd a pre (a1, a2) ((b1, b2) :: post)); [|reflexivity|reflexivity|discriminate|unfold a; cbn [a_dsi]; lia].
    cbn [scan_fwd a_j a j_ue j_ds]. zb. reflexivity. }
  unfold aln_convert in Hrec. rewrite Hint in Hrec. cbn [bind a_un a_dn a negb andb app] in Hrec.
  unfold up_arm in Hrec. cbn [nonempty a_uei a] in Hrec.
  revert Hrec. zb. cbn [orb bind app]. intro Hrec. inversion Hrec. reflexivity.
Qed.

(* A1: xe = to lies inside a (a1 < to < a2): the tail [to, a2) of a is deleted *)
Lemma ssA_del : forall (pre post : list exon) a1 a2 b1 b2 xs to fe rs,
  t_exons t = pre ++ (a1, a2) :: (b1, b2) :: post ->
  chain gs (t_exons t) ge -> a1 < to -> to < a2 ->
  junction_records g gseq txi t (mkJ xs to b1 fe) true false = Ok rs ->
  forall r, In r rs ->
    r_kind r = KDel /\ r_S r = (if strand =? 1 then to - gs else ge - a2) /\
    r_E r = (if strand =? 1 then a2 - gs else ge - to).
Proof.
  intros pre post a1 a2 b1 b2 xs to fe rs Hex Hch O1 O2 Hrec r Hin.
  rewrite Hex in Hch.
  destruct (chain_pre _ _ _ _ _ Hch) as (Hpre & U1 & U2 & U3 & Hch2). cbn [fst snd] in *.
  cbn [chain fst snd] in Hch2. destruct Hch2 as (E1 & E2 & E3 & Hpost).
  pose proof (chain_post _ _ _ Hpost) as Hpost'.
  pose proof (zlength_nonneg _ pre) as Hn.
  unfold junction_records, align in Hrec. cbn [j_us j_ue j_ds j_de] in Hrec. rewrite Hex in Hrec.
  rewrite (find_end_none _ to) in Hrec.
  2:{ intros x Hx. apply in_app_or in Hx. destruct Hx as [Hx|[<-|[<-|Hx]]]; cbn [snd];
      [specialize (Hpre x Hx)|..|specialize (Hpost' x Hx)]; lia. }
  rewrite (find_start_skip pre _ b1) in Hrec by (intros x Hx; specialize (Hpre x Hx); lia).
  cbn [find_start] in Hrec.
  revert Hrec. zb. cbn [andb]. intro Hrec.
  replace (0 + zlength pre + 1) with (zlength pre + 1) in Hrec by lia.
  match type of Hrec with aln_convert _ _ _ _ ?A = _ => set (a := A) in * end.
  assert (Hex' : a_ex a = (pre ++ [(a1, a2)]) ++ (b1, b2) :: post)
    by (unfold a; cbn [a_ex]; rewrite <- app_assoc; reflexivity).
  assert (Hdsi : a_dsi a = zlength (pre ++ [(a1, a2)]))
    by (unfold a; cbn [a_dsi]; rewrite zlength_app; reflexivity).
  assert (Hint : interjacent a = Ok []).
  { rewrite (interjacent_bwd a _ _ Hex' eq_refl Hdsi) by (destruct pre; discriminate).
    rewrite rev_app_distr. cbn [rev app scan_bwd a_j a j_ue j_ds]. zb. cbn [andb orb app].
    rewrite scan_bwd_nil; [reflexivity|].
    intros x Hx. apply in_rev in Hx. specialize (Hpre x Hx). lia. }
  unfold aln_convert in Hrec. rewrite Hint in Hrec. cbn [bind a_un a_dn a negb andb app] in Hrec.
  unfold up_arm in Hrec. cbn [nonempty a_uei a] in Hrec.
  rewrite (up_spanning_bwd a _ _ Hex' Hdsi) in Hrec.
  rewrite rev_app_distr in Hrec. cbn [rev app first_containing_bwd a a_j j_ue] in Hrec.
  unfold inside at 1 in Hrec. cbn [fst snd] in Hrec.
  rewrite zlength_app in Hrec. change (zlength [(a1, a2)]) with 1 in Hrec.
  revert Hrec. zb. cbn [orb andb]. zb. intro Hrec.
  replace (zlength pre + 1 - 1) with (zlength pre) in Hrec by lia.
  assert (Hgc : forall p, gs <= p -> p < ge -> g2gene g p = Ok (gcoord strand gs ge p))
    by (intros; apply g2gene_ok; assumption).
  assert (Hseq : forall i, 0 <= i -> i < ge - gs -> exists c, seq_at gseq i = Ok c)
    by (intros; apply (seq_at_ok g chrom Hgs Hge); assumption).
  unfold create_upstream_deletion, one in Hrec. cbn [nonempty bind a_ex a a_j j_ue] in Hrec.
  unfold inside in Hrec. cbn [fst snd] in Hrec. revert Hrec. zb. cbn [andb]. intro Hrec.
  rewrite exon_at_exact in Hrec. cbn [bind fst snd] in Hrec.
  revert Hrec. zb. intro Hrec. cbn [bind] in Hrec.
  rewrite !Hgc in Hrec by lia. cbn [bind] in Hrec.
  unfold finish_del in Hrec. fold strand in Hrec. unfold gcoord in Hrec.
  destruct Hstrand as [S|S].
  - assert (Sb : strand =? 1 = true) by lia. assert (Sc : strand =? -1 = false) by lia. rewrite Sb, Sc in *.
    destruct (Hseq (to - gs)) as [c Hc]; [lia|lia|]. rewrite Hc in Hrec. cbn [bind] in Hrec.
    unfold mkloc in Hrec. assert (a2 - 1 - gs + 1 <? to - gs = false) as E by lia. rewrite E in Hrec.
    cbn [bind] in Hrec. inversion Hrec; subst rs. destruct Hin as [<-|[]]. cbn [r_kind r_S r_E]. repeat split; lia.
  - assert (Sb : strand =? 1 = false) by lia. assert (Sc : strand =? -1 = true) by lia. rewrite Sb, Sc in *.
    destruct (Hseq (ge - 1 - (a2 - 1))) as [c Hc]; [lia|lia|]. rewrite Hc in Hrec. cbn [bind] in Hrec.
    unfold mkloc in Hrec. assert (ge - 1 - to + 1 <? ge - 1 - (a2 - 1) = false) as E by lia. rewrite E in Hrec.
    cbn [bind] in Hrec. inversion Hrec; subst rs. destruct Hin as [<-|[]]. cbn [r_kind r_S r_E]. repeat split; lia.
Qed.


(* A2: xe = to lies in the intron behind a (a2 < to < b1): [a2, to) is inserted after a *)
Lemma ssA_ins : forall (pre post : list exon) a1 a2 b1 b2 xs to fe rs,
  t_exons t = pre ++ (a1, a2) :: (b1, b2) :: post ->
  chain gs (t_exons t) ge -> a2 < to -> to < b1 -> xs <= a2 ->
  junction_records g gseq txi t (mkJ xs to b1 fe) true false = Ok rs ->
  forall r, In r rs ->
    r_kind r = KIns /\
    r_start r = (if strand =? 1 then a2 - 1 - gs else ge - 1 - b1) /\
    r_DS r = (if strand =? 1 then a2 - gs else ge - to) /\
    r_DE r = (if strand =? 1 then to - gs else ge - a2).
Proof.
  intros pre post a1 a2 b1 b2 xs to fe rs Hex Hch O1 O2 O3 Hrec r Hin.
  rewrite Hex in Hch.
  destruct (chain_pre _ _ _ _ _ Hch) as (Hpre & U1 & U2 & U3 & Hch2). cbn [fst snd] in *.
  cbn [chain fst snd] in Hch2. destruct Hch2 as (E1 & E2 & E3 & Hpost).
  pose proof (chain_post _ _ _ Hpost) as Hpost'.
  pose proof (zlength_nonneg _ pre) as Hn.
  unfold junction_records, align in Hrec. cbn [j_us j_ue j_ds j_de] in Hrec. rewrite Hex in Hrec.
  rewrite (find_end_none _ to) in Hrec.
  2:{ intros x Hx. apply in_app_or in Hx. destruct Hx as [Hx|[<-|[<-|Hx]]]; cbn [snd];
      [specialize (Hpre x Hx)|..|specialize (Hpost' x Hx)]; lia. }
  rewrite (find_start_skip pre _ b1) in Hrec by (intros x Hx; specialize (Hpre x Hx); lia).
  cbn [find_start] in Hrec.
  revert Hrec. zb. cbn [andb]. intro Hrec.
  replace (0 + zlength pre + 1) with (zlength pre + 1) in Hrec by lia.
  match type of Hrec with aln_convert _ _ _ _ ?A = _ => set (a := A) in * end.
  assert (Hex' : a_ex a = (pre ++ [(a1, a2)]) ++ (b1, b2) :: post)
    by (unfold a; cbn [a_ex]; rewrite <- app_assoc; reflexivity).
  assert (Hdsi : a_dsi a = zlength (pre ++ [(a1, a2)]))
    by (unfold a; cbn [a_dsi]; rewrite zlength_app; reflexivity).
  assert (Hint : interjacent a = Ok []).
  { rewrite (interjacent_bwd a _ _ Hex' eq_refl Hdsi) by (destruct pre; discriminate).
    rewrite rev_app_distr. cbn [rev app scan_bwd a_j a j_ue j_ds]. zb. reflexivity. }
  unfold aln_convert in Hrec. rewrite Hint in Hrec. cbn [bind a_un a_dn a negb andb app] in Hrec.
  unfold up_arm in Hrec. cbn [nonempty a_uei a] in Hrec.
  rewrite (up_spanning_bwd a _ _ Hex' Hdsi) in Hrec.
  rewrite rev_app_distr in Hrec. cbn [rev app first_containing_bwd a a_j j_ue] in Hrec.
  unfold inside at 1 in Hrec. cbn [fst snd] in Hrec.
  rewrite first_containing_bwd_none in Hrec
    by (intros x Hx; apply in_rev in Hx; specialize (Hpre x Hx); unfold inside; lia).
  cbn [a_dsi] in Hrec.
  revert Hrec. zb. cbn [orb andb]. intro Hrec.
  assert (Hgc : forall p, gs <= p -> p < ge -> g2gene g p = Ok (gcoord strand gs ge p))
    by (intros; apply g2gene_ok; assumption).
  assert (Hseq : forall i, 0 <= i -> i < ge - gs -> exists c, seq_at gseq i = Ok c)
    by (intros; apply (seq_at_ok g chrom Hgs Hge); assumption).
  unfold create_upstream_insertion, one in Hrec. cbn [a_dsi a_ex a a_j j_us j_ue j_ds] in Hrec.
  revert Hrec. zb. intro Hrec.
  replace (zlength pre + 1 - 1) with (zlength pre) in Hrec by lia.
  rewrite exon_at_exact in Hrec. cbn [bind fst snd] in Hrec.
  replace (Z.max a2 xs) with a2 in Hrec by lia.
  fold strand in Hrec.
  destruct Hstrand as [S|S].
  - assert (Sb : strand =? 1 = true) by lia. rewrite Sb in *.
    unfold finish_ins in Hrec. rewrite !Hgc in Hrec by lia. cbn [bind] in Hrec.
    unfold gcoord in Hrec. rewrite Sb in Hrec.
    destruct (Hseq (a2 - 1 - gs)) as [c Hc]; [lia|lia|].
    rewrite Hc in Hrec. cbn [bind] in Hrec.
    inversion Hrec; subst rs. destruct Hin as [<-|[]]. cbn [r_kind r_start r_DS r_DE]. repeat split; lia.
  - assert (Sb : strand =? 1 = false) by lia. rewrite Sb in *.
    unfold finish_ins in Hrec. rewrite !Hgc in Hrec by lia. cbn [bind] in Hrec.
    unfold gcoord in Hrec. rewrite Sb in Hrec.
    destruct (Hseq (ge - 1 - b1)) as [c Hc]; [lia|lia|].
    rewrite Hc in Hrec. cbn [bind] in Hrec.
    inversion Hrec; subst rs. destruct Hin as [<-|[]]. cbn [r_kind r_start r_DS r_DE]. repeat split; lia.
Qed.

(* geometry B: the alternative boundary is the START of exon b; junction (us, a2, xs, xe), downstream_novel *)
(* B0: xs is b's own start: nothing *)
Lemma ssB_own : forall (pre post : list exon) a1 a2 b1 b2 us xe rs,
  t_exons t = pre ++ (a1, a2) :: (b1, b2) :: post ->
  chain gs (t_exons t) ge ->
  junction_records g gseq txi t (mkJ us a2 b1 xe) false true = Ok rs -> rs = [].
Proof.
  intros pre post a1 a2 b1 b2 us xe rs Hex Hch Hrec.
  rewrite Hex in Hch.
  destruct (chain_pre _ _ _ _ _ Hch) as (Hpre & U1 & U2 & U3 & Hch2). cbn [fst snd] in *.
  cbn [chain fst snd] in Hch2. destruct Hch2 as (E1 & E2 & E3 & Hpost).
  pose proof (zlength_nonneg _ pre) as Hn.
  unfold junction_records, align in Hrec. cbn [j_us j_ue j_ds j_de] in Hrec. rewrite Hex in Hrec.
  rewrite (find_start_skip pre _ b1) in Hrec by (intros x Hx; specialize (Hpre x Hx); lia).
  rewrite (find_end_skip pre _ a2) in Hrec by (intros x Hx; specialize (Hpre x Hx); lia).
  cbn [find_start find_end] in Hrec.
  revert Hrec. zb. cbn [andb]. intro Hrec.
  replace (0 + zlength pre + 1) with (zlength pre + 1) in Hrec by lia.
  replace (0 + zlength pre) with (zlength pre) in Hrec by lia.
  match type of Hrec with aln_convert _ _ _ _ ?A = _ => set (a := A) in * end.
  assert (Hint : interjacent a = Ok []).
  { rewrite (interjacent_fwd a pre (a1, a2) ((b1, b2) :: post)); [|reflexivity|reflexivity|discriminate|unfold a; cbn [a_dsi]; lia].
    cbn [scan_fwd a_j a j_ue j_ds]. zb. reflexivity. }
  unfold aln_convert in Hrec. rewrite Hint in Hrec. cbn [bind a_un a_dn a negb andb app] in Hrec.
  unfold down_arm in Hrec. cbn [nonempty a_dsi a] in Hrec.
  revert Hrec. zb. cbn [orb bind app]. intro Hrec. inversion Hrec. reflexivity.
Qed.


(* B1: xs = to lies inside b (b1 < to < b2): the head [b1, to) of b is deleted *)
Lemma ssB_del : forall (pre post : list exon) a1 a2 b1 b2 us to xe rs,
  t_exons t = pre ++ (a1, a2) :: (b1, b2) :: post ->
  chain gs (t_exons t) ge -> b1 < to -> to < b2 ->
  junction_records g gseq txi t (mkJ us a2 to xe) false true = Ok rs ->
  forall r, In r rs ->
    r_kind r = KDel /\ r_S r = (if strand =? 1 then b1 - gs else ge - to) /\
    r_E r = (if strand =? 1 then to - gs else ge - b1).
Proof.
  intros pre post a1 a2 b1 b2 us to xe rs Hex Hch O1 O2 Hrec r Hin.
  rewrite Hex in Hch.
  destruct (chain_pre _ _ _ _ _ Hch) as (Hpre & U1 & U2 & U3 & Hch2). cbn [fst snd] in *.
  cbn [chain fst snd] in Hch2. destruct Hch2 as (E1 & E2 & E3 & Hpost).
  pose proof (chain_post _ _ _ Hpost) as Hpost'.
  pose proof (zlength_nonneg _ pre) as Hn.
  unfold junction_records, align in Hrec. cbn [j_us j_ue j_ds j_de] in Hrec. rewrite Hex in Hrec.
  rewrite (find_start_none _ to) in Hrec.
  2:{ intros x Hx. apply in_app_or in Hx. destruct Hx as [Hx|[<-|[<-|Hx]]]; cbn [fst];
      [specialize (Hpre x Hx)|..|specialize (Hpost' x Hx)]; lia. }
  rewrite (find_end_skip pre _ a2) in Hrec by (intros x Hx; specialize (Hpre x Hx); lia).
  cbn [find_end] in Hrec.
  revert Hrec. zb. cbn [andb]. intro Hrec.
  replace (0 + zlength pre) with (zlength pre) in Hrec by lia.
  match type of Hrec with aln_convert _ _ _ _ ?A = _ => set (a := A) in * end.
  assert (Hint : interjacent a = Ok []).
  { rewrite (interjacent_fwd a pre (a1, a2) ((b1, b2) :: post)); [|reflexivity|reflexivity|discriminate|unfold a; cbn [a_dsi]; lia].
    cbn [scan_fwd a_j a j_ue j_ds]. zb. cbn [andb orb app].
    apply f_equal. apply scan_fwd_nil. intros x Hx. specialize (Hpost' x Hx). lia. }
  unfold aln_convert in Hrec. rewrite Hint in Hrec. cbn [bind a_un a_dn a negb andb app] in Hrec.
  unfold down_arm in Hrec. cbn [nonempty a_dsi a] in Hrec.
  rewrite (down_spanning_fwd a pre (a1, a2) ((b1, b2) :: post)) in Hrec by reflexivity.
  cbn [find_containing a a_j j_ds] in Hrec. unfold inside at 1 in Hrec. cbn [fst snd] in Hrec.
  revert Hrec. zb. cbn [orb andb]. zb. intro Hrec.
  assert (Hgc : forall p, gs <= p -> p < ge -> g2gene g p = Ok (gcoord strand gs ge p))
    by (intros; apply g2gene_ok; assumption).
  assert (Hseq : forall i, 0 <= i -> i < ge - gs -> exists c, seq_at gseq i = Ok c)
    by (intros; apply (seq_at_ok g chrom Hgs Hge); assumption).
  unfold create_downstream_deletion, one in Hrec. cbn [nonempty bind a_ex a a_j j_ds] in Hrec.
  unfold inside in Hrec. cbn [fst snd] in Hrec. revert Hrec. zb. cbn [andb]. intro Hrec.
  rewrite exon_at_exact1 in Hrec. cbn [bind fst snd] in Hrec.
  revert Hrec. zb. intro Hrec. cbn [bind] in Hrec.
  rewrite !Hgc in Hrec by lia. cbn [bind] in Hrec.
  unfold finish_del in Hrec. fold strand in Hrec. unfold gcoord in Hrec.
  destruct Hstrand as [S|S].
  - assert (Sb : strand =? 1 = true) by lia. assert (Sc : strand =? -1 = false) by lia. rewrite Sb, Sc in *.
    destruct (Hseq (b1 - gs)) as [c Hc]; [lia|lia|]. rewrite Hc in Hrec. cbn [bind] in Hrec.
    unfold mkloc in Hrec. assert (to - 1 - gs + 1 <? b1 - gs = false) as E by lia. rewrite E in Hrec.
    cbn [bind] in Hrec. inversion Hrec; subst rs. destruct Hin as [<-|[]]. cbn [r_kind r_S r_E]. repeat split; lia.
  - assert (Sb : strand =? 1 = false) by lia. assert (Sc : strand =? -1 = true) by lia. rewrite Sb, Sc in *.
    destruct (Hseq (ge - 1 - (to - 1))) as [c Hc]; [lia|lia|]. rewrite Hc in Hrec. cbn [bind] in Hrec.
    unfold mkloc in Hrec. assert (ge - 1 - b1 + 1 <? ge - 1 - (to - 1) = false) as E by lia. rewrite E in Hrec.
    cbn [bind] in Hrec. inversion Hrec; subst rs. destruct Hin as [<-|[]]. cbn [r_kind r_S r_E]. repeat split; lia.
Qed.

(* B2: xs = to lies in the intron before b (a2 < to < b1): [to, b1) is inserted before b *)
Lemma ssB_ins : forall (pre post : list exon) a1 a2 b1 b2 us to xe rs,
  t_exons t = pre ++ (a1, a2) :: (b1, b2) :: post ->
  chain gs (t_exons t) ge -> a2 < to -> to < b1 -> b1 <= xe ->
  junction_records g gseq txi t (mkJ us a2 to xe) false true = Ok rs ->
  forall r, In r rs ->
    r_kind r = KIns /\
    r_start r = (if strand =? 1 then a2 - 1 - gs else ge - 1 - b1) /\
    r_DS r = (if strand =? 1 then to - gs else ge - b1) /\
    r_DE r = (if strand =? 1 then b1 - gs else ge - to).
Proof.
  intros pre post a1 a2 b1 b2 us to xe rs Hex Hch O1 O2 O3 Hrec r Hin.
  rewrite Hex in Hch.
  destruct (chain_pre _ _ _ _ _ Hch) as (Hpre & U1 & U2 & U3 & Hch2). cbn [fst snd] in *.
  cbn [chain fst snd] in Hch2. destruct Hch2 as (E1 & E2 & E3 & Hpost).
  pose proof (chain_post _ _ _ Hpost) as Hpost'.
  pose proof (zlength_nonneg _ pre) as Hn.
  unfold junction_records, align in Hrec. cbn [j_us j_ue j_ds j_de] in Hrec. rewrite Hex in Hrec.
  rewrite (find_start_none _ to) in Hrec.
  2:{ intros x Hx. apply in_app_or in Hx. destruct Hx as [Hx|[<-|[<-|Hx]]]; cbn [fst];
      [specialize (Hpre x Hx)|..|specialize (Hpost' x Hx)]; lia. }
  rewrite (find_end_skip pre _ a2) in Hrec by (intros x Hx; specialize (Hpre x Hx); lia).
  cbn [find_end] in Hrec.
  revert Hrec. zb. cbn [andb]. intro Hrec.
  replace (0 + zlength pre) with (zlength pre) in Hrec by lia.
  match type of Hrec with aln_convert _ _ _ _ ?A = _ => set (a := A) in * end.
  assert (Hint : interjacent a = Ok []).
  { rewrite (interjacent_fwd a pre (a1, a2) ((b1, b2) :: post)); [|reflexivity|reflexivity|discriminate|unfold a; cbn [a_dsi]; lia].
    cbn [scan_fwd a_j a j_ue j_ds]. zb. reflexivity. }
  unfold aln_convert in Hrec. rewrite Hint in Hrec. cbn [bind a_un a_dn a negb andb app] in Hrec.
  unfold down_arm in Hrec. cbn [nonempty a_dsi a] in Hrec.
  rewrite (down_spanning_fwd a pre (a1, a2) ((b1, b2) :: post)) in Hrec by reflexivity.
  cbn [find_containing a a_j j_ds] in Hrec. unfold inside at 1 in Hrec. cbn [fst snd] in Hrec.
  rewrite find_containing_none in Hrec by (intros x Hx; specialize (Hpost' x Hx); unfold inside; lia).
  revert Hrec. zb. cbn [orb andb]. intro Hrec.
  match type of Hrec with context [if ?c then one _ else Ok []] => destruct c end;
    [|cbn in Hrec; inversion Hrec; subst rs; contradiction].
  assert (Hgc : forall p, gs <= p -> p < ge -> g2gene g p = Ok (gcoord strand gs ge p))
    by (intros; apply g2gene_ok; assumption).
  assert (Hseq : forall i, 0 <= i -> i < ge - gs -> exists c, seq_at gseq i = Ok c)
    by (intros; apply (seq_at_ok g chrom Hgs Hge); assumption).
  unfold create_downstream_insertion, one in Hrec. cbn [a_uei a_usi a_ex a a_j j_ue j_ds j_de] in Hrec.
  revert Hrec. zb. intro Hrec.
  match type of Hrec with context [if ?c then Err EValue else _] => destruct c end; [discriminate|].
  rewrite exon_at_exact1 in Hrec. cbn [bind fst snd] in Hrec.
  replace (Z.min (b1 - 1) (xe - 1)) with (b1 - 1) in Hrec by lia.
  fold strand in Hrec.
  destruct Hstrand as [S|S].
  - assert (Sb : strand =? 1 = true) by lia. rewrite Sb in *.
    unfold finish_ins in Hrec. rewrite !Hgc in Hrec by lia. cbn [bind] in Hrec.
    unfold gcoord in Hrec. rewrite Sb in Hrec.
    destruct (Hseq (a2 - 1 - gs)) as [c Hc]; [lia|lia|].
    rewrite Hc in Hrec. cbn [bind] in Hrec.
    inversion Hrec; subst rs. destruct Hin as [<-|[]]. cbn [r_kind r_start r_DS r_DE]. repeat split; lia.
  - assert (Sb : strand =? 1 = false) by lia. rewrite Sb in *.
    unfold finish_ins in Hrec. rewrite !Hgc in Hrec by lia. cbn [bind] in Hrec.
    unfold gcoord in Hrec. rewrite Sb in Hrec.
    destruct (Hseq (ge - 1 - b1)) as [c Hc]; [lia|lia|].
    rewrite Hc in Hrec. cbn [bind] in Hrec.
    inversion Hrec; subst rs. destruct Hin as [<-|[]]. cbn [r_kind r_start r_DS r_DE]. repeat split; lia.
Qed.

End Cascade.

(* ------------------------------------------------------------------ assembling: SE *)
Lemma over_txs_in : forall A (f : Z -> tx -> res (list A)) l i rs r,
  over_txs f l i = Ok rs -> In r rs ->
  exists k t out, nth_error l k = Some t /\ f (i + Z.of_nat k) t = Ok out /\ In r out.
Proof.
  induction l; intros i rs r H Hin; cbn [over_txs] in H.
  - inversion H; subst. contradiction.
  - apply bind_ok in H. destruct H as (x & E & H). apply bind_ok in H. destruct H as (y & E2 & H).
    inversion H; subst. apply in_app_or in Hin. destruct Hin as [Hin|Hin].
    + exists 0%nat, a, x. split; [reflexivity|]. split; [rewrite Z.add_0_r; assumption|assumption].
    + destruct (IHl _ _ _ E2 Hin) as (k & t & out & N & F & I).
      exists (S k), t, out. split; [assumption|]. split; [|assumption].
      replace (i + Z.of_nat (S k)) with (i + 1 + Z.of_nat k) by lia. assumption.
Qed.

Lemma seq2_ok : forall A (a b : res (list A)) rs, seq2 a b = Ok rs -> exists x y, a = Ok x /\ b = Ok y /\ rs = x ++ y.
Proof.
  unfold seq2; intros. apply bind_ok in H. destruct H as (x & E & H). apply bind_ok in H. destruct H as (y & E2 & H).
  inversion H. eauto.
Qed.

Lemma exon_eqb_eq : forall a b, exon_eqb a b = true -> a = b.
Proof. intros [a1 a2] [b1 b2]; unfold exon_eqb; cbn; intros. f_equal; lia. Qed.

Lemma alt_se_inv : forall ex U E D alt, alt_se ex U E D = Some alt ->
  (exists pre post, ex = pre ++ U :: E :: D :: post /\ alt = pre ++ U :: D :: post) \/
  (exists pre post, ex = pre ++ U :: D :: post /\ alt = pre ++ U :: E :: D :: post).
Proof.
  induction ex as [|a t IH]; intros U E D alt H; cbn [alt_se] in H; [discriminate|].
  destruct (exon_eqb a U) eqn:EU.
  - apply exon_eqb_eq in EU. subst a.
    destruct t as [|b t2]; [discriminate|].
    destruct (exon_eqb b D) eqn:ED.
    + apply exon_eqb_eq in ED. subst b. inversion H; subst. right. exists [], t2. split; reflexivity.
    + destruct (exon_eqb b E) eqn:EE; [|discriminate]. apply exon_eqb_eq in EE. subst b.
      destruct t2 as [|c t3]; [discriminate|].
      destruct (exon_eqb c D) eqn:ED2; [|discriminate]. apply exon_eqb_eq in ED2. subst c.
      inversion H; subst. left. exists [], t3. split; reflexivity.
  - destruct (alt_se t U E D) eqn:R; [|discriminate]. cbn in H. inversion H; subst.
    destruct (IH _ _ _ _ R) as [(pre & post & A & B)|(pre & post & A & B)]; subst.
    + left. exists (a :: pre), post. split; reflexivity.
    + right. exists (a :: pre), post. split; reflexivity.
Qed.

Definition wf_gene (g : gene) (chrom : list Z) : Prop :=
  (g_strand g = 1 \/ g_strand g = -1) /\ 0 <= g_start g /\ g_end g <= zlength chrom /\
  forall t, In t (g_txs g) -> chain (g_start g) (t_exons t) (g_end g).

Definition denotes (g : gene) (chrom : list Z) (t : tx) (r : rec) (alt : list exon) : Prop :=
  apply_record (gene2tx (g_strand g) (g_start g) (g_end g) (t_exons t))
               (tx_seq (g_strand g) chrom (t_exons t))
               (gene_seq (g_strand g) chrom (g_start g) (g_end g)) r
  = Some (tx_seq (g_strand g) chrom alt).

Lemma denotes_cong : forall s gs ge chrom gq r (ex ex' alt alt' : list exon),
  ex = ex' -> alt = alt' ->
  apply_record (gene2tx s gs ge ex') (tx_seq s chrom ex') gq r = Some (tx_seq s chrom alt') ->
  apply_record (gene2tx s gs ge ex) (tx_seq s chrom ex) gq r = Some (tx_seq s chrom alt).
Proof. intros. subst. assumption. Qed.
Lemma reassoc1 : forall (pre : list exon) U rest, pre ++ U :: rest = (pre ++ [U]) ++ rest.
Proof. intros. rewrite <- app_assoc. reflexivity. Qed.

Lemma rmats_se_reproduces : forall g chrom es ee us ue ds de c id rs,
  wf_gene g chrom -> ue < es -> es < ee -> ee < ds ->
  se_convert g (gene_seq (g_strand g) chrom (g_start g) (g_end g)) es ee us ue ds de c = Ok (id, rs) ->
  forall r, In r rs -> forall t alt,
    0 <= r_tx r -> nth_error (g_txs g) (Z.to_nat (r_tx r)) = Some t ->
    alt_se (t_exons t) (us, ue) (es, ee) (ds, de) = Some alt ->
    denotes g chrom t r alt.
Proof.
  intros g chrom es ee us ue ds de c id rs (Hst & Hgs & Hge & Hch) O1 O2 O3 Hc r Hin t alt Hr0 Hnth Halt.
  unfold se_convert in Hc.
  apply bind_ok in Hc. destruct Hc as (known & _ & Hc).
  destruct known; [inversion Hc; subst; contradiction|].
  apply bind_ok in Hc. destruct Hc as (id' & _ & Hc).
  apply bind_ok in Hc. destruct Hc as (rs' & Hov & Hc). inversion Hc; subst id' rs'. clear Hc.
  destruct (over_txs_in _ _ _ _ _ _ Hov Hin) as (k & t' & out & Hk & Hf & Hout).
  apply seq2_ok in Hf. destruct Hf as (o1 & o23 & F1 & F23 & ->).
  assert (F23' : exists o2 o3,
     (if ijc c >=? min_ijc c then junction_records g (gene_seq (g_strand g) chrom (g_start g) (g_end g)) (0 + Z.of_nat k) t' (mkJ us ue es ee) false true else Ok []) = Ok o2 /\
     (if ijc c >=? min_ijc c then junction_records g (gene_seq (g_strand g) chrom (g_start g) (g_end g)) (0 + Z.of_nat k) t' (mkJ es ee ds de) true false else Ok []) = Ok o3 /\
     o23 = o2 ++ o3).
  { destruct (ijc c >=? min_ijc c).
    - apply seq2_ok in F23. destruct F23 as (o2 & o3 & A & B & C). eauto.
    - inversion F23. exists [], []. auto. }
  destruct F23' as (o2 & o3 & F2 & F3 & ->). clear F23.
  (* the record's transcript is t' *)
  assert (Htx : r_tx r = 0 + Z.of_nat k).
  { apply in_app_or in Hout. destruct Hout as [Ho|Ho]; [|apply in_app_or in Ho; destruct Ho as [Ho|Ho]].
    - destruct (sjc c >=? min_sjc c); [|inversion F1; subst; contradiction].
      eapply junction_records_tx; [exact F1|exact Ho].
    - destruct (ijc c >=? min_ijc c); [|inversion F2; subst; contradiction].
      eapply junction_records_tx; [exact F2|exact Ho].
    - destruct (ijc c >=? min_ijc c); [|inversion F3; subst; contradiction].
      eapply junction_records_tx; [exact F3|exact Ho]. }
  rewrite Htx in Hnth. replace (Z.to_nat (0 + Z.of_nat k)) with k in Hnth by lia.
  rewrite Hk in Hnth. inversion Hnth; subst t'. clear Hnth.
  assert (Hcht : chain (g_start g) (t_exons t) (g_end g)) by (apply Hch; eapply nth_error_In; eassumption).
  unfold denotes.
  destruct (alt_se_inv _ _ _ _ _ Halt) as [(pre & post & Hex & ->)|(pre & post & Hex & ->)].
  - (* transcript carries U E D: only the skipping junction yields a record, the deletion of E *)
    apply in_app_or in Hout. destruct Hout as [Ho|Ho]; [|apply in_app_or in Ho; destruct Ho as [Ho|Ho]].
    + destruct (sjc c >=? min_sjc c); [|inversion F1; subst; contradiction].
      destruct (se_skip_form g chrom Hst Hgs Hge _ t _ _ _ _ _ _ _ _ _ Hex Hcht F1 r Ho) as (K & S & E).
      rewrite Hex.
      eapply (denotes_cong _ _ _ _ _ _ _ ((pre ++ [(us, ue)]) ++ (es, ee) :: (ds, de) :: post) _ ((pre ++ [(us, ue)]) ++ (ds, de) :: post));
        [apply reassoc1|apply reassoc1|].
      apply sem_del; try assumption.
      apply chain_wchain. rewrite <- reassoc1. rewrite Hex in Hcht. assumption.
    + destruct (ijc c >=? min_ijc c); [|inversion F2; subst; contradiction].
      rewrite (se_skip_form_up g chrom _ t _ _ _ _ _ _ _ _ _ Hex Hcht F2) in Ho. contradiction.
    + destruct (ijc c >=? min_ijc c); [|inversion F3; subst; contradiction].
      rewrite (se_skip_form_down g chrom _ t _ _ _ _ _ _ _ _ _ Hex Hcht F3) in Ho. contradiction.
  - (* transcript carries U D: only the downstream junction E->D yields a record, the insertion of E *)
    apply in_app_or in Hout. destruct Hout as [Ho|Ho]; [|apply in_app_or in Ho; destruct Ho as [Ho|Ho]].
    + destruct (sjc c >=? min_sjc c); [|inversion F1; subst; contradiction].
      rewrite (se_incl_form_skip g chrom _ t _ _ _ _ _ _ _ Hex Hcht F1) in Ho. contradiction.
    + destruct (ijc c >=? min_ijc c); [|inversion F2; subst; contradiction].
      rewrite (se_incl_form_up g chrom _ t _ _ _ _ _ _ _ _ _ Hex Hcht O1 O2 O3 F2) in Ho. contradiction.
    + destruct (ijc c >=? min_ijc c); [|inversion F3; subst; contradiction].
      destruct (se_incl_form_down g chrom Hst Hgs Hge _ t _ _ _ _ _ _ _ _ _ Hex Hcht O1 O2 O3 F3 r Ho) as (K & P & S & E).
      rewrite Hex. rewrite Hex in Hcht.
      destruct (chain_pre _ _ _ _ _ Hcht) as (Hpre & U1 & U2 & U3 & Hch2). cbn [fst snd] in *.
      cbn [chain fst snd] in Hch2. destruct Hch2 as (D1 & D2 & D3 & Hpost).
      destruct Hst as [S1|S1]; rewrite S1 in *; cbn [Z.eqb Pos.eqb] in *.
      * eapply (denotes_cong _ _ _ _ _ _ _ _ _ ((pre ++ [(us, ue)]) ++ (es, ee) :: (ds, de) :: post));
          [reflexivity|apply reassoc1|].
        apply sem_ins_plus; try assumption; try (cbn [fst snd]; lia).
        apply chain_wchain. assumption.
      * eapply (denotes_cong _ _ _ _ _ _ _ ((pre ++ [(us, ue)]) ++ (ds, de) :: post) _ ((pre ++ [(us, ue)]) ++ (es, ee) :: (ds, de) :: post));
          [apply reassoc1|apply reassoc1|].
        apply sem_ins_minus; try assumption; try (cbn [fst snd]; lia).
        apply chain_wchain. rewrite <- reassoc1. assumption.
Qed.

(* ------------------------------------------------------------------ novelty *)
Lemma has_junction_complete : forall (pre : list exon) a b post lo hi,
  chain lo (pre ++ a :: b :: post) hi -> has_junction (pre ++ a :: b :: post) (snd a) (fst b) = true.
Proof.
  induction pre as [|x pre IH]; intros a b post lo hi H.
  - cbn [app has_junction]. assert (fst b >? fst b = false) as -> by lia. rewrite !Z.eqb_refl. reflexivity.
  - cbn [app]. cbn [app chain] in H. destruct H as (H1 & H2 & H3 & H4).
    pose proof (IH _ _ _ _ _ H4) as R.
    destruct (chain_pre _ _ _ _ _ H4) as (Hpre & A1 & A2 & A3 & Hc2). cbn [chain] in Hc2. destruct Hc2 as (B1 & _).
    destruct pre as [|y pre'].
    + cbn [app has_junction] in *. assert (fst a >? fst b = false) as -> by lia.
      assert ((snd x =? snd a) && (fst a =? fst b) = false) as -> by lia. exact R.
    + cbn [app] in *. cbn [has_junction]. cbn [has_junction] in R.
      pose proof (Hpre y (or_introl eq_refl)).
      assert (fst y >? fst b = false) as -> by lia.
      assert ((snd x =? snd a) && (fst y =? fst b) = false) as -> by lia. exact R.
Qed.

(* a junction is annotated when some isoform of the gene has two consecutive exons forming it *)
Definition annotated (g : gene) (j : junction) : Prop :=
  exists t pre a b post, In t (g_txs g) /\ t_exons t = pre ++ a :: b :: post /\ snd a = j_ue j /\ fst b = j_ds j.

Lemma is_novel_annotated : forall g chrom j, wf_gene g chrom -> annotated g j -> is_novel g j = Ok false.
Proof.
  intros g chrom j (_ & _ & _ & Hch) (t & pre & a & b & post & Ht & Hex & Ha & Hb).
  pose proof (Hch t Ht) as C. rewrite Hex in C.
  pose proof (has_junction_complete _ _ _ _ _ _ C) as HJ.
  destruct (chain_pre _ _ _ _ _ C) as (_ & _ & A2 & _ & C2). cbn [chain] in C2. destruct C2 as (B1 & _).
  unfold is_novel, mkloc. assert (j_ds j <? j_ue j = false) as -> by lia. cbn [bind].
  f_equal. apply negb_false_iff. apply existsb_exists. exists t. split; [assumption|].
  rewrite Hex, <- Ha, <- Hb. exact HJ.
Qed.

Lemma all_annotated_complete : forall g chrom js, wf_gene g chrom -> (forall j, In j js -> annotated g j) ->
  all_annotated g js = Ok true.
Proof.
  induction js; intros; cbn [all_annotated]; [reflexivity|].
  rewrite (is_novel_annotated g chrom a) by (auto using in_eq). cbn [bind].
  apply IHjs; [assumption|]. intros; apply H0; right; assumption.
Qed.

Lemma rmats_novelty_se : forall g chrom gseq es ee us ue ds de c,
  wf_gene g chrom ->
  annotated g (mkJ us ue ds de) -> annotated g (mkJ us ue es ee) -> annotated g (mkJ es ee ds de) ->
  se_convert g gseq es ee us ue ds de c = Ok ([], []).
Proof.
  intros. unfold se_convert.
  rewrite (all_annotated_complete g chrom) by (assumption || (intros j [<-|[<-|[<-|[]]]]; assumption)).
  reflexivity.
Qed.
Lemma rmats_novelty_ss : forall (five : bool) g chrom gseq ls le ss se fs fe c,
  wf_gene g chrom ->
  let first := if five then g_strand g =? 1 else negb (g_strand g =? 1) in
  annotated g (if first then mkJ ls le fs fe else mkJ fs fe ls le) ->
  annotated g (if first then mkJ ss se fs fe else mkJ fs fe ss se) ->
  ss_convert five g gseq ls le ss se fs fe c = Ok ([], []).
Proof.
  intros. unfold ss_convert. fold first.
  rewrite (all_annotated_complete g chrom) by (assumption || (intros j Hj; cbn in Hj; destruct Hj as [<-|[<-|[]]]; assumption)).
  reflexivity.
Qed.
Lemma rmats_novelty_mxe : forall g chrom gseq f1s f1e f2s f2e us ue ds de c,
  wf_gene g chrom ->
  annotated g (mkJ f1s f1e ds de) -> annotated g (mkJ us ue f2s f2e) ->
  mxe_convert g gseq f1s f1e f2s f2e us ue ds de c = Ok ([], []).
Proof.
  intros. unfold mxe_convert.
  rewrite (all_annotated_complete g chrom) by (assumption || (intros j Hj; cbn in Hj; destruct Hj as [<-|[<-|[]]]; assumption)).
  reflexivity.
Qed.
(* RI: a record is only emitted when no isoform already has the other form *)
Lemma map_res_nil : forall A B (f : A -> res B) l rs, map_res f l = Ok rs -> l = [] -> rs = [].
Proof. intros. subst. inversion H. reflexivity. Qed.
Lemma rmats_novelty_ri : forall g gseq ue ds c id rs,
  ri_convert g gseq ue ds c = Ok (id, rs) ->
  fst (ri_lists (g_txs g) ue ds 0) <> [] -> snd (ri_lists (g_txs g) ue ds 0) <> [] -> rs = [].
Proof.
  intros g gseq ue ds c id rs H H1 H2. unfold ri_convert in H.
  destruct (ri_lists (g_txs g) ue ds 0) as [spliced retained]. cbn [fst snd] in *.
  destruct spliced; [congruence|]. destruct retained; [congruence|].
  cbn [nonempty negb andb] in H. inv_res; reflexivity.
Qed.

(* ------------------------------------------------------------------ thresholds *)
Lemma over_txs_nil : forall l i, over_txs (fun _ _ => @Ok (list rec) []) l i = Ok [].
Proof. induction l; intros; cbn [over_txs bind]; [reflexivity|]. rewrite IHl. reflexivity. Qed.
Lemma over_txs_ext : forall A (f h : Z -> tx -> res (list A)) l i, (forall i t, f i t = h i t) -> over_txs f l i = over_txs h l i.
Proof. induction l; intros; cbn [over_txs]; [reflexivity|]. rewrite H, (IHl _ H). reflexivity. Qed.

Lemma rmats_thresholds_se : forall g gseq es ee us ue ds de c id rs,
  ijc c < min_ijc c -> sjc c < min_sjc c -> se_convert g gseq es ee us ue ds de c = Ok (id, rs) -> rs = [].
Proof.
  intros. unfold se_convert in H1.
  assert (ijc c >=? min_ijc c = false) as Ei by lia. assert (sjc c >=? min_sjc c = false) as Es by lia.
  rewrite Ei, Es in H1. unfold seq2 in H1. cbn [bind app] in H1. rewrite over_txs_nil in H1.
  inv_res; reflexivity.
Qed.
Lemma rmats_thresholds_ss : forall five g gseq ls le ss se fs fe c id rs,
  ijc c < min_ijc c -> sjc c < min_sjc c -> ss_convert five g gseq ls le ss se fs fe c = Ok (id, rs) -> rs = [].
Proof.
  intros. unfold ss_convert in H1.
  assert (ijc c >=? min_ijc c = false) as Ei by lia. assert (sjc c >=? min_sjc c = false) as Es by lia.
  rewrite Ei, Es in H1. unfold seq2 in H1. cbn [bind app] in H1. rewrite over_txs_nil in H1.
  inv_res; reflexivity.
Qed.
(* MXE: the skipped form passes only for sjc > min_sjc (strict in the code) *)
Lemma rmats_thresholds_mxe : forall g gseq f1s f1e f2s f2e us ue ds de c id rs,
  ijc c < min_ijc c -> sjc c <= min_sjc c -> mxe_convert g gseq f1s f1e f2s f2e us ue ds de c = Ok (id, rs) -> rs = [].
Proof.
  intros. unfold mxe_convert in H1.
  assert (ijc c >=? min_ijc c = false) as Ei by lia. assert (sjc c >? min_sjc c = false) as Es by lia.
  rewrite Ei, Es in H1. unfold seq2 in H1. cbn [bind app] in H1. rewrite over_txs_nil in H1.
  inv_res; reflexivity.
Qed.
Lemma rmats_thresholds_ri : forall g gseq ue ds c id rs,
  ijc c < min_ijc c -> sjc c < min_sjc c -> ri_convert g gseq ue ds c = Ok (id, rs) -> rs = [].
Proof.
  intros. unfold ri_convert in H1.
  assert (ijc c >=? min_ijc c = false) as Ei by lia. assert (sjc c >=? min_sjc c = false) as Es by lia.
  destruct (ri_lists (g_txs g) ue ds 0) as [spliced retained].
  rewrite Ei, Es in H1. rewrite !andb_false_r in H1. inv_res; reflexivity.
Qed.
(* the counts enter only through the threshold comparisons *)
Lemma rmats_thresholds_only_se : forall g gseq es ee us ue ds de c c',
  (ijc c >=? min_ijc c) = (ijc c' >=? min_ijc c') -> (sjc c >=? min_sjc c) = (sjc c' >=? min_sjc c') ->
  se_convert g gseq es ee us ue ds de c = se_convert g gseq es ee us ue ds de c'.
Proof. intros. unfold se_convert. rewrite H, H0. reflexivity. Qed.

(* ================================================================== RI *)
Lemma ri_slack_nonneg : 0 <= Gen.RmatsConst.ri_end_slack.
Proof. vm_compute. discriminate. Qed.

Lemma ri_scan_spec : forall n (l : list exon) ue ds, (length l <= n)%nat ->
  (fst (ri_scan l ue ds) = true ->
     exists (pre : list exon) A B post, l = pre ++ A :: B :: post /\ snd A = ue /\ fst B = ds) /\
  (0 < snd (ri_scan l ue ds) ->
     exists (pre : list exon) X post, l = pre ++ X :: post /\ ri_cond X ue ds = 1).
Proof.
  induction n as [|n IH]; intros l ue ds Hl.
  - destruct l; [|cbn in Hl; lia]. cbn. split; [discriminate|lia].
  - destruct l as [|x t]; [cbn; split; [discriminate|lia]|].
    cbn [ri_scan]. cbn [length] in Hl.
    destruct (snd x =? ue) eqn:E1.
    + destruct t as [|y t2]; [cbn; split; [discriminate|lia]|].
      destruct (fst y =? ds) eqn:E2.
      * cbn. split; [|lia]. intros _. exists [], x, y, t2. repeat split; lia.
      * cbn [length] in Hl. destruct (IH t2 ue ds ltac:(lia)) as (I1 & I2).
        destruct (ri_scan t2 ue ds) as [sp k] eqn:R. cbn [fst snd] in *. split.
        -- intros ->. destruct (I1 eq_refl) as (pre & A & B & post & -> & HA & HB).
           exists (x :: y :: pre), A, B, post. repeat split; assumption.
        -- intros Hk. assert (Hc : ri_cond y ue ds = 0 \/ ri_cond y ue ds = 1)
             by (unfold ri_cond; destruct (_ && _); auto).
           destruct Hc as [Hc|Hc].
           ++ destruct (I2 ltac:(lia)) as (pre & X & post & -> & HX).
              exists (x :: y :: pre), X, post. split; [reflexivity|assumption].
           ++ exists [x], y, t2. split; [reflexivity|assumption].
    + destruct (IH t ue ds ltac:(lia)) as (I1 & I2).
      destruct (ri_scan t ue ds) as [sp k] eqn:R. cbn [fst snd] in *. split.
      * intros ->. destruct (I1 eq_refl) as (pre & A & B & post & -> & HA & HB).
        exists (x :: pre), A, B, post. repeat split; assumption.
      * intros Hk. assert (Hc : ri_cond x ue ds = 0 \/ ri_cond x ue ds = 1)
          by (unfold ri_cond; destruct (_ && _); auto).
        destruct Hc as [Hc|Hc].
        -- destruct (I2 ltac:(lia)) as (pre & X & post & -> & HX).
           exists (x :: pre), X, post. split; [reflexivity|assumption].
        -- exists [], x, t. split; [reflexivity|assumption].
Qed.

Lemma in_repeat : forall (x y : Z) n, In y (repeat x n) -> y = x /\ (0 < n)%nat.
Proof. induction n; cbn; intros; [contradiction|]. destruct H; [subst; split; [reflexivity|lia]|]. destruct (IHn H). split; [assumption|lia]. Qed.

Lemma ri_lists_spec : forall l ue ds i0 k,
  (In k (fst (ri_lists l ue ds i0)) ->
     exists t, nth_error l (Z.to_nat (k - i0)) = Some t /\ i0 <= k /\ fst (ri_scan (t_exons t) ue ds) = true) /\
  (In k (snd (ri_lists l ue ds i0)) ->
     exists t, nth_error l (Z.to_nat (k - i0)) = Some t /\ i0 <= k /\ 0 < snd (ri_scan (t_exons t) ue ds)).
Proof.
  induction l as [|t rest IH]; intros ue ds i0 k; cbn [ri_lists].
  - cbn. split; contradiction.
  - destruct (ri_scan (t_exons t) ue ds) as [sp n] eqn:R.
    destruct (IH ue ds (i0 + 1) k) as (I1 & I2).
    destruct (ri_lists rest ue ds (i0 + 1)) as [a b]. cbn [fst snd] in *. split.
    + intros H. apply in_app_or in H. destruct H as [H|H].
      * destruct sp; [|contradiction]. destruct H as [<-|[]]. exists t. rewrite Z.sub_diag, R. cbn. repeat split; lia.
      * destruct (I1 H) as (t' & N & A & B). exists t'.
        replace (Z.to_nat (k - i0)) with (S (Z.to_nat (k - (i0 + 1)))) by lia. cbn. repeat split; try assumption; lia.
    + intros H. apply in_app_or in H. destruct H as [H|H].
      * apply in_repeat in H. destruct H as (-> & Hn). exists t. rewrite Z.sub_diag, R. cbn. repeat split; lia.
      * destruct (I2 H) as (t' & N & A & B). exists t'.
        replace (Z.to_nat (k - i0)) with (S (Z.to_nat (k - (i0 + 1)))) by lia. cbn. repeat split; try assumption; lia.
Qed.

Lemma map_res_in : forall A B (f : A -> res B) l rs r, map_res f l = Ok rs -> In r rs -> exists i, In i l /\ f i = Ok r.
Proof.
  induction l; intros rs r H Hin; cbn [map_res] in H.
  - inversion H; subst; contradiction.
  - apply bind_ok in H. destruct H as (y & E & H). apply bind_ok in H. destruct H as (ys & E2 & H).
    inversion H; subst. destruct Hin as [<-|Hin].
    + exists a. split; [left; reflexivity|assumption].
    + destruct (IHl _ _ E2 Hin) as (i & I1 & I2). exists i. split; [right; assumption|assumption].
Qed.

(* alt_ri on the two shapes *)
Lemma alt_ri_spliced : forall (pre : list exon) A B post lo hi ue ds,
  chain lo (pre ++ A :: B :: post) hi -> snd A = ue -> fst B = ds ->
  alt_ri (pre ++ A :: B :: post) ue ds = Some (pre ++ (fst A, snd B) :: post).
Proof.
  induction pre as [|x pre IH]; intros A B post lo hi ue ds C HA HB.
  - cbn [app] in *. cbn [chain] in C. cbn [alt_ri].
    assert ((fst A <? ue) && (ue <? ds) && (ds <? snd A) = false) as -> by lia.
    assert ((snd A =? ue) && (fst B =? ds) = true) as -> by lia. reflexivity.
  - cbn [app] in *. cbn [chain] in C. destruct C as (C1 & C2 & C3 & C4).
    destruct (chain_pre _ _ _ _ _ C4) as (Hpre & A1 & A2 & A3 & C5). cbn [chain] in C5.
    cbn [alt_ri].
    assert ((fst x <? ue) && (ue <? ds) && (ds <? snd x) = false) as -> by lia.
    rewrite (IH A B post _ hi ue ds C4 HA HB).
    destruct pre as [|y pre']; cbn [app option_map].
    + assert ((snd x =? ue) && (fst A =? ds) = false) as -> by lia. reflexivity.
    + pose proof (Hpre y (or_introl eq_refl)).
      assert ((snd x =? ue) && (fst y =? ds) = false) as -> by lia. reflexivity.
Qed.

Lemma alt_ri_retained : forall (pre : list exon) X post lo hi ue ds,
  chain lo (pre ++ X :: post) hi -> fst X < ue -> ue < ds -> ds < snd X ->
  alt_ri (pre ++ X :: post) ue ds = Some (pre ++ (fst X, ue) :: (ds, snd X) :: post).
Proof.
  induction pre as [|x pre IH]; intros X post lo hi ue ds C H1 H2 H3.
  - cbn [app alt_ri]. assert ((fst X <? ue) && (ue <? ds) && (ds <? snd X) = true) as -> by lia. reflexivity.
  - cbn [app] in *. cbn [chain] in C. destruct C as (C1 & C2 & C3 & C4).
    destruct (chain_pre _ _ _ _ _ C4) as (Hpre & A1 & A2 & A3 & C5).
    cbn [alt_ri].
    assert ((fst x <? ue) && (ue <? ds) && (ds <? snd x) = false) as -> by lia.
    rewrite (IH X post _ hi ue ds C4 H1 H2 H3).
    destruct pre as [|y pre']; cbn [app option_map].
    + assert ((snd x =? ue) && (fst X =? ds) = false) as -> by lia. reflexivity.
    + pose proof (Hpre y (or_introl eq_refl)).
      assert ((snd x =? ue) && (fst y =? ds) = false) as -> by lia. reflexivity.
Qed.

(* deletion of an inner part [a,b) of one exon X: the exon is split *)
Lemma tx_seq_refine3 : forall strand chrom (pre : list exon) (X : exon) (post : list exon) a b,
  0 <= fst X -> fst X <= a -> a <= b -> b <= snd X ->
  tx_seq strand chrom (pre ++ (fst X, a) :: (a, b) :: (b, snd X) :: post) = tx_seq strand chrom (pre ++ X :: post).
Proof.
  intros. unfold tx_seq.
  assert (E : exons_seq chrom (pre ++ (fst X, a) :: (a, b) :: (b, snd X) :: post) = exons_seq chrom (pre ++ X :: post)).
  { rewrite !exons_seq_app. f_equal.
    change (exons_seq chrom ((fst X, a) :: (a, b) :: (b, snd X) :: post))
      with (slice chrom (fst X) a ++ slice chrom a b ++ slice chrom b (snd X) ++ exons_seq chrom post).
    change (exons_seq chrom (X :: post)) with (slice chrom (fst X) (snd X) ++ exons_seq chrom post).
    rewrite !app_assoc. f_equal. rewrite <- app_assoc.
    rewrite (slice_app chrom a b (snd X)) by lia. apply slice_app; lia. }
  rewrite E. reflexivity.
Qed.

Lemma pos_refine3 : forall (pre : list exon) (X : exon) (post : list exon) a b p acc,
  fst X <= a -> a <= b -> b <= snd X ->
  pos_in_exons (pre ++ (fst X, a) :: (a, b) :: (b, snd X) :: post) p acc = pos_in_exons (pre ++ X :: post) p acc.
Proof.
  induction pre as [|x pre IH]; intros X post a b p acc H1 H2 H3.
  - cbn [app pos_in_exons]. unfold inside. cbn [fst snd].
    destruct ((fst X <=? p) && (p <? snd X)) eqn:E.
    + destruct ((fst X <=? p) && (p <? a)) eqn:E1; [reflexivity|].
      destruct ((a <=? p) && (p <? b)) eqn:E2; [f_equal; lia|].
      destruct ((b <=? p) && (p <? snd X)) eqn:E3; [f_equal; lia|lia].
    + assert ((fst X <=? p) && (p <? a) = false) as -> by lia.
      assert ((a <=? p) && (p <? b) = false) as -> by lia.
      assert ((b <=? p) && (p <? snd X) = false) as -> by lia.
      f_equal. lia.
  - cbn [app pos_in_exons]. destruct (inside x p); [reflexivity|]. apply IH; assumption.
Qed.

Lemma exons_len_refine3 : forall (pre : list exon) (X : exon) (post : list exon) a b,
  exons_len (pre ++ (fst X, a) :: (a, b) :: (b, snd X) :: post) = exons_len (pre ++ X :: post).
Proof. intros. rewrite !exons_len_app. cbn [exons_len fst snd]. lia. Qed.

Lemma gene2tx_refine3 : forall strand gs ge (pre : list exon) (X : exon) (post : list exon) a b i,
  fst X <= a -> a <= b -> b <= snd X ->
  gene2tx strand gs ge (pre ++ (fst X, a) :: (a, b) :: (b, snd X) :: post) i = gene2tx strand gs ge (pre ++ X :: post) i.
Proof. intros. unfold gene2tx. rewrite pos_refine3 by assumption. rewrite exons_len_refine3. reflexivity. Qed.

Lemma apply_record_ext : forall f h t gq r, (forall i, f i = h i) -> apply_record f t gq r = apply_record h t gq r.
Proof. intros. unfold apply_record. rewrite !H. reflexivity. Qed.

Lemma wchain_refine3 : forall (pre : list exon) (X : exon) (post : list exon) lo hi a b,
  wchain lo (pre ++ X :: post) hi -> fst X <= a -> a <= b -> b <= snd X ->
  wchain lo (pre ++ (fst X, a) :: (a, b) :: (b, snd X) :: post) hi.
Proof.
  induction pre as [|x pre IH]; intros X post lo hi a b W H1 H2 H3.
  - cbn [app wchain fst snd] in *. destruct W as (W1 & W2 & W3 & W4). repeat split; try lia. assumption.
  - cbn [app wchain] in *. destruct W as (W1 & W2 & W3 & W4). repeat split; try lia. apply IH; assumption.
Qed.

Lemma sem_del_inner : forall strand gs ge chrom (pre : list exon) (X : exon) (post : list exon) a b r gseq,
  strand = 1 \/ strand = -1 -> 0 <= gs -> ge <= zlength chrom ->
  wchain gs (pre ++ X :: post) ge -> fst X <= a -> a < b -> b <= snd X ->
  r_kind r = KDel ->
  r_S r = (if strand =? 1 then a - gs else ge - b) ->
  r_E r = (if strand =? 1 then b - gs else ge - a) ->
  apply_record (gene2tx strand gs ge (pre ++ X :: post)) (tx_seq strand chrom (pre ++ X :: post)) gseq r
  = Some (tx_seq strand chrom (pre ++ (fst X, a) :: (b, snd X) :: post)).
Proof.
  intros strand gs ge chrom pre X post a b r gseq Hs Hgs Hge W H1 H2 H3 K S E.
  pose proof (wchain_app _ _ _ _ W) as (_ & lo' & L1 & Wm & _). cbn [wchain] in Wm. destruct Wm as (W1 & _).
  rewrite <- (tx_seq_refine3 strand chrom pre X post a b) by lia.
  rewrite (apply_record_ext _ (gene2tx strand gs ge (pre ++ (fst X, a) :: (a, b) :: (b, snd X) :: post)))
    by (intros; symmetry; apply gene2tx_refine3; lia).
  eapply (denotes_cong _ _ _ _ _ _ _ ((pre ++ [(fst X, a)]) ++ (a, b) :: (b, snd X) :: post) _ ((pre ++ [(fst X, a)]) ++ (b, snd X) :: post));
    [apply reassoc1|apply reassoc1|].
  apply (sem_del strand gs ge chrom); try assumption.
  - rewrite <- reassoc1. apply wchain_refine3; try assumption; lia.
Qed.

Lemma g2gene_inv : forall g idx v, g2gene g idx = Ok v ->
  g_start g <= idx /\ idx < g_end g /\ v = gcoord (g_strand g) (g_start g) (g_end g) idx.
Proof.
  unfold g2gene, gcoord. intros. destruct ((g_start g <=? idx) && (idx <? g_end g)) eqn:E; [|discriminate].
  inversion H. repeat split; lia.
Qed.

Lemma ri_ins_denotes : forall g chrom ue ds t alt r,
  wf_gene g chrom -> ue < ds -> g_start g <= ue -> ds <= g_end g -> In t (g_txs g) ->
  fst (ri_scan (t_exons t) ue ds) = true -> alt_ri (t_exons t) ue ds = Some alt ->
  r_kind r = KIns ->
  r_start r = (if g_strand g =? 1 then ue - g_start g - 1 else g_end g - ds - 1) ->
  r_DS r = (if g_strand g =? 1 then ue - g_start g else g_end g - ds) ->
  r_DE r = (if g_strand g =? 1 then ds - g_start g else g_end g - ue) ->
  denotes g chrom t r alt.
Proof.
  intros g chrom ue ds t alt r (Hst & Hgs & Hge & Hch) Hlt B1 B2 Ht Sp Halt K P DS DE.
  destruct (proj1 (ri_scan_spec _ _ ue ds (le_n _)) Sp) as (pre & A & B & post & Ex & HA & HB).
  pose proof (Hch t Ht) as C. rewrite Ex in C.
  rewrite Ex in Halt. rewrite (alt_ri_spliced _ _ _ _ _ _ _ _ C HA HB) in Halt. inversion Halt; subst alt. clear Halt.
  destruct (chain_pre _ _ _ _ _ C) as (Hpre & A1 & A2 & A3 & C5). cbn [chain] in C5. destruct C5 as (C6 & C7 & C8 & C9).
  destruct A as [a1 a2], B as [b1 b2]. cbn [fst snd] in *. subst a2 b1.
  unfold denotes. rewrite Ex.
  assert (R := tx_seq_refine3 (g_strand g) chrom pre (a1, b2) post ue ds). cbn [fst snd] in R.
  specialize (R ltac:(lia) ltac:(lia) ltac:(lia) ltac:(lia)).
  etransitivity; [|apply f_equal; exact R]. clear R.
  destruct Hst as [S1|S1]; rewrite S1 in *; cbn [Z.eqb Pos.eqb] in *.
  - eapply (denotes_cong _ _ _ _ _ _ _ _ _ ((pre ++ [(a1, ue)]) ++ (ue, ds) :: (ds, b2) :: post)); [reflexivity|apply reassoc1|].
    apply sem_ins_plus; try assumption; cbn [fst snd]; try lia.
    apply chain_wchain. assumption.
  - eapply (denotes_cong _ _ _ _ _ _ _ ((pre ++ [(a1, ue)]) ++ (ds, b2) :: post) _ ((pre ++ [(a1, ue)]) ++ (ue, ds) :: (ds, b2) :: post));
      [apply reassoc1|apply reassoc1|].
    apply sem_ins_minus; try assumption; cbn [fst snd]; try lia.
    apply chain_wchain. rewrite <- reassoc1. assumption.
Qed.

Lemma ri_del_denotes : forall g chrom ue ds t alt r,
  wf_gene g chrom -> ue < ds -> In t (g_txs g) ->
  0 < snd (ri_scan (t_exons t) ue ds) -> alt_ri (t_exons t) ue ds = Some alt ->
  r_kind r = KDel ->
  r_S r = (if g_strand g =? 1 then ue - g_start g else g_end g - ds) ->
  r_E r = (if g_strand g =? 1 then ds - g_start g else g_end g - ue) ->
  denotes g chrom t r alt.
Proof.
  intros g chrom ue ds t alt r (Hst & Hgs & Hge & Hch) Hlt Ht Sp Halt K S E.
  destruct (proj2 (ri_scan_spec _ _ ue ds (le_n _)) Sp) as (pre & X & post & Ex & HX).
  unfold ri_cond in HX. pose proof ri_slack_nonneg as SL.
  destruct ((fst X <? ue) && (ue <? ds) && (ds <? snd X - Gen.RmatsConst.ri_end_slack)) eqn:EX; [|discriminate].
  pose proof (Hch t Ht) as C. rewrite Ex in C.
  assert (X1 : fst X < ue) by lia. assert (X3 : ds < snd X) by lia.
  rewrite Ex in Halt. rewrite (alt_ri_retained _ _ _ _ _ _ _ C X1 Hlt X3) in Halt.
  inversion Halt; subst alt. clear Halt.
  unfold denotes. rewrite Ex.
  apply sem_del_inner; try assumption; try lia.
  apply chain_wchain. assumption.
Qed.

Lemma rmats_ri_reproduces : forall g chrom ue ds c id rs,
  wf_gene g chrom -> ue < ds ->
  ri_convert g (gene_seq (g_strand g) chrom (g_start g) (g_end g)) ue ds c = Ok (id, rs) ->
  forall r, In r rs -> forall t alt,
    0 <= r_tx r -> nth_error (g_txs g) (Z.to_nat (r_tx r)) = Some t ->
    alt_ri (t_exons t) ue ds = Some alt ->
    denotes g chrom t r alt.
Proof.
  intros g chrom ue ds c id rs Hwf Hlt Hc r Hin t alt Hr0 Hnth Halt.
  pose proof Hwf as (Hst & Hgs & Hge & Hch).
  unfold ri_convert in Hc.
  pose proof (ri_lists_spec (g_txs g) ue ds 0) as Spec.
  destruct (ri_lists (g_txs g) ue ds 0) as [spliced retained]. cbn [fst snd] in Spec.
  apply bind_ok in Hc. destruct Hc as (sg0 & G1 & Hc). apply bind_ok in Hc. destruct Hc as (eg0 & G2 & Hc).
  destruct (g2gene_inv _ _ _ G1) as (B1 & B2 & ->). destruct (g2gene_inv _ _ _ G2) as (B3 & B4 & ->).
  unfold gcoord in Hc.
  assert (SM : (g_strand g =? -1) = negb (g_strand g =? 1)) by (destruct Hst as [S|S]; rewrite S; reflexivity).
  rewrite SM in Hc.
  destruct (g_strand g =? 1) eqn:SP; cbn [negb] in Hc; cbv beta iota zeta in Hc;
  (apply bind_ok in Hc; destruct Hc as (v1 & V1 & Hc); apply bind_ok in Hc; destruct Hc as (v2 & V2 & Hc);
   inversion Hc; subst id rs; clear Hc;
   apply in_app_or in Hin; destruct Hin as [Hin|Hin];
   [ destruct (negb (nonempty retained) && (ijc c >=? min_ijc c)); [|inversion V1; subst; contradiction];
     destruct (map_res_in _ _ _ _ _ _ V1 Hin) as (i & Ii & Fi);
     apply bind_ok in Fi; destruct Fi as (ref & _ & Fi); inversion Fi; subst r; clear Fi; cbn [r_tx] in *;
     destruct (proj1 (Spec i) Ii) as (t' & N & _ & Sp); rewrite Z.sub_0_r in N; rewrite N in Hnth; inversion Hnth; subst t';
     apply (ri_ins_denotes g chrom ue ds t alt); try assumption; try lia;
       [eapply nth_error_In; eassumption|reflexivity|cbn [r_start]; rewrite SP; lia|cbn [r_DS]; rewrite SP; lia|cbn [r_DE]; rewrite SP; lia]
   | destruct (negb (nonempty spliced) && (sjc c >=? min_sjc c)); [|inversion V2; subst; contradiction];
     apply bind_ok in V2; destruct V2 as (u & _ & V2);
     destruct (map_res_in _ _ _ _ _ _ V2 Hin) as (i & Ii & Fi);
     apply bind_ok in Fi; destruct Fi as (ref & _ & Fi); inversion Fi; subst r; clear Fi; cbn [r_tx] in *;
     destruct (proj2 (Spec i) Ii) as (t' & N & _ & Sp); rewrite Z.sub_0_r in N; rewrite N in Hnth; inversion Hnth; subst t';
     apply (ri_del_denotes g chrom ue ds t alt); try assumption;
       [eapply nth_error_In; eassumption|reflexivity|cbn [r_S]; rewrite SP; lia|cbn [r_E]; rewrite SP; lia] ]).
Qed.

(* ================================================================== assembling: MXE *)
Lemma alt_mxe_inv : forall ex U X Y D alt, alt_mxe ex U X Y D = Some alt ->
  exists (pre post : list exon), ex = pre ++ U :: X :: D :: post /\ alt = pre ++ U :: Y :: D :: post.
Proof.
  induction ex as [|a t IH]; intros U X Y D alt H; cbn [alt_mxe] in H; [discriminate|].
  destruct (exon_eqb a U) eqn:EU.
  - apply exon_eqb_eq in EU. subst a.
    destruct t as [|b [|c t3]]; try discriminate.
    destruct (exon_eqb b X && exon_eqb c D) eqn:E; [|discriminate].
    apply andb_prop in E. destruct E as (E1 & E2). apply exon_eqb_eq in E1. apply exon_eqb_eq in E2. subst b c.
    inversion H; subst. exists [], t3. split; reflexivity.
  - destruct (alt_mxe t U X Y D) eqn:R; [|discriminate]. cbn in H. inversion H; subst.
    destruct (IH _ _ _ _ _ R) as (pre & post & A & B). subst.
    exists (a :: pre), post. split; reflexivity.
Qed.

Lemma dedup_first_in : forall same l seen r, In r (dedup_first same seen l) -> In r l.
Proof.
  induction l as [|x t IH]; intros seen r H; cbn [dedup_first] in H; [contradiction|].
  destruct (existsb (same x) seen).
  - right. eapply IH; eassumption.
  - destruct H as [<-|H]; [left; reflexivity|right; eapply IH; eassumption].
Qed.

Lemma rmats_mxe_reproduces : forall g chrom f1s f1e f2s f2e us ue ds de c id rs,
  wf_gene g chrom -> ue < f1s -> f1s < f1e -> f1e < f2s -> f2s < f2e -> f2e < ds ->
  mxe_convert g (gene_seq (g_strand g) chrom (g_start g) (g_end g)) f1s f1e f2s f2e us ue ds de c = Ok (id, rs) ->
  forall r, In r rs -> forall t alt,
    0 <= r_tx r -> nth_error (g_txs g) (Z.to_nat (r_tx r)) = Some t ->
    (alt_mxe (t_exons t) (us, ue) (f1s, f1e) (f2s, f2e) (ds, de) = Some alt \/
     alt_mxe (t_exons t) (us, ue) (f2s, f2e) (f1s, f1e) (ds, de) = Some alt) ->
    denotes g chrom t r alt.
Proof.
  intros g chrom f1s f1e f2s f2e us ue ds de c id rs (Hst & Hgs & Hge & Hch) O1 O2 O3 O4 O5 Hc r Hin t alt Hr0 Hnth Halt.
  unfold mxe_convert in Hc.
  apply bind_ok in Hc. destruct Hc as (known & _ & Hc).
  destruct known; [inversion Hc; subst; contradiction|].
  apply bind_ok in Hc. destruct Hc as (id' & _ & Hc).
  apply bind_ok in Hc. destruct Hc as (rs' & Hov & Hc). inversion Hc; subst id' rs. clear Hc.
  apply dedup_first_in in Hin.
  destruct (over_txs_in _ _ _ _ _ _ Hov Hin) as (k & t' & out & Hk & Hf & Hout).
  apply seq2_ok in Hf. destruct Hf as (o1 & o2 & F1 & F2 & ->).
  assert (Htx : r_tx r = 0 + Z.of_nat k).
  { apply in_app_or in Hout. destruct Hout as [Ho|Ho].
    - destruct (ijc c >=? min_ijc c); [|inversion F1; subst; contradiction].
      eapply junction_records_tx; [exact F1|exact Ho].
    - destruct (sjc c >? min_sjc c); [|inversion F2; subst; contradiction].
      eapply junction_records_tx; [exact F2|exact Ho]. }
  rewrite Htx in Hnth. replace (Z.to_nat (0 + Z.of_nat k)) with k in Hnth by lia.
  rewrite Hk in Hnth. inversion Hnth; subst t'. clear Hnth.
  assert (Hcht : chain (g_start g) (t_exons t) (g_end g)) by (apply Hch; eapply nth_error_In; eassumption).
  unfold denotes.
  destruct Halt as [Halt|Halt]; destruct (alt_mxe_inv _ _ _ _ _ _ Halt) as (pre & post & Hex & ->).
  - (* transcript carries U first D: only U->second yields a record, first substituted by second *)
    apply in_app_or in Hout. destruct Hout as [Ho|Ho].
    + destruct (ijc c >=? min_ijc c); [|inversion F1; subst; contradiction].
      rewrite (mxe_first_fd g chrom _ t _ _ _ _ _ _ _ _ _ Hex Hcht F1) in Ho. contradiction.
    + destruct (sjc c >? min_sjc c); [|inversion F2; subst; contradiction].
      destruct (mxe_first_su g chrom Hst Hgs Hge _ t _ _ _ _ _ _ _ _ _ _ _ Hex Hcht O3 O4 O5 F2 r Ho) as (K & S & E & DS & DE).
      rewrite Hex.
      eapply (denotes_cong _ _ _ _ _ _ _ ((pre ++ [(us, ue)]) ++ (f1s, f1e) :: (ds, de) :: post) _ ((pre ++ [(us, ue)]) ++ (f2s, f2e) :: (ds, de) :: post));
        [apply reassoc1|apply reassoc1|].
      rewrite Hex in Hcht. destruct (chain_pre _ _ _ _ _ Hcht) as (_ & U1 & U2 & U3 & C2). cbn [chain fst snd] in C2, U1, U2, U3.
      apply sem_sub; try assumption; cbn [fst snd]; try lia.
      apply chain_wchain. rewrite <- reassoc1. assumption.
  - (* transcript carries U second D: only first->D yields a record, second substituted by first *)
    apply in_app_or in Hout. destruct Hout as [Ho|Ho].
    + destruct (ijc c >=? min_ijc c); [|inversion F1; subst; contradiction].
      destruct (mxe_second_fd g chrom Hst Hgs Hge _ t _ _ _ _ _ _ _ _ _ _ _ Hex Hcht O1 O2 O3 F1 r Ho) as (K & S & E & DS & DE).
      rewrite Hex.
      eapply (denotes_cong _ _ _ _ _ _ _ ((pre ++ [(us, ue)]) ++ (f2s, f2e) :: (ds, de) :: post) _ ((pre ++ [(us, ue)]) ++ (f1s, f1e) :: (ds, de) :: post));
        [apply reassoc1|apply reassoc1|].
      rewrite Hex in Hcht. destruct (chain_pre _ _ _ _ _ Hcht) as (_ & U1 & U2 & U3 & C2). cbn [chain fst snd] in C2, U1, U2, U3.
      apply sem_sub; try assumption; cbn [fst snd]; try lia.
      apply chain_wchain. rewrite <- reassoc1. assumption.
    + destruct (sjc c >? min_sjc c); [|inversion F2; subst; contradiction].
      rewrite (mxe_second_su g chrom _ t _ _ _ _ _ _ _ _ _ Hex Hcht F2) in Ho. contradiction.
Qed.

(* ================================================================== assembling: A5SS / A3SS *)
Lemma alt_ss_inv_end : forall ex from to flank alt, alt_ss ex true from to flank = Some alt ->
  exists (pre : list exon) (a b : exon) (post : list exon),
    ex = pre ++ a :: b :: post /\ snd a = from /\ fst b = flank /\ fst a < to /\ alt = pre ++ (fst a, to) :: b :: post.
Proof.
  induction ex as [|a t IH]; intros from to flank alt H; cbn [alt_ss] in H; [discriminate|].
  destruct t as [|b t2]; [discriminate|].
  cbn [negb andb] in H.
  destruct ((snd a =? from) && (fst b =? flank) && (fst a <? to)) eqn:E.
  - inversion H; subst. exists [], a, b, t2. repeat split; try lia.
  - destruct (alt_ss (b :: t2) true from to flank) eqn:R; [|discriminate]. cbn in H. inversion H; subst.
    destruct (IH _ _ _ _ R) as (pre & a' & b' & post & E1 & E2 & E3 & E4 & E5). subst.
    exists (a :: pre), a', b', post. rewrite E1. repeat split; try assumption; reflexivity.
Qed.

Lemma alt_ss_inv_start : forall ex from to flank alt, alt_ss ex false from to flank = Some alt ->
  exists (pre : list exon) (a b : exon) (post : list exon),
    ex = pre ++ a :: b :: post /\ snd a = flank /\ fst b = from /\ to < snd b /\ alt = pre ++ a :: (to, snd b) :: post.
Proof.
  induction ex as [|a t IH]; intros from to flank alt H; cbn [alt_ss] in H; [discriminate|].
  destruct t as [|b t2]; [discriminate|].
  cbn [negb andb] in H.
  destruct ((snd a =? flank) && (fst b =? from) && (to <? snd b)) eqn:E.
  - inversion H; subst. exists [], a, b, t2. repeat split; try lia.
  - destruct (alt_ss (b :: t2) false from to flank) eqn:R; [|discriminate]. cbn in H. inversion H; subst.
    destruct (IH _ _ _ _ R) as (pre & a' & b' & post & E1 & E2 & E3 & E4 & E5). subst.
    exists (a :: pre), a', b', post. rewrite E1. repeat split; try assumption; reflexivity.
Qed.

Lemma tx_seq_drop_empty : forall strand chrom (pre post : list exon) m,
  tx_seq strand chrom (pre ++ (m, m) :: post) = tx_seq strand chrom (pre ++ post).
Proof.
  intros. unfold tx_seq.
  assert (E : exons_seq chrom (pre ++ (m, m) :: post) = exons_seq chrom (pre ++ post)).
  { rewrite !exons_seq_app. f_equal.
    change (exons_seq chrom ((m, m) :: post)) with (slice chrom m m ++ exons_seq chrom post).
    unfold slice. rewrite Z.sub_diag. reflexivity. }
  rewrite E. reflexivity.
Qed.

Lemma tx_seq_merge2 : forall strand chrom (pre post : list exon) x m y, 0 <= x -> x <= m -> m <= y ->
  tx_seq strand chrom (pre ++ (x, m) :: (m, y) :: post) = tx_seq strand chrom (pre ++ (x, y) :: post).
Proof.
  intros. unfold tx_seq.
  assert (E : exons_seq chrom (pre ++ (x, m) :: (m, y) :: post) = exons_seq chrom (pre ++ (x, y) :: post)).
  { rewrite !exons_seq_app. f_equal.
    change (exons_seq chrom ((x, m) :: (m, y) :: post)) with (slice chrom x m ++ slice chrom m y ++ exons_seq chrom post).
    change (exons_seq chrom ((x, y) :: post)) with (slice chrom x y ++ exons_seq chrom post).
    rewrite app_assoc. f_equal. apply slice_app; lia. }
  rewrite E. reflexivity.
Qed.

(* the four semantic steps, stated on the record shape produced by the cascade lemmas *)
Lemma ss_del_end_denotes : forall g chrom (t : tx) (pre post : list exon) a1 a2 b to r,
  wf_gene g chrom -> In t (g_txs g) -> t_exons t = pre ++ (a1, a2) :: b :: post -> a1 < to -> to < a2 ->
  r_kind r = KDel -> r_S r = (if g_strand g =? 1 then to - g_start g else g_end g - a2) ->
  r_E r = (if g_strand g =? 1 then a2 - g_start g else g_end g - to) ->
  denotes g chrom t r (pre ++ (a1, to) :: b :: post).
Proof.
  intros g chrom t pre post a1 a2 b to r (Hst & Hgs & Hge & Hch) Ht Hex O1 O2 K S E.
  pose proof (Hch t Ht) as C. rewrite Hex in C.
  destruct (chain_pre _ _ _ _ _ C) as (_ & U1 & _). cbn [fst] in U1.
  unfold denotes. rewrite Hex.
  assert (R := tx_seq_drop_empty (g_strand g) chrom (pre ++ [(a1, to)]) (b :: post) a2).
  rewrite <- !reassoc1 in R.
  etransitivity; [|apply f_equal; exact R]. clear R.
  apply (sem_del_inner (g_strand g) (g_start g) (g_end g) chrom pre (a1, a2) (b :: post) to a2);
    try assumption; cbn [fst snd]; try lia.
  apply chain_wchain. assumption.
Qed.

Lemma ss_del_start_denotes : forall g chrom (t : tx) (pre post : list exon) a b1 b2 to r,
  wf_gene g chrom -> In t (g_txs g) -> t_exons t = pre ++ a :: (b1, b2) :: post -> b1 < to -> to < b2 ->
  r_kind r = KDel -> r_S r = (if g_strand g =? 1 then b1 - g_start g else g_end g - to) ->
  r_E r = (if g_strand g =? 1 then to - g_start g else g_end g - b1) ->
  denotes g chrom t r (pre ++ a :: (to, b2) :: post).
Proof.
  intros g chrom t pre post a b1 b2 to r (Hst & Hgs & Hge & Hch) Ht Hex O1 O2 K S E.
  pose proof (Hch t Ht) as C. rewrite Hex in C.
  unfold denotes. rewrite Hex.
  assert (R := tx_seq_drop_empty (g_strand g) chrom (pre ++ [a]) ((to, b2) :: post) b1).
  rewrite <- !reassoc1 in R.
  etransitivity; [|apply f_equal; exact R]. clear R.
  eapply (denotes_cong _ _ _ _ _ _ _ ((pre ++ [a]) ++ (b1, b2) :: post) _ ((pre ++ [a]) ++ (b1, b1) :: (to, b2) :: post));
    [apply reassoc1|apply reassoc1|].
  apply (sem_del_inner (g_strand g) (g_start g) (g_end g) chrom (pre ++ [a]) (b1, b2) post b1 to);
    try assumption; cbn [fst snd]; try lia.
  apply chain_wchain. rewrite <- reassoc1. assumption.
Qed.

Lemma ss_ins_denotes : forall g chrom (t : tx) (pre post : list exon) a1 a2 b1 b2 c d r alt,
  wf_gene g chrom -> In t (g_txs g) -> t_exons t = pre ++ (a1, a2) :: (b1, b2) :: post ->
  a2 <= c -> c < d -> d <= b1 ->
  tx_seq (g_strand g) chrom ((pre ++ [(a1, a2)]) ++ (c, d) :: (b1, b2) :: post) = tx_seq (g_strand g) chrom alt ->
  r_kind r = KIns ->
  r_start r = (if g_strand g =? 1 then a2 - 1 - g_start g else g_end g - 1 - b1) ->
  r_DS r = (if g_strand g =? 1 then c - g_start g else g_end g - d) ->
  r_DE r = (if g_strand g =? 1 then d - g_start g else g_end g - c) ->
  denotes g chrom t r alt.
Proof.
  intros g chrom t pre post a1 a2 b1 b2 c d r alt (Hst & Hgs & Hge & Hch) Ht Hex O1 O2 O3 R K P DS DE.
  pose proof (Hch t Ht) as C. rewrite Hex in C.
  destruct (chain_pre _ _ _ _ _ C) as (_ & U1 & U2 & U3 & C2). cbn [chain fst snd] in C2, U1, U2, U3.
  unfold denotes. rewrite Hex.
  etransitivity; [|apply f_equal; exact R].
  destruct Hst as [S1|S1]; rewrite S1 in *; cbn [Z.eqb Pos.eqb] in *.
  - apply sem_ins_plus; try assumption; cbn [fst snd]; try lia.
    apply chain_wchain. assumption.
  - eapply (denotes_cong _ _ _ _ _ _ _ ((pre ++ [(a1, a2)]) ++ (b1, b2) :: post) _ _); [apply reassoc1|reflexivity|].
    apply sem_ins_minus; try assumption; cbn [fst snd]; try lia.
    apply chain_wchain. rewrite <- reassoc1. assumption.
Qed.

Lemma rmats_ss_reproduces : forall (five : bool) g chrom ls le ss se fs fe c id rs,
  wf_gene g chrom ->
  let ef := if five then g_strand g =? 1 else negb (g_strand g =? 1) in
  (ef = true -> se < le /\ le < fs /\ ls <= se) ->
  (ef = false -> fe < ls /\ ls < ss /\ ss <= le) ->
  ss_convert five g (gene_seq (g_strand g) chrom (g_start g) (g_end g)) ls le ss se fs fe c = Ok (id, rs) ->
  forall r, In r rs -> forall t alt,
    0 <= r_tx r -> nth_error (g_txs g) (Z.to_nat (r_tx r)) = Some t ->
    ((ef = true /\ (alt_ss (t_exons t) true le se fs = Some alt \/ alt_ss (t_exons t) true se le fs = Some alt)) \/
     (ef = false /\ (alt_ss (t_exons t) false ls ss fe = Some alt \/ alt_ss (t_exons t) false ss ls fe = Some alt))) ->
    denotes g chrom t r alt.
Proof.
  intros five g chrom ls le ss se fs fe c id rs Hwf ef OT OF Hc r Hin t alt Hr0 Hnth Halt.
  pose proof Hwf as (Hst & Hgs & Hge & Hch).
  unfold ss_convert in Hc. change (if five then g_strand g =? 1 else negb (g_strand g =? 1)) with ef in Hc.
  apply bind_ok in Hc. destruct Hc as (known & _ & Hc).
  destruct known; [inversion Hc; subst; contradiction|].
  apply bind_ok in Hc. destruct Hc as (id' & _ & Hc).
  apply bind_ok in Hc. destruct Hc as (rs' & Hov & Hc). inversion Hc; subst id' rs'. clear Hc.
  destruct (over_txs_in _ _ _ _ _ _ Hov Hin) as (k & t' & out & Hk & Hf & Hout).
  apply seq2_ok in Hf. destruct Hf as (o1 & o2 & F1 & F2 & ->).
  assert (Htx : r_tx r = 0 + Z.of_nat k).
  { apply in_app_or in Hout. destruct Hout as [Ho|Ho].
    - destruct (ijc c >=? min_ijc c); [|inversion F1; subst; contradiction].
      eapply junction_records_tx; [exact F1|exact Ho].
    - destruct (sjc c >=? min_sjc c); [|inversion F2; subst; contradiction].
      eapply junction_records_tx; [exact F2|exact Ho]. }
  rewrite Htx in Hnth. replace (Z.to_nat (0 + Z.of_nat k)) with k in Hnth by lia.
  rewrite Hk in Hnth. inversion Hnth; subst t'. clear Hnth.
  assert (Ht : In t (g_txs g)) by (eapply nth_error_In; eassumption).
  assert (Hcht : chain (g_start g) (t_exons t) (g_end g)) by (apply Hch; assumption).
  destruct ef eqn:EF.
  - (* the alternative boundary is an exon END; junctions (ls,le,fs,fe) and (ss,se,fs,fe), upstream_novel *)
    destruct (OT eq_refl) as (T1 & T2 & T3).
    destruct Halt as [(_ & Halt)|(X & _)]; [|discriminate].
    cbn [negb] in F1, F2.
    destruct Halt as [Halt|Halt]; destruct (alt_ss_inv_end _ _ _ _ _ Halt) as (pre & [a1 a2] & [b1 b2] & post & Hex & HA & HB & HT & ->);
      cbn [fst snd] in *; subst a2 b1;
      apply in_app_or in Hout; destruct Hout as [Ho|Ho].
    + destruct (ijc c >=? min_ijc c); [|inversion F1; subst; contradiction].
      assert (o1 = []) by (eapply (ssA_own g chrom); [exact Hex|exact Hcht|exact F1]). subst o1. contradiction.
    + destruct (sjc c >=? min_sjc c); [|inversion F2; subst; contradiction].
      assert (Sh := ssA_del g chrom Hst Hgs Hge _ t pre post a1 le fs b2 ss se fe o2 Hex Hcht HT T1 F2 r Ho).
      destruct Sh as (K & S & E).
      eapply ss_del_end_denotes; eauto.
    + destruct (ijc c >=? min_ijc c); [|inversion F1; subst; contradiction].
      assert (Sh := ssA_ins g chrom Hst Hgs Hge _ t pre post a1 se fs b2 ls le fe o1 Hex Hcht T1 T2 T3 F1 r Ho).
      destruct Sh as (K & P & DS & DE).
      eapply (ss_ins_denotes g chrom t pre post a1 se fs b2 se le); eauto; try lia.
      rewrite Hex in Hcht. destruct (chain_pre _ _ _ _ _ Hcht) as (_ & U1 & U2 & _). cbn [fst snd] in U1, U2.
      rewrite <- reassoc1. apply tx_seq_merge2; lia.
    + destruct (sjc c >=? min_sjc c); [|inversion F2; subst; contradiction].
      assert (o2 = []) by (eapply (ssA_own g chrom); [exact Hex|exact Hcht|exact F2]). subst o2. contradiction.
  - (* the alternative boundary is an exon START; junctions (fs,fe,ls,le) and (fs,fe,ss,se), downstream_novel *)
    destruct (OF eq_refl) as (T1 & T2 & T3).
    destruct Halt as [(X & _)|(_ & Halt)]; [discriminate|].
    cbn [negb] in F1, F2.
    destruct Halt as [Halt|Halt]; destruct (alt_ss_inv_start _ _ _ _ _ Halt) as (pre & [a1 a2] & [b1 b2] & post & Hex & HA & HB & HT & ->);
      cbn [fst snd] in *; subst a2 b1;
      apply in_app_or in Hout; destruct Hout as [Ho|Ho].
    + destruct (ijc c >=? min_ijc c); [|inversion F1; subst; contradiction].
      assert (o1 = []) by (eapply (ssB_own g chrom); [exact Hex|exact Hcht|exact F1]). subst o1. contradiction.
    + destruct (sjc c >=? min_sjc c); [|inversion F2; subst; contradiction].
      assert (Sh := ssB_del g chrom Hst Hgs Hge _ t pre post a1 fe ls b2 fs ss se o2 Hex Hcht T2 HT F2 r Ho).
      destruct Sh as (K & S & E).
      eapply ss_del_start_denotes; eauto.
    + destruct (ijc c >=? min_ijc c); [|inversion F1; subst; contradiction].
      assert (Sh := ssB_ins g chrom Hst Hgs Hge _ t pre post a1 fe ss b2 fs ls le o1 Hex Hcht T1 T2 T3 F1 r Ho).
      destruct Sh as (K & P & DS & DE).
      eapply (ss_ins_denotes g chrom t pre post a1 fe ss b2 ls ss); eauto; try lia.
      rewrite Hex in Hcht. destruct (chain_pre _ _ _ _ _ Hcht) as (_ & U1 & U2 & _ & C2). cbn [chain fst snd] in U1, U2, C2.
      etransitivity; [apply (tx_seq_merge2 _ _ (pre ++ [(a1, fe)]) post ls ss b2); lia|].
      rewrite <- reassoc1. reflexivity.
    + destruct (sjc c >=? min_sjc c); [|inversion F2; subst; contradiction].
      assert (o2 = []) by (eapply (ssB_own g chrom); [exact Hex|exact Hcht|exact F2]). subst o2. contradiction.
Qed.
