(* C13 -- the codec model instantiated with the constants regenerated from the repo. Definitions only. *)
From MoPep Require Import Model.Base Model.Gvf Gen.GvfConst.
Open Scope Z_scope.

Definition gen_cfg : cfg :=
  mkCfg writer_shift reader_shift single_nucleotide_substitution variant_types no_len_check_types
        upper3_types fusion_alt alt_table.
(* the parser of the unchanged code, and of the code with reader keys = writer keys *)
Definition gen_parse2 := parse2 gen_cfg circ_rkeys.
