(* Faithful model of the dispatch loop of moPepGen/cli/call_variant_peptide.py:call_variant_peptide

     dispatches = []; i = 0
     for tx_id in tx_sorted:
         dispatch = caller.gather_data_for_call_variant(tx_id, pool)
         if not dispatch: continue                       # skipped transcript: i is NOT incremented
         dispatches.append(dispatch)
         reloaded = ((i + 1) % threads == 0 or i + 1 == len(tx_sorted)) and len(dispatches) > 0
         if reloaded:
             results = pool.map(caller_reducer, dispatches) if threads > 1 else [caller_reducer(dispatches[0])]
             ...; dispatches = []
         i += 1

   as a step function over (transcript, skipped?) parametric in threads, and of the loop after the
   proposed repair (proposed_fixes/C06_D3.patch).  Also the record gathering of
   VariantRecordPoolOnDisk.__getitem__ over abstract lists.  Definitions only. *)
From MoPep Require Import Model.Base.
Open Scope Z_scope.

Record bstate := mkB {
  b_i : Z;                     (* the counter i *)
  b_pending : list Z;          (* dispatches (transcripts gathered, not yet handed out) *)
  b_out : list (list Z);       (* batches handed to caller_reducer so far, in order *)
}.

(* threads > 1: process_pool.map(caller_reducer, dispatches); else [caller_reducer(dispatches[0])] *)
Definition dispatched (threads : Z) (pending : list Z) : list Z :=
  if 1 <? threads then pending else firstn 1 pending.

(* the loop body as written; x = (transcript, gather_data_for_call_variant returned None?) *)
Definition step_orig (threads n : Z) (s : bstate) (x : Z * bool) : bstate :=
  if snd x then s                                            (* continue *)
  else
    let pending := b_pending s ++ [fst x] in
    let reloaded := (((b_i s + 1) mod threads =? 0) || (b_i s + 1 =? n)) && (0 <? zlen pending) in
    if reloaded
    then mkB (b_i s + 1) [] (b_out s ++ [dispatched threads pending])
    else mkB (b_i s + 1) pending (b_out s).

(* the loop body after the repair:
         if dispatch: dispatches.append(dispatch)
         reloaded = (len(dispatches) == threads or i + 1 == len(tx_sorted)) and len(dispatches) > 0
         ...
         i += 1                                              # now for every transcript *)
Definition step_fix (threads n : Z) (s : bstate) (x : Z * bool) : bstate :=
  let pending := if snd x then b_pending s else b_pending s ++ [fst x] in
  let reloaded := ((zlen pending =? threads) || (b_i s + 1 =? n)) && (0 <? zlen pending) in
  if reloaded
  then mkB (b_i s + 1) [] (b_out s ++ [dispatched threads pending])
  else mkB (b_i s + 1) pending (b_out s).

Definition init_b : bstate := mkB 0 [] [].

Definition run_loop (step : Z -> Z -> bstate -> Z * bool -> bstate) (threads : Z)
           (l : list (Z * bool)) : bstate :=
  fold_left (step threads (zlen l)) l init_b.

Definition batches_orig (threads : Z) (l : list (Z * bool)) : list (list Z) :=
  b_out (run_loop step_orig threads l).
Definition batches_fix (threads : Z) (l : list (Z * bool)) : list (list Z) :=
  b_out (run_loop step_fix threads l).

(* the transcripts that must be processed: those not skipped, in order *)
Definition nonskipped (l : list (Z * bool)) : list Z :=
  map fst (filter (fun x => negb (snd x)) l).

(* ------------------------------------------------------------------ record gathering
   VariantRecordPoolOnDisk: pointers[key] lists, file after file in the order the files were
   given, the positions of the records of transcript `key`; __getitem__ loads them all and takes
   set(records).  Abstractly: a file is a list of (transcript, record); a layout is a list of files. *)
Definition gather (tx : Z) (files : list (list (Z * Z))) : list Z :=
  flat_map (fun f => map snd (filter (fun r => fst r =? tx) f)) files.

(* pool.pointers.keys(): the transcripts that have at least one record *)
Definition keys (files : list (list (Z * Z))) : list Z :=
  flat_map (fun f => map fst f) files.
