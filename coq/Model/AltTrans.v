(* C09 - callAltTranslation.
   Level F (faithful):
     moPepGen/seqvar/VariantRecord.py: create_variant_sect   (position arithmetic of the SECT id)
     moPepGen/svgraph/ThreeFrameTVG.py: gather_sect_variants  (one SECT pseudo-variant per annotated Sec)
     moPepGen/svgraph/VariantPeptideDict.py:
        MiscleavedNodes.translational_modification  (Met removal + Sec truncation of one joined peptide)
        VariantPeptideDict.translational_modification (W>F subsets: Model/W2F.v)
     moPepGen/cli/call_alt_translation.py: transcript loop (coding transcripts only, flag check)
   Level S (specification): the definitional alt-translation digest of a coding transcript's annotated ORF.
   The graph engine is not modelled (tied by correspondence).  Definitions only. *)
From MoPep Require Import Model.Base Model.Rule Model.Digest Model.W2F Model.NovelOrf Model.Anno.
Open Scope Z_scope.

Definition U_code : Z := 85.

(* ------------------------------------------------------------------ F: create_variant_sect *)
(* returns the number n of the id "SECT-n" ( = start_gene + 1 ); errors of the coordinate
   conversions propagate in the order the code evaluates them *)
Definition sect_id (tstrand : Z) (ex : list exon) (gstrand gs ge : Z) (pos : Z) : res Z :=
  let start_tx := pos in
  let end_tx := pos + 2 in
  match tx2g tstrand ex start_tx with
  | Err e => Err e
  | Ok start_genome =>
    match tx2g tstrand ex end_tx with
    | Err e => Err e
    | Ok end_genome =>
      match g2gene gstrand gs ge start_genome with
      | Err e => Err e
      | Ok start_gene =>
        match g2gene gstrand gs ge end_genome with
        | Err e => Err e
        | Ok end_gene => Ok (start_gene + 1)
        end
      end
    end
  end.

(* location = FeatureLocation(start_tx, end_tx + 1) *)
Definition sect_location (pos : Z) : Z * Z := (pos, pos + 2 + 1).

(* gather_sect_variants: one per annotated Sec, in order *)
Fixpoint gather_sect (tstrand : Z) (ex : list exon) (gstrand gs ge : Z) (secs : list Z) : res (list (Z * (Z * Z))) :=
  match secs with
  | [] => Ok []
  | p :: t =>
      match sect_id tstrand ex gstrand gs ge p with
      | Err e => Err e
      | Ok n => match gather_sect tstrand ex gstrand gs ge t with
                | Err e => Err e
                | Ok l => Ok ((n, sect_location p) :: l)
                end
      end
  end.

(* ------------------------------------------------------------------ F: node-level translational_modification *)
(* one joined peptide `s`, `start` = is_start_codon, `secs` = offsets of the annotated Sec residues in s,
   `valid` = is_valid_seq.  Result: (events, sequence) in yield order; event None = no SECT, Some u = SECT at u.
   (check_variants is False on this path: callAltTranslation passes check_external_variants=False) *)
Definition tmod_forms (valid : seq -> bool) (start : bool) (s : seq) : list seq :=
  (if valid s then [s] else []) ++
  (if start && starts_with_M s && valid (tl s) then [tl s] else []).

Definition node_tmod (valid : seq -> bool) (start : bool) (secs : list nat) (s : seq)
  : list (option nat * seq) :=
  map (fun q => (None, q)) (tmod_forms valid start s) ++
  flat_map (fun u => map (fun q => (Some u, q)) (tmod_forms valid start (firstn u s))) secs.

(* ------------------------------------------------------------------ translation of the annotated ORF *)
(* from the ORF start (transcript position pos), codon by codon; a stop codon at an annotated Sec
   position is read as U; ends at the first other stop or at the last complete codon *)
Fixpoint translate_cds (tbl : codon_tbl) (secs : list Z) (pos : Z) (dna : seq) : seq :=
  match dna with
  | a :: b :: c :: r =>
      let x := codon_aa tbl a b c in
      if x =? STAR_code then
        (if memZ pos secs then U_code :: translate_cds tbl secs (pos + 3) r else [])
      else x :: translate_cds tbl secs (pos + 3) r
  | _ => []
  end.

Fixpoint u_positions_from (i : nat) (p : seq) : list nat :=
  match p with
  | [] => []
  | c :: r => (if c =? U_code then [i] else []) ++ u_positions_from (S i) r
  end.
Definition u_positions (p : seq) : list nat := u_positions_from 0 p.

(* ------------------------------------------------------------------ S: the definitional set *)
Record cdsrec := mkCdsRec {
  cr_prot : seq;        (* translation of the annotated ORF, Sec as U *)
  cr_nf : bool;         (* cds_start_NF *)
  cr_end_nf : bool;     (* mRNA_end_NF *)
  cr_left : seq;        (* in-frame translation of what precedes the ORF in the transcript, REVERSED *)
  cr_right : seq        (* in-frame translation of what follows the ORF (begins with the stop, '*') *)
}.

Fixpoint ltb_filter (u : nat) (l : list nat) : list nat :=
  match l with [] => [] | x :: t => if Nat.ltb x u then x :: ltb_filter u t else ltb_filter u t end.

Section Alt.
  Variable wt : weight_table.
  Variable water : Z.
  Variable lim : limits.
  Variable r : rule.
  Variable exc : option rule.

  Notation cl := (cleave wt water lim r exc).
  Notation keepb := (keep wt water lim).

  (* cut positions of the protein when the cleavage pattern also sees the in-frame neighbours of the ORF *)
  Definition full_sites_ctx (c : cdsrec) : list nat :=
    sites_ctx r exc (cr_left c) (cr_prot c) (cr_right c) 0.

  (* the annotated protein digested with those cut positions *)
  Definition canon_ctx (nf : bool) (c : cdsrec) : list seq :=
    cleave_loop wt water lim (cr_prot c) nf true (0%nat :: full_sites_ctx c ++ [length (cr_prot c)]).

  (* translation stopping at the Sec at index u, digested as a protein of its own *)
  Definition sect_products (nf : bool) (P : seq) (u : nat) : list seq := cl nf (firstn u P).

  (* the same residues cut where the FULL protein (in its frame) is cut: the pattern sees U and what follows *)
  Definition sect_products_ctx (nf : bool) (c : cdsrec) (u : nat) : list seq :=
    cleave_loop wt water lim (firstn u (cr_prot c)) nf true (0%nat :: ltb_filter u (full_sites_ctx c) ++ [u]).

  (* both readings cut the protein / the truncated protein at the same places *)
  Definition tx_stable (c : cdsrec) : bool := eq_nats (sites r exc (cr_prot c)) (full_sites_ctx c).
  Definition sect_stable (P : seq) (u : nat) : bool :=
    eq_nats (sites r exc (firstn u P)) (ltb_filter u (sites r exc P)).

  (* products that do not touch the C-terminal end (what remains obliged for mRNA_end_NF transcripts) *)
  Definition inner_products (nf : bool) (P : seq) : list seq :=
    cleave_loop wt water lim P nf true (0%nat :: sites r exc P).

  Definition has_site_from (P : seq) (u : nat) : bool :=
    existsb (fun st => Nat.leb u st) (sites r exc P).

  Definition alt_images (ps : list seq) : list seq := filter keepb (flat_map w2f_images ps).
  Definition alt_noncanon (pool : list seq) (q : seq) : bool := negb (mem_seq q pool).

  (* ---- MAY: every documented form (Met removal even for cds_start_NF, either context reading,
          C-terminal products of mRNA_end_NF transcripts) ---- *)
  Definition may_canon (c : cdsrec) : list seq := cl false (cr_prot c) ++ canon_ctx false c.
  Definition may_sect (c : cdsrec) : list seq :=
    flat_map (fun u => sect_products false (cr_prot c) u ++ sect_products_ctx false c u)
             (u_positions (cr_prot c)).
  Definition may_tx (sect w2f : bool) (c : cdsrec) : list seq :=
    let sp := if sect then may_sect c else [] in
    sp ++ (if w2f then alt_images (may_canon c ++ sp) else []).
  Definition alt_may (sect w2f : bool) (pool : list seq) (cs : list cdsrec) : list seq :=
    filter (alt_noncanon pool) (flat_map (may_tx sect w2f) cs).

  (* ---- MUST: only what the statement covers without appeal to a convention it is silent about ---- *)
  Definition must_sect (c : cdsrec) : list seq :=
    flat_map (fun u => if sect_stable (cr_prot c) u &&
                          (negb (cr_end_nf c) || has_site_from (cr_prot c) u)
                       then sect_products (cr_nf c) (cr_prot c) u else [])
             (u_positions (cr_prot c)).
  Definition must_canon (c : cdsrec) : list seq :=
    if cr_end_nf c then inner_products (cr_nf c) (cr_prot c) else cl (cr_nf c) (cr_prot c).
  Definition must_tx (sect w2f : bool) (c : cdsrec) : list seq :=
    if tx_stable c then
      let sp := if sect then must_sect c else [] in
      sp ++ (if w2f then alt_images (must_canon c ++ sp) else [])
    else [].
  Definition alt_must (sect w2f : bool) (pool : list seq) (cs : list cdsrec) : list seq :=
    filter (alt_noncanon pool) (flat_map (must_tx sect w2f) cs).

  (* ---- header witness: the named events suffice ---- *)
  (* events: optional SECT (index of the Sec in the protein) and the 1-based W2F positions in the peptide *)
  Definition header_src (c : cdsrec) (sect_at : option nat) : list seq :=
    match sect_at with
    | None => may_canon c
    | Some u => if mem_nat u (u_positions (cr_prot c))
                then sect_products false (cr_prot c) u ++ sect_products_ctx false c u
                else []
    end.
  Definition header_ok (c : cdsrec) (sect_at : option nat) (w2f_at : list nat) (q : seq) : bool :=
    let pos0 := map Nat.pred w2f_at in
    (match sect_at, w2f_at with None, [] => false | _, _ => true end) &&
    existsb (fun base => forallb (fun i => mem_nat i (w_positions base)) pos0 &&
                         eq_seq (apply_w2f pos0 base) q) (header_src c sect_at).
End Alt.
