(* Fusion transcripts on top of the reference semantics (callVariant half of C15; C02 soundness).
   Exonic breakpoints only: the fused backbone is  donor[:bp] ++ acceptor[bp':]  (transcript coordinates;
   bp = number of donor bases kept, bp' = first acceptor base kept).  Donor records lying wholly before
   the breakpoint and acceptor records lying wholly behind it stay applicable; the fusion itself counts
   as the variant, so the haplotype of ordinary records may be empty.  Definitions only. *)
From MoPep Require Import Model.Base Model.Rule Model.Digest Model.Spec Gen.Bio.
Open Scope Z_scope.

Definition move (d : Z) (v : variant) : variant := mkVar (v_s v + d) (v_e v + d) (v_alt v) (v_ok v).

(* xd, xa: the donor and the acceptor transcript with their own records (cleavage settings of xd) *)
Definition fuse (xd : input) (bp : Z) (xa : input) (bp' : Z) : input :=
  mkInput (firstn (Z.to_nat bp) (in_tx xd) ++ skipn (Z.to_nat bp') (in_tx xa))
          (in_coding xd && (in_orf xd + 3 <=? bp))
          (in_orf xd) (in_start_nf xd) (in_end_nf xa)
          (filter (fun p => p + 3 <=? bp) (in_sec xd))
          (filter (fun v => v_e v <=? bp) (in_vars xd) ++
           map (move (bp - bp')) (filter (fun v => bp' <=? v_s v) (in_vars xa)))
          (in_rule xd) (in_exc xd) (in_lim xd) (in_pool xd).

(* every product of the fused backbone carrying any compatible (possibly empty) set of the applicable records *)
Definition fusion_set (x : input) : list seq := may_products x [] ++ may_set x.

Definition realizable_fusion (xd : input) (bp : Z) (xa : input) (bp' : Z) (p : seq) : bool :=
  mem_seq p (fusion_set (fuse xd bp xa bp')).

(* ---- obliged side: records strictly before / behind the breakpoints; novelty relative to the donor
   transcript's own products (the tool's denylist) and the canonical pool *)
Definition fuse_strict (xd : input) (bp : Z) (xa : input) (bp' : Z) : input :=
  mkInput (firstn (Z.to_nat bp) (in_tx xd) ++ skipn (Z.to_nat bp') (in_tx xa))
          (in_coding xd && (in_orf xd + 3 <=? bp))
          (in_orf xd) (in_start_nf xd) (in_end_nf xa)
          (filter (fun p => p + 3 <? bp) (in_sec xd))
          (filter (fun v => v_e v <? bp) (in_vars xd) ++
           map (move (bp - bp')) (filter (fun v => bp' <? v_s v) (in_vars xa)))
          (in_rule xd) (in_exc xd) (in_lim xd) (in_pool xd).

(* obliged products of one haplotype of the fused backbone: translation starts lie in the donor part
   (annotated start, or -- non-coding donor -- an ATG wholly before the breakpoint) *)
Definition must_products_upto (x : input) (bp : Z) (h : list variant) : list seq :=
  let hs := apply_hap (in_tx x) h in
  flat_map (fun st =>
    products x (must_nf x) (must_tail x && negb (in_end_nf x))
             (translate_from hs st (map (shift h) (in_sec x))))
    (filter (fun st => st + 3 <=? shift h bp) (must_starts x hs)).

(* haplotypes that combine donor records with acceptor records are not obliged (the engine places acceptor
   indels differently once a donor indel precedes them: left to MAY) *)
Definition one_partner (bp : Z) (h : list variant) : bool :=
  forallb (fun v => v_e v <=? bp) h || forallb (fun v => bp <=? v_s v) h.

Definition must_fusion_set (xd : input) (bp : Z) (xa : input) (bp' : Z) : list seq :=
  let x := fuse_strict xd bp xa bp' in
  if in_coding xd && negb (in_coding x) then []        (* breakpoint inside / before the start codon: nothing obliged *)
  else if existsb (fun p => (p - 3 <? bp) && (bp <=? p + 6)) (in_sec xd) then []   (* breakpoint at a Sec codon *)
  else
  filter (fun p => negb (mem_seq p (ref_products xd)) && negb (mem_seq p (in_pool xd)))
         (must_products_upto x bp [] ++
          flat_map (must_products_upto x bp) (filter (one_partner bp) (must_haps x))).

(* signature of C02-fusion-sec-at-breakpoint: the engine keeps a donor Sec only if its codon ends strictly
   before the breakpoint (sect_variants with location.end < breakpoint): a Sec codon that ends exactly at
   the breakpoint is read as a stop *)
Definition fuse_secvoid (xd : input) (bp : Z) (xa : input) (bp' : Z) : input :=
  let x := fuse xd bp xa bp' in
  mkInput (in_tx x) (in_coding x) (in_orf x) (in_start_nf x) (in_end_nf x)
          (filter (fun p => p + 3 <? bp) (in_sec xd)) (in_vars x) (in_rule x) (in_exc x) (in_lim x) (in_pool x).

(* ------------------------------------------------------------------ general breakpoints (round 3) *)
(* A breakpoint inside an intron keeps the intronic piece next to it: the fused backbone is
     donor[:bp] ++ mid ++ acceptor[bp':]
   where bp = donor bases up to the end of the exon upstream of the donor breakpoint, mid = the donor-gene
   bases from there to the donor breakpoint followed by the acceptor-gene bases from the acceptor breakpoint to
   the next acceptor exon, bp' = first base of that exon (both pieces empty for exonic breakpoints).
   mvars = the small records lying in the retained pieces, in coordinates of mid; v_ok v = the record lies
   STRICTLY inside its piece (obliged side), otherwise it merely touches an end of the piece (permitted side).
   Records straddling an end of a piece are not passed at all: no haplotype of the fusion carries them. *)
Definition fuse_gen (xd : input) (bp : Z) (mid : seq) (mvars : list variant) (xa : input) (bp' : Z) : input :=
  mkInput (firstn (Z.to_nat bp) (in_tx xd) ++ mid ++ skipn (Z.to_nat bp') (in_tx xa))
          (in_coding xd && (in_orf xd + 3 <=? bp))
          (in_orf xd) (in_start_nf xd) (in_end_nf xa)
          (filter (fun p => p + 3 <=? bp) (in_sec xd))
          (filter (fun v => v_e v <=? bp) (in_vars xd) ++
           map (move bp) mvars ++
           map (move (bp + zlen mid - bp')) (filter (fun v => bp' <=? v_s v) (in_vars xa)))
          (in_rule xd) (in_exc xd) (in_lim xd) (in_pool xd).

(* permitted products of one haplotype with the open last peptide admitted or not *)
Definition may_products_t (x : input) (tail : bool) (h : list variant) : list seq :=
  let hs := apply_hap (in_tx x) h in
  flat_map (fun st =>
    flat_map (fun secs => products x false tail (translate_from hs st secs)) (may_secs x h))
    (may_starts x h hs).

(* the 3' end of a fusion transcript is the acceptor's: when the acceptor is mRNA_end_NF a translation that
   runs off the end has no defined last peptide (the tool clips it), otherwise the open tail is permitted *)
Definition fusion_tail (x : input) : bool := negb (in_end_nf x).

Definition fusion_set_t (x : input) : list seq :=
  may_products_t x (fusion_tail x) [] ++
  flat_map (may_products_t x (fusion_tail x)) (haplotypes false (in_vars x)).

Definition realizable_fusion_g (xd : input) (bp : Z) (mid : seq) (mvars : list variant) (xa : input) (bp' : Z)
  (p : seq) : bool :=
  mem_seq p (fusion_set_t (fuse_gen xd bp mid mvars xa bp')).

(* obliged side *)
Definition fuse_gen_strict (xd : input) (bp : Z) (mid : seq) (mvars : list variant) (xa : input) (bp' : Z) : input :=
  mkInput (firstn (Z.to_nat bp) (in_tx xd) ++ mid ++ skipn (Z.to_nat bp') (in_tx xa))
          (in_coding xd && (in_orf xd + 3 <=? bp))
          (in_orf xd) (in_start_nf xd) (in_end_nf xa)
          (filter (fun p => p + 3 <? bp) (in_sec xd))
          (filter (fun v => v_e v <? bp) (in_vars xd) ++
           map (move bp) (filter v_ok mvars) ++
           map (move (bp + zlen mid - bp')) (filter (fun v => bp' <? v_s v) (in_vars xa)))
          (in_rule xd) (in_exc xd) (in_lim xd) (in_pool xd).

Definition must_fusion_set_g (xd : input) (bp : Z) (mid : seq) (mvars : list variant) (xa : input) (bp' : Z)
  : list seq :=
  let x := fuse_gen_strict xd bp mid mvars xa bp' in
  if in_coding xd && negb (in_coding x) then []
  else if existsb (fun p => (p - 3 <? bp) && (bp <=? p + 6)) (in_sec xd) then []
  else
  filter (fun p => negb (mem_seq p (ref_products xd)) && negb (mem_seq p (in_pool xd)))
         (must_products_upto x bp [] ++
          flat_map (must_products_upto x bp) (filter (one_partner bp) (must_haps x))).
