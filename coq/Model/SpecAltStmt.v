(* Statements for the alt-translation flags (Model/SpecAlt.v).  Definitions only. *)
From MoPep Require Import Model.Base Model.Rule Model.Digest Model.Spec Model.SpecStmt Model.W2F Model.SpecAlt Gen.Bio.
Open Scope Z_scope.

(* p = q read as terminating at one of its Sec residues *)
Definition SectForm (x : input) (q p : seq) : Prop :=
  exists k, nth_error q k = Some Spec.U_code /\ p = firstn k q /\ keepx x p = true.

(* p = q with a non-empty subset of its W residues read as F *)
Definition W2FForm (x : input) (q p : seq) : Prop :=
  exists S, S <> [] /\ sublist S (w_positions q) /\ p = apply_w2f S q /\ keepx x p = true.

(* p is a product (ps), or -- flag on -- a Sec-terminated form of a product with the limits lifted (raw),
   or -- flag on -- a W>F image of either *)
Definition AltForm (fl : flags) (x : input) (ps raw : list seq) (p : seq) : Prop :=
  let Base b := In b ps \/ (f_sect fl = true /\ exists q, In q raw /\ SectForm x q b) in
  Base p \/ (f_w2f fl = true /\ exists b, Base b /\ W2FForm x b p).

Definition hap_of (x : input) (strict : bool) (h : list variant) : Prop :=
  exists m, length m = length (in_vars x) /\ h = select m (in_vars x) /\
            nonempty h = true /\ pairwise strict h = true.

Definition RealizableFl (fl : flags) (x : input) (p : seq) : Prop :=
  exists h, hap_of x false h /\
    AltForm fl x (may_products x h) (may_products (unlimited x) h) p.

Definition MustReportFl (fl : flags) (x : input) (p : seq) : Prop :=
  (exists h, hap_of x true h /\ forallb (must_var x) h = true /\ no_run3 h = true /\
     AltForm fl x (must_products x h) (must_products (unlimited x) h) p)
  /\ ~ AltForm fl x (may_products x []) (may_products (unlimited x) []) p
  /\ ~ In p (in_pool x).

Definition WitnessFl (x : input) (p : seq) (ids : list nat) (sect w2f : bool) : Prop :=
  (forall i, In i ids -> (i < length (in_vars x))%nat) /\
  let h := named x ids in
  nonempty h = true /\ pairwise false h = true /\
  exists b, (if sect then exists q, In q (may_products (unlimited x) h) /\ SectForm x q b
             else In b (may_products x h)) /\
            (if w2f then W2FForm x b p else p = b).
