(* W>F (tryptophan -> phenylalanine) reassignment, shared by C08 and C09.
   Level F model of moPepGen/svgraph/VariantPeptideDict.py:
     VariantPeptideDict.find_codon_reassignments   (positions of 'W', ascending)
     VariantPeptideDict.translational_modification (for k in 1..n: for comb in
        itertools.combinations(reassignments, k): apply every substitution of comb)
   Definitions only. *)
From MoPep Require Import Model.Base.
Open Scope Z_scope.

Definition W_code : Z := 87.
Definition F_code : Z := 70.

(* find_codon_reassignments: indices of W, ascending (seq.find from i, i += 1) *)
Fixpoint w_positions_from (i : nat) (p : seq) : list nat :=
  match p with
  | [] => []
  | c :: r => (if c =? W_code then [i] else []) ++ w_positions_from (S i) r
  end.
Definition w_positions (p : seq) : list nat := w_positions_from 0 p.

(* itertools.combinations(l, k), lexicographic order *)
Fixpoint combs {A} (k : nat) (l : list A) : list (list A) :=
  match k with
  | O => [[]]
  | S k' => match l with
            | [] => []
            | x :: t => map (cons x) (combs k' t) ++ combs (S k') t
            end
  end.

(* seq_mod[:start] + 'F' + seq_mod[end:]  with end = start+1  (the `if v.location.end < len(seq)`
   guard only avoids slicing past the end; the result is the same) *)
Fixpoint subst_at (i : nat) (x : Z) (p : seq) : seq :=
  match p, i with
  | [], _ => []
  | _ :: r, O => x :: r
  | c :: r, S i' => c :: subst_at i' x r
  end.

Definition apply_w2f (comb : list nat) (p : seq) : seq :=
  fold_left (fun q i => subst_at i F_code q) comb p.

(* all images, in the order the code generates them: k = 1 .. n *)
Definition w2f_images (p : seq) : list seq :=
  let ws := w_positions p in
  flat_map (fun k => map (fun comb => apply_w2f comb p) (combs k ws))
           (List.seq 1 (length ws)).

(* declarative side: S is a non-empty sub-list (= subset, positions are ascending) of the W positions *)
Inductive sublist {A} : list A -> list A -> Prop :=
| sub_nil : sublist [] []
| sub_skip : forall x s l, sublist s l -> sublist s (x :: l)
| sub_take : forall x s l, sublist s l -> sublist (x :: s) (x :: l).
