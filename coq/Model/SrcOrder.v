(* Definitions used by the order theorems about VariantSourceSet (Props/C18.v, Proofs/Py2CoqSrcOrderProofs.v):
   the seeded non-order `any(i > j ...)`, and an insertion sort of sorted level lists by Split.ints_gt.
   Definitions only. *)
From MoPep Require Import Model.Base Gen.HeaderCfg Model.Header Model.Filter Model.Split.
Open Scope Z_scope.

(* `any(i > j for i, j in zip(this, that))` in place of the element-wise loop of __gt__ (seeded change C18-7) *)
Definition any_gt (a b : list Z) : bool := existsb (fun p => fst p >? snd p) (combine a b).

(* insertion sort, ascending; x goes before the first element that is greater *)
Fixpoint kinsert (x : list Z) (l : list (list Z)) : list (list Z) :=
  match l with
  | [] => [x]
  | y :: t => if ints_gt y x then x :: l else y :: kinsert x t
  end.
Definition ksort (l : list (list Z)) : list (list Z) := fold_right kinsert [] l.

Fixpoint ascending (l : list (list Z)) : Prop :=
  match l with
  | [] => True
  | x :: t => (forall y, In y t -> ints_gt x y = false) /\ ascending t
  end.

