(* Base definitions shared by all models: the universal value type used by the
   extracted oracle's line protocol, decoders, and list/Z helpers.
   Definitions only; lemmas live in Proofs/. *)
From Coq Require Export ZArith List Bool Lia.
Export ListNotations.
Open Scope Z_scope.

(* ---- universal value for the oracle protocol ---- *)
Inductive val := VZ (z : Z) | VL (l : list val).

Definition getZ (v : val) : Z := match v with VZ z => z | VL _ => 0 end.
Definition getL (v : val) : list val := match v with VL l => l | VZ _ => [] end.
Definition getB (v : val) : bool := negb (getZ v =? 0).
Definition getS (v : val) : list Z := map getZ (getL v).          (* string / int list *)
Definition getSS (v : val) : list (list Z) := map getS (getL v).
Definition argn (n : nat) (v : val) : val := nth n (getL v) (VZ 0).

Definition ofB (b : bool) : val := VZ (if b then 1 else 0).
Definition ofS (s : list Z) : val := VL (map VZ s).
Definition ofSS (s : list (list Z)) : val := VL (map ofS s).
Definition ofPair (a b : val) : val := VL [a; b].
Definition ofOpt (o : option val) : val := match o with None => VL [] | Some v => VL [v] end.

(* ---- sequences ---- *)
Definition seq := list Z.          (* characters as their code points *)

Fixpoint zlen {A} (l : list A) : Z :=
  match l with [] => 0 | _ :: t => 1 + zlen t end.

(* Python-style slice s[a:b] for 0 <= a; clamps like Python for b > len *)
Definition slice {A} (s : list A) (a b : Z) : list A :=
  firstn (Z.to_nat (b - a)) (skipn (Z.to_nat a) s).

Definition nthZ {A} (s : list A) (i : Z) : option A :=
  if i <? 0 then None else nth_error s (Z.to_nat i).

Fixpoint memZ (x : Z) (l : list Z) : bool :=
  match l with [] => false | y :: t => (x =? y) || memZ x t end.

Fixpoint eq_seq (a b : list Z) : bool :=
  match a, b with
  | [], [] => true
  | x :: a', y :: b' => (x =? y) && eq_seq a' b'
  | _, _ => false
  end.

Fixpoint mem_seq (x : list Z) (l : list (list Z)) : bool :=
  match l with [] => false | y :: t => eq_seq x y || mem_seq x t end.

Fixpoint range_from (start : Z) (n : nat) : list Z :=
  match n with O => [] | S n' => start :: range_from (start + 1) n' end.
