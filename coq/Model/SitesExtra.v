(* Faithful models of the remaining site helpers of moPepGen/aa/AminoAcidSeqRecord.py that the graph
   engine uses: iter_stop_sites, find_all_cleave_and_stop_sites(_with_range),
   find_first_cleave_or_stop_site(_with_range), find_first_enzymatic_cleave_site,
   get_enzymatic_cleave_exception_sites.  Definitions only. *)
From MoPep Require Import Model.Base Model.Rule Model.Digest.
Open Scope Z_scope.

(* iter_stop_sites: indices of '*' *)
Fixpoint stop_sites_from (s : seq) (i : nat) : list nat :=
  match s with
  | [] => []
  | c :: s' => if c =? STAR_code then i :: stop_sites_from s' (S i) else stop_sites_from s' (S i)
  end.
Definition stop_sites (s : seq) : list nat := stop_sites_from s 0.

(* sorted(set(l)) for naturals: insertion sort that drops duplicates *)
Fixpoint insert_u (x : nat) (l : list nat) : list nat :=
  match l with
  | [] => [x]
  | y :: t => if Nat.ltb x y then x :: l else if Nat.eqb x y then l else y :: insert_u x t
  end.
Definition sort_u (l : list nat) : list nat := fold_right insert_u [] l.

(* the exception_sites argument: None = compute from the exception; Some l = use l as given *)
Definition sites_given (r : rule) (exc : option rule) (given : option (list nat)) (s : seq) : list nat :=
  match given with
  | None => sites r exc s
  | Some ex => filter (fun i => negb (mem_nat i ex)) (raw_sites r s)
  end.

Definition find_all_cleave_and_stop_sites (r : rule) (exc : option rule) (given : option (list nat)) (s : seq)
  : list nat :=
  let cl := sites_given r exc given s in
  let st := stop_sites s in
  let ends := map S (filter (fun i => Nat.ltb i (length s - 1)) st) in
  let starts := filter (fun i => Nat.ltb 0 i) st in
  sort_u (cl ++ starts ++ ends).

(* dict semantics: later assignments override; result sorted by key *)
Fixpoint assoc_set (k : nat) (v : nat * nat) (m : list (nat * (nat * nat))) : list (nat * (nat * nat)) :=
  match m with
  | [] => [(k, v)]
  | (k', v') :: t => if Nat.ltb k k' then (k, v) :: m
                     else if Nat.eqb k k' then (k, v) :: t else (k', v') :: assoc_set k v t
  end.

Definition find_all_cleave_and_stop_sites_with_range (r : rule) (r2 : rule2) (exc : option rule)
    (given : option (list nat)) (s : seq) : option (list (nat * (nat * nat))) :=
  let ss := raw_sites r s in
  let rs := raw_ranges r2 s 0 in
  if Nat.eqb (length ss) (length rs) then
    let ex := match given with
              | Some l => l
              | None => match exc with Some e => raw_sites e s | None => [] end
              end in
    let pairs := filter (fun sr => negb (mem_nat (fst sr) ex)) (combine ss rs) in
    let m0 := fold_left (fun m sr => assoc_set (fst sr) (snd sr) m) pairs [] in
    let st := stop_sites s in
    let ends := map S (filter (fun i => Nat.ltb i (length s - 1)) st) in
    let starts := filter (fun i => Nat.ltb 0 i) st in
    let m1 := fold_left (fun m i => assoc_set i (i, S i) m) starts m0 in
    let m2 := fold_left (fun m i => assoc_set i ((i - 1)%nat, i) m) ends m1 in
    Some m2
  else None.

(* find_first_cleave_or_stop_site: -1 when nothing *)
Definition find_first_cleave_or_stop_site (r : rule) (exc : option rule) (given : option (list nat)) (s : seq) : Z :=
  let c := match sites_given r exc given s with x :: _ => [x] | [] => [] end in
  match stop_sites s with
  | O :: _ => if Nat.eqb (length s) 1 then -1
              else Z.of_nat (fold_right Nat.min 1%nat c)
  | st :: _ => Z.of_nat (fold_right Nat.min st c)
  | [] => match c with x :: _ => Z.of_nat x | [] => -1 end
  end.

(* find_first_enzymatic_cleave_site(rule, exception, start): sites of s[start:] shifted; -1 if none *)
Definition find_first_enzymatic_cleave_site (r : rule) (exc : option rule) (start : nat) (s : seq) : Z :=
  match sites r exc (skipn start s) with
  | x :: _ => Z.of_nat (x + start)
  | [] => -1
  end.

Definition exception_sites (exc : option rule) (s : seq) : list nat :=
  match exc with Some e => raw_sites e s | None => [] end.
