(* circRNA records on top of the reference semantics (C02 soundness, C01 completeness).
   DESIGN Appendix A, docs/file-format.md 1.5, cli call_peptide_circ_rna / svgraph/ThreeFrameCVG.py.

   A circRNA record names fragments (exons or retained introns) of the GENE sequence.  Backbone :=
   (concatenation of the fragments, sorted by position) repeated FOUR times; a small record that lies inside
   one fragment is applicable, and a haplotype carries the SAME set of records in every copy (one molecule);
   every ATG of the haplotype sequence, in any frame, is a start; a translation that runs off the end of the
   fourth copy without meeting a stop codon loses its last, open peptide.  The circRNA itself is the variant:
   the set of small records may be empty.
   As in Model/SpecFusion.v / SpecAS.v the record is reduced to a LINEAR input (circ_linear) on which the
   proved machinery of Spec.v (apply_hap, translate, products) runs.  Definitions only. *)
From MoPep Require Import Model.Base Model.Rule Model.Digest Model.Spec Model.SpecFusion Gen.Bio.
Open Scope Z_scope.

Record circ_in := mkCircIn {
  c_gene : seq;                   (* gene sequence *)
  c_frags : list (Z * Z);         (* fragments in gene coordinates, 0-based half open, ascending *)
  c_vars : list variant;          (* small records of the circRNA's transcript in GENE coordinates, sorted;
                                     v_ok = the record is exonic for that transcript *)
  c_rule : rule; c_exc : option rule; c_lim : limits; c_pool : list seq }.

(* one turn of the circle *)
Definition circ_turn (g : seq) (frs : list (Z * Z)) : seq :=
  flat_map (fun f => slice g (fst f) (snd f)) frs.

(* a record inside one fragment, in circle coordinates (off = total length of the fragments in front).
   loose (MAY): anywhere inside the fragment.  strict (MUST): behind the first three bases of the fragment and
   in front of its last base (the engine's own window: frag.start + 3 < start, end < frag.end). *)
Fixpoint to_circ (loose : bool) (frs : list (Z * Z)) (off : Z) (v : variant) : list variant :=
  match frs with
  | [] => []
  | f :: frs' =>
      if (if loose then (fst f <=? v_s v) && (v_e v <=? snd f)
          else (fst f + 3 <? v_s v) && (v_e v <? snd f))
      then [mkVar (off + v_s v - fst f) (off + v_e v - fst f) (v_alt v) (v_ok v)]
      else to_circ loose frs' (off + (snd f - fst f)) v
  end.

Definition circ_vars (loose : bool) (c : circ_in) : list variant :=
  flat_map (to_circ loose (c_frags c) 0) (c_vars c).

(* the same records in each of the four copies (L = length of one turn) *)
Definition copies4 (L : Z) (h : list variant) : list variant :=
  h ++ map (move L) h ++ map (move (2 * L)) h ++ map (move (3 * L)) h.

Definition four (s : seq) : seq := s ++ s ++ s ++ s.

(* the linear input: four turns, non-coding (every ATG is a start), no Sec, records of ALL copies *)
Definition circ_linear (loose : bool) (c : circ_in) : input :=
  let t := circ_turn (c_gene c) (c_frags c) in
  mkInput (four t) false 0 false false [] (copies4 (zlen t) (circ_vars loose c))
          (c_rule c) (c_exc c) (c_lim c) (c_pool c).

(* the haplotype sequence: the set h of circle records carried in every copy *)
Definition circ_hap (c : circ_in) (h : list variant) : seq :=
  let t := circ_turn (c_gene c) (c_frags c) in
  apply_hap (four t) (copies4 (zlen t) h).

(* products of the circle carrying h: every ATG, Met-removed forms permitted (nf), open last peptide dropped *)
Definition circ_products (nf : bool) (c : circ_in) (h : list variant) : list seq :=
  let hs := circ_hap c h in
  flat_map (fun st => products (circ_linear true c) nf false (translate_from hs st []))
           (atg_positions hs 0).

Definition circ_set (c : circ_in) : list seq :=
  flat_map (circ_products false c) ([] :: haplotypes false (circ_vars true c)).

(* C02 decider for one circRNA record *)
Definition realizable_circ (c : circ_in) (p : seq) : bool := mem_seq p (circ_set c).

(* ------------------------------------------------------------------ obliged side (C01) *)
(* records exonic for the transcript, strictly inside a fragment (strict window), pairwise non-abutting, no run
   of three; the empty set included; starts in the FIRST turn only (a start in a later turn yields nothing a
   rotation-equivalent start of the first turn does not yield); no Met-removed forms.  x = the linear input of
   the circRNA's transcript: products of the unmodified transcript, products of the transcript carrying its
   small records (the tool adds the main call's peptides to the denylist) and the pool are not obliged. *)
Definition circ_must_hap (h : list variant) : bool :=
  forallb (fun v => v_ok v && (v_s v <? v_e v)) h && no_run3 h.

Definition circ_must_products (c : circ_in) (h : list variant) : list seq :=
  let hs := circ_hap c h in
  let L := zlen (apply_hap (circ_turn (c_gene c) (c_frags c)) h) in
  flat_map (fun st => products (circ_linear true c) true false (translate_from hs st []))
           (filter (fun st => st <? L) (atg_positions hs 0)).

Definition must_circ_set (c : circ_in) (x : input) : list seq :=
  let rp := ref_products x in
  let ms := may_set x in          (* bound outside the filter: computed once by the extracted oracle *)
  filter (fun p => negb (mem_seq p rp) && negb (mem_seq p ms) && negb (mem_seq p (c_pool c)))
         (flat_map (circ_must_products c)
                   ([] :: filter circ_must_hap (haplotypes true (circ_vars false c)))).
