(* Faithful model of moPepGen/cli/decoy_fasta.py (class DecoyFasta):
     find_fixed_indices, reverse_sequence, shuffle_sequence,
     generate_decoy_sequence (collision retry), iterate_target_decoy_database, main.
   Definitions only; proofs are in Proofs/DecoyProofs.v.

   Conventions
   * residues are code points (Z), list positions are nat;
   * a record is (header, sequence); FASTA reading/writing (Biopython) is outside the model;
   * random.sample is NOT modelled: the result of the k-th call made during one run enters as
     [sample k arg] (a Section variable; the oracle instantiates it with the recorded stream);
   * three switches select between the code as it is and the proposed repairs:
       c_shift   0 = fixed index is match.end()  (unchanged code, defect D7)
                 1 = fixed index is match.end()-1 (the cleavage residue; proposed fix)
       c_exc     the exception rule actually in force (the unchanged code passes the misspelt
                 name 'trypsin_expection', which compiles to a literal regex that never matches
                 an upper-case sequence: None)
       c_keyhdr  false = targets sorted by sequence only (unchanged code)
                 true  = sorted by (sequence, header)     (proposed fix C20-dup-order)            *)
From MoPep Require Import Model.Base Model.Rule Model.Digest.
Open Scope Z_scope.

Definition rec := (seq * seq)%type.            (* (description, sequence) *)
Definition r_hdr (r : rec) : seq := fst r.
Definition r_seq (r : rec) : seq := snd r.

Record config := mkCfg {
  c_method : Z;                 (* 0 reverse | 1 shuffle | anything else: ValueError *)
  c_enzyme : option rule;       (* None = --enzyme None *)
  c_exc : option rule;
  c_shift : nat;
  c_nterm : bool;
  c_cterm : bool;
  c_pattern : list seq;         (* args.non_shuffle_pattern.split(',') *)
  c_max_attempts : Z;
  c_decoy_string : seq;
  c_prefix : bool;              (* decoy_string_position == 'prefix' *)
  c_order : Z;                  (* 0 juxtaposed | 1 target_first | 2 decoy_first | else ValueError *)
  c_keyhdr : bool;
}.

(* ------------------------------------------------------------------ find_fixed_indices *)

(* fixed_indices += find_all_enzymatic_cleave_sites(rule, exception)   (shift 0)
   fixed_indices += [i - 1 for i in find_all...]                      (shift 1) *)
Definition enzyme_fixed (cfg : config) (s : seq) : list nat :=
  match c_enzyme cfg with
  | None => []
  | Some r => map (fun i => (i - c_shift cfg)%nat) (sites r (c_exc cfg) s)
  end.

(* for i, it in enumerate(seq): ... ;  n = len(seq) *)
Fixpoint scan_fixed (cfg : config) (n i : nat) (s : seq) : list nat :=
  match s with
  | [] => []
  | c :: s' =>
      (if Nat.eqb i 0 && c_nterm cfg then [i]
       else if Nat.eqb i (n - 1) && c_cterm cfg then [i]
       else if mem_seq [c] (c_pattern cfg) then [i]
       else []) ++ scan_fixed cfg n (S i) s'
  end.

Definition find_fixed_indices (cfg : config) (s : seq) : list nat :=
  enzyme_fixed cfg s ++ scan_fixed cfg (length s) 0 s.

(* ------------------------------------------------------------------ reverse / shuffle *)

(* [i for i,_ in enumerate(seq) if i not in fixed_indices] *)
Definition free_indices (fixed : list nat) (n : nat) : list nat :=
  filter (fun i => negb (mem_nat i fixed)) (List.seq 0 n).

Definition get (src : seq) (j : nat) : Z := nth j src 0.

(* The offset-walking while loop shared by reverse_sequence and shuffle_sequence.
     p    = i + offset        (the output position being filled)
     rest = seq[p:]           (what is left of the target from position p)
     idx  = indices[i:]       (the not yet consumed reversed/shuffled indices)
   while i < len(indices):  p fixed -> copy seq[p], offset += 1 ; else seq[indices[i]], i += 1
   after the loop the tail seq[len(out):] is appended.
   Structural recursion on rest (the loop consumes one position per iteration).
   rest = [] with idx <> [] needs more indices than free positions; it cannot happen when idx
   has as many elements as there are free positions (lemma walk_length) and is mapped to the
   residues the Python loop would append when p is not fixed. *)
Fixpoint walk (fixed : list nat) (src : seq) (p : nat) (rest : seq) (idx : list nat) : seq :=
  match rest with
  | [] => map (get src) idx
  | c :: rest' =>
      match idx with
      | [] => rest
      | j :: idx' =>
          if mem_nat p fixed then c :: walk fixed src (S p) rest' idx
          else get src j :: walk fixed src (S p) rest' idx'
      end
  end.

Definition reverse_sequence (s : seq) (fixed : list nat) : seq :=
  walk fixed s 0 s (rev (free_indices fixed (length s))).

(* shuffled : the value returned by random.sample(indices_to_shuffle, len(indices_to_shuffle)) *)
Definition shuffle_sequence (s : seq) (fixed : list nat) (shuffled : list nat) : seq :=
  walk fixed s 0 s shuffled.

(* ------------------------------------------------------------------ generate_decoy_sequence *)

Inductive result (A : Type) := Ok (a : A) | ErrValue | ErrFuel.
Arguments Ok {A} a.
Arguments ErrValue {A}.
Arguments ErrFuel {A}.

Record gstate := mkG {
  g_decoy_pool : list seq;      (* self._decoy_pool (a set; only membership is used) *)
  g_decoy_db : list rec;        (* self.decoy_db, in order of creation *)
  g_calls : nat;                (* number of random.sample calls made so far *)
  g_overlap : Z;                (* self._summary.n_overlap *)
  g_queries : list (list nat);  (* arguments of the sample calls, in order (for the harness) *)
}.

Definition decoy_header (cfg : config) (h : seq) : seq :=
  if c_prefix cfg then c_decoy_string cfg ++ h else h ++ c_decoy_string cfg.

Section Gen.
  Variable sample : nat -> list nat -> list nat.
  Variable cfg : config.
  Variable target_pool : list seq.

  Definition collides (pool : list seq) (d : seq) : bool :=
    mem_seq d target_pool || mem_seq d pool.

  (* while True: shuffle; attempts += 1; if free: break; if attempts >= max: n_overlap += 1; break
     returns (decoy, calls made, overlap?, queries) *)
  Fixpoint retry (fuel : nat) (s : seq) (fixed : list nat) (pool : list seq)
           (attempts : Z) (k : nat) : option (seq * nat * bool) :=
    match fuel with
    | O => None
    | S fuel' =>
        let d := shuffle_sequence s fixed (sample k (free_indices fixed (length s))) in
        let attempts' := attempts + 1 in
        if negb (collides pool d) then Some (d, S k, false)
        else if attempts' >=? c_max_attempts cfg then Some (d, S k, true)
        else retry fuel' s fixed pool attempts' (S k)
    end.

  Definition retry_fuel : nat := S (Z.to_nat (c_max_attempts cfg)).

  Definition generate_decoy_sequence (g : gstate) (t : rec) : result gstate :=
    let s := r_seq t in
    let fixed := find_fixed_indices cfg s in
    let finish (d : seq) (k : nat) (ov : bool) (qs : list (list nat)) :=
      Ok (mkG (d :: g_decoy_pool g)
              (g_decoy_db g ++ [(decoy_header cfg (r_hdr t), d)])
              k (if ov then g_overlap g + 1 else g_overlap g) qs) in
    if c_method cfg =? 0 then
      let d := reverse_sequence s fixed in
      finish d (g_calls g) (collides (g_decoy_pool g) d) (g_queries g)
    else if c_method cfg =? 1 then
      match retry retry_fuel s fixed (g_decoy_pool g) 0 (g_calls g) with
      | None => ErrFuel
      | Some (d, k, ov) =>
          finish d k ov
                 (g_queries g ++ repeat (free_indices fixed (length s)) (k - g_calls g))
      end
    else ErrValue.

  (* for seq in self.target_db: self.generate_decoy_sequence(seq) *)
  Fixpoint generate_all (g : gstate) (ts : list rec) : result gstate :=
    match ts with
    | [] => Ok g
    | t :: ts' =>
        match generate_decoy_sequence g t with
        | Ok g' => generate_all g' ts'
        | ErrValue => ErrValue
        | ErrFuel => ErrFuel
        end
    end.
End Gen.

(* ------------------------------------------------------------------ sorting of the targets *)

(* Seq.__lt__ : comparison of the underlying strings = lexicographic on code points *)
Fixpoint seq_ltb (a b : seq) : bool :=
  match a, b with
  | [], [] => false
  | [], _ :: _ => true
  | _ :: _, [] => false
  | x :: a', y :: b' => (x <? y) || ((x =? y) && seq_ltb a' b')
  end.

(* key(a) < key(b) *)
Definition key_ltb (keyhdr : bool) (a b : rec) : bool :=
  if keyhdr
  then seq_ltb (r_seq a) (r_seq b) || (eq_seq (r_seq a) (r_seq b) && seq_ltb (r_hdr a) (r_hdr b))
  else seq_ltb (r_seq a) (r_seq b).

(* list.sort(key=...) is a stable sort; the stable sorted permutation is unique, so any stable
   algorithm models it.  Insertion from the right: x (earlier in the input) is placed before the
   first y that is not smaller than x. *)
Fixpoint insert_rec (keyhdr : bool) (x : rec) (l : list rec) : list rec :=
  match l with
  | [] => [x]
  | y :: l' => if key_ltb keyhdr y x then y :: insert_rec keyhdr x l' else x :: l
  end.

Fixpoint sort_targets (keyhdr : bool) (l : list rec) : list rec :=
  match l with
  | [] => []
  | x :: l' => insert_rec keyhdr x (sort_targets keyhdr l')
  end.

(* ------------------------------------------------------------------ output order *)

(* for i, target in enumerate(target_db): yield target; yield decoy_db[i] *)
Fixpoint juxtapose (ts ds : list rec) : list rec :=
  match ts, ds with
  | t :: ts', d :: ds' => t :: d :: juxtapose ts' ds'
  | _, _ => []            (* decoy_db[i] out of range: not reachable, one decoy per target *)
  end.

Definition arrange (order : Z) (ts ds : list rec) : result (list rec) :=
  if order =? 0 then Ok (juxtapose ts ds)
  else if order =? 1 then Ok (ts ++ ds)
  else if order =? 2 then Ok (ds ++ ts)
  else ErrValue.

(* ------------------------------------------------------------------ main *)

Definition init_state : gstate := mkG [] [] 0 0 [].

Record output := mkOut {
  o_records : list rec;         (* what write() emits *)
  o_targets : list rec;         (* self.target_db after sorting *)
  o_decoys : list rec;          (* self.decoy_db *)
  o_calls : nat;
  o_overlap : Z;
  o_queries : list (list nat);
}.

Definition run (sample : nat -> list nat -> list nat) (cfg : config) (targets : list rec)
  : result output :=
  let ts := sort_targets (c_keyhdr cfg) targets in
  let pool := map r_seq ts in
  match generate_all sample cfg pool init_state ts with
  | Ok g =>
      match arrange (c_order cfg) ts (g_decoy_db g) with
      | Ok recs => Ok (mkOut recs ts (g_decoy_db g) (g_calls g) (g_overlap g) (g_queries g))
      | ErrValue => ErrValue
      | ErrFuel => ErrFuel
      end
  | ErrValue => ErrValue
  | ErrFuel => ErrFuel
  end.

(* the sampler obtained from a recorded stream: the k-th call returns the k-th recorded list *)
Definition sample_of_stream (stream : list (list nat)) (k : nat) (_ : list nat) : list nat :=
  nth k stream [].

(* the same stream given as ranks into the argument (random.sample picks positions of its
   argument; for a given generator state they depend only on the argument's length) *)
Definition sample_of_ranks (stream : list (list nat)) (k : nat) (arg : list nat) : list nat :=
  map (fun r => nth r arg 0%nat) (nth k stream []).
