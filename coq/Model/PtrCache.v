(* C11 -- the (deque, cache) state machine of GenePointerDict / TranscriptPointerDict
   (moPepGen/gtf/GTFPointer.py, __getitem__), as written:

        if key in self._cache: return self._cache[key]
        self._cached_keys.appendleft(key)
        if len(self._cached_keys) > SIZE:
            key_pop = self._cached_keys.pop()
            self._cache.pop(key_pop)              # KeyError if key_pop is not cached
        pointer = self.get_pointer(key)           # KeyError if key is unknown
        val = pointer.load()
        self._cache[key] = val
        return val

   Keys and loaded values are abstract integers; `load k = None` means "no pointer for k"
   (dict KeyError).  The left end of the deque is the head of the list.
   `get_fixed` is the model of the proposed repair (lookup and load before touching the deque).
   Definitions only. *)
From MoPep Require Import Model.Base.
Open Scope Z_scope.

Record cstate := mkC { dq : list Z; cache : list (Z * Z) }.

Definition empty : cstate := mkC [] [].

Inductive gres :=
| RVal (v : Z)          (* a model is returned *)
| RKeyLookup            (* KeyError from get_pointer: unknown key *)
| RKeyEvict.            (* KeyError from self._cache.pop(key_pop) *)

Fixpoint lookup (k : Z) (c : list (Z * Z)) : option Z :=
  match c with [] => None | (a, v) :: t => if a =? k then Some v else lookup k t end.

Fixpoint remove_key (k : Z) (c : list (Z * Z)) : list (Z * Z) :=
  match c with [] => [] | (a, v) :: t => if a =? k then remove_key k t else (a, v) :: remove_key k t end.

(* deque.pop() on the non-empty deque x :: d: (remaining deque, rightmost element) *)
Fixpoint pop_last (x : Z) (d : list Z) : list Z * Z :=
  match d with
  | [] => ([], x)
  | y :: t => let '(r, l) := pop_last y t in (x :: r, l)
  end.

Inductive ev := EvOk (d : list Z) (c : list (Z * Z)) | EvKeyError (d : list Z).

(* the eviction block, entered after appendleft(k) *)
Definition evict (limit : Z) (k : Z) (d : list Z) (c : list (Z * Z)) : ev :=
  if zlen (k :: d) >? limit then
    let '(d2, kp) := pop_last k d in
    match lookup kp c with
    | None => EvKeyError d2                      (* dict.pop raises; the deque is already changed *)
    | Some _ => EvOk d2 (remove_key kp c)
    end
  else EvOk (k :: d) c.

Definition get (limit : Z) (load : Z -> option Z) (s : cstate) (k : Z) : cstate * gres :=
  match lookup k (cache s) with
  | Some v => (s, RVal v)
  | None =>
      match evict limit k (dq s) (cache s) with
      | EvKeyError d => (mkC d (cache s), RKeyEvict)
      | EvOk d c =>
          match load k with
          | None => (mkC d c, RKeyLookup)
          | Some v => (mkC d ((k, v) :: c), RVal v)
          end
      end
  end.

(* proposed repair: resolve and load first, then push / evict / store *)
Definition get_fixed (limit : Z) (load : Z -> option Z) (s : cstate) (k : Z) : cstate * gres :=
  match lookup k (cache s) with
  | Some v => (s, RVal v)
  | None =>
      match load k with
      | None => (s, RKeyLookup)
      | Some v => get limit load s k
      end
  end.

(* a history of accesses: final state and the result of every access, oldest first *)
Definition step (g : cstate -> Z -> cstate * gres) (acc : cstate * list gres) (k : Z) : cstate * list gres :=
  let '(s', r) := g (fst acc) k in (s', snd acc ++ [r]).

Definition run (g : cstate -> Z -> cstate * gres) (s : cstate) (ks : list Z) : cstate * list gres :=
  fold_left (step g) ks (s, []).

(* ---- the invariant, as a boolean ---- *)
Fixpoint nodupZ (l : list Z) : bool :=
  match l with [] => true | x :: t => negb (memZ x t) && nodupZ t end.

Definition subsetZ (a b : list Z) : bool := forallb (fun x => memZ x b) a.

Definition cache_inv (limit : Z) (s : cstate) : bool :=
  nodupZ (dq s) && nodupZ (map fst (cache s)) &&
  subsetZ (dq s) (map fst (cache s)) && subsetZ (map fst (cache s)) (dq s) &&
  (zlen (dq s) <=? limit).

(* every cached value is what the stateless loader returns for its key *)
Definition cache_sound (load : Z -> option Z) (s : cstate) : Prop :=
  forall k v, lookup k (cache s) = Some v -> load k = Some v.

(* pointer table given as an association list (for the oracle) *)
Definition load_of (tbl : list (Z * Z)) (k : Z) : option Z := lookup k tbl.
