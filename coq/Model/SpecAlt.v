(* Alt-translation flags of callVariant on top of the reference semantics Model/Spec.v:
     --selenocysteine-termination : for each annotated Sec (U) at index k of a product q, the form q[:k]
     --w2f-reassignment           : for each product or SECT form, its image under every non-empty
                                    subset of W -> F  (Model/W2F.v, shared with C08/C09)
   each within the limits.  The forms of the products of the UNMODIFIED transcript are what the tool's
   per-transcript denylist holds (call_canonical_peptides is run with the same flags), so novelty is
   taken relative to them.  Definitions only; Spec.v is not changed (flags off = Spec.v). *)
From MoPep Require Import Model.Base Model.Rule Model.Digest Model.Spec Model.W2F Gen.Bio.
Open Scope Z_scope.

Record flags := mkFlags { f_sect : bool; f_w2f : bool }.

Fixpoint u_pos_from (i : nat) (p : seq) : list nat :=
  match p with
  | [] => []
  | c :: r => (if c =? Spec.U_code then [i] else []) ++ u_pos_from (S i) r
  end.
Definition u_pos (p : seq) : list nat := u_pos_from 0 p.

Definition keepx (x : input) (p : seq) : bool := keep protein_weights4 water4 (in_lim x) p.

(* translation read as stopping at the Sec: the product cut in front of each of its U residues *)
Definition sect_forms (x : input) (q : seq) : list seq :=
  filter (keepx x) (map (fun k => firstn k q) (u_pos q)).

Definition w2f_forms (x : input) (q : seq) : list seq := filter (keepx x) (w2f_images q).

(* The Sec truncation applies to every digestion product with at most k missed cleavages, whether or
   not the untruncated product itself is within the length / mass limits (the tool keeps over-long
   node series that end behind a Sec): the same input with the limits lifted. *)
Definition raw_limits (l : limits) : limits := mkLimits (lim_k l) (-1) 0 1000000.
Definition unlimited (x : input) : input :=
  mkInput (in_tx x) (in_coding x) (in_orf x) (in_start_nf x) (in_end_nf x) (in_sec x) (in_vars x)
          (in_rule x) (in_exc x) (raw_limits (in_lim x)) (in_pool x).

(* every form under the flags: ps = products within the limits, raw = products with the limits lifted *)
Definition alt_closure (fl : flags) (x : input) (ps raw : list seq) : list seq :=
  let base := ps ++ (if f_sect fl then flat_map (sect_forms x) raw else []) in
  base ++ (if f_w2f fl then flat_map (w2f_forms x) base else []).

Definition may_products_fl (fl : flags) (x : input) (h : list variant) : list seq :=
  alt_closure fl x (may_products x h) (may_products (unlimited x) h).

Definition may_set_fl (fl : flags) (x : input) : list seq :=
  flat_map (may_products_fl fl x) (haplotypes false (in_vars x)).

Definition realizable_fl (fl : flags) (x : input) (p : seq) : bool := mem_seq p (may_set_fl fl x).

Definition ref_products_fl (fl : flags) (x : input) : list seq := may_products_fl fl x [].

Definition novel_fl (fl : flags) (x : input) (p : seq) : bool :=
  negb (mem_seq p (ref_products_fl fl x)) && negb (mem_seq p (in_pool x)).

Definition must_products_fl (fl : flags) (x : input) (h : list variant) : list seq :=
  alt_closure fl x (must_products x h) (must_products (unlimited x) h).

Definition must_set_fl (fl : flags) (x : input) : list seq :=
  filter (novel_fl fl x) (flat_map (must_products_fl fl x) (must_haps x)).

(* C03: an entry that names the records ids and generated SECT / W2F identifiers: the forms used are
   exactly the kinds named *)
Definition witness_ok_fl (x : input) (p : seq) (ids : list nat) (sect w2f : bool) : bool :=
  ids_ok x ids &&
  let h := named x ids in
  nonempty h && pairwise false h &&
  let base := if sect then flat_map (sect_forms x) (may_products (unlimited x) h) else may_products x h in
  mem_seq p (if w2f then flat_map (w2f_forms x) base else base).

(* bases of an alt form, for the finding signatures: obliged products (limits lifted) one of whose
   forms is p *)
Definition must_bases_fl (fl : flags) (x : input) (p : seq) : list seq :=
  flat_map (fun h =>
    filter (fun q => mem_seq p (alt_closure fl x (if keepx x q then [q] else []) [q]))
           (must_products (unlimited x) h))
    (must_haps x).

(* the same for many alt forms in one pass: [(p, base)] for every given p and every obliged product
   (limits lifted) one of whose forms is p *)
Definition must_bases_fl_many (fl : flags) (x : input) (peps : list seq) : list (seq * seq) :=
  flat_map (fun h =>
    flat_map (fun q =>
      let forms := alt_closure fl x (if keepx x q then [q] else []) [q] in
      flat_map (fun p => if mem_seq p forms then [(p, q)] else []) peps)
      (must_products (unlimited x) h))
    (must_haps x).
