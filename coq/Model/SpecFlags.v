(* C05: the reference semantics of Model/Spec.v extended by the three permissive switches of
   callVariant (DESIGN.md Appendix A "Alt-translation forms", section 7 C05).  Definitions only.

     --selenocysteine-termination   for each U at index i of a candidate peptide q (a joined piece,
                                    BEFORE the limits are applied): the prefix q[:i]
                                    (MiscleavedNodes.translational_modification truncates the joined
                                    sequence and only then calls is_valid_seq)
     --w2f-reassignment             for each candidate or SECT form: its image under every non-empty
                                    subset of W -> F   (Model/W2F.v, shared with C08 / C09)
     --coding-novel-orf             coding transcripts: additionally every ATG of the haplotype sequence
                                    as a start (call_peptide_main calls the graph a second time with
                                    check_orf = True)

   The limits are applied LAST, as a filter (keep), on an enumeration (cands_loop) that depends on
   the limits record only through lim_k: this is the anchor mechanism "limits are applied as filters
   on an enumeration that does not otherwise depend on them". *)
From MoPep Require Import Model.Base Model.Rule Model.Digest Model.Spec Model.W2F Gen.Bio.
Open Scope Z_scope.

Record flags := mkFlags { f_sect : bool; f_w2f : bool; f_orf : bool }.

Definition no_flags : flags := mkFlags false false false.

(* fl is at most as permissive as fl' *)
Definition flags_le (fl fl' : flags) : Prop :=
  (f_sect fl = true -> f_sect fl' = true) /\
  (f_w2f fl = true -> f_w2f fl' = true) /\
  (f_orf fl = true -> f_orf fl' = true).

(* ------------------------------------------------------------------ candidates (no limits) *)
(* every joined piece (and Met-removed form) of one translation, before the limits: C10's cands_loop *)
Definition cand_products (x : input) (nf tail : bool) (tr : seq * bool) : list seq :=
  let aas := fst tr in
  cands_loop (in_lim x) aas nf true (bounds (in_rule x) (in_exc x) (tail || snd tr) aas).

(* ------------------------------------------------------------------ SECT forms *)
(* the prefixes of q that end right before a U:  q[:i] for every i with q[i] = U *)
Fixpoint sect_forms_from (pre : seq) (q : seq) : list seq :=
  match q with
  | [] => []
  | c :: r => (if c =? U_code then [rev pre] else []) ++ sect_forms_from (c :: pre) r
  end.
Definition sect_forms (q : seq) : list seq := sect_forms_from [] q.

(* ------------------------------------------------------------------ all forms, then the limits *)
Definition fl_base (fl : flags) (cs : list seq) : list seq :=
  cs ++ (if f_sect fl then flat_map sect_forms cs else []).

Definition fl_forms (fl : flags) (cs : list seq) : list seq :=
  let base := fl_base fl cs in
  base ++ (if f_w2f fl then flat_map w2f_images base else []).

Definition fl_products (x : input) (fl : flags) (nf tail : bool) (tr : seq * bool) : list seq :=
  filter (keep protein_weights4 water4 (in_lim x)) (fl_forms fl (cand_products x nf tail tr)).

(* ------------------------------------------------------------------ starts *)
Definition fl_starts (x : input) (fl : flags) (h : list variant) (hs : seq) : list Z :=
  may_starts x h hs ++ (if in_coding x && f_orf fl then atg_positions hs 0 else []).

(* ------------------------------------------------------------------ MAY semantics under the flags *)
Definition fl_may_products (x : input) (fl : flags) (h : list variant) : list seq :=
  let hs := apply_hap (in_tx x) h in
  flat_map (fun st =>
    flat_map (fun secs => fl_products x fl false true (translate_from hs st secs)) (may_secs x h))
    (fl_starts x fl h hs).

Definition fl_may_set (x : input) (fl : flags) : list seq :=
  flat_map (fl_may_products x fl) (haplotypes false (in_vars x)).

(* the per-transcript denylist (call_canonical_peptides): products and forms of the unmodified
   transcript under the same flags.  --coding-novel-orf does not enter it. *)
Definition fl_ref_products (x : input) (fl : flags) : list seq :=
  fl_may_products x (mkFlags (f_sect fl) (f_w2f fl) false) [].

Definition fl_novel (x : input) (fl : flags) (p : seq) : bool :=
  negb (mem_seq p (fl_ref_products x fl)) && negb (mem_seq p (in_pool x)).

(* what the tool may report under the flags: permitted products minus denylist minus pool *)
Definition fl_report_set (x : input) (fl : flags) : list seq :=
  filter (fl_novel x fl) (fl_may_set x fl).

(* ------------------------------------------------------------------ configurations of the limits *)
Definition with_lim (x : input) (l : limits) : input :=
  mkInput (in_tx x) (in_coding x) (in_orf x) (in_start_nf x) (in_end_nf x) (in_sec x) (in_vars x)
          (in_rule x) (in_exc x) l (in_pool x).

Definition with_lim_pool (x : input) (l : limits) (pl : list seq) : input :=
  mkInput (in_tx x) (in_coding x) (in_orf x) (in_start_nf x) (in_end_nf x) (in_sec x) (in_vars x)
          (in_rule x) (in_exc x) l pl.

Definition with_vars (x : input) (vs : list variant) : input :=
  mkInput (in_tx x) (in_coding x) (in_orf x) (in_start_nf x) (in_end_nf x) (in_sec x) vs
          (in_rule x) (in_exc x) (in_lim x) (in_pool x).

(* l is at most as permissive as l' in every component *)
Definition lim_le (l l' : limits) : Prop :=
  lim_k l <= lim_k l' /\ lim_min_mw4 l' <= lim_min_mw4 l /\
  lim_min_len l' <= lim_min_len l /\ lim_max_len l <= lim_max_len l'.

(* vs is a sub-list of vs' (order preserved): vs = select m vs' for a mask m *)
Definition sub_records (vs vs' : list variant) : Prop :=
  exists m, length m = length vs' /\ vs = select m vs'.

(* the number of missed cleavages a derivation uses is not visible on the peptide alone; the
   declarative attribution for k is "not a product under the stricter k" *)

(* ------------------------------------------------------------------ finding signature D14b under the switches *)
(* Spec.v's "relaxed2" digestion (look-behind sites are soft: the engine's node-local evaluation may miss
   them) extended by the switches: candidates without limits, then the forms, then the limits.  Used
   only to CLASSIFY an emitted sequence that is not in fl_may_set (known finding D14b-lookbehind). *)
Definition unlimited (x : input) : input :=
  with_lim x (mkLimits (lim_k (in_lim x)) (-1000000000000) 0 1000000).

Definition fl_relaxed2_set (x : input) (fl : flags) : list seq :=
  flat_map (fun h =>
    filter (keep protein_weights4 water4 (in_lim x)) (fl_forms fl (may_products_relaxed2 (unlimited x) h)))
    (haplotypes false (in_vars x)).
