(* Alternative-splicing records on top of the reference semantics (C02 soundness, C01 completeness).
   DESIGN Appendix A, docs/file-format.md 1.4, Model/Rmats.v apply_record (GVF semantics in gene coordinates).

   An AS record, after gene -> transcript mapping, replaces the transcript interval [a_s, a_e) by a donor
   sequence taken from the GENE sequence:
     <DEL> START/END                  : [a, b) := []                       (a_donor = [])
     <INS> POS + DONOR_START/DONOR_END: [p+1, p+1) := gene[DS, DE)        (inserted AFTER the anchor base t[p])
     <SUB> START/END + DONOR_*        : [a, b) := gene[DS, DE)
   Small records (SNV / MNV / INDEL) of the gene that lie inside [DS, DE) -- intronic for this transcript --
   are applicable inside the donor segment: a_dvars holds them in DONOR coordinates (0 = gene position DS).

   The pattern is that of Model/SpecFusion.v: the record is reduced to a *linear input* on a derived
   backbone (as_apply), then the proved linear machinery (may_set / must_set / Product) applies.
   Definitions only; proofs in Proofs/SpecASProofs.v. *)
From MoPep Require Import Model.Base Model.Rule Model.Digest Model.Spec Model.SpecFusion Gen.Bio.
Open Scope Z_scope.

Record asrec := mkAS { a_s : Z; a_e : Z; a_donor : seq; a_dvars : list variant }.

(* length change caused by the record *)
Definition as_delta (r : asrec) : Z := zlen (a_donor r) - (a_e r - a_s r).

(* the AS record seen as ONE big substitution on the transcript, its donor carrying the records hd *)
Definition as_variant (r : asrec) (hd : list variant) : variant :=
  mkVar (a_s r) (a_e r) (apply_hap (a_donor r) hd) true.

(* the backbone: transcript with the record applied *)
Definition as_backbone (t : seq) (r : asrec) : seq :=
  firstn (Z.to_nat (a_s r)) t ++ a_donor r ++ skipn (Z.to_nat (a_e r)) t.

(* records of the derived backbone.  loose = true (MAY): records that end at or before a_s / start at or
   behind a_e stay applicable, every donor record is applicable; loose = false (MUST): a gap of one base
   is required on either side -- on the left also in front of the ANCHOR base a_s - 1 (the tool re-anchors a
   deletion one base upstream and anchors an insertion on that base) --, and donor records keep clear of the two
   ends of the donor segment. *)
Definition left_ok (loose : bool) (r : asrec) (v : variant) : bool :=
  if loose then v_e v <=? a_s r else v_e v + 2 <=? a_s r.
Definition right_ok (loose : bool) (r : asrec) (v : variant) : bool :=
  if loose then a_e r <=? v_s v else a_e r <? v_s v.
Definition donor_ok (loose : bool) (r : asrec) (v : variant) : bool :=
  if loose then (0 <=? v_s v) && (v_e v <=? zlen (a_donor r))
  else (0 <? v_s v) && (v_e v <? zlen (a_donor r)).

Definition as_vars (loose : bool) (vs : list variant) (r : asrec) : list variant :=
  filter (left_ok loose r) vs ++
  map (move (a_s r)) (filter (donor_ok loose r) (a_dvars r)) ++
  map (move (as_delta r)) (filter (right_ok loose r) vs).

(* annotated Sec codons: those wholly before the event stay, those wholly behind it move; a Sec codon
   touched by the event is no longer annotated *)
Definition as_secs (secs : list Z) (r : asrec) : list Z :=
  filter (fun p => p + 3 <=? a_s r) secs ++
  map (fun p => p + as_delta r) (filter (fun p => a_e r <=? p) secs).

(* the derived linear input *)
Definition as_apply_gen (loose : bool) (x : input) (r : asrec) : input :=
  mkInput (as_backbone (in_tx x) r)
          (in_coding x) (in_orf x) (in_start_nf x) (in_end_nf x)
          (as_secs (in_sec x) r)
          (as_vars loose (in_vars x) r)
          (in_rule x) (in_exc x) (in_lim x) (in_pool x).

Definition as_apply (x : input) (r : asrec) : input := as_apply_gen true x r.

(* a record is applicable when it is a well-formed interval of the transcript and -- coding transcript --
   lies behind the start codon (an event in the 5'UTR or on the start codon never yields a product that
   the transcript without it lacks, or loses the start: not part of the statement) *)
Definition as_ok (x : input) (r : asrec) : bool :=
  (0 <=? a_s r) && (a_s r <=? a_e r) && (a_e r <=? zlen (in_tx x)) &&
  ((if in_coding x then in_orf x + 3 else 0) <=? a_s r).

(* two AS records, a before b in the position-sorted list, can be carried together iff their intervals
   are disjoint -- and they are not two insertions at the same anchor *)
Definition as_compat (a b : asrec) : bool :=
  (a_e a <=? a_s b) &&
  negb ((a_s a =? a_e a) && (a_s b =? a_e b) && (a_s a =? a_s b)).

Fixpoint as_pairwise (rs : list asrec) : bool :=
  match rs with
  | [] => true
  | a :: rs' => forallb (as_compat a) rs' && as_pairwise rs'
  end.

(* several records: the LAST one of the position-sorted list is applied first, so that the coordinates of
   the earlier ones stay valid *)
Definition as_apply_all (x : input) (rs : list asrec) : input :=
  fold_right (fun r acc => as_apply acc r) x rs.

(* admissible combinations of the supplied AS records: non-empty, pairwise compatible, each applicable *)
Definition as_masks (x : input) (rs : list asrec) : list (list bool) :=
  filter (fun m => let s := select m rs in nonempty s && as_pairwise s && forallb (as_ok x) s)
         (masks (length rs)).

Definition as_combos (x : input) (rs : list asrec) : list (list asrec) :=
  map (fun m => select m rs) (as_masks x rs).

(* every product of the transcript carrying an admissible combination of AS records and any compatible,
   possibly empty, set of the small records that stay applicable (the AS record is the variant) *)
Definition as_set (x : input) (rs : list asrec) : list seq :=
  flat_map (fun s => fusion_set (as_apply_all x s)) (as_combos x rs).

(* C02 decider for AS records *)
Definition realizable_as (x : input) (rs : list asrec) (p : seq) : bool := mem_seq p (as_set x rs).

(* ------------------------------------------------------------------ obliged side (C01) *)
(* exactly ONE AS record per haplotype; strict neighbourhood (as_apply_gen false); small records obliged as
   in Spec.must_var on the derived backbone; the event must lie behind the start codon with one codon to
   spare and keep one codon clear of every annotated Sec codon; on an mRNA_end_NF transcript it must end
   six bases before the transcript end.  Novelty: not a product of the unmodified transcript, not in the pool. *)
Definition as_must_ok (x : input) (r : asrec) : bool :=
  as_ok x r &&
  ((if in_coding x then in_orf x + 6 else 3) <=? a_s r) &&
  (negb (in_end_nf x) || (a_e r + 6 <=? zlen (in_tx x))) &&
  forallb (fun p => (p + 6 <=? a_s r) || (a_e r + 3 <=? p)) (in_sec x).

Definition must_products_as (y : input) : list seq :=
  must_products y [] ++ flat_map (must_products y) (must_haps y).

Definition must_as_set (x : input) (rs : list asrec) : list seq :=
  filter (novel x)
         (flat_map (fun r => if as_must_ok x r then must_products_as (as_apply_gen false x r) else []) rs).

(* ------------------------------------------------------------------ gene coordinates (tie to Model/Rmats.v) *)
(* a GVF record in gene coordinates: kind 0 = <DEL>, 1 = <INS>, 2 = <SUB>; g_pos = POS-1 (anchor of <INS>),
   [g_S, g_E) = START-1 .. END, [g_DS, g_DE) = DONOR_START-1 .. DONOR_END.  conv = gene -> transcript map
   (None: intronic / outside); gseq = gene sequence.  Same reading as Rmats.apply_record. *)
Record gvfas := mkGvfAS { g_kind : Z; g_pos : Z; g_S : Z; g_E : Z; g_DS : Z; g_DE : Z }.

Definition as_of_gvf (conv : Z -> option Z) (gseq : seq) (dv : list variant) (r : gvfas) : option asrec :=
  if g_kind r =? 1 then
    match conv (g_pos r) with
    | Some p => Some (mkAS (p + 1) (p + 1) (slice gseq (g_DS r) (g_DE r)) dv)
    | None => None
    end
  else
    match conv (g_S r), conv (g_E r - 1) with
    | Some a, Some b =>
        if a <=? b then
          Some (mkAS a (b + 1) (if g_kind r =? 0 then [] else slice gseq (g_DS r) (g_DE r))
                     (if g_kind r =? 0 then [] else dv))
        else None
    | _, _ => None
    end.
