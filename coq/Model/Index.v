(* C12 -- the moPepGen index directory as a state machine.

   Faithful (Level F) model of
     moPepGen/params.py        CleavageParams.__init__ ('auto' resolution), jsonfy(graph_params=False)
     moPepGen/version.py       MetaVersion.__init__ (`x or current`), get_semver, is_valid_mpg_version, is_valid
     moPepGen/index.py         IndexDir.__init__ / init_metadata / load_metadata / validate_metadata /
                               save_metadata / load_canonical_peptides / save_canonical_peptides /
                               wipe_canonical_peptides, IndexMetadata.register_canonical_pool /
                               get_canonical_pool
     moPepGen/cli/generate_index.py  generate_index   (without --gtf-symlink: the GTF is copied)
     moPepGen/cli/update_index.py    update_index
     moPepGen/cli/common.py          load_references  (the --index-dir branch)

   The directory is  metadata.json (absent | version triple, pool list, source)
                   x the reference files genome.pkl / proteome.pkl / annotation.gtf(+idx) /
                     coding_transcripts.pkl, abstracted to "which reference was saved" (an id)
                   x the pool files  file name -> content
                   x "does the directory contain anything else" (only matters for `any(iterdir())`).
   The content of a pool file is abstracted to its provenance (reference id, the cleavage parameters
   handed to create_unique_peptide_pool); the correspondence harness expands a provenance to the
   actual peptide set with C10's proved digestion model.
   Strings are code-point lists; the literals, the version constants, the list of compared
   parameter fields, the file-name format and the numbering rule are regenerated from the source
   into Gen/Version.v on every run.
   Every operation carries the running environment (python, biopython, moPepGen versions) so that
   histories in which the index is used by another environment than the one that built it are
   covered.  Definitions only. *)
From MoPep Require Import Model.Base Gen.Version.
Open Scope Z_scope.

(* ------------------------------------------------------------------ cleavage parameters *)
(* min_mw is a float in the code; it is modelled as the exact integer x 1e4 (the harness only
   uses values on that grid; float equality of equal decimal literals is exact). *)
Record params := mkP {
  p_enzyme : list Z;
  p_exc : option (list Z);       (* None = Python None *)
  p_misc : Z; p_minmw : Z; p_minlen : Z; p_maxlen : Z }.

(* CleavageParams.__init__:  if self.exception == 'auto': 'trypsin_exception' if enzyme == 'trypsin' else None *)
Definition resolve_exc (enzyme : list Z) (e : option (list Z)) : option (list Z) :=
  match e with
  | None => None
  | Some x => if eq_seq x lit_auto
              then (if eq_seq enzyme lit_trypsin then Some lit_trypsin_exception else None)
              else Some x
  end.

Definition resolve (p : params) : params :=
  mkP (p_enzyme p) (resolve_exc (p_enzyme p) (p_exc p)) (p_misc p) (p_minmw p) (p_minlen p) (p_maxlen p).

Definition opt_eqb (a b : option (list Z)) : bool :=
  match a, b with
  | None, None => true
  | Some x, Some y => eq_seq x y
  | _, _ => false
  end.

(* one key of the jsonfy(graph_params=False) dict; field codes as in Gen/Version.v.
   An unknown code (translator marker) never compares equal. *)
Definition field_eqb (f : Z) (a b : params) : bool :=
  if f =? 0 then eq_seq (p_enzyme a) (p_enzyme b)
  else if f =? 1 then opt_eqb (p_exc a) (p_exc b)
  else if f =? 2 then p_misc a =? p_misc b
  else if f =? 3 then p_minmw a =? p_minmw b
  else if f =? 4 then p_minlen a =? p_minlen b
  else if f =? 5 then p_maxlen a =? p_maxlen b
  else false.

(* `this == that` on the two jsonfy dicts (same key set on both sides) *)
Definition params_eqb (a b : params) : bool := forallb (fun f => field_eqb f a b) eq_fields.

(* ------------------------------------------------------------------ versions *)
Record version := mkV { v_py : list Z; v_bio : list Z; v_mpg : list Z }.

(* `x or current` : the empty string (and JSON null) falls back to the running value *)
Definition or_default (s d : list Z) : list Z := match s with [] => d | _ => s end.

(* MetaVersion applied to data['version'] evaluated in the environment cur *)
Definition load_version (cur v : version) : version :=
  mkV (or_default (v_py v) (v_py cur)) (or_default (v_bio v) (v_bio cur)) (or_default (v_mpg v) (v_mpg cur)).

(* str.split(c) for a one-character separator: always at least one piece *)
Fixpoint split_on (sep : Z) (s : list Z) : list (list Z) :=
  match s with
  | [] => [[]]
  | c :: t =>
      if c =? sep then [] :: split_on sep t
      else match split_on sep t with
           | h :: r => (c :: h) :: r
           | [] => [[c]]
           end
  end.

(* int(x) restricted to non-empty ASCII digit strings; everything else is the ValueError.
   (Python's int also accepts surrounding blanks, a sign, '_' separators and non-ASCII digits;
    version strings of that shape are outside the model's domain and are not generated.) *)
Fixpoint parse_digits (s : list Z) (acc : Z) : option Z :=
  match s with
  | [] => Some acc
  | c :: t => if (48 <=? c) && (c <=? 57) then parse_digits t (10 * acc + (c - 48)) else None
  end.
Definition parse_int (s : list Z) : option Z :=
  match s with [] => None | _ => parse_digits s 0 end.

Fixpoint map_opt {A B} (f : A -> option B) (l : list A) : option (list B) :=
  match l with
  | [] => Some []
  | x :: t => match f x with
              | None => None
              | Some y => match map_opt f t with None => None | Some r => Some (y :: r) end
              end
  end.

(* tuple(int(x) for x in version.split('-')[0].split('.')) *)
Definition get_semver (s : list Z) : option (list Z) :=
  map_opt parse_int (split_on 46 (hd [] (split_on 45 s))).

(* Python tuple comparison a >= b *)
Fixpoint lex_ge (a b : list Z) : bool :=
  match a, b with
  | _, [] => true
  | [], _ :: _ => false
  | x :: a', y :: b' => if x >? y then true else if x <? y then false else lex_ge a' b'
  end.

Inductive vres := VTrue | VFalse | VRaise.     (* VRaise: ValueError out of int() *)

(* cur.is_valid(rec):  `and` short-circuits, `that` is parsed before `minimal` *)
Definition is_valid (cur rec : version) : vres :=
  if eq_seq (v_py cur) (v_py rec) then
    if eq_seq (v_bio cur) (v_bio rec) then
      match get_semver (v_mpg rec) with
      | None => VRaise
      | Some that =>
          match get_semver minimal_version with
          | None => VRaise
          | Some minimal => if lex_ge that minimal then VTrue else VFalse
          end
      end
    else VFalse
  else VFalse.

(* ------------------------------------------------------------------ file names *)
(* f"{fn_prefix}{index:0<fn_width>}{fn_suffix}" for index >= 0 *)
Fixpoint digits_fuel (fuel : nat) (n : Z) : list Z :=
  match fuel with
  | O => []
  | S f => if n <? 10 then [48 + n] else digits_fuel f (n / 10) ++ [48 + n mod 10]
  end.
Definition digits (n : Z) : list Z := digits_fuel (S (Z.to_nat n)) n.
Definition pad (w : Z) (s : list Z) : list Z := repeat 48 (Z.to_nat (w - zlen s)) ++ s.
Definition filename_of (i : Z) : list Z := fn_prefix ++ pad fn_width (digits i) ++ fn_suffix.

(* ------------------------------------------------------------------ the directory *)
Definition content := (Z * params)%type.          (* (reference id, parameters given to the digestion) *)

Record poolmeta := mkPM { pm_file : list Z; pm_index : Z; pm_params : params }.
Record meta := mkM { m_ver : version; m_pools : list poolmeta; m_src : option Z }.
Record disk := mkD {
  d_meta : option meta;                   (* metadata.json *)
  d_ref : option Z;                       (* genome.pkl, proteome.pkl, annotation.gtf, *.idx, coding_transcripts.pkl *)
  d_files : list (list Z * content);      (* the canonical_peptides_*.pkl files *)
  d_other : bool }.                       (* unrelated entries present *)

Definition init_disk (other : bool) : disk := mkD None None [] other.

Definition is_some {A} (o : option A) : bool := match o with Some _ => true | None => false end.
Definition is_nil {A} (l : list A) : bool := match l with [] => true | _ => false end.

(* any(index_dir.path.iterdir()) *)
Definition nonempty (d : disk) : bool :=
  is_some (d_meta d) || is_some (d_ref d) || negb (is_nil (d_files d)) || d_other d.

Fixpoint lookup_file (f : list Z) (fs : list (list Z * content)) : option content :=
  match fs with
  | [] => None
  | (k, v) :: t => if eq_seq k f then Some v else lookup_file f t
  end.

(* open(..., 'wb') + pickle.dump: replace in place or create *)
Fixpoint write_file (f : list Z) (c : content) (fs : list (list Z * content)) : list (list Z * content) :=
  match fs with
  | [] => [(f, c)]
  | (k, v) :: t => if eq_seq k f then (k, c) :: t else (k, v) :: write_file f c t
  end.

(* os.remove: None = FileNotFoundError *)
Fixpoint remove_file (f : list Z) (fs : list (list Z * content)) : option (list (list Z * content)) :=
  match fs with
  | [] => None
  | (k, v) :: t => if eq_seq k f then Some t
                   else match remove_file f t with None => None | Some r => Some ((k, v) :: r) end
  end.

(* IndexDir.__init__ *)
Definition init_meta (cur : version) : meta := mkM cur [] None.
Definition load_pool (pm : poolmeta) : poolmeta := mkPM (pm_file pm) (pm_index pm) (resolve (pm_params pm)).
Definition load_meta (cur : version) (m : meta) : meta :=
  mkM (load_version cur (m_ver m)) (map load_pool (m_pools m)) (m_src m).
Definition open_index (cur : version) (d : disk) : meta :=
  match d_meta d with Some m => load_meta cur m | None => init_meta cur end.

(* IndexMetadata.get_canonical_pool: first pool whose parameters compare equal *)
Fixpoint get_pool (q : params) (l : list poolmeta) : option poolmeta :=
  match l with
  | [] => None
  | pm :: t => if params_eqb q (pm_params pm) then Some pm else get_pool q t
  end.

(* max(it.index for it in pools) + 1 if pools else 1   (index_rule = 1; any other shape of the
   source is a translator marker and yields the invalid index 0) *)
Definition next_index (l : list poolmeta) : Z :=
  if index_rule =? 1 then
    match l with
    | [] => 1
    | pm :: t => fold_left Z.max (map pm_index t) (pm_index pm) + 1
    end
  else 0.

(* IndexMetadata.register_canonical_pool: None = ValueError "already exists" *)
Definition register (m : meta) (cp : params) : option (poolmeta * meta) :=
  if is_some (get_pool cp (m_pools m)) then None
  else let i := next_index (m_pools m) in
       let pm := mkPM (filename_of i) i cp in
       Some (pm, mkM (m_ver m) (m_pools m ++ [pm]) (m_src m)).

(* IndexDir.save_canonical_peptides(seqs, cleavage_params, override) *)
Definition save_pool (m : meta) (fs : list (list Z * content)) (c : content) (cp : params) (override : bool)
  : option (meta * list (list Z * content)) :=
  let reg := match get_pool cp (m_pools m) with
             | Some pm => if override then Some (pm, m) else register m cp
             | None => register m cp
             end in
  match reg with
  | None => None
  | Some (pm, m') => Some (m', write_file (pm_file pm) c fs)
  end.

(* IndexDir.wipe_canonical_peptides: the loop stops at the first missing file (FileNotFoundError);
   the removals made before it persist *)
Fixpoint wipe (pools : list poolmeta) (fs : list (list Z * content)) : list (list Z * content) * bool :=
  match pools with
  | [] => (fs, true)
  | pm :: t => match remove_file (pm_file pm) fs with
               | None => (fs, false)
               | Some fs' => wipe t fs'
               end
  end.

Inductive outcome :=
| OOk
| OExit1                       (* sys.exit(1) *)
| OErrVersion                  (* err.InvalidIndexError *)
| OErrSemver                   (* ValueError from int() in get_semver *)
| OErrNoPool                   (* ValueError: no pool matches the cleavage parameters *)
| OErrExists                   (* ValueError from register_canonical_pool *)
| OErrNoFile                   (* FileNotFoundError *)
| OLoaded (c : content) (r : Z).    (* load_references returned this pool and the data of reference r *)

(* generateIndex (reference files of reference `ref`, GTF copied) *)
Definition generate (cur : version) (ref : Z) (p : params) (force : bool) (d : disk) : disk * outcome :=
  let m0 := open_index cur d in
  let go (m : meta) (fs : list (list Z * content)) : disk * outcome :=
      (* genome, proteome, annotation are written before the pool is built *)
      let cp := resolve p in
      match save_pool m fs (ref, cp) cp false with
      | None => (mkD (d_meta d) (Some ref) fs (d_other d), OErrExists)
      | Some (m', fs') => (mkD (Some (mkM (m_ver m') (m_pools m') (Some ref))) (Some ref) fs' (d_other d), OOk)
      end in
  if nonempty d then
    if force then
      let '(fs1, ok) := wipe (m_pools m0) (d_files d) in
      if ok then go (init_meta cur) fs1
      else (mkD (d_meta d) (d_ref d) fs1 (d_other d), OErrNoFile)
    else (d, OExit1)
  else go m0 (d_files d).

(* updateIndex *)
Definition update (cur : version) (p : params) (force : bool) (d : disk) : disk * outcome :=
  let m := open_index cur d in
  match is_valid cur (m_ver m) with
  | VRaise => (d, OErrSemver)
  | VFalse => (d, OErrVersion)
  | VTrue =>
      let cp := resolve p in
      let pool_exists := is_some (get_pool cp (m_pools m)) in
      if pool_exists && negb force then (d, OExit1)
      else match d_ref d with
           | None => (d, OErrNoFile)                   (* load_annotation / load_proteome *)
           | Some r =>
               match save_pool m (d_files d) (r, cp) cp force with
               | None => (d, OErrExists)
               | Some (m', fs') =>
                   (mkD (if pool_exists then d_meta d else Some m') (d_ref d) fs' (d_other d), OOk)
               end
           end
  end.

(* common.load_references(args with --index-dir, cleavage_params=CleavageParams(...p...)) *)
Definition load (cur : version) (p : params) (d : disk) : outcome :=
  let m := open_index cur d in
  match is_valid cur (m_ver m) with
  | VRaise => OErrSemver
  | VFalse => OErrVersion
  | VTrue =>
      match get_pool (resolve p) (m_pools m) with
      | None => OErrNoPool
      | Some pm =>
          match lookup_file (pm_file pm) (d_files d) with
          | None => OErrNoFile
          | Some c => match d_ref d with None => OErrNoFile | Some r => OLoaded c r end
          end
      end
  end.

(* ------------------------------------------------------------------ histories *)
Inductive op :=
| OpGenerate (ref : Z) (p : params) (force : bool)
| OpUpdate (p : params) (force : bool)
| OpLoad (p : params).

Definition step (d : disk) (eo : version * op) : disk * outcome :=
  match snd eo with
  | OpGenerate ref p force => generate (fst eo) ref p force d
  | OpUpdate p force => update (fst eo) p force d
  | OpLoad p => (d, load (fst eo) p d)
  end.

Definition run (d : disk) (ops : list (version * op)) : disk * list outcome :=
  fold_left (fun acc eo => let '(d', o) := step (fst acc) eo in (d', snd acc ++ [o])) ops (d, []).

Definition reachable (d : disk) : Prop := exists other ops, d = fst (run (init_disk other) ops).

(* ------------------------------------------------------------------ the dictionary specification *)
Record aindex := mkAI { a_ref : Z; a_ver : version; a_map : list (params * content) }.
Record astate := mkA { a_ix : option aindex; a_other : bool }.

Definition init_a (other : bool) : astate := mkA None other.

Fixpoint m_get (q : params) (m : list (params * content)) : option content :=
  match m with
  | [] => None
  | (k, v) :: t => if params_eqb q k then Some v else m_get q t
  end.

Fixpoint m_set (q : params) (c : content) (m : list (params * content)) : list (params * content) :=
  match m with
  | [] => [(q, c)]
  | (k, v) :: t => if params_eqb q k then (k, c) :: t else (k, v) :: m_set q c t
  end.

Definition gate (cur : version) (a : astate) : vres :=
  match a_ix a with
  | None => is_valid cur cur
  | Some ix => is_valid cur (load_version cur (a_ver ix))
  end.

Definition astep (a : astate) (eo : version * op) : astate * outcome :=
  let cur := fst eo in
  match snd eo with
  | OpGenerate ref p force =>
      if (is_some (a_ix a) || a_other a) && negb force then (a, OExit1)
      else (mkA (Some (mkAI ref cur [(resolve p, (ref, resolve p))])) (a_other a), OOk)
  | OpUpdate p force =>
      match gate cur a with
      | VRaise => (a, OErrSemver)
      | VFalse => (a, OErrVersion)
      | VTrue =>
          match a_ix a with
          | None => (a, OErrNoFile)
          | Some ix =>
              let q := resolve p in
              let ex := is_some (m_get q (a_map ix)) in
              if ex && negb force then (a, OExit1)
              else (mkA (Some (mkAI (a_ref ix)
                                    (if ex then a_ver ix else load_version cur (a_ver ix))
                                    (m_set q (a_ref ix, q) (a_map ix)))) (a_other a), OOk)
          end
      end
  | OpLoad p =>
      match gate cur a with
      | VRaise => (a, OErrSemver)
      | VFalse => (a, OErrVersion)
      | VTrue =>
          match a_ix a with
          | None => (a, OErrNoPool)
          | Some ix => match m_get (resolve p) (a_map ix) with
                       | None => (a, OErrNoPool)
                       | Some c => (a, OLoaded c (a_ref ix))
                       end
          end
      end
  end.

Definition arun (a : astate) (ops : list (version * op)) : astate * list outcome :=
  fold_left (fun acc eo => let '(a', o) := astep (fst acc) eo in (a', snd acc ++ [o])) ops (a, []).

(* abstraction of a directory to the dictionary *)
Definition abs (d : disk) : astate :=
  mkA (match d_meta d, d_ref d with
       | Some m, Some r => Some (mkAI r (m_ver m) (combine (map pm_params (m_pools m)) (map snd (d_files d))))
       | _, _ => None
       end) (d_other d).

(* ------------------------------------------------------------------ the invariant *)
Definition pool_file (r : Z) (pm : poolmeta) : list Z * content := (pm_file pm, (r, pm_params pm)).

Fixpoint nodup_params (l : list poolmeta) : bool :=
  match l with
  | [] => true
  | pm :: t => negb (is_some (get_pool (pm_params pm) t)) && nodup_params t
  end.

Definition pool_ok (pm : poolmeta) : Prop :=
  pm_file pm = filename_of (pm_index pm) /\ 1 <= pm_index pm /\ resolve (pm_params pm) = pm_params pm.

Definition wf (d : disk) : Prop :=
  match d_meta d with
  | None => d_ref d = None /\ d_files d = []
  | Some m => exists r, d_ref d = Some r /\ m_src m = Some r /\
                        d_files d = map (pool_file r) (m_pools m) /\
                        Forall pool_ok (m_pools m) /\
                        NoDup (map pm_index (m_pools m)) /\
                        nodup_params (m_pools m) = true
  end.

(* the regenerated constants are the ones the model understands *)
Definition index_constants_ok : bool :=
  is_valid_shape_ok && resolve_shape_ok && lookup_shape_ok && pool_exc_resolved &&
  (index_rule =? 1) && (1 <=? fn_width) && (fn_width <=? 9) &&
  forallb (fun f => memZ f eq_fields) [0; 1; 2; 3; 4; 5] &&
  forallb (fun f => memZ f [0; 1; 2; 3; 4; 5]) eq_fields &&
  is_some (get_semver minimal_version) &&
  negb (eq_seq lit_auto lit_trypsin_exception).
