(* C07, parsers -- Level-F model of the record loop shared by moPepGen/cli/parse_star_fusion.py,
   parse_fusion_catcher.py, parse_arriba.py and parse_vep.py:

       for record in parse(...):
           tally.total += 1
           [pre-checks: evidence thresholds / gene id / antisense -> count a skip reason; continue]
           try:    records = record.convert_to_variant_record[s](anno, genome); keep them; tally.succeed += 1
           except <documented exception>: count its reason; continue          (one handler per table entry)
           except:  if args.skip_failed: count; continue
                    raise
       [nothing kept: warning, return]   sort, write the GVF, log the summary

   The conversion itself is abstract: a row either is skipped by a pre-check, converts to records, or raises
   an exception whose class hierarchy (mro) is given.  The handler table, the guard of the bare handler and the
   reason a guarded failure is counted under are regenerated from the source by
   harness/translate/parser_shape.py (Gen/ParserShape.v).  Definitions only. *)
From MoPep Require Import Model.Base.
Open Scope Z_scope.

(* reasons: 0 invalid gene id, 1 invalid position, 2 insufficient evidence, 3 antisense strand,
            4 start-site mutation, 5 stop-site mutation, 6 failed (no category; parseVEP) *)
Inductive prow :=
| PSkip (reason : Z)                       (* decided before the try *)
| POk (recs : list Z)                      (* records produced (identified by a number each) *)
| PExc (mro : list Z) (unknown_key : bool) (* exception raised by the conversion: classes of its mro; VEP: the
                                              row's transcript id is not in the annotation *).

Record pshape := {
  ps_doc : list (Z * Z);      (* typed handlers in order: (exception class, reason counted) *)
  ps_guarded : bool;          (* bare handler is `if args.skip_failed: count; continue` then `raise` *)
  ps_fail_reason : Z;         (* reason a guarded failure is counted under *)
  ps_register_early : bool;   (* parseVEP: the transcript key is entered in the output dict BEFORE the try, and all
                                 keys are ranked by tx_rank[key] at the end (KeyError for a key not in the annotation) *)
  ps_tally_first : bool;      (* the summary is logged before the `if not <records>: return` check and the write *)
  ps_empty_on_keys : bool     (* that check tests the dict of transcript keys (parseVEP), not the list of records *)
}.

Fixpoint find_handler (doc : list (Z * Z)) (mro : list Z) : option Z :=
  match doc with
  | [] => None
  | (cls, reason) :: r => if memZ cls mro then Some reason else find_handler r mro
  end.

Inductive pexn := PEConv | PERank.
Inductive pres (A : Type) := POkR (a : A) | PRaise (e : pexn).
Arguments POkR {A} a.
Arguments PRaise {A} e.

(* p_anykey: the output dict of parseVEP has a key (`if not vep_records: return` is not taken) *)
Record pst := { p_recs : list Z; p_succeed : Z; p_reasons : list Z; p_badkey : bool; p_anykey : bool }.

Fixpoint ploop (sh : pshape) (skip : bool) (rows : list prow) (st : pst) : pres pst :=
  match rows with
  | [] => POkR st
  | PSkip r :: rest =>
    ploop sh skip rest {| p_recs := p_recs st; p_succeed := p_succeed st; p_reasons := p_reasons st ++ [r];
                          p_badkey := p_badkey st; p_anykey := p_anykey st |}
  | POk recs :: rest =>
    ploop sh skip rest {| p_recs := p_recs st ++ recs; p_succeed := p_succeed st + 1; p_reasons := p_reasons st;
                          p_badkey := p_badkey st; p_anykey := true |}
  | PExc mro uk :: rest =>
    let bk := p_badkey st || (ps_register_early sh && uk) in
    let ak := p_anykey st || ps_register_early sh in
    match find_handler (ps_doc sh) mro with
    | Some r =>
      ploop sh skip rest {| p_recs := p_recs st; p_succeed := p_succeed st; p_reasons := p_reasons st ++ [r];
                            p_badkey := bk; p_anykey := ak |}
    | None =>
      if ps_guarded sh && skip then
        ploop sh skip rest {| p_recs := p_recs st; p_succeed := p_succeed st;
                              p_reasons := p_reasons st ++ [ps_fail_reason sh]; p_badkey := bk; p_anykey := ak |}
      else PRaise PEConv
    end
  end.

(* what the command leaves behind *)
Record pout := {
  o_exc : option pexn;
  o_gvf : option (list Z);                 (* None: no file at the output path *)
  o_tally : option (Z * Z * list Z)        (* (records read, processed, skip reasons in order) *)
}.

Definition prun (sh : pshape) (skip : bool) (rows : list prow) : pout :=
  match ploop sh skip rows {| p_recs := []; p_succeed := 0; p_reasons := []; p_badkey := false; p_anykey := false |} with
  | PRaise e => {| o_exc := Some e; o_gvf := None; o_tally := None |}
  | POkR st =>
    let tl := (zlen rows, p_succeed st, p_reasons st) in
    let empty := if ps_empty_on_keys sh then negb (p_anykey st)
                 else match p_recs st with [] => true | _ => false end in
    if empty then
      (* if not <records>: warning; return *)
      {| o_exc := None; o_gvf := None; o_tally := (if ps_tally_first sh then Some tl else None) |}
    else if p_badkey st then
      (* parseVEP: ranking the keys by tx_rank[key] raises KeyError (after the summary when it is logged first) *)
      {| o_exc := Some PERank; o_gvf := None; o_tally := (if ps_tally_first sh then Some tl else None) |}
    else {| o_exc := None; o_gvf := Some (p_recs st); o_tally := Some tl |}
  end.

(* ---- the statement's side (hand-written): the documented skip exceptions of each tool *)
(* classes: 1 GeneNotFoundError, 2 TranscriptionStopSiteMutationError, 3 TranscriptionStartSiteMutationError,
            10 KeyError, 11 ValueError, 12 IndexError, 14 LookupError, 20 Exception, 21 BaseException *)
Definition doc_fusion : list (Z * Z) := [(1, 0)].
Definition doc_vep : list (Z * Z) := [(2, 5); (3, 4)].

Definition shape_fusion : pshape :=
  {| ps_doc := doc_fusion; ps_guarded := true; ps_fail_reason := 1; ps_register_early := false; ps_tally_first := true;
     ps_empty_on_keys := false |}.
(* the fusion parsers before proposed_fixes/C07_fusion_tally_before_return.patch *)
Definition shape_fusion_orig : pshape :=
  {| ps_doc := doc_fusion; ps_guarded := true; ps_fail_reason := 1; ps_register_early := false; ps_tally_first := false;
     ps_empty_on_keys := false |}.
Definition shape_vep : pshape :=
  {| ps_doc := doc_vep; ps_guarded := true; ps_fail_reason := 6; ps_register_early := false; ps_tally_first := true;
     ps_empty_on_keys := true |}.
(* parseVEP before proposed_fixes/C07_vep_unknown_tx.patch *)
Definition shape_vep_orig : pshape :=
  {| ps_doc := doc_vep; ps_guarded := true; ps_fail_reason := 6; ps_register_early := true; ps_tally_first := true;
     ps_empty_on_keys := true |}.

Fixpoint eq_doc (a b : list (Z * Z)) : bool :=
  match a, b with
  | [], [] => true
  | (x, y) :: a', (u, v) :: b' => (x =? u) && (y =? v) && eq_doc a' b'
  | _, _ => false
  end.

Definition pshape_eqb (a b : pshape) : bool :=
  eq_doc (ps_doc a) (ps_doc b) && Bool.eqb (ps_guarded a) (ps_guarded b) && (ps_fail_reason a =? ps_fail_reason b) &&
  Bool.eqb (ps_register_early a) (ps_register_early b) && Bool.eqb (ps_tally_first a) (ps_tally_first b) &&
  Bool.eqb (ps_empty_on_keys a) (ps_empty_on_keys b).

(* a row fails: its exception is not one of the documented skip exceptions *)
Definition row_fails (doc : list (Z * Z)) (r : prow) : bool :=
  match r with PExc mro _ => match find_handler doc mro with None => true | Some _ => false end | _ => false end.

Definition row_recs (r : prow) : list Z := match r with POk recs => recs | _ => [] end.
Definition row_ok (r : prow) : bool := match r with POk _ => true | _ => false end.

(* the reason a non-ok row must be counted under (failing rows: the tool's catch-all reason) *)
Definition row_reason (doc : list (Z * Z)) (fail_reason : Z) (r : prow) : list Z :=
  match r with
  | PSkip x => [x]
  | POk _ => []
  | PExc mro _ => match find_handler doc mro with Some x => [x] | None => [fail_reason] end
  end.
