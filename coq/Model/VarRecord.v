(* C06 - record ORDER and record IDENTITY as moPepGen/seqvar/VariantRecord.py and moPepGen/SeqFeature.py define
   them (definitions only; proofs in Proofs/VarRecordProofs.v, tie to the source in Proofs/Py2CoqVarRecordProofs.v).

   callVariant gathers the records of a transcript from all GVF files, de-duplicates them with `set(records)`
   (__hash__ + __eq__) and sorts every series with `list.sort()` (only `<`, i.e. __lt__, is used by CPython).
   The six comparison methods are mirrored construct by construct:

     FeatureLocation.__eq__   start == start' and end == end' and strand == strand'      (seqname is ignored)
     FeatureLocation.__gt__   start > start' -> True; start == start' -> (level(strand) > level(strand') -> True;
                              level == level' and end > end' -> True); False           (_STRAND_LEVELS = None 0, 0 1, -1 2, 1 3)
     VariantRecord.__eq__     location == and ref == and alt == and type ==            (id and attrs are ignored)
     VariantRecord.__gt__     location > -> True; location == -> (alt > alt' -> True; ref == ref' -> type > type'); False
     VariantRecord.__ge__     self == other or self > other
     VariantRecord.__lt__     not self >= other
     VariantRecord.__le__     not self > other
     VariantRecord.__hash__   hash of the 16-tuple (start, end, ref, alt, type, 11 attrs.get(..) values)

   Strings are code-point lists and compare lexicographically by code point, as Python's str does.  The strand is
   one of the four values Biopython's location accepts (its setter rejects anything else), so the KeyError of
   _STRAND_LEVELS[..] cannot occur.  The eleven attribute values that enter the hash are an option list in the
   order of the tuple (None = key absent); a value is an opaque code-point list (the harness encodes repr(value)).
   v_id is the record id: no method reads it, it only makes two `==` records distinguishable. *)
From Coq Require Import ZArith List Bool.
From MoPep Require Import Model.Base.
Import ListNotations.
Open Scope Z_scope.

Inductive strand := SNone | SZero | SMinus | SPlus.

Definition strand_level (s : strand) : Z :=
  match s with SNone => 0 | SZero => 1 | SMinus => 2 | SPlus => 3 end.

Definition strand_eqb (a b : strand) : bool :=
  match a, b with
  | SNone, SNone | SZero, SZero | SMinus, SMinus | SPlus, SPlus => true
  | _, _ => false
  end.

Record loc := mkLoc { l_start : Z; l_end : Z; l_strand : strand }.

(* FeatureLocation.__eq__ *)
Definition loc_eqb (a b : loc) : bool :=
  (l_start a =? l_start b) && (l_end a =? l_end b) && strand_eqb (l_strand a) (l_strand b).

(* FeatureLocation.__gt__ *)
Definition loc_gtb (a b : loc) : bool :=
  if l_start a >? l_start b then true
  else if l_start a =? l_start b then
    if strand_level (l_strand a) >? strand_level (l_strand b) then true
    else if (strand_level (l_strand a) =? strand_level (l_strand b)) && (l_end a >? l_end b) then true
    else false
  else false.

(* Python str `<` / `>`: lexicographic by code point, a proper prefix is smaller *)
Fixpoint str_ltb (a b : seq) : bool :=
  match a, b with
  | _, [] => false
  | [], _ :: _ => true
  | x :: a', y :: b' => if x <? y then true else if y <? x then false else str_ltb a' b'
  end.
Definition str_gtb (a b : seq) : bool := str_ltb b a.

Record vrec := mkV { v_loc : loc; v_ref : seq; v_alt : seq; v_type : seq;
                     v_attrs : list (option seq); v_id : seq }.

(* VariantRecord.__eq__ *)
Definition vr_eq (a b : vrec) : bool :=
  loc_eqb (v_loc a) (v_loc b) && eq_seq (v_ref a) (v_ref b) && eq_seq (v_alt a) (v_alt b) &&
  eq_seq (v_type a) (v_type b).

(* VariantRecord.__gt__ *)
Definition vr_gt (a b : vrec) : bool :=
  if loc_gtb (v_loc a) (v_loc b) then true
  else if loc_eqb (v_loc a) (v_loc b) then
    if str_gtb (v_alt a) (v_alt b) then true
    else if eq_seq (v_ref a) (v_ref b) then str_gtb (v_type a) (v_type b)
    else false
  else false.

Definition vr_ge (a b : vrec) : bool := vr_eq a b || vr_gt a b.      (* __ge__ *)
Definition vr_lt (a b : vrec) : bool := negb (vr_ge a b).         (* __lt__ *)
Definition vr_le (a b : vrec) : bool := negb (vr_gt a b).         (* __le__ *)

(* what __hash__ hashes: the tuple (location.start, location.end, ref, alt, type, the 11 attrs.get values) *)
Inductive hval := HZ (z : Z) | HS (s : seq) | HO (o : option seq).
Definition attr (a : vrec) (k : nat) : option seq := nth k (v_attrs a) None.
Definition hash_key (a : vrec) : list hval :=
  [HZ (l_start (v_loc a)); HZ (l_end (v_loc a)); HS (v_ref a); HS (v_alt a); HS (v_type a);
   HO (attr a 0); HO (attr a 1); HO (attr a 2); HO (attr a 3); HO (attr a 4); HO (attr a 5);
   HO (attr a 6); HO (attr a 7); HO (attr a 8); HO (attr a 9); HO (attr a 10)].

Definition opt_seq_eqb (a b : option seq) : bool :=
  match a, b with None, None => true | Some x, Some y => eq_seq x y | _, _ => false end.
Definition hval_eqb (a b : hval) : bool :=
  match a, b with
  | HZ x, HZ y => x =? y
  | HS x, HS y => eq_seq x y
  | HO x, HO y => opt_seq_eqb x y
  | _, _ => false
  end.
Fixpoint hkey_eqb (a b : list hval) : bool :=
  match a, b with
  | [], [] => true
  | x :: a', y :: b' => hval_eqb x y && hkey_eqb a' b'
  | _, _ => false
  end.

(* identical records: every modelled field (rec_eqb a b = true <-> a = b) *)
Fixpoint attrs_eqb (a b : list (option seq)) : bool :=
  match a, b with
  | [], [] => true
  | x :: a', y :: b' => opt_seq_eqb x y && attrs_eqb a' b'
  | _, _ => false
  end.
Definition rec_eqb (a b : vrec) : bool :=
  loc_eqb (v_loc a) (v_loc b) && eq_seq (v_ref a) (v_ref b) && eq_seq (v_alt a) (v_alt b) &&
  eq_seq (v_type a) (v_type b) && attrs_eqb (v_attrs a) (v_attrs b) && eq_seq (v_id a) (v_id b).

(* list.sort() / sorted(): a stable sort that consults only `<`.  Insertion from the left: x goes in front of
   the first y with x < y, so records that are not `<`-related keep their input order.  For lists of length
   <= 2 this is literally what CPython does (count_run: [x; y] is swapped iff y < x); for longer lists CPython
   uses binary insertion / merging, which returns the same list whenever `<` is a strict total order on the
   elements (Props: sorted_unique - ANY `<`-sorted permutation equals this one) and may differ otherwise. *)
Fixpoint insert (x : vrec) (l : list vrec) : list vrec :=
  match l with
  | [] => [x]
  | y :: t => if vr_lt x y then x :: y :: t else y :: insert x t
  end.
Definition sorted (l : list vrec) : list vrec := fold_left (fun acc x => insert x acc) l [].

(* a pair sorts the same way in both input orders: identical, or exactly one of a < b, b < a *)
Definition pair_ok (a b : vrec) : bool := rec_eqb a b || xorb (vr_lt a b) (vr_lt b a).
Fixpoint conflict_free (l : list vrec) : bool :=
  match l with
  | [] => true
  | a :: t => forallb (pair_ok a) t && conflict_free t
  end.

(* the two ways a pair can fail pair_ok besides being `==` but not identical *)
Definition gt_conflict (a b : vrec) : bool := vr_gt a b && vr_gt b a.          (* neither a < b nor b < a, not == *)
Definition incomparable (a b : vrec) : bool := vr_lt a b && vr_lt b a.         (* a < b AND b < a *)

(* `<`-sorted: no element is `<` an earlier one *)
Fixpoint lt_sorted (l : list vrec) : bool :=
  match l with
  | [] => true
  | a :: t => forallb (fun b => negb (vr_lt b a)) t && lt_sorted t
  end.

(* set(records): keeps the FIRST of several records with equal hash key that are `==` (a Python set never
   replaces a present element); the iteration order of the set is outside the model (hash-seed dependent) *)
Definition same_member (a b : vrec) : bool := hkey_eqb (hash_key a) (hash_key b) && vr_eq a b.
Fixpoint dedup_acc (seen l : list vrec) : list vrec :=
  match l with
  | [] => []
  | x :: t => if existsb (same_member x) seen then dedup_acc seen t else x :: dedup_acc (x :: seen) t
  end.
Definition dedup (l : list vrec) : list vrec := dedup_acc [] l.
