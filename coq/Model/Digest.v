(* Faithful model of moPepGen/aa/AminoAcidSeqRecord.py:
     iter_enzymatic_cleave_sites, enzymatic_cleave
   and moPepGen/aa/AminoAcidSeqDict.py: create_unique_peptide_pool. *)
From MoPep Require Import Model.Base Model.Rule.
Open Scope Z_scope.

(* ---- sites ---- *)
(* positions are nat (list indices); a site is the index AFTER the matched centre *)

(* sites of s when s is embedded as  (rev rl) ++ s ++ rt ; i = |rev rl| offset to report *)
Fixpoint raw_sites_ctx (r : rule) (rl : seq) (s : seq) (rt : seq) (i : nat) : list nat :=
  match s with
  | [] => []
  | x :: s' =>
      let rest := raw_sites_ctx r (x :: rl) s' rt (S i) in
      if rule_match r rl x (s' ++ rt) then S i :: rest else rest
  end.

Definition raw_sites (r : rule) (s : seq) : list nat := raw_sites_ctx r [] s [] 0.

Fixpoint mem_nat (x : nat) (l : list nat) : bool :=
  match l with [] => false | y :: t => Nat.eqb x y || mem_nat x t end.

(* iter_enzymatic_cleave_sites: rule sites not in the exception's sites *)
Definition sites (r : rule) (exc : option rule) (s : seq) : list nat :=
  match exc with
  | None => raw_sites r s
  | Some e => let ex := raw_sites e s in
              filter (fun i => negb (mem_nat i ex)) (raw_sites r s)
  end.

(* the same with context, both rule and exception seeing the context *)
Definition sites_ctx (r : rule) (exc : option rule) (rl s rt : seq) (i : nat) : list nat :=
  match exc with
  | None => raw_sites_ctx r rl s rt i
  | Some e => let ex := raw_sites_ctx e rl s rt i in
              filter (fun j => negb (mem_nat j ex)) (raw_sites_ctx r rl s rt i)
  end.

(* ---- masses: Biopython protein_weights x 10^4, exact ---- *)
Definition weight_table := list (Z * Z).
Fixpoint weight_of (t : weight_table) (c : Z) : option Z :=
  match t with
  | [] => None
  | (k, w) :: t' => if c =? k then Some w else weight_of t' c
  end.

Fixpoint sum_weights (t : weight_table) (p : seq) : Z :=
  match p with
  | [] => 0
  | c :: p' => match weight_of t c with Some w => w | None => 0 end + sum_weights t p'
  end.

Definition valid_letters (t : weight_table) (p : seq) : bool :=
  forallb (fun c => match weight_of t c with Some _ => true | None => false end) p.

(* molecular_weight(p,'protein') * 10^4 = sum - (len-1)*water *)
Definition mass4 (t : weight_table) (water : Z) (p : seq) : Z :=
  sum_weights t p - (Z.of_nat (length p) - 1) * water.

Record limits := mkLimits {
  lim_k : Z;           (* miscleavage *)
  lim_min_mw4 : Z;     (* min_mw x 10^4 *)
  lim_min_len : Z;
  lim_max_len : Z;
}.

Definition X_code : Z := 88.
Definition M_code : Z := 77.
Definition I_code : Z := 73.
Definition L_code : Z := 76.
Definition STAR_code : Z := 42.

Section Cleave.
  Variable wt : weight_table.
  Variable water : Z.
  Variable lim : limits.

  (* update_peptides *)
  Definition keep (p : seq) : bool :=
    negb (memZ X_code p) &&
    (lim_min_mw4 lim <? mass4 wt water p) &&
    (lim_min_len lim <=? Z.of_nat (length p)) && (Z.of_nat (length p) <=? lim_max_len lim).

  Definition update (p : seq) : list seq := if keep p then [p] else [].

  Definition piece (s : seq) (a b : nat) : seq := firstn (b - a) (skipn a s).

  Definition starts_with_M (p : seq) : bool :=
    match p with c :: _ => c =? M_code | [] => false end.

  (* body of the inner while for one (start, end) pair *)
  Definition emit (s : seq) (first nf : bool) (a b : nat) : list seq :=
    let p := piece s a b in
    (if first && negb nf && starts_with_M p then update (tl p) else []) ++ update p.

  (* candidate peptides examined by update_peptides (for the ValueError condition) *)
  Definition cands (s : seq) (first nf : bool) (a b : nat) : list seq :=
    let p := piece s a b in
    (if first && negb nf && starts_with_M p then [tl p] else []) ++ [p].

  (* outer while over start, inner while over end: the next (k+1) boundaries *)
  Fixpoint cleave_loop (s : seq) (nf first : bool) (bounds : list nat) : list seq :=
    match bounds with
    | [] => []
    | a :: rest =>
        flat_map (emit s first nf a) (firstn (Z.to_nat (lim_k lim + 1)) rest)
        ++ cleave_loop s nf false rest
    end.

  Fixpoint cands_loop (s : seq) (nf first : bool) (bounds : list nat) : list seq :=
    match bounds with
    | [] => []
    | a :: rest =>
        flat_map (cands s first nf a) (firstn (Z.to_nat (lim_k lim + 1)) rest)
        ++ cands_loop s nf false rest
    end.

  Definition bounds_of (r : rule) (exc : option rule) (s : seq) : list nat :=
    0%nat :: sites r exc s ++ [length s].

  (* enzymatic_cleave without the error branch *)
  Definition cleave (r : rule) (exc : option rule) (nf : bool) (s : seq) : list seq :=
    cleave_loop s nf true (bounds_of r exc s).

  (* molecular_weight raises ValueError on a letter outside the table; the X test comes first *)
  Definition cleave_raises (r : rule) (exc : option rule) (nf : bool) (s : seq) : bool :=
    existsb (fun p => negb (memZ X_code p) && negb (valid_letters wt p))
            (cands_loop s nf true (bounds_of r exc s)).

  Definition cleave_checked (r : rule) (exc : option rule) (nf : bool) (s : seq) : option (list seq) :=
    if cleave_raises r exc nf s then None else Some (cleave r exc nf s).

  (* ---- create_unique_peptide_pool ---- *)
  Fixpoint lstrip_X (s : seq) : seq :=
    match s with c :: s' => if c =? X_code then lstrip_X s' else s | [] => [] end.

  Fixpoint cut_at_stop (s : seq) : seq :=
    match s with c :: s' => if c =? STAR_code then [] else c :: cut_at_stop s' | [] => [] end.

  Definition i2l (p : seq) : seq := map (fun c => if c =? I_code then L_code else c) p.

  Definition prep (s : seq) : seq := cut_at_stop (lstrip_X s).

  (* proteins: (sequence, cds_start_nf) *)
  Definition protein_peptides (r : rule) (exc : option rule) (pr : seq * bool) : list seq :=
    let ps := cleave r exc (snd pr) (prep (fst pr)) in
    flat_map (fun p => [p; i2l p]) ps.

  Definition pool (r : rule) (exc : option rule) (prots : list (seq * bool)) : list seq :=
    flat_map (protein_peptides r exc) prots.

  Definition pool_raises (r : rule) (exc : option rule) (prots : list (seq * bool)) : bool :=
    existsb (fun pr => cleave_raises r exc (snd pr) (prep (fst pr))) prots.
End Cleave.

(* ---- iter_enzymatic_cleave_sites_with_range ---- *)
(* regex.finditer(EXPASY_RULES2[rule], seq, overlapped=True): at every start position the first
   alternative (in order) that matches gives one match; the search resumes at start+1 *)
Fixpoint first_match2 (r2 : rule2) (s : seq) : option nat :=
  match r2 with
  | [] => None
  | a :: r' => if match_prefix a s then Some (length a) else first_match2 r' s
  end.

Fixpoint raw_ranges (r2 : rule2) (s : seq) (p : nat) : list (nat * nat) :=
  match s with
  | [] => []
  | _ :: s' =>
      match first_match2 r2 s with
      | Some n => (p, (p + n)%nat) :: raw_ranges r2 s' (S p)
      | None => raw_ranges r2 s' (S p)
      end
  end.

(* None = ValueError("Inconsistent cleavage sites found") *)
Definition sites_with_range (r : rule) (r2 : rule2) (exc : option rule) (s : seq)
  : option (list (nat * (nat * nat))) :=
  let ss := raw_sites r s in
  let rs := raw_ranges r2 s 0 in
  if Nat.eqb (length ss) (length rs) then
    let ex := match exc with Some e => raw_sites e s | None => [] end in
    Some (filter (fun sr => negb (mem_nat (fst sr) ex)) (combine ss rs))
  else None.
