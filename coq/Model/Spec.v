(* Level-S reference semantics for callVariant (C01 completeness, C02 soundness, C03 headers).
   DESIGN.md section 2 "Level S", Appendix A.  Definitions only; proofs in Proofs/SpecProofs.v.

   This is NOT a model of the graph engine (moPepGen/svgraph).  It is the definitional semantics
   the properties appeal to -- haplotypes = compatible subsets of the supplied records, applied to
   the transcript, translated from a permitted start, digested (the C10 model Model/Digest.v),
   limited -- as executable functions, together with the deciders  must_set / realizable /
   witness_ok  that the correspondence runs against the real callVariant.

   Record kinds covered: SNV, MNV, INDEL on a linear transcript (after gene->transcript mapping,
   which the harness performs).  Fusion, alternative splicing, circRNA: not covered. *)
From MoPep Require Import Model.Base Model.Rule Model.Digest Gen.Bio.
Open Scope Z_scope.

(* ------------------------------------------------------------------ records *)
(* A record on the transcript: t[v_s, v_e) := v_alt  (0-based half open; v_s < v_e).
   SNV/MNV: alt has the length of the interval.  Insertion: interval = the anchor base, alt =
   anchor + inserted bases.  Deletion: interval = anchor + deleted bases, alt = anchor.
   v_ok: set by the harness when the record maps into ONE exon of this transcript (both ends in the
   same exon); records with v_ok = false (both ends exonic but an intron in between) are only
   permitted (MAY), never obliged (MUST). *)
Record variant := mkVar { v_s : Z; v_e : Z; v_alt : seq; v_ok : bool }.

Record input := mkInput {
  in_tx : seq;              (* transcript, nucleotides as code points *)
  in_coding : bool;         (* has an annotated ORF *)
  in_orf : Z;               (* first base of the first complete codon of the annotated CDS *)
  in_start_nf : bool;       (* cds_start_NF *)
  in_end_nf : bool;         (* mRNA_end_NF *)
  in_sec : list Z;          (* transcript positions of TGA codons annotated as selenocysteine *)
  in_vars : list variant;   (* supplied records, sorted by v_s *)
  in_rule : rule;
  in_exc : option rule;
  in_lim : limits;
  in_pool : list seq;       (* canonical peptide pool (C10 model, with I->L images) *)
}.

(* ------------------------------------------------------------------ haplotypes *)
(* all boolean masks of length n, each exactly once *)
Fixpoint masks (n : nat) : list (list bool) :=
  match n with
  | O => [[]]
  | S n' => map (cons false) (masks n') ++ map (cons true) (masks n')
  end.

Fixpoint select {A} (m : list bool) (l : list A) : list A :=
  match m, l with
  | b :: m', x :: l' => if b then x :: select m' l' else select m' l'
  | _, _ => []
  end.

(* a before b in the position-sorted list: compatible iff a ends before b starts.
   strict (MUST): not abutting either -- except two abutting single-nucleotide substitutions, which the
   statement covers explicitly ("merged adjacent variants": --max-adjacent-as-mnv 2 merges them). *)
Definition is_snv (v : variant) : bool := (v_e v - v_s v =? 1) && (zlen (v_alt v) =? 1).
Definition compat (strict : bool) (a b : variant) : bool :=
  if strict then (v_e a <? v_s b) || ((v_e a =? v_s b) && is_snv a && is_snv b) else v_e a <=? v_s b.

(* three records in a row each abutting the next: a run longer than --max-adjacent-as-mnv 2 *)
Fixpoint no_run3 (h : list variant) : bool :=
  match h with
  | a :: ((b :: c :: _) as h') => negb ((v_e a =? v_s b) && (v_e b =? v_s c)) && no_run3 h'
  | _ => true
  end.

Fixpoint pairwise (strict : bool) (h : list variant) : bool :=
  match h with
  | [] => true
  | a :: h' => forallb (compat strict a) h' && pairwise strict h'
  end.

Definition nonempty {A} (l : list A) : bool := match l with [] => false | _ => true end.

(* masks of the pairwise-compatible non-empty subsets *)
Definition hap_masks (strict : bool) (vs : list variant) : list (list bool) :=
  filter (fun m => let h := select m vs in nonempty h && pairwise strict h) (masks (length vs)).

Definition haplotypes (strict : bool) (vs : list variant) : list (list variant) :=
  map (fun m => select m vs) (hap_masks strict vs).

(* ------------------------------------------------------------------ applying a haplotype *)
(* h sorted and pairwise compatible: reference stretches interleaved with the alternative alleles *)
Fixpoint build (t : seq) (pos : Z) (h : list variant) : seq :=
  match h with
  | [] => skipn (Z.to_nat pos) t
  | v :: h' => slice t pos (v_s v) ++ v_alt v ++ build t (v_e v) h'
  end.

Definition apply_hap (t : seq) (h : list variant) : seq := build t 0 h.

(* reference position q -> position in the haplotype sequence (records ending at or before q) *)
Fixpoint shift (h : list variant) (q : Z) : Z :=
  match h with
  | [] => q
  | v :: h' => (if v_e v <=? q then zlen (v_alt v) - (v_e v - v_s v) else 0) + shift h' q
  end.

Definition overlaps (v : variant) (a b : Z) : bool := (v_s v <? b) && (a <? v_e v).
Definition touched (h : list variant) (a b : Z) : bool := existsb (fun v => overlaps v a b) h.

(* ------------------------------------------------------------------ translation *)
Definition STOP : Z := 42.
Definition U_code : Z := 85.
Definition A_nt : Z := 65.
Definition G_nt : Z := 71.
Definition T_nt : Z := 84.

Definition codon_aa (c : seq) : Z :=
  match lookup c codon_table with Some a => a | None => X_code end.

(* codon by codon from position i (the coordinate of the first base of s in the haplotype
   sequence) to the first stop or the last complete codon; TGA at a position of secs reads U.
   Result: residues, and whether a stop codon was reached. *)
Fixpoint translate (s : seq) (i : Z) (secs : list Z) : seq * bool :=
  match s with
  | a :: b :: c :: s' =>
      let aa := codon_aa [a; b; c] in
      if aa =? STOP then
        if memZ i secs && eq_seq [a; b; c] [T_nt; G_nt; A_nt] then
          let r := translate s' (i + 3) secs in (U_code :: fst r, snd r)
        else ([], true)
      else let r := translate s' (i + 3) secs in (aa :: fst r, snd r)
  | _ => ([], false)
  end.

Definition translate_from (hs : seq) (start : Z) (secs : list Z) : seq * bool :=
  translate (skipn (Z.to_nat start) hs) start secs.

(* positions of ATG in s (i = coordinate of the first base of s) *)
Fixpoint atg_positions (s : seq) (i : Z) : list Z :=
  match s with
  | [] => []
  | a :: s' =>
      (if eq_seq (firstn 3 s) [A_nt; T_nt; G_nt] then [i] else []) ++ atg_positions s' (i + 1)
  end.

(* ------------------------------------------------------------------ digestion products *)
Definition lt_len (n : nat) (i : nat) : bool := Nat.ltb i n.

Fixpoint take_while {A} (f : A -> bool) (l : list A) : list A :=
  match l with [] => [] | x :: l' => if f x then x :: take_while f l' else [] end.

(* boundaries: 0, the cleavage sites, and -- when the last peptide is closed or kept -- the end *)
Definition bounds (r : rule) (exc : option rule) (tail : bool) (aas : seq) : list nat :=
  if tail then bounds_of r exc aas
  else 0%nat :: take_while (lt_len (length aas)) (sites r exc aas).

(* products of one translation.  nf = true: no N-terminal-Met-removed forms.
   tail = true: a translation that runs off the end keeps its last peptide. *)
Definition products (x : input) (nf tail : bool) (tr : seq * bool) : list seq :=
  let aas := fst tr in
  cleave_loop protein_weights4 water4 (in_lim x) aas nf true
              (bounds (in_rule x) (in_exc x) (tail || snd tr) aas).

(* ------------------------------------------------------------------ MAY (permitted) semantics *)
(* sub-lists of the Sec positions touched by the haplotype: each may be read as U or as stop *)
Fixpoint sublists {A} (l : list A) : list (list A) :=
  match l with
  | [] => [[]]
  | x :: l' => sublists l' ++ map (cons x) (sublists l')
  end.

Definition sec_touched (h : list variant) (p : Z) : bool := touched h p (p + 3).

Definition may_secs (x : input) (h : list variant) : list (list Z) :=
  let free := filter (fun p => negb (sec_touched h p)) (in_sec x) in
  let hit := filter (sec_touched h) (in_sec x) in
  map (fun s => map (shift h) (free ++ s)) (sublists hit).

Definition may_starts (x : input) (h : list variant) (hs : seq) : list Z :=
  if in_coding x then [shift h (in_orf x)] else atg_positions hs 0.

(* every product of haplotype h under the permitted conventions: any permitted start, Met-removed
   forms, last peptide kept, touched Sec codons read either way *)
Definition may_products (x : input) (h : list variant) : list seq :=
  let hs := apply_hap (in_tx x) h in
  flat_map (fun st =>
    flat_map (fun secs => products x false true (translate_from hs st secs)) (may_secs x h))
    (may_starts x h hs).

Definition may_set (x : input) : list seq :=
  flat_map (may_products x) (haplotypes false (in_vars x)).

(* C02 decider *)
Definition realizable (x : input) (p : seq) : bool := mem_seq p (may_set x).

(* products of the unmodified transcript (the most liberal reading: what a peptide must NOT be
   in order to be obliged) *)
Definition ref_products (x : input) : list seq := may_products x [].

(* ------------------------------------------------------------------ MUST (obliged) semantics *)
(* records the statement unambiguously covers: mapped into one exon, starting after the start
   codon (coding) / after the first three bases (non-coding), away from the end of an
   mRNA_end_NF transcript, not within one codon of an annotated Sec codon (the engine voids the Sec
   reading when the codon-aligned variant node covers it) *)
Definition must_var (x : input) (v : variant) : bool :=
  v_ok v && (v_s v <? v_e v) &&
  ((if in_coding x then in_orf x + 3 else 3) <=? v_s v) &&
  (negb (in_end_nf x) || (v_e v + 6 <=? zlen (in_tx x))) &&
  forallb (fun p => negb (overlaps v (p - 3) (p + 6))) (in_sec x).

Definition must_hap (x : input) (h : list variant) : bool := forallb (must_var x) h && no_run3 h.

Definition must_haps (x : input) : list (list variant) :=
  filter (must_hap x) (haplotypes true (in_vars x)).

Definition must_starts (x : input) (hs : seq) : list Z :=
  if in_coding x then [in_orf x] else atg_positions hs 0.

Definition must_nf (x : input) : bool := if in_coding x then in_start_nf x else true.
(* a translation that runs off the end of the transcript without meeting a stop codon: its last
   (open) peptide is obliged only on non-coding transcripts; on coding transcripts (stop-loss
   haplotypes) the statement is silent and the tool drops it -> MAY only *)
Definition must_tail (x : input) : bool := negb (in_coding x).

Definition must_products (x : input) (h : list variant) : list seq :=
  let hs := apply_hap (in_tx x) h in
  flat_map (fun st =>
    products x (must_nf x) (must_tail x) (translate_from hs st (map (shift h) (in_sec x))))
    (must_starts x hs).

Definition novel (x : input) (p : seq) : bool :=
  negb (mem_seq p (ref_products x)) && negb (mem_seq p (in_pool x)).

(* C01 decider: every peptide the statement obliges the tool to report *)
Definition must_set (x : input) : list seq :=
  filter (novel x) (flat_map (must_products x) (must_haps x)).

(* ------------------------------------------------------------------ C03: header witnesses *)
(* a header entry names records by their index in in_vars *)
Fixpoint mask_of (n : nat) (ids : list nat) (i : nat) : list bool :=
  match n with
  | O => []
  | S n' => mem_nat i ids :: mask_of n' ids (S i)
  end.

Definition named (x : input) (ids : list nat) : list variant :=
  select (mask_of (length (in_vars x)) ids 0) (in_vars x).

Definition ids_ok (x : input) (ids : list nat) : bool :=
  forallb (fun i => Nat.ltb i (length (in_vars x))) ids.

(* applying EXACTLY the named records yields a translation in which p is a digestion product *)
Definition witness_ok (x : input) (p : seq) (ids : list nat) : bool :=
  ids_ok x ids &&
  let h := named x ids in
  nonempty h && pairwise false h && mem_seq p (may_products x h).

Fixpoint entries_unique (es : list (list Z)) : bool :=
  match es with
  | [] => true
  | e :: es' => negb (mem_seq e es') && entries_unique es'
  end.

(* ------------------------------------------------------------------ D14 signature (known finding) *)
(* "exception laxity": E = rule sites suppressed by the exception.  Relaxed digestion: each
   position of E may independently count as a site or not.  Equivalently: boundaries are taken
   from sites-with-E, and only the unsuppressed sites strictly inside count as miscleavages. *)
Fixpoint count_in (l : list nat) (a b : nat) : nat :=
  match l with
  | [] => O
  | i :: l' => (if Nat.ltb a i && Nat.ltb i b then 1 else 0) + count_in l' a b
  end.

Definition relaxed_products (x : input) (nf : bool) (aas : seq) : list seq :=
  let raw := raw_sites (in_rule x) aas in
  let hard := sites (in_rule x) (in_exc x) aas in
  let bs := 0%nat :: raw ++ [length aas] in
  let k := Z.to_nat (lim_k (in_lim x)) in
  flat_map (fun a =>
    flat_map (fun b =>
      if Nat.ltb a b && Nat.leb (count_in hard a b) k then
        let p := piece aas a b in
        (if Nat.eqb a 0 && negb nf && starts_with_M p
         then update protein_weights4 water4 (in_lim x) (tl p) else [])
        ++ update protein_weights4 water4 (in_lim x) p
      else []) bs) bs.

Definition may_products_relaxed (x : input) (h : list variant) : list seq :=
  let hs := apply_hap (in_tx x) h in
  flat_map (fun st =>
    flat_map (fun secs => relaxed_products x false (fst (translate_from hs st secs))) (may_secs x h))
    (may_starts x h hs).

Definition realizable_relaxed (x : input) (p : seq) : bool :=
  existsb (fun h => mem_seq p (may_products_relaxed x h)) (haplotypes false (in_vars x)).

(* suppressed sites of a translation *)
Definition suppressed (x : input) (aas : seq) : list nat :=
  filter (fun i => negb (mem_nat i (sites (in_rule x) (in_exc x) aas))) (raw_sites (in_rule x) aas).

(* obliged products that have a derivation whose span [a,b] stays clear of every suppressed site
   (none at a-1..b+1): the engine's node-local evaluation of the exception cannot affect them *)
Definition clear_of (sup : list nat) (a b : nat) : bool :=
  forallb (fun e => Nat.ltb (S e) a || Nat.ltb (S b) e) sup.

Definition core_products_of (x : input) (nf : bool) (tr : seq * bool) (tail : bool) : list seq :=
  let aas := fst tr in
  let sup := suppressed x aas in
  let bs := bounds (in_rule x) (in_exc x) (tail || snd tr) aas in
  let hard := sites (in_rule x) (in_exc x) aas in
  let k := Z.to_nat (lim_k (in_lim x)) in
  flat_map (fun a =>
    flat_map (fun b =>
      if Nat.ltb a b && Nat.leb (count_in hard a b) k && clear_of sup a b then
        let p := piece aas a b in
        (if Nat.eqb a 0 && negb nf && starts_with_M p
         then update protein_weights4 water4 (in_lim x) (tl p) else [])
        ++ update protein_weights4 water4 (in_lim x) p
      else []) bs) bs.

Definition must_core (x : input) : list seq :=
  filter (novel x)
    (flat_map (fun h =>
       let hs := apply_hap (in_tx x) h in
       flat_map (fun st =>
         core_products_of x (must_nf x)
           (translate_from hs st (map (shift h) (in_sec x))) (must_tail x))
         (must_starts x hs))
     (must_haps x)).

(* ------------------------------------------------------------------ witnesses (diagnosis and finding signatures) *)
(* all derivations (a, b, form, peptide) of one translation: a < b boundaries with at most k
   unsuppressed sites strictly inside; form 0 = the piece, 1 = its Met-removed form *)
Definition span_products (x : input) (nf tail : bool) (tr : seq * bool)
  : list (nat * nat * Z * seq) :=
  let aas := fst tr in
  let bs := bounds (in_rule x) (in_exc x) (tail || snd tr) aas in
  let hard := sites (in_rule x) (in_exc x) aas in
  let k := Z.to_nat (lim_k (in_lim x)) in
  flat_map (fun a =>
    flat_map (fun b =>
      if Nat.ltb a b && Nat.leb (count_in hard a b) k then
        let p := piece aas a b in
        (if Nat.eqb a 0 && negb nf && starts_with_M p && keep protein_weights4 water4 (in_lim x) (tl p)
         then [(a, b, 1, tl p)] else [])
        ++ (if keep protein_weights4 water4 (in_lim x) p then [(a, b, 0, p)] else [])
      else []) bs) bs.

Record witness := mkWit { w_mask : list bool; w_start : Z; w_aas : seq; w_stopped : bool;
                          w_a : nat; w_b : nat; w_form : Z }.

Definition must_witnesses (x : input) (p : seq) : list witness :=
  flat_map (fun m =>
    let h := select m (in_vars x) in
    if must_hap x h then
      let hs := apply_hap (in_tx x) h in
      flat_map (fun st =>
        let tr := translate_from hs st (map (shift h) (in_sec x)) in
        flat_map (fun sp => match sp with (a, b, f, q) =>
                    if eq_seq p q then [mkWit m st (fst tr) (snd tr) a b f] else [] end)
                 (span_products x (must_nf x) (must_tail x) tr))
        (must_starts x hs)
    else [])
    (hap_masks true (in_vars x)).

Definition may_witnesses (x : input) (p : seq) : list witness :=
  flat_map (fun m =>
    let h := select m (in_vars x) in
    let hs := apply_hap (in_tx x) h in
    flat_map (fun st =>
      flat_map (fun secs =>
        let tr := translate_from hs st secs in
        flat_map (fun sp => match sp with (a, b, f, q) =>
                    if eq_seq p q then [mkWit m st (fst tr) (snd tr) a b f] else [] end)
                 (span_products x false true tr))
        (may_secs x h))
      (may_starts x h hs))
    (hap_masks false (in_vars x)).

(* ------------------------------------------------------------------ D14b signature: look-behind evaluated node-locally *)
(* alternatives of the rule that need no look-behind give FIRM sites; a site that exists only through an
   alternative with look-behind (trypsin's (?<=W)K(?=P), caspases, thrombin, ...) is SOFT: the engine,
   which evaluates the rule on node-local strings, may miss it.  Relaxed digestion: every rule site may
   be a boundary, only firm unsuppressed sites count as missed cleavages. *)
Definition firm_rule (r : rule) : rule :=
  filter (fun a => match before a with [] => true | _ => false end) r.

Definition firm_sites (x : input) (aas : seq) : list nat :=
  filter (fun i => mem_nat i (raw_sites (firm_rule (in_rule x)) aas)) (sites (in_rule x) (in_exc x) aas).

(* residues translated from the (up to three) codons in frame directly upstream of position st, nearest
   first: the engine digests the whole reading frame, so its look-behind also sees them *)
Definition upstream_rl (hs : seq) (st : Z) : seq :=
  flat_map (fun d => let p := st - 3 * d in
                     if 0 <=? p then [codon_aa (slice hs p (p + 3))] else []) [1; 2; 3].

Definition relaxed2_products_ctx (x : input) (nf : bool) (rl : seq) (aas : seq) : list seq :=
  let raw := raw_sites_ctx (in_rule x) rl aas [] 0 in
  let hard := firm_sites x aas in
  let bs := 0%nat :: raw ++ [length aas] in
  let k := Z.to_nat (lim_k (in_lim x)) in
  flat_map (fun a =>
    flat_map (fun b =>
      if Nat.ltb a b && Nat.leb (count_in hard a b) k then
        let p := piece aas a b in
        (if Nat.eqb a 0 && negb nf && starts_with_M p
         then update protein_weights4 water4 (in_lim x) (tl p) else [])
        ++ update protein_weights4 water4 (in_lim x) p
      else []) bs) bs.

Definition relaxed2_products (x : input) (nf : bool) (aas : seq) : list seq :=
  relaxed2_products_ctx x nf [] aas.

Definition may_products_relaxed2 (x : input) (h : list variant) : list seq :=
  let hs := apply_hap (in_tx x) h in
  flat_map (fun st =>
    flat_map (fun secs => relaxed2_products_ctx x false (upstream_rl hs st) (fst (translate_from hs st secs)))
             (may_secs x h))
    (may_starts x h hs).

(* ------------------------------------------------------------------ signature: Sec voided by a neighbouring record *)
(* the engine reads an annotated Sec codon as a stop when a record of the haplotype lies within one codon
   of it (its codon-aligned variant node reaches the Sec codon) although the codon itself is untouched *)
Definition sec_touched_wide (h : list variant) (p : Z) : bool := touched h (p - 3) (p + 6).

Definition may_secs_wide (x : input) (h : list variant) : list (list Z) :=
  let free := filter (fun p => negb (sec_touched_wide h p)) (in_sec x) in
  let hit := filter (sec_touched_wide h) (in_sec x) in
  map (fun s => map (shift h) (free ++ s)) (sublists hit).

Definition may_products_secwide (x : input) (h : list variant) : list seq :=
  let hs := apply_hap (in_tx x) h in
  flat_map (fun st =>
    flat_map (fun secs => products x false true (translate_from hs st secs)) (may_secs_wide x h))
    (may_starts x h hs).

(* all obliged derivations of any of the given peptides in ONE pass over the haplotypes (diagnosis) *)
Definition must_witnesses_of (x : input) (peps : list seq) : list (seq * witness) :=
  flat_map (fun m =>
    let h := select m (in_vars x) in
    if must_hap x h then
      let hs := apply_hap (in_tx x) h in
      flat_map (fun st =>
        let tr := translate_from hs st (map (shift h) (in_sec x)) in
        flat_map (fun sp => match sp with (a, b, f, q) =>
                    if mem_seq q peps then [(q, mkWit m st (fst tr) (snd tr) a b f)] else [] end)
                 (span_products x (must_nf x) (must_tail x) tr))
        (must_starts x hs)
    else [])
    (hap_masks true (in_vars x)).
