(* Faithful model of
     moPepGen/aa/VariantPeptideLabel.py : VariantSourceSet (to_int, __gt__/__lt__, __str__, add/validate),
                                          VariantPeptideInfo.from_variant_peptide / __eq__ / __lt__,
                                          LabelSourceMapping.get_source
     moPepGen/aa/PeptidePoolSplitter.py : __init__ (sources), append_order*, create_wildcard_map, split
     moPepGen/aa/VariantPeptidePool.py  : add_peptide(skip_checking=True) (merge by sequence)
     moPepGen/aa/PeptidePoolSummarizer.py : add_entry / increment_total (counts per source set)
     moPepGen/cli/encode_fasta.py       : the encoding loop (ids as a Section variable)
   Two layers as in Model/Filter.v: abstract (an entry = label + the facts consulted) and concrete
   (headers parsed by Model/Header.v, sources looked up in the GVF label map).  Definitions only. *)
From MoPep Require Import Model.Base Gen.HeaderCfg Model.Header Model.Filter.
Open Scope Z_scope.

(* ---- finite sets of strings as lists ---- *)
Definition subset (a b : list str) : bool := forallb (fun x => mem_seq x b) a.
Definition set_eq (a b : list str) : bool := subset a b && subset b a.
Definition set_add (x : str) (s : list str) : list str := if mem_seq x s then s else s ++ [x].
Fixpoint set_of (l : list str) : list str :=
  match l with [] => [] | x :: t => let r := set_of t in if mem_seq x r then r else x :: r end.
Definition set_len (s : list str) : Z := zlen (set_of s).

Definition s_plus : str := [43].
Definition s_star : str := [42].
Definition is_wild (x : str) : bool := eq_seq x s_plus || eq_seq x s_star.

(* ---- the order (levels_map): keys are a source name or a frozenset of names ---- *)
Inductive okey := KStr (s : str) | KSet (l : list str).
Definition levels := list (okey * Z).

Definition key_set (k : okey) : list str := match k with KStr s => [s] | KSet l => l end.

Fixpoint level_of_set (lv : levels) (S : list str) : option Z :=
  match lv with
  | [] => None
  | (KSet l, z) :: t => if set_eq l S then Some z else level_of_set t S
  | (KStr _, _) :: t => level_of_set t S
  end.
Fixpoint level_of_str (lv : levels) (s : str) : option Z :=
  match lv with
  | [] => None
  | (KStr s', z) :: t => if eq_seq s s' then Some z else level_of_str t s
  | (KSet _, _) :: t => level_of_str t s
  end.

(* sorted list of a set of ints *)
Fixpoint zinsert (x : Z) (l : list Z) : list Z :=
  match l with
  | [] => [x]
  | y :: t => if x <? y then x :: l else if x =? y then l else y :: zinsert x t
  end.
Definition zsort (l : list Z) : list Z := fold_right zinsert [] l.

(* VariantSourceSet.to_int *)
Definition to_int (lv : levels) (S : list str) : res (list Z) :=
  match level_of_set lv S with
  | Some z => Ok [z]
  | None => bind (mapM (fun s => match level_of_str lv s with Some z => Ok z | None => Err EKey end) S)
                 (fun zs => Ok (zsort zs))
  end.

Fixpoint lex_gt (a b : list Z) : bool :=
  match a, b with
  | x :: a', y :: b' => if y <? x then true else if x <? y then false else lex_gt a' b'
  | _, _ => false
  end.
(* length first, then element-wise *)
Definition ints_gt (a b : list Z) : bool :=
  if zlen b <? zlen a then true else if zlen a <? zlen b then false else lex_gt a b.

(* VariantSourceSet.__gt__ *)
Definition src_gt (lv : levels) (A B : list str) : res bool :=
  if set_eq A B then Ok false
  else bind (to_int lv A) (fun a => bind (to_int lv B) (fun b => Ok (ints_gt a b))).

(* ---- VariantPeptideInfo ---- *)
Record sinfo := mkInfo {
  si_label : str;               (* original_label = str(variant_id) *)
  si_genes : list str;          (* gene_ids *)
  si_varkeys : list str;        (* keys of variant_labels *)
  si_index : option Z;          (* variant_index *)
  si_sources : list str;        (* sources (a set) *)
}.

Fixpoint list_eq_str (a b : list str) : bool :=
  match a, b with
  | [], [] => true
  | x :: a', y :: b' => eq_seq x y && list_eq_str a' b'
  | _, _ => false
  end.
Definition optZ_eq (a b : option Z) : bool :=
  match a, b with Some x, Some y => x =? y | None, None => true | _, _ => false end.

(* VariantPeptideInfo.__eq__ *)
Definition info_eq (a b : sinfo) : bool :=
  list_eq_str (si_genes a) (si_genes b) && set_eq (si_varkeys a) (si_varkeys b)
  && optZ_eq (si_index a) (si_index b) && set_eq (si_sources a) (si_sources b).

(* __lt__ = not (self > other or self == other) *)
Definition info_lt (lv : levels) (a b : sinfo) : res bool :=
  bind (src_gt lv (si_sources a) (si_sources b)) (fun g => Ok (negb (g || info_eq a b))).

(* list.sort() observed through __lt__: an insertion sort.  Only what every comparison sort
   guarantees for this comparison is claimed in the theorems (permutation; non-decreasing in the
   source order); the relative order of entries whose source sets are equal is NOT claimed. *)
Fixpoint insert_info (lv : levels) (x : sinfo) (l : list sinfo) : res (list sinfo) :=
  match l with
  | [] => Ok [x]
  | y :: t => bind (info_lt lv x y) (fun b =>
              if b then Ok (x :: l) else bind (insert_info lv x t) (fun r => Ok (y :: r)))
  end.
Fixpoint sort_infos (lv : levels) (l : list sinfo) : res (list sinfo) :=
  match l with
  | [] => Ok []
  | x :: t => bind (sort_infos lv t) (fun s => insert_info lv x s)
  end.

(* ---- wildcard map ---- *)
Definition key_has_wild (k : okey) : bool := existsb is_wild (key_set k).
Definition key_both_wild (k : okey) : bool :=
  mem_seq s_plus (key_set k) && mem_seq s_star (key_set k).

(* does the wildcard-map entry generated for key k (with all known sources `all`) have S as key? *)
Definition key_matches (all : list str) (k : okey) (S : list str) : bool :=
  let ks := key_set k in
  if negb (key_has_wild k) then set_eq ks S
  else
    let base := filter (fun x => negb (is_wild x)) ks in
    let indiv := filter (fun x => negb (mem_seq x ks)) (set_of all) in
    let extra := filter (fun x => negb (mem_seq x base)) (set_of S) in
    let start := if mem_seq s_star ks then 0 else 1 in
    subset base S && subset extra indiv && (start <=? zlen extra) &&
    (if cfg_wild_upper_exclusive then zlen extra <? zlen indiv else zlen extra <=? zlen indiv).

(* SPEC (--order-source help text): "SNV-*" matches every peptide with SNV with or without other
   sources, "SNV-+" every peptide with SNV and at least one other source *)
Definition spec_key_matches (k : okey) (S : list str) : bool :=
  let ks := key_set k in
  if negb (key_has_wild k) then set_eq ks S
  else
    let base := filter (fun x => negb (is_wild x)) ks in
    let extra := filter (fun x => negb (mem_seq x base)) (set_of S) in
    subset base S && ((if mem_seq s_star ks then 0 else 1) <=? zlen extra).

(* keys sorted by level (stable) *)
Fixpoint kinsert (kv : okey * Z) (l : levels) : levels :=
  match l with
  | [] => [kv]
  | y :: t => if snd kv <? snd y then kv :: l else y :: kinsert kv t
  end.
Definition by_level (lv : levels) : levels := fold_right kinsert [] lv.

(* wildcard_map.get(frozenset(sources)) : first matching key in level order *)
Definition wild_lookup (lv : levels) (all : list str) (S : list str) : option (list str) :=
  match find (fun kv => key_matches all (fst kv) S) (by_level lv) with
  | Some (k, _) => Some (key_set k)
  | None => None
  end.

(* create_wildcard_map raises ValueError when a key holds both '+' and '*' *)
Definition wild_ok (lv : levels) : bool := negb (existsb (fun kv => key_both_wild (fst kv)) lv).

(* VariantSourceSet(sources): every element except '+', '*' must have a level *)
Definition validate_set (lv : levels) (S : list str) : res (list str) :=
  if forallb (fun x => is_wild x || match level_of_str lv x with Some _ => true | None => false end) S
  then Ok S else Err EValue.

(* ---- split ---- *)
Record scfg := mkCfg {
  c_levels : levels;               (* self.order after append_order_internal_sources *)
  c_all : list str;                (* self.sources *)
  c_max_groups : Z;
  c_additional : list (list str);  (* --additional-split sets *)
}.

Definition s_ALL : str := [65;76;76].
Definition s_PLUS : str := [80;76;85;83].
Definition s_additional : str := [97;100;100;105;116;105;111;110;97;108].
Definition s_Remaining : str := [82;101;109;97;105;110;105;110;103].

(* VariantSourceSet.__str__ *)
Definition set_str (lv : levels) (S : list str) : str :=
  let names := flat_map (fun kv => match fst kv with
                                   | KStr x => if mem_seq x S && negb (is_wild x) then [x] else []
                                   | KSet _ => [] end) (by_level lv) in
  join cfg_key_sep (names ++ (if mem_seq s_star S then [s_ALL] else if mem_seq s_plus S then [s_PLUS] else [])).

Definition db_key (c : scfg) (S : list str) : str :=
  if set_len S <=? c_max_groups c then set_str (c_levels c) S
  else match find (fun a => subset a S) (c_additional c) with
       | Some a => set_str (c_levels c) a ++ [cfg_key_sep] ++ s_additional
       | None => s_Remaining
       end.

(* try: info.sources = VariantSourceSet(wildcard_map[frozenset(info.sources)]) except KeyError: pass *)
Definition map_wild (c : scfg) (e : sinfo) : res sinfo :=
  match wild_lookup (c_levels c) (c_all c) (si_sources e) with
  | None => Ok e
  | Some K => bind (validate_set (c_levels c) K) (fun S' =>
              Ok (mkInfo (si_label e) (si_genes e) (si_varkeys e) (si_index e) S'))
  end.

Definition spep := (seq * list sinfo)%type.

(* one peptide: returns (database key, (sequence, sorted entries)) *)
Definition split_pep (c : scfg) (p : spep) : res (str * spep) :=
  bind (mapM (map_wild c) (snd p)) (fun es =>
  bind (sort_infos (c_levels c) es) (fun sorted =>
    match sorted with
    | [] => Err EIndex                       (* peptide_infos[0] *)
    | h :: _ => Ok (db_key c (si_sources h), (fst p, sorted))
    end)).

(* the databases: key -> peptides, keys in order of first use *)
Fixpoint db_add {A} (k : str) (x : A) (dbs : list (str * list A)) : list (str * list A) :=
  match dbs with
  | [] => [(k, [x])]
  | (k', l) :: t => if eq_seq k k' then (k', l ++ [x]) :: t else (k', l) :: db_add k x t
  end.
Definition group_by_key {A} (l : list (str * A)) : list (str * list A) :=
  fold_left (fun dbs kx => db_add (fst kx) (snd kx) dbs) l [].

Definition split_assign (c : scfg) (pool : list spep) : res (list (str * spep)) :=
  if negb (wild_ok (c_levels c)) then Err EValue
  else bind (mapM (validate_set (c_levels c)) (c_additional c)) (fun _ =>
       mapM (split_pep c) (dedup pool)).

Definition split_pool (c : scfg) (pool : list spep) : res (list (str * list spep)) :=
  bind (split_assign c pool) (fun a => Ok (group_by_key a)).

(* ---- merge: load_database / mergeFasta ---- *)
(* pool.add_peptide(peptide, skip_checking=True): same sequence -> description += ' ' + new label *)
Fixpoint pool_add {A} (p : seq * list A) (pool : list (seq * list A)) : list (seq * list A) :=
  match pool with
  | [] => [p]
  | q :: t => if eq_seq (fst q) (fst p) then (fst q, snd q ++ snd p) :: t else q :: pool_add p t
  end.
(* the first file is loaded as is (set: first record of a sequence wins), later files are added *)
Definition merge_files {A} (files : list (list (seq * list A))) : list (seq * list A) :=
  match files with
  | [] => []
  | f :: rest => fold_left (fun pool g => fold_left (fun pl p => pool_add p pl) (dedup g) pool) rest (dedup f)
  end.

(* ---- summarize ---- *)
(* data: source set -> n_total *)
Fixpoint count_add (S : list str) (t : list (list str * Z)) : list (list str * Z) :=
  match t with
  | [] => [(S, 1)]
  | (K, n) :: r => if set_eq K S then (K, n + 1) :: r else (K, n) :: count_add S r
  end.

(* add_entry: from_variant_peptide WITHOUT wildcard map; sort; sources of the first entry *)
Definition summary_key (lv : levels) (p : spep) : res (list str) :=
  bind (sort_infos lv (snd p)) (fun sorted =>
    match sorted with [] => Err EIndex | h :: _ => Ok (si_sources h) end).

Definition summarize (lv : levels) (pool : list spep) : res (list (list str * Z)) :=
  bind (mapM (summary_key lv) (dedup pool)) (fun ks => Ok (fold_left (fun t S => count_add S t) ks [])).

Definition total_of (t : list (list str * Z)) : Z := fold_right (fun kn acc => snd kn + acc) 0 t.
Fixpoint count_of (S : list str) (t : list (list str * Z)) : Z :=
  match t with [] => 0 | (K, n) :: r => if set_eq K S then n else count_of S r end.

(* ---- encode / decode ---- *)
Section Encode.
  Variable fresh : nat -> str.          (* the n-th uuid4 drawn *)
  Variable decoy : str.                 (* --decoy-string *)
  Variable suffix : bool.               (* --decoy-string-position suffix *)

  Definition is_decoy (h : str) : bool :=
    if suffix then starts_with (rev decoy) (rev h) else starts_with decoy h.
  Definition real_header (h : str) : str :=
    if suffix then (if is_empty decoy then [] else firstn (length h - length decoy) h)   (* header[:-len(decoy)] *)
    else skipn (length decoy) h.
  Definition decoy_header (h : str) : str := if suffix then h ++ decoy else decoy ++ h.

  Fixpoint dict_find (h : str) (d : list (str * str)) : option str :=   (* id_mapper[header] *)
    match d with [] => None | (i, h') :: t => if eq_seq h h' then Some i else dict_find h t end.
  Fixpoint dict_get (i : str) (d : list (str * str)) : option str :=    (* the .dict file read back *)
    match d with [] => None | (i', h) :: t => if eq_seq i i' then Some h else dict_get i t end.

  (* one record: returns (new header, dict, number of ids drawn) *)
  Definition encode_one (st : list (str * str) * nat) (h : str) : str * (list (str * str) * nat) :=
    let (d, n) := st in
    let dec := is_decoy h in
    let real := if dec then real_header h else h in
    let (idx, st') := match dict_find real d with
                      | Some i => (i, (d, n))
                      | None => (fresh n, (d ++ [(fresh n, real)], S n))
                      end in
    ((if dec then decoy_header idx else idx), st').

  Fixpoint encode_loop (st : list (str * str) * nat) (hs : list str) : list str * list (str * str) :=
    match hs with
    | [] => ([], fst st)
    | h :: t => let (h', st') := encode_one st h in
                let (r, d) := encode_loop st' t in (h' :: r, d)
    end.
  Definition encode (hs : list str) : list str * list (str * str) := encode_loop ([], O) hs.

  (* restoring a header from the dictionary *)
  Definition decode (d : list (str * str)) (e : str) : option str :=
    if is_decoy e then option_map decoy_header (dict_get (real_header e) d) else dict_get e d.
End Encode.

Fixpoint assoc_str_g (k : str) (l : list (str * str)) : option str :=
  match l with [] => None | (k', v) :: t => if eq_seq k k' then Some v else assoc_str_g k t end.

(* ---- construction of the order: __init__, load_gvf/append_order, append_order_internal_sources ---- *)
Definition okey_eq (a b : okey) : bool :=
  match a, b with
  | KStr x, KStr y => eq_seq x y
  | KSet x, KSet y => set_eq x y
  | _, _ => false
  end.
Definition in_order (k : okey) (lv : levels) : bool := existsb (fun kv => okey_eq k (fst kv)) lv.
Definition max_level (lv : levels) : Z := fold_right (fun kv m => Z.max (snd kv) m) (-1) lv.

(* state: (order, sources) *)
Definition append_order (group : list (str * str)) (st : levels * list str) (source : str) : levels * list str :=
  let (lv, all) := st in
  if in_order (KStr source) lv then st
  else let source' := match assoc_str_g source group with Some g => g | None => source end in
       if in_order (KStr source') lv then st
       else (lv ++ [(KStr source', match lv with [] => 0 | _ => max_level lv + 1 end)], set_add source' all).

Definition internal_sources : list str :=
  [cfg_source_novel_orf; cfg_source_sect; cfg_source_codon_reassign].

(* PeptidePoolSplitter.__init__: `isinstance(sources, str)` tests the constructor argument (None), so a
   plain source name is iterated character by character *)
Definition init_sources (order : list okey) : list str :=
  fold_left (fun all k => match k with
                          | KStr s => if cfg_init_sources_by_char
                                      then fold_left (fun a ch => set_add [ch] a) s all
                                      else (if is_wild s then all else set_add s all)
                          | KSet l => fold_left (fun a x => if is_wild x then a else set_add x a) l all
                          end) order [].

Fixpoint enumerate_from {A} (n : Z) (l : list A) : list (A * Z) :=
  match l with [] => [] | x :: t => (x, n) :: enumerate_from (n + 1) t end.

Definition mk_order (order : list okey) (group : list (str * str)) (gvf_sources : list str) : levels * list str :=
  let st0 := (enumerate_from 0 order, init_sources order) in
  let st1 := fold_left (append_order group) gvf_sources st0 in
  fold_left (fun st s =>
               let s' := match assoc_str_g s group with Some g => g | None => s end in
               if in_order (KStr s') (fst st) then st else append_order group st s')
            internal_sources st1.

(* ---- concrete layer ---- *)
Record env := mkEnv {
  v_tx2gene : list (str * str);
  v_labels : list (str * str * str);     (* (gene, variant id, source) in GVF order; first wins *)
  v_group : list (str * str);            (* source -> group *)
}.

Fixpoint assoc_str (k : str) (l : list (str * str)) : option str :=
  match l with [] => None | (k', v) :: t => if eq_seq k k' then Some v else assoc_str k t end.
Fixpoint label_source (g v : str) (l : list (str * str * str)) : option str :=
  match l with
  | [] => None
  | (g', v', s) :: t => if eq_seq g g' && eq_seq v v' then Some s else label_source g v t
  end.

(* VariantSourceSet.add(element, group_map) *)
Definition src_add (en : env) (lv : levels) (x : str) (S : list str) : res (list str) :=
  let x' := match assoc_str x (v_group en) with Some g => g | None => x end in
  match level_of_str lv x' with
  | Some _ => Ok (set_add x' S)
  | None => Err EValue                    (* validate: No defined level found *)
  end.

Definition var_source (en : env) (lv : levels) (gene v : str) (S : list str) : res (list str) :=
  let ty := hd [] (split_on c_dash v) in
  if eq_seq ty cfg_sect_type then src_add en lv cfg_source_sect S
  else if mem_seq ty cfg_codon_reassign_types then src_add en lv cfg_source_codon_reassign S
  else match label_source gene v (v_labels en) with
       | Some s => src_add en lv s S
       | None => Err ESource
       end.

Fixpoint vars_sources (en : env) (lv : levels) (gene : str) (vs : list str) (S : list str) : res (list str) :=
  match vs with
  | [] => Ok S
  | v :: t => bind (var_source en lv gene v S) (fun S' => vars_sources en lv gene t S')
  end.

Definition tx_gene (en : env) (tx : str) : res str :=
  match assoc_str tx (v_tx2gene en) with Some g => Ok g | None => Err EKey end.

(* from_variant_peptide for one identifier (check_source=True), before the wildcard map *)
Definition info_of_ident (en : env) (lv : levels) (i : ident) : res sinfo :=
  let label := print_ident i in
  let S0 := [] in
  let with_orf (k : list str -> res sinfo) : res sinfo :=
      match i_orf i with
      | Some _ => bind (src_add en lv cfg_source_novel_orf S0) k
      | None => k S0
      end in
  match i_kind i with
  | KNovel =>
      let g := match i_gene i with Some g => g | None => [] end in
      with_orf (fun S => bind (vars_sources en lv g (i_v1 i) S) (fun S' =>
        Ok (mkInfo label [g] [g] (i_index i) S')))
  | KCirc =>
      bind (circ_tx_id (i_backbone i)) (fun txs =>
      bind (tx_gene en (hd [] txs)) (fun g =>
      with_orf (fun S => bind (vars_sources en lv g (i_backbone i :: i_v1 i) S) (fun S' =>
        Ok (mkInfo label [g] [g] (i_index i) S')))))
  | KFusion =>
      bind (fusion_tx_ids (i_backbone i)) (fun txs =>
      bind (tx_gene en (nth 0 txs [])) (fun g1 =>
      bind (tx_gene en (nth 1 txs [])) (fun g2 =>
      with_orf (fun S =>
        bind (vars_sources en lv g1 (i_v1 i ++ [i_backbone i] ++ i_v0 i) S) (fun S1 =>
        bind (vars_sources en lv (if eq_seq g2 g1 then g1 else g2) (i_v2 i) S1) (fun S2 =>
          Ok (mkInfo label [g1; g2] (if eq_seq g2 g1 then [g1] else [g1; g2]) (i_index i) S2)))))))
  | KBase =>
      bind (tx_gene en (i_backbone i)) (fun g =>
      with_orf (fun S => bind (vars_sources en lv g (i_v1 i) S) (fun S' =>
        Ok (mkInfo label [g] [g] (i_index i) S'))))
  end.

Definition infos_of_header (en : env) (lv : levels) (hdr : str) : res (list sinfo) :=
  bind (parse_label hdr) (fun ids => mapM (info_of_ident en lv) ids).

Definition split_pep_c (en : env) (c : scfg) (p : cpep) : res (str * (seq * list str)) :=
  bind (infos_of_header en (c_levels c) (snd p)) (fun es =>
  bind (split_pep c (fst p, es)) (fun r =>
    Ok (fst r, (fst (snd r), map si_label (snd (snd r)))))).

(* per-peptide outcome with the data the harness checks: key, sequence, sorted labels and the rank
   (to_int) of each sorted entry *)
Definition split_pep_full (en : env) (c : scfg) (p : cpep)
  : res (str * (seq * list (str * list Z))) :=
  bind (infos_of_header en (c_levels c) (snd p)) (fun es =>
  bind (split_pep c (fst p, es)) (fun r =>
  bind (mapM (fun e => bind (to_int (c_levels c) (si_sources e)) (fun z => Ok (si_label e, z))) (snd (snd r))) (fun lz =>
    Ok (fst r, (fst (snd r), lz))))).

(* PeptidePoolSummarizer.update_label_map uses LabelSourceMapping.add_record: on the unchanged tree it
   OVERWRITES, so the LAST GVF naming a (gene, variant id) wins (splitFasta: add_variant, the first wins) *)
Definition summary_env (en : env) : env :=
  if cfg_summary_last_wins then mkEnv (v_tx2gene en) (rev (v_labels en)) (v_group en) else en.

Definition summary_key_c (en : env) (lv : levels) (p : cpep) : res (list str) :=
  bind (infos_of_header en lv (snd p)) (fun es => summary_key lv (fst p, es)).
