(* C15 (parser half): faithful model (Level F) of
     parser/{STARFusionParser,FusionCatcherParser,ArribaParser}.py : convert_to_variant_records
     cli/{parse_star_fusion,parse_fusion_catcher,parse_arriba}.py  : evidence filters, skip counting
     gtf: get_transcripts_with_position, coordinate_genomic_to_gene, is_exonic, get_upstream_exon_end,
          get_downstream_exon_start
     seqvar/VariantRecord.py : shift_breakpoint_to_closest_exon, fusion branch of to_transcript_variant
   plus the declarative fusion transcript (fused_seq).  Definitions only.
   Genes, transcripts, exon lists, g2gene, tx_seq, gene_seq, gene2tx are those of Model/Rmats.v. *)
From MoPep Require Import Model.Base Model.Rmats.
Open Scope Z_scope.

Inductive tool := Star | FC | Arriba.
Inductive ferr := FGeneNotFound | FValue | FIndex.
Inductive fres (A : Type) := FOk (a : A) | FErr (e : ferr).
Arguments FOk {A} a. Arguments FErr {A} e.
Definition fbind {A B} (r : fres A) (f : A -> fres B) : fres B :=
  match r with FOk a => f a | FErr e => FErr e end.
Notation "'fdo' x <- r ; k" := (fbind r (fun x => k)) (at level 200, x name, r at level 100, k at level 200).

(* a gene of the world with the index of its chromosome *)
Record wgene := mkW { w_gene : gene; w_chrom : Z }.

(* one Fusion VariantRecord: donor / accepter transcript index, POS (0-based gene coordinate, first base after the
   breakpoint), ACCEPTER_POSITION (0-based gene coordinate of the first accepter base), REF *)
Record frec := mkF { f_dtx : Z; f_atx : Z; f_pos : Z; f_apos : Z; f_ref : Z }.

Definition lift {A} (r : res A) : fres A :=
  match r with Ok a => FOk a | Err EIndex => FErr FIndex | Err _ => FErr FValue end.

Definition lookup_gene (genes : list wgene) (i : Z) : fres wgene :=    (* anno.genes[gene_id]; i < 0 = unknown id *)
  if i <? 0 then FErr FGeneNotFound else
  match nth_error genes (Z.to_nat i) with Some g => FOk g | None => FErr FGeneNotFound end.

(* get_transcripts_with_position: transcripts with exons whose span contains pos *)
Fixpoint txs_with_position (l : list tx) (pos : Z) (i : Z) : list Z :=
  match l with
  | [] => []
  | t :: rest =>
      (if nonempty (t_exons t) && (t_start t <=? pos) && (pos <? t_end t) then [i] else []) ++
      txs_with_position rest pos (i + 1)
  end.

(* REF: STAR-Fusion reads seq[left_breakpoint + 1], the other two seq[left_breakpoint] (plus strand);
   minus strand: seq[L:L+1].reverse_complement() which is '' beyond the chromosome end *)
Definition ref_base (t : tool) (strand : Z) (chrom : list Z) (L : Z) : fres (option Z) :=
  if strand =? 1 then
    let i := match t with Star => L + 1 | _ => L end in
    match nthZ chrom i with Some c => FOk (Some c) | None => FErr FIndex end
  else
    match nthZ chrom L with Some c => FOk (Some (comp c)) | None => FOk None end.

Fixpoint product (a b : list Z) : list (Z * Z) :=
  match a with [] => [] | x :: t => map (fun y => (x, y)) b ++ product t b end.

(* the loop: VariantRecord(...) raises ValueError when ref is '' *)
Definition build (pairs : list (Z * Z)) (pos apos : Z) (ref : option Z) : fres (list frec) :=
  match pairs with
  | [] => FOk []
  | _ => match ref with
         | None => FErr FValue
         | Some c => FOk (map (fun p => mkF (fst p) (snd p) pos apos c) pairs)
         end
  end.

Definition chrom_of (chroms : list (list Z)) (i : Z) : list Z := nth (Z.to_nat i) chroms [].

(* convert_to_variant_records; L, R are the 1-based breakpoints of the row.  The three tools differ in the order of
   the look-ups (hence in which exception wins) and in REF. *)
Definition convert (t : tool) (genes : list wgene) (chroms : list (list Z)) (dg ag L R : Z) : fres (list frec) :=
  match t with
  | Star =>
      fdo d <- lookup_gene genes dg;
      fdo dp <- lift (g2gene (w_gene d) (L - 1));
      let dtx := txs_with_position (g_txs (w_gene d)) (L - 1) 0 in
      fdo a <- lookup_gene genes ag;
      fdo ap <- lift (g2gene (w_gene a) (R - 1));
      let atx := txs_with_position (g_txs (w_gene a)) (R - 1) 0 in
      fdo ref <- ref_base t (g_strand (w_gene d)) (chrom_of chroms (w_chrom d)) L;
      build (product dtx atx) (dp + 1) ap ref
  | FC =>
      fdo d <- lookup_gene genes dg;
      fdo a <- lookup_gene genes ag;
      fdo dp <- lift (g2gene (w_gene d) (L - 1));
      fdo ap <- lift (g2gene (w_gene a) (R - 1));
      let dtx := txs_with_position (g_txs (w_gene d)) (L - 1) 0 in
      let atx := txs_with_position (g_txs (w_gene a)) (R - 1) 0 in
      fdo ref <- ref_base t (g_strand (w_gene d)) (chrom_of chroms (w_chrom d)) L;
      build (product dtx atx) (dp + 1) ap ref
  | Arriba =>
      fdo d <- lookup_gene genes dg;
      fdo a <- lookup_gene genes ag;
      fdo dp <- lift (g2gene (w_gene d) (L - 1));
      let dtx := txs_with_position (g_txs (w_gene d)) (L - 1) 0 in
      fdo ap <- lift (g2gene (w_gene a) (R - 1));
      let atx := txs_with_position (g_txs (w_gene a)) (R - 1) 0 in
      fdo ref <- ref_base t (g_strand (w_gene d)) (chrom_of chroms (w_chrom d)) L;
      build (product dtx atx) (dp + 1) ap ref
  end.

(* ------------------------------------------------------------------ CLI loops *)
(* a row: gene indices (-1 unknown), breakpoints, evidence e1 e2 e3 and Arriba's fusion-strand fields
   star: e1 = est_J x 100 ; fc: e1 = common mapping reads, e2 = spanning unique reads ;
   arriba: e1, e2 = split reads 1/2, e3 = confidence (0 low, 1 medium, 2 high), s1 s2 = fusion strands (1,-1,0) *)
Record row := mkRow { r_dg : Z; r_ag : Z; r_L : Z; r_R : Z; r_e1 : Z; r_e2 : Z; r_e3 : Z; r_s1 : Z; r_s2 : Z }.
(* thresholds: star o1 = min_est_j x 100 ; fc o1 = max_common_mapping, o2 = min_spanning_unique ;
   arriba o1 o2 = min split reads, o3 = min confidence *)
Record opts := mkOpts { o_1 : Z; o_2 : Z; o_3 : Z; o_skip_failed : bool }.
Record tally := mkT { t_total : Z; t_succeed : Z; t_insufficient : Z; t_invalid_gene : Z; t_invalid_pos : Z; t_antisense : Z }.
Definition t_skipped (t : tally) : Z := t_insufficient t + t_invalid_gene t + t_invalid_pos t + t_antisense t.

Inductive verdict := Insufficient | InvalidGene | Antisense | Go.

Definition known (genes : list wgene) (i : Z) : bool :=
  match lookup_gene genes i with FOk _ => true | FErr _ => false end.
Definition strand_of (genes : list wgene) (i : Z) : Z :=
  match lookup_gene genes i with FOk g => g_strand (w_gene g) | FErr _ => 0 end.

Definition prefilter (t : tool) (genes : list wgene) (o : opts) (r : row) : verdict :=
  match t with
  | Star => if r_e1 r <? o_1 o then Insufficient else Go
  | FC => if (r_e1 r >? o_1 o) || (r_e2 r <? o_2 o) then Insufficient else Go
  | Arriba =>
      if negb (known genes (r_dg r)) || negb (known genes (r_ag r)) then InvalidGene
      else if negb ((r_e1 r >=? o_1 o) && (r_e2 r >=? o_2 o) && (r_e3 r >=? o_3 o)) then Insufficient
      else if negb (r_s1 r =? strand_of genes (r_dg r)) || negb (r_s2 r =? strand_of genes (r_ag r)) then Antisense
      else Go
  end.

Definition bump (t : tally) (what : Z) : tally :=   (* 0 succeed 1 insufficient 2 invalid gene 3 invalid pos 4 antisense *)
  mkT (t_total t + 1)
      (t_succeed t + (if what =? 0 then 1 else 0)) (t_insufficient t + (if what =? 1 then 1 else 0))
      (t_invalid_gene t + (if what =? 2 then 1 else 0)) (t_invalid_pos t + (if what =? 3 then 1 else 0))
      (t_antisense t + (if what =? 4 then 1 else 0)).

(* the for-loop of parse_<tool>: Err = the exception that escapes (re-raised when --skip-failed is off) *)
Fixpoint cli_loop (t : tool) (genes : list wgene) (chroms : list (list Z)) (o : opts) (rows : list row)
         (acc : list (row * frec)) (tl : tally) : fres (list (row * frec) * tally) :=
  match rows with
  | [] => FOk (acc, tl)
  | r :: rest =>
      match prefilter t genes o r with
      | Insufficient => cli_loop t genes chroms o rest acc (bump tl 1)
      | InvalidGene => cli_loop t genes chroms o rest acc (bump tl 2)
      | Antisense => cli_loop t genes chroms o rest acc (bump tl 4)
      | Go =>
          match convert t genes chroms (r_dg r) (r_ag r) (r_L r) (r_R r) with
          | FOk recs => cli_loop t genes chroms o rest (acc ++ map (fun x => (r, x)) recs) (bump tl 0)
          | FErr FGeneNotFound => cli_loop t genes chroms o rest acc (bump tl 2)
          | FErr e => if o_skip_failed o then cli_loop t genes chroms o rest acc (bump tl 3) else FErr e
          end
      end
  end.

Definition tally0 : tally := mkT 0 0 0 0 0 0.
Definition cli (t : tool) genes chroms o rows := cli_loop t genes chroms o rows [] tally0.

(* ------------------------------------------------------------------ declarative fusion transcript *)
(* genomic positions <= p of a transcript, extended through the intron up to p when p is intronic *)
Fixpoint clip_upto (ex : list exon) (p : Z) : list exon :=
  match ex with
  | [] => []
  | x :: t =>
      if p <? fst x then []
      else match t with
           | y :: _ => if p <? fst y then [(fst x, p + 1)] else x :: clip_upto t p
           | [] => [(fst x, p + 1)]
           end
  end.
(* genomic positions >= p, extended backwards through the intron down to p when p is intronic *)
Fixpoint clip_from (ex : list exon) (p : Z) : list exon :=
  match ex with
  | [] => []
  | x :: t => if p <? snd x then (p, snd x) :: t else clip_from t p
  end.

(* p, q: 0-based genomic positions of the last donor base and of the first accepter base *)
Definition donor_part (strand : Z) (chrom : list Z) (ex : list exon) (p : Z) : list Z :=
  if strand =? 1 then exons_seq chrom (clip_upto ex p) else revcomp (exons_seq chrom (clip_from ex p)).
Definition accepter_part (strand : Z) (chrom : list Z) (ex : list exon) (q : Z) : list Z :=
  if strand =? 1 then exons_seq chrom (clip_from ex q) else revcomp (exons_seq chrom (clip_upto ex q)).
Definition fused_seq (ds : Z) (dchrom : list Z) (dex : list exon) (p : Z)
                     (as_ : Z) (achrom : list Z) (aex : list exon) (q : Z) : list Z :=
  donor_part ds dchrom dex p ++ accepter_part as_ achrom aex q.

(* ------------------------------------------------------------------ GVF semantics of a Fusion record *)
(* as callVariant reads it: shift_breakpoint_to_closest_exon, then the fusion branch of to_transcript_variant *)
Definition is_exonic (ex : list exon) (pos : Z) : bool := existsb (fun x => inside x pos) ex.

Fixpoint upstream_end_plus (ex : list exon) (pos : Z) (ind : option Z) : option Z :=
  match ex with [] => ind | x :: t => if snd x >? pos then ind else upstream_end_plus t pos (Some (snd x - 1)) end.
Fixpoint upstream_end_minus (rex : list exon) (pos : Z) (ind : option Z) : option Z :=   (* rex = reversed exons *)
  match rex with [] => ind | x :: t => if fst x <? pos then ind else upstream_end_minus t pos (Some (fst x)) end.
Definition upstream_exon_end (strand : Z) (ex : list exon) (pos : Z) : option Z :=
  if strand =? 1 then upstream_end_plus ex pos None else upstream_end_minus (rev ex) pos None.

Fixpoint downstream_start_plus (ex : list exon) (pos : Z) : option Z :=
  match ex with [] => None | x :: t => if fst x >=? pos then Some (fst x) else downstream_start_plus t pos end.
Fixpoint downstream_start_minus (rex : list exon) (pos : Z) : option Z :=
  match rex with [] => None | x :: t => if snd x - 1 <=? pos then Some (snd x - 1) else downstream_start_minus t pos end.
Definition downstream_exon_start (strand : Z) (ex : list exon) (pos : Z) : option Z :=
  if strand =? 1 then downstream_start_plus ex pos else downstream_start_minus (rev ex) pos.

Definition gene2genomic (g : gene) (i : Z) : Z := if g_strand g =? 1 then g_start g + i else g_end g - 1 - i.
Definition genomic2gene (g : gene) (x : Z) : Z := if g_strand g =? 1 then x - g_start g else g_end g - 1 - x.

(* donor side: (transcript cut index, retained intron as a gene interval) *)
Definition donor_side (g : gene) (ex : list exon) (pos : Z) : option (Z * (Z * Z)) :=
  let conv := gene2tx (g_strand g) (g_start g) (g_end g) ex in
  let lb := gene2genomic g (pos - 1) in
  if is_exonic ex lb then
    match conv (pos - 1) with Some i => Some (i + 1, (0, 0)) | None => None end
  else
    match upstream_exon_end (g_strand g) ex lb with
    | None => None
    | Some ue =>
        let lis := genomic2gene g ue + 1 in
        match conv (lis - 1) with Some i => Some (i + 1, (lis, pos)) | None => None end
    end.
(* accepter side: (retained intron as a gene interval, transcript start index) *)
Definition accepter_side (g : gene) (ex : list exon) (apos : Z) : option ((Z * Z) * Z) :=
  let conv := gene2tx (g_strand g) (g_start g) (g_end g) ex in
  let rb := gene2genomic g apos in
  if is_exonic ex rb then
    match conv apos with Some i => Some ((0, 0), i) | None => None end
  else
    match downstream_exon_start (g_strand g) ex rb with
    | None => None
    | Some des =>
        let rie := genomic2gene g des in
        match conv rie with Some i => Some ((apos, rie), i) | None => None end
    end.

(* the backbone a Fusion record denotes: donor transcript prefix ++ left intron ++ right intron ++ accepter suffix *)
Definition fusion_apply (dg : gene) (dchrom : list Z) (dex : list exon)
                        (ag : gene) (achrom : list Z) (aex : list exon) (r : frec) : option (list Z) :=
  match donor_side dg dex (f_pos r), accepter_side ag aex (f_apos r) with
  | Some (cut, (lis, lie)), Some ((ris, rie), from) =>
      Some (take (tx_seq (g_strand dg) dchrom dex) cut ++
            slice (gene_seq (g_strand dg) dchrom (g_start dg) (g_end dg)) lis lie ++
            slice (gene_seq (g_strand ag) achrom (g_start ag) (g_end ag)) ris rie ++
            drop (tx_seq (g_strand ag) achrom aex) from)
  | _, _ => None
  end.
