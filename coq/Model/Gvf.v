(* C13 -- faithful model (Level F) of the GVF codec and of index-based access.

   moPepGen/seqvar/VariantRecord.py   to_string, info
   moPepGen/seqvar/io.py              parse_attrs, line_to_variant_record
   moPepGen/circ/CircRNA.py           CircRNAModel.to_string
   moPepGen/circ/io.py                line_to_circ_model
   moPepGen/seqvar/GVFIndex.py        iterate_pointer, GVFPointer.__iter__/load/to_line/parse
   moPepGen/seqvar/VariantRecordPoolOnDisk.py   load_index/generate_index, validate_gvf_index,
                                      the pointer-gathering loop of __getitem__
   moPepGen/cli/index_gvf.py          index_gvf

   Text is modelled at CHARACTER level: a line is a list of code points, and the Python string
   primitives the code uses (rstrip, strip, split, join, upper, str(int), int(str)) are modelled
   here as well, so that tokenisation is part of the model and of the theorems.
   Definitions only; proofs are in Proofs/GvfProofs.v. *)
From MoPep Require Import Model.Base.
From Coq Require Import Decimal DecimalZ.
Open Scope Z_scope.

(* ------------------------------------------------------------------ *)
(* Python exceptions                                                  *)
Inductive err := EValue | EKey | EIndex | EType | EUnicode.   (* UnicodeDecodeError *)
Inductive res (A : Type) := Ok (a : A) | Err (e : err).
Arguments Ok {A} a. Arguments Err {A} e.

Definition bind {A B} (x : res A) (f : A -> res B) : res B :=
  match x with Ok a => f a | Err e => Err e end.
Notation "x <- a ;; b" := (bind a (fun x => b)) (at level 61, a at next level, right associativity).

Fixpoint map_res {A B} (f : A -> res B) (l : list A) : res (list B) :=
  match l with
  | [] => Ok []
  | x :: t => y <- f x ;; ys <- map_res f t ;; Ok (y :: ys)
  end.

(* ------------------------------------------------------------------ *)
(* Python string primitives                                           *)

(* str.isspace() / the default strip set of str.rstrip() *)
Definition is_ws (c : Z) : bool :=
  ((9 <=? c) && (c <=? 13)) || ((28 <=? c) && (c <=? 32)) || (c =? 133) || (c =? 160) ||
  (c =? 5760) || ((8192 <=? c) && (c <=? 8202)) || (c =? 8232) || (c =? 8233) || (c =? 8239) ||
  (c =? 8287) || (c =? 12288).

Fixpoint rstrip_by (p : Z -> bool) (s : seq) : seq :=
  match s with
  | [] => []
  | c :: t => match rstrip_by p t with
              | [] => if p c then [] else [c]
              | t' => c :: t'
              end
  end.
Fixpoint lstrip_by (p : Z -> bool) (s : seq) : seq :=
  match s with
  | [] => []
  | c :: t => if p c then lstrip_by p t else s
  end.
Definition rstrip := rstrip_by is_ws.
Definition strip_chr (c : Z) (s : seq) : seq := lstrip_by (Z.eqb c) (rstrip_by (Z.eqb c) s).

(* s.split(c): never empty; ''.split(c) = [''] *)
Fixpoint split_on (c : Z) (s : seq) : list seq :=
  match s with
  | [] => [[]]
  | x :: t => if x =? c then [] :: split_on c t
              else match split_on c t with
                   | [] => [[x]]
                   | h :: r => (x :: h) :: r
                   end
  end.
Fixpoint join (c : Z) (l : list seq) : seq :=
  match l with
  | [] => []
  | [x] => x
  | x :: t => x ++ c :: join c t
  end.

Definition upper_chr (c : Z) : Z := if (97 <=? c) && (c <=? 122) then c - 32 else c.
Definition upper (s : seq) : seq := map upper_chr s.      (* ASCII only *)

Definition starts_with_chr (c : Z) (s : seq) : bool :=
  match s with x :: _ => x =? c | [] => false end.

(* str(z) for an int *)
Fixpoint uint_chars (u : uint) : seq :=
  match u with
  | Nil => []
  | D0 u => 48 :: uint_chars u | D1 u => 49 :: uint_chars u | D2 u => 50 :: uint_chars u
  | D3 u => 51 :: uint_chars u | D4 u => 52 :: uint_chars u | D5 u => 53 :: uint_chars u
  | D6 u => 54 :: uint_chars u | D7 u => 55 :: uint_chars u | D8 u => 56 :: uint_chars u
  | D9 u => 57 :: uint_chars u
  end.
Definition print_int (z : Z) : seq :=
  match Z.to_int z with
  | Pos u => uint_chars u
  | Neg u => 45 :: uint_chars u
  end.

(* int(s): surrounding white space is stripped, then [+-]?[0-9]+ ; everything else is ValueError.
   (Python additionally accepts '_' separators and non-ASCII digits: not generated.) *)
Fixpoint chars_uint (s : seq) : option uint :=
  match s with
  | [] => Some Nil
  | c :: t =>
    match chars_uint t with
    | None => None
    | Some u =>
      if c =? 48 then Some (D0 u) else if c =? 49 then Some (D1 u) else if c =? 50 then Some (D2 u)
      else if c =? 51 then Some (D3 u) else if c =? 52 then Some (D4 u) else if c =? 53 then Some (D5 u)
      else if c =? 54 then Some (D6 u) else if c =? 55 then Some (D7 u) else if c =? 56 then Some (D8 u)
      else if c =? 57 then Some (D9 u) else None
    end
  end.
Definition digits_int (neg : bool) (s : seq) : res Z :=
  match s with
  | [] => Err EValue
  | _ => match chars_uint s with
         | None => Err EValue
         | Some u => Ok (Z.of_int (if neg then Neg u else Pos u))
         end
  end.
Definition parse_int (s : seq) : res Z :=
  match lstrip_by is_ws (rstrip_by is_ws s) with
  | 45 :: t => digits_int true t
  | 43 :: t => digits_int false t
  | s' => digits_int false s'
  end.

(* ------------------------------------------------------------------ *)
(* bytes.decode('utf-8'): strict UTF-8 (no overlong forms, no surrogates, <= U+10FFFF), one byte
   at a time; state = (continuation bytes still expected, accumulated value, allowed range of the next byte) *)
Definition ustate := option (nat * Z * Z * Z).
Fixpoint utf8_dec (st : ustate) (l : list Z) : res seq :=
  match l with
  | [] => match st with None => Ok [] | Some _ => Err EUnicode end
  | b :: t =>
    match st with
    | None =>
      if (0 <=? b) && (b <? 128) then r <- utf8_dec None t ;; Ok (b :: r)
      else if (194 <=? b) && (b <=? 223) then utf8_dec (Some (1%nat, b - 192, 128, 191)) t
      else if b =? 224 then utf8_dec (Some (2%nat, 0, 160, 191)) t
      else if b =? 237 then utf8_dec (Some (2%nat, 13, 128, 159)) t
      else if (225 <=? b) && (b <=? 239) then utf8_dec (Some (2%nat, b - 224, 128, 191)) t
      else if b =? 240 then utf8_dec (Some (3%nat, 0, 144, 191)) t
      else if b =? 244 then utf8_dec (Some (3%nat, 4, 128, 143)) t
      else if (241 <=? b) && (b <=? 243) then utf8_dec (Some (3%nat, b - 240, 128, 191)) t
      else Err EUnicode
    | Some (n, acc, lo, hi) =>
      if (lo <=? b) && (b <=? hi) then
        let acc' := acc * 64 + (b - 128) in
        match n with
        | S (S n') => utf8_dec (Some (S n', acc', 128, 191)) t
        | _ => r <- utf8_dec None t ;; Ok (acc' :: r)
        end
      else Err EUnicode
    end
  end.
Definition utf8_decode (l : list Z) : res seq := utf8_dec None l.

(* text-mode reading (open(path, 'r'), newline=None): "\r\n" and a lone "\r" become "\n"; the text is
   cut after every such terminator.  cur = characters of the current line, reversed. *)
Fixpoint unl (s : seq) (cur : seq) : list seq :=
  match s with
  | [] => match cur with [] => [] | _ => [List.rev cur] end
  | c :: t =>
    if c =? 10 then List.rev (10 :: cur) :: unl t []
    else if c =? 13 then
      match t with
      | c2 :: t2 => if c2 =? 10 then List.rev (10 :: cur) :: unl t2 [] else List.rev (10 :: cur) :: unl t []
      | [] => [List.rev (10 :: cur)]
      end
    else unl t (c :: cur)
  end.

(* ------------------------------------------------------------------ *)
(* the test deciding which attribute keys are 1-based in the text, as a disjunction of atoms
   (translated separately from the writer and from the reader) *)
Inductive katom := KIn (l : list seq) | KEq (s : seq) | KEnds (s : seq) | KStarts (s : seq) | KUnknown.
Fixpoint prefix_seq (p s : seq) : bool :=
  match p, s with
  | [], _ => true
  | x :: p', y :: s' => (x =? y) && prefix_seq p' s'
  | _ :: _, [] => false
  end.
Definition eval_katom (k : seq) (a : katom) : bool :=
  match a with
  | KIn l => mem_seq k l
  | KEq s => eq_seq k s
  | KEnds s => prefix_seq (List.rev s) (List.rev k)
  | KStarts s => prefix_seq s k
  | KUnknown => false
  end.
Definition eval_kpred (p : list katom) (k : seq) : bool := existsb (eval_katom k) p.
(* a sound (syntactic) test that two such predicates agree on every key *)
Definition katom_eqb (a b : katom) : bool :=
  match a, b with
  | KEq x, KEq y => eq_seq x y
  | KEnds x, KEnds y => eq_seq x y
  | KStarts x, KStarts y => eq_seq x y
  | _, _ => false
  end.
Fixpoint kflat (p : list katom) : list katom :=
  match p with
  | [] => []
  | KIn l :: t => map KEq l ++ kflat t
  | a :: t => a :: kflat t
  end.
Definition kmem (a : katom) (l : list katom) : bool := existsb (katom_eqb a) l.
Definition kknown (a : katom) : bool := match a with KUnknown => false | _ => true end.
Definition kpred_equiv (w r : list katom) : bool :=
  forallb kknown w && forallb kknown r &&
  forallb (fun a => kmem a (kflat r)) (kflat w) && forallb (fun a => kmem a (kflat w)) (kflat r).

(* ------------------------------------------------------------------ *)
(* dict (insertion ordered) as an association list                    *)
Section Dict.
  Context {V : Type}.
  Fixpoint dict_set (d : list (seq * V)) (k : seq) (v : V) : list (seq * V) :=
    match d with
    | [] => [(k, v)]
    | (k', v') :: t => if eq_seq k' k then (k', v) :: t else (k', v') :: dict_set t k v
    end.
  Fixpoint dict_get (d : list (seq * V)) (k : seq) : option V :=
    match d with
    | [] => None
    | (k', v') :: t => if eq_seq k' k then Some v' else dict_get t k
    end.
End Dict.

Definition nth_field (l : list seq) (n : nat) : res seq :=
  match nth_error l n with Some x => Ok x | None => Err EIndex end.

(* ------------------------------------------------------------------ *)
(* Variant records                                                    *)

(* attribute values as they occur in VariantRecord.attrs: str, int, list of str *)
Inductive aval := AStr (s : seq) | AInt (z : Z) | AList (l : list seq).

Record varrec := mkVar {
  v_seqname : seq; v_start : Z; v_end : Z; v_ref : seq; v_alt : seq;
  v_type : seq; v_id : seq; v_attrs : list (seq * aval) }.

(* the constants of the codec (instantiated from Gen/GvfConst.v) *)
Record cfg := mkCfg {
  w_shift : list katom;           (* VariantRecord.info: keys written as value + 1 *)
  r_shift : list katom;           (* seqvar.io.parse_attrs: keys read as value - 1 *)
  sns_types : list seq;           (* constant.SINGLE_NUCLEOTIDE_SUBSTITUTION *)
  all_types : list seq;           (* VariantRecord._VARIANT_TYPES *)
  nolen_types : list seq;         (* types exempt from the len(location) == len(ref) check *)
  up3_types : list seq;           (* written as '<' + type.upper()[:3] + '>' *)
  fus_alt : seq;                  (* '<FUSION>' *)
  alt_tab : list (seq * (seq * bool)) (* reader: alt literal -> (type, end taken from attrs['END']) *)
}.

Definition s_Fusion : seq := [70; 117; 115; 105; 111; 110].
Definition s_END : seq := [69; 78; 68].
Definition s_TRANSCRIPT_ID : seq := [84; 82; 65; 78; 83; 67; 82; 73; 80; 84; 95; 73; 68].
Definition s_SNV : seq := [83; 78; 86].
Definition s_INDEL : seq := [73; 78; 68; 69; 76].
Definition s_MNV : seq := [77; 78; 86].
Definition s_dot : seq := [46].
Definition TAB := 9. Definition NL := 10. Definition SEMI := 59. Definition EQ := 61.
Definition COMMA := 44. Definition QUOTE := 34. Definition LT := 60. Definition GT := 62.
Definition HASH := 35.

Section Codec.
  Variable C : cfg.

  (* int(val) for an attribute value *)
  Definition aval_int (v : aval) : res Z :=
    match v with
    | AInt z => Ok z
    | AStr s => parse_int s
    | AList _ => Err EType
    end.
  (* str(val) / ','.join for lists *)
  Definition aval_str (v : aval) : seq :=
    match v with
    | AStr s => s
    | AInt z => print_int z
    | AList l => join COMMA l
    end.

  (* VariantRecord.info *)
  Fixpoint info_body (attrs : list (seq * aval)) : res seq :=
    match attrs with
    | [] => Ok []
    | (k, v) :: t =>
      vs <- (if eval_kpred (w_shift C) k
             then z <- aval_int v ;; Ok (print_int (z + 1))
             else Ok (aval_str v)) ;;
      rest <- info_body t ;;
      Ok (upper k ++ EQ :: vs ++ SEMI :: rest)
    end.
  Definition info (attrs : list (seq * aval)) : res seq :=
    out <- info_body attrs ;; Ok (rstrip_by (Z.eqb SEMI) out).

  Definition first_chr (s : seq) : res seq :=
    match s with c :: _ => Ok [c] | [] => Err EIndex end.

  (* VariantRecord.to_string *)
  Definition to_string (r : varrec) : res seq :=
    let pos := print_int (v_start r + 1) in
    ra <- (if mem_seq (v_type r) (sns_types C) then Ok (v_ref r, v_alt r)
           else if eq_seq (v_type r) s_Fusion then c <- first_chr (v_ref r) ;; Ok (c, fus_alt C)
           else if mem_seq (v_type r) (up3_types C)
                then c <- first_chr (v_ref r) ;; Ok (c, LT :: firstn 3 (upper (v_type r)) ++ [GT])
           else c <- first_chr (v_ref r) ;; Ok (c, LT :: upper (v_type r) ++ [GT])) ;;
    i <- info (v_attrs r) ;;
    Ok (join TAB [v_seqname r; pos; v_id r; fst ra; snd ra; s_dot; s_dot; i]).

  (* seqvar.io.parse_attrs *)
  Definition parse_attr_field (attrs : list (seq * aval)) (field : seq) : res (list (seq * aval)) :=
    match split_on EQ field with
    | [key; val] =>
      let val := strip_chr QUOTE val in
      val' <- (if eval_kpred (r_shift C) key
               then z <- parse_int val ;; Ok (print_int (z - 1)) else Ok val) ;;
      Ok (dict_set attrs key (AStr val'))
    | _ => Err EValue
    end.
  Fixpoint parse_attrs_from (attrs : list (seq * aval)) (fields : list seq) : res (list (seq * aval)) :=
    match fields with
    | [] => Ok attrs
    | f :: t => a <- parse_attr_field attrs f ;; parse_attrs_from a t
    end.
  Definition parse_attrs (info : seq) : res (list (seq * aval)) :=
    parse_attrs_from [] (split_on SEMI info).

  (* VariantRecord.__init__ (with FeatureLocation.__init__: start > end raises ValueError) *)
  Definition mk_record (seqname : seq) (st en : Z) (ref alt typ id : seq) (attrs : list (seq * aval)) : res varrec :=
    if en <? st then Err EValue
    else if negb (mem_seq typ (nolen_types C)) && negb (en - st =? zlen ref) then Err EValue
    else if negb (mem_seq typ (all_types C)) then Err EValue
    else Ok (mkVar seqname st en ref alt typ id attrs).

  Fixpoint assoc_seq {V} (k : seq) (l : list (seq * V)) : option V :=
    match l with [] => None | (k', v) :: t => if eq_seq k k' then Some v else assoc_seq k t end.

  (* seqvar.io.line_to_variant_record, after `fields = line.rstrip().split('\t')` *)
  Definition fields_to_record (fields : list seq) : res varrec :=
    gene_id <- nth_field fields 0 ;;
    p <- nth_field fields 1 ;; p <- parse_int p ;;
    let start := p - 1 in
    ref <- nth_field fields 3 ;;
    alt <- nth_field fields 4 ;;
    i <- nth_field fields 7 ;;
    attrs <- parse_attrs i ;;
    te <- (if negb (starts_with_chr LT alt) then
             Ok (if (zlen ref =? 1) && (zlen alt =? 1) then s_SNV
                 else if (zlen ref =? 1) || (zlen alt =? 1) then s_INDEL else s_MNV,
                 start + zlen ref)
           else match assoc_seq alt (alt_tab C) with
                | None => Err EValue
                | Some (typ, false) => Ok (typ, start + 1)
                | Some (typ, true) =>
                  match dict_get attrs s_END with
                  | None => Err EKey
                  | Some v => e <- aval_int v ;; Ok (typ, e)
                  end
                end) ;;
    id <- nth_field fields 2 ;;
    mk_record gene_id start (snd te) ref alt (fst te) id attrs.

  Definition line_to_variant_record (line : seq) : res varrec :=
    fields_to_record (split_on TAB (rstrip line)).

  (* VariantRecord.transcript_id *)
  Definition var_key (r : varrec) : res seq :=
    match dict_get (v_attrs r) s_TRANSCRIPT_ID with
    | Some (AStr s) => Ok s
    | Some (AInt z) => Err EType      (* not produced by the parser *)
    | Some (AList _) => Err EType
    | None => Ok (v_seqname r)
    end.
End Codec.

(* ------------------------------------------------------------------ *)
(* circRNA records                                                    *)
Record circ := mkCirc {
  c_tx : seq; c_frags : list (Z * Z); c_intron : list Z; c_id : seq;
  c_gene_id : seq; c_gene_name : seq; c_genomic : seq }.

Inductive cval := CInts (l : list Z) | CStr (s : seq).

Definition key6 (ks : list seq) (n : nat) : seq := nth n ks [].

Section Circ.
  Variable wkeys rkeys : list seq.   (* six keys each, by role: offset length intron tx gene_symbol genomic *)

  (* CircRNAModel.to_string *)
  Definition circ_to_string (c : circ) : res seq :=
    match c_frags c with
    | [] => Err EIndex
    | (s0, _) :: _ =>
      let offset := join COMMA (map (fun f => print_int (fst f - s0)) (c_frags c)) in
      let length := join COMMA (map (fun f => print_int (snd f - fst f)) (c_frags c)) in
      let intron := join COMMA (map print_int (c_intron c)) in
      let i := key6 wkeys 0 ++ EQ :: offset ++ SEMI ::
               key6 wkeys 1 ++ EQ :: length ++ SEMI ::
               key6 wkeys 2 ++ EQ :: intron ++ SEMI ::
               key6 wkeys 3 ++ EQ :: c_tx c ++ SEMI ::
               key6 wkeys 4 ++ EQ :: c_gene_name c ++ SEMI ::
               key6 wkeys 5 ++ EQ :: c_genomic c in
      Ok (join TAB [c_gene_id c; print_int s0; c_id c; s_dot; s_dot; s_dot; s_dot; i])
    end.

  Definition circ_attr_field (attrs : list (seq * cval)) (field : seq) : res (list (seq * cval)) :=
    match split_on EQ field with
    | [key; val] =>
      v <- (if eq_seq key (key6 rkeys 0) || eq_seq key (key6 rkeys 1)
            then l <- map_res parse_int (split_on COMMA val) ;; Ok (CInts l)
            else if eq_seq key (key6 rkeys 2)
            then match val with
                 | [] => Ok (CInts [])
                 | _ => l <- map_res parse_int (split_on COMMA val) ;; Ok (CInts l)
                 end
            else Ok (CStr val)) ;;
      Ok (dict_set attrs key v)
    | _ => Err EValue
    end.
  Fixpoint circ_attrs_from (attrs : list (seq * cval)) (fields : list seq) : res (list (seq * cval)) :=
    match fields with
    | [] => Ok attrs
    | f :: t => a <- circ_attr_field attrs f ;; circ_attrs_from a t
    end.

  Definition get_ints (attrs : list (seq * cval)) (k : seq) : res (list Z) :=
    match dict_get attrs k with
    | None => Err EKey | Some (CInts l) => Ok l | Some (CStr _) => Err EType end.
  Definition get_str (attrs : list (seq * cval)) (k : seq) : res seq :=
    match dict_get attrs k with
    | None => Err EKey | Some (CStr s) => Ok s | Some (CInts _) => Err EType end.

  (* zip(offsets, lengths) -> FeatureLocation(start_j, end_j) (ValueError when end < start) *)
  Fixpoint mk_frags (start : Z) (offs lens : list Z) : res (list (Z * Z)) :=
    match offs, lens with
    | o :: offs', l :: lens' =>
      if l <? 0 then Err EValue
      else t <- mk_frags start offs' lens' ;; Ok ((start + o, start + o + l) :: t)
    | _, _ => Ok []
    end.

  (* circ.io.line_to_circ_model *)
  Definition fields_to_circ (fields : list seq) : res circ :=
    gene_id <- nth_field fields 0 ;;
    s <- nth_field fields 1 ;; start <- parse_int s ;;
    circ_id <- nth_field fields 2 ;;
    i <- nth_field fields 7 ;;
    attrs <- circ_attrs_from [] (split_on SEMI i) ;;
    offsets <- get_ints attrs (key6 rkeys 0) ;;
    lengths <- get_ints attrs (key6 rkeys 1) ;;
    introns <- get_ints attrs (key6 rkeys 2) ;;
    tx_id <- get_str attrs (key6 rkeys 3) ;;
    gene_name <- get_str attrs (key6 rkeys 4) ;;
    genomic <- (match dict_get attrs (key6 rkeys 5) with
                | None => Ok [] | Some (CStr s) => Ok s | Some (CInts _) => Err EType end) ;;
    frags <- mk_frags start offsets lengths ;;
    Ok (mkCirc tx_id frags introns circ_id gene_id gene_name genomic).

  Definition line_to_circ (line : seq) : res circ :=
    fields_to_circ (split_on TAB (rstrip line)).
End Circ.

(* ------------------------------------------------------------------ *)
(* Byte-offset index                                                  *)
Definition ptr := (seq * (Z * Z))%type.       (* key, start, end *)

Section Index.
  Variable R : Type.
  Variable P : bool -> seq -> res R.  (* is_circ_rna -> line_to_circ_model or line_to_variant_record *)
  Variable key_of : R -> res seq.     (* record.transcript_id *)

  (* GVFIndex.iterate_pointer over the BYTE lines of the file (each with its terminator; offsets in bytes);
     cur = (cur_key, pointer.start, pointer.end) *)
  Fixpoint iter_ptr (ic : bool) (lines : list seq) (off : Z) (cur : option ptr) : res (list ptr) :=
    match lines with
    | [] => Ok (match cur with None => [] | Some p => [p] end)
    | l :: t =>
      let off' := off + zlen l in               (* len(line) of the bytes line *)
      l <- utf8_decode l ;;                       (* line.decode('utf-8') *)
      if starts_with_chr HASH l then iter_ptr ic t off' cur
      else
        r <- P ic l ;; k <- key_of r ;;
        match cur with
        | Some (ck, (s, e)) =>
          if eq_seq ck k then iter_ptr ic t off' (Some (ck, (s, off')))
          else rest <- iter_ptr ic t off' (Some (k, (off, off'))) ;; Ok ((ck, (s, e)) :: rest)
        | None => iter_ptr ic t off' (Some (k, (off, off')))
        end
    end.
  Definition iterate_pointer (ic : bool) (lines : list seq) : res (list ptr) := iter_ptr ic lines 0 None.

  (* GVFPointer.__iter__ / load: seek, read(len), decode, rstrip, split on newline, parse each *)
  Definition ptr_load (ic : bool) (bytes : seq) (p : ptr) : res (list R) :=
    let '(_, (s, e)) := p in
    buffer <- utf8_decode (slice bytes s e) ;;
    map_res (P ic) (split_on NL (rstrip buffer)).

  (* linear scan: io.parse / circ.io.parse on a handle opened in TEXT mode (universal newlines).  A byte line
     ends with "\n", so translating line by line equals translating the whole file. *)
  Fixpoint scan_texts (ic : bool) (ls : list seq) : res (list R) :=
    match ls with
    | [] => Ok []
    | l :: t => if starts_with_chr HASH l then scan_texts ic t
                else r <- P ic l ;; rs <- scan_texts ic t ;; Ok (r :: rs)
    end.
  Fixpoint scan (ic : bool) (lines : list seq) : res (list R) :=
    match lines with
    | [] => Ok []
    | l :: t => l <- utf8_decode l ;; a <- scan_texts ic (unl l []) ;; b <- scan ic t ;; Ok (a ++ b)
    end.

  (* records of a scan whose transcript id is k *)
  Fixpoint with_key (k : seq) (rs : list R) : res (list R) :=
    match rs with
    | [] => Ok []
    | r :: t => k' <- key_of r ;; rest <- with_key k t ;;
                Ok (if eq_seq k' k then r :: rest else rest)
    end.

  (* a file of the pool: (metadata.is_circ_rna(), (content, pointers)) *)
  (* the pointers of one file selected for key k, loaded in order *)
  Fixpoint gather (ic : bool) (bytes : seq) (k : seq) (ps : list ptr) : res (list R) :=
    match ps with
    | [] => Ok []
    | p :: t => if eq_seq (fst p) k
                then a <- ptr_load ic bytes p ;; b <- gather ic bytes k t ;; Ok (a ++ b)
                else gather ic bytes k t
    end.

  Definition has_key (k : seq) (ps : list ptr) : bool := existsb (fun p => eq_seq (fst p) k) ps.

  (* VariantRecordPoolOnDisk: pointers[key] over all files (KeyError when absent), loaded in order *)
  Fixpoint pool_gather (files : list (bool * (seq * list ptr))) (k : seq) : res (list R) :=
    match files with
    | [] => Ok []
    | (ic, (bytes, ps)) :: t => a <- gather ic bytes k ps ;; b <- pool_gather t k ;; Ok (a ++ b)
    end.
  Definition pool_get (files : list (bool * (seq * list ptr))) (k : seq) : res (list R) :=
    if existsb (fun f => has_key k (snd (snd f))) files then pool_gather files k else Err EKey.

  (* GVFPointer.to_line / GVFPointer.parse *)
  Definition ptr_to_line (p : ptr) : seq :=
    let '(k, (s, e)) := p in join TAB [k; print_int s; print_int (e - s)].
  Definition line_to_ptr (line : seq) : res ptr :=
    match split_on TAB (rstrip line) with
    | [k; s; l] => s <- parse_int s ;; l <- parse_int l ;; Ok (k, (s, s + l))
    | _ => Err EValue
    end.
  Fixpoint idx_ptrs (lines : list seq) : res (list ptr) :=
    match lines with
    | [] => Ok []
    | l :: t => if starts_with_chr HASH l then idx_ptrs t
                else p <- line_to_ptr l ;; ps <- idx_ptrs t ;; Ok (p :: ps)
    end.

  (* checksum gate and the opener, with the digest abstract *)
  Section Digest.
    Variable D : Type.
    Variable D_eqb : D -> D -> bool.
    Variable digest : seq -> D.

    (* an .idx file as (recorded checksum if a CHECKSUM line exists, pointer lines) *)
    Definition idx_file := (option D * list seq)%type.

    (* cli.index_gvf *)
    Definition index_gvf (ic : bool) (lines : list seq) : res idx_file :=
      ps <- iterate_pointer ic lines ;;
      Ok (Some (digest (concat lines)), map (fun p => ptr_to_line p ++ [NL]) ps).

    (* validate_gvf_index *)
    Definition validate (bytes : seq) (i : idx_file) : res unit :=
      match fst i with
      | None => Err EValue
      | Some d => if D_eqb (digest bytes) d then Ok tt else Err EValue
      end.

    (* VariantRecordPoolOnDiskOpener.open for one file *)
    Definition open_file (ic : bool) (lines : list seq) (i : option idx_file) : res (list ptr) :=
      match i with
      | Some ix => _ <- validate (concat lines) ix ;; idx_ptrs (snd ix)
      | None => iterate_pointer ic lines
      end.
  End Digest.
End Index.

(* ------------------------------------------------------------------ *)
(* Well-formedness predicates used by the theorems (and evaluated by the harness on its
   generated records, so that the measured stream lies inside the theorems' hypotheses). *)
Definition no_chr (bad : list Z) (s : seq) : bool := forallb (fun c => negb (memZ c bad)) s.
Definition field_ok (s : seq) : bool := no_chr [TAB; NL] s.            (* a column of the line *)
Definition tok_ok (s : seq) : bool := no_chr [TAB; NL; SEMI; EQ] s.    (* attribute key / value *)
Definition no_edge_quote (s : seq) : bool := eq_seq (strip_chr QUOTE s) s.
Definition no_trail_ws (s : seq) : bool := eq_seq (rstrip s) s.
Fixpoint nodup_seq (l : list seq) : bool :=
  match l with [] => true | x :: t => negb (mem_seq x t) && nodup_seq t end.

Section WF.
  Variable C : cfg.

  (* the ALT text the writer emits for a type that is not a plain substitution *)
  Definition write_alt (typ : seq) : seq :=
    if eq_seq typ s_Fusion then fus_alt C
    else if mem_seq typ (up3_types C) then LT :: firstn 3 (upper typ) ++ [GT]
    else LT :: upper typ ++ [GT].

  (* what the value of an attribute looks like in the text *)
  Definition render_val (k : seq) (v : aval) : res seq :=
    if eval_kpred (w_shift C) k then z <- aval_int v ;; Ok (print_int (z + 1)) else Ok (aval_str v).

  Definition attr_ok (kv : seq * aval) : bool :=
    let '(k, v) := kv in
    eq_seq (upper k) k && tok_ok k &&
    match render_val k v with
    | Ok vs => tok_ok vs && no_edge_quote vs && no_trail_ws vs
    | Err _ => false
    end.

  Definition end_ok (r : varrec) : bool :=
    match dict_get (v_attrs r) s_END with
    | Some v => match aval_int v with Ok e => v_start r <=? e | Err _ => false end
    | None => false
    end.

  Definition wf_rec (r : varrec) : bool :=
    field_ok (v_seqname r) && field_ok (v_id r) &&
    match v_attrs r with [] => false | _ => true end &&
    forallb attr_ok (v_attrs r) && nodup_seq (map fst (v_attrs r)) &&
    (if mem_seq (v_type r) (sns_types C)
     then field_ok (v_ref r) && field_ok (v_alt r) && negb (starts_with_chr LT (v_alt r))
     else match v_ref r with
          | [] => false
          | c :: _ => field_ok [c] &&
                      match assoc_seq (write_alt (v_type r)) (alt_tab C) with
                      | Some (_, true) => end_ok r
                      | Some (_, false) => true
                      | None => false
                      end
          end).

  (* consistency of the constant tables: reflective check, re-evaluated on the regenerated tables *)
  Definition row_ok (row : seq * (seq * bool)) : bool :=
    let '(a, (t, fe)) := row in
    starts_with_chr LT a && field_ok a && negb (mem_seq t (sns_types C)) && mem_seq t (all_types C) &&
    eq_seq (write_alt t) a && (if fe then mem_seq t (nolen_types C) else true).
  Definition cfg_ok : bool :=
    mem_seq s_SNV (sns_types C) && mem_seq s_INDEL (sns_types C) && mem_seq s_MNV (sns_types C) &&
    mem_seq s_SNV (all_types C) && mem_seq s_INDEL (all_types C) && mem_seq s_MNV (all_types C) &&
    kpred_equiv (w_shift C) (r_shift C) && negb (eval_kpred (r_shift C) s_END) && forallb row_ok (alt_tab C).
End WF.

(* circRNA *)
Definition keys_ok (ks : list seq) : bool :=
  (length ks =? 6)%nat && forallb tok_ok ks && nodup_seq ks.
Definition wf_circ (c : circ) : bool :=
  match c_frags c with [] => false | _ => true end &&
  forallb (fun f => fst f <=? snd f) (c_frags c) &&
  field_ok (c_gene_id c) && field_ok (c_id c) &&
  tok_ok (c_tx c) && tok_ok (c_gene_name c) && tok_ok (c_genomic c) && no_trail_ws (c_genomic c).

(* write -> parse -> write as one computation *)
Definition var_wpw (C : cfg) (r : varrec) : res seq :=
  s <- to_string C r ;; r' <- line_to_variant_record C (s ++ [NL]) ;; to_string C r'.
Definition circ_wpw (wk rk : list seq) (c : circ) : res seq :=
  s <- circ_to_string wk c ;; c' <- line_to_circ rk (s ++ [NL]) ;; circ_to_string wk c'.
Fixpoint list_eqb (a b : list seq) : bool :=
  match a, b with
  | [], [] => true
  | x :: a', y :: b' => eq_seq x y && list_eqb a' b'
  | _, _ => false
  end.

(* the two parsers behind GVFPointer.is_circ_rna, and record.transcript_id *)
Definition rec2 := (varrec + circ)%type.
Definition parse2 (C : cfg) (rk : list seq) (ic : bool) (l : seq) : res rec2 :=
  if ic then c <- line_to_circ rk l ;; Ok (inr c)
  else r <- line_to_variant_record C l ;; Ok (inl r).
Definition key2 (r : rec2) : res seq :=
  match r with inl v => var_key v | inr c => Ok (c_tx c) end.
