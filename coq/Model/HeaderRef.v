(* HAND-WRITTEN reference for the parts of the header grammar the properties C18/C19 give a meaning to.
   Nothing here is generated.  Props/C19.v and Props/C18.v carry the obligations that the tables and
   code shapes regenerated from /repo (Gen/HeaderCfg.v) coincide with this reference, so a change of the
   source that alters the meaning breaks an obligation instead of being followed silently. *)
From MoPep Require Import Model.Base Model.Header.
Open Scope Z_scope.

(* variant id prefixes (moPepGen/constant.py: VariantPrefix) *)
Definition ref_ctbv_prefixes : list str :=
  [ [83;78;86] (* SNV *); [73;78;68;69;76] (* INDEL *); [77;78;86] (* MNV *); [82;69;83] (* RES *);
    [83;69] (* SE *); [82;73] (* RI *); [65;51;83;83] (* A3SS *); [65;53;83;83] (* A5SS *);
    [77;88;69] (* MXE *); [87;50;70] (* W2F *); [83;69;67;84] (* SECT *) ].
Definition ref_alt_translation_prefixes : list str := [ [87;50;70] (* W2F *); [83;69;67;84] (* SECT *) ].

(* "splice altering": the entry carries a variant id of an rMATS event.  rMATS ids are written
   <TYPE>_<coordinates> (SERecord/A5SSRecord/A3SSRecord/MXERecord/RIRecord.create_variant_id), possibly
   behind a `<gene>-` prefix (create_variant_peptide_id). *)
Definition ref_splice_types : list str :=
  [ [83;69] (* SE *); [65;53;83;83] (* A5SS *); [65;51;83;83] (* A3SS *); [82;73] (* RI *); [77;88;69] (* MXE *) ].
Definition spec_splice_id (x : str) : bool :=
  existsb (fun y => starts_with (y ++ [95]) x || contains (45 :: y ++ [95]) x) ref_splice_types.
Definition spec_is_splice_altering (variant_ids : list str) : bool := existsb spec_splice_id variant_ids.

(* sources that do not come from a GVF file *)
Definition ref_source_novel_orf : str := [78;111;118;101;108;79;82;70].                     (* NovelORF *)
Definition ref_source_codon_reassign : str := [67;111;100;111;110;82;101;97;115;115;105;103;110].  (* CodonReassign *)
Definition ref_source_sect : str := [83;69;67;84].                                           (* SECT *)
