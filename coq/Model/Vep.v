(* Faithful model (Level F) of
     moPepGen/parser/VEPParser.py : VEPRecord.convert_to_variant_record
     moPepGen/gtf/GenomicAnnotation.py : coordinate_genomic_to_gene
     moPepGen/gtf/GeneAnnotationModel.py : get_gene_sequence
     moPepGen/seqvar/VariantRecord.py : VariantRecord.__init__ (length check)
     moPepGen/parser/REDItoolsParser.py : get_valid_subs, convert_to_variant_records
     moPepGen/gtf/TranscriptAnnotationModel.py : get_transcript_index
   plus the declarative notions the C14 theorems are stated with
   (apply_genomic, gene_of, apply_gene).  Definitions only. *)
From MoPep Require Import Model.Base.
Open Scope Z_scope.

(* ------------------------------------------------------------------ *)
(* sequences: Python indexing / slicing, complement                    *)

(* Bio.Seq complement restricted to the letters that occur in a genome FASTA
   (A C G T; every other code point, e.g. N, is its own complement) *)
Definition comp (c : Z) : Z :=
  if c =? 65 then 84 else if c =? 84 then 65
  else if c =? 67 then 71 else if c =? 71 then 67 else c.
Definition revcomp (s : seq) : seq := rev (map comp s).

(* Python s[a:b] for arbitrary ints (negative = from the end, clamped) *)
Definition norm_idx (len i : Z) : Z :=
  if i <? 0 then Z.max 0 (i + len) else Z.min i len.
Definition pyslice (s : seq) (a b : Z) : seq :=
  let l := zlen s in slice s (norm_idx l a) (norm_idx l b).
(* Python s[i]: negative i counts from the end; None = IndexError *)
Definition pyindex (s : seq) (i : Z) : option Z :=
  nthZ s (if i <? 0 then i + zlen s else i).

Fixpoint last_opt (s : seq) : option Z :=
  match s with [] => None | [x] => Some x | _ :: t => last_opt t end.

(* ------------------------------------------------------------------ *)
(* results                                                              *)

Inductive res (A : Type) : Type :=
| Ok (a : A)
| ErrValue          (* ValueError *)
| ErrStart          (* TranscriptionStartSiteMutationError *)
| ErrStop           (* TranscriptionStopSiteMutationError *)
| ErrIndex.         (* IndexError (only reachable when the gene is not inside the chromosome) *)
Arguments Ok {A} a.
Arguments ErrValue {A}.
Arguments ErrStart {A}.
Arguments ErrStop {A}.
Arguments ErrIndex {A}.

Definition bind {A B} (r : res A) (f : A -> res B) : res B :=
  match r with
  | Ok a => f a
  | ErrValue => ErrValue | ErrStart => ErrStart | ErrStop => ErrStop | ErrIndex => ErrIndex
  end.
Definition of_idx (o : option Z) : res Z :=
  match o with Some x => Ok x | None => ErrIndex end.

(* ------------------------------------------------------------------ *)
(* reference objects                                                    *)

(* gene: strand (1 / -1), genomic location 0-based half-open *)
Record gene := mkGene { g_strand : Z; g_start : Z; g_end : Z }.
(* transcript: transcript.location (0-based half-open), cds_start_NF tag *)
Record txm := mkTx { t_start : Z; t_end : Z; t_nf : bool }.

(* GenomicAnnotation.coordinate_genomic_to_gene *)
Definition g2gene (g : gene) (i : Z) : res Z :=
  if negb ((g_start g <=? i) && (i <? g_end g)) then ErrValue
  else if g_strand g =? 1 then Ok (i - g_start g)
  else if g_strand g =? -1 then Ok (g_end g - 1 - i)
  else ErrValue.

(* GeneAnnotationModel.get_gene_sequence *)
Definition gene_seq (g : gene) (chrom : seq) : res seq :=
  if g_strand g =? 1 then Ok (pyslice chrom (g_start g) (g_end g))
  else if g_strand g =? -1 then Ok (revcomp (pyslice chrom (g_start g) (g_end g)))
  else ErrValue.

(* ------------------------------------------------------------------ *)
(* VEP                                                                  *)

(* a VEP line as far as convert_to_variant_record reads it: Location "chr:a" (b = a) or
   "chr:a-b" (1-based, inclusive), Allele (None = "-") *)
Record vep := mkVep { v_a : Z; v_b : Z; v_allele : option seq }.

(* the emitted VariantRecord: location [start,end) in gene coordinates, REF, ALT,
   type 0 = SNV, 1 = INDEL, 2 = MNV *)
Record vrec := mkVrec { vr_start : Z; vr_end : Z; vr_ref : seq; vr_alt : seq; vr_type : Z }.

(* type decision + FeatureLocation(start,end) + VariantRecord.__init__ *)
Definition finish (st en : Z) (ref alt : seq) : res vrec :=
  let ty := if (zlen ref =? 1) && (zlen alt =? 1) then 0
            else if (zlen ref =? 1) || (zlen ref =? 1) then 1 else 2 in
  if en <? st then ErrValue                       (* Bio FeatureLocation: end < start *)
  else if negb (en - st =? zlen ref) then ErrValue (* len(location) != len(ref) *)
  else Ok (mkVrec st en ref alt ty).

(* [fx] = false : the code as it stands.
   [fx] = true  : the code with proposed_fixes/C14_vep_ins_gene_start.patch (the end-inclusive
                  insertion arm is only taken when there is a base before alt_start).
   convert_core = the arms after the boundary checks; [al] is the allele after the strand
   correction, [as1, ae2) the normalised gene interval, [ts] the transcript start (gene coord). *)
Definition convert_core (fx : bool) (sq : seq) (as1 ae2 ts : Z) (allele : option seq) : res vrec :=
    match allele with
    | None =>
        if as1 =? ts then
          let ae3 := ae2 + 1 in
          finish as1 ae3 (pyslice sq as1 ae3) (pyslice sq (ae3 - 1) ae3)
        else
          let as2 := as1 - 1 in
          bind (of_idx (pyindex sq as2)) (fun x =>
          finish as2 ae2 (pyslice sq as2 ae2) [x])
    | Some al =>
        if ae2 - as1 =? 1 then
          if zlen al >? 1 then
            bind (of_idx (pyindex sq as1)) (fun r0 =>
            let lastb := match last_opt al with Some x => x | None => 0 end in
            let headb := match al with x :: _ => x | [] => 0 end in
            if (r0 =? lastb) && (negb fx || (as1 >? 0)) then
              let as2 := as1 - 1 in
              let ae3 := as2 + 1 in
              bind (of_idx (pyindex sq as2)) (fun r1 =>
              finish as2 ae3 [r1] (r1 :: removelast al))
            else if (r0 =? headb) || (fx && (r0 =? lastb)) then
              finish as1 ae2 [r0] al
            else ErrValue)
          else
            bind (of_idx (pyindex sq as1)) (fun r0 => finish as1 ae2 [r0] al)
        else if ae2 - as1 =? 2 then
          let ae3 := ae2 - 1 in
          bind (of_idx (pyindex sq as1)) (fun r0 => finish as1 ae3 [r0] (r0 :: al))
        else
          finish as1 ae2 (pyslice sq as1 ae2) al
    end.

Definition convert (fx : bool) (g : gene) (t : txm) (chrom : seq) (e : vep) : res vrec :=
  let asg := v_a e - 1 in
  let aeg := v_b e in
  bind (gene_seq g chrom) (fun sq =>
  bind (g2gene g asg) (fun as0 =>
  bind (g2gene g (aeg - 1)) (fun ae0 =>
  let txf := if g_strand g =? 1 then t_start t else t_end t - 1 in
  let txl := if g_strand g =? 1 then t_end t - 1 else t_start t in
  bind (g2gene g txf) (fun ts =>
  bind (g2gene g txl) (fun te0 =>
  let te := te0 + 1 in
  let as1 := if g_strand g =? -1 then ae0 else as0 in
  let ae1 := if g_strand g =? -1 then as0 else ae0 in
  let ae2 := ae1 + 1 in
  if (as1 <? ts) || ((as1 =? ts) && negb (t_nf t)) then ErrStart
  else if ae2 >? te then ErrStop
  else
    convert_core fx sq as1 ae2 ts
      (match v_allele e with
       | None => None
       | Some al0 => Some (if g_strand g =? -1 then revcomp al0 else al0)
       end)))))).

(* ------------------------------------------------------------------ *)
(* declarative side                                                     *)

(* a genomic event: replace chrom[p,q) (0-based half-open) by s.
   SNV: q = p+1, |s| = 1;  deletion: s = [], p < q;  insertion: p = q, s <> [];
   substitution: q - p >= 3, s <> [];  single-base replacement C -> xxC / Cxx: q = p+1, |s| > 1 *)
Record gev := mkGev { e_p : Z; e_q : Z; e_s : seq }.

Definition apply_genomic (chrom : seq) (ev : gev) : seq :=
  slice chrom 0 (e_p ev) ++ e_s ev ++ slice chrom (e_q ev) (zlen chrom).

(* the gene re-extracted from a chromosome (strand-corrected) *)
Definition gene_of (g : gene) (chrom : seq) : seq :=
  let s := slice chrom (g_start g) (g_end g) in
  if g_strand g =? 1 then s else revcomp s.

(* the gene interval after the event (the event lies inside the gene) *)
Definition gene_after (g : gene) (ev : gev) : gene :=
  mkGene (g_strand g) (g_start g) (g_end g + zlen (e_s ev) - (e_q ev - e_p ev)).

(* a GVF record applied to the gene sequence *)
Definition apply_gene (gs : seq) (r : vrec) : seq :=
  slice gs 0 (vr_start r) ++ vr_alt r ++ slice gs (vr_end r) (zlen gs).

(* how VEP writes the event (Location / Allele columns) *)
Definition vep_of (ev : gev) : vep :=
  match e_s ev with
  | [] => mkVep (e_p ev + 1) (e_q ev) None                           (* deletion *)
  | _ => if e_q ev =? e_p ev then mkVep (e_p ev) (e_p ev + 1) (Some (e_s ev))   (* insertion between p-1 and p *)
         else mkVep (e_p ev + 1) (e_q ev) (Some (e_s ev))            (* SNV / substitution / C -> xxC *)
  end.

(* well-formedness of the reference objects and of an event *)
Definition wf_gene (g : gene) (chrom : seq) : Prop :=
  (g_strand g = 1 \/ g_strand g = -1) /\ 0 <= g_start g /\ g_start g < g_end g /\ g_end g <= zlen chrom.
(* every replacement chrom[p,q) -> s except: the empty event, and a two-base substitution (which VEP
   writes exactly like an insertion, "chr:p+1-p+2"; the property speaks of substitutions of >= 3 bases) *)
Definition ev_ok (ev : gev) : Prop :=
  0 <= e_p ev <= e_q ev /\ (e_s ev = [] -> e_p ev < e_q ev) /\ (e_s ev <> [] -> e_q ev <> e_p ev + 2).
(* the four kinds named by the property, and the single-position insertion forms *)
Definition is_snv (ev : gev) := e_q ev = e_p ev + 1 /\ zlen (e_s ev) = 1.
Definition is_del (ev : gev) := e_p ev < e_q ev /\ e_s ev = [].
Definition is_ins (ev : gev) := e_q ev = e_p ev /\ e_s ev <> [].
Definition is_sub (ev : gev) := e_p ev + 3 <= e_q ev /\ e_s ev <> [].
Definition is_ins1 (ev : gev) := e_q ev = e_p ev + 1 /\ 1 < zlen (e_s ev).
(* genomic footprint of an event; for an insertion its two flanking bases *)
Definition foot_lo (ev : gev) : Z := if e_q ev =? e_p ev then e_p ev - 1 else e_p ev.
Definition foot_hi (ev : gev) : Z := if e_q ev =? e_p ev then e_p ev + 1 else e_q ev.

(* ------------------------------------------------------------------ *)
(* REDItools                                                            *)

Inductive tidx := TOk (i : Z) | TRange | TIntron.

(* TranscriptAnnotationModel.get_transcript_index; exons ascending genomic (start,end) *)
Fixpoint gti_plus (exs : list (Z * Z)) (g idx : Z) : tidx :=
  match exs with
  | [] => TOk idx
  | (s, e) :: r =>
      if e <? g then gti_plus r g (idx + (e - s))
      else if e =? g then TIntron
      else if s <=? g then TOk (idx + (g - s))
      else TIntron
  end.
(* minus strand: iterates reversed(exons) *)
Fixpoint gti_minus (rexs : list (Z * Z)) (g idx : Z) : tidx :=
  match rexs with
  | [] => TOk idx
  | (s, e) :: r =>
      if s >=? g then
        if s =? g then TOk (idx + (e - s)) else gti_minus r g (idx + (e - s))
      else if e >? g then TOk (idx + (e - g))
      else TIntron
  end.
Definition first_start (exs : list (Z * Z)) : Z := match exs with (s, _) :: _ => s | [] => 0 end.
Definition last_end (exs : list (Z * Z)) : Z := match rev exs with (_, e) :: _ => e | [] => 0 end.
Definition get_transcript_index (strand : Z) (exs : list (Z * Z)) (g : Z) : tidx :=
  if (g <? first_start exs) || (g >=? last_end exs) then TRange
  else if strand =? 1 then gti_plus exs g 0
  else gti_minus (rev exs) g (-1).

(* thresholds; min_frequency_alt is the rational fnum/fden (fden > 0) *)
Record thr := mkThr { th_alt : Z; th_fnum : Z; th_fden : Z; th_rna : Z; th_dna : Z }.
(* a row: 1-based position, base counts in the order A C G T, substitutions (ref, alt),
   gCoverage-q: Some n, or None when the column is not an integer *)
Record redi := mkRedi { r_pos : Z; r_counts : list Z; r_subs : list (Z * Z); r_gcov : option Z }.

Definition base_order (c : Z) : option nat :=
  if c =? 65 then Some 0%nat else if c =? 67 then Some 1%nat
  else if c =? 71 then Some 2%nat else if c =? 84 then Some 3%nat else None.
Definition sumZ (l : list Z) : Z := fold_right Z.add 0 l.

(* the for loop of get_valid_subs; None = KeyError / IndexError / ZeroDivisionError *)
Fixpoint valid_subs_loop (th : thr) (counts : list Z) (total : Z) (subs : list (Z * Z))
  : option (list (Z * Z)) :=
  match subs with
  | [] => Some []
  | (rf, al) :: rest =>
      match base_order al with
      | None => None
      | Some k =>
          match nth_error counts k with
          | None => None
          | Some rc =>
              match valid_subs_loop th counts total rest with
              | None => None
              | Some vs =>
                  if rc <? th_alt th then Some vs
                  else if total =? 0 then None                                  (* ZeroDivisionError *)
                  else if rc * th_fden th <? th_fnum th * total then Some vs   (* rc/total < num/den *)
                  else Some ((rf, al) :: vs)
              end
          end
      end
  end.

Definition get_valid_subs (th : thr) (r : redi) : option (list (Z * Z)) :=
  let total := sumZ (r_counts r) in
  if total <? th_rna th then Some []
  else
    let dna_fail := match r_gcov r with
                    | None => true
                    | Some c => if c =? -1 then false else c <? th_dna th
                    end in
    if dna_fail then Some [] else valid_subs_loop th (r_counts r) total (r_subs r).

(* one transcript of the row's transcript list: index (for reporting), its gene, exons *)
Record rtx := mkRtx { x_id : Z; x_gene : gene; x_exons : list (Z * Z) }.
(* an emitted record: transcript, gene position, ref, alt *)
Definition rrec := (Z * Z * Z * Z)%type.

(* [mode] 0 = the code as it stands (a non-intron ValueError is swallowed and the record is still
   emitted); 1 = re-raise (proposed_fixes/C14_D10.patch); 2 = skip the transcript. *)
Fixpoint redi_loop (mode : Z) (th : thr) (r : redi) (txs : list rtx) : res (list rrec) :=
  match txs with
  | [] => Ok []
  | x :: rest =>
      let emit :=
        bind (g2gene (x_gene x) (r_pos r - 1)) (fun position =>
        match get_valid_subs th r with
        | None => ErrIndex
        | Some vs =>
            bind (redi_loop mode th r rest) (fun more =>
            Ok (map (fun s => (x_id x, position, fst s, snd s)) vs ++ more))
        end) in
      match get_transcript_index (g_strand (x_gene x)) (x_exons x) (r_pos r - 1) with
      | TIntron => redi_loop mode th r rest
      | TRange => if mode =? 0 then emit
                  else if mode =? 1 then ErrValue
                  else redi_loop mode th r rest
      | TOk _ => emit
      end
  end.

(* transcript inside its gene *)
Definition wf_tx (g : gene) (t : txm) : Prop :=
  g_start g <= t_start t /\ t_start t < t_end t /\ t_end t <= g_end g.

(* ---- declarative side of the REDItools statements ---- *)
(* the genomic site g lies in an exon *)
Definition exonic (exs : list (Z * Z)) (g : Z) : Prop := exists s e, In (s, e) exs /\ s <= g < e.
Definition wf_exons (exs : list (Z * Z)) : Prop := forall s e, In (s, e) exs -> s < e.
(* acceptance of a row / of one substitution, as the thresholds are documented *)
Definition site_ok (th : thr) (r : redi) : Prop :=
  th_rna th <= sumZ (r_counts r) /\
  match r_gcov r with Some c => c = -1 \/ th_dna th <= c | None => False end.
Definition alt_ok (th : thr) (r : redi) (al : Z) : Prop :=
  exists k rc, base_order al = Some k /\ nth_error (r_counts r) k = Some rc /\
               th_alt th <= rc /\ th_fnum th * sumZ (r_counts r) <= rc * th_fden th.
