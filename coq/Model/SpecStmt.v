(* The properties' own statements for C01 / C02 / C03, as Props over the reference semantics of
   Model/Spec.v.  Definitions only.  The theorems of Props/C01.v, C02.v, C03.v say that the executable
   deciders (must_set, realizable, witness_ok, entries_unique) are equivalent to these statements. *)
From MoPep Require Import Model.Base Model.Rule Model.Digest Model.Spec Gen.Bio.
Open Scope Z_scope.

(* p is a digestion product of the translation tr: the piece between one boundary and one of the next
   (k+1) boundaries (at most k missed cleavages) or, at the very first boundary when Met removal
   applies (nf = false), the same piece without its leading M; within the limits. *)
Definition Product (x : input) (nf tail : bool) (tr : seq * bool) (p : seq) : Prop :=
  exists pre a rest b,
    bounds (in_rule x) (in_exc x) (tail || snd tr) (fst tr) = pre ++ a :: rest /\
    In b (firstn (Z.to_nat (lim_k (in_lim x) + 1)) rest) /\
    keep protein_weights4 water4 (in_lim x) p = true /\
    (p = piece (fst tr) a b \/
     (pre = [] /\ nf = false /\ starts_with_M (piece (fst tr) a b) = true /\ p = tl (piece (fst tr) a b))).

(* the statement of C02 for one transcript: some compatible non-empty combination h of the supplied
   records, a permitted start, a permitted reading of the touched Sec codons, such that p is a
   digestion product (possibly Met-removed) of the translation of the transcript carrying h *)
Definition MayProduct (x : input) (h : list variant) (p : seq) : Prop :=
  exists st secs,
    In st (may_starts x h (apply_hap (in_tx x) h)) /\ In secs (may_secs x h) /\
    Product x false true (translate_from (apply_hap (in_tx x) h) st secs) p.

Definition Realizable (x : input) (p : seq) : Prop :=
  exists m, length m = length (in_vars x) /\
    let h := select m (in_vars x) in
    nonempty h = true /\ pairwise false h = true /\ MayProduct x h p.

Definition RefProduct (x : input) (p : seq) : Prop := MayProduct x [] p.

(* the statement of C01 for one transcript *)
Definition MustReport (x : input) (p : seq) : Prop :=
  (exists m, length m = length (in_vars x) /\
     let h := select m (in_vars x) in
     nonempty h = true /\ pairwise true h = true /\ forallb (must_var x) h = true /\ no_run3 h = true /\
     exists st, In st (must_starts x (apply_hap (in_tx x) h)) /\
       Product x (must_nf x) (must_tail x)
               (translate_from (apply_hap (in_tx x) h) st (map (shift h) (in_sec x))) p)
  /\ ~ RefProduct x p /\ ~ In p (in_pool x).

(* the statement of C03 for one header entry: every named index denotes a supplied record, and the
   transcript carrying EXACTLY the named records (no others) has p among its digestion products *)
Definition Witness (x : input) (p : seq) (ids : list nat) : Prop :=
  (forall i, In i ids -> (i < length (in_vars x))%nat) /\
  let h := named x ids in
  nonempty h = true /\ pairwise false h = true /\ MayProduct x h p.


(* ---- abstract graph (DESIGN Appendix B, operation drop): routes of a graph given by a successor
   function; joining the labels of a route spells a peptide.  Complexity limits remove nodes
   (alive n = false): they may only be skipped, never bridged. *)
Section Routes.
  Variable L : Type.
  Variable lab : nat -> list L.

  Fixpoint routes (sc : nat -> list nat) (fuel n : nat) : list (list nat) :=
    match fuel with
    | O => []
    | S f => [n] :: map (cons n) (flat_map (routes sc f) (sc n))
    end.

  Definition spelled (sc : nat -> list nat) (fuel n : nat) : list (list L) :=
    map (fun r => flat_map lab r) (routes sc fuel n).

  Definition limited (alive : nat -> bool) (sc : nat -> list nat) (n : nat) : list nat :=
    filter alive (sc n).
End Routes.
