(* C08 - callNovelORF.
   Level F (faithful):
     moPepGen/cli/call_novel_orf.py: call_novel_orf_peptide  (transcript selection loop)
                                      get_orf_sequences        (ORF FASTA entries)
     moPepGen/cli/common.py: load_inclusion_exclusion_biotypes (default exclusion list)
   Level S (specification): the definitional novel-ORF digest
     for every selected transcript, from every ATG in the three frames, translate to the next
     stop or the transcript end, digest (Digest.cleave, C10), W>F images when requested,
     limits, minus the canonical pool (C10 pool, I->L images included).
   The graph engine (svgraph: unknown-ORF traversal) is NOT modelled; it is tied to the
   specification by the correspondence check only.
   Definitions only. *)
From MoPep Require Import Model.Base Model.Rule Model.Digest Model.W2F.
Open Scope Z_scope.

(* ------------------------------------------------------------------ F: selection *)
(* what the loop looks at for one transcript *)
Record txsel := mkTxSel {
  ts_coding : bool;        (* tx_model.is_protein_coding  (= tx_id in proteome, set by check_protein_coding) *)
  ts_biotype : seq;        (* tx_model.transcript.biotype (gene_type / gene_biotype attribute) *)
  ts_in_proteome : bool;   (* tx_id in proteome *)
  ts_len : Z               (* tx_model.transcript_len() *)
}.

Record selopt := mkSelOpt {
  so_coding_novel : bool;  (* --coding-novel-orf *)
  so_incl : list seq;      (* inclusion biotypes ([] when the option is absent) *)
  so_excl : list seq;      (* exclusion biotypes after defaulting *)
  so_min_len : Z           (* --min-tx-length *)
}.

Definition nonempty {A} (l : list A) : bool := match l with [] => false | _ => true end.

(* load_inclusion_exclusion_biotypes: no path -> packaged default list *)
Definition effective_excl (dflt : list seq) (given : option (list seq)) : list seq :=
  match given with None => dflt | Some l => l end.
Definition effective_incl (given : option (list seq)) : list seq :=
  match given with None => [] | Some l => l end.

(* the non-coding branch: four `continue`s *)
Definition noncoding_passes (o : selopt) (t : txsel) : bool :=
  if nonempty (so_incl o) && negb (mem_seq (ts_biotype t) (so_incl o)) then false
  else if nonempty (so_excl o) && mem_seq (ts_biotype t) (so_excl o) then false
  else if ts_in_proteome t then false
  else if ts_len t <? so_min_len o then false
  else true.

(* the loop body up to the `try:`; true = the transcript is processed.
   `skips` = what the statement under `if not args.coding_novel_orf:` does:
      false : `pass`      (the unchanged tree)
      true  : `continue`  (the repaired tree) *)
Definition select_tx_gen (skips : bool) (o : selopt) (t : txsel) : bool :=
  if ts_coding t then
    (if negb (so_coding_novel o) then (if skips then false else true) else true)
  else noncoding_passes o t.

Definition select_tx_unfixed := select_tx_gen false.   (* as written today: D5 *)
Definition select_tx := select_tx_gen true.             (* repaired *)

(* ------------------------------------------------------------------ translation *)
Definition A_nt : Z := 65.  Definition T_nt : Z := 84.  Definition G_nt : Z := 71.

Definition codon_tbl := list (list Z * Z).

Fixpoint codon_lookup (tbl : codon_tbl) (c : list Z) : option Z :=
  match tbl with
  | [] => None
  | (k, a) :: t => if eq_seq c k then Some a else codon_lookup t c
  end.

(* Bio.Seq.translate on unambiguous DNA; a codon outside the table (N etc.) is 'X' *)
Definition codon_aa (tbl : codon_tbl) (a b c : Z) : Z :=
  match codon_lookup tbl [a; b; c] with Some x => x | None => X_code end.

(* whole frame, stops shown as '*', trailing partial codon dropped *)
Fixpoint translate_frame (tbl : codon_tbl) (dna : seq) : seq :=
  match dna with
  | a :: b :: c :: r => codon_aa tbl a b c :: translate_frame tbl r
  | _ => []
  end.

(* to the next stop (excluded) or the end of the sequence *)
Fixpoint translate_orf (tbl : codon_tbl) (dna : seq) : seq :=
  match dna with
  | a :: b :: c :: r =>
      let x := codon_aa tbl a b c in
      if x =? STAR_code then [] else x :: translate_orf tbl r
  | _ => []
  end.

Definition is_atg (dna : seq) : bool :=
  match dna with
  | a :: b :: c :: _ => (a =? A_nt) && (b =? T_nt) && (c =? G_nt)
  | _ => false
  end.

Fixpoint atg_from (i : nat) (dna : seq) : list nat :=
  match dna with
  | [] => []
  | _ :: r => (if is_atg dna then [i] else []) ++ atg_from (S i) r
  end.
(* every ATG, all three frames, ascending *)
Definition atg_positions (dna : seq) : list nat := atg_from 0 dna.

Definition orf_of (tbl : codon_tbl) (dna : seq) (p : nat) : seq := translate_orf tbl (skipn p dna).

(* ------------------------------------------------------------------ F: get_orf_sequences *)
Fixpoint find_star (s : seq) : option nat :=
  match s with
  | [] => None
  | c :: r => if c =? STAR_code then Some O
              else match find_star r with Some k => Some (S k) | None => None end
  end.

Record orf_entry := mkOrf { oe_start : Z; oe_end : Z; oe_seq : seq }.

(* one iteration of the loop in get_orf_sequences for orf_start *)
Definition orf_entry_of (tbl : codon_tbl) (dna : seq) (orf_start : nat) : orf_entry :=
  let seq_start := Nat.div orf_start 3 in                  (* int(orf_start / 3) *)
  let fr := Nat.modulo orf_start 3 in                      (* orf_start % 3 *)
  let tr := translate_frame tbl (skipn fr dna) in          (* tx_seq[i:].translate() *)
  let tail := skipn seq_start tr in
  let seq_len := match find_star tail with                 (* .find('*'), -1 -> rest *)
                 | Some k => k | None => length tail end in
  mkOrf (Z.of_nat orf_start)
        (Z.of_nat orf_start + Z.of_nat seq_len * 3)
        (firstn seq_len tail).                             (* translate_seq[seq_start:seq_end] *)

(* pgraph.orf_id_map has one key per start the traversal opened: the engine opens an ORF at
   every M of every frame (tied by correspondence); ids ORF1.. in ascending start order.
   The listing is the list of entries in id order (id = index + 1). *)
Definition orf_listing (tbl : codon_tbl) (dna : seq) : list orf_entry :=
  map (orf_entry_of tbl dna) (atg_positions dna).

(* ------------------------------------------------------------------ S: the definitional set *)
Record txrec := mkTx { tr_sel : txsel; tr_dna : seq }.

(* in-frame context of the ORF starting at p: what precedes / follows its translation
   in the translation of the whole frame (stops appear as '*') *)
Definition frame_tr (tbl : codon_tbl) (dna : seq) (p : nat) : seq :=
  translate_frame tbl (skipn (Nat.modulo p 3) dna).
Definition ctx_left (tbl : codon_tbl) (dna : seq) (p : nat) : seq :=
  rev (firstn (Nat.div p 3) (frame_tr tbl dna p)).
Definition ctx_right (tbl : codon_tbl) (dna : seq) (p : nat) : seq :=
  skipn (Nat.div p 3 + length (orf_of tbl dna p)) (frame_tr tbl dna p).

Fixpoint eq_nats (a b : list nat) : bool :=
  match a, b with
  | [], [] => true
  | x :: a', y :: b' => Nat.eqb x y && eq_nats a' b'
  | _, _ => false
  end.

Section Novel.
  Variable wt : weight_table.
  Variable water : Z.
  Variable lim : limits.
  Variable r : rule.
  Variable exc : option rule.
  Variable tbl : codon_tbl.

  (* digest of one ORF as a stand-alone protein (the definitional reading) *)
  Definition orf_products (nf : bool) (dna : seq) (p : nat) : list seq :=
    cleave wt water lim r exc nf (orf_of tbl dna p).

  (* digest of the same residues with the cleavage pattern seeing the in-frame neighbours *)
  Definition orf_products_ctx (nf : bool) (dna : seq) (p : nat) : list seq :=
    let s := orf_of tbl dna p in
    cleave_loop wt water lim s nf true
      (0%nat :: sites_ctx r exc (ctx_left tbl dna p) s (ctx_right tbl dna p) 0 ++ [length s]).

  (* the two readings cut this ORF at the same places *)
  Definition ctx_stable (dna : seq) (p : nat) : bool :=
    let s := orf_of tbl dna p in
    eq_nats (sites r exc s) (sites_ctx r exc (ctx_left tbl dna p) s (ctx_right tbl dna p) 0).

  Definition noncanon (pool : list seq) (q : seq) : bool := negb (mem_seq q pool).

  (* W>F images that satisfy the limits *)
  Definition images (ps : list seq) : list seq :=
    filter (keep wt water lim) (flat_map w2f_images ps).

  Definition with_w2f (w2f : bool) (ps : list seq) : list seq :=
    ps ++ (if w2f then images ps else []).

  (* MUST: what the statement obliges:
       - digestion as the tool family defines it (C10): products and, for products that start at the ORF's
         initiator Met, their N-terminal-Met-removed form.  The property text does not mention initiator-Met
         removal; the unchanged tool emits these forms for every novel ORF (measured: output = this set), and
         "minus the canonical pool" is only meaningful for them if they are obliged (a canonical M+X must not
         take a non-canonical X with it), so the specification ADOPTS the tool's rule as a convention
         (logged in docs/C08.md),
       - only ORFs whose cut positions do not depend on the stand-alone / in-frame reading,
       - W>F images of products that are themselves reported (non-canonical) *)
  Definition must_base (pool : list seq) (sel : list txrec) : list seq :=
    filter (noncanon pool)
      (flat_map (fun t => flat_map (fun p => if ctx_stable (tr_dna t) p
                                             then orf_products false (tr_dna t) p else [])
                                   (atg_positions (tr_dna t))) sel).
  Definition novel_must (w2f : bool) (pool : list seq) (sel : list txrec) : list seq :=
    filter (noncanon pool) (with_w2f w2f (must_base pool sel)).

  (* MAY: every documented form: either reading of the cleavage context, W>F images of every product *)
  Definition may_base (sel : list txrec) : list seq :=
    flat_map (fun t => flat_map (fun p => orf_products false (tr_dna t) p ++
                                          orf_products_ctx false (tr_dna t) p)
                                (atg_positions (tr_dna t))) sel.
  Definition novel_may (w2f : bool) (pool : list seq) (sel : list txrec) : list seq :=
    filter (noncanon pool) (with_w2f w2f (may_base sel)).

  Definition selected (skips : bool) (o : selopt) (txs : list txrec) : list txrec :=
    filter (fun t => select_tx_gen skips o (tr_sel t)) txs.
End Novel.
