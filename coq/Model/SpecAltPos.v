(* C03, position-exact reading of the generated identifiers of callVariant headers.

   Measured on the tool (harness/props/c03.py, 2 800 entries):
     SECT-n : n = 1-based GENE coordinate of the first base of an annotated Sec (UGA) codon of the backbone
              transcript (seqvar.create_variant_sect; Props/C09.v sect_id_names_codon); the harness maps n
              back to the transcript position s of that codon with the generator's ground truth;
     W2F-i  : i = 1-based residue index in the PRINTED peptide (seqvar.create_variant_w2f is called by
              VariantPeptideDict.find_codon_reassignments with the index in the final sequence: after Met
              removal and after the Sec truncation).  The decider takes the 0-based indices, ascending.

   witness_ok_pos x p ids sect_ids w2f_ids :  applying EXACTLY the named records, reading every Sec codon as
   U except the named one, at which translation terminates (the product is cut in front of the U that is
   translated from THAT codon), and replacing exactly the W residues at the named positions (no other) by F
   yields p.  Model/SpecAlt.v (witness_ok_fl: only the KINDS of the generated identifiers) is not changed;
   Proofs/SpecAltPosProofs.v shows that this decider refines it.  Definitions only. *)
From MoPep Require Import Model.Base Model.Rule Model.Digest Model.Spec Model.SpecStmt Model.W2F
                          Model.SpecAlt Model.SpecAltStmt Gen.Bio.
Open Scope Z_scope.

(* ------------------------------------------------------------------ products with their place *)
(* C10's emit / cleave_loop (Model/Digest.v) with the index (in the translation) of the first residue of
   every product: a for the piece between the boundaries a and b, a+1 for its Met-removed form *)
Section CleavePos.
  Variable wt : weight_table.
  Variable water : Z.
  Variable lim : limits.

  Definition emit_pos (s : seq) (first nf : bool) (a b : nat) : list (seq * nat) :=
    let p := piece s a b in
    (if first && negb nf && starts_with_M p then map (fun q => (q, S a)) (update wt water lim (tl p)) else [])
    ++ map (fun q => (q, a)) (update wt water lim p).

  Fixpoint cleave_loop_pos (s : seq) (nf first : bool) (bounds : list nat) : list (seq * nat) :=
    match bounds with
    | [] => []
    | a :: rest =>
        flat_map (emit_pos s first nf a) (firstn (Z.to_nat (lim_k lim + 1)) rest)
        ++ cleave_loop_pos s nf false rest
    end.
End CleavePos.

Definition products_pos (x : input) (nf tail : bool) (tr : seq * bool) : list (seq * nat) :=
  let aas := fst tr in
  cleave_loop_pos protein_weights4 water4 (in_lim x) aas nf true
                  (bounds (in_rule x) (in_exc x) (tail || snd tr) aas).

(* (product, coordinate in the haplotype sequence of the codon of its first residue) under the permitted
   conventions of may_products *)
Definition may_products_pos (x : input) (h : list variant) : list (seq * Z) :=
  let hs := apply_hap (in_tx x) h in
  flat_map (fun st =>
    flat_map (fun secs =>
      map (fun qo => (fst qo, st + 3 * Z.of_nat (snd qo)))
          (products_pos x false true (translate_from hs st secs)))
      (may_secs x h))
    (may_starts x h hs).

(* ------------------------------------------------------------------ SECT-n *)
(* the product q (first codon at c) cut in front of the U that is translated from the Sec codon annotated at
   the REFERENCE position s of the transcript (shift h: reference -> haplotype coordinate) *)
Definition sect_forms_at (x : input) (h : list variant) (s : Z) (qc : seq * Z) : list seq :=
  filter (keepx x)
    (map (fun k => firstn k (fst qc))
         (filter (fun k => snd qc + 3 * Z.of_nat k =? shift h s) (u_pos (fst qc)))).

(* the peptides before the W>F step: no SECT id = no Sec codon terminates translation; one SECT id = the
   translation terminates at exactly that annotated Sec codon; translation cannot terminate twice *)
Definition pos_bases (x : input) (h : list variant) (sect_ids : list Z) : list seq :=
  match sect_ids with
  | [] => may_products x h
  | [s] => if memZ s (in_sec x)
           then flat_map (sect_forms_at x h s) (may_products_pos (unlimited x) h) else []
  | _ => []
  end.

(* ------------------------------------------------------------------ W2F-i *)
Fixpoint sublistb (s l : list nat) : bool :=
  match s, l with
  | [], _ => true
  | _ :: _, [] => false
  | a :: s', b :: l' => if Nat.eqb a b then sublistb s' l' else sublistb s l'
  end.

(* p = b with exactly the residues at the positions S (all of them W in b) replaced by F *)
Definition w2f_exact (x : input) (S : list nat) (b p : seq) : bool :=
  nonempty S && sublistb S (w_positions b) && eq_seq p (apply_w2f S b) && keepx x p.

(* ------------------------------------------------------------------ the decider *)
Definition witness_ok_pos (x : input) (p : seq) (ids : list nat) (sect_ids : list Z) (w2f_ids : list nat) : bool :=
  ids_ok x ids &&
  let h := named x ids in
  nonempty h && pairwise false h &&
  let base := pos_bases x h sect_ids in
  match w2f_ids with
  | [] => mem_seq p base
  | _ => existsb (fun b => w2f_exact x w2f_ids b p) base
  end.

(* ------------------------------------------------------------------ statements *)
(* Product (Model/SpecStmt.v) with the index of the first residue in the translation *)
Definition PosProduct (x : input) (nf tail : bool) (tr : seq * bool) (p : seq) (off : nat) : Prop :=
  exists pre a rest b,
    bounds (in_rule x) (in_exc x) (tail || snd tr) (fst tr) = pre ++ a :: rest /\
    In b (firstn (Z.to_nat (lim_k (in_lim x) + 1)) rest) /\
    keep protein_weights4 water4 (in_lim x) p = true /\
    ((p = piece (fst tr) a b /\ off = a) \/
     (pre = [] /\ nf = false /\ starts_with_M (piece (fst tr) a b) = true /\
      p = tl (piece (fst tr) a b) /\ off = S a)).

(* b = a digestion product q (at most k missed cleavages, limits lifted as in Model/SpecAlt.v) of a permitted
   translation of the transcript carrying h, cut in front of its residue number k, which is the U translated
   from the codon at the haplotype coordinate of the annotated Sec codon s *)
Definition SectAt (x : input) (h : list variant) (s : Z) (b : seq) : Prop :=
  In s (in_sec x) /\
  exists st secs q off k,
    let hs := apply_hap (in_tx x) h in
    In st (may_starts x h hs) /\ In secs (may_secs x h) /\
    PosProduct (unlimited x) false true (translate_from hs st secs) q off /\
    nth_error q k = Some Spec.U_code /\
    st + 3 * Z.of_nat (off + k) = shift h s /\
    b = firstn k q /\ keepx x b = true.

Definition WitnessPos (x : input) (p : seq) (ids : list nat) (sect_ids : list Z) (w2f_ids : list nat) : Prop :=
  (forall i, In i ids -> (i < length (in_vars x))%nat) /\
  let h := named x ids in
  nonempty h = true /\ pairwise false h = true /\
  exists b,
    match sect_ids with
    | [] => MayProduct x h b
    | [s] => SectAt x h s b
    | _ => False
    end /\
    match w2f_ids with
    | [] => p = b
    | _ => sublist w2f_ids (w_positions b) /\ p = apply_w2f w2f_ids b /\ keepx x p = true
    end.

(* translate with the coordinate of every residue: used to state that a U of a translation is read from an
   active Sec position and that removing that position from the active set terminates translation there *)
Fixpoint removeZ (a : Z) (l : list Z) : list Z :=
  match l with
  | [] => []
  | b :: l' => if a =? b then removeZ a l' else b :: removeZ a l'
  end.
