(* C16: faithful model (Level F) of parseRMATS:
     parser/RMATSParser/{SE,A5SS,A3SS,MXE,RI}Record.py : convert_to_variant_records
     seqvar/SplicingJunction.py : SpliceJunction.is_novel / align_to_transcript,
        SpliceJunctionTranscriptAlignment.{get_interjacent_exons, get_X_spanning, create_X,
        convert_to_variant_records}
     gtf: get_exon_with_start/end, get_exon_containing, has_junction, coordinate_genomic_to_gene
   plus the declarative GVF semantics (apply_record) and the alternative isoforms (the alt_ functions).
   Definitions only. *)
From MoPep Require Import Model.Base Gen.RmatsConst.
Open Scope Z_scope.

(* ------------------------------------------------------------------ data *)
Definition exon := (Z * Z)%type.                    (* genomic, 0-based half-open, ascending in a transcript *)
Record tx := mkTx { t_exons : list exon; t_start : Z; t_end : Z }.   (* t_start/t_end: transcript.location *)
Record gene := mkGene { g_strand : Z; g_start : Z; g_end : Z; g_txs : list tx }.
Record junction := mkJ { j_us : Z; j_ue : Z; j_ds : Z; j_de : Z }.

(* Python exceptions that can escape convert_to_variant_records *)
Inductive err := EValue | EIndex | EUnmodelled.
Inductive res (A : Type) := Ok (a : A) | Err (e : err).
Arguments Ok {A} a. Arguments Err {A} e.
Definition bind {A B} (r : res A) (f : A -> res B) : res B :=
  match r with Ok a => f a | Err e => Err e end.
Notation "'do' x <- r ; k" := (bind r (fun x => k)) (at level 200, x name, r at level 100, k at level 200).

Inductive rkind := KDel | KIns | KSub.
(* one VariantRecord.  r_src: 0 = built by SplicingJunction.create_*, 1 = built by RIRecord
   (attribute order / GENOMIC_POSITION format differ).  r_attr = START, END, DONOR_START, DONOR_END
   (0-based values as stored in attrs; -1 where the attribute is absent). *)
Record rec := mkRec {
  r_kind : rkind; r_src : Z; r_tx : Z;
  r_start : Z; r_end : Z; r_ref : Z;
  r_S : Z; r_E : Z; r_DS : Z; r_DE : Z;
  r_gp1 : Z; r_gp2 : Z }.

Definition zlength {A} (l : list A) : Z := Z.of_nat (length l).

(* ------------------------------------------------------------------ gtf helpers *)
Fixpoint find_start (ex : list exon) (s : Z) (i : Z) : Z :=        (* get_exon_with_start *)
  match ex with [] => -1 | (a, _) :: t => if a =? s then i else find_start t s (i + 1) end.
Fixpoint find_end (ex : list exon) (e : Z) (i : Z) : Z :=          (* get_exon_with_end *)
  match ex with [] => -1 | (_, b) :: t => if b =? e then i else find_end t e (i + 1) end.
Definition inside (x : exon) (p : Z) : bool := (fst x <=? p) && (p <? snd x).   (* pos in exon.location *)
Fixpoint find_containing (ex : list exon) (p : Z) (i : Z) : Z :=   (* get_exon_containing *)
  match ex with [] => -1 | x :: t => if inside x p then i else find_containing t p (i + 1) end.

Fixpoint has_junction (ex : list exon) (a b : Z) : bool :=
  match ex with
  | e1 :: t =>
      match t with
      | e2 :: _ =>
          if fst e2 >? b then false
          else if (snd e1 =? a) && (fst e2 =? b) then true
          else has_junction t a b
      | [] => false
      end
  | [] => false
  end.


Definition g2gene (g : gene) (idx : Z) : res Z :=                  (* coordinate_genomic_to_gene *)
  if (g_start g <=? idx) && (idx <? g_end g) then
    Ok (if g_strand g =? 1 then idx - g_start g else g_end g - 1 - idx)
  else Err EValue.

Definition seq_at (s : list Z) (i : Z) : res Z :=                   (* str(gene_seq.seq[i]), i >= 0 *)
  if i <? 0 then Err EUnmodelled else
  match nth_error s (Z.to_nat i) with Some c => Ok c | None => Err EIndex end.

Definition exon_at (ex : list exon) (i : Z) : res exon :=
  if i <? 0 then Err EUnmodelled else
  match nth_error ex (Z.to_nat i) with Some x => Ok x | None => Err EIndex end.

(* FeatureLocation(start, end) raises ValueError when end < start *)
Definition mkloc (s e : Z) : res unit := if e <? s then Err EValue else Ok tt.

(* is_novel builds FeatureLocation(start=upstream_end, end=downstream_start) first *)
Definition is_novel (g : gene) (j : junction) : res bool :=
  do _ <- mkloc (j_ue j) (j_ds j);
  Ok (negb (existsb (fun t => has_junction (t_exons t) (j_ue j) (j_ds j)) (g_txs g))).

(* `not a.is_novel(anno) and not b.is_novel(anno) and ...` with python short-circuit: Ok true = all annotated *)
Fixpoint all_annotated (g : gene) (js : list junction) : res bool :=
  match js with
  | [] => Ok true
  | j :: t => do n <- is_novel g j; if n then Ok false else all_annotated g t
  end.

(* ------------------------------------------------------------------ alignment *)
Record aln := mkAln { a_j : junction; a_ex : list exon;
  a_usi : Z; a_uei : Z; a_dsi : Z; a_dei : Z; a_un : bool; a_dn : bool }.

Definition align (j : junction) (ex : list exon) (un dn : bool) : option aln :=
  let usi := find_start ex (j_us j) 0 in
  let uei := find_end ex (j_ue j) 0 in
  let dsi := find_start ex (j_ds j) 0 in
  let dei := find_end ex (j_de j) 0 in
  if un && (dsi =? -1) then None
  else if dn && (uei =? -1) then None
  else Some (mkAln j ex usi uei dsi dei un dn).

(* forward scan of get_interjacent_exons over exon[i:] *)
Fixpoint scan_fwd (l : list exon) (ue ds : Z) (i : Z) : list Z :=
  match l with
  | [] => []
  | (s, e) :: t =>
      (if (ue <=? s) && (s <? e) && (e <=? ds) then [i] else []) ++
      (if (e <=? ue) || (s >=? ds) then [] else scan_fwd t ue ds (i + 1))
  end.
(* backward scan: l is the reversed prefix exon[:dsi], i the index of its head *)
Fixpoint scan_bwd (l : list exon) (ue ds : Z) (i : Z) : list Z :=
  match l with
  | [] => []
  | (s, e) :: t =>
      (if (ue <=? s) && (s <? e) && (e <=? ds) then [i] else []) ++
      (if (e <=? ue) || (s >=? ds) then [] else scan_bwd t ue ds (i - 1))
  end.

Definition prefix (ex : list exon) (n : Z) : list exon := firstn (Z.to_nat n) ex.
Definition suffix (ex : list exon) (n : Z) : list exon := skipn (Z.to_nat n) ex.

Definition interjacent (a : aln) : res (list Z) :=
  let ex := a_ex a in let j := a_j a in
  if (a_uei a =? 0) && (a_dsi a =? 0) then Err EValue     (* `not 0 and not 0` *)
  else if a_uei a >? -1 then
    if a_uei a + 1 =? zlength ex then Ok []
    else Ok (scan_fwd (suffix ex (a_uei a + 1)) (j_ue j) (j_ds j) (a_uei a + 1))
  else
    if a_dsi a =? 0 then Ok []
    else if a_dsi a <? 0 then Ok []                          (* range(-2, -1, -1) is empty *)
    else Ok (rev (scan_bwd (rev (prefix ex (a_dsi a))) (j_ue j) (j_ds j) (a_dsi a - 1))).

Fixpoint first_containing_bwd (l : list exon) (p : Z) (i : Z) : Z :=
  match l with [] => -1 | x :: t => if inside x p then i else first_containing_bwd t p (i - 1) end.

Definition upstream_end_spanning (a : aln) : Z :=
  let p := j_ue (a_j a) - 1 in
  if a_dsi a =? -1 then find_containing (a_ex a) p 0
  else first_containing_bwd (rev (prefix (a_ex a) (a_dsi a))) p (a_dsi a - 1).

Definition downstream_start_spanning (a : aln) : Z :=
  let p := j_ds (a_j a) in
  if a_uei a =? -1 then find_containing (a_ex a) p 0
  else find_containing (suffix (a_ex a) (a_uei a + 1)) p (a_uei a + 1).

Definition hdZ (l : list Z) : res Z := match l with x :: _ => Ok x | [] => Err EIndex end.
Definition lastZ (l : list Z) : res Z := match rev l with x :: _ => Ok x | [] => Err EIndex end.
Definition nonempty {A} (l : list A) : bool := match l with [] => false | _ => true end.

Section Create.
Variable g : gene.
Variable gseq : list Z.
Variable txi : Z.

Definition finish_del (genomic_start genomic_end start0 end0 : Z) : res rec :=
  let '(s, e) := if g_strand g =? -1 then (end0, start0) else (start0, end0) in
  let e := e + 1 in
  do ref <- seq_at gseq s;
  do _ <- mkloc s e;
  Ok (mkRec KDel 0 txi s e ref s e (-1) (-1) (genomic_start + 1) genomic_end).

Definition create_upstream_deletion (a : aln) (spanning : Z) (inter : list Z) : res rec :=
  let ex := a_ex a in
  do sp <- exon_at ex spanning;
  do genomic_start <-
     (if snd sp =? j_ue (a_j a) then do i0 <- hdZ inter; do x <- exon_at ex i0; Ok (fst x)
      else Ok (j_ue (a_j a)));
  do start0 <- g2gene g genomic_start;
  do genomic_end <-
     (if nonempty inter then do il <- lastZ inter; do x <- exon_at ex il; Ok (snd x)
      else Ok (snd sp));
  do end0 <- g2gene g (genomic_end - 1);
  finish_del genomic_start genomic_end start0 end0.

Definition create_downstream_deletion (a : aln) (spanning : Z) (inter : list Z) : res rec :=
  let ex := a_ex a in
  do genomic_start <-
     (if nonempty inter then do i0 <- hdZ inter; do x <- exon_at ex i0; Ok (fst x)
      else do sp <- exon_at ex spanning; Ok (fst sp));
  do start0 <- g2gene g genomic_start;
  do sp <- exon_at ex spanning;
  do genomic_end <-
     (if j_ds (a_j a) =? fst sp then do il <- lastZ inter; do x <- exon_at ex il; Ok (snd x)
      else Ok (j_ds (a_j a)));
  do end0 <- g2gene g (genomic_end - 1);
  finish_del genomic_start genomic_end start0 end0.

Definition finish_sub (genomic_start genomic_end start0 end0 dstart0 dend0 : Z) : res rec :=
  let '(s, e) := if g_strand g =? -1 then (end0, start0) else (start0, end0) in
  let '(ds, de) := if g_strand g =? -1 then (dend0, dstart0) else (dstart0, dend0) in
  let e := e + 1 in let de := de + 1 in
  do ref <- seq_at gseq s;
  do _ <- mkloc s e;
  Ok (mkRec KSub 0 txi s e ref s e ds de (genomic_start + 1) genomic_end).

Definition create_upstream_substitution (a : aln) (inter : list Z) : res rec :=
  let ex := a_ex a in let j := a_j a in
  do i0 <- hdZ inter; do x0 <- exon_at ex i0;
  let genomic_start := fst x0 in
  do start0 <- g2gene g genomic_start;
  do il <- lastZ inter; do xl <- exon_at ex il;
  let genomic_end := snd xl in
  do end0 <- g2gene g (genomic_end - 1);
  do gds <- (if i0 >? 0 then do p <- exon_at ex (i0 - 1); Ok (Z.max (snd p) (j_us j)) else Ok (j_us j));
  do dstart0 <- g2gene g gds;
  do dend0 <- g2gene g (j_ue j - 1);
  finish_sub genomic_start genomic_end start0 end0 dstart0 dend0.

Definition create_downstream_substitution (a : aln) (inter : list Z) : res rec :=
  let ex := a_ex a in let j := a_j a in
  do i0 <- hdZ inter; do x0 <- exon_at ex i0;
  let genomic_start := fst x0 in
  do start0 <- g2gene g genomic_start;
  do il <- lastZ inter; do xl <- exon_at ex il;
  let genomic_end := snd xl in
  do end0 <- g2gene g (genomic_end - 1);
  do dstart0 <- g2gene g (j_ds j);
  do gde <- (if il <? zlength ex - 1 then do n <- exon_at ex (il + 1); Ok (Z.min (fst n) (j_de j)) else Ok (j_de j));
  do dend0 <- g2gene g (gde - 1);
  finish_sub genomic_start genomic_end start0 end0 dstart0 dend0.

Definition finish_ins (insert_pos_genomic dstart dend : Z) : res rec :=
  do ip <- g2gene g insert_pos_genomic;
  do ds <- g2gene g dstart;
  do de0 <- g2gene g dend;
  let de := de0 + 1 in
  do ref <- seq_at gseq ip;
  Ok (mkRec KIns 0 txi ip (ip + 1) ref (-1) (-1) ds de (insert_pos_genomic + 1) (insert_pos_genomic + 2)).

Definition create_upstream_insertion (a : aln) : res rec :=
  let ex := a_ex a in let j := a_j a in
  if a_dsi a <=? 0 then Err EValue else
  do p <- exon_at ex (a_dsi a - 1);
  if g_strand g =? 1 then
    finish_ins (snd p - 1) (Z.max (snd p) (j_us j)) (j_ue j - 1)
  else
    finish_ins (j_ds j) (j_ue j - 1) (Z.max (snd p) (j_us j)).

Definition create_downstream_insertion (a : aln) : res rec :=
  let ex := a_ex a in let j := a_j a in
  if a_uei a =? -1 then Err EValue else
  if a_usi a =? zlength ex - 1 then Err EValue else
  do n <- exon_at ex (a_uei a + 1);
  if g_strand g =? 1 then
    finish_ins (j_ue j - 1) (j_ds j) (Z.min (fst n - 1) (j_de j - 1))
  else
    finish_ins (fst n) (Z.min (fst n - 1) (j_de j - 1)) (j_ds j).

Definition one (r : res rec) : res (list rec) := do x <- r; Ok [x].

(* the "upstream" arm and the "downstream" arm of the cascade *)
Definition up_arm (a : aln) (inter : list Z) (with_ins : bool) : res (list rec) :=
  if (a_uei a =? -1) || nonempty inter then
    let spanning := upstream_end_spanning a in
    if spanning >? -1 then one (create_upstream_deletion a spanning inter)
    else if nonempty inter then one (create_upstream_substitution a inter)
    else if with_ins && (a_dsi a >? 0) then one (create_upstream_insertion a)
    else Ok []
  else Ok [].

Definition down_arm (a : aln) (inter : list Z) (with_ins : bool) : res (list rec) :=
  if (a_dsi a =? -1) || nonempty inter then
    let spanning := downstream_start_spanning a in
    if spanning >? -1 then one (create_downstream_deletion a spanning inter)
    else if nonempty inter then one (create_downstream_substitution a inter)
    else if with_ins && (-1 <? a_dei a) && (a_dei a <? zlength (a_ex a) - 1) then one (create_downstream_insertion a)
    else Ok []
  else Ok [].

(* SpliceJunctionTranscriptAlignment.convert_to_variant_records *)
Definition aln_convert (t : tx) (a : aln) : res (list rec) :=
  do inter <- interjacent a;
  do v1 <- (if a_un a then up_arm a inter true else Ok []);
  do v2 <- (if a_dn a then down_arm a inter true else Ok []);
  do v3 <-
    (if negb (a_dn a) && negb (a_un a) then
       let strand := g_strand g in
       let is_upstream_aligned := ((strand =? 1) && negb (a_uei a =? -1)) || ((strand =? -1) && negb (a_dsi a =? -1)) in
       let is_after_tx_start := ((strand =? 1) && (t_start t <? j_ue (a_j a))) || ((strand =? -1) && (t_end t >? j_ds (a_j a) + 1)) in
       if is_upstream_aligned && is_after_tx_start then
         if strand =? 1 then down_arm a inter false else up_arm a inter false
       else Ok []
     else Ok []);
  Ok (v1 ++ v2 ++ v3).

(* junction.align_to_transcript(...) ; if aln: variants += aln.convert_to_variant_records *)
Definition junction_records (t : tx) (j : junction) (un dn : bool) : res (list rec) :=
  match align j (t_exons t) un dn with
  | None => Ok []
  | Some a => aln_convert t a
  end.
End Create.

(* iterate the gene's transcripts, concatenating, first exception wins *)
Fixpoint over_txs {A} (f : Z -> tx -> res (list A)) (l : list tx) (i : Z) : res (list A) :=
  match l with
  | [] => Ok []
  | t :: rest => do a <- f i t; do b <- over_txs f rest (i + 1); Ok (a ++ b)
  end.

Definition seq2 {A} (a b : res (list A)) : res (list A) := do x <- a; do y <- b; Ok (x ++ y).

(* ------------------------------------------------------------------ the five record classes *)
(* each returns (variant-id numbers, records) *)
Record counts := mkCounts { ijc : Z; sjc : Z; min_ijc : Z; min_sjc : Z }.

(* SE: cols = exon (es,ee), upstream (us,ue), downstream (ds,de) *)
Definition se_id (g : gene) (es ee ue ds : Z) : res (list Z) :=
  do uee <- g2gene g (ue - 1); do es' <- g2gene g es; do ee' <- g2gene g (ee - 1); do des <- g2gene g ds;
  let '(es', ee') := if g_strand g =? -1 then (ee', es') else (es', ee') in
  let '(uee, des) := if g_strand g =? -1 then (des, uee) else (uee, des) in
  Ok [uee; es'; ee' + 1; des + 1].

Definition se_convert (g : gene) (gseq : list Z) (es ee us ue ds de : Z) (c : counts) : res (list Z * list rec) :=
  let skipj := mkJ us ue ds de in let upj := mkJ us ue es ee in let downj := mkJ es ee ds de in
  do known <- all_annotated g [skipj; upj; downj];
  if known then Ok ([], []) else
  do id <- se_id g es ee ue ds;
  do rs <- over_txs (fun i t =>
      seq2 (if sjc c >=? min_sjc c then junction_records g gseq i t skipj false false else Ok [])
           (if ijc c >=? min_ijc c then
              seq2 (junction_records g gseq i t upj false true) (junction_records g gseq i t downj true false)
            else Ok [])) (g_txs g) 0;
  Ok (id, rs).

(* A5SS / A3SS: cols = long (ls,le), short (ss,se), flanking (fs,fe) *)
Definition a5_id (g : gene) (ls le ss se fs fe : Z) : res (list Z) :=
  if g_strand g =? 1 then
    do a <- g2gene g (le - 1); do b <- g2gene g (se - 1); do c <- g2gene g fs; Ok [a + 1; b + 1; c]
  else
    do a <- g2gene g ls; do b <- g2gene g ss; do c <- g2gene g (fe - 1); Ok [a + 1; b + 1; c].
Definition a3_id (g : gene) (ls le ss se fs fe : Z) : res (list Z) :=
  if g_strand g =? 1 then
    do a <- g2gene g (fe - 1); do b <- g2gene g ls; do c <- g2gene g ss; Ok [a + 1; b; c]
  else
    do a <- g2gene g fs; do b <- g2gene g (le - 1); do c <- g2gene g (se - 1); Ok [a + 1; b; c].

Definition ss_convert (five : bool) (g : gene) (gseq : list Z) (ls le ss se fs fe : Z) (c : counts)
  : res (list Z * list rec) :=
  let exon_first := if five then g_strand g =? 1 else negb (g_strand g =? 1) in
  (* exon_first: the alternative exon is the junction's upstream side *)
  let longj := if exon_first then mkJ ls le fs fe else mkJ fs fe ls le in
  let shortj := if exon_first then mkJ ss se fs fe else mkJ fs fe ss se in
  do known <- all_annotated g [longj; shortj];
  if known then Ok ([], []) else
  do id <- (if five then a5_id g ls le ss se fs fe else a3_id g ls le ss se fs fe);
  let un := exon_first in let dn := negb exon_first in
  do rs <- over_txs (fun i t =>
      seq2 (if ijc c >=? min_ijc c then junction_records g gseq i t longj un dn else Ok [])
           (if sjc c >=? min_sjc c then junction_records g gseq i t shortj un dn else Ok [])) (g_txs g) 0;
  Ok (id, rs).

(* MXE: first (f1s,f1e), second (f2s,f2e), upstream (us,ue), downstream (ds,de) *)
Definition mxe_id (g : gene) (f1s f1e f2s f2e ue ds : Z) : res (list Z) :=
  do uee <- g2gene g (ue - 1); do fes <- g2gene g f1s; do fee <- g2gene g (f1e - 1);
  do ses <- g2gene g f2s; do see <- g2gene g (f2e - 1); do des <- g2gene g ds;
  if g_strand g =? -1 then Ok [des + 1; fee; fes + 1; see; ses + 1; uee]
  else Ok [uee + 1; fes; fee + 1; ses; see + 1; des].

(* set(variants): an element is dropped when an earlier one is == and has the same hash.
   __eq__: location (start,end), ref, alt, type ; __hash__ adds START, END, DONOR_START, DONOR_END *)
Definition kind_code (k : rkind) : Z := match k with KDel => 0 | KIns => 1 | KSub => 2 end.
(* the alt string: '<DEL>', '<SUB>', '<Ins>' from SplicingJunction.create_*_insertion but '<INS>' from RIRecord *)
Definition alt_code (r : rec) : Z := match r_kind r with KIns => 10 + r_src r | k => kind_code k end.
Definition same_key (a b : rec) : bool :=
  (r_start a =? r_start b) && (r_end a =? r_end b) && (r_ref a =? r_ref b) &&
  (kind_code (r_kind a) =? kind_code (r_kind b)) && (alt_code a =? alt_code b) &&
  (r_S a =? r_S b) && (r_E a =? r_E b) && (r_DS a =? r_DS b) && (r_DE a =? r_DE b).
Fixpoint dedup_first (same : rec -> rec -> bool) (seen l : list rec) : list rec :=
  match l with
  | [] => []
  | x :: t => if existsb (same x) seen then dedup_first same seen t else x :: dedup_first same (x :: seen) t
  end.

Definition mxe_convert (g : gene) (gseq : list Z) (f1s f1e f2s f2e us ue ds de : Z) (c : counts)
  : res (list Z * list rec) :=
  let fdj := mkJ f1s f1e ds de in let suj := mkJ us ue f2s f2e in
  do known <- all_annotated g [fdj; suj];
  if known then Ok ([], []) else
  do id <- mxe_id g f1s f1e f2s f2e ue ds;
  do rs <- over_txs (fun i t =>
      seq2 (if ijc c >=? min_ijc c then junction_records g gseq i t fdj true false else Ok [])
           (if sjc c >? min_sjc c then junction_records g gseq i t suj false true else Ok [])) (g_txs g) 0;
  Ok (id, dedup_first same_key [] rs).

(* RI: only upstream end (ue) and downstream start (ds) are used *)
(* `exon_start < ue < ds < exon_end - k` ; k is read from the source on every run (Gen/RmatsConst.v) *)
Definition ri_cond (x : exon) (ue ds : Z) : Z :=
  if (fst x <? ue) && (ue <? ds) && (ds <? snd x - ri_end_slack) then 1 else 0.
Fixpoint ri_scan (l : list exon) (ue ds : Z) : bool * Z :=          (* (spliced, #retained appends) *)
  match l with
  | [] => (false, 0)
  | x :: t =>
      if snd x =? ue then
        match t with
        | [] => (false, 0)
        | y :: t2 =>
            if fst y =? ds then (true, 0)
            else let '(sp, n) := ri_scan t2 ue ds in (sp, ri_cond y ue ds + n)
        end
      else let '(sp, n) := ri_scan t ue ds in (sp, ri_cond x ue ds + n)
  end.

Fixpoint ri_lists (l : list tx) (ue ds : Z) (i : Z) : list Z * list Z :=   (* spliced_in_ref, retained_in_ref *)
  match l with
  | [] => ([], [])
  | t :: rest =>
      let '(sp, n) := ri_scan (t_exons t) ue ds in
      let '(a, b) := ri_lists rest ue ds (i + 1) in
      ((if sp then [i] else []) ++ a, repeat i (Z.to_nat n) ++ b)
  end.

Fixpoint map_res {A B} (f : A -> res B) (l : list A) : res (list B) :=
  match l with [] => Ok [] | x :: t => do y <- f x; do ys <- map_res f t; Ok (y :: ys) end.

Definition ri_convert (g : gene) (gseq : list Z) (ue ds : Z) (c : counts) : res (list Z * list rec) :=
  let '(spliced, retained) := ri_lists (g_txs g) ue ds 0 in
  do sg0 <- g2gene g ue;
  do eg0 <- g2gene g (ds - 1);
  let '(sg, eg) := if g_strand g =? -1 then (eg0, sg0) else (sg0, eg0) in
  let eg := eg + 1 in
  do v1 <-
    (if negb (nonempty retained) && (ijc c >=? min_ijc c) then
       let ip := sg - 1 in            (* ip = -1 (python negative index) is outside the model: seq_at -> EUnmodelled *)
       map_res (fun i => do ref <- seq_at gseq ip;
                         Ok (mkRec KIns 1 i ip (ip + 1) ref (-1) (-1) sg eg ue ds)) spliced
     else Ok []);
  do v2 <-
    (if negb (nonempty spliced) && (sjc c >=? min_sjc c) then
       do _ <- mkloc sg eg;
       map_res (fun i => do ref <- seq_at gseq sg;
                         Ok (mkRec KDel 1 i sg eg ref sg eg (-1) (-1) ue ds)) retained
     else Ok []);
  Ok ([sg; eg], v1 ++ v2).

(* ------------------------------------------------------------------ declarative GVF semantics *)
Definition comp (c : Z) : Z :=
  if c =? 65 then 84 else if c =? 84 then 65 else if c =? 67 then 71 else if c =? 71 then 67 else c.
Definition revcomp (s : list Z) : list Z := rev (map comp s).

Definition exons_seq (chrom : list Z) (ex : list exon) : list Z :=
  flat_map (fun x => slice chrom (fst x) (snd x)) ex.
Fixpoint exons_len (ex : list exon) : Z :=
  match ex with [] => 0 | x :: t => (snd x - fst x) + exons_len t end.

Definition tx_seq (strand : Z) (chrom : list Z) (ex : list exon) : list Z :=
  if strand =? 1 then exons_seq chrom ex else revcomp (exons_seq chrom ex).
Definition gene_seq (strand : Z) (chrom : list Z) (gs ge : Z) : list Z :=
  if strand =? 1 then slice chrom gs ge else revcomp (slice chrom gs ge).

Fixpoint pos_in_exons (ex : list exon) (p : Z) (acc : Z) : option Z :=
  match ex with
  | [] => None
  | x :: t => if inside x p then Some (acc + (p - fst x)) else pos_in_exons t p (acc + (snd x - fst x))
  end.

(* gene coordinate -> transcript coordinate (None: intronic / outside) *)
Definition gene2tx (strand gs ge : Z) (ex : list exon) (i : Z) : option Z :=
  let p := if strand =? 1 then gs + i else ge - 1 - i in
  match pos_in_exons ex p 0 with
  | None => None
  | Some q => Some (if strand =? 1 then q else exons_len ex - 1 - q)
  end.

Definition take (s : list Z) (n : Z) := firstn (Z.to_nat n) s.
Definition drop (s : list Z) (n : Z) := skipn (Z.to_nat n) s.

(* documented semantics (docs/file-format.md 1.4, DESIGN Appendix A):
   Deletion: transcript[START,END) removed; Insertion: gene[DONOR_START,DONOR_END) inserted after POS;
   Substitution: transcript[START,END) replaced by gene[DONOR_START,DONOR_END).  START/END/POS are gene
   coordinates, END-1 is the last affected base. *)
Definition apply_record (conv : Z -> option Z) (t gseq : list Z) (r : rec) : option (list Z) :=
  match r_kind r with
  | KDel =>
      match conv (r_S r), conv (r_E r - 1) with
      | Some a, Some b => if a <=? b then Some (take t a ++ drop t (b + 1)) else None
      | _, _ => None
      end
  | KIns =>
      match conv (r_start r) with
      | Some p => Some (take t (p + 1) ++ slice gseq (r_DS r) (r_DE r) ++ drop t (p + 1))
      | None => None
      end
  | KSub =>
      match conv (r_S r), conv (r_E r - 1) with
      | Some a, Some b => if a <=? b then Some (take t a ++ slice gseq (r_DS r) (r_DE r) ++ drop t (b + 1)) else None
      | _, _ => None
      end
  end.

(* ------------------------------------------------------------------ alternative isoforms (exon lists) *)
Definition exon_eqb (a b : exon) : bool := (fst a =? fst b) && (snd a =? snd b).

(* SE on a transcript: ... U E D ...  ->  ... U D ... ;   ... U D ...  ->  ... U E D ... *)
Fixpoint alt_se (ex : list exon) (U E D : exon) : option (list exon) :=
  match ex with
  | a :: t =>
      if exon_eqb a U then
        match t with
        | b :: t2 =>
            if exon_eqb b D then Some (a :: E :: t)
            else if exon_eqb b E then
              match t2 with
              | c :: _ => if exon_eqb c D then Some (a :: t2) else None
              | [] => None
              end
            else None
        | [] => None
        end
      else option_map (cons a) (alt_se t U E D)
  | [] => None
  end.

(* alternative splice site: the exon whose relevant end is `from` (next to / before the exon that
   starts at / ends at the flanking boundary) gets that end moved to `to`.
   at_end = true : ... (s, from) (fs, _) ...  ->  (s, to) ;  at_end = false : ... (_, fe) (from, e) ... -> (to, e) *)
Fixpoint alt_ss (ex : list exon) (at_end : bool) (from to flank : Z) : option (list exon) :=
  match ex with
  | a :: t =>
      match t with
      | b :: t2 =>
          if at_end && (snd a =? from) && (fst b =? flank) && (fst a <? to) then Some ((fst a, to) :: t)
          else if negb at_end && (snd a =? flank) && (fst b =? from) && (to <? snd b) then Some (a :: (to, snd b) :: t2)
          else option_map (cons a) (alt_ss t at_end from to flank)
      | [] => None
      end
  | [] => None
  end.

(* MXE:  ... U X D ...  ->  ... U Y D ...   (X, Y the two exclusive exons) *)
Fixpoint alt_mxe (ex : list exon) (U X Y D : exon) : option (list exon) :=
  match ex with
  | a :: t =>
      if exon_eqb a U then
        match t with
        | b :: c :: t3 => if exon_eqb b X && exon_eqb c D then Some (a :: Y :: c :: t3) else None
        | _ => None
        end
      else option_map (cons a) (alt_mxe t U X Y D)
  | [] => None
  end.

(* RI:  ... (s,ue) (ds,e) ...  ->  ... (s,e) ...   ;   ... (s,e) ... with s < ue < ds < e  ->  (s,ue) (ds,e) *)
Fixpoint alt_ri (ex : list exon) (ue ds : Z) : option (list exon) :=
  match ex with
  | a :: t =>
      if (fst a <? ue) && (ue <? ds) && (ds <? snd a) then Some ((fst a, ue) :: (ds, snd a) :: t)
      else
        match t with
        | b :: t2 =>
            if (snd a =? ue) && (fst b =? ds) then Some ((fst a, snd b) :: t2)
            else option_map (cons a) (alt_ri t ue ds)
        | [] => None
        end
  | [] => None
  end.

(* Imposing one junction ue -> ds on a transcript whose exons do NOT lie next to each other at the junction (exons of the
   transcript inside the new junction, or the far end of the junction inside an exon): the exon holding ue is cut at ue,
   every exon in between is dropped, the exon holding ds starts at ds.  This is the alternative isoform of the
   'interjacent' shapes (SE skipping junction over several exons, A5SS/A3SS short site with an extra exon in the intron);
   the theorems of Props/C16.v cover the adjacent shapes (alt_se, alt_ss, alt_ri, alt_mxe), the interjacent ones are
   checked by the declarative python check (harness/props/c16.py:impose_junction) and the model correspondence. *)
Fixpoint enter_at (l : list exon) (ds : Z) : option (list exon) :=
  match l with
  | [] => None
  | b :: t => if (fst b <=? ds) && (ds <? snd b) then Some ((ds, snd b) :: t) else enter_at t ds
  end.
Fixpoint impose_junction (ex : list exon) (ue ds : Z) : option (list exon) :=
  match ex with
  | [] => None
  | a :: t =>
      if (fst a <? ue) && (ue <=? snd a) && (ue <? ds) then option_map (cons (fst a, ue)) (enter_at t ds)
      else option_map (cons a) (impose_junction t ue ds)
  end.

(* ------------------------------------------------------------------ CLI aggregation (parse_rmats) *)
(* variants[tx_id] is a set: first inserted wins among records that are == with equal hash *)
Definition same_key_tx (a b : rec) : bool := (r_tx a =? r_tx b) && same_key a b.
