(* C11 -- byte accounting of GTFPointer.iterate_pointer over a list of lines given as byte strings.

       line_end = 0
       for line in handle:                      # bytes, newline included
           line_start = line_end
           line_end += len(line)                # BYTES, before decoding
           line = line.decode('utf-8')
           if line.startswith('#'): continue
           record = line_to_seq_feature(line)
           if record.type.lower() == 'gene':
               yield cur_gene_pointer / cur_tx_pointer (when set)
               cur_gene_pointer = GenePointer(key, line_start, line_end); cur_tx_id = cur_tx_pointer = None
           else:
               if cur_tx_id != record.transcript_id:
                   yield cur_tx_pointer (when set)
                   cur_tx_id = record.transcript_id
                   cur_tx_pointer = TranscriptPointer(cur_tx_id, line_start, line_end)
               else:
                   cur_tx_pointer.end = line_end
               if cur_gene_pointer: cur_gene_pointer.transcripts.add(cur_tx_id)
       yield cur_gene_pointer / cur_tx_pointer (when set)

   What a line IS (comment, gene record with id g, other record with transcript id t) is decided by
   the text parser; here it is a tag supplied with the bytes.  Keys are abstract integers.
   *Pointer.load reads bytes [start, end) of the file.  Definitions only. *)
From MoPep Require Import Model.Base.
Open Scope Z_scope.

Inductive lkind := LComment | LGene (g : Z) | LRec (t : Z).
Definition line := (list Z * lkind)%type.

Record ptr := mkPtr { p_isgene : bool; p_key : Z; p_start : Z; p_end : Z; p_txs : list Z }.

Record ist := mkI { i_end : Z; i_gene : option ptr; i_tx : option ptr; i_txid : option Z; i_out : list ptr }.

Definition init_ist : ist := mkI 0 None None None [].

Definition opt_list {A} (o : option A) : list A := match o with Some x => [x] | None => [] end.

(* set.add *)
Definition add_tx (t : Z) (p : ptr) : ptr :=
  if memZ t (p_txs p) then p else mkPtr (p_isgene p) (p_key p) (p_start p) (p_end p) (p_txs p ++ [t]).

Definition set_end (e : Z) (p : ptr) : ptr := mkPtr (p_isgene p) (p_key p) (p_start p) e (p_txs p).

Definition istep (st : ist) (l : line) : ist :=
  let ls := i_end st in
  let le := ls + zlen (fst l) in
  match snd l with
  | LComment => mkI le (i_gene st) (i_tx st) (i_txid st) (i_out st)
  | LGene g =>
      mkI le (Some (mkPtr true g ls le [])) None None
          (i_out st ++ opt_list (i_gene st) ++ opt_list (i_tx st))
  | LRec t =>
      let same := match i_txid st with Some t' => t' =? t | None => false end in
      if same then
        mkI le (option_map (add_tx t) (i_gene st)) (option_map (set_end le) (i_tx st)) (Some t) (i_out st)
      else
        mkI le (option_map (add_tx t) (i_gene st)) (Some (mkPtr false t ls le [])) (Some t)
            (i_out st ++ opt_list (i_tx st))
  end.

Definition finish (st : ist) : list ptr := i_out st ++ opt_list (i_gene st) ++ opt_list (i_tx st).

(* the pointers in the order iterate_pointer yields them *)
Definition iterate (ls : list line) : list ptr := finish (fold_left istep ls init_ist).

Definition bytes_of (ls : list line) : list Z := flat_map fst ls.

(* *Pointer.load: handle.seek(start); handle.read(end - start) *)
Definition load_range (ls : list line) (p : ptr) : list Z := slice (bytes_of ls) (p_start p) (p_end p).

(* ---- files in which every entity is contiguous: comment lines, gene lines, and blocks of >= 1
        consecutive records of one transcript ---- *)
Inductive item := IComment (b : list Z) | IGene (g : Z) (b : list Z) | IBlock (t : Z) (b0 : list Z) (bs : list (list Z)).

Definition item_lines (it : item) : list line :=
  match it with
  | IComment b => [(b, LComment)]
  | IGene g b => [(b, LGene g)]
  | IBlock t b0 bs => map (fun b => (b, LRec t)) (b0 :: bs)
  end.

Definition flat (items : list item) : list line := flat_map item_lines items.

Definition item_tid (it : item) : list Z := match it with IBlock t _ _ => [t] | _ => [] end.
Definition tids (items : list item) : list Z := flat_map item_tid items.
