(* C07 -- the property's statement (hand-written, independent of the wrapper model's control flow and of
   the shape read from the source): which sequences a run must report, what the tally must say, when
   the command must abort.  Definitions only. *)
From MoPep Require Import Model.Base Model.Wrapper.
Open Scope Z_scope.

Definition opt_list {A} (o : option A) : list A := match o with Some a => [a] | None => [] end.

(* the processing units of a transcript: main call, each fusion, each circRNA *)
Definition all_units (t : txin) : list unit_ := opt_list (t_main t) ++ t_fusions t ++ t_circs t.

(* the transcript is handed to the wrapper *)
Definition live (t : txin) : bool := negb (t_invalid t) && negb (t_empty t).

(* [s] is a peptide of a non-failing unit of a processed transcript (and passes the per-sequence
   validity filter of the peptide table) *)
Definition reported (valid : seq -> bool) (txs : list txin) (s : seq) : Prop :=
  valid s = true /\
  exists t u, In t txs /\ live t = true /\ In u (all_units t) /\ u_fail u = false /\ In s (keys (u_raw u)).

Definition countb {A} (f : A -> bool) (l : list A) : Z := zlen (filter f l).
Definition main_failed (t : txin) : bool := match t_main t with Some u => u_fail u | None => false end.
Definition fusion_failed (t : txin) : bool := existsb u_fail (t_fusions t).
Definition circ_failed (t : txin) : bool := existsb u_fail (t_circs t).

(* the logged summary is the projection of the failure set: per kind, the number of processed
   transcripts with a failing unit of that kind *)
Definition tally_spec (txs : list txin) (n_out : Z) (tl : tally) : Prop :=
  n_total tl = zlen txs /\
  n_processed tl = countb live txs /\
  n_invalid tl = countb t_invalid txs /\
  f_variant tl = countb (fun t => live t && main_failed t) txs /\
  f_fusion tl = countb (fun t => live t && fusion_failed t) txs /\
  f_circ tl = countb (fun t => live t && circ_failed t) txs /\
  n_valid tl = n_out.

(* something fails: an invalid series (of the transcript itself, or of the accepter of one of its fusions),
   or a unit of a processed transcript *)
Definition any_failure (txs : list txin) : bool :=
  existsb (fun t => t_invalid t || (live t && (t_acc_invalid t || existsb u_fail (all_units t)))) txs.

Definition completes (r : cres) (fasta : pmap) (tl : tally) : Prop :=
  r = {| r_exc := None; r_fasta := Some fasta; r_tally := Some tl |}.

(* the command ends with an exception; no FASTA, no summary *)
Definition aborts (r : cres) : Prop :=
  exists e, r = {| r_exc := Some e; r_fasta := None; r_tally := None |}.

(* the input from which exactly the failing units (and the invalid series) are absent *)
Definition u_ok (u : unit_) : bool := negb (u_fail u).
Definition remove_failed (t : txin) : txin :=
  {| t_id := t_id t; t_invalid := t_invalid t; t_empty := t_empty t; t_acc_invalid := false;
     t_main := match t_main t with Some u => if u_fail u then None else Some u | None => None end;
     t_fusions := filter u_ok (t_fusions t); t_circs := filter u_ok (t_circs t) |}.
Definition without_failures (txs : list txin) : list txin :=
  map remove_failed (filter (fun t => negb (t_invalid t)) txs).

Definition same_set (a b : list seq) : Prop := forall s, In s a <-> In s b.
