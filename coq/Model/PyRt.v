(* Runtime support for the Python-subset -> Gallina translator (harness/translate/py2coq.py).
   Definitions only; the lemmas used by the equality proofs are in Proofs/Py2CoqProofs.v.

   lres S R   result of a translated loop:
                Continue s   the loop ended (exhausted or `break`) with the live locals s;
                             the code after the loop consumes s
                Done r       the function returned / raised from inside the loop with result r
   pyres A    result type for target functions whose hand model has no error enum
   py_index   xs[i] for an arbitrary integer index with Python's semantics (negative indices
              count from the end, None = IndexError) *)
From MoPep Require Import Model.Base.
Open Scope Z_scope.

Inductive lres (S R : Type) := Continue (s : S) | Done (r : R).
Arguments Continue {S R} s.
Arguments Done {S R} r.

Inductive pyerr := PyIndexError | PyTypeError | PyUnboundLocalError | PyValueError | PyOutOfFuel.
Inductive pyres (A : Type) := POk (a : A) | PErr (e : pyerr).
Arguments POk {A} a.
Arguments PErr {A} e.

Definition py_index {A} (xs : list A) (i : Z) : option A :=
  if i <? 0 then
    (if Z.of_nat (length xs) + i <? 0 then None else nth_error xs (Z.to_nat (Z.of_nat (length xs) + i)))
  else nth_error xs (Z.to_nat i).

(* `x or k` for x : int | None *)
Definition py_or_optZ (x : option Z) (k : Z) : Z :=
  match x with Some f => if f =? 0 then k else f | None => k end.
