(* Runtime support for the Python-subset -> Gallina translator (harness/translate/py2coq.py).
   Definitions only; the lemmas used by the equality proofs are in Proofs/Py2CoqProofs.v.

   lres S R   result of a translated loop:
                Continue s   the loop ended (exhausted or `break`) with the live locals s;
                             the code after the loop consumes s
                Done r       the function returned / raised from inside the loop with result r
   pyres A    result type for target functions whose hand model has no error enum
   py_index   xs[i] for an arbitrary integer index with Python's semantics (negative indices
              count from the end, None = IndexError)
   py_range   range(a, b) as the list it iterates over *)
From MoPep Require Import Model.Base.
Open Scope Z_scope.

Inductive lres (S R : Type) := Continue (s : S) | Done (r : R).
Arguments Continue {S R} s.
Arguments Done {S R} r.

Inductive pyerr := PyIndexError | PyTypeError | PyUnboundLocalError | PyValueError | PyOutOfFuel.
Inductive pyres (A : Type) := POk (a : A) | PErr (e : pyerr).
Arguments POk {A} a.
Arguments PErr {A} e.

Definition py_index {A} (xs : list A) (i : Z) : option A :=
  if i <? 0 then
    (if Z.of_nat (length xs) + i <? 0 then None else nth_error xs (Z.to_nat (Z.of_nat (length xs) + i)))
  else nth_error xs (Z.to_nat i).

(* `x or k` for x : int | None *)
Definition py_or_optZ (x : option Z) (k : Z) : Z :=
  match x with Some f => if f =? 0 then k else f | None => k end.

(* xs[a:] for an arbitrary integer a (negative a counts from the end, clamped at 0) *)
Definition py_slice_from {A} (xs : list A) (a : Z) : list A :=
  if a <? 0 then skipn (Z.to_nat (Z.max 0 (Z.of_nat (length xs) + a))) xs
  else skipn (Z.to_nat a) xs.

(* max(f x for x in xs): None = ValueError (empty sequence) *)
Definition py_max_map {A} (f : A -> Z) (xs : list A) : option Z :=
  match xs with [] => None | x :: t => Some (fold_left Z.max (map f t) (f x)) end.

(* range(a, b): a, a + 1, .., b - 1 (empty when b <= a) *)
Definition py_range (a b : Z) : list Z := range_from a (Z.to_nat (b - a)).
